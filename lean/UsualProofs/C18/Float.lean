import Usual.C18.Num
import Mathlib.Tactic.Linarith
import Mathlib.Tactic.Positivity
import Mathlib.Tactic.FieldSimp
import Mathlib.Tactic.Ring
import Mathlib.Tactic.NormNum
import Mathlib.Algebra.Order.Field.Power
import Mathlib.Data.Rat.Cast.Order
/-!
# C18 — binary64 rounding (`roundRat`) is correctly normalised, and the repaired
`cf_set_time_usec` conversion is exact

`roundRat n d` rounds the positive rational `n/d` to `m·2^e` with relative error ≤ 2⁻⁵³ (for
values in the normal range); from this: the nearest double to `n` microseconds (as seconds),
multiplied by 10⁶, plus 0.5, truncated — the repaired `cf_set_time_usec` — gives back `n`.
-/
namespace UsualProofs.C18
open Usual.C18

/-! ## bit length -/

theorem bitLenF_spec : ∀ (f n : Nat), 0 < n → n < f →
    ∃ b, bitLenF f n = b + 1 ∧ 2 ^ b ≤ n ∧ n < 2 ^ (b + 1) := by
  intro f
  induction f with
  | zero => intro n _ h; omega
  | succ f ih =>
    intro n h0 hf
    have hne : (n == 0) = false := by simp; omega
    unfold bitLenF
    simp only [hne, Bool.false_eq_true, if_false]
    by_cases h1 : n / 2 = 0
    · have : n = 1 := by omega
      subst this
      refine ⟨0, ?_, by norm_num, by norm_num⟩
      cases f with
      | zero => simp [bitLenF]
      | succ f => simp [bitLenF]
    · obtain ⟨b, hb, hlo, hhi⟩ := ih (n / 2) (by omega) (by omega)
      refine ⟨b + 1, by rw [hb], ?_, ?_⟩
      · rw [Nat.pow_succ]; omega
      · rw [Nat.pow_succ]; omega

theorem bitLen_spec (n : Nat) (h : 0 < n) : ∃ b, bitLen n = b + 1 ∧ 2 ^ b ≤ n ∧ n < 2 ^ (b + 1) :=
  bitLenF_spec (n + 1) n h (by omega)

/-! ## scaling by a power of two -/

theorem two_zpow_pos (e : Int) : (0 : ℚ) < 2 ^ e := zpow_pos (by norm_num) e

theorem zpow_toNat {e : Int} (h : 0 ≤ e) : ((2 ^ e.toNat : Nat) : ℚ) = 2 ^ e := by
  have : (e.toNat : Int) = e := Int.toNat_of_nonneg h
  rw [Nat.cast_pow, Nat.cast_ofNat, ← zpow_natCast, this]

theorem zpow_neg_toNat {e : Int} (h : e < 0) : ((2 ^ (-e).toNat : Nat) : ℚ) = (2 ^ e)⁻¹ := by
  rw [zpow_toNat (by omega), zpow_neg]

/-- the exact value of a finite double as a fraction -/
theorem ratOf_val (m : Nat) (e : Int) :
    (0 : ℚ) < ((ratOf m e).2 : ℚ) ∧ ((ratOf m e).1 : ℚ) / (ratOf m e).2 = m * 2 ^ e := by
  unfold ratOf
  by_cases h : e ≥ 0
  · simp only [h, if_true, Nat.cast_one, div_one, Nat.cast_mul, zpow_toNat h]
    norm_num
  · have h' : e < 0 := by omega
    simp only [h, if_false, zpow_neg_toNat h']
    have hp := two_zpow_pos e
    refine ⟨by positivity, ?_⟩
    field_simp

/-- `divScaled` rounds `(n/d)/2^e` to a nearest integer -/
theorem divScaled_spec (n d : Nat) (e : Int) (hd : 0 < d) :
    |((divScaled n d e).1 : ℚ) - (n : ℚ) / d / 2 ^ e| ≤ 1 / 2 := by
  have hdq : (0 : ℚ) < d := by exact_mod_cast hd
  have hp := two_zpow_pos e
  -- the scaled numerator and denominator
  obtain ⟨num, den, hden, hval, hdef⟩ : ∃ num den : Nat, 0 < den ∧
      (num : ℚ) / den = (n : ℚ) / d / 2 ^ e ∧
      (divScaled n d e).1 =
        (if (2 * (num % den) > den || (2 * (num % den) == den && num / den % 2 == 1)) then num / den + 1
         else num / den) := by
    by_cases h : e ≥ 0
    · refine ⟨n, d * 2 ^ e.toNat, by positivity, ?_, ?_⟩
      · rw [Nat.cast_mul, zpow_toNat h]; field_simp
      · simp [divScaled, h]
    · have h' : e < 0 := by omega
      refine ⟨n * 2 ^ (-e).toNat, d, hd, ?_, ?_⟩
      · rw [Nat.cast_mul, zpow_neg_toNat h']; field_simp
      · simp [divScaled, h]
  rw [hdef, ← hval]
  have hdenq : (0 : ℚ) < den := by exact_mod_cast hden
  have hdm : (num : ℚ) = den * (num / den : Nat) + (num % den : Nat) := by
    exact_mod_cast (Nat.div_add_mod num den).symm
  have hr : (num % den : Nat) < den := Nat.mod_lt _ hden
  have hrq : ((num % den : Nat) : ℚ) < den := by exact_mod_cast hr
  have hr0 : (0 : ℚ) ≤ ((num % den : Nat) : ℚ) := by positivity
  have hquot : (num : ℚ) / den = (num / den : Nat) + ((num % den : Nat) : ℚ) / den := by
    rw [hdm]; field_simp
  by_cases hup : (2 * (num % den) > den || (2 * (num % den) == den && num / den % 2 == 1)) = true
  · have h2 : den ≤ 2 * (num % den) := by
      rcases Bool.or_eq_true_iff.mp hup with h | h
      · have : den < 2 * (num % den) := by simpa using h
        omega
      · have := (Bool.and_eq_true_iff.mp h).1
        have : 2 * (num % den) = den := by simpa using this
        omega
    have h2q : (den : ℚ) ≤ 2 * ((num % den : Nat) : ℚ) := by exact_mod_cast h2
    rw [if_pos hup, hquot, Nat.cast_add, Nat.cast_one]
    have : ((num % den : Nat) : ℚ) / den ≤ 1 := by rw [div_le_one hdenq]; linarith
    have h3 : (1 : ℚ) / 2 ≤ ((num % den : Nat) : ℚ) / den := by
      rw [le_div_iff₀ hdenq]; linarith
    rw [abs_le]; constructor <;> linarith
  · have h2 : 2 * (num % den) ≤ den := by
      by_contra hc
      have : den < 2 * (num % den) := by omega
      exact hup (by simp [this])
    have h2q : 2 * ((num % den : Nat) : ℚ) ≤ den := by exact_mod_cast h2
    rw [if_neg hup, hquot]
    have h3 : ((num % den : Nat) : ℚ) / den ≤ 1 / 2 := by
      rw [div_le_iff₀ hdenq]; linarith
    have h4 : (0 : ℚ) ≤ ((num % den : Nat) : ℚ) / den := by positivity
    rw [abs_le]; constructor <;> linarith


/-! ## `roundRat` -/

theorem natpow_cast (b : Nat) : ((2 ^ b : Nat) : ℚ) = (2 : ℚ) ^ (b : Int) := by
  rw [Nat.cast_pow, Nat.cast_ofNat, zpow_natCast]

theorem zpow_lt_imp {a b : Int} (h : (2 : ℚ) ^ a < 2 ^ b) : a < b := by
  by_contra hc
  have : (2 : ℚ) ^ b ≤ 2 ^ a := zpow_le_zpow_right₀ (by norm_num) (by omega)
  linarith

theorem zpow_add2 (a b : Int) : (2 : ℚ) ^ (a + b) = 2 ^ a * 2 ^ b := zpow_add₀ (by norm_num) a b

/-- `roundRat` on a positive rational in the normal range: the result is `some`, non-zero, and
    within relative error 2⁻⁵³ of the argument -/
theorem roundRat_spec (n d : Nat) (hn : 0 < n) (hd : 0 < d)
    (hlo : (2 : ℚ) ^ (-1000 : Int) ≤ (n : ℚ) / d) (hhi : (n : ℚ) / d < 2 ^ (1000 : Int)) :
    ∃ r, roundRat n d = some r ∧ 2 ^ 52 ≤ r.m ∧
      |(r.m : ℚ) * 2 ^ r.e - (n : ℚ) / d| ≤ (n : ℚ) / d * 2 ^ (-53 : Int) := by
  have hnq : (0 : ℚ) < n := by exact_mod_cast hn
  have hdq : (0 : ℚ) < d := by exact_mod_cast hd
  obtain ⟨bn, hbn, hn1, hn2⟩ := bitLen_spec n hn
  obtain ⟨bd, hbd, hd1, hd2⟩ := bitLen_spec d hd
  have hn1q : (2 : ℚ) ^ (bn : Int) ≤ n := by rw [← natpow_cast]; exact_mod_cast hn1
  have hn2q : (n : ℚ) < 2 ^ ((bn : Int) + 1) := by
    have : (n : ℚ) < ((2 ^ (bn + 1) : Nat) : ℚ) := by exact_mod_cast hn2
    rwa [natpow_cast, Nat.cast_add, Nat.cast_one] at this
  have hd1q : (2 : ℚ) ^ (bd : Int) ≤ d := by rw [← natpow_cast]; exact_mod_cast hd1
  have hd2q : (d : ℚ) < 2 ^ ((bd : Int) + 1) := by
    have : (d : ℚ) < ((2 ^ (bd + 1) : Nat) : ℚ) := by exact_mod_cast hd2
    rwa [natpow_cast, Nat.cast_add, Nat.cast_one] at this
  -- e0 and the bracket 2^(e0+52) ≤ v < 2^(e0+54)
  obtain ⟨e0, he0⟩ : ∃ e0 : Int, e0 = (bn : Int) - bd - 53 := ⟨_, rfl⟩
  have hE0 : ((bitLen n : Nat) : Int) - ((bitLen d : Nat) : Int) - 53 = e0 := by
    rw [hbn, hbd, he0]; push_cast; ring
  have hv_lo : (2 : ℚ) ^ (e0 + 52) ≤ (n : ℚ) / d := by
    rw [le_div_iff₀ hdq]
    have h1 : (2 : ℚ) ^ (e0 + 52) * d ≤ 2 ^ (e0 + 52) * 2 ^ ((bd : Int) + 1) :=
      mul_le_mul_of_nonneg_left hd2q.le (two_zpow_pos _).le
    have h2 : (2 : ℚ) ^ (e0 + 52) * 2 ^ ((bd : Int) + 1) = 2 ^ (bn : Int) := by
      rw [← zpow_add2]; congr 1; rw [he0]; ring
    linarith
  have hv_hi : (n : ℚ) / d < 2 ^ (e0 + 54) := by
    rw [div_lt_iff₀ hdq]
    have h1 : (2 : ℚ) ^ (e0 + 54) * 2 ^ (bd : Int) ≤ 2 ^ (e0 + 54) * d :=
      mul_le_mul_of_nonneg_left hd1q (two_zpow_pos _).le
    have h2 : (2 : ℚ) ^ (e0 + 54) * 2 ^ (bd : Int) = 2 ^ ((bn : Int) + 1) := by
      rw [← zpow_add2]; congr 1; rw [he0]; ring
    linarith
  have he0_lo : -1054 < e0 := by
    have := zpow_lt_imp (lt_of_le_of_lt hlo hv_hi); omega
  have he0_hi : e0 < 948 := by
    have := zpow_lt_imp (lt_of_le_of_lt hv_lo hhi); omega
  -- the first quotient
  obtain ⟨q0, hq0⟩ : ∃ q0 : Nat, q0 =
      (if e0 ≥ 0 then n / (d * 2 ^ e0.toNat) else (n * 2 ^ (-e0).toNat) / d) := ⟨_, rfl⟩
  have hq0_le : (q0 : ℚ) ≤ (n : ℚ) / d / 2 ^ e0 := by
    have hp := two_zpow_pos e0
    by_cases h : e0 ≥ 0
    · rw [hq0, if_pos h]
      have h1 : n / (d * 2 ^ e0.toNat) * (d * 2 ^ e0.toNat) ≤ n := Nat.div_mul_le_self _ _
      have h2 : ((n / (d * 2 ^ e0.toNat) : Nat) : ℚ) * ((d : ℚ) * 2 ^ e0) ≤ n := by
        have : ((n / (d * 2 ^ e0.toNat) * (d * 2 ^ e0.toNat) : Nat) : ℚ) ≤ n := by exact_mod_cast h1
        rwa [Nat.cast_mul, Nat.cast_mul, zpow_toNat h] at this
      rw [div_div, le_div_iff₀ (by positivity)]
      exact h2
    · have h' : e0 < 0 := by omega
      rw [hq0, if_neg h]
      have h1 : n * 2 ^ (-e0).toNat / d * d ≤ n * 2 ^ (-e0).toNat := Nat.div_mul_le_self _ _
      have h2 : ((n * 2 ^ (-e0).toNat / d : Nat) : ℚ) * d ≤ (n : ℚ) * (2 ^ e0)⁻¹ := by
        have : ((n * 2 ^ (-e0).toNat / d * d : Nat) : ℚ) ≤ ((n * 2 ^ (-e0).toNat : Nat) : ℚ) := by
          exact_mod_cast h1
        rwa [Nat.cast_mul, Nat.cast_mul, zpow_neg_toNat h'] at this
      rw [div_div, le_div_iff₀ (by positivity)]
      calc ((n * 2 ^ (-e0).toNat / d : Nat) : ℚ) * ((d : ℚ) * 2 ^ e0)
          = ((n * 2 ^ (-e0).toNat / d : Nat) : ℚ) * d * 2 ^ e0 := by ring
        _ ≤ (n : ℚ) * (2 ^ e0)⁻¹ * 2 ^ e0 := mul_le_mul_of_nonneg_right h2 hp.le
        _ = n := by field_simp
  -- e1 and the normalisation 2^(e1+52) ≤ v
  obtain ⟨e1, he1⟩ : ∃ e1 : Int, e1 = (if q0 ≥ 2 ^ 53 then e0 + 1 else e0) := ⟨_, rfl⟩
  have he1_range : e0 ≤ e1 ∧ e1 ≤ e0 + 1 := by
    rw [he1]; split <;> omega
  have hnorm : (2 : ℚ) ^ (e1 + 52) ≤ (n : ℚ) / d := by
    by_cases hq : q0 ≥ 2 ^ 53
    · rw [he1, if_pos hq]
      have h1 : ((2 ^ 53 : Nat) : ℚ) ≤ q0 := by exact_mod_cast hq
      rw [natpow_cast] at h1
      have h2 : (2 : ℚ) ^ ((53 : Nat) : Int) ≤ (n : ℚ) / d / 2 ^ e0 := le_trans h1 hq0_le
      rw [le_div_iff₀ (two_zpow_pos e0), ← zpow_add2] at h2
      have : ((53 : Nat) : Int) + e0 = e0 + 1 + 52 := by push_cast; ring
      rwa [this] at h2
    · rw [he1, if_neg hq]; exact hv_lo
  have hclamp : ¬ (e1 < -1074) := by omega
  -- the rounded quotient
  have hp1 := two_zpow_pos e1
  have hdiv := divScaled_spec n d e1 hd
  rcases hdv : divScaled n d e1 with ⟨q, inex⟩
  rw [hdv] at hdiv
  simp only [] at hdiv
  have hquot_lo : (2 : ℚ) ^ (52 : Int) ≤ (n : ℚ) / d / 2 ^ e1 := by
    rw [le_div_iff₀ hp1, ← zpow_add2]
    have : (52 : Int) + e1 = e1 + 52 := by ring
    rw [this]; exact hnorm
  have hq_big : 2 ^ 52 ≤ q := by
    have h1 := (abs_le.mp hdiv).1
    have h2 : (2 : ℚ) ^ (52 : Int) = 4503599627370496 := by norm_num
    have : (4503599627370495 : ℚ) < q := by linarith
    have : 4503599627370495 < q := by exact_mod_cast this
    norm_num; omega
  have hq_pos : 0 < q := by
    have : 0 < 2 ^ 52 := by norm_num
    omega
  -- the value error
  have herr : |(q : ℚ) * 2 ^ e1 - (n : ℚ) / d| ≤ (n : ℚ) / d * 2 ^ (-53 : Int) := by
    have h1 : (q : ℚ) * 2 ^ e1 - (n : ℚ) / d = ((q : ℚ) - (n : ℚ) / d / 2 ^ e1) * 2 ^ e1 := by
      field_simp
    rw [h1, abs_mul, abs_of_pos hp1]
    have h2 : |(q : ℚ) - (n : ℚ) / d / 2 ^ e1| * 2 ^ e1 ≤ 1 / 2 * 2 ^ e1 :=
      mul_le_mul_of_nonneg_right hdiv hp1.le
    have h3 : (1 : ℚ) / 2 * 2 ^ e1 = 2 ^ (e1 + 52) * 2 ^ (-53 : Int) := by
      rw [← zpow_add2]
      have : e1 + 52 + -53 = e1 + -1 := by ring
      rw [this, zpow_add2]; norm_num; ring
    have h4 : (2 : ℚ) ^ (e1 + 52) * 2 ^ (-53 : Int) ≤ (n : ℚ) / d * 2 ^ (-53 : Int) :=
      mul_le_mul_of_nonneg_right hnorm (two_zpow_pos _).le
    linarith
  -- assemble
  have hn0 : (n == 0) = false := by simp; omega
  by_cases h53 : (q == 2 ^ 53) = true
  · have hq53 : q = 2 ^ 53 := by simpa using h53
    refine ⟨⟨2 ^ 52, e1 + 1, inex⟩, ?_, Nat.le_refl _, ?_⟩
    · unfold roundRat
      simp only [hn0, Bool.false_eq_true, if_false, hE0, ← hq0, ← he1, hclamp, hdv, h53, if_true]
      have hm : ((2 : Nat) ^ 52 == 0) = false := by decide
      have he : ¬ (e1 + 1 > 971) := by omega
      simp [hm, he]
    · have : ((2 ^ 52 : Nat) : ℚ) * 2 ^ (e1 + 1) = (q : ℚ) * 2 ^ e1 := by
        rw [hq53, zpow_add2]; norm_num; ring
      simp only [] at this ⊢
      rw [this]; exact herr
  · refine ⟨⟨q, e1, inex⟩, ?_, hq_big, herr⟩
    unfold roundRat
    simp only [hn0, Bool.false_eq_true, if_false, hE0, ← hq0, ← he1, hclamp, hdv, h53]
    have hm : (q == 0) = false := by simp; omega
    have he : ¬ (e1 > 971) := by omega
    simp [hm, he]


/-! ## the repaired `cf_set_time_usec` conversion is exact -/

theorem lo_ok {v : ℚ} (h : 1 / 1048576 ≤ v) : (2 : ℚ) ^ (-1000 : Int) ≤ v := by
  have h1 : (2 : ℚ) ^ (-1000 : Int) ≤ 2 ^ (-20 : Int) := zpow_le_zpow_right₀ (by norm_num) (by norm_num)
  have h2 : (2 : ℚ) ^ (-20 : Int) = 1 / 1048576 := by norm_num
  exact le_trans h1 (h2 ▸ h)

theorem hi_ok {v : ℚ} (h : v < 1125899906842624) : v < (2 : ℚ) ^ (1000 : Int) := by
  have h1 : (2 : ℚ) ^ (50 : Int) ≤ 2 ^ (1000 : Int) := zpow_le_zpow_right₀ (by norm_num) (by norm_num)
  have h2 : (2 : ℚ) ^ (50 : Int) = 1125899906842624 := by norm_num
  exact lt_of_lt_of_le (h2 ▸ h) h1

theorem u53 : (2 : ℚ) ^ (-53 : Int) = 1 / 9007199254740992 := by norm_num

theorem dblOfRat_some (neg : Bool) (n d : Nat) (r : Rounded) (h : roundRat n d = some r) :
    dblOfRat neg n d = .fin neg r.m r.e := by
  unfold dblOfRat; rw [h]

theorem timeToUsec_fin (neg : Bool) (m : Nat) (e : Int) (p s : Rounded)
    (h2 : roundRat ((ratOf m e).1 * 1000000) (ratOf m e).2 = some p)
    (h3 : roundRat (2 * (ratOf p.m p.e).1 + (ratOf p.m p.e).2) (2 * (ratOf p.m p.e).2) = some s)
    (hr : (ratOf s.m s.e).1 < 2 ^ 64 * (ratOf s.m s.e).2) :
    timeToUsec (.fin neg m e) = some ((ratOf s.m s.e).1 / (ratOf s.m s.e).2) := by
  show timeToUsecFin m e = _
  unfold timeToUsecFin
  rw [h2]
  show usecAddHalf p = _
  unfold usecAddHalf
  rw [h3]
  show usecTrunc s = _
  unfold usecTrunc
  rw [if_pos hr]

/-- **F24 is exact.**  Take any `n < 2^40` microseconds (12.7 days) and any fraction `a/b` equal to
    `n/10^6` seconds.  Let `x` be the binary64 nearest to it (what a correctly rounded `strtod`
    returns for any spelling of that value).  Then `USEC * x + 0.5`, computed in binary64 and
    truncated — the repaired `cf_set_time_usec` — is exactly `n`. -/
theorem timeToUsec_exact_frac (a b n : Nat) (hb : 0 < b) (hn : n < 2 ^ 40) (hab : a * 1000000 = n * b) :
    timeToUsec (dblOfRat false a b) = some n := by
  by_cases h0 : n = 0
  · subst h0
    have : a = 0 := by omega
    subst this
    have : roundRat 0 b = some ⟨0, 0, false⟩ := by simp [roundRat]
    rw [dblOfRat_some false 0 b _ this]
    decide +kernel
  have hn0 : 0 < n := by omega
  have ha0 : 0 < a := by
    rcases Nat.eq_zero_or_pos a with h | h
    · subst h
      have : 0 < n * b := Nat.mul_pos hn0 hb
      omega
    · exact h
  have hbq : (0 : ℚ) < b := by exact_mod_cast hb
  have hfrac : (a : ℚ) / b = (n : ℚ) / 1000000 := by
    rw [div_eq_div_iff hbq.ne' (by norm_num)]
    exact_mod_cast hab
  have hN1 : (1 : ℚ) ≤ n := by exact_mod_cast hn0
  have hN2 : (n : ℚ) < 1099511627776 := by
    have : n < 1099511627776 := by norm_num at hn; exact hn
    exact_mod_cast this
  -- first rounding: x ≈ n / 10^6
  obtain ⟨r1, hr1, hm1', herr1⟩ := roundRat_spec a b ha0 hb
    (lo_ok (by rw [hfrac, div_le_div_iff₀ (by norm_num) (by norm_num)]; linarith))
    (hi_ok (by rw [hfrac, div_lt_iff₀ (by norm_num)]; linarith))
  have hm1 : 0 < r1.m := by have : 0 < 2 ^ 52 := by norm_num
                            omega
  rw [hfrac] at herr1
  obtain ⟨hb1, hval1⟩ := ratOf_val r1.m r1.e
  rw [u53] at herr1
  have hx := abs_le.mp herr1
  push_cast at hx
  -- t = 10^6 x is within 2^-13 of n
  obtain ⟨t, ht⟩ : ∃ t : ℚ, t = (r1.m : ℚ) * 2 ^ r1.e * 1000000 := ⟨_, rfl⟩
  have ht_lo : (n : ℚ) - 1 / 8192 ≤ t := by rw [ht]; linarith [hx.1]
  have ht_hi : t ≤ (n : ℚ) + 1 / 8192 := by rw [ht]; linarith [hx.2]
  have ha1 : 0 < (ratOf r1.m r1.e).1 := by
    have hpos : (0 : ℚ) < (r1.m : ℚ) * 2 ^ r1.e := by
      have : (0 : ℚ) < r1.m := by exact_mod_cast hm1
      exact mul_pos this (two_zpow_pos _)
    rw [← hval1] at hpos
    have := (div_pos_iff_of_pos_right hb1).mp hpos
    exact_mod_cast this
  have hb1n : 0 < (ratOf r1.m r1.e).2 := by exact_mod_cast hb1
  have hv2 : (((ratOf r1.m r1.e).1 * 1000000 : Nat) : ℚ) / (ratOf r1.m r1.e).2 = t := by
    rw [ht, ← hval1]; push_cast; field_simp
  -- second rounding: y ≈ t
  obtain ⟨r2, hr2, _, herr2⟩ := roundRat_spec ((ratOf r1.m r1.e).1 * 1000000) (ratOf r1.m r1.e).2
    (by positivity) hb1n
    (lo_ok (by rw [hv2]; linarith)) (hi_ok (by rw [hv2]; linarith))
  rw [hv2, u53] at herr2
  have hy := abs_le.mp herr2
  obtain ⟨hb2, hval2⟩ := ratOf_val r2.m r2.e
  obtain ⟨y, hyd⟩ : ∃ y : ℚ, y = (r2.m : ℚ) * 2 ^ r2.e := ⟨_, rfl⟩
  rw [← hyd] at hy hval2
  have hy_lo : (n : ℚ) - 1 / 2048 ≤ y := by linarith [hy.1]
  have hy_hi : y ≤ (n : ℚ) + 1 / 2048 := by linarith [hy.2]
  have hb2n : 0 < (ratOf r2.m r2.e).2 := by exact_mod_cast hb2
  have hv3 : ((2 * (ratOf r2.m r2.e).1 + (ratOf r2.m r2.e).2 : Nat) : ℚ) / ((2 * (ratOf r2.m r2.e).2 : Nat) : ℚ)
      = y + 1 / 2 := by
    rw [← hval2]; push_cast; field_simp
  -- third rounding: z ≈ y + 1/2
  obtain ⟨r3, hr3, _, herr3⟩ := roundRat_spec (2 * (ratOf r2.m r2.e).1 + (ratOf r2.m r2.e).2)
    (2 * (ratOf r2.m r2.e).2) (by omega) (by omega)
    (lo_ok (by rw [hv3]; linarith)) (hi_ok (by rw [hv3]; linarith))
  rw [hv3, u53] at herr3
  have hz := abs_le.mp herr3
  obtain ⟨hb3, hval3⟩ := ratOf_val r3.m r3.e
  obtain ⟨z, hzd⟩ : ∃ z : ℚ, z = (r3.m : ℚ) * 2 ^ r3.e := ⟨_, rfl⟩
  rw [← hzd] at hz hval3
  have hz_lo : (n : ℚ) ≤ z := by linarith [hz.1]
  have hz_hi : z < (n : ℚ) + 1 := by linarith [hz.2]
  have hb3n : 0 < (ratOf r3.m r3.e).2 := by exact_mod_cast hb3
  -- back to natural numbers
  have hA : (z : ℚ) * (ratOf r3.m r3.e).2 = (ratOf r3.m r3.e).1 := by
    rw [← hval3]; field_simp
  have hlo : n * (ratOf r3.m r3.e).2 ≤ (ratOf r3.m r3.e).1 := by
    have : (n : ℚ) * (ratOf r3.m r3.e).2 ≤ (ratOf r3.m r3.e).1 := by
      rw [← hA]; exact mul_le_mul_of_nonneg_right hz_lo hb3.le
    exact_mod_cast this
  have hhi : (ratOf r3.m r3.e).1 < (n + 1) * (ratOf r3.m r3.e).2 := by
    have : ((ratOf r3.m r3.e).1 : ℚ) < ((n : ℚ) + 1) * (ratOf r3.m r3.e).2 := by
      rw [← hA]; exact mul_lt_mul_of_pos_right hz_hi hb3
    exact_mod_cast this
  have hrange : (ratOf r3.m r3.e).1 < 2 ^ 64 * (ratOf r3.m r3.e).2 := by
    have h1 : (n + 1) * (ratOf r3.m r3.e).2 ≤ 2 ^ 64 * (ratOf r3.m r3.e).2 :=
      Nat.mul_le_mul_right _ (by norm_num at hn ⊢; omega)
    omega
  have hdivn : (ratOf r3.m r3.e).1 / (ratOf r3.m r3.e).2 = n := Nat.div_eq_of_lt_le hlo hhi
  -- unfold the model
  rw [dblOfRat_some false a b r1 hr1, timeToUsec_fin false r1.m r1.e r2 r3 hr2 hr3 hrange, hdivn]

theorem timeToUsec_exact (n : Nat) (hn : n < 2 ^ 40) :
    timeToUsec (dblOfRat false n 1000000) = some n :=
  timeToUsec_exact_frac n 1000000 n (by norm_num) hn rfl

end UsualProofs.C18
