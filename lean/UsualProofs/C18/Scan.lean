import UsualProofs.C18.LineSpec
/-!
# C18 — `scanFile` (model of parse_ini_file_internal) = `specFile` (line grammar), and what
follows from it: no access outside the buffer, buffer intact, fuel never runs out.
-/
namespace UsualProofs.C18
open Usual.C18

variable {σ : Type}

theorem view_loadBuf (content : Bytes) : View (loadBuf content) 0 (content.takeWhile (· != 0)) := by
  refine ⟨?_, ?_⟩
  · intro c hc
    have := mem_takeWhile_imp hc
    simpa using this
  · have hd := takeWhile_append_dropWhile (· != 0) content
    cases hdw : content.dropWhile (· != 0) with
    | nil =>
      refine ⟨[], ?_⟩
      rw [hdw, List.append_nil] at hd
      simp [loadBuf, hd]
    | cons z r =>
      have hz : (z != 0) = false := head_dropWhile_false (p := fun x => x != 0) hdw
      have hz0 : z = 0 := by simpa using hz
      subst hz0
      refine ⟨r ++ [0], ?_⟩
      rw [hdw] at hd
      simp only [loadBuf, List.drop_zero]
      conv => lhs; rw [← hd]
      simp

theorem length_takeWhile_loadBuf (content : Bytes) :
    (content.takeWhile (· != 0)).length < (loadBuf content).length + 1 := by
  have := length_takeWhile_le (· != 0) content
  simp [loadBuf]; omega

/-- the loop over a freshly loaded file: line grammar of the text before the first NUL, and the
    buffer is intact at the end -/
theorem loop_loadBuf (incl : Bytes → σ → σ × Option Err) (h : σ → Event → σ × Bool) (level : Nat)
    (content : Bytes) (st : σ) :
    let o := loop incl h level ((loadBuf content).length + 1) (loadBuf content) 0 st
    (o.st, o.err, o.first) = runLines incl h level (fileLines content) st ∧
      (o.err = none → o.buf = loadBuf content) := by
  have hv := view_loadBuf content
  have := loop_ref incl h level ((loadBuf content).length + 1) (loadBuf content) 0 _ st hv
  refine ⟨?_, this.2⟩
  rw [this.1, refLoop_eq_G incl h level _ _ st (length_takeWhile_loadBuf content)]
  rfl

theorem scanFile_eq_spec (fs : Bytes → Option Bytes) (h : σ → Event → σ × Bool) :
    ∀ (depth : Nat) (name : Bytes) (level : Nat) (st : σ),
      scanFile fs h depth name level st = specFile fs h depth name level st := by
  intro depth
  induction depth with
  | zero => intro name level st; rfl
  | succ d ih =>
    intro name level st
    unfold scanFile specFile
    cases hf : fs name with
    | none => rfl
    | some content =>
      simp only []
      simp only [ih]
      exact (loop_loadBuf _ h level content st).1

/-! ## which errors can come out -/

/-- a result that does not carry one of the two model-only errors -/
def Real (r : σ × Option Err × Option Err) : Prop :=
  r.2.1 ≠ some .oob ∧ r.2.1 ≠ some .fuel ∧ r.2.2 ≠ some .oob ∧ r.2.2 ≠ some .fuel

def RealIncl (incl : Bytes → σ → σ × Option Err) : Prop :=
  ∀ nm s, (incl nm s).2 ≠ some .oob ∧ (incl nm s).2 ≠ some .fuel

theorem runItems_real (incl : Bytes → σ → σ × Option Err) (h : σ → Event → σ × Bool) (level : Nat)
    (hi : level < MAX_INCLUDE → RealIncl incl) :
    ∀ (is : List Item) (st : σ), Real (runItems incl h level is st) := by
  intro is
  induction is with
  | nil => intro st; simp [runItems, Real]
  | cons i is ih =>
    intro st
    cases i with
    | sect n =>
      simp only [runItems]
      rcases h st (Event.sect n) with ⟨st', _ | _⟩
      · simp [Real]
      · simpa using ih st'
    | kv k v =>
      simp only [runItems]
      rcases h st (Event.kv k v) with ⟨st', _ | _⟩
      · simp [Real]
      · simpa using ih st'
    | incl f =>
      simp only [runItems]
      by_cases hl : level ≥ MAX_INCLUDE
      · simp [hl, Real]
      · simp only [hl, if_false]
        have := hi (by omega) f st
        rcases hx : incl f st with ⟨st', _ | e⟩
        · simpa using ih st'
        · rw [hx] at this
          simp only [Real, ne_eq, Option.some.injEq, reduceCtorEq, not_false_eq_true, true_and]
          exact ⟨fun e1 => this.1 (by rw [e1]), fun e1 => this.2 (by rw [e1])⟩

theorem runLines_real (incl : Bytes → σ → σ × Option Err) (h : σ → Event → σ × Bool) (level : Nat)
    (hi : level < MAX_INCLUDE → RealIncl incl) :
    ∀ (ls : List Bytes) (st : σ), Real (runLines incl h level ls st) := by
  intro ls
  induction ls with
  | nil => intro st; simp [runLines, Real]
  | cons l ls ih =>
    intro st
    simp only [runLines]
    have := runItems_real incl h level hi (lineItems (l.length + 1) l).1 st
    rcases hx : runItems incl h level (lineItems (l.length + 1) l).1 st with ⟨st', _ | e, f⟩
    · simp only []
      by_cases hw : (lineItems (l.length + 1) l).2 = true
      · simpa [hw] using ih st'
      · simp [hw, Real]
    · rw [hx] at this; exact this

/-- with `depth + level > MAX_INCLUDE` the recursion never runs out of fuel, and no access
    leaves a buffer -/
theorem specFile_real (fs : Bytes → Option Bytes) (h : σ → Event → σ × Bool) :
    ∀ (depth : Nat) (name : Bytes) (level : Nat) (st : σ), MAX_INCLUDE < depth + level → 0 < depth →
      Real (specFile fs h depth name level st) := by
  intro depth
  induction depth with
  | zero => intro _ _ _ _ h0; omega
  | succ d ih =>
    intro name level st hd _
    unfold specFile
    cases hf : fs name with
    | none => simp [Real]
    | some content =>
      simp only []
      apply runLines_real
      intro hl nm s
      have := ih nm (level + 1) s (by omega) (by unfold MAX_INCLUDE at *; omega)
      show (match (specFile fs h d nm (level + 1) s).2.1 with
            | none => none | some _ => (specFile fs h d nm (level + 1) s).2.2) ≠ some Err.oob ∧
          (match (specFile fs h d nm (level + 1) s).2.1 with
            | none => none | some _ => (specFile fs h d nm (level + 1) s).2.2) ≠ some Err.fuel
      rcases hx : specFile fs h d nm (level + 1) s with ⟨s', _ | e, f⟩
      · simp
      · rw [hx] at this
        exact ⟨this.2.2.1, this.2.2.2⟩

end UsualProofs.C18
