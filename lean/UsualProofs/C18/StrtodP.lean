import UsualProofs.C18.Float
import UsualProofs.C18.NumP
/-!
# C18 — the concrete `strtod` model on plain decimal spellings `digits[.digits]`, and the
exactness of `cf_set_time_usec` on every such spelling
-/
namespace UsualProofs.C18
open Usual.C18

theorem digitCh_facts2 : ∀ d, d < 10 →
    toLower (digitCh d) ≠ 105 ∧ toLower (digitCh d) ≠ 110 ∧
    ((digitCh d).toNat == 120 || (digitCh d).toNat == 88) = false := by decide

/-- value of a digit string, continuing from `acc` -/
def decVal (l : Bytes) (acc : Nat) : Nat := l.foldl (fun a c => a * 10 + (c.toNat - 48)) acc

theorem decVal_append (a b : Bytes) (acc : Nat) : decVal (a ++ b) acc = decVal b (decVal a acc) := by
  unfold decVal; rw [List.foldl_append]

/-- a tail at which reading decimal digits stops -/
def Stops10 (r : Bytes) : Prop := r = [] ∨ ∃ c t, r = c :: t ∧ digitIn 10 c = none

theorem readDigits_digits : ∀ (l : Bytes) (r : Bytes) (acc k : Nat), AllDig l → Stops10 r →
    readDigits 10 (l ++ r) acc k = (decVal l acc, k + l.length) := by
  intro l
  induction l with
  | nil =>
    intro r acc k _ hr
    rcases hr with rfl | ⟨c, t, rfl, hc⟩
    · rfl
    · simp [readDigits, hc, decVal]
  | cons c t ih =>
    intro r acc k hl hr
    obtain ⟨d, hd, rfl⟩ := hl c (by simp)
    have fc := digitCh_facts d hd
    have := ih r (acc * 10 + d) (k + 1) (fun x hx => hl x (by simp [hx])) hr
    simp only [List.cons_append, readDigits, fc.1, this, List.length_cons]
    have e : (digitCh d).toNat - 48 = d := by rw [fc.2.2.2.2.2]; omega
    simp only [decVal, List.foldl_cons, e]
    congr 1; omega

theorem lowerEq_head_ne (c l : UInt8) (t ls : Bytes) (h : toLower c ≠ l) : lowerEq (c :: t) (l :: ls) = false := by
  unfold lowerEq
  have : ((c :: t).take (l :: ls).length).map toLower = toLower c :: (t.take ls.length).map toLower := rfl
  rw [this]
  have : (toLower c :: (t.take ls.length).map toLower == l :: ls) = false := by
    apply beq_false_of_ne
    intro e
    simp only [List.cons.injEq] at e
    exact h e.1
  rw [this]; rfl

/-- `strtod` (the concrete model) on `ip.fp`, `ip` and `fp` decimal digits, `ip` not empty -/
theorem strtodC_plain (ip fp : Bytes) (hip : AllDig ip) (hne : ip ≠ []) (hfp : AllDig fp) :
    strtodC (ip ++ 46 :: fp) =
      if decVal (ip ++ fp) 0 == 0 then ⟨.fin false 0 0, (ip ++ 46 :: fp).length, false⟩
      else finish false (decVal (ip ++ fp) 0 * 10 ^ 0) (10 ^ (fp.length + 0)) (ip ++ 46 :: fp).length := by
  obtain ⟨c0, ipt, rfl⟩ : ∃ c0 ipt, ip = c0 :: ipt := by
    cases ip with
    | nil => exact absurd rfl hne
    | cons c t => exact ⟨c, t, rfl⟩
  obtain ⟨d0, hd0, rfl⟩ := hip c0 (by simp)
  have fc := digitCh_facts d0 hd0
  have fc2 := digitCh_facts2 d0 hd0
  have h46 : digitIn 10 46 = none := by decide
  -- leading whitespace, sign, inf/nan
  have hsp : ((digitCh d0 :: ipt) ++ 46 :: fp).takeWhile isSpace = [] := by simp [fc.2.1]
  have hdp : ((digitCh d0 :: ipt) ++ 46 :: fp).dropWhile isSpace = (digitCh d0 :: ipt) ++ 46 :: fp := by
    simp [fc.2.1]
  have hsg : readSign ((digitCh d0 :: ipt) ++ 46 :: fp) = (false, 0, (digitCh d0 :: ipt) ++ 46 :: fp) := by
    simp only [List.cons_append]
    unfold readSign
    split
    · rename_i heq; simp only [List.cons.injEq] at heq; exact absurd heq.1 fc.2.2.1
    · rename_i heq; simp only [List.cons.injEq] at heq; exact absurd heq.1 fc.2.2.2.1
    · rfl
  have hinf1 : lowerEq ((digitCh d0 :: ipt) ++ 46 :: fp) [105, 110, 102, 105, 110, 105, 116, 121] = false :=
    lowerEq_head_ne _ _ _ _ fc2.1
  have hinf2 : lowerEq ((digitCh d0 :: ipt) ++ 46 :: fp) [105, 110, 102] = false :=
    lowerEq_head_ne _ _ _ _ fc2.1
  have hnan : lowerEq ((digitCh d0 :: ipt) ++ 46 :: fp) [110, 97, 110] = false :=
    lowerEq_head_ne _ _ _ _ fc2.2.1
  -- not a hex float: the second character is a digit or the dot
  have hx : ∀ x ∈ ipt ++ 46 :: fp, (x.toNat == 120 || x.toNat == 88) = false := by
    intro x hx
    rcases List.mem_append.mp hx with h | h
    · obtain ⟨d, hd, rfl⟩ := hip x (by simp [h])
      exact (digitCh_facts2 d hd).2.2
    · rcases List.mem_cons.mp h with rfl | h
      · decide
      · obtain ⟨d, hd, rfl⟩ := hfp x h
        exact (digitCh_facts2 d hd).2.2
  have hhex : hexFloatPrefix ((digitCh d0 :: ipt) ++ 46 :: fp) = false := by
    simp only [List.cons_append]
    rcases hrest : ipt ++ 46 :: fp with _ | ⟨x, _ | ⟨h, t⟩⟩
    · unfold hexFloatPrefix; split <;> simp_all
    · unfold hexFloatPrefix; split <;> simp_all
    · have := hx x (by rw [hrest]; simp)
      unfold hexFloatPrefix
      split
      · rename_i heq
        simp only [List.cons.injEq] at heq
        obtain ⟨_, rfl, rfl, rfl⟩ := heq
        simp [this]
      · rfl
  -- the mantissa
  have hrd1 : readDigits 10 ((digitCh d0 :: ipt) ++ 46 :: fp) 0 0 = (decVal (digitCh d0 :: ipt) 0, (digitCh d0 :: ipt).length) := by
    have := readDigits_digits (digitCh d0 :: ipt) (46 :: fp) 0 0 hip (Or.inr ⟨46, fp, rfl, h46⟩)
    simpa using this
  have hdrop : ((digitCh d0 :: ipt) ++ 46 :: fp).drop (digitCh d0 :: ipt).length = 46 :: fp := List.drop_left' rfl
  have hrd2 : readDigits 10 fp (decVal (digitCh d0 :: ipt) 0) 0 = (decVal (digitCh d0 :: ipt ++ fp) 0, fp.length) := by
    have := readDigits_digits fp [] (decVal (digitCh d0 :: ipt) 0) 0 hfp (Or.inl rfl)
    rw [List.append_nil, Nat.zero_add] at this
    rw [this]
    have := decVal_append (digitCh d0 :: ipt) fp 0
    rw [← this]
  have hmant : readMant 10 ((digitCh d0 :: ipt) ++ 46 :: fp) =
      (decVal (digitCh d0 :: ipt ++ fp) 0, fp.length, (digitCh d0 :: ipt).length + 1 + fp.length,
       (digitCh d0 :: ipt).length + fp.length) := by
    unfold readMant
    rw [hrd1]
    simp only [hdrop, hrd2]
    have : ((digitCh d0 :: ipt).length + fp.length == 0) = false := by simp
    simp [this]
  have hdropall : ((digitCh d0 :: ipt) ++ 46 :: fp).drop ((digitCh d0 :: ipt).length + 1 + fp.length) = [] := by
    apply List.drop_eq_nil_of_le
    simp; omega
  have hexp : readExp 101 [] = (false, 0, 0) := rfl
  have hlen : ((digitCh d0 :: ipt) ++ 46 :: fp).length = (digitCh d0 :: ipt).length + 1 + fp.length := by
    simp; omega
  unfold strtodC
  simp only [hsp, hdp, hsg, hinf1, hinf2, hnan, Bool.false_eq_true, if_false, hhex, hmant, hdropall, hexp,
    List.length_nil, Nat.zero_add, Nat.add_zero, hlen]
  have hnd : ((digitCh d0 :: ipt).length + fp.length == 0) = false := by simp
  simp only [hnd, Bool.false_eq_true, if_false]
  by_cases hm : (decVal (digitCh d0 :: ipt ++ fp) 0 == 0) = true
  · simp [hm]
  · simp [hm]


/-- `strtod` (the concrete model) on a string of decimal digits -/
theorem strtodC_int (ip : Bytes) (hip : AllDig ip) (hne : ip ≠ []) :
    strtodC ip =
      if decVal ip 0 == 0 then ⟨.fin false 0 0, ip.length, false⟩
      else finish false (decVal ip 0 * 10 ^ 0) (10 ^ (0 + 0)) ip.length := by
  obtain ⟨c0, ipt, rfl⟩ : ∃ c0 ipt, ip = c0 :: ipt := by
    cases ip with
    | nil => exact absurd rfl hne
    | cons c t => exact ⟨c, t, rfl⟩
  obtain ⟨d0, hd0, rfl⟩ := hip c0 (by simp)
  have fc := digitCh_facts d0 hd0
  have fc2 := digitCh_facts2 d0 hd0
  have hsp : (digitCh d0 :: ipt).takeWhile isSpace = [] := by simp [fc.2.1]
  have hdp : (digitCh d0 :: ipt).dropWhile isSpace = digitCh d0 :: ipt := by simp [fc.2.1]
  have hsg : readSign (digitCh d0 :: ipt) = (false, 0, digitCh d0 :: ipt) := by
    unfold readSign
    split
    · rename_i heq; simp only [List.cons.injEq] at heq; exact absurd heq.1 fc.2.2.1
    · rename_i heq; simp only [List.cons.injEq] at heq; exact absurd heq.1 fc.2.2.2.1
    · rfl
  have hinf1 : lowerEq (digitCh d0 :: ipt) [105, 110, 102, 105, 110, 105, 116, 121] = false :=
    lowerEq_head_ne _ _ _ _ fc2.1
  have hinf2 : lowerEq (digitCh d0 :: ipt) [105, 110, 102] = false := lowerEq_head_ne _ _ _ _ fc2.1
  have hnan : lowerEq (digitCh d0 :: ipt) [110, 97, 110] = false := lowerEq_head_ne _ _ _ _ fc2.2.1
  have hhex : hexFloatPrefix (digitCh d0 :: ipt) = false := by
    rcases hrest : ipt with _ | ⟨x, _ | ⟨h, t⟩⟩
    · unfold hexFloatPrefix; split <;> simp_all
    · unfold hexFloatPrefix; split <;> simp_all
    · obtain ⟨d, hd, hxd⟩ := hip x (by rw [hrest]; simp)
      have := (digitCh_facts2 d hd).2.2
      rw [← hxd] at this
      unfold hexFloatPrefix
      split
      · rename_i heq
        simp only [List.cons.injEq] at heq
        obtain ⟨_, rfl, rfl, rfl⟩ := heq
        simp [this]
      · rfl
  have hrd1 : readDigits 10 (digitCh d0 :: ipt) 0 0 = (decVal (digitCh d0 :: ipt) 0, (digitCh d0 :: ipt).length) := by
    have := readDigits_digits (digitCh d0 :: ipt) [] 0 0 hip (Or.inl rfl)
    simpa using this
  have hdrop : (digitCh d0 :: ipt).drop (digitCh d0 :: ipt).length = [] := List.drop_length
  have hmant : readMant 10 (digitCh d0 :: ipt) =
      (decVal (digitCh d0 :: ipt) 0, 0, (digitCh d0 :: ipt).length, (digitCh d0 :: ipt).length) := by
    unfold readMant
    rw [hrd1]
    simp only [hdrop]
  have hexp : readExp 101 [] = (false, 0, 0) := rfl
  unfold strtodC
  simp only [hsp, hdp, hsg, hinf1, hinf2, hnan, Bool.false_eq_true, if_false, hhex, hmant, hdrop, hexp,
    List.length_nil, Nat.zero_add, Nat.add_zero]
  have hnd : ((digitCh d0 :: ipt).length == 0) = false := by simp
  simp only [hnd, Bool.false_eq_true, if_false]
  by_cases hm : (decVal (digitCh d0 :: ipt) 0 == 0) = true
  · simp [hm]
  · simp [hm]

/-- `finish` on a positive value in the normal range: the nearest double, no ERANGE -/
theorem finish_normal (a b len : Nat) (ha : 0 < a) (hb : 0 < b)
    (hlo : (2 : ℚ) ^ (-1000 : Int) ≤ (a : ℚ) / b) (hhi : (a : ℚ) / b < 2 ^ (1000 : Int)) :
    finish false a b len = ⟨dblOfRat false a b, len, false⟩ := by
  obtain ⟨r, hr, hm, _⟩ := roundRat_spec a b ha hb hlo hhi
  unfold finish
  rw [hr, dblOfRat_some false a b r hr]
  have h52 : (2 : Nat) ^ 52 = 4503599627370496 := by norm_num
  have : ¬ (r.m < 4503599627370496) := by omega
  simp [this]

/-- **every plain decimal spelling is stored exactly.**  Under the concrete libc model, for every
    text `ip.fp` (`ip`, `fp` decimal digits, `ip` not empty, any lengths) whose value is a whole
    number `n < 2^40` of microseconds, `cf_set_time_usec` accepts it and stores exactly `n`. -/
theorem set_time_usec_plain (env : Env) (henv : env.strtod = strtodC) (ip fp : Bytes) (hip : AllDig ip)
    (hne : ip ≠ []) (hfp : AllDig fp) (n : Nat) (hn : n < 2 ^ 40)
    (hval : decVal (ip ++ fp) 0 * 1000000 = n * 10 ^ fp.length) :
    applySetter env .timeUsec (ip ++ 46 :: fp) = some (.usec n) := by
  have hlen : (ip ++ 46 :: fp).length ≠ 0 := by simp
  have hst := strtodC_plain ip fp hip hne hfp
  have hpow : 0 < 10 ^ fp.length := Nat.pow_pos (by norm_num)
  by_cases hm : decVal (ip ++ fp) 0 = 0
  · have hn0 : n = 0 := by
      rw [hm] at hval
      rcases Nat.eq_zero_or_pos n with h | h
      · exact h
      · have h1 : 0 < n * 10 ^ fp.length := Nat.mul_pos h hpow
        have h2 : n * 10 ^ fp.length = 0 := by rw [← hval]
        rw [h2] at h1; exact absurd h1 (Nat.lt_irrefl 0)
    subst hn0
    have hb : (decVal (ip ++ fp) 0 == 0) = true := by simp [hm]
    rw [if_pos hb] at hst
    have hp : parseTime env (ip ++ 46 :: fp) = some (.fin false 0 0) := by
      unfold parseTime
      rw [henv, hst]
      simp [hlen, Dbl.ltZero]
    have h0 : timeToUsec (.fin false 0 0) = some 0 := by decide +kernel
    simp [applySetter, hp, h0]
  · have hb : (decVal (ip ++ fp) 0 == 0) = false := by simp [hm]
    rw [hb] at hst
    simp only [Bool.false_eq_true, if_false, Nat.pow_zero, Nat.mul_one, Nat.add_zero] at hst
    have hmpos : 0 < decVal (ip ++ fp) 0 := Nat.pos_of_ne_zero hm
    have hn0 : 0 < n := by
      rcases Nat.eq_zero_or_pos n with h | h
      · subst h
        have : 0 < decVal (ip ++ fp) 0 * 1000000 := Nat.mul_pos hmpos (by norm_num)
        omega
      · exact h
    have hbq : (0 : ℚ) < ((10 ^ fp.length : Nat) : ℚ) := by exact_mod_cast hpow
    have hfrac : ((decVal (ip ++ fp) 0 : Nat) : ℚ) / ((10 ^ fp.length : Nat) : ℚ) = (n : ℚ) / 1000000 := by
      rw [div_eq_div_iff hbq.ne' (by norm_num)]
      exact_mod_cast hval
    have hN1 : (1 : ℚ) ≤ n := by exact_mod_cast hn0
    have hN2 : (n : ℚ) < 1099511627776 := by
      have : n < 1099511627776 := by norm_num at hn; exact hn
      exact_mod_cast this
    have hfin := finish_normal (decVal (ip ++ fp) 0) (10 ^ fp.length) (ip ++ 46 :: fp).length hmpos hpow
      (lo_ok (by rw [hfrac, div_le_div_iff₀ (by norm_num) (by norm_num)]; linarith))
      (hi_ok (by rw [hfrac, div_lt_iff₀ (by norm_num)]; linarith))
    rw [hfin] at hst
    have hlt : (dblOfRat false (decVal (ip ++ fp) 0) (10 ^ fp.length)).ltZero = false := by
      unfold dblOfRat
      cases roundRat (decVal (ip ++ fp) 0) (10 ^ fp.length) <;> rfl
    have hp : parseTime env (ip ++ 46 :: fp) =
        some (dblOfRat false (decVal (ip ++ fp) 0) (10 ^ fp.length)) := by
      unfold parseTime
      rw [henv, hst]
      simp [hlen, hlt]
    have hex := timeToUsec_exact_frac (decVal (ip ++ fp) 0) (10 ^ fp.length) n hpow hn hval
    simp [applySetter, hp, hex]


/-- the same for a spelling without a decimal point (whole seconds) -/
theorem set_time_usec_int (env : Env) (henv : env.strtod = strtodC) (ip : Bytes) (hip : AllDig ip)
    (hne : ip ≠ []) (n : Nat) (hn : n < 2 ^ 40) (hval : decVal ip 0 * 1000000 = n) :
    applySetter env .timeUsec ip = some (.usec n) := by
  have hlen : ip.length ≠ 0 := fun h => hne (List.eq_nil_of_length_eq_zero h)
  have hst := strtodC_int ip hip hne
  by_cases hm : decVal ip 0 = 0
  · have hn0 : n = 0 := by rw [← hval, hm]
    subst hn0
    have hb : (decVal ip 0 == 0) = true := by simp [hm]
    rw [if_pos hb] at hst
    have hp : parseTime env ip = some (.fin false 0 0) := by
      unfold parseTime
      rw [henv, hst]
      simp [hlen, Dbl.ltZero]
    have h0 : timeToUsec (.fin false 0 0) = some 0 := by decide +kernel
    simp [applySetter, hp, h0]
  · have hb : (decVal ip 0 == 0) = false := by simp [hm]
    rw [hb] at hst
    simp only [Bool.false_eq_true, if_false, Nat.pow_zero, Nat.mul_one, Nat.add_zero] at hst
    have hmpos : 0 < decVal ip 0 := Nat.pos_of_ne_zero hm
    have hn0 : 0 < n := by rw [← hval]; exact Nat.mul_pos hmpos (by norm_num)
    have hfrac : ((decVal ip 0 : Nat) : ℚ) / ((1 : Nat) : ℚ) = (n : ℚ) / 1000000 := by
      rw [div_eq_div_iff (by norm_num) (by norm_num)]
      have : ((decVal ip 0 * 1000000 : Nat) : ℚ) = ((n * 1 : Nat) : ℚ) := by rw [hval, Nat.mul_one]
      exact_mod_cast this
    have hN1 : (1 : ℚ) ≤ n := by exact_mod_cast hn0
    have hN2 : (n : ℚ) < 1099511627776 := by
      have : n < 1099511627776 := by norm_num at hn; exact hn
      exact_mod_cast this
    have hfin := finish_normal (decVal ip 0) 1 ip.length hmpos (by norm_num)
      (lo_ok (by rw [hfrac, div_le_div_iff₀ (by norm_num) (by norm_num)]; linarith))
      (hi_ok (by rw [hfrac, div_lt_iff₀ (by norm_num)]; linarith))
    rw [hfin] at hst
    have hlt : (dblOfRat false (decVal ip 0) 1).ltZero = false := by
      unfold dblOfRat
      cases roundRat (decVal ip 0) 1 <;> rfl
    have hp : parseTime env ip = some (dblOfRat false (decVal ip 0) 1) := by
      unfold parseTime
      rw [henv, hst]
      simp [hlen, hlt]
    have hex := timeToUsec_exact_frac (decVal ip 0) 1 n (by norm_num) hn (by rw [hval, Nat.mul_one])
    simp [applySetter, hp, hex]


/-- `cf_set_time_double` on `ip.fp` with a positive value in `[2^-20, 2^50)`: the binary64 nearest to
    the decimal value is stored (hypotheses on the value as a rational) -/
theorem set_time_double_plainQ (env : Env) (henv : env.strtod = strtodC) (ip fp : Bytes) (hip : AllDig ip)
    (hne : ip ≠ []) (hfp : AllDig fp) (hpos : 0 < decVal (ip ++ fp) 0)
    (h1 : (1 : ℚ) / 1048576 ≤ ((decVal (ip ++ fp) 0 : Nat) : ℚ) / ((10 ^ fp.length : Nat) : ℚ))
    (h2 : ((decVal (ip ++ fp) 0 : Nat) : ℚ) / ((10 ^ fp.length : Nat) : ℚ) < 1125899906842624) :
    applySetter env .timeDouble (ip ++ 46 :: fp) =
      some (.dbl (dblOfRat false (decVal (ip ++ fp) 0) (10 ^ fp.length))) := by
  have hst := strtodC_plain ip fp hip hne hfp
  have hpow : 0 < 10 ^ fp.length := Nat.pow_pos (by norm_num)
  have hb : (decVal (ip ++ fp) 0 == 0) = false := by simp; omega
  rw [hb] at hst
  simp only [Bool.false_eq_true, if_false, Nat.pow_zero, Nat.mul_one, Nat.add_zero] at hst
  have hfin := finish_normal (decVal (ip ++ fp) 0) (10 ^ fp.length) (ip ++ 46 :: fp).length hpos hpow
    (lo_ok h1) (hi_ok h2)
  rw [hfin] at hst
  have hlt : (dblOfRat false (decVal (ip ++ fp) 0) (10 ^ fp.length)).ltZero = false := by
    unfold dblOfRat
    cases roundRat (decVal (ip ++ fp) 0) (10 ^ fp.length) <;> rfl
  have hp : parseTime env (ip ++ 46 :: fp) =
      some (dblOfRat false (decVal (ip ++ fp) 0) (10 ^ fp.length)) := by
    unfold parseTime
    rw [henv, hst]
    simp [hlt]
  simp [applySetter, hp]

/-- the same without a decimal point -/
theorem set_time_double_intQ (env : Env) (henv : env.strtod = strtodC) (ip : Bytes) (hip : AllDig ip)
    (hne : ip ≠ []) (hpos : 0 < decVal ip 0)
    (h1 : (1 : ℚ) / 1048576 ≤ ((decVal ip 0 : Nat) : ℚ) / ((1 : Nat) : ℚ))
    (h2 : ((decVal ip 0 : Nat) : ℚ) / ((1 : Nat) : ℚ) < 1125899906842624) :
    applySetter env .timeDouble ip = some (.dbl (dblOfRat false (decVal ip 0) 1)) := by
  have hlen : ip.length ≠ 0 := fun h => hne (List.eq_nil_of_length_eq_zero h)
  have hst := strtodC_int ip hip hne
  have hb : (decVal ip 0 == 0) = false := by simp; omega
  rw [hb] at hst
  simp only [Bool.false_eq_true, if_false, Nat.pow_zero, Nat.mul_one, Nat.add_zero] at hst
  have hfin := finish_normal (decVal ip 0) 1 ip.length hpos (by norm_num) (lo_ok h1) (hi_ok h2)
  rw [hfin] at hst
  have hlt : (dblOfRat false (decVal ip 0) 1).ltZero = false := by
    unfold dblOfRat
    cases roundRat (decVal ip 0) 1 <;> rfl
  have hp : parseTime env ip = some (dblOfRat false (decVal ip 0) 1) := by
    unfold parseTime
    rw [henv, hst]
    simp [hlen, hlt]
  simp [applySetter, hp]

/-- `cf_set_time_double` on a plain decimal spelling with a positive value below 2^50: the
    binary64 nearest to the decimal value is stored (relative error ≤ 2⁻⁵³, see `roundRat_spec`) -/
theorem set_time_double_plain (env : Env) (henv : env.strtod = strtodC) (ip fp : Bytes) (hip : AllDig ip)
    (hne : ip ≠ []) (hfp : AllDig fp) (hpos : 0 < decVal (ip ++ fp) 0)
    (hlo : 10 ^ fp.length ≤ decVal (ip ++ fp) 0 * 1048576)
    (hhi : decVal (ip ++ fp) 0 < 1125899906842624 * 10 ^ fp.length) :
    applySetter env .timeDouble (ip ++ 46 :: fp) =
      some (.dbl (dblOfRat false (decVal (ip ++ fp) 0) (10 ^ fp.length))) := by
  have hpow : 0 < 10 ^ fp.length := Nat.pow_pos (by norm_num)
  have hbq : (0 : ℚ) < ((10 ^ fp.length : Nat) : ℚ) := by exact_mod_cast hpow
  have h1 : (1 : ℚ) / 1048576 ≤ ((decVal (ip ++ fp) 0 : Nat) : ℚ) / ((10 ^ fp.length : Nat) : ℚ) := by
    rw [div_le_div_iff₀ (by norm_num) hbq]
    have : ((10 ^ fp.length : Nat) : ℚ) ≤ ((decVal (ip ++ fp) 0 * 1048576 : Nat) : ℚ) := by exact_mod_cast hlo
    push_cast at this ⊢
    linarith
  have h2 : ((decVal (ip ++ fp) 0 : Nat) : ℚ) / ((10 ^ fp.length : Nat) : ℚ) < 1125899906842624 := by
    rw [div_lt_iff₀ hbq]
    have : ((decVal (ip ++ fp) 0 : Nat) : ℚ) < ((1125899906842624 * 10 ^ fp.length : Nat) : ℚ) := by
      exact_mod_cast hhi
    push_cast at this ⊢
    linarith
  exact set_time_double_plainQ env henv ip fp hip hne hfp hpos h1 h2

theorem allDig_of_isDigit {l : Bytes} (h : ∀ c ∈ l, isDigit c = true) : AllDig l := by
  intro c hc
  have hd := h c hc
  unfold isDigit at hd
  simp only [Bool.and_eq_true, decide_eq_true_eq] at hd
  refine ⟨c.toNat - 48, by omega, ?_⟩
  apply UInt8.toNat_inj.mp
  unfold digitCh
  rw [UInt8.toNat_ofNat']
  have : 48 + (c.toNat - 48) = c.toNat := by omega
  rw [this]
  have := c.toNat_lt
  omega

end UsualProofs.C18
