import UsualProofs.C18.View
/-!
# C18 — `parse_ini_file_internal` on the remaining text instead of on (buffer, index)

`refStep`/`refLoop` do what `stepAt`/`loop` do, but on the NUL-free rest of the text as a
list: no buffer, no offsets, no patching.  `loop_ref` is the refinement: on a view the model's
loop computes exactly `refLoop`, never reads or writes outside the buffer (no `oob`), and ends
with the buffer it started with.
-/
namespace UsualProofs.C18
open Usual.C18

variable {σ : Type}

inductive RStep (σ : Type) where
  | next (s' : Bytes) (st : σ)
  | done (st : σ)
  | fail (st : σ) (e first : Err)

/-- one round after the leading whitespace has been skipped (`s1` is what follows it) -/
def refBody (incl : Bytes → σ → σ × Option Err) (h : σ → Event → σ × Bool) (level : Nat)
    (s1 : Bytes) (st : σ) : RStep σ :=
  if startsInclude s1 then
    if level ≥ MAX_INCLUDE then .fail st .depth .depth else
    let a := (s1.drop 8).dropWhile isBlank
    match incl (trimRight (a.takeWhile notNl)) st with
    | (st', some e) => .fail st' .incl e
    | (st', none) => .next (a.dropWhile notNl) st'
  else match s1 with
  | [] => .done st
  | c :: t =>
    if c.toNat == 35 || c.toNat == 59 then .next (s1.dropWhile notNl) st
    else if c.toNat == 91 then
      match t.dropWhile sectCh with
      | o :: r =>
        if o.toNat != 93 then .fail st .syntax .syntax else
        match h st (.sect (t.takeWhile sectCh)) with
        | (st', false) => .fail st' .badSect .badSect
        | (st', true) => .next r st'
      | [] => .fail st .syntax .syntax
    else
      match (s1.dropWhile isKeyCh).dropWhile isBlank with
      | e :: r2 =>
        if e.toNat != 61 then .fail st .syntax .syntax else
        let r3 := r2.dropWhile isBlank
        match h st (.kv (s1.takeWhile isKeyCh) (trimRight (r3.takeWhile notNl))) with
        | (st', false) => .fail st' .badVal .badVal
        | (st', true) => .next ((r3.dropWhile notNl).dropWhile isSpace) st'
      | [] => .fail st .syntax .syntax

def refStep (incl : Bytes → σ → σ × Option Err) (h : σ → Event → σ × Bool) (level : Nat)
    (s : Bytes) (st : σ) : RStep σ :=
  refBody incl h level (s.dropWhile isSpace) st

def refLoop (incl : Bytes → σ → σ × Option Err) (h : σ → Event → σ × Bool) (level : Nat) :
    Nat → Bytes → σ → σ × Option Err × Option Err
  | 0, _, st => (st, some .fuel, some .fuel)
  | fuel + 1, s, st =>
    match s with
    | [] => (st, none, none)
    | _ :: _ =>
      match refStep incl h level s st with
      | .next s' st' => refLoop incl h level fuel s' st'
      | .done st' => (st', none, none)
      | .fail st' e f => (st', some e, some f)


/-! ## the branches on a view -/

theorem skip_step (f : UInt8 → Bool) {buf : Bytes} {p : Nat} {s : Bytes} (h : View buf p s) :
    skipWhile f buf buf.length p = some (p + (s.takeWhile f).length) ∧
    View buf (p + (s.takeWhile f).length) (s.dropWhile f) ∧
    (s.takeWhile f).length + (s.dropWhile f).length = s.length := by
  refine ⟨skipWhile_view f s p _ h (by have := view_lt h; omega), view_dropWhile f h, ?_⟩
  have := length_dropWhile f s
  have := length_takeWhile_le f s
  omega

theorem nulFree_includeLit : NulFree includeLit := by
  intro c hc
  simp [includeLit] at hc
  rcases hc with rfl | rfl | rfl | rfl | rfl | rfl | rfl | rfl <;> decide

theorem isIncludeAt_view {buf : Bytes} {p : Nat} {s : Bytes} (h : View buf p s) :
    isIncludeAt buf p = some (startsInclude s) := by
  unfold isIncludeAt startsInclude
  rw [matchLit_view includeLit s p nulFree_includeLit h]
  have hl : includeLit.length = 8 := rfl
  rw [hl]
  by_cases hm : (s.take 8 == includeLit) = true
  · have h8 : 8 ≤ s.length := by
      have := congrArg List.length (eq_of_beq hm)
      simp [includeLit] at this; omega
    rw [hm]
    simp only [Bool.true_and]
    rw [view_rd_at h 8 h8]
    cases hd : s.drop 8 with
    | nil => simp [headBlank]
    | cons c t =>
      have : c ≠ 0 := h.1 c (List.mem_of_mem_drop (hd ▸ List.mem_cons_self))
      simp [this, headBlank]
  · have hm' : (s.take 8 == includeLit) = false := by simpa using hm
    rw [hm']; simp

theorem take_takeWhile_length (f : UInt8 → Bool) (s : Bytes) :
    s.take (s.takeWhile f).length = s.takeWhile f := by
  have := List.take_left' (l₁ := s.takeWhile f) (l₂ := s.dropWhile f) rfl
  rwa [takeWhile_append_dropWhile] at this

/-- include branch -/
theorem doInclude_view (incl : Bytes → σ → σ × Option Err) (level : Nat) {buf : Bytes} {p : Nat}
    {s1 : Bytes} (st : σ) (h1 : View buf p s1) (h8 : 8 ≤ s1.length) (a : Bytes)
    (ha : a = (s1.drop 8).dropWhile isBlank) :
    doInclude incl level buf p st =
      if level ≥ MAX_INCLUDE then .fail st .depth .depth else
      match incl (trimRight (a.takeWhile notNl)) st with
      | (st', some e) => .fail st' .incl e
      | (st', none) => .next buf (p + 8 + ((s1.drop 8).takeWhile isBlank).length +
                                  (a.takeWhile notNl).length) st' := by
  have hd := view_drop h1 8 h8
  obtain ⟨e1, hva, l1⟩ := skip_step isBlank hd
  rw [← ha] at hva l1
  obtain ⟨e2, hvr, l2⟩ := skip_step notNl hva
  have hk : (a.takeWhile notNl).length ≤ a.length := length_takeWhile_le _ _
  have e3 := trimLen_view hva _ hk
  rw [take_takeWhile_length] at e3
  have hvl : (trimRight (a.takeWhile notNl)).length ≤ a.length :=
    Nat.le_trans (trimRight_length_le _) hk
  obtain ⟨o, r1, w1, c1, w2⟩ := patch1 hva _ hvl
  have hc : a.take (trimRight (a.takeWhile notNl)).length = trimRight (a.takeWhile notNl) := by
    have tp := trimRight_prefix (a.takeWhile notNl)
    have hle := trimRight_length_le (a.takeWhile notNl)
    calc a.take (trimRight (a.takeWhile notNl)).length
        = (a.take (a.takeWhile notNl).length).take (trimRight (a.takeWhile notNl)).length := by
          rw [List.take_take]; congr 1; omega
      _ = (a.takeWhile notNl).take (trimRight (a.takeWhile notNl)).length := by
          rw [take_takeWhile_length]
      _ = trimRight (a.takeWhile notNl) := tp.symm
  rw [hc] at c1
  unfold doInclude
  by_cases hlev : level ≥ MAX_INCLUDE
  · simp [hlev]
  · simp only [hlev, if_false, e1, e2, Nat.add_sub_cancel_left, e3, r1, w1, c1, w2]
    rcases incl (trimRight (a.takeWhile notNl)) st with ⟨st', _ | e⟩ <;> rfl

theorem doInclude_next_view {buf : Bytes} {p : Nat} {s1 : Bytes} (h1 : View buf p s1)
    (h8 : 8 ≤ s1.length) :
    View buf (p + 8 + ((s1.drop 8).takeWhile isBlank).length +
        (((s1.drop 8).dropWhile isBlank).takeWhile notNl).length)
      (((s1.drop 8).dropWhile isBlank).dropWhile notNl) := by
  have hd := view_drop h1 8 h8
  exact (skip_step notNl (skip_step isBlank hd).2.1).2.1

/-- section branch -/
theorem doSection_view (h : σ → Event → σ × Bool) {buf : Bytes} {p : Nat} {c : UInt8} {t : Bytes}
    (st : σ) (h1 : View buf p (c :: t)) :
    doSection h buf p st =
      match t.dropWhile sectCh with
      | o :: _ =>
        if o.toNat != 93 then .fail st .syntax .syntax else
        match h st (.sect (t.takeWhile sectCh)) with
        | (st', false) => .fail st' .badSect .badSect
        | (st', true) => .next buf (p + 1 + (t.takeWhile sectCh).length + 1) st'
      | [] => .fail st .syntax .syntax := by
  have ht := view_tail h1
  obtain ⟨e1, hvr, l1⟩ := skip_step sectCh ht
  obtain ⟨o, r1, w1, c1, w2⟩ := patch1 ht _ (length_takeWhile_le sectCh t)
  rw [take_takeWhile_length] at c1
  unfold doSection
  cases hd : t.dropWhile sectCh with
  | nil =>
    rw [hd] at hvr
    have r0 := view_rd_nil hvr
    simp [e1, r0]
  | cons o' r =>
    rw [hd] at hvr
    have r0 := view_rd_cons hvr
    have : o = o' := by rw [r0] at r1; exact (Option.some.inj r1).symm
    subst this
    simp only [e1, r0, w1, c1]
    by_cases ho : (o.toNat != 93) = true
    · simp [ho]
    · simp only [ho]
      rcases h st (Event.sect (t.takeWhile sectCh)) with ⟨st', _ | _⟩
      · rfl
      · simp only [w2]

theorem doSection_next_view {buf : Bytes} {p : Nat} {c o : UInt8} {t r : Bytes}
    (h1 : View buf p (c :: t)) (hd : t.dropWhile sectCh = o :: r) :
    View buf (p + 1 + (t.takeWhile sectCh).length + 1) r := by
  have hvr := (skip_step sectCh (view_tail h1)).2.1
  rw [hd] at hvr
  exact view_tail hvr


/-- key = value branch -/
theorem doKeyVal_view (h : σ → Event → σ × Bool) {buf : Bytes} {p : Nat} {s1 : Bytes} (st : σ)
    (h1 : View buf p s1) :
    doKeyVal h buf p st =
      match (s1.dropWhile isKeyCh).dropWhile isBlank with
      | e :: r2 =>
        if e.toNat != 61 then .fail st .syntax .syntax else
        match h st (.kv (s1.takeWhile isKeyCh) (trimRight ((r2.dropWhile isBlank).takeWhile notNl))) with
        | (st', false) => .fail st' .badVal .badVal
        | (st', true) =>
          .next buf (p + (s1.takeWhile isKeyCh).length + ((s1.dropWhile isKeyCh).takeWhile isBlank).length
                      + 1 + (r2.takeWhile isBlank).length + ((r2.dropWhile isBlank).takeWhile notNl).length
                      + (((r2.dropWhile isBlank).dropWhile notNl).takeWhile isSpace).length) st'
      | [] => .fail st .syntax .syntax := by
  obtain ⟨e1, hv1, l1⟩ := skip_step isKeyCh h1
  obtain ⟨e2, hv2, l2⟩ := skip_step isBlank hv1
  unfold doKeyVal
  cases hd : (s1.dropWhile isKeyCh).dropWhile isBlank with
  | nil =>
    rw [hd] at hv2
    simp [e1, e2, view_rd_nil hv2]
  | cons e r2 =>
    rw [hd] at hv2 l2
    have r0 := view_rd_cons hv2
    by_cases he : (e.toNat != 61) = true
    · simp [e1, e2, r0, he]
    · obtain ⟨e3, hv3, l3⟩ := skip_step isBlank (view_tail hv2)
      obtain ⟨e4, hv4, l4⟩ := skip_step notNl hv3
      obtain ⟨e5, hv5, l5⟩ := skip_step isSpace hv4
      have hk := length_takeWhile_le notNl (r2.dropWhile isBlank)
      have e6 := trimLen_view hv3 _ hk
      rw [take_takeWhile_length] at e6
      have hle := trimRight_length_le ((r2.dropWhile isBlank).takeWhile notNl)
      have l0 : (e :: r2).length = r2.length + 1 := rfl
      -- the two patches, in coordinates of the view at the key
      have hjv : p + (s1.takeWhile isKeyCh).length + ((s1.dropWhile isKeyCh).takeWhile isBlank).length
                  + 1 + (r2.takeWhile isBlank).length
                = p + ((s1.takeWhile isKeyCh).length + ((s1.dropWhile isKeyCh).takeWhile isBlank).length
                  + 1 + (r2.takeWhile isBlank).length) := by omega
      obtain ⟨o1, o2, q1, q2, w1, w2, c1, c2, w3, w4⟩ := patch2 h1 (s1.takeWhile isKeyCh).length
        ((s1.takeWhile isKeyCh).length + ((s1.dropWhile isKeyCh).takeWhile isBlank).length
          + 1 + (r2.takeWhile isBlank).length)
        ((s1.takeWhile isKeyCh).length + ((s1.dropWhile isKeyCh).takeWhile isBlank).length
          + 1 + (r2.takeWhile isBlank).length
          + (trimRight ((r2.dropWhile isBlank).takeWhile notNl)).length)
        (by omega) (by omega) (by omega)
      rw [take_takeWhile_length] at c1
      -- the view at the value is the drop of the view at the key
      have hdrop := view_drop h1 ((s1.takeWhile isKeyCh).length
          + ((s1.dropWhile isKeyCh).takeWhile isBlank).length + 1 + (r2.takeWhile isBlank).length)
          (by omega)
      rw [← hjv] at hdrop
      have huniq : s1.drop ((s1.takeWhile isKeyCh).length
          + ((s1.dropWhile isKeyCh).takeWhile isBlank).length + 1 + (r2.takeWhile isBlank).length)
          = r2.dropWhile isBlank := view_unique hdrop hv3
      rw [huniq, Nat.add_sub_cancel_left] at c2
      have hc : (r2.dropWhile isBlank).take (trimRight ((r2.dropWhile isBlank).takeWhile notNl)).length
          = trimRight ((r2.dropWhile isBlank).takeWhile notNl) := by
        have tp := trimRight_prefix ((r2.dropWhile isBlank).takeWhile notNl)
        calc (r2.dropWhile isBlank).take (trimRight ((r2.dropWhile isBlank).takeWhile notNl)).length
            = ((r2.dropWhile isBlank).take ((r2.dropWhile isBlank).takeWhile notNl).length).take
                (trimRight ((r2.dropWhile isBlank).takeWhile notNl)).length := by
              rw [List.take_take]; congr 1; omega
          _ = ((r2.dropWhile isBlank).takeWhile notNl).take
                (trimRight ((r2.dropWhile isBlank).takeWhile notNl)).length := by
              rw [take_takeWhile_length]
          _ = trimRight ((r2.dropWhile isBlank).takeWhile notNl) := tp.symm
      rw [hc] at c2
      rw [← hjv] at c2
      have hi2 : p + ((s1.takeWhile isKeyCh).length + ((s1.dropWhile isKeyCh).takeWhile isBlank).length
                  + 1 + (r2.takeWhile isBlank).length
                  + (trimRight ((r2.dropWhile isBlank).takeWhile notNl)).length)
               = p + (s1.takeWhile isKeyCh).length + ((s1.dropWhile isKeyCh).takeWhile isBlank).length
                  + 1 + (r2.takeWhile isBlank).length
                  + (trimRight ((r2.dropWhile isBlank).takeWhile notNl)).length := by omega
      rw [hi2] at q2 w2 c1 c2 w3 w4
      simp only [e1, e2, r0, he, e3, e4, e5, Nat.add_sub_cancel_left, e6, q1, q2, w1, w2, c1, c2,
        w3, w4]
      rcases h st (Event.kv (s1.takeWhile isKeyCh)
        (trimRight ((r2.dropWhile isBlank).takeWhile notNl))) with ⟨st', _ | _⟩ <;> simp

theorem doKeyVal_next_view {buf : Bytes} {p : Nat} {s1 : Bytes} {e : UInt8} {r2 : Bytes}
    (h1 : View buf p s1) (hd : (s1.dropWhile isKeyCh).dropWhile isBlank = e :: r2) :
    View buf (p + (s1.takeWhile isKeyCh).length + ((s1.dropWhile isKeyCh).takeWhile isBlank).length
        + 1 + (r2.takeWhile isBlank).length + ((r2.dropWhile isBlank).takeWhile notNl).length
        + (((r2.dropWhile isBlank).dropWhile notNl).takeWhile isSpace).length)
      (((r2.dropWhile isBlank).dropWhile notNl).dropWhile isSpace) := by
  have hv2 := (skip_step isBlank (skip_step isKeyCh h1).2.1).2.1
  rw [hd] at hv2
  exact (skip_step isSpace (skip_step notNl (skip_step isBlank (view_tail hv2)).2.1).2.1).2.1


theorem startsInclude_len {s : Bytes} (h : startsInclude s = true) : 8 ≤ s.length := by
  unfold startsInclude at h
  have h' : (s.take 8 == includeLit) = true := by
    cases hb : (s.take 8 == includeLit) with
    | true => rfl
    | false => rw [hb] at h; simp at h
  have := congrArg List.length (eq_of_beq h')
  simp [includeLit] at this; omega

/-- what one round of the model's loop does on a view: exactly `refStep`, the buffer unchanged,
    the new offset again a view of the remaining text -/
def StepMatches (buf : Bytes) (r : RStep σ) (m : Step σ) : Prop :=
  match r with
  | .next s' st' => ∃ p', m = .next buf p' st' ∧ View buf p' s'
  | .done st' => m = .done buf st'
  | .fail st' e f => m = .fail st' e f

theorem stepAt_view (incl : Bytes → σ → σ × Option Err) (h : σ → Event → σ × Bool) (level : Nat)
    {buf : Bytes} {p : Nat} {s : Bytes} (st : σ) (hv : View buf p s) :
    StepMatches buf (refStep incl h level s st) (stepAt incl h level buf p st) := by
  obtain ⟨e1, hv1, _⟩ := skip_step isSpace hv
  have hi := isIncludeAt_view hv1
  unfold stepAt refStep refBody
  simp only [e1, hi]
  by_cases hinc : startsInclude (s.dropWhile isSpace) = true
  · have h8 := startsInclude_len hinc
    simp only [hinc, if_true]
    rw [doInclude_view incl level st hv1 h8 _ rfl]
    by_cases hlev : level ≥ MAX_INCLUDE
    · simp [hlev, StepMatches]
    · simp only [hlev, if_false]
      rcases incl (trimRight ((((s.dropWhile isSpace).drop 8).dropWhile isBlank).takeWhile notNl)) st
        with ⟨st', _ | e⟩
      · exact ⟨_, rfl, doInclude_next_view hv1 h8⟩
      · simp [StepMatches]
  · have hinc' : startsInclude (s.dropWhile isSpace) = false := by simpa using hinc
    simp only [hinc']
    cases hs1 : s.dropWhile isSpace with
    | nil =>
      rw [hs1] at hv1
      simp [view_rd_nil hv1, StepMatches]
    | cons c t =>
      rw [hs1] at hv1
      have hc0 : c ≠ 0 := view_ne hv1
      simp only [view_rd_cons hv1, Bool.false_eq_true, if_false]
      by_cases hcm : (c.toNat == 35 || c.toNat == 59) = true
      · obtain ⟨e2, hv2, _⟩ := skip_step notNl hv1
        simp only [hcm, if_true, e2]
        exact ⟨_, rfl, hv2⟩
      · simp only [hcm, Bool.false_eq_true, if_false]
        by_cases hsec : (c.toNat == 91) = true
        · simp only [hsec, if_true]
          rw [doSection_view h st hv1]
          cases hd : t.dropWhile sectCh with
          | nil => simp [StepMatches]
          | cons o r =>
            simp only []
            by_cases ho : (o.toNat != 93) = true
            · simp [ho, StepMatches]
            · simp only [ho, Bool.false_eq_true, if_false]
              rcases h st (Event.sect (t.takeWhile sectCh)) with ⟨st', _ | _⟩
              · simp [StepMatches]
              · exact ⟨_, rfl, doSection_next_view hv1 hd⟩
        · have hc0' : (c == 0) = false := by simpa using hc0
          simp only [hsec, Bool.false_eq_true, if_false, hc0']
          rw [doKeyVal_view h st hv1]
          cases hd : ((c :: t).dropWhile isKeyCh).dropWhile isBlank with
          | nil => simp [StepMatches]
          | cons e r2 =>
            simp only []
            by_cases he : (e.toNat != 61) = true
            · simp [he, StepMatches]
            · simp only [he, Bool.false_eq_true, if_false]
              rcases h st (Event.kv ((c :: t).takeWhile isKeyCh)
                (trimRight ((r2.dropWhile isBlank).takeWhile notNl))) with ⟨st', _ | _⟩
              · simp [StepMatches]
              · exact ⟨_, rfl, doKeyVal_next_view hv1 hd⟩

/-- the loop on a view computes `refLoop`; on success the buffer is the one it started with -/
theorem loop_ref (incl : Bytes → σ → σ × Option Err) (h : σ → Event → σ × Bool) (level : Nat) :
    ∀ (fuel : Nat) (buf : Bytes) (p : Nat) (s : Bytes) (st : σ), View buf p s →
      let o := loop incl h level fuel buf p st
      (o.st, o.err, o.first) = refLoop incl h level fuel s st ∧ (o.err = none → o.buf = buf) := by
  intro fuel
  induction fuel with
  | zero => intro buf p s st _; simp [loop, refLoop]
  | succ fuel ih =>
    intro buf p s st hv
    cases s with
    | nil => simp [loop, refLoop, view_rd_nil hv]
    | cons c t =>
      have hc0 : (c == 0) = false := by simpa using view_ne hv
      have hm := stepAt_view incl h level st hv
      simp only [loop, refLoop, view_rd_cons hv, hc0, Bool.false_eq_true, if_false]
      cases hr : refStep incl h level (c :: t) st with
      | next s' st' =>
        rw [hr] at hm
        obtain ⟨p', hm, hv'⟩ := hm
        rw [hm]
        exact ih buf p' s' st' hv'
      | done st' =>
        rw [hr] at hm
        simp only [StepMatches] at hm
        rw [hm]; simp
      | fail st' e f =>
        rw [hr] at hm
        simp only [StepMatches] at hm
        rw [hm]; simp

end UsualProofs.C18
