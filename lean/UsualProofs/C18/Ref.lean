import UsualProofs.C18.View
/-!
# C18 — `parse_ini_file_internal` on the remaining text instead of on (buffer, index)

`refStep`/`refLoop` do what `stepAt`/`loop` do, but on the NUL-free rest of the text as a
list: no buffer, no offsets, no patching.  `loop_ref` is the refinement: on a view the model's
loop computes exactly `refLoop`, never reads or writes outside the buffer (no `oob`), and ends
with the buffer it started with.
-/
namespace UsualProofs.C18
open Usual.C18

variable {σ : Type}

inductive RStep (σ : Type) where
  | next (s' : Bytes) (st : σ)
  | done (st : σ)
  | fail (st : σ) (e first : Err)

def refStep (incl : Bytes → σ → σ × Option Err) (h : σ → Event → σ × Bool) (level : Nat)
    (s : Bytes) (st : σ) : RStep σ :=
  let s1 := s.dropWhile isSpace
  if startsInclude s1 then
    if level ≥ MAX_INCLUDE then .fail st .depth .depth else
    let a := (s1.drop 8).dropWhile isBlank
    match incl (trimRight (a.takeWhile notNl)) st with
    | (st', some e) => .fail st' .incl e
    | (st', none) => .next (a.dropWhile notNl) st'
  else match s1 with
  | [] => .done st
  | c :: t =>
    if c.toNat == 35 || c.toNat == 59 then .next (s1.dropWhile notNl) st
    else if c.toNat == 91 then
      match t.dropWhile sectCh with
      | o :: r =>
        if o.toNat != 93 then .fail st .syntax .syntax else
        match h st (.sect (t.takeWhile sectCh)) with
        | (st', false) => .fail st' .badSect .badSect
        | (st', true) => .next r st'
      | [] => .fail st .syntax .syntax
    else
      match (s1.dropWhile isKeyCh).dropWhile isBlank with
      | e :: r2 =>
        if e.toNat != 61 then .fail st .syntax .syntax else
        let r3 := r2.dropWhile isBlank
        match h st (.kv (s1.takeWhile isKeyCh) (trimRight (r3.takeWhile notNl))) with
        | (st', false) => .fail st' .badVal .badVal
        | (st', true) => .next ((r3.dropWhile notNl).dropWhile isSpace) st'
      | [] => .fail st .syntax .syntax

def refLoop (incl : Bytes → σ → σ × Option Err) (h : σ → Event → σ × Bool) (level : Nat) :
    Nat → Bytes → σ → σ × Option Err × Option Err
  | 0, _, st => (st, some .fuel, some .fuel)
  | fuel + 1, s, st =>
    match s with
    | [] => (st, none, none)
    | _ :: _ =>
      match refStep incl h level s st with
      | .next s' st' => refLoop incl h level fuel s' st'
      | .done st' => (st', none, none)
      | .fail st' e f => (st', some e, some f)

end UsualProofs.C18
