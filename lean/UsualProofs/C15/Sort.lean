import Usual.C15.ListSort
/-! `list_sort` (usual/list.c) returns a sorted, stable permutation: helper lemmas.
    Ported from the round-0 prototype probes/lean/Sort.lean. -/
namespace UsualProofs.C15.Sort
open Usual.C15.ListSort
variable {α : Type}

/-- the elements the stack holds, earliest first: higher slots first -/
def flat : List (Option (List α)) → List α
  | [] => []
  | none :: rest => flat rest
  | some r :: rest => flat rest ++ r

theorem merge_perm (le : α → α → Bool) : ∀ p q : List α, (merge le p q).Perm (p ++ q)
  | [], q => by simp [merge_nil_left]
  | x :: xs, [] => by simp [merge_nil_right]
  | x :: xs, y :: ys => by
    rw [merge_cons_cons]
    split
    · exact (merge_perm le xs (y :: ys)).cons x
    · exact ((merge_perm le (x :: xs) ys).cons y).trans (List.perm_middle (a := y) (l₁ := x :: xs) (l₂ := ys)).symm
termination_by p q => p.length + q.length

theorem carry_perm (le : α → α → Bool) : ∀ (st : List (Option (List α))) (p : List α),
    (flat (carry le st p)).Perm (flat st ++ p)
  | [], p => by simp [carry, flat]
  | none :: rest, p => by simp [carry, flat]
  | some r :: rest, p => by
    simp only [carry, flat]
    refine (carry_perm le rest (merge le r p)).trans ?_
    rw [List.append_assoc]
    exact List.Perm.append_left _ (merge_perm le r p)

theorem collapse_perm (le : α → α → Bool) : ∀ (st : List (Option (List α))) (p : List α),
    (collapse le st p).Perm (flat st ++ p)
  | [], p => by simp [collapse, flat]
  | none :: rest, p => by simp only [collapse, flat]; exact collapse_perm le rest p
  | some r :: rest, p => by
    simp only [collapse, flat]
    refine (collapse_perm le rest (merge le r p)).trans ?_
    rw [List.append_assoc]
    exact List.Perm.append_left _ (merge_perm le r p)

theorem foldl_carry_perm (le : α → α → Bool) (l : List α) :
    ∀ st, (flat (l.foldl (fun st x => carry le st [x]) st)).Perm (flat st ++ l) := by
  induction l with
  | nil => intro st; simp
  | cons x xs ih =>
    intro st
    simp only [List.foldl_cons]
    refine (ih _).trans ?_
    have := (carry_perm le st [x]).append_right xs
    simpa [List.append_assoc] using this

/-- list_sort returns a permutation of its input -/
theorem listSort_perm (le : α → α → Bool) (l : List α) : (listSort le l).Perm l := by
  unfold listSort
  refine (collapse_perm le _ []).trans ?_
  simpa [flat] using foldl_carry_perm le l []


/-- comparator assumptions of list_sort's contract: a total preorder -/
structure TotalPreorder (le : α → α → Bool) : Prop where
  total : ∀ a b, le a b = true ∨ le b a = true
  trans : ∀ a b c, le a b = true → le b c = true → le a c = true

def Sorted (le : α → α → Bool) (l : List α) : Prop := l.Pairwise (fun a b => le a b = true)

theorem mem_merge (le : α → α → Bool) (p q : List α) (z : α) : z ∈ merge le p q ↔ z ∈ p ∨ z ∈ q := by
  have := (merge_perm le p q).mem_iff (a := z)
  simpa using this

theorem merge_sorted (le : α → α → Bool) (h : TotalPreorder le) :
    ∀ p q : List α, Sorted le p → Sorted le q → Sorted le (merge le p q)
  | [], q => by intro _ hq; simpa [merge_nil_left] using hq
  | x :: xs, [] => by intro hp _; simpa [merge_nil_right] using hp
  | x :: xs, y :: ys => by
    intro hp hq
    rw [merge_cons_cons]
    have hp' := List.pairwise_cons.mp hp
    have hq' := List.pairwise_cons.mp hq
    split
    · next hxy =>
      refine List.pairwise_cons.mpr ⟨?_, merge_sorted le h xs (y :: ys) hp'.2 hq⟩
      intro z hz
      rcases (mem_merge le xs (y :: ys) z).mp hz with hz | hz
      · exact hp'.1 z hz
      · rcases List.mem_cons.mp hz with rfl | hz
        · exact hxy
        · exact h.trans x y z hxy (hq'.1 z hz)
    · next hxy =>
      have hyx : le y x = true := by
        rcases h.total x y with h1 | h1
        · exact absurd h1 hxy
        · exact h1
      refine List.pairwise_cons.mpr ⟨?_, merge_sorted le h (x :: xs) ys hp hq'.2⟩
      intro z hz
      rcases (mem_merge le (x :: xs) ys z).mp hz with hz | hz
      · rcases List.mem_cons.mp hz with rfl | hz
        · exact hyx
        · exact h.trans y x z hyx (hp'.1 z hz)
      · exact hq'.1 z hz
termination_by p q => p.length + q.length

/-- every run on the stack is sorted -/
def RunsSorted (le : α → α → Bool) : List (Option (List α)) → Prop
  | [] => True
  | none :: rest => RunsSorted le rest
  | some r :: rest => Sorted le r ∧ RunsSorted le rest

theorem carry_sorted (le : α → α → Bool) (h : TotalPreorder le) :
    ∀ (st : List (Option (List α))) (p : List α), RunsSorted le st → Sorted le p → RunsSorted le (carry le st p)
  | [], p => by intro _ hp; exact ⟨hp, trivial⟩
  | none :: rest, p => by intro hs hp; exact ⟨hp, hs⟩
  | some r :: rest, p => by
    intro hs hp
    simp only [carry, RunsSorted]
    exact carry_sorted le h rest (merge le r p) hs.2 (merge_sorted le h r p hs.1 hp)

theorem collapse_sorted (le : α → α → Bool) (h : TotalPreorder le) :
    ∀ (st : List (Option (List α))) (p : List α), RunsSorted le st → Sorted le p → Sorted le (collapse le st p)
  | [], p => by intro _ hp; exact hp
  | none :: rest, p => by intro hs hp; exact collapse_sorted le h rest p hs hp
  | some r :: rest, p => by
    intro hs hp
    simp only [collapse]
    exact collapse_sorted le h rest (merge le r p) hs.2 (merge_sorted le h r p hs.1 hp)

theorem foldl_carry_sorted (le : α → α → Bool) (h : TotalPreorder le) (l : List α) :
    ∀ st, RunsSorted le st → RunsSorted le (l.foldl (fun st x => carry le st [x]) st) := by
  induction l with
  | nil => intro st hs; exact hs
  | cons x xs ih =>
    intro st hs
    simp only [List.foldl_cons]
    exact ih _ (carry_sorted le h st [x] hs (by simp [Sorted]))

/-- list_sort returns a sorted list -/
theorem listSort_sorted (le : α → α → Bool) (h : TotalPreorder le) (l : List α) : Sorted le (listSort le l) := by
  unfold listSort
  exact collapse_sorted le h _ [] (foldl_carry_sorted le h l [] trivial) (by simp [Sorted])

/-- STABILITY, stated through a class predicate `c` whose members are mutually ≤ (one equivalence
    class of the comparator): merging keeps the members of `p` before those of `q` -/
theorem merge_filter (le : α → α → Bool) (h : TotalPreorder le) (c : α → Bool)
    (hc : ∀ a b, c a = true → c b = true → le a b = true) :
    ∀ p q : List α, Sorted le p → (merge le p q).filter c = p.filter c ++ q.filter c
  | [], q => by intro _; simp [merge_nil_left]
  | x :: xs, [] => by intro _; simp [merge_nil_right]
  | x :: xs, y :: ys => by
    intro hp
    have hp' := List.pairwise_cons.mp hp
    rw [merge_cons_cons]
    split
    · rw [List.filter_cons, merge_filter le h c hc xs (y :: ys) hp'.2, List.filter_cons (x := x) (xs := xs)]
      split <;> simp
    · next hxy =>
      rw [List.filter_cons, merge_filter le h c hc (x :: xs) ys hp]
      by_cases hcy : c y = true
      · -- then nothing left in x :: xs belongs to the class
        have hnone : (x :: xs).filter c = [] := by
          apply List.filter_eq_nil_iff.mpr
          intro z hz hcz
          apply hxy
          rcases List.mem_cons.mp hz with rfl | hz
          · exact hc _ _ hcz hcy
          · exact h.trans x z y (hp'.1 z hz) (hc _ _ hcz hcy)
        simp [hcy, hnone]
      · simp [hcy]
termination_by p q => p.length + q.length

theorem carry_filter (le : α → α → Bool) (h : TotalPreorder le) (c : α → Bool)
    (hc : ∀ a b, c a = true → c b = true → le a b = true) :
    ∀ (st : List (Option (List α))) (p : List α), RunsSorted le st →
      (flat (carry le st p)).filter c = (flat st ++ p).filter c
  | [], p => by intro _; simp [carry, flat]
  | none :: rest, p => by intro _; simp [carry, flat]
  | some r :: rest, p => by
    intro hs
    simp only [carry, flat]
    rw [carry_filter le h c hc rest (merge le r p) hs.2]
    simp only [List.filter_append, List.append_assoc]
    rw [merge_filter le h c hc r p hs.1]

theorem collapse_filter (le : α → α → Bool) (h : TotalPreorder le) (c : α → Bool)
    (hc : ∀ a b, c a = true → c b = true → le a b = true) :
    ∀ (st : List (Option (List α))) (p : List α), RunsSorted le st →
      (collapse le st p).filter c = (flat st ++ p).filter c
  | [], p => by intro _; simp [collapse, flat]
  | none :: rest, p => by intro hs; simp only [collapse, flat]; exact collapse_filter le h c hc rest p hs
  | some r :: rest, p => by
    intro hs
    simp only [collapse, flat]
    rw [collapse_filter le h c hc rest (merge le r p) hs.2]
    simp only [List.filter_append, List.append_assoc]
    rw [merge_filter le h c hc r p hs.1]

theorem foldl_carry_filter (le : α → α → Bool) (h : TotalPreorder le) (c : α → Bool)
    (hc : ∀ a b, c a = true → c b = true → le a b = true) (l : List α) :
    ∀ st, RunsSorted le st →
      (flat (l.foldl (fun st x => carry le st [x]) st)).filter c = (flat st ++ l).filter c := by
  induction l with
  | nil => intro st _; simp
  | cons x xs ih =>
    intro st hs
    simp only [List.foldl_cons]
    rw [ih _ (carry_sorted le h st [x] hs (by simp [Sorted]))]
    simp only [List.filter_append]
    rw [carry_filter le h c hc st [x] hs]
    have e : List.filter c (x :: xs) = List.filter c [x] ++ List.filter c xs := by
      rw [← List.filter_append]; rfl
    simp only [List.filter_append, List.append_assoc, e]

/-- list_sort is stable: the members of any equivalence class keep their input order -/
theorem listSort_stable (le : α → α → Bool) (h : TotalPreorder le) (c : α → Bool)
    (hc : ∀ a b, c a = true → c b = true → le a b = true) (l : List α) :
    (listSort le l).filter c = l.filter c := by
  unfold listSort
  rw [collapse_filter le h c hc _ [] (foldl_carry_sorted le h l [] trivial)]
  simp only [List.append_nil]
  simpa [flat] using foldl_carry_filter le h c hc l [] trivial

end UsualProofs.C15.Sort
