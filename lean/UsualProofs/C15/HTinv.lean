import UsualProofs.C15.HTtab
/-! One table of the chain: the invariant (`used` = number of occupied slots ≤ MAX_USED, every
    stored pair reachable from its home slot through occupied slots) and what probe, insert
    into the probed empty slot, and delete-with-compaction do to it and to the stored pairs. -/
namespace UsualProofs.C15.HT
open Usual.C15 Usual.C15.HashTab UsualProofs.C15.HTdel

variable {n : Nat}

/-! ### multisets of slot contents -/

theorem filterMap_congr' {α β : Type} {f g : α → Option β} :
    ∀ l : List α, (∀ x, x ∈ l → f x = g x) → l.filterMap f = l.filterMap g
  | [], _ => rfl
  | x :: xs, h => by
    rw [List.filterMap_cons, List.filterMap_cons, h x (List.mem_cons_self),
      filterMap_congr' xs (fun y hy => h y (List.mem_cons_of_mem _ hy))]

theorem fm_split {β : Type} (f : Nat → Option β) (n d : Nat) (hd : d < n) :
    ((List.range n).filterMap f).Perm
      ((f d).toList ++ (List.range n).filterMap (fun i => if i = d then none else f i)) := by
  have hp : (List.range n).Perm (d :: (List.range n).erase d) :=
    List.perm_cons_erase (List.mem_range.mpr hd)
  have hnd : ∀ i, i ∈ (List.range n).erase d → i ≠ d := by
    intro i hi
    exact ((List.nodup_range (n := n)).mem_erase_iff.mp hi).1
  have e1 : ((List.range n).erase d).filterMap (fun i => if i = d then none else f i)
      = ((List.range n).erase d).filterMap f := by
    apply filterMap_congr'
    intro i hi
    rw [if_neg (hnd i hi)]
  have l1 : ((List.range n).filterMap f).Perm ((f d).toList ++ ((List.range n).erase d).filterMap f) := by
    refine (hp.filterMap f).trans ?_
    rw [List.filterMap_cons]
    cases f d <;> simp
  have l2 : ((List.range n).filterMap (fun i => if i = d then none else f i)).Perm
      (((List.range n).erase d).filterMap f) := by
    refine (hp.filterMap _).trans ?_
    rw [List.filterMap_cons, if_pos rfl, e1]
  exact l1.trans (List.Perm.append_left _ l2.symm)

theorem fm_length_full {β : Type} (f : Nat → Option β) :
    ∀ n, (∀ i, i < n → f i ≠ none) → ((List.range n).filterMap f).length = n := by
  intro n
  induction n with
  | zero => intro _; rfl
  | succ n ih =>
    intro h
    rw [List.range_succ, List.filterMap_append, List.length_append, ih (fun i hi => h i (by omega))]
    have := h n (by omega)
    cases hf : f n with
    | none => exact absurd hf this
    | some v => simp [List.filterMap_cons, hf]

/-- the pair stored in slot i, if any -/
def pairAt (t : Table) (i : Nat) : Option (Nat × Nat) :=
  if t.vals.get i = 0 then none else some (t.keys.get i, t.vals.get i)

theorem tableContents_eq (t : Table) : tableContents t = (List.range t.size).filterMap (pairAt t) := rfl

/-- pairs in all slots but `d` -/
def exPairs (t : Table) (d : Nat) : List (Nat × Nat) :=
  (List.range t.size).filterMap (fun i => if i = d then none else pairAt t i)

theorem contents_split (t : Table) (d : Nat) (hd : d < t.size) :
    (tableContents t).Perm ((pairAt t d).toList ++ exPairs t d) :=
  fm_split (pairAt t) t.size d hd

theorem mem_tableContents (t : Table) (kv : Nat × Nat) :
    kv ∈ tableContents t ↔ ∃ i, i < t.size ∧ t.vals.get i ≠ 0 ∧ kv = (t.keys.get i, t.vals.get i) := by
  rw [tableContents_eq, List.mem_filterMap]
  constructor
  · rintro ⟨i, hi, e⟩
    unfold pairAt at e
    split at e
    · cases e
    · next h => exact ⟨i, List.mem_range.mp hi, h, by cases e; rfl⟩
  · rintro ⟨i, hi, hv, e⟩
    exact ⟨i, List.mem_range.mpr hi, by unfold pairAt; rw [if_neg hv, e]⟩

theorem exPairs_moveSlot (t : Table) (d p : Nat) (hd : d < t.size) (hp : p < t.size) (hdp : d ≠ p) :
    (exPairs (moveSlot t d p) p).Perm (exPairs t d) := by
  -- split both sides at the other special slot
  have l1 := fm_split (fun i => if i = p then none else pairAt (moveSlot t d p) i) t.size d hd
  have l2 := fm_split (fun i => if i = d then none else pairAt t i) t.size p hp
  have h1 : (if d = p then none else pairAt (moveSlot t d p) d) = pairAt t p := by
    rw [if_neg hdp]
    unfold pairAt
    show (if ((t.vals.set d (t.vals.get p)).get d) = 0 then none
          else some ((t.keys.set d (t.keys.get p)).get d, (t.vals.set d (t.vals.get p)).get d)) = _
    rw [Store.get_set_eq, Store.get_set_eq]
  have h2 : (if p = d then none else pairAt t p) = pairAt t p := by
    rw [if_neg (fun e => hdp e.symm)]
  have h3 : (List.range t.size).filterMap
        (fun i => if i = d then none else (fun i => if i = p then none else pairAt (moveSlot t d p) i) i)
      = (List.range t.size).filterMap
        (fun i => if i = p then none else (fun i => if i = d then none else pairAt t i) i) := by
    apply filterMap_congr'
    intro i _
    by_cases e1 : i = d
    · simp [e1]
    · by_cases e2 : i = p
      · simp [e2]
      · simp only [e1, e2, if_false]
        unfold pairAt
        show (if ((t.vals.set d (t.vals.get p)).get i) = 0 then none
              else some ((t.keys.set d (t.keys.get p)).get i, (t.vals.set d (t.vals.get p)).get i)) = _
        rw [Store.get_set_ne _ _ _ _ e1, Store.get_set_ne _ _ _ _ e1]
  unfold exPairs
  rw [moveSlot_size]
  refine l1.trans ?_
  rw [h1, h3]
  rw [h2] at l2
  exact l2.symm

theorem contents_clearSlot (t : Table) (d : Nat) : tableContents (clearSlot t d) = exPairs t d := by
  rw [tableContents_eq, clearSlot_size]
  unfold exPairs
  apply filterMap_congr'
  intro i _
  unfold pairAt
  show (if ((t.vals.set d 0).get i) = 0 then none
        else some ((t.keys.set d 0).get i, (t.vals.set d 0).get i)) = _
  by_cases e : i = d
  · rw [if_pos e, e, Store.get_set_eq, if_pos rfl]
  · rw [if_neg e, Store.get_set_ne _ _ _ _ e, Store.get_set_ne _ _ _ _ e]

theorem contents_put (t : Table) (p key val : Nat) (hp : p < t.size) (hv : val ≠ 0) (he : t.vals.get p = 0) :
    (tableContents (put t p key val)).Perm ((key, val) :: tableContents t) := by
  have l1 := contents_split (put t p key val) p hp
  have h1 : pairAt (put t p key val) p = some (key, val) := by
    unfold pairAt
    show (if ((t.vals.set p val).get p) = 0 then none
          else some ((t.keys.set p key).get p, (t.vals.set p val).get p)) = _
    rw [Store.get_set_eq, Store.get_set_eq, if_neg hv]
  have h2 : exPairs (put t p key val) p = tableContents t := by
    rw [tableContents_eq]
    unfold exPairs
    rw [put_size]
    apply filterMap_congr'
    intro i _
    by_cases e : i = p
    · rw [if_pos e, e]; unfold pairAt; rw [if_pos he]
    · rw [if_neg e]
      unfold pairAt
      show (if ((t.vals.set p val).get i) = 0 then none
            else some ((t.keys.set p key).get i, (t.vals.set p val).get i)) = _
      rw [Store.get_set_ne _ _ _ _ e, Store.get_set_ne _ _ _ _ e]
  rw [h1, h2] at l1
  exact l1

/-! ### the invariant of one table -/

structure TInv (C : Cyc n) (t : Table) : Prop where
  size : t.size = n
  used : t.used = (tableContents t).length
  room : t.used ≤ maxUsed t
  reach : R n (A C t)

theorem maxUsed_lt (t : Table) (h : 0 < t.size) : maxUsed t < t.size := by
  unfold maxUsed; omega

/-- a table at or below MAX_USED has an empty slot -/
theorem exists_empty (C : Cyc n) (t : Table) (hi : TInv C t) : ∃ e, e < n ∧ A C t e = none := by
  have hn := C.pos
  have hlt : (tableContents t).length < t.size := by
    have := maxUsed_lt t (by rw [hi.size]; exact hn)
    have := hi.room; have := hi.used; omega
  have : ¬ ∀ i, i < t.size → pairAt t i ≠ none := by
    intro h
    have := fm_length_full (pairAt t) t.size h
    rw [← tableContents_eq] at this; omega
  have : ∃ i, i < t.size ∧ pairAt t i = none := by
    apply Classical.byContradiction
    intro h
    apply this
    intro i hi' e
    exact h ⟨i, hi', e⟩
  obtain ⟨i, hi', e⟩ := this
  rw [hi.size] at hi'
  refine ⟨C.idx i, C.idx_lt i hi', ?_⟩
  unfold A
  rw [if_pos (C.idx_lt i hi'), C.σ_idx i hi']
  unfold pairAt at e
  split at e
  · next h => rw [if_pos h]
  · cases e

/-! ### the probe loop -/

theorem probe_sound (cmp : Nat → Nat → Bool) (t : Table) (key : Nat) (arg : Option Nat) :
    ∀ fuel pos,
      (∀ p, probe cmp t key arg fuel pos = .found p →
        t.vals.get p ≠ 0 ∧ t.keys.get p = key ∧ argMatch cmp (t.vals.get p) arg = true) ∧
      (∀ p, probe cmp t key arg fuel pos = .empty p → t.vals.get p = 0) := by
  intro fuel
  induction fuel with
  | zero => intro pos; constructor <;> (intro p h; cases h)
  | succ fuel ih =>
    intro pos
    unfold probe
    by_cases e1 : t.vals.get pos = 0
    · rw [if_pos e1]
      constructor
      · intro p h; cases h
      · intro p h; cases h; exact e1
    · rw [if_neg e1]
      by_cases e2 : t.keys.get pos = key ∧ argMatch cmp (t.vals.get pos) arg = true
      · rw [if_pos e2]
        constructor
        · intro p h; cases h; exact ⟨e1, e2.1, e2.2⟩
        · intro p h; cases h
      · rw [if_neg e2]; exact ih _

/-- the slot a probe returns lies inside the table -/
theorem probe_lt (C : Cyc n) (cmp : Nat → Nat → Bool) (t : Table) (hs : t.size = n) (key : Nat) (arg : Option Nat) :
    ∀ fuel pos, pos < n →
      (∀ p, probe cmp t key arg fuel pos = .found p → p < n) ∧
      (∀ p, probe cmp t key arg fuel pos = .empty p → p < n) := by
  intro fuel
  induction fuel with
  | zero => intro pos _; constructor <;> (intro p h; cases h)
  | succ fuel ih =>
    intro pos hpos
    unfold probe
    split
    · constructor
      · intro p h; cases h
      · intro p h; cases h; exact hpos
    · split
      · constructor
        · intro p h; cases h; exact hpos
        · intro p h; cases h
      · apply ih; rw [nextPos_eq t hs]; exact C.and_lt _

/-- if every slot on the way from `a` to `s` is occupied and `s` holds a matching pair, the
    probe finds a matching pair (at `s` or earlier) -/
theorem probe_found_of_path (C : Cyc n) (cmp : Nat → Nat → Bool) (t : Table) (hs : t.size = n)
    (key : Nat) (arg : Option Nat) (a s : Nat) (ha : a < n) (hsn : s < n)
    (hocc : ∀ i, i < fwd n a s → t.vals.get (C.σ (plus n a i)) ≠ 0)
    (hs_occ : t.vals.get (C.σ s) ≠ 0) (hkey : t.keys.get (C.σ s) = key)
    (hm : argMatch cmp (t.vals.get (C.σ s)) arg = true) :
    ∀ fuel j, j ≤ fwd n a s → fwd n a s - j < fuel →
      ∃ p, probe cmp t key arg fuel (C.σ (plus n a j)) = .found p := by
  intro fuel
  induction fuel with
  | zero => intro j _ h; omega
  | succ fuel ih =>
    intro j h1 h2
    have hfs := fwd_lt n a s ha hsn
    have hjn : j < n := by omega
    unfold probe
    by_cases ej : j = fwd n a s
    · have : plus n a j = s := by rw [ej]; exact plus_fwd n a s ha hsn
      rw [this, if_neg hs_occ, if_pos ⟨hkey, hm⟩]
      exact ⟨_, rfl⟩
    · rw [if_neg (hocc j (by omega))]
      split
      · exact ⟨_, rfl⟩
      · rw [nextPos_σ C t hs a j ha hjn]
        exact ih (j + 1) (by omega) (by omega)

/-- with an empty slot somewhere the probe loop ends -/
theorem probe_nospin (C : Cyc n) (cmp : Nat → Nat → Bool) (t : Table) (hs : t.size = n)
    (key : Nat) (arg : Option Nat) (a e : Nat) (ha : a < n) (he : e < n)
    (hemp : t.vals.get (C.σ e) = 0) :
    ∀ fuel j, j ≤ fwd n a e → fwd n a e - j < fuel →
      probe cmp t key arg fuel (C.σ (plus n a j)) ≠ .spin := by
  intro fuel
  induction fuel with
  | zero => intro j _ h; omega
  | succ fuel ih =>
    intro j h1 h2
    have hfe := fwd_lt n a e ha he
    have hjn : j < n := by omega
    unfold probe
    split
    · intro h; cases h
    · next hocc =>
      split
      · intro h; cases h
      · have ej : j ≠ fwd n a e := by
          intro ej
          apply hocc
          rw [ej, plus_fwd n a e ha he]; exact hemp
        rw [nextPos_σ C t hs a j ha hjn]
        exact ih (j + 1) (by omega) (by omega)

/-- a probe that ends at an empty slot walked over occupied slots only -/
theorem probe_empty_path (C : Cyc n) (cmp : Nat → Nat → Bool) (t : Table) (hs : t.size = n)
    (key : Nat) (arg : Option Nat) (a : Nat) (ha : a < n) :
    ∀ fuel j p, j + fuel ≤ n → probe cmp t key arg fuel (C.σ (plus n a j)) = .empty p →
      ∃ j', j ≤ j' ∧ j' < j + fuel ∧ p = C.σ (plus n a j') ∧
        ∀ i, j ≤ i → i < j' → t.vals.get (C.σ (plus n a i)) ≠ 0 := by
  intro fuel
  induction fuel with
  | zero => intro j p _ h; cases h
  | succ fuel ih =>
    intro j p h1 h2
    have hjn : j < n := by omega
    unfold probe at h2
    split at h2
    · cases h2
      exact ⟨j, Nat.le_refl _, by omega, rfl, fun i a b => by omega⟩
    · next hocc =>
      split at h2
      · cases h2
      · rw [nextPos_σ C t hs a j ha hjn] at h2
        obtain ⟨j', a1, a2, a3, a4⟩ := ih (j + 1) p (by omega) h2
        refine ⟨j', by omega, by omega, a3, ?_⟩
        intro i b1 b2
        by_cases eij : i = j
        · subst eij; exact hocc
        · exact a4 i (by omega) b2

/-! ### probe0 on a table satisfying the invariant -/

theorem probe0_unfold (C : Cyc n) (cmp : Nat → Nat → Bool) (t : Table) (hs : t.size = n) (key : Nat) (arg : Option Nat) :
    probe0 cmp t key arg = probe cmp t key arg n (C.σ (plus n (C.idx (calcPos t key)) 0)) := by
  have hc := calcPos_lt C t hs key
  unfold probe0
  rw [hs, plus_zero _ (C.idx_lt _ hc), C.σ_idx _ hc]

theorem A_none_iff (C : Cyc n) (t : Table) (i : Nat) (hi : i < n) : A C t i = none ↔ t.vals.get (C.σ i) = 0 := by
  unfold A; rw [if_pos hi]; split <;> simp [*]

theorem probe0_nospin (C : Cyc n) (cmp : Nat → Nat → Bool) (t : Table) (hi : TInv C t) (key : Nat) (arg : Option Nat) :
    probe0 cmp t key arg ≠ .spin := by
  obtain ⟨e, he, hemp⟩ := exists_empty C t hi
  have hc := calcPos_lt C t hi.size key
  have ha := C.idx_lt _ hc
  rw [probe0_unfold C cmp t hi.size]
  have := fwd_lt n (C.idx (calcPos t key)) e ha he
  exact probe_nospin C cmp t hi.size key arg _ e ha he ((A_none_iff C t e he).mp hemp) n 0 (by omega) (by omega)

/-- completeness inside one table: a stored matching pair is found -/
theorem probe0_complete (C : Cyc n) (cmp : Nat → Nat → Bool) (t : Table) (hi : TInv C t) (key v : Nat)
    (arg : Option Nat) (hmem : (key, v) ∈ tableContents t) (hm : argMatch cmp v arg = true) :
    ∃ p, probe0 cmp t key arg = .found p := by
  obtain ⟨i, hin, hv, e⟩ := (mem_tableContents t (key, v)).mp hmem
  rw [hi.size] at hin
  have ek : t.keys.get i = key := by cases e; rfl
  have ev : t.vals.get i = v := by cases e; rfl
  have hc := calcPos_lt C t hi.size key
  have ha := C.idx_lt _ hc
  have hsn := C.idx_lt i hin
  have hAs : A C t (C.idx i) = some (C.idx (calcPos t key)) := by
    unfold A; rw [if_pos hsn, C.σ_idx i hin, if_neg hv, ek]
  have hr := (hi.reach (C.idx i) hsn _ hAs).2
  rw [probe0_unfold C cmp t hi.size]
  have hf := fwd_lt n (C.idx (calcPos t key)) (C.idx i) ha hsn
  apply probe_found_of_path C cmp t hi.size key arg _ (C.idx i) ha hsn ?_ ?_ ?_ ?_ n 0 (by omega) (by omega)
  · intro j hj
    have hjn : j < n := by omega
    have hpl := plus_lt n (C.idx (calcPos t key)) j ha hjn
    have := hr _ hpl (by rw [fwd_plus n _ j ha hjn]; exact hj)
    exact fun h => this ((A_none_iff C t _ hpl).mpr h)
  · rw [C.σ_idx i hin]; exact hv
  · rw [C.σ_idx i hin]; exact ek
  · rw [C.σ_idx i hin, ev]; exact hm

theorem probe0_found (C : Cyc n) (cmp : Nat → Nat → Bool) (t : Table) (hs : t.size = n) (key : Nat) (arg : Option Nat) (p : Nat)
    (h : probe0 cmp t key arg = .found p) :
    p < n ∧ t.vals.get p ≠ 0 ∧ t.keys.get p = key ∧ argMatch cmp (t.vals.get p) arg = true ∧
    (key, t.vals.get p) ∈ tableContents t := by
  have hc := calcPos_lt C t hs key
  have h1 := ((probe_lt C cmp t hs key arg t.size (calcPos t key) hc).1 p h)
  have h2 := ((probe_sound cmp t key arg t.size (calcPos t key)).1 p h)
  refine ⟨h1, h2.1, h2.2.1, h2.2.2, ?_⟩
  rw [mem_tableContents]
  exact ⟨p, by rw [hs]; exact h1, h2.1, by rw [h2.2.1]⟩

/-- a probe ending at an empty slot: the slot is in range, empty, preceded on the key's path by
    occupied slots only -/
theorem probe0_empty (C : Cyc n) (cmp : Nat → Nat → Bool) (t : Table) (hs : t.size = n) (key : Nat) (arg : Option Nat) (p : Nat)
    (h : probe0 cmp t key arg = .empty p) :
    p < n ∧ t.vals.get p = 0 ∧
    ∀ q, q < n → fwd n (C.idx (calcPos t key)) q < fwd n (C.idx (calcPos t key)) (C.idx p) → A C t q ≠ none := by
  have hc := calcPos_lt C t hs key
  have ha := C.idx_lt _ hc
  have h1 := ((probe_lt C cmp t hs key arg t.size (calcPos t key) hc).2 p h)
  have h2 := ((probe_sound cmp t key arg t.size (calcPos t key)).2 p h)
  refine ⟨h1, h2, ?_⟩
  rw [probe0_unfold C cmp t hs] at h
  obtain ⟨j', _, b, c, d⟩ := probe_empty_path C cmp t hs key arg _ ha n 0 p (by omega) h
  have hj' : j' < n := by omega
  have hpl := plus_lt n (C.idx (calcPos t key)) j' ha hj'
  have hip : C.idx p = plus n (C.idx (calcPos t key)) j' := by rw [c, C.idx_σ _ hpl]
  intro q hq hlt
  rw [hip, fwd_plus n _ j' ha hj'] at hlt
  have := d (fwd n (C.idx (calcPos t key)) q) (by omega) hlt
  rw [plus_fwd n _ q ha hq] at this
  exact fun e => this ((A_none_iff C t q hq).mp e)

end UsualProofs.C15.HT
