/-! Circular doubly linked lists over an abstract pointer view (`nx`, `pv : Nat → Nat`):
    the representation predicate and what insertion between two neighbours and unlinking do.
    Shared by the List/StatList model (absolute pointers) and the SHList model (self-relative
    offsets). -/
namespace UsualProofs.C15.Ring

/-- consecutive nodes of the path are linked in both directions -/
def Linked (nx pv : Nat → Nat) : List Nat → Prop
  | [] => True
  | [_] => True
  | a :: b :: r => (nx a = b ∧ pv b = a) ∧ Linked nx pv (b :: r)

/-- head `l` with members `xs` (in order) forms a ring: l → xs → l, all nodes distinct -/
def IsList (nx pv : Nat → Nat) (l : Nat) (xs : List Nat) : Prop :=
  Linked nx pv (l :: xs ++ [l]) ∧ (l :: xs).Nodup

theorem linked_append_iff (nx pv : Nat → Nat) : ∀ (P : List Nat) (m : Nat) (Q : List Nat),
    Linked nx pv (P ++ m :: Q) ↔ Linked nx pv (P ++ [m]) ∧ Linked nx pv (m :: Q)
  | [], m, Q => by simp [Linked]
  | [a], m, Q => by
    cases Q with
    | nil => simp [Linked]
    | cons q Q => simp only [List.cons_append, List.nil_append, Linked, and_true]
  | a :: b :: P, m, Q => by
    have := linked_append_iff nx pv (b :: P) m Q
    simp only [List.cons_append, Linked] at this ⊢
    rw [this]
    exact and_assoc.symm

theorem linked_congr {nx pv nx' pv' : Nat → Nat} : ∀ (path : List Nat),
    (∀ z, z ∈ path.dropLast → nx' z = nx z) → (∀ z, z ∈ path.tail → pv' z = pv z) →
    Linked nx pv path → Linked nx' pv' path
  | [], _, _, _ => trivial
  | [_], _, _, _ => trivial
  | a :: b :: r, h1, h2, h => by
    obtain ⟨⟨e1, e2⟩, hr⟩ := h
    refine ⟨⟨?_, ?_⟩, ?_⟩
    · rw [h1 a (by simp [List.dropLast])]; exact e1
    · rw [h2 b (by simp)]; exact e2
    · apply linked_congr (b :: r) _ _ hr
      · intro z hz; exact h1 z (by simp only [List.dropLast_cons_cons]; exact List.mem_cons_of_mem _ hz)
      · intro z hz; exact h2 z (by simp only [List.tail_cons] at hz ⊢; exact List.mem_cons_of_mem _ hz)

theorem isList_nil_iff (nx pv : Nat → Nat) (l : Nat) : IsList nx pv l [] ↔ nx l = l ∧ pv l = l := by
  unfold IsList; simp [Linked]

/-- first member (or the head itself) is `nx l` -/
theorem isList_next_head {nx pv : Nat → Nat} {l : Nat} {xs : List Nat} (h : IsList nx pv l xs) :
    nx l = (xs ++ [l]).head (by simp) := by
  cases xs with
  | nil => exact h.1.1.1
  | cons x xs => exact h.1.1.1

/-- INSERT `x` between the neighbours `u` (end of `l :: A`) and `v` (start of `B ++ [l]`) -/
theorem isList_insert {nx pv nx' pv' : Nat → Nat} (l : Nat) (A B P0 Q0 : List Nat) (u v x : Nat)
    (h : IsList nx pv l (A ++ B)) (hx : x ∉ l :: (A ++ B))
    (eA : l :: A = P0 ++ [u]) (eB : B ++ [l] = v :: Q0)
    (hn : ∀ z, nx' z = if z = u then x else if z = x then v else nx z)
    (hp : ∀ z, pv' z = if z = v then x else if z = x then u else pv z) :
    IsList nx' pv' l (A ++ x :: B) := by
  obtain ⟨hl, hnd⟩ := h
  have hnd' : (l :: A ++ B).Nodup := by simpa using hnd
  -- split the old path at (u, v)
  have path_eq : l :: (A ++ B) ++ [l] = P0 ++ u :: v :: Q0 := by
    calc l :: (A ++ B) ++ [l] = (l :: A) ++ (B ++ [l]) := by simp
      _ = (P0 ++ [u]) ++ (v :: Q0) := by rw [eA, eB]
      _ = P0 ++ u :: v :: Q0 := by simp
  rw [path_eq, linked_append_iff] at hl
  obtain ⟨hl1, ⟨_, _⟩, hl2⟩ := hl
  have new_eq : l :: (A ++ x :: B) ++ [l] = P0 ++ u :: x :: v :: Q0 := by
    calc l :: (A ++ x :: B) ++ [l] = (l :: A) ++ x :: (B ++ [l]) := by simp
      _ = (P0 ++ [u]) ++ x :: (v :: Q0) := by rw [eA, eB]
      _ = P0 ++ u :: x :: v :: Q0 := by simp
  -- membership facts from distinctness
  have nd1 : (P0 ++ [u]).Nodup := by rw [← eA]; exact (List.nodup_append.mp (by simpa using hnd)).1
  have hxA : x ∉ l :: A := fun hm => hx (by simp at hm ⊢; rcases hm with e | e; exact Or.inl e; exact Or.inr (Or.inl e))
  have hxB : x ∉ B := fun hm => hx (by simp; exact Or.inr (Or.inr hm))
  have hxl : x ≠ l := fun e => hxA (by simp [e])
  have disj : ∀ z, z ∈ l :: A → z ∈ B → False := by
    intro z h1 h2
    have := (List.nodup_append.mp (by simpa using hnd : ((l :: A) ++ B).Nodup)).2.2 z h1 z h2
    exact this rfl
  have hu_mem : u ∈ l :: A := by rw [eA]; simp
  have hv_cases : (v ∈ B) ∨ (v = l ∧ B = []) := by
    cases B with
    | nil => simp at eB; exact Or.inr ⟨eB.1.symm, rfl⟩
    | cons b B' => simp at eB; exact Or.inl (by rw [eB.1]; simp)
  have hux : u ≠ x := fun e => hxA (e ▸ hu_mem)
  have hvx : v ≠ x := by
    rcases hv_cases with h | ⟨h, _⟩
    · exact fun e => hxB (e ▸ h)
    · rw [h]; exact fun e => hxl e.symm
  refine ⟨?_, ?_⟩
  · rw [new_eq, linked_append_iff]
    refine ⟨?_, ?_⟩
    · apply linked_congr _ _ _ hl1
      · intro z hz
        simp only [List.dropLast_concat] at hz
        have hzu : z ≠ u := by
          intro e; subst e
          have := (List.nodup_append.mp nd1).2.2 z hz z (by simp)
          exact this rfl
        have hzx : z ≠ x := fun e => hxA (by rw [eA, ← e]; simp [hz])
        rw [hn, if_neg hzu, if_neg hzx]
      · intro z hz
        have hzm : z ∈ l :: A := by rw [eA]; exact List.mem_of_mem_tail hz
        have hzx : z ≠ x := fun e => hxA (e ▸ hzm)
        have hzv : z ≠ v := by
          rcases hv_cases with h | ⟨h, _⟩
          · exact fun e => disj z hzm (e ▸ h)
          · rw [h]
            intro e
            have : (l :: A).tail = (P0 ++ [u]).tail := by rw [eA]
            rw [← this, List.tail_cons, e] at hz
            exact (List.nodup_cons.mp (List.nodup_append.mp (by simpa using hnd : ((l :: A) ++ B).Nodup)).1).1 hz
        rw [hp, if_neg hzv, if_neg hzx]
    · show (nx' u = x ∧ pv' x = u) ∧ (nx' x = v ∧ pv' v = x) ∧ Linked nx' pv' (v :: Q0)
      refine ⟨⟨by rw [hn, if_pos rfl], by rw [hp, if_neg hvx.symm, if_pos rfl]⟩,
              ⟨by rw [hn, if_neg hux.symm, if_pos rfl], by rw [hp, if_pos rfl]⟩, ?_⟩
      apply linked_congr _ _ _ hl2
      · intro z hz
        have hzB : z ∈ B := by
          have : (v :: Q0).dropLast = B := by rw [← eB, List.dropLast_concat]
          rwa [this] at hz
        have hzu : z ≠ u := fun e => disj z (e ▸ hu_mem) hzB
        have hzx : z ≠ x := fun e => hxB (e ▸ hzB)
        rw [hn, if_neg hzu, if_neg hzx]
      · intro z hz
        simp only [List.tail_cons] at hz
        cases B with
        | nil => simp at eB; rw [eB.2] at hz; cases hz
        | cons b B' =>
          simp at eB
          have hzm : z ∈ B' ++ [l] := by rw [eB.2]; exact hz
          have hbB : (b :: B').Nodup := (List.nodup_append.mp (by simpa using hnd : ((l :: A) ++ (b :: B')).Nodup)).2.1
          have hzv : z ≠ v := by
            rw [← eB.1]
            intro e
            rcases List.mem_append.mp hzm with h | h
            · exact (List.nodup_cons.mp hbB).1 (e ▸ h)
            · simp at h; exact disj l (by simp) (by rw [← h, e]; simp)
          have hzx : z ≠ x := by
            intro e
            rcases List.mem_append.mp hzm with h | h
            · exact hxB (by rw [← e]; simp [h])
            · simp at h; exact hxl (e ▸ h)
          rw [hp, if_neg hzv, if_neg hzx]
  · have : (l :: (A ++ x :: B)).Perm (x :: l :: (A ++ B)) := by
      have : (l :: A ++ x :: B).Perm (x :: (l :: A ++ B)) := List.perm_middle
      simpa using this
    rw [this.nodup_iff]
    exact List.nodup_cons.mpr ⟨hx, hnd⟩

/-- UNLINK `x` whose neighbours are `u` and `v`; `x` ends up self-linked -/
theorem isList_remove {nx pv nx' pv' : Nat → Nat} (l : Nat) (A B P0 Q0 : List Nat) (u v x : Nat)
    (h : IsList nx pv l (A ++ x :: B))
    (eA : l :: A = P0 ++ [u]) (eB : B ++ [l] = v :: Q0)
    (hn : ∀ z, nx' z = if z = x then x else if z = u then v else nx z)
    (hp : ∀ z, pv' z = if z = x then x else if z = v then u else pv z) :
    IsList nx' pv' l (A ++ B) ∧ nx' x = x ∧ pv' x = x ∧ nx x = v ∧ pv x = u := by
  obtain ⟨hl, hnd⟩ := h
  have hndp : (x :: l :: (A ++ B)).Nodup := by
    have : (l :: (A ++ x :: B)).Perm (x :: l :: (A ++ B)) := by
      have : (l :: A ++ x :: B).Perm (x :: (l :: A ++ B)) := List.perm_middle
      simpa using this
    exact this.nodup_iff.mp hnd
  obtain ⟨hx, hnd0⟩ := List.nodup_cons.mp hndp
  have path_eq : l :: (A ++ x :: B) ++ [l] = P0 ++ u :: x :: v :: Q0 := by
    calc l :: (A ++ x :: B) ++ [l] = (l :: A) ++ x :: (B ++ [l]) := by simp
      _ = (P0 ++ [u]) ++ x :: (v :: Q0) := by rw [eA, eB]
      _ = P0 ++ u :: x :: v :: Q0 := by simp
  rw [path_eq, linked_append_iff] at hl
  obtain ⟨hl1, ⟨_, hpx⟩, ⟨hnx, _⟩, hl2⟩ := hl
  have new_eq : l :: (A ++ B) ++ [l] = P0 ++ u :: v :: Q0 := by
    calc l :: (A ++ B) ++ [l] = (l :: A) ++ (B ++ [l]) := by simp
      _ = (P0 ++ [u]) ++ (v :: Q0) := by rw [eA, eB]
      _ = P0 ++ u :: v :: Q0 := by simp
  have nd1 : (P0 ++ [u]).Nodup := by rw [← eA]; exact (List.nodup_append.mp (by simpa using hnd0)).1
  have hxA : x ∉ l :: A := fun hm => hx (by simp at hm ⊢; rcases hm with e | e; exact Or.inl e; exact Or.inr (Or.inl e))
  have hxB : x ∉ B := fun hm => hx (by simp; exact Or.inr (Or.inr hm))
  have hxl : x ≠ l := fun e => hxA (by simp [e])
  have disj : ∀ z, z ∈ l :: A → z ∈ B → False := by
    intro z h1 h2
    have := (List.nodup_append.mp (by simpa using hnd0 : ((l :: A) ++ B).Nodup)).2.2 z h1 z h2
    exact this rfl
  have hu_mem : u ∈ l :: A := by rw [eA]; simp
  have hv_cases : (v ∈ B) ∨ (v = l ∧ B = []) := by
    cases B with
    | nil => simp at eB; exact Or.inr ⟨eB.1.symm, rfl⟩
    | cons b B' => simp at eB; exact Or.inl (by rw [eB.1]; simp)
  have hux : u ≠ x := fun e => hxA (e ▸ hu_mem)
  have hvx : v ≠ x := by
    rcases hv_cases with h | ⟨h, _⟩
    · exact fun e => hxB (e ▸ h)
    · rw [h]; exact fun e => hxl e.symm
  refine ⟨⟨?_, hnd0⟩, by rw [hn, if_pos rfl], by rw [hp, if_pos rfl], hnx, hpx⟩
  rw [new_eq, linked_append_iff]
  refine ⟨?_, ?_⟩
  · apply linked_congr _ _ _ hl1
    · intro z hz
      simp only [List.dropLast_concat] at hz
      have hzu : z ≠ u := by
        intro e; subst e
        have := (List.nodup_append.mp nd1).2.2 z hz z (by simp)
        exact this rfl
      have hzx : z ≠ x := fun e => hxA (by rw [eA, ← e]; simp [hz])
      rw [hn, if_neg hzx, if_neg hzu]
    · intro z hz
      have hzm : z ∈ l :: A := by rw [eA]; exact List.mem_of_mem_tail hz
      have hzx : z ≠ x := fun e => hxA (e ▸ hzm)
      have hzv : z ≠ v := by
        rcases hv_cases with h | ⟨h, _⟩
        · exact fun e => disj z hzm (e ▸ h)
        · rw [h]
          intro e
          have : (l :: A).tail = (P0 ++ [u]).tail := by rw [eA]
          rw [← this, List.tail_cons, e] at hz
          exact (List.nodup_cons.mp (List.nodup_append.mp (by simpa using hnd0 : ((l :: A) ++ B).Nodup)).1).1 hz
      rw [hp, if_neg hzx, if_neg hzv]
  · show (nx' u = v ∧ pv' v = u) ∧ Linked nx' pv' (v :: Q0)
    refine ⟨⟨by rw [hn, if_neg hux, if_pos rfl], by rw [hp, if_neg hvx, if_pos rfl]⟩, ?_⟩
    apply linked_congr _ _ _ hl2
    · intro z hz
      have hzB : z ∈ B := by
        have : (v :: Q0).dropLast = B := by rw [← eB, List.dropLast_concat]
        rwa [this] at hz
      have hzu : z ≠ u := fun e => disj z (e ▸ hu_mem) hzB
      have hzx : z ≠ x := fun e => hxB (e ▸ hzB)
      rw [hn, if_neg hzx, if_neg hzu]
    · intro z hz
      simp only [List.tail_cons] at hz
      cases B with
      | nil => simp at eB; rw [eB.2] at hz; cases hz
      | cons b B' =>
        simp at eB
        have hzm : z ∈ B' ++ [l] := by rw [eB.2]; exact hz
        have hbB : (b :: B').Nodup := (List.nodup_append.mp (by simpa using hnd0 : ((l :: A) ++ (b :: B')).Nodup)).2.1
        have hzv : z ≠ v := by
          rw [← eB.1]
          intro e
          rcases List.mem_append.mp hzm with h | h
          · exact (List.nodup_cons.mp hbB).1 (e ▸ h)
          · simp at h; exact disj l (by simp) (by rw [← h, e]; simp)
        have hzx : z ≠ x := by
          intro e
          rcases List.mem_append.mp hzm with h | h
          · exact hxB (by rw [← e]; simp [h])
          · simp at h; exact hxl (e ▸ h)
        rw [hp, if_neg hzx, if_neg hzv]

/-- FRAME: a ring none of whose nodes is written to is unchanged -/
theorem isList_frame {nx pv nx' pv' : Nat → Nat} (l : Nat) (xs : List Nat) (h : IsList nx pv l xs)
    (hn : ∀ z, z ∈ l :: xs → nx' z = nx z) (hp : ∀ z, z ∈ l :: xs → pv' z = pv z) :
    IsList nx' pv' l xs := by
  refine ⟨linked_congr _ ?_ ?_ h.1, h.2⟩
  · intro z hz
    apply hn
    have : (l :: xs ++ [l]).dropLast = l :: xs := List.dropLast_concat
    rw [← this]; exact hz
  · intro z hz
    apply hp
    simp only [List.cons_append, List.tail_cons, List.mem_append, List.mem_singleton] at hz
    rcases hz with h | h
    · exact List.mem_cons_of_mem _ h
    · rw [h]; exact List.mem_cons_self


/-- last member (or the head itself) is `pv l` -/
theorem isList_prev_head {nx pv : Nat → Nat} {l : Nat} {xs : List Nat} (h : IsList nx pv l xs) :
    pv l = (l :: xs).getLast (by simp) := by
  have e : l :: xs ++ [l] = (l :: xs).dropLast ++ (l :: xs).getLast (by simp) :: [l] := by
    have := List.dropLast_concat_getLast (l := l :: xs) (by simp)
    calc l :: xs ++ [l] = (l :: xs) ++ [l] := rfl
      _ = ((l :: xs).dropLast ++ [(l :: xs).getLast (by simp)]) ++ [l] := by rw [this]
      _ = _ := by simp
  have hl := h.1
  rw [e, linked_append_iff] at hl
  exact hl.2.1.2

/-- the two neighbours of a member -/
theorem isList_nbrs {nx pv : Nat → Nat} (l : Nat) (A B P0 Q0 : List Nat) (u v x : Nat)
    (h : IsList nx pv l (A ++ x :: B)) (eA : l :: A = P0 ++ [u]) (eB : B ++ [l] = v :: Q0) :
    nx x = v ∧ pv x = u := by
  have path_eq : l :: (A ++ x :: B) ++ [l] = P0 ++ u :: x :: v :: Q0 := by
    calc l :: (A ++ x :: B) ++ [l] = (l :: A) ++ x :: (B ++ [l]) := by simp
      _ = (P0 ++ [u]) ++ x :: (v :: Q0) := by rw [eA, eB]
      _ = P0 ++ u :: x :: v :: Q0 := by simp
  have hl := h.1
  rw [path_eq, linked_append_iff] at hl
  exact ⟨hl.2.2.1.1, hl.2.1.2⟩

theorem linked_reverse (nx pv : Nat → Nat) : ∀ path : List Nat, Linked nx pv path → Linked pv nx path.reverse
  | [], _ => trivial
  | [_], _ => trivial
  | a :: b :: r, h => by
    obtain ⟨⟨e1, e2⟩, hr⟩ := h
    have ih := linked_reverse nx pv (b :: r) hr
    have : (a :: b :: r).reverse = (r.reverse) ++ b :: [a] := by simp
    rw [this, linked_append_iff]
    refine ⟨?_, ⟨e2, e1⟩, trivial⟩
    have : (b :: r).reverse = r.reverse ++ [b] := by simp
    rw [← this]; exact ih

/-- `list_for_each`: follow `nx` from `p` until the head `l` -/
def walk (nx : Nat → Nat) (l : Nat) : Nat → Nat → List Nat
  | 0, _ => []
  | fuel + 1, p => if p = l then [] else p :: walk nx l fuel (nx p)

theorem walk_of_linked (nx pv : Nat → Nat) (l : Nat) : ∀ (xs : List Nat) (a fuel : Nat),
    Linked nx pv (a :: xs ++ [l]) → l ∉ xs → xs.length ≤ fuel → walk nx l fuel (nx a) = xs
  | [], a, fuel, h, _, _ => by
    have : nx a = l := h.1.1
    rw [this]
    cases fuel with
    | zero => rfl
    | succ f => unfold walk; rw [if_pos rfl]
  | x :: r, a, fuel, h, hl, hf => by
    have e : nx a = x := h.1.1
    rw [e]
    cases fuel with
    | zero => simp at hf
    | succ f =>
      unfold walk
      have : x ≠ l := fun e' => hl (by simp [e'])
      rw [if_neg this]
      congr 1
      exact walk_of_linked nx pv l r x f h.2 (fun hm => hl (List.mem_cons_of_mem _ hm)) (by simpa using hf)

/-- forward traversal of a ring yields its members in order -/
theorem walk_next_isList {nx pv : Nat → Nat} {l : Nat} {xs : List Nat} (h : IsList nx pv l xs) (fuel : Nat)
    (hf : xs.length ≤ fuel) : walk nx l fuel (nx l) = xs :=
  walk_of_linked nx pv l xs l fuel h.1 (List.nodup_cons.mp h.2).1 hf

/-- backward traversal yields them in reverse order -/
theorem walk_prev_isList {nx pv : Nat → Nat} {l : Nat} {xs : List Nat} (h : IsList nx pv l xs) (fuel : Nat)
    (hf : xs.length ≤ fuel) : walk pv l fuel (pv l) = xs.reverse := by
  have hr := linked_reverse nx pv _ h.1
  have : (l :: xs ++ [l]).reverse = l :: xs.reverse ++ [l] := by simp
  rw [this] at hr
  exact walk_of_linked pv nx l xs.reverse l fuel hr
    (fun hm => (List.nodup_cons.mp h.2).1 (List.mem_reverse.mp hm)) (by simpa using hf)

theorem isList_empty_iff {nx pv : Nat → Nat} {l : Nat} {xs : List Nat} (h : IsList nx pv l xs) :
    nx l = l ↔ xs = [] := by
  cases xs with
  | nil => simp [h.1.1.1]
  | cons x r =>
    have e : nx l = x := h.1.1.1
    have : x ≠ l := fun e' => (List.nodup_cons.mp h.2).1 (by simp [e'])
    simp [e, this]

end UsualProofs.C15.Ring
