import UsualProofs.C15.HTrun
/-! What callers of hashtab-impl.h may additionally rely on: a NULL `arg` never matches (so
    `hashtab_lookup(h, key, true, NULL)` always hands out a fresh slot — `hashtab_copy` depends on
    it), and a stored value slot keeps its place and content under later inserts (including chain
    growth); only `hashtab_delete`'s compaction (inside the table of the deleted pair) and
    `hashtab_copy` move pairs. -/
namespace UsualProofs.C15.HT
open Usual.C15 Usual.C15.HashTab UsualProofs.C15.HTdel

variable {n : Nat}

theorem argMatch_none (cmp : Nat → Nat → Bool) (v : Nat) : argMatch cmp v none = false := rfl

/-- with a NULL `arg` the probe never reports a match -/
theorem probe_none_not_found (cmp : Nat → Nat → Bool) (t : Table) (key : Nat) :
    ∀ fuel pos p, probe cmp t key none fuel pos ≠ .found p := by
  intro fuel pos p h
  have := ((probe_sound cmp t key none fuel pos).1 p h).2.2
  rw [argMatch_none] at this; cases this

/-- NULL `arg`: insert always creates a new slot and adds exactly the new pair -/
theorem insert_null_arg (C : Cyc n) (hn : 2 ≤ n) (cmp : Nat → Nat → Bool) (key val : Nat) (hv : val ≠ 0)
    (h : List Table) (hne : h ≠ []) (hc : CInv C h) :
    (HashTab.insert cmp key val none h).2 = .new ∧
    (contents (HashTab.insert cmp key val none h).1).Perm ((key, val) :: contents h) := by
  obtain ⟨_, _, b3, b4, b5⟩ := insert_spec C hn cmp key val none hv h hne hc
  have : (HashTab.insert cmp key val none h).2 = .new := by
    cases hr : (HashTab.insert cmp key val none h).2 with
    | new => rfl
    | «exists» v => have := (b5 v hr).2.2; rw [argMatch_none] at this; cases this
    | spin => exact absurd hr b3
  exact ⟨this, (b4 this).1⟩

theorem put_other (t : Table) (p key val q : Nat) (hq : q ≠ p) :
    (put t p key val).keys.get q = t.keys.get q ∧ (put t p key val).vals.get q = t.vals.get q :=
  ⟨Store.get_set_ne _ _ _ _ hq, Store.get_set_ne _ _ _ _ hq⟩

/-- SLOT STABILITY under insert: every occupied slot of every table of the chain is still there,
    at the same table index and slot number, with the same key and value, after any insert —
    also when the insert chains a new table (growth appends, it never moves) -/
theorem insert_keeps_slots (cmp : Nat → Nat → Bool) (key val : Nat) (arg : Option Nat) :
    ∀ (h : List Table) (ti : Nat) (t : Table) (p : Nat), h[ti]? = some t → t.vals.get p ≠ 0 →
      ∃ t', (HashTab.insert cmp key val arg h).1[ti]? = some t' ∧ t'.size = t.size ∧
        t'.keys.get p = t.keys.get p ∧ t'.vals.get p = t.vals.get p := by
  intro h
  induction h with
  | nil => intro ti t p e; simp at e
  | cons t0 rest ih =>
    intro ti t p e hocc
    cases rest with
    | nil =>
      unfold HashTab.insert
      cases hp : probe0 cmp t0 key arg with
      | found q => exact ⟨t, e, rfl, rfl, rfl⟩
      | spin => exact ⟨t, e, rfl, rfl, rfl⟩
      | empty q =>
        simp only
        have hq0 : t0.vals.get q = 0 := (probe_sound cmp t0 key arg t0.size (calcPos t0 key)).2 q hp
        cases ti with
        | succ k => simp at e
        | zero =>
          simp at e; subst e
          split
          · exact ⟨t0, by simp, rfl, rfl, rfl⟩
          · have hne : p ≠ q := fun e' => hocc (e' ▸ hq0)
            exact ⟨put t0 q key val, by simp, rfl, (put_other t0 q key val p hne).1, (put_other t0 q key val p hne).2⟩
    | cons t2 rest2 =>
      unfold HashTab.insert
      cases hp : probe0 cmp t0 key arg with
      | found q => exact ⟨t, e, rfl, rfl, rfl⟩
      | spin => exact ⟨t, e, rfl, rfl, rfl⟩
      | empty q =>
        simp only
        cases ti with
        | zero => simp at e; subst e; exact ⟨t0, by simp, rfl, rfl, rfl⟩
        | succ k =>
          have e' : (t2 :: rest2)[k]? = some t := by simpa using e
          obtain ⟨t', a1, a2, a3, a4⟩ := ih k t p e' hocc
          exact ⟨t', by simpa using a1, a2, a3, a4⟩

/-- the chain never gets shorter by an insert, and grows by at most one table -/
theorem insert_length (cmp : Nat → Nat → Bool) (key val : Nat) (arg : Option Nat) :
    ∀ (h : List Table), h.length ≤ (HashTab.insert cmp key val arg h).1.length ∧
      (HashTab.insert cmp key val arg h).1.length ≤ h.length + 1 := by
  intro h
  induction h with
  | nil => simp [HashTab.insert]
  | cons t0 rest ih =>
    cases rest with
    | nil =>
      unfold HashTab.insert
      cases probe0 cmp t0 key arg with
      | found q => simp
      | spin => simp
      | empty q => simp only; split <;> simp
    | cons t2 rest2 =>
      unfold HashTab.insert
      cases probe0 cmp t0 key arg with
      | found q => simp
      | spin => simp
      | empty q => simp only [List.length_cons] at ih ⊢; omega

theorem lookup_ge (cmp : Nat → Nat → Bool) (key : Nat) (arg : Option Nat) :
    ∀ (h : List Table) (ti0 ti p : Nat), lookup cmp key arg h ti0 = .found ti p → ti0 ≤ ti := by
  intro h
  induction h with
  | nil => intro ti0 ti p e; cases e
  | cons t rest ih =>
    intro ti0 ti p e
    unfold lookup at e
    cases hp : probe0 cmp t key arg with
    | found q => rw [hp] at e; cases e; exact Nat.le_refl _
    | empty q => rw [hp] at e; have := ih (ti0 + 1) ti p e; omega
    | spin => rw [hp] at e; cases e

/-- DELETE is local: every table other than the one holding the deleted pair is untouched
    (same object at the same chain position); with no matching pair nothing changes at all -/
theorem delete_local (cmp : Nat → Nat → Bool) (key : Nat) (arg : Option Nat) :
    ∀ (h h' : List Table) (ti0 : Nat), HashTab.delete cmp key arg h = some h' →
      (lookup cmp key arg h ti0 = .none → h' = h) ∧
      (∀ ti p, lookup cmp key arg h ti0 = .found ti p → ∀ tj, tj ≠ ti - ti0 → h'[tj]? = h[tj]?) := by
  intro h
  induction h with
  | nil =>
    intro h' ti0 e
    simp [HashTab.delete] at e
    subst e
    exact ⟨fun _ => rfl, fun _ _ _ _ _ => rfl⟩
  | cons t rest ih =>
    intro h' ti0 e
    unfold HashTab.delete at e
    unfold lookup
    cases hp : probe0 cmp t key arg with
    | found q =>
      rw [hp] at e
      simp only at e ⊢
      cases hc : compact t.size t q with
      | none => rw [hc] at e; cases e
      | some t' =>
        rw [hc] at e
        simp only [Option.map_some, Option.some.injEq] at e
        subst e
        refine ⟨fun e' => (by cases e'), ?_⟩
        intro ti p e' tj hne
        cases e'
        cases tj with
        | zero => omega
        | succ k => simp
    | empty q =>
      rw [hp] at e
      simp only at e ⊢
      cases hd : HashTab.delete cmp key arg rest with
      | none => rw [hd] at e; cases e
      | some r' =>
        rw [hd] at e
        simp only [Option.map_some, Option.some.injEq] at e
        subst e
        obtain ⟨i1, i2⟩ := ih r' (ti0 + 1) hd
        refine ⟨fun e' => by rw [i1 e'], ?_⟩
        intro ti p e' tj hne
        cases tj with
        | zero => rfl
        | succ k =>
          simp only [List.getElem?_cons_succ]
          have := lookup_ge cmp key arg rest (ti0 + 1) ti p e'
          exact i2 ti p e' k (by omega)
    | spin => rw [hp] at e; cases e

end UsualProofs.C15.HT
