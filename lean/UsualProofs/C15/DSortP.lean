import UsualProofs.C15.DListP
import UsualProofs.C15.Sort
import Mathlib.Tactic.Tauto
/-! `list_sort` (usual/list.c) at pointer level: the merge loop, the carry loop over the run
    stack, the collapse loop and the closing prev-restoring loop, as transcribed in
    `Usual.C15.DList`, refine the sequence-level sort of `Usual.C15.ListSort`; afterwards the ring
    of the list holds exactly the sorted sequence with consistent `next` and `prev` links, and
    no other node has been written to. -/
namespace UsualProofs.C15.DSortP
open Usual.C15 Usual.C15.DList UsualProofs.C15.Ring UsualProofs.C15.DListP

/-- consecutive nodes are linked through `nx` -/
def NextPath (nx : Nat → Nat) : List Nat → Prop
  | [] => True
  | [_] => True
  | a :: b :: r => nx a = b ∧ NextPath nx (b :: r)

theorem nextPath_congr {nx nx' : Nat → Nat} : ∀ path : List Nat,
    (∀ z, z ∈ path.dropLast → nx' z = nx z) → NextPath nx path → NextPath nx' path
  | [], _, _ => trivial
  | [_], _, _ => trivial
  | a :: b :: r, h1, h => by
    refine ⟨by rw [h1 a (by simp [List.dropLast])]; exact h.1, ?_⟩
    apply nextPath_congr (b :: r) _ h.2
    intro z hz; exact h1 z (by simp only [List.dropLast_cons_cons]; exact List.mem_cons_of_mem _ hz)

/-- the closing loop of `list_sort` -/
theorem fixPrev_spec (l : Nat) (ys : List Nat) (hnd : (l :: ys).Nodup) (h0 : 0 ∉ l :: ys) :
    ∀ (Rest : List Nat) (fuel : Nat) (s : DL) (p : Nat) (Done : List Nat),
      Done ++ p :: Rest = l :: ys →
      Linked s.next.get s.prev.get (Done ++ [p]) → NextPath s.next.get (p :: Rest ++ [0]) →
      Rest.length < fuel →
      Linked (fixPrev l fuel s p).next.get (fixPrev l fuel s p).prev.get (l :: ys ++ [l]) ∧
      (∀ z, z ∉ l :: ys → (fixPrev l fuel s p).next.get z = s.next.get z ∧
                           (fixPrev l fuel s p).prev.get z = s.prev.get z) := by
  intro Rest
  induction Rest with
  | nil =>
    intro fuel s p Done hpath hlk hnp hf
    obtain ⟨f, rfl⟩ : ∃ f, fuel = f + 1 := ⟨fuel - 1, by omega⟩
    have hn0 : s.next.get p = 0 := hnp.1
    unfold fixPrev
    rw [if_pos hn0]
    have hpath' : Done ++ [p] = l :: ys := hpath
    have hnd2 : (Done ++ [p]).Nodup := by rw [hpath']; exact hnd
    have hpD : p ∉ Done := fun h => (List.nodup_append.mp hnd2).2.2 p h p (by simp) rfl
    refine ⟨?_, ?_⟩
    · have : l :: ys ++ [l] = Done ++ p :: [l] := by rw [← hpath']; simp
      rw [this, linked_append_iff]
      refine ⟨?_, ⟨?_, ?_⟩, trivial⟩
      · apply linked_congr _ _ _ hlk
        · intro z hz
          simp only [List.dropLast_concat] at hz
          unfold setNext setPrev
          exact Store.get_set_ne _ _ _ _ (fun e => hpD (e ▸ hz))
        · intro z hz
          have hzl : z ≠ l := by
            intro e
            rw [hpath', List.tail_cons, e] at hz
            exact (List.nodup_cons.mp hnd).1 hz
          unfold setNext setPrev
          exact Store.get_set_ne _ _ _ _ hzl
      · unfold setNext setPrev; exact Store.get_set_eq _ _ _
      · unfold setNext setPrev; exact Store.get_set_eq _ _ _
    · intro z hz
      have hzp : z ≠ p := fun e => hz (by rw [← hpath', e]; simp)
      have hzl : z ≠ l := fun e => hz (by simp [e])
      unfold setNext setPrev
      exact ⟨Store.get_set_ne _ _ _ _ hzp, Store.get_set_ne _ _ _ _ hzl⟩
  | cons r R ih =>
    intro fuel s p Done hpath hlk hnp hf
    obtain ⟨f, rfl⟩ : ∃ f, fuel = f + 1 := ⟨fuel - 1, by simp at hf; omega⟩
    have hnr : s.next.get p = r := hnp.1
    have hrm : r ∈ l :: ys := by rw [← hpath]; simp
    have hr0 : r ≠ 0 := fun e => h0 (e ▸ hrm)
    unfold fixPrev
    rw [hnr, if_neg hr0]
    have hnd2 : (Done ++ p :: r :: R).Nodup := by rw [hpath]; exact hnd
    have hnd3 : ((Done ++ [p]) ++ r :: R).Nodup := by simpa using hnd2
    have hrD : r ∉ Done ++ [p] := fun h => (List.nodup_append.mp hnd3).2.2 r h r (by simp) rfl
    have step := ih f (setPrev s r p) r (Done ++ [p]) (by rw [← hpath]; simp) ?_ ?_ (by simp at hf; omega)
    · refine ⟨step.1, ?_⟩
      intro z hz
      have := step.2 z hz
      have hzr : z ≠ r := fun e => hz (e ▸ hrm)
      refine ⟨this.1, ?_⟩
      rw [this.2]; unfold setPrev; exact Store.get_set_ne _ _ _ _ hzr
    · have : Done ++ [p] ++ [r] = Done ++ p :: [r] := by simp
      rw [this, linked_append_iff]
      refine ⟨?_, ⟨hnr, ?_⟩, trivial⟩
      · apply linked_congr _ _ _ hlk
        · intro z _; rfl
        · intro z hz
          have hzr : z ≠ r := fun e => hrD (e ▸ List.mem_of_mem_tail hz)
          unfold setPrev; exact Store.get_set_ne _ _ _ _ hzr
      · unfold setPrev; exact Store.get_set_eq _ _ _
    · exact hnp.2

/-- singly linked run: from pointer `a` through the nodes `xs`, the last node's `next` is `b` -/
def ChnTo (nx : Nat → Nat) : Nat → List Nat → Nat → Prop
  | a, [], b => a = b
  | a, x :: r, b => a = x ∧ ChnTo nx (nx x) r b

theorem chnTo_append (nx : Nat → Nat) : ∀ (xs ys : List Nat) (a b : Nat),
    ChnTo nx a (xs ++ ys) b ↔ ∃ m, ChnTo nx a xs m ∧ ChnTo nx m ys b
  | [], ys, a, b => by simp [ChnTo]
  | x :: r, ys, a, b => by
    simp only [List.cons_append, ChnTo]
    rw [chnTo_append nx r ys]
    constructor
    · rintro ⟨e, m, h1, h2⟩; exact ⟨m, ⟨e, h1⟩, h2⟩
    · rintro ⟨m, ⟨e, h1⟩, h2⟩; exact ⟨e, m, h1, h2⟩

theorem chnTo_congr {nx nx' : Nat → Nat} : ∀ (xs : List Nat) (a b : Nat),
    (∀ z, z ∈ xs → nx' z = nx z) → ChnTo nx a xs b → ChnTo nx' a xs b
  | [], _, _, _, h => h
  | x :: r, a, b, hc, h => by
    refine ⟨h.1, ?_⟩
    rw [hc x (by simp)]
    exact chnTo_congr r _ _ (fun z hz => hc z (List.mem_cons_of_mem _ hz)) h.2

theorem setNext_get (s : DL) (t e z : Nat) : (setNext s t e).next.get z = if z = t then e else s.next.get z :=
  Store.get_set _ _ _ _

/-- the output built so far: nothing yet (`tail == res`), or a run `O' ++ [t]` starting at
    `res->next` whose last node `t` is `tail` (its `next` is still to be written) -/
def OutInv (nx : Nat → Nat) (rn : Nat) (O : List Nat) : Option Nat → Prop
  | none => O = []
  | some t => ∃ O', O = O' ++ [t] ∧ ChnTo nx rn O' t

/-- `tail->next = e` (with `tail == res` the store goes to `res->next`) -/
def linkTail (s : DL) (tail : Option Nat) (rn e : Nat) : DL × Nat :=
  match tail with
  | none => (s, e)
  | some t => (setNext s t e, rn)

theorem mergeLoop_succ (le : Nat → Nat → Bool) (fuel : Nat) (s : DL) (p q : Nat) (tail : Option Nat) (rn : Nat) :
    mergeLoop le (fuel + 1) s p q tail rn =
      if p ≠ 0 ∧ q ≠ 0 then
        mergeLoop le fuel (linkTail s tail rn (if le p q then p else q)).1
          (if le p q then s.next.get p else p) (if le p q then q else s.next.get q)
          (some (if le p q then p else q)) (linkTail s tail rn (if le p q then p else q)).2
      else linkTail s tail rn (if p ≠ 0 then p else q) := by
  cases tail <;> rfl

/-- closing store `tail->next = r` in front of a run `R` starting at `r` -/
theorem close_spec (s : DL) (tail : Option Nat) (rn r : Nat) (O R : List Nat)
    (hR : ChnTo s.next.get r R 0) (hO : OutInv s.next.get rn O tail) (hnd : (O ++ R).Nodup) :
    ChnTo (linkTail s tail rn r).1.next.get (linkTail s tail rn r).2 (O ++ R) 0 ∧
    (∀ z, z ∉ O → (linkTail s tail rn r).1.next.get z = s.next.get z) ∧ (linkTail s tail rn r).1.prev = s.prev := by
  cases tail with
  | none =>
    have : O = [] := hO
    subst this
    exact ⟨hR, fun _ _ => rfl, rfl⟩
  | some t =>
    obtain ⟨O', e, hc⟩ := hO
    subst e
    have hnd' := List.nodup_append.mp hnd
    have hndO := List.nodup_append.mp hnd'.1
    have htO : t ∉ O' := fun h => hndO.2.2 t h t (by simp) rfl
    have htR : t ∉ R := fun h => hnd'.2.2 t (by simp) t h rfl
    refine ⟨?_, ?_, rfl⟩
    · show ChnTo (setNext s t r).next.get rn (O' ++ [t] ++ R) 0
      rw [List.append_assoc, chnTo_append]
      refine ⟨t, chnTo_congr O' _ _ (fun z hz => ?_) hc, ?_⟩
      · rw [setNext_get, if_neg (fun (e : z = t) => htO (e ▸ hz))]
      · refine ⟨rfl, ?_⟩
        rw [setNext_get, if_pos rfl]
        exact chnTo_congr R _ _ (fun z hz => by rw [setNext_get, if_neg (fun (e : z = t) => htR (e ▸ hz))]) hR
    · intro z hz
      show (setNext s t r).next.get z = _
      rw [setNext_get, if_neg (fun e => hz (by simp [e]))]

/-- one `tail->next = e; tail = e` step -/
theorem step_out (s : DL) (tail : Option Nat) (rn e : Nat) (O : List Nat)
    (hO : OutInv s.next.get rn O tail) (hnd : (O ++ [e]).Nodup) :
    OutInv (linkTail s tail rn e).1.next.get (linkTail s tail rn e).2 (O ++ [e]) (some e) ∧
    (∀ z, z ∉ O → (linkTail s tail rn e).1.next.get z = s.next.get z) ∧ (linkTail s tail rn e).1.prev = s.prev := by
  cases tail with
  | none =>
    have : O = [] := hO
    subst this
    exact ⟨⟨[], rfl, rfl⟩, fun _ _ => rfl, rfl⟩
  | some t =>
    obtain ⟨O', e', hc⟩ := hO
    subst e'
    have hnd' := List.nodup_append.mp hnd
    have hndO := List.nodup_append.mp hnd'.1
    have htO : t ∉ O' := fun h => hndO.2.2 t h t (by simp) rfl
    refine ⟨⟨O' ++ [t], rfl, ?_⟩, ?_, rfl⟩
    · show ChnTo (setNext s t e).next.get rn (O' ++ [t]) e
      rw [chnTo_append]
      refine ⟨t, chnTo_congr O' _ _ (fun z hz => ?_) hc, rfl, ?_⟩
      · rw [setNext_get, if_neg (fun (e : z = t) => htO (e ▸ hz))]
      · show (setNext s t e).next.get t = e
        rw [setNext_get, if_pos rfl]
    · intro z hz
      show (setNext s t e).next.get z = _
      rw [setNext_get, if_neg (fun e => hz (by simp [e]))]


/-- merge() at pointer level refines the sequence-level merge -/
theorem mergeLoop_spec (le : Nat → Nat → Bool) :
    ∀ (fuel : Nat) (s : DL) (p q : Nat) (tail : Option Nat) (rn : Nat) (P Q O : List Nat),
      ChnTo s.next.get p P 0 → ChnTo s.next.get q Q 0 → (O ++ (P ++ Q)).Nodup → 0 ∉ P ++ Q →
      OutInv s.next.get rn O tail → P.length + Q.length < fuel →
      ChnTo (mergeLoop le fuel s p q tail rn).1.next.get (mergeLoop le fuel s p q tail rn).2
        (O ++ ListSort.merge le P Q) 0 ∧
      (∀ z, z ∉ O ++ (P ++ Q) →
        (mergeLoop le fuel s p q tail rn).1.next.get z = s.next.get z) ∧
      (mergeLoop le fuel s p q tail rn).1.prev = s.prev := by
  intro fuel
  induction fuel with
  | zero => intro s p q tail rn P Q O _ _ _ _ _ hf; omega
  | succ fuel ih =>
    intro s p q tail rn P Q O hP hQ hnd h0 hO hf
    rw [mergeLoop_succ]
    cases P with
    | nil =>
      have hp0 : p = 0 := hP
      subst hp0
      rw [if_neg (by simp)]
      simp only [ne_eq, not_true_eq_false, if_false, ListSort.merge_nil_left]
      have := close_spec s tail rn q O Q hQ hO (by simpa using hnd)
      refine ⟨this.1, fun z hz => this.2.1 z (fun h => hz (List.mem_append_left _ h)), this.2.2⟩
    | cons x P' =>
      have hpx : p = x := hP.1
      subst hpx
      have hp0 : p ≠ 0 := fun e => h0 (by simp [e])
      cases Q with
      | nil =>
        have hq0 : q = 0 := hQ
        subst hq0
        rw [if_neg (by simp)]
        simp only [ne_eq, hp0, not_false_eq_true, if_true, ListSort.merge_nil_right]
        have := close_spec s tail rn p O (p :: P') hP hO (by simpa using hnd)
        refine ⟨this.1, fun z hz => this.2.1 z (fun h => hz (List.mem_append_left _ h)), this.2.2⟩
      | cons y Q' =>
        have hqy : q = y := hQ.1
        subst hqy
        have hq0 : q ≠ 0 := fun e => h0 (by simp [e])
        rw [if_pos ⟨hp0, hq0⟩]
        have hndO : ∀ z, z ∈ p :: P' ++ q :: Q' → z ∉ O := by
          intro z hz hzO
          exact (List.nodup_append.mp hnd).2.2 z hzO z hz rfl
        by_cases hle : le p q = true
        · simp only [hle, if_true]
          rw [ListSort.merge_cons_cons, if_pos hle]
          have hnd1 : (O ++ [p]).Nodup := by
            have : (O ++ [p] ++ (P' ++ q :: Q')).Nodup := by simpa using hnd
            exact (List.nodup_append.mp this).1
          have st := step_out s tail rn p O hO hnd1
          -- the recursive call continues from the store `step_out` describes
          have key : ∀ (s1 : DL) (rn1 : Nat), OutInv s1.next.get rn1 (O ++ [p]) (some p) →
              (∀ z, z ∉ O → s1.next.get z = s.next.get z) → s1.prev = s.prev →
              ChnTo (mergeLoop le fuel s1 (s.next.get p) q (some p) rn1).1.next.get
                  (mergeLoop le fuel s1 (s.next.get p) q (some p) rn1).2 (O ++ p :: ListSort.merge le P' (q :: Q')) 0 ∧
              (∀ z, z ∉ O ++ (p :: P' ++ q :: Q') →
                (mergeLoop le fuel s1 (s.next.get p) q (some p) rn1).1.next.get z = s.next.get z) ∧
              (mergeLoop le fuel s1 (s.next.get p) q (some p) rn1).1.prev = s.prev := by
            intro s1 rn1 o1 f1 pv1
            have hP1 : ChnTo s1.next.get (s.next.get p) P' 0 :=
              chnTo_congr P' _ _ (fun z hz => f1 z (hndO z (by simp [hz]))) hP.2
            have hQ1 : ChnTo s1.next.get q (q :: Q') 0 :=
              chnTo_congr (q :: Q') _ _ (fun z hz => f1 z (hndO z (by
                simp only [List.cons_append, List.mem_cons, List.mem_append] at hz ⊢; tauto))) hQ
            have := ih s1 (s.next.get p) q (some p) rn1 P' (q :: Q') (O ++ [p]) hP1 hQ1
              (by simpa using hnd) (fun h => h0 (by simp at h ⊢; tauto)) o1 (by simp at hf ⊢; omega)
            refine ⟨by simpa using this.1, ?_, this.2.2.trans pv1⟩
            intro z hz
            rw [this.2.1 z (by simpa using hz)]
            exact f1 z (fun h => hz (List.mem_append_left _ h))
          exact key _ _ st.1 st.2.1 st.2.2
        · have hle' : le p q = false := by simpa using hle
          simp only [hle', Bool.false_eq_true, if_false]
          rw [ListSort.merge_cons_cons, if_neg hle]
          have hperm : (O ++ [q] ++ (p :: P' ++ Q')).Perm (O ++ (p :: P' ++ q :: Q')) := by
            rw [List.append_assoc]
            exact List.Perm.append_left O (List.perm_middle (a := q) (l₁ := p :: P') (l₂ := Q')).symm
          have hnd2 : (O ++ [q] ++ (p :: P' ++ Q')).Nodup := hperm.nodup_iff.mpr hnd
          have hnd1 : (O ++ [q]).Nodup := (List.nodup_append.mp hnd2).1
          have st := step_out s tail rn q O hO hnd1
          have key : ∀ (s1 : DL) (rn1 : Nat), OutInv s1.next.get rn1 (O ++ [q]) (some q) →
              (∀ z, z ∉ O → s1.next.get z = s.next.get z) → s1.prev = s.prev →
              ChnTo (mergeLoop le fuel s1 p (s.next.get q) (some q) rn1).1.next.get
                  (mergeLoop le fuel s1 p (s.next.get q) (some q) rn1).2 (O ++ q :: ListSort.merge le (p :: P') Q') 0 ∧
              (∀ z, z ∉ O ++ (p :: P' ++ q :: Q') →
                (mergeLoop le fuel s1 p (s.next.get q) (some q) rn1).1.next.get z = s.next.get z) ∧
              (mergeLoop le fuel s1 p (s.next.get q) (some q) rn1).1.prev = s.prev := by
            intro s1 rn1 o1 f1 pv1
            have hP1 : ChnTo s1.next.get p (p :: P') 0 :=
              chnTo_congr (p :: P') _ _ (fun z hz => f1 z (hndO z (by
                simp only [List.cons_append, List.mem_cons, List.mem_append] at hz ⊢; tauto))) hP
            have hQ1 : ChnTo s1.next.get (s.next.get q) Q' 0 :=
              chnTo_congr Q' _ _ (fun z hz => f1 z (hndO z (by simp [hz]))) hQ.2
            have := ih s1 p (s.next.get q) (some q) rn1 (p :: P') Q' (O ++ [q]) hP1 hQ1
              hnd2 (fun h => h0 (by simp at h ⊢; tauto)) o1 (by simp at hf ⊢; omega)
            refine ⟨by simpa using this.1, ?_, this.2.2.trans pv1⟩
            intro z hz
            rw [this.2.1 z (fun h => hz (hperm.mem_iff.mp h))]
            exact f1 z (fun h => hz (List.mem_append_left _ h))
          exact key _ _ st.1 st.2.1 st.2.2


open UsualProofs.C15.Sort in
/-- merge(cmp, p, q) on two disjoint NULL-terminated runs -/
theorem ptrMerge_spec (le : Nat → Nat → Bool) (fuel : Nat) (s : DL) (p q : Nat) (P Q : List Nat)
    (hP : ChnTo s.next.get p P 0) (hQ : ChnTo s.next.get q Q 0) (hnd : (P ++ Q).Nodup) (h0 : 0 ∉ P ++ Q)
    (hf : P.length + Q.length < fuel) :
    ChnTo (ptrMerge le fuel s p q).1.next.get (ptrMerge le fuel s p q).2 (ListSort.merge le P Q) 0 ∧
    (∀ z, z ∉ P ++ Q → (ptrMerge le fuel s p q).1.next.get z = s.next.get z) ∧
    (ptrMerge le fuel s p q).1.prev = s.prev := by
  have := mergeLoop_spec le fuel s p q none 0 P Q [] hP hQ (by simpa using hnd) h0 rfl hf
  simpa [ptrMerge] using this

theorem chnTo_head {nx : Nat → Nat} {a x b : Nat} {r : List Nat} (h : ChnTo nx a (x :: r) b) : a = x := h.1

/-- the run-head stack of the C code against the stack of runs of the sequence-level sort -/
def StackRep (nx : Nat → Nat) : List Nat → List (Option (List Nat)) → Prop
  | [], [] => True
  | r :: rs, none :: st => r = 0 ∧ StackRep nx rs st
  | r :: rs, some run :: st => r ≠ 0 ∧ ChnTo nx r run 0 ∧ StackRep nx rs st
  | _, _ => False

open UsualProofs.C15.Sort in
theorem stackRep_congr {nx nx' : Nat → Nat} : ∀ (stP : List Nat) (st : List (Option (List Nat))),
    (∀ z, z ∈ flat st → nx' z = nx z) → StackRep nx stP st → StackRep nx' stP st
  | [], [], _, h => h
  | [], _ :: _, _, h => h
  | _ :: _, [], _, h => h
  | r :: rs, none :: st, hc, h => ⟨h.1, stackRep_congr rs st hc h.2⟩
  | r :: rs, some run :: st, hc, h =>
    ⟨h.1, chnTo_congr run _ _ (fun z hz => hc z (by simp [flat, hz])) h.2.1,
     stackRep_congr rs st (fun z hz => hc z (by simp [flat, hz])) h.2.2⟩

theorem merge_ne_nil (le : Nat → Nat → Bool) (P Q : List Nat) (h : Q ≠ []) : ListSort.merge le P Q ≠ [] := by
  intro e
  have := (Sort.merge_perm le P Q).length_eq
  rw [e] at this
  cases Q with
  | nil => exact h rfl
  | cons y r => simp at this

open UsualProofs.C15.Sort in
/-- the carry loop of list_sort at pointer level refines `carry` -/
theorem carryP_spec (le : Nat → Nat → Bool) (fuel : Nat) :
    ∀ (st : List (Option (List Nat))) (stP : List Nat) (s : DL) (p : Nat) (run : List Nat),
      StackRep s.next.get stP st → ChnTo s.next.get p run 0 → run ≠ [] →
      (flat st ++ run).Nodup → 0 ∉ flat st ++ run → (flat st ++ run).length < fuel →
      StackRep (carryP le fuel s stP p).1.next.get (carryP le fuel s stP p).2 (ListSort.carry le st run) ∧
      (∀ z, z ∉ flat st ++ run → (carryP le fuel s stP p).1.next.get z = s.next.get z) ∧
      (carryP le fuel s stP p).1.prev = s.prev := by
  intro st
  induction st with
  | nil =>
    intro stP s p run hS hR hne hnd h0 hf
    cases stP with
    | cons _ _ => exact absurd hS (by simp [StackRep])
    | nil =>
      obtain ⟨x, r, rfl⟩ : ∃ x r, run = x :: r := by
        cases run with
        | nil => exact absurd rfl hne
        | cons x r => exact ⟨x, r, rfl⟩
      have hp : p ≠ 0 := by rw [chnTo_head hR]; exact fun e => h0 (by simp [e])
      exact ⟨⟨hp, hR, trivial⟩, fun _ _ => rfl, rfl⟩
  | cons slot st' ih =>
    intro stP s p run hS hR hne hnd h0 hf
    cases stP with
    | nil => cases slot <;> exact absurd hS (by simp [StackRep])
    | cons r rs =>
      obtain ⟨x, rr, rfl⟩ : ∃ x rr, run = x :: rr := by
        cases run with
        | nil => exact absurd rfl hne
        | cons x r => exact ⟨x, r, rfl⟩
      have hp : p ≠ 0 := by rw [chnTo_head hR]; exact fun e => h0 (by simp [e])
      cases slot with
      | none =>
        have hr0 : r = 0 := hS.1
        subst hr0
        unfold carryP
        rw [if_pos rfl]
        exact ⟨⟨hp, hR, hS.2⟩, fun _ _ => rfl, rfl⟩
      | some R =>
        obtain ⟨hr0, hRc, hS'⟩ := hS
        unfold carryP
        rw [if_neg hr0]
        simp only [flat] at hnd h0 hf
        have hnd3 : (flat st' ++ (R ++ x :: rr)).Nodup := by simpa [List.append_assoc] using hnd
        have hRrun : (R ++ x :: rr).Nodup := (List.nodup_append.mp hnd3).2.1
        have h0R : 0 ∉ R ++ x :: rr := fun h => h0 (by simp at h ⊢; tauto)
        have hlen : R.length + (x :: rr).length < fuel := by simp at hf ⊢; omega
        obtain ⟨m1, m2, m3⟩ := ptrMerge_spec le fuel s r p R (x :: rr) hRc hR hRrun h0R hlen
        have hdisj : ∀ z, z ∈ flat st' → z ∉ R ++ x :: rr := by
          intro z hz hz'
          exact (List.nodup_append.mp hnd3).2.2 z hz z hz' rfl
        have hS1 : StackRep (ptrMerge le fuel s r p).1.next.get rs st' :=
          stackRep_congr rs st' (fun z hz => m2 z (hdisj z hz)) hS'
        have hperm := Sort.merge_perm le R (x :: rr)
        have hnd4 : (flat st' ++ ListSort.merge le R (x :: rr)).Nodup := by
          have : (flat st' ++ ListSort.merge le R (x :: rr)).Perm (flat st' ++ (R ++ x :: rr)) :=
            List.Perm.append_left _ hperm
          exact this.nodup_iff.mpr hnd3
        have h04 : 0 ∉ flat st' ++ ListSort.merge le R (x :: rr) := by
          intro h
          rcases List.mem_append.mp h with h' | h'
          · exact h0 (by simp; tauto)
          · exact h0R (hperm.mem_iff.mp h')
        have hf4 : (flat st' ++ ListSort.merge le R (x :: rr)).length < fuel := by
          rw [List.length_append, hperm.length_eq]; simp at hf ⊢; omega
        obtain ⟨c1, c2, c3⟩ := ih rs (ptrMerge le fuel s r p).1 (ptrMerge le fuel s r p).2
          (ListSort.merge le R (x :: rr)) hS1 m1 (merge_ne_nil le R (x :: rr) (by simp)) hnd4 h04 hf4
        refine ⟨⟨rfl, c1⟩, ?_, c3.trans m3⟩
        intro z hz
        have hz1 : z ∉ flat st' ++ ListSort.merge le R (x :: rr) := by
          intro h
          apply hz
          simp only [flat]
          rcases List.mem_append.mp h with h' | h'
          · simp; tauto
          · have := hperm.mem_iff.mp h'
            simp at this ⊢; tauto
        rw [c2 z hz1]
        exact m2 z (fun h => hz (by simp only [flat]; simp at h ⊢; tauto))


open UsualProofs.C15.Sort in
/-- the collapse loop at pointer level refines `collapse` -/
theorem collapseP_spec (le : Nat → Nat → Bool) (fuel : Nat) :
    ∀ (st : List (Option (List Nat))) (stP : List Nat) (s : DL) (p : Nat) (run : List Nat),
      StackRep s.next.get stP st → ChnTo s.next.get p run 0 →
      (flat st ++ run).Nodup → 0 ∉ flat st ++ run → (flat st ++ run).length < fuel →
      ChnTo (collapseP le fuel s stP p).1.next.get (collapseP le fuel s stP p).2 (ListSort.collapse le st run) 0 ∧
      (∀ z, z ∉ flat st ++ run → (collapseP le fuel s stP p).1.next.get z = s.next.get z) ∧
      (collapseP le fuel s stP p).1.prev = s.prev := by
  intro st
  induction st with
  | nil =>
    intro stP s p run hS hR _ _ _
    cases stP with
    | cons _ _ => exact absurd hS (by simp [StackRep])
    | nil => exact ⟨hR, fun _ _ => rfl, rfl⟩
  | cons slot st' ih =>
    intro stP s p run hS hR hnd h0 hf
    cases stP with
    | nil => cases slot <;> exact absurd hS (by simp [StackRep])
    | cons r rs =>
      -- the run in this slot (empty for a NULL slot)
      obtain ⟨R, hRc, hS', hflat, hcol⟩ : ∃ R, ChnTo s.next.get r R 0 ∧ StackRep s.next.get rs st' ∧
          flat (slot :: st') = flat st' ++ R ∧
          ListSort.collapse le (slot :: st') run = ListSort.collapse le st' (ListSort.merge le R run) := by
        cases slot with
        | none => exact ⟨[], hS.1, hS.2, by simp [flat], by simp [ListSort.collapse, ListSort.merge_nil_left]⟩
        | some R => exact ⟨R, hS.2.1, hS.2.2, rfl, rfl⟩
      rw [hflat] at hnd h0 hf
      rw [hcol]
      unfold collapseP
      have hnd3 : (flat st' ++ (R ++ run)).Nodup := by simpa [List.append_assoc] using hnd
      have hRrun : (R ++ run).Nodup := (List.nodup_append.mp hnd3).2.1
      have h0R : 0 ∉ R ++ run := fun h => h0 (by simp at h ⊢; tauto)
      have hlen : R.length + run.length < fuel := by simp at hf ⊢; omega
      obtain ⟨m1, m2, m3⟩ := ptrMerge_spec le fuel s r p R run hRc hR hRrun h0R hlen
      have hdisj : ∀ z, z ∈ flat st' → z ∉ R ++ run := by
        intro z hz hz'
        exact (List.nodup_append.mp hnd3).2.2 z hz z hz' rfl
      have hS1 : StackRep (ptrMerge le fuel s r p).1.next.get rs st' :=
        stackRep_congr rs st' (fun z hz => m2 z (hdisj z hz)) hS'
      have hperm := Sort.merge_perm le R run
      have hnd4 : (flat st' ++ ListSort.merge le R run).Nodup := by
        have : (flat st' ++ ListSort.merge le R run).Perm (flat st' ++ (R ++ run)) :=
          List.Perm.append_left _ hperm
        exact this.nodup_iff.mpr hnd3
      have h04 : 0 ∉ flat st' ++ ListSort.merge le R run := by
        intro h
        rcases List.mem_append.mp h with h' | h'
        · exact h0 (by simp; tauto)
        · exact h0R (hperm.mem_iff.mp h')
      have hf4 : (flat st' ++ ListSort.merge le R run).length < fuel := by
        rw [List.length_append, hperm.length_eq]; simp at hf ⊢; omega
      obtain ⟨c1, c2, c3⟩ := ih rs (ptrMerge le fuel s r p).1 (ptrMerge le fuel s r p).2
        (ListSort.merge le R run) hS1 m1 hnd4 h04 hf4
      refine ⟨c1, ?_, c3.trans m3⟩
      intro z hz
      rw [hflat] at hz
      have hz1 : z ∉ flat st' ++ ListSort.merge le R run := by
        intro h
        apply hz
        rcases List.mem_append.mp h with h' | h'
        · simp; tauto
        · have := hperm.mem_iff.mp h'
          simp at this ⊢; tauto
      rw [c2 z hz1]
      exact m2 z (fun h => hz (by simp at h ⊢; tauto))

open UsualProofs.C15.Sort in
/-- the peeling loop of list_sort refines the left fold of `carry` over the list -/
theorem peelLoop_spec (le : Nat → Nat → Bool) (fuel l : Nat) :
    ∀ (Rem : List Nat) (k : Nat) (s : DL) (stP : List Nat) (st : List (Option (List Nat))),
      StackRep s.next.get stP st → ChnTo s.next.get (s.next.get l) Rem l →
      (l :: (flat st ++ Rem)).Nodup → 0 ∉ l :: (flat st ++ Rem) → Rem.length ≤ k →
      (flat st ++ Rem).length < fuel →
      StackRep (peelLoop le fuel l k s stP).1.next.get (peelLoop le fuel l k s stP).2
        (Rem.foldl (fun st x => ListSort.carry le st [x]) st) ∧
      (∀ z, z ∉ l :: (flat st ++ Rem) → (peelLoop le fuel l k s stP).1.next.get z = s.next.get z) ∧
      (peelLoop le fuel l k s stP).1.prev = s.prev := by
  intro Rem
  induction Rem with
  | nil =>
    intro k s stP st hS hC _ _ _ _
    have hl : s.next.get l = l := hC
    cases k with
    | zero => exact ⟨hS, fun _ _ => rfl, rfl⟩
    | succ k => unfold peelLoop; rw [if_pos hl]; exact ⟨hS, fun _ _ => rfl, rfl⟩
  | cons x R ih =>
    intro k s stP st hS hC hnd h0 hk hf
    obtain ⟨k, rfl⟩ : ∃ k', k = k' + 1 := ⟨k - 1, by simp at hk; omega⟩
    have hx : s.next.get l = x := hC.1
    have hnd' := List.nodup_cons.mp hnd
    have hxl : x ≠ l := fun e => hnd'.1 (by simp [e])
    have hndm : (flat st ++ x :: R).Nodup := hnd'.2
    have hxst : x ∉ flat st := fun h => (List.nodup_append.mp hndm).2.2 x h x (by simp) rfl
    have hxR : x ∉ R := (List.nodup_cons.mp (List.nodup_append.mp hndm).2.1).1
    have hlst : l ∉ flat st := fun h => hnd'.1 (by simp [h])
    have hlR : l ∉ R := fun h => hnd'.1 (by simp [h])
    unfold peelLoop
    rw [if_neg (by rw [hx]; exact hxl), hx]
    simp only
    -- the store after detaching x
    generalize hs2 : setNext (setNext s l (s.next.get x)) x 0 = s2
    have n2 : ∀ z, s2.next.get z = if z = x then 0 else if z = l then s.next.get x else s.next.get z := by
      intro z; subst hs2; rw [setNext_get, setNext_get]
    have p2 : s2.prev = s.prev := by subst hs2; rfl
    have hS2 : StackRep s2.next.get stP st :=
      stackRep_congr stP st (fun z hz => by
        rw [n2, if_neg (fun (e : z = x) => hxst (e ▸ hz)), if_neg (fun (e : z = l) => hlst (e ▸ hz))]) hS
    have hR2 : ChnTo s2.next.get x [x] 0 := ⟨rfl, by show s2.next.get x = 0; rw [n2, if_pos rfl]⟩
    have hnd5 : (flat st ++ [x]).Nodup := by
      have : (flat st ++ [x] ++ R).Nodup := by simpa using hndm
      exact (List.nodup_append.mp this).1
    have h05 : 0 ∉ flat st ++ [x] := fun h => h0 (by simp at h ⊢; tauto)
    have hf5 : (flat st ++ [x]).length < fuel := by simp at hf ⊢; omega
    obtain ⟨c1, c2, c3⟩ := carryP_spec le fuel st stP s2 x [x] hS2 hR2 (by simp) hnd5 h05 hf5
    have hperm : (flat (ListSort.carry le st [x])).Perm (flat st ++ [x]) := carry_perm le st [x]
    have hmem : ∀ z, z ∈ flat (ListSort.carry le st [x]) ↔ z ∈ flat st ∨ z = x := by
      intro z; rw [hperm.mem_iff]; simp
    -- the remaining ring after the carry
    have hC2 : ChnTo (carryP le fuel s2 stP x).1.next.get ((carryP le fuel s2 stP x).1.next.get l) R l := by
      have e1 : (carryP le fuel s2 stP x).1.next.get l = s.next.get x := by
        rw [c2 l (by simp; exact ⟨hlst, fun e => hxl e.symm⟩), n2, if_neg (fun e => hxl e.symm), if_pos rfl]
      rw [e1]
      apply chnTo_congr R _ _ _ hC.2
      intro z hz
      have hzx : z ≠ x := fun e => hxR (e ▸ hz)
      have hzl : z ≠ l := fun e => hlR (e ▸ hz)
      have hzst : z ∉ flat st := fun h => (List.nodup_append.mp hndm).2.2 z h z (by simp [hz]) rfl
      rw [c2 z (by simp; exact ⟨hzst, hzx⟩), n2, if_neg hzx, if_neg hzl]
    have hnd6 : (l :: (flat (ListSort.carry le st [x]) ++ R)).Nodup := by
      have : (l :: (flat (ListSort.carry le st [x]) ++ R)).Perm (l :: (flat st ++ x :: R)) := by
        refine List.Perm.cons l ?_
        refine (List.Perm.append_right R hperm).trans ?_
        simp
      exact this.nodup_iff.mpr hnd
    have h06 : 0 ∉ l :: (flat (ListSort.carry le st [x]) ++ R) := by
      intro h
      apply h0
      simp only [List.mem_cons, List.mem_append, hmem] at h ⊢
      tauto
    have hf6 : (flat (ListSort.carry le st [x]) ++ R).length < fuel := by
      rw [List.length_append, hperm.length_eq]; simp at hf ⊢; omega
    obtain ⟨i1, i2, i3⟩ := ih k (carryP le fuel s2 stP x).1 (carryP le fuel s2 stP x).2
      (ListSort.carry le st [x]) c1 hC2 hnd6 h06 (by simp at hk; omega) hf6
    refine ⟨i1, ?_, (i3.trans c3).trans p2⟩
    intro z hz
    have hzl : z ≠ l := fun e => hz (by simp [e])
    have hzx : z ≠ x := fun e => hz (by simp [e])
    have hzst : z ∉ flat st := fun h => hz (by simp [h])
    have hzR : z ∉ R := fun h => hz (by simp [h])
    rw [i2 z (by simp only [List.mem_cons, List.mem_append, hmem]; tauto),
        c2 z (by simp; exact ⟨hzst, hzx⟩), n2, if_neg hzx, if_neg hzl]

theorem chnTo_of_linked {nx pv : Nat → Nat} : ∀ (xs : List Nat) (a b : Nat),
    Linked nx pv (a :: xs ++ [b]) → ChnTo nx (nx a) xs b
  | [], a, b, h => h.1.1
  | x :: r, a, b, h => ⟨h.1.1, chnTo_of_linked r x b h.2⟩

theorem nextPath_of_chnTo {nx : Nat → Nat} : ∀ (xs : List Nat) (a : Nat), ChnTo nx a xs 0 → xs ≠ [] →
    NextPath nx (xs ++ [0])
  | [], _, _, h => absurd rfl h
  | [x], a, h, _ => ⟨h.2, trivial⟩
  | x :: y :: r, a, h, _ => ⟨h.2.1, nextPath_of_chnTo (y :: r) _ h.2 (by simp)⟩

/-- `list_sort(list, cmp)` on the links -/
theorem sort_isL (le : Nat → Nat → Bool) (s : DL) (l : Nat) (xs : List Nat) (fuel : Nat) (h : IsL s l xs)
    (hl0 : l ≠ 0) (h0 : 0 ∉ xs) (hf : xs.length ≤ fuel) :
    IsL (DList.listSort le s l fuel) l (ListSort.listSort le xs) ∧
    (∀ z, z ∉ l :: xs → (DList.listSort le s l fuel).next.get z = s.next.get z ∧
                         (DList.listSort le s l fuel).prev.get z = s.prev.get z) := by
  unfold DList.listSort
  by_cases he : listEmpty s l = true
  · rw [if_pos he]
    have := (empty_iff h).mp he
    subst this
    exact ⟨h, fun z _ => ⟨rfl, rfl⟩⟩
  · rw [if_neg he]
    simp only
    have hne : xs ≠ [] := fun e => he ((empty_iff h).mpr e)
    have h0l : 0 ∉ l :: xs := by
      intro hm; rcases List.mem_cons.mp hm with e | e
      · exact hl0 e.symm
      · exact h0 e
    -- peeling + carrying
    have hC : ChnTo s.next.get (s.next.get l) xs l := chnTo_of_linked xs l l h.1
    obtain ⟨p1, p2, p3⟩ := peelLoop_spec le (fuel + 1) l xs fuel s [] [] trivial hC
      (by simpa [Sort.flat] using h.2) (by simpa [Sort.flat] using h0l) hf (by simp [Sort.flat]; omega)
    generalize hpl : peelLoop le (fuel + 1) l fuel s [] = pl at p1 p2 p3
    generalize hst : xs.foldl (fun st x => ListSort.carry le st [x]) [] = st at p1
    have hflat : (Sort.flat st).Perm xs := by
      have := Sort.foldl_carry_perm le xs []
      rw [hst] at this
      simpa [Sort.flat] using this
    have hndst : (Sort.flat st ++ []).Nodup := by
      simp only [List.append_nil]
      exact hflat.nodup_iff.mpr (List.nodup_cons.mp h.2).2
    -- collapsing
    obtain ⟨c1, c2, c3⟩ := collapseP_spec le (fuel + 1) st pl.2 pl.1 0 [] p1 rfl hndst
      (by simp only [List.append_nil]; exact fun hm => h0 (hflat.mem_iff.mp hm))
      (by simp only [List.append_nil, hflat.length_eq]; omega)
    generalize hcl : collapseP le (fuel + 1) pl.1 pl.2 0 = cl at c1 c2 c3
    have hys : ListSort.collapse le st [] = ListSort.listSort le xs := by
      unfold ListSort.listSort; rw [hst]
    rw [hys] at c1
    have hperm := Sort.listSort_perm le xs
    generalize ListSort.listSort le xs = ys at hperm c1 ⊢
    have hysne : ys ≠ [] := fun e => hne (by rw [e] at hperm; exact hperm.symm.eq_nil)
    have hnd : (l :: ys).Nodup := by
      have : (l :: ys).Perm (l :: xs) := List.Perm.cons l hperm
      exact this.nodup_iff.mpr h.2
    have hnd' := List.nodup_cons.mp hnd
    have h0' : 0 ∉ l :: ys := by
      intro hm
      rcases List.mem_cons.mp hm with e | e
      · exact hl0 e.symm
      · exact h0 (hperm.mem_iff.mp e)
    have hmem : ∀ z, z ∉ l :: xs → z ∉ l :: ys := by
      intro z hz hm
      apply hz
      rcases List.mem_cons.mp hm with e | e
      · simp [e]
      · exact List.mem_cons_of_mem _ (hperm.mem_iff.mp e)
    -- frame of the merges
    have fr : ∀ z, z ∉ l :: xs → cl.1.next.get z = s.next.get z := by
      intro z hz
      have hzf : z ∉ Sort.flat st ++ [] := by
        simp only [List.append_nil]
        exact fun hm => hz (List.mem_cons_of_mem _ (hflat.mem_iff.mp hm))
      rw [c2 z hzf, p2 z (by simpa [Sort.flat] using hz)]
    have prv : cl.1.prev = s.prev := (c3.trans p3)
    obtain ⟨y, r, rfl⟩ : ∃ y r, ys = y :: r := by
      cases ys with
      | nil => exact absurd rfl hysne
      | cons y r => exact ⟨y, r, rfl⟩
    have hhead : cl.2 = y := chnTo_head c1
    have np1 : NextPath cl.1.next.get ((y :: r) ++ [0]) := nextPath_of_chnTo (y :: r) _ c1 (by simp)
    have hlen : (y :: r).length ≤ fuel := by rw [hperm.length_eq]; exact hf
    have np2 : NextPath (setNext cl.1 l cl.2).next.get (l :: (y :: r) ++ [0]) := by
      refine ⟨by rw [setNext_get, if_pos rfl]; exact hhead, ?_⟩
      apply nextPath_congr _ _ np1
      intro z hz
      have : z ∈ y :: r := by
        have e : ((y :: r) ++ [0]).dropLast = y :: r := List.dropLast_concat
        rw [← e]; exact hz
      rw [setNext_get, if_neg (fun (e : z = l) => hnd'.1 (e ▸ this))]
    have := fixPrev_spec l (y :: r) hnd h0' (y :: r) (fuel + 1) (setNext cl.1 l cl.2) l [] rfl trivial np2 (by omega)
    refine ⟨⟨this.1, hnd⟩, ?_⟩
    intro z hz
    have hz' := hmem z hz
    obtain ⟨e1, e2⟩ := this.2 z hz'
    have hzl : z ≠ l := fun e => hz (by simp [e])
    refine ⟨?_, ?_⟩
    · rw [e1, setNext_get, if_neg hzl]; exact fr z hz
    · rw [e2]
      show cl.1.prev.get z = _
      rw [prv]

end UsualProofs.C15.DSortP
