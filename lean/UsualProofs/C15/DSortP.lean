import UsualProofs.C15.DListP
import UsualProofs.C15.Sort
/-! `list_sort` on the links: after the merges and the closing loop of `list_sort`, the ring of
    the list holds exactly the sorted sequence with consistent `next` and `prev` links, and no
    other node has been written to. -/
namespace UsualProofs.C15.DSortP
open Usual.C15 Usual.C15.DList UsualProofs.C15.Ring UsualProofs.C15.DListP

/-- consecutive nodes are linked through `nx` -/
def NextPath (nx : Nat → Nat) : List Nat → Prop
  | [] => True
  | [_] => True
  | a :: b :: r => nx a = b ∧ NextPath nx (b :: r)

theorem nextPath_congr {nx nx' : Nat → Nat} : ∀ path : List Nat,
    (∀ z, z ∈ path.dropLast → nx' z = nx z) → NextPath nx path → NextPath nx' path
  | [], _, _ => trivial
  | [_], _, _ => trivial
  | a :: b :: r, h1, h => by
    refine ⟨by rw [h1 a (by simp [List.dropLast])]; exact h.1, ?_⟩
    apply nextPath_congr (b :: r) _ h.2
    intro z hz; exact h1 z (by simp only [List.dropLast_cons_cons]; exact List.mem_cons_of_mem _ hz)

theorem chainNext_spec : ∀ (ys : List Nat) (s : DL), ys ≠ [] → ys.Nodup →
    NextPath (chainNext s ys).next.get (ys ++ [0]) ∧
    (∀ z, z ∉ ys → (chainNext s ys).next.get z = s.next.get z) ∧
    (chainNext s ys).prev = s.prev
  | [], _, h, _ => absurd rfl h
  | [x], s, _, _ => by
    unfold chainNext setNext
    refine ⟨⟨Store.get_set_eq _ _ _, trivial⟩, ?_, rfl⟩
    intro z hz
    exact Store.get_set_ne _ _ _ _ (by simpa using hz)
  | x :: y :: r, s, _, hnd => by
    have hnd' := List.nodup_cons.mp hnd
    obtain ⟨i1, i2, i3⟩ := chainNext_spec (y :: r) (setNext s x y) (by simp) hnd'.2
    unfold chainNext
    refine ⟨⟨?_, i1⟩, ?_, ?_⟩
    · rw [i2 x hnd'.1]; unfold setNext; exact Store.get_set_eq _ _ _
    · intro z hz
      have hz' : z ∉ y :: r := fun h => hz (List.mem_cons_of_mem _ h)
      rw [i2 z hz']
      unfold setNext
      exact Store.get_set_ne _ _ _ _ (fun e => hz (by simp [e]))
    · rw [i3]; rfl

/-- the closing loop of `list_sort` -/
theorem fixPrev_spec (l : Nat) (ys : List Nat) (hnd : (l :: ys).Nodup) (h0 : 0 ∉ l :: ys) :
    ∀ (Rest : List Nat) (fuel : Nat) (s : DL) (p : Nat) (Done : List Nat),
      Done ++ p :: Rest = l :: ys →
      Linked s.next.get s.prev.get (Done ++ [p]) → NextPath s.next.get (p :: Rest ++ [0]) →
      Rest.length < fuel →
      Linked (fixPrev l fuel s p).next.get (fixPrev l fuel s p).prev.get (l :: ys ++ [l]) ∧
      (∀ z, z ∉ l :: ys → (fixPrev l fuel s p).next.get z = s.next.get z ∧
                           (fixPrev l fuel s p).prev.get z = s.prev.get z) := by
  intro Rest
  induction Rest with
  | nil =>
    intro fuel s p Done hpath hlk hnp hf
    obtain ⟨f, rfl⟩ : ∃ f, fuel = f + 1 := ⟨fuel - 1, by omega⟩
    have hn0 : s.next.get p = 0 := hnp.1
    unfold fixPrev
    rw [if_pos hn0]
    have hpath' : Done ++ [p] = l :: ys := hpath
    have hnd2 : (Done ++ [p]).Nodup := by rw [hpath']; exact hnd
    have hpD : p ∉ Done := fun h => (List.nodup_append.mp hnd2).2.2 p h p (by simp) rfl
    refine ⟨?_, ?_⟩
    · have : l :: ys ++ [l] = Done ++ p :: [l] := by rw [← hpath']; simp
      rw [this, linked_append_iff]
      refine ⟨?_, ⟨?_, ?_⟩, trivial⟩
      · apply linked_congr _ _ _ hlk
        · intro z hz
          simp only [List.dropLast_concat] at hz
          unfold setNext setPrev
          exact Store.get_set_ne _ _ _ _ (fun e => hpD (e ▸ hz))
        · intro z hz
          have hzl : z ≠ l := by
            intro e
            rw [hpath', List.tail_cons, e] at hz
            exact (List.nodup_cons.mp hnd).1 hz
          unfold setNext setPrev
          exact Store.get_set_ne _ _ _ _ hzl
      · unfold setNext setPrev; exact Store.get_set_eq _ _ _
      · unfold setNext setPrev; exact Store.get_set_eq _ _ _
    · intro z hz
      have hzp : z ≠ p := fun e => hz (by rw [← hpath', e]; simp)
      have hzl : z ≠ l := fun e => hz (by simp [e])
      unfold setNext setPrev
      exact ⟨Store.get_set_ne _ _ _ _ hzp, Store.get_set_ne _ _ _ _ hzl⟩
  | cons r R ih =>
    intro fuel s p Done hpath hlk hnp hf
    obtain ⟨f, rfl⟩ : ∃ f, fuel = f + 1 := ⟨fuel - 1, by simp at hf; omega⟩
    have hnr : s.next.get p = r := hnp.1
    have hrm : r ∈ l :: ys := by rw [← hpath]; simp
    have hr0 : r ≠ 0 := fun e => h0 (e ▸ hrm)
    unfold fixPrev
    rw [hnr, if_neg hr0]
    have hnd2 : (Done ++ p :: r :: R).Nodup := by rw [hpath]; exact hnd
    have hnd3 : ((Done ++ [p]) ++ r :: R).Nodup := by simpa using hnd2
    have hrD : r ∉ Done ++ [p] := fun h => (List.nodup_append.mp hnd3).2.2 r h r (by simp) rfl
    have step := ih f (setPrev s r p) r (Done ++ [p]) (by rw [← hpath]; simp) ?_ ?_ (by simp at hf; omega)
    · refine ⟨step.1, ?_⟩
      intro z hz
      have := step.2 z hz
      have hzr : z ≠ r := fun e => hz (e ▸ hrm)
      refine ⟨this.1, ?_⟩
      rw [this.2]; unfold setPrev; exact Store.get_set_ne _ _ _ _ hzr
    · have : Done ++ [p] ++ [r] = Done ++ p :: [r] := by simp
      rw [this, linked_append_iff]
      refine ⟨?_, ⟨hnr, ?_⟩, trivial⟩
      · apply linked_congr _ _ _ hlk
        · intro z _; rfl
        · intro z hz
          have hzr : z ≠ r := fun e => hrD (e ▸ List.mem_of_mem_tail hz)
          unfold setPrev; exact Store.get_set_ne _ _ _ _ hzr
      · unfold setPrev; exact Store.get_set_eq _ _ _
    · exact hnp.2

/-- `list_sort(list, cmp)` on the links -/
theorem sort_isL (le : Nat → Nat → Bool) (s : DL) (l : Nat) (xs : List Nat) (fuel : Nat) (h : IsL s l xs)
    (hl0 : l ≠ 0) (h0 : 0 ∉ xs) (hf : xs.length ≤ fuel) :
    IsL (DList.listSort le s l fuel) l (ListSort.listSort le xs) ∧
    (∀ z, z ∉ l :: xs → (DList.listSort le s l fuel).next.get z = s.next.get z ∧
                         (DList.listSort le s l fuel).prev.get z = s.prev.get z) := by
  unfold DList.listSort
  by_cases he : listEmpty s l = true
  · rw [if_pos he]
    have := (empty_iff h).mp he
    subst this
    exact ⟨h, fun z _ => ⟨rfl, rfl⟩⟩
  · rw [if_neg he]
    simp only
    rw [(toList_eq h fuel hf).1]
    have hperm := Sort.listSort_perm le xs
    generalize ListSort.listSort le xs = ys at hperm ⊢
    have hne : xs ≠ [] := fun e => he ((empty_iff h).mpr e)
    have hys : ys ≠ [] := fun e => hne (by rw [e] at hperm; exact hperm.symm.eq_nil)
    have hnd : (l :: ys).Nodup := by
      have : (l :: ys).Perm (l :: xs) := List.Perm.cons l hperm
      exact this.nodup_iff.mpr h.2
    have hnd' := List.nodup_cons.mp hnd
    have h0' : 0 ∉ l :: ys := by
      intro hm
      rcases List.mem_cons.mp hm with e | e
      · exact hl0 e.symm
      · exact h0 (hperm.mem_iff.mp e)
    have hmem : ∀ z, z ∉ l :: xs → z ∉ l :: ys := by
      intro z hz hm
      apply hz
      rcases List.mem_cons.mp hm with e | e
      · simp [e]
      · exact List.mem_cons_of_mem _ (hperm.mem_iff.mp e)
    obtain ⟨c1, c2, c3⟩ := chainNext_spec ys s hys hnd'.2
    generalize hs1 : chainNext s ys = s1 at c1 c2 c3
    obtain ⟨y, r, rfl⟩ : ∃ y r, ys = y :: r := by
      cases ys with
      | nil => exact absurd rfl hys
      | cons y r => exact ⟨y, r, rfl⟩
    simp only [List.headD_cons]
    have hlen : (y :: r).length ≤ fuel := by rw [hperm.length_eq]; exact hf
    have np2 : NextPath (setNext s1 l y).next.get (l :: (y :: r) ++ [0]) := by
      refine ⟨by unfold setNext; exact Store.get_set_eq _ _ _, ?_⟩
      apply nextPath_congr _ _ c1
      intro z hz
      have : z ∈ y :: r := by
        have e : ((y :: r) ++ [0]).dropLast = y :: r := List.dropLast_concat
        rw [← e]; exact hz
      unfold setNext
      exact Store.get_set_ne _ _ _ _ (fun e => hnd'.1 (e ▸ this))
    have := fixPrev_spec l (y :: r) hnd h0' (y :: r) (fuel + 1) (setNext s1 l y) l [] rfl trivial np2 (by omega)
    refine ⟨⟨this.1, hnd⟩, ?_⟩
    intro z hz
    have hz' := hmem z hz
    obtain ⟨e1, e2⟩ := this.2 z hz'
    have hzl : z ≠ l := fun e => hz (by simp [e])
    refine ⟨?_, ?_⟩
    · rw [e1]
      unfold setNext
      rw [Store.get_set_ne _ _ _ _ hzl]
      exact c2 z (fun hm => hz' (List.mem_cons_of_mem _ hm))
    · rw [e2]
      show s1.prev.get z = _
      rw [c3]

end UsualProofs.C15.DSortP
