import Usual.C15.DList
import UsualProofs.C15.Ring
/-! List / StatList (usual/list.h, usual/statlist.h): every operation of the model acts on the
    ring of its list as the corresponding deque operation, and leaves all other rings alone. -/
namespace UsualProofs.C15.DListP
open Usual.C15 Usual.C15.DList UsualProofs.C15.Ring

/-- list with head `l` holds exactly `xs`, in order (links consistent in both directions) -/
def IsL (s : DL) (l : Nat) (xs : List Nat) : Prop := IsList s.next.get s.prev.get l xs

theorem walkNext_eq (s : DL) (l : Nat) : ∀ fuel p, walkNext s l fuel p = walk s.next.get l fuel p
  | 0, _ => rfl
  | fuel + 1, p => by unfold walkNext walk; rw [walkNext_eq s l fuel]

theorem walkPrev_eq (s : DL) (l : Nat) : ∀ fuel p, walkPrev s l fuel p = walk s.prev.get l fuel p
  | 0, _ => rfl
  | fuel + 1, p => by unfold walkPrev walk; rw [walkPrev_eq s l fuel]

/-- forward and backward traversal read off the abstract sequence -/
theorem toList_eq {s : DL} {l : Nat} {xs : List Nat} (h : IsL s l xs) (fuel : Nat) (hf : xs.length ≤ fuel) :
    toList s l fuel = xs ∧ toListRev s l fuel = xs.reverse := by
  unfold toList toListRev
  rw [walkNext_eq, walkPrev_eq]
  exact ⟨walk_next_isList h fuel hf, walk_prev_isList h fuel hf⟩

theorem init_isL (s : DL) (l : Nat) : IsL (listInit s l) l [] := by
  unfold IsL
  rw [isList_nil_iff]
  unfold listInit setPrev setNext
  exact ⟨Store.get_set_eq _ _ _, Store.get_set_eq _ _ _⟩

theorem init_frame (s : DL) (l z : Nat) (hz : z ≠ l) :
    (listInit s l).next.get z = s.next.get z ∧ (listInit s l).prev.get z = s.prev.get z := by
  unfold listInit setPrev setNext
  exact ⟨Store.get_set_ne _ _ _ _ hz, Store.get_set_ne _ _ _ _ hz⟩

/-! #### final pointer fields after each operation -/

theorem prepend_next (s : DL) (l x z : Nat) :
    (listPrepend s l x).next.get z = if z = l then x else if z = x then s.next.get l else s.next.get z := by
  unfold listPrepend setNext setPrev
  simp only [Store.get_set]

theorem prepend_prev (s : DL) (l x z : Nat) (hxl : x ≠ l) :
    (listPrepend s l x).prev.get z = if z = s.next.get l then x else if z = x then l else s.prev.get z := by
  unfold listPrepend setNext setPrev
  simp only [Store.get_set]
  have : ¬ l = x := fun e => hxl e.symm
  simp only [this, if_false]

theorem append_next (s : DL) (l x z : Nat) (hxl : x ≠ l) :
    (listAppend s l x).next.get z = if z = s.prev.get l then x else if z = x then l else s.next.get z := by
  unfold listAppend setNext setPrev
  simp only [Store.get_set]
  have : ¬ l = x := fun e => hxl e.symm
  simp only [this, if_false]

theorem append_prev (s : DL) (l x z : Nat) :
    (listAppend s l x).prev.get z = if z = l then x else if z = x then s.prev.get l else s.prev.get z := by
  unfold listAppend setNext setPrev
  simp only [Store.get_set]

theorem del_next (s : DL) (x z : Nat) :
    (listDel s x).next.get z = if z = x then x else if z = s.prev.get x then s.next.get x else s.next.get z := by
  unfold listDel setNext setPrev
  simp only [Store.get_set]

theorem del_prev (s : DL) (x z : Nat) (hx : x ≠ s.prev.get x) :
    (listDel s x).prev.get z = if z = x then x else if z = s.next.get x then s.prev.get x else s.prev.get z := by
  unfold listDel setNext setPrev
  simp only [Store.get_set]
  simp only [hx, if_false]

/-! #### the operations on their own ring -/

theorem list_split (l : Nat) (ys : List Nat) :
    ∃ P0 u, l :: ys = P0 ++ [u] ∧ u = (l :: ys).getLast (by simp) :=
  ⟨(l :: ys).dropLast, (l :: ys).getLast (by simp), (List.dropLast_concat_getLast (by simp)).symm, rfl⟩

theorem list_split' (l : Nat) (ys : List Nat) :
    ∃ v Q0, ys ++ [l] = v :: Q0 ∧ v = (ys ++ [l]).head (by simp) :=
  ⟨(ys ++ [l]).head (by simp), (ys ++ [l]).tail, (List.cons_head_tail (by simp)).symm, rfl⟩

/-- INSERT AFTER position `A` (general form of list_prepend(pos, item), pos = last of `l :: A`) -/
theorem prepend_at (s : DL) (l : Nat) (A B : List Nat) (pos x : Nat) (h : IsL s l (A ++ B))
    (hx : x ∉ l :: (A ++ B)) (hpos : pos = (l :: A).getLast (by simp)) :
    IsL (listPrepend s pos x) l (A ++ x :: B) := by
  obtain ⟨P0, u, eA, eu⟩ := list_split l A
  obtain ⟨v, Q0, eB, ev⟩ := list_split' l B
  have hu : u = pos := by rw [hpos, eu]
  subst hu
  have hum : u ∈ l :: (A ++ B) := by
    have : u ∈ l :: A := by rw [eA]; simp
    simp at this ⊢; rcases this with e | e; exact Or.inl e; exact Or.inr (Or.inl e)
  have hxu : x ≠ u := fun e => hx (e ▸ hum)
  -- the successor of u is v
  have hnv : s.next.get u = v := by
    cases A with
    | nil =>
      have : u = l := by simpa using eu
      rw [this, ev]
      have h0 : IsList s.next.get s.prev.get l B := by unfold IsL at h; simpa using h
      exact isList_next_head h0
    | cons a A' =>
      -- u is a member: write A = A'' ++ [u]
      have hne : (a :: A') ≠ [] := by simp
      have eu' : u = (a :: A').getLast hne := by rw [eu]; simp [List.getLast_cons hne]
      have eA2 : a :: A' = (a :: A').dropLast ++ [u] := by rw [eu']; exact (List.dropLast_concat_getLast hne).symm
      have h' : IsL s l ((a :: A').dropLast ++ u :: B) := by
        have : (a :: A') ++ B = (a :: A').dropLast ++ u :: B := by
          conv => lhs; rw [eA2]
          simp
        unfold IsL at h ⊢; rw [← this]; exact h
      obtain ⟨P1, u1, e1, _⟩ := list_split l (a :: A').dropLast
      exact (isList_nbrs l _ B P1 Q0 u1 v u h' e1 eB).1
  unfold IsL
  apply isList_insert l A B P0 Q0 u v x h hx eA eB
  · intro z; rw [prepend_next, hnv]
  · intro z; rw [prepend_prev s u x z hxu, hnv]

/-- list_prepend(list, item) -/
theorem prepend_isL (s : DL) (l : Nat) (xs : List Nat) (x : Nat) (h : IsL s l xs) (hx : x ∉ l :: xs) :
    IsL (listPrepend s l x) l (x :: xs) := by
  have := prepend_at s l [] xs l x (by simpa using h) (by simpa using hx) (by simp)
  simpa using this

/-- INSERT BEFORE position (general form of list_append(pos, item), pos = first of `B ++ [l]`) -/
theorem append_at (s : DL) (l : Nat) (A B : List Nat) (pos x : Nat) (h : IsL s l (A ++ B))
    (hx : x ∉ l :: (A ++ B)) (hpos : pos = (B ++ [l]).head (by simp)) :
    IsL (listAppend s pos x) l (A ++ x :: B) := by
  obtain ⟨P0, u, eA, eu⟩ := list_split l A
  obtain ⟨v, Q0, eB, ev⟩ := list_split' l B
  have hv : v = pos := by rw [hpos, ev]
  subst hv
  have hvm : v ∈ l :: (A ++ B) := by
    have : v ∈ B ++ [l] := by rw [eB]; simp
    simp at this ⊢; rcases this with e | e; exact Or.inr (Or.inr e); exact Or.inl e
  have hxv : x ≠ v := fun e => hx (e ▸ hvm)
  -- the predecessor of v is u
  have hpu : s.prev.get v = u := by
    cases B with
    | nil =>
      simp at eB
      rw [← eB.1, eu]
      have h0 : IsList s.next.get s.prev.get l A := by unfold IsL at h; simpa using h
      exact isList_prev_head h0
    | cons b B' =>
      simp at eB
      have : v = b := eB.1.symm
      subst this
      obtain ⟨v1, Q1, e1, _⟩ := list_split' l B'
      exact (isList_nbrs l A B' P0 Q1 u v1 v h eA e1).2
  unfold IsL
  apply isList_insert l A B P0 Q0 u v x h hx eA eB
  · intro z; rw [append_next s v x z hxv, hpu]
  · intro z; rw [append_prev, hpu]

/-- list_append(list, item) -/
theorem append_isL (s : DL) (l : Nat) (xs : List Nat) (x : Nat) (h : IsL s l xs) (hx : x ∉ l :: xs) :
    IsL (listAppend s l x) l (xs ++ [x]) := by
  have := append_at s l xs [] l x (by simpa using h) (by simpa using hx) (by simp)
  simpa using this

/-- list_del(item) of a member -/
theorem del_isL (s : DL) (l : Nat) (A B : List Nat) (x : Nat) (h : IsL s l (A ++ x :: B)) :
    IsL (listDel s x) l (A ++ B) ∧ IsL (listDel s x) x [] := by
  obtain ⟨P0, u, eA, _⟩ := list_split l A
  obtain ⟨v, Q0, eB, _⟩ := list_split' l B
  obtain ⟨hnx, hpx⟩ := isList_nbrs l A B P0 Q0 u v x h eA eB
  have hxu : x ≠ u := by
    intro e
    have hnd := h.2
    have : u ∈ l :: A := by rw [eA]; simp
    have hnd' : ((l :: A) ++ x :: B).Nodup := by simpa using hnd
    exact (List.nodup_append.mp hnd').2.2 u this x (by simp) e.symm
  have := isList_remove (nx' := (listDel s x).next.get) (pv' := (listDel s x).prev.get) l A B P0 Q0 u v x h eA eB
    (by intro z; rw [del_next, hpx, hnx])
    (by intro z; rw [del_prev s x z (by rw [hpx]; exact hxu), hpx, hnx])
  refine ⟨this.1, ?_⟩
  unfold IsL; rw [isList_nil_iff]; exact ⟨this.2.1, this.2.2.1⟩

/-- list_del(item) of a detached (self-linked) item changes nothing -/
theorem del_detached (s : DL) (x : Nat) (h : IsL s x []) (z : Nat) :
    (listDel s x).next.get z = s.next.get z ∧ (listDel s x).prev.get z = s.prev.get z := by
  have ⟨e1, e2⟩ := (isList_nil_iff _ _ x).mp h
  unfold listDel setNext setPrev
  simp only [Store.get_set, e1, e2]
  constructor <;> (split <;> simp_all)

/-- an operation that writes only to nodes outside a ring leaves the ring alone -/
theorem frame (s s' : DL) (l : Nat) (xs : List Nat) (h : IsL s l xs)
    (hn : ∀ z, z ∈ l :: xs → s'.next.get z = s.next.get z) (hp : ∀ z, z ∈ l :: xs → s'.prev.get z = s.prev.get z) :
    IsL s' l xs := isList_frame l xs h hn hp

/-- list_empty / list_first / list_last / list_pop read the ring correctly -/
theorem empty_iff {s : DL} {l : Nat} {xs : List Nat} (h : IsL s l xs) : listEmpty s l = true ↔ xs = [] := by
  unfold listEmpty; rw [beq_iff_eq]; exact isList_empty_iff h

theorem first_eq {s : DL} {l : Nat} {xs : List Nat} (h : IsL s l xs) (hl : l ≠ 0) (h0 : 0 ∉ xs) :
    listFirst s l = xs.headD 0 := by
  unfold listFirst
  cases xs with
  | nil => rw [if_pos ((empty_iff h).mpr rfl)]; rfl
  | cons x r =>
    have : ¬ listEmpty s l = true := fun e => by have := (empty_iff h).mp e; cases this
    rw [if_neg this]
    exact h.1.1.1

theorem last_eq {s : DL} {l : Nat} {xs : List Nat} (h : IsL s l xs) :
    listLast s l = xs.getLastD 0 := by
  unfold listLast
  cases xs with
  | nil => rw [if_pos ((empty_iff h).mpr rfl)]; rfl
  | cons x r =>
    have : ¬ listEmpty s l = true := fun e => by have := (empty_iff h).mp e; cases this
    rw [if_neg this, isList_prev_head h]
    simp [List.getLastD_eq_getLast?, List.getLast?_eq_some_getLast]

/-- list_pop -/
theorem pop_isL (s : DL) (l : Nat) (xs : List Nat) (h : IsL s l xs) :
    (listPop s l).2 = xs.headD 0 ∧ IsL (listPop s l).1 l xs.tail := by
  unfold listPop
  cases xs with
  | nil =>
    rw [if_pos ((empty_iff h).mpr rfl)]
    exact ⟨rfl, h⟩
  | cons x r =>
    have : ¬ listEmpty s l = true := fun e => by have := (empty_iff h).mp e; cases this
    rw [if_neg this]
    have e : s.next.get l = x := h.1.1.1
    simp only [e, List.headD_cons, List.tail_cons, true_and]
    have := (del_isL s l [] r x (by simpa using h)).1
    simpa using this

end UsualProofs.C15.DListP
