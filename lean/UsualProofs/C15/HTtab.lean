import UsualProofs.C15.HTcyc
/-! One table of the chain: the C-level functions (`_hashtab_slot_can_move`, the scan and move
    loops of `hashtab_delete`, the probe loop of `hashtab_lookup`) agree with their closed forms
    in probe-cycle coordinates. -/
namespace UsualProofs.C15.HT
open Usual.C15 Usual.C15.HashTab UsualProofs.C15.HTdel

variable {n : Nat}

/-- abstraction of a table: cycle position ↦ home (cycle position) of the item stored there -/
def A (C : Cyc n) (t : Table) : Tab := fun i =>
  if i < n then
    if t.vals.get (C.σ i) = 0 then none else some (C.idx (calcPos t (t.keys.get (C.σ i))))
  else none

theorem nextPos_eq (t : Table) (hs : t.size = n) (p : Nat) : nextPos t p = (p * 5 + 1) &&& (n - 1) := by
  unfold nextPos mask; rw [hs]

theorem calcPos_lt (C : Cyc n) (t : Table) (hs : t.size = n) (key : Nat) : calcPos t key < n := by
  unfold calcPos mask; rw [hs]; exact C.and_lt key

theorem nextPos_σ (C : Cyc n) (t : Table) (hs : t.size = n) (a j : Nat) (ha : a < n) (hj : j < n) :
    nextPos t (C.σ (plus n a j)) = C.σ (plus n a (j + 1)) := by
  rw [nextPos_eq t hs]; exact C.σ_plus_succ a j ha hj

theorem fwd_inj (a b h : Nat) (ha : a < n) (hb : b < n) (hh : h < n) (e : fwd n a b = fwd n a h) : b = h := by
  unfold fwd at e; split at e <;> split at e <;> omega

/-- the walking loop of `_hashtab_slot_can_move` decides which of `src`, `kpos` comes first -/
theorem walk_eq (C : Cyc n) (t : Table) (hs : t.size = n) (a b h : Nat) (ha : a < n) (hb : b < n)
    (hh : h < n) (hbh : b ≠ h) :
    ∀ fuel j, 1 ≤ j → j ≤ fwd n a b → j ≤ fwd n a h → fwd n a b - j < fuel →
      canMoveWalk t (C.σ b) (C.σ h) fuel (C.σ (plus n a j)) = decide (fwd n a b < fwd n a h) := by
  intro fuel
  induction fuel with
  | zero => intro j _ _ _ h; omega
  | succ fuel ih =>
    intro j h1 h2 h3 h4
    have hfb := fwd_lt n a b ha hb
    have hfh := fwd_lt n a h ha hh
    have hjn : j < n := by omega
    have hpl := plus_lt n a j ha hjn
    have hne : fwd n a b ≠ fwd n a h := fun e => hbh (fwd_inj a b h ha hb hh e)
    unfold canMoveWalk
    by_cases e1 : C.σ (plus n a j) = C.σ b
    · rw [if_pos e1]
      have := (plus_eq_iff a j b ha hb hjn).mp (C.σ_inj hpl hb e1)
      symm; rw [decide_eq_true_eq]; omega
    · rw [if_neg e1]
      have n1 : j ≠ fwd n a b := fun e => e1 (by rw [(plus_eq_iff a j b ha hb hjn).mpr e])
      by_cases e2 : C.σ (plus n a j) = C.σ h
      · rw [if_pos e2]
        have := (plus_eq_iff a j h ha hh hjn).mp (C.σ_inj hpl hh e2)
        symm; rw [decide_eq_false_iff_not]; omega
      · rw [if_neg e2]
        have n2 : j ≠ fwd n a h := fun e => e2 (by rw [(plus_eq_iff a j h ha hh hjn).mpr e])
        rw [nextPos_σ C t hs a j ha hjn]
        exact ih (j + 1) (by omega) (by omega) (by omega) (by omega)

/-- `_hashtab_slot_can_move` = its closed form -/
theorem canMove_eq (C : Cyc n) (t : Table) (hs : t.size = n) (a b : Nat) (ha : a < n) (hb : b < n)
    (hab : a ≠ b) (hocc : t.vals.get (C.σ b) ≠ 0) :
    HashTab.canMove t (C.σ a) (C.σ b) = HTdel.canMove n (A C t) a b := by
  unfold HashTab.canMove HTdel.canMove A
  simp only [hb, if_true, hocc, if_false]
  generalize hk : t.keys.get (C.σ b) = key
  have hcl := calcPos_lt C t hs key
  generalize hh : C.idx (calcPos t key) = h
  have hhn : h < n := by rw [← hh]; exact C.idx_lt _ hcl
  have hkp : calcPos t key = C.σ h := by rw [← hh, C.σ_idx _ hcl]
  rw [hkp]
  by_cases e1 : h = b
  · subst e1
    rw [if_pos rfl]
    symm; rw [decide_eq_false_iff_not]
    have := (fwd_eq_zero n h h hhn hhn).mpr rfl
    omega
  · rw [if_neg (fun e => e1 (C.σ_inj hhn hb e))]
    by_cases e2 : h = a
    · subst e2
      rw [if_pos rfl]
      symm; rw [decide_eq_true_eq]
      have h0 := (fwd_eq_zero n h h hhn hhn).mpr rfl
      have h1 := fwd_eq_zero n h b hhn hb
      omega
    · rw [if_neg (fun e => e2 (C.σ_inj hhn ha e))]
      have hn0 : 0 < n := C.pos
      have e0 : nextPos t (C.σ a) = C.σ (plus n a 1) := by
        have := nextPos_σ C t hs a 0 ha hn0
        rwa [plus_zero a ha] at this
      rw [e0, hs]
      have f1 := fwd_eq_zero n a b ha hb
      have f2 := fwd_eq_zero n a h ha hhn
      have f3 := fwd_lt n a b ha hb
      rw [walk_eq C t hs a b h ha hb hhn (fun e => e1 e.symm) n 1 (Nat.le_refl _) (by omega) (by omega) (by omega)]
      have := cyc_order a b h ha hb hhn hab (fun e => e2 e.symm) (fun e => e1 e.symm)
      simp only [this]

/-- the inner `for` of `hashtab_delete` = its closed form -/
theorem scan_eq (C : Cyc n) (t : Table) (hs : t.size = n) (d : Nat) (hd : d < n) :
    ∀ fuel j, 1 ≤ j → j + fuel ≤ n →
      HashTab.scan t (C.σ d) fuel (C.σ (plus n d j)) = (HTdel.scan n (A C t) d j fuel).map C.σ := by
  intro fuel
  induction fuel with
  | zero => intro j _ _; rfl
  | succ fuel ih =>
    intro j h1 h2
    have hjn : j < n := by omega
    have hpl := plus_lt n d j hd hjn
    unfold HashTab.scan HTdel.scan
    simp only
    have hA : A C t (plus n d j) = none ↔ t.vals.get (C.σ (plus n d j)) = 0 := by
      unfold A; rw [if_pos hpl]; split <;> simp [*]
    by_cases e1 : t.vals.get (C.σ (plus n d j)) = 0
    · rw [if_pos e1, if_pos (hA.mpr e1)]; rfl
    · rw [if_neg e1, if_neg (fun h => e1 (hA.mp h))]
      rw [canMove_eq C t hs d (plus n d j) hd hpl (fun e => plus_ne_self d j hd h1 hjn e.symm) e1]
      by_cases e2 : HTdel.canMove n (A C t) d (plus n d j) = true
      · rw [if_pos e2, if_pos e2]; rfl
      · rw [if_neg e2, if_neg e2, nextPos_σ C t hs d j hd hjn]
        exact ih (j + 1) (by omega) (by omega)

theorem moveSlot_size (t : Table) (a b : Nat) : (moveSlot t a b).size = t.size := rfl
theorem clearSlot_size (t : Table) (a : Nat) : (clearSlot t a).size = t.size := rfl
theorem put_size (t : Table) (p k v : Nat) : (put t p k v).size = t.size := rfl

theorem A_moveSlot (C : Cyc n) (t : Table) (hs : t.size = n) (d p : Nat) (hd : d < n) (hp : p < n) :
    A C (moveSlot t (C.σ d) (C.σ p)) = upd (A C t) d (A C t p) := by
  funext i
  unfold A upd
  by_cases hi : i < n
  · simp only [hi, hp, if_true]
    have hc : ∀ key, calcPos (moveSlot t (C.σ d) (C.σ p)) key = calcPos t key := fun _ => rfl
    simp only [hc]
    show (if ((t.vals.set (C.σ d) (t.vals.get (C.σ p))).get (C.σ i)) = 0 then none
          else some (C.idx (calcPos t ((t.keys.set (C.σ d) (t.keys.get (C.σ p))).get (C.σ i))))) = _
    rw [Store.get_set, Store.get_set]
    by_cases e : i = d
    · subst e; simp
    · have : C.σ i ≠ C.σ d := fun h => e (C.σ_inj hi hd h)
      simp [this, e]
  · have : i ≠ d := by omega
    simp [hi, this]

theorem A_clearSlot (C : Cyc n) (t : Table) (hs : t.size = n) (d : Nat) (hd : d < n) :
    A C (clearSlot t (C.σ d)) = upd (A C t) d none := by
  funext i
  unfold A upd
  by_cases hi : i < n
  · simp only [hi, if_true]
    have hc : ∀ key, calcPos (clearSlot t (C.σ d)) key = calcPos t key := fun _ => rfl
    simp only [hc]
    show (if ((t.vals.set (C.σ d) 0).get (C.σ i)) = 0 then none
          else some (C.idx (calcPos t ((t.keys.set (C.σ d) 0).get (C.σ i))))) = _
    rw [Store.get_set, Store.get_set]
    by_cases e : i = d
    · subst e; simp
    · have : C.σ i ≠ C.σ d := fun h => e (C.σ_inj hi hd h)
      simp [this, e]
  · have : i ≠ d := by omega
    simp [hi, this]

theorem A_put (C : Cyc n) (t : Table) (hs : t.size = n) (e key val : Nat) (he : e < n) (hv : val ≠ 0) :
    A C (put t (C.σ e) key val) = upd (A C t) e (some (C.idx (calcPos t key))) := by
  funext i
  unfold A upd
  by_cases hi : i < n
  · simp only [hi, if_true]
    have hc : ∀ k, calcPos (put t (C.σ e) key val) k = calcPos t k := fun _ => rfl
    simp only [hc]
    show (if ((t.vals.set (C.σ e) val).get (C.σ i)) = 0 then none
          else some (C.idx (calcPos t ((t.keys.set (C.σ e) key).get (C.σ i))))) = _
    rw [Store.get_set, Store.get_set]
    by_cases e' : i = e
    · subst e'; simp [hv]
    · have : C.σ i ≠ C.σ e := fun h => e' (C.σ_inj hi he h)
      simp [this, e']
  · have : i ≠ e := by omega
    simp [hi, this]

/-- the outer loop of `hashtab_delete` = its closed form -/
theorem compact_eq (C : Cyc n) :
    ∀ fuel (t : Table) (d : Nat), t.size = n → d < n →
      (HashTab.compact fuel t (C.σ d)).map (A C) = HTdel.compact n (A C t) d fuel := by
  intro fuel
  induction fuel with
  | zero => intro t d _ _; rfl
  | succ fuel ih =>
    intro t d hs hd
    unfold HashTab.compact HTdel.compact
    have hn0 : 0 < n := C.pos
    have e0 : nextPos t (C.σ d) = C.σ (plus n d 1) := by
      have := nextPos_σ C t hs d 0 hd hn0
      rwa [plus_zero d hd] at this
    rw [e0, hs, scan_eq C t hs d hd (n - 1) 1 (Nat.le_refl _) (by omega)]
    cases hsc : HTdel.scan n (A C t) d 1 (n - 1) with
    | none =>
      simp only [Option.map_none, Option.map_some]
      rw [A_clearSlot C t hs d hd]
    | some p =>
      simp only [Option.map_some]
      obtain ⟨j', _, hj2, hpe, _⟩ := scan_some n (A C t) d hd (n - 1) 1 p hsc (by omega)
      have hp : p < n := by rw [hpe]; exact plus_lt n d j' hd (by omega)
      rw [ih (moveSlot t (C.σ d) (C.σ p)) p hs hp, A_moveSlot C t hs d p hd hp]

/-- size, and everything outside the slot arrays, survive the compaction -/
theorem compact_size : ∀ fuel (t : Table) (p : Nat) (t' : Table), HashTab.compact fuel t p = some t' →
    t'.size = t.size := by
  intro fuel
  induction fuel with
  | zero => intro t p t' h; cases h
  | succ fuel ih =>
    intro t p t' h
    unfold HashTab.compact at h
    split at h
    · exact (ih _ _ _ h).trans rfl
    · cases h; rfl

end UsualProofs.C15.HT
