import UsualProofs.C15.HeapOrder
/-! The heap invariant (order, distinct non-NULL elements, saved positions) is preserved by
    `heap_push`, `heap_remove`, `heap_pop`, `heap_reserve`; what each returns. -/
namespace UsualProofs.C15.HeapP
open Usual.C15 Usual.C15.Heap

/-- element `x` is in the heap -/
def Mem (h : Heap) (x : Nat) : Prop := ∃ i, i < h.used ∧ h.data.get i = x

/-- distinct, non-NULL elements whose saved position is their index -/
structure Core (h : Heap) : Prop where
  inj : ∀ i j, i < h.used → j < h.used → h.data.get i = h.data.get j → i = j
  pos : ∀ i, i < h.used → h.pos.get (h.data.get i) = i
  nz : ∀ i, i < h.used → h.data.get i ≠ 0

structure Inv (better : Nat → Nat → Bool) (h : Heap) : Prop extends Core h where
  ord : Ord better h.data h.used

/-- `h'` has the same size, capacity and members as `h` and is again `Core` -/
structure Good (h h' : Heap) : Prop where
  core : Core h'
  used : h'.used = h.used
  alloc : h'.allocated = h.allocated
  mem : ∀ x, Mem h' x ↔ Mem h x

theorem Good.trans {a b c : Heap} (h1 : Good a b) (h2 : Good b c) : Good a c :=
  ⟨h2.core, h2.used.trans h1.used, h2.alloc.trans h1.alloc, fun x => (h2.mem x).trans (h1.mem x)⟩

theorem Good.refl {a : Heap} (h : Core a) : Good a a := ⟨h, rfl, rfl, fun _ => Iff.rfl⟩

theorem swap_data (h : Heap) (i j : Nat) : (swap h i j).data = swapD h.data i j := rfl
theorem swap_used (h : Heap) (i j : Nat) : (swap h i j).used = h.used := rfl
theorem swap_pos_get (h : Heap) (i j x : Nat) :
    (swap h i j).pos.get x = if x = h.data.get i then j else if x = h.data.get j then i else h.pos.get x := by
  show ((h.pos.set (h.data.get j) i).set (h.data.get i) j).get x = _
  rw [Store.get_set, Store.get_set]

/-- the index permutation of a swap -/
def swIdx (i j a : Nat) : Nat := if a = j then i else if a = i then j else a
theorem get_swapD_idx (d : Store) (i j a : Nat) : (swapD d i j).get a = d.get (swIdx i j a) := by
  rw [get_swapD]; unfold swIdx; split <;> (try split) <;> rfl
theorem swIdx_lt {i j a n : Nat} (hi : i < n) (hj : j < n) (ha : a < n) : swIdx i j a < n := by
  unfold swIdx; split <;> (try split) <;> omega

theorem swap_good (h : Heap) (i j : Nat) (hc : Core h) (hi : i < h.used) (hj : j < h.used) (hij : i ≠ j) :
    Good h (swap h i j) := by
  refine ⟨⟨?_, ?_, ?_⟩, rfl, rfl, ?_⟩
  · intro a b ha hb
    rw [swap_used] at ha hb
    rw [swap_data, get_swapD_idx, get_swapD_idx]
    intro e
    have := hc.inj _ _ (swIdx_lt hi hj ha) (swIdx_lt hi hj hb) e
    unfold swIdx at this
    split at this <;> split at this <;> (try split at this) <;> (try split at this) <;> omega
  · intro a ha
    rw [swap_used] at ha
    rw [swap_pos_get, swap_data, get_swapD]
    by_cases a1 : a = j
    · subst a1; simp
    · rw [if_neg a1]
      by_cases a2 : a = i
      · subst a2
        rw [if_pos rfl]
        have : h.data.get j ≠ h.data.get a := fun e => hij (hc.inj _ _ hi hj e.symm)
        rw [if_neg this, if_pos rfl]
      · rw [if_neg a2]
        have n1 : h.data.get a ≠ h.data.get i := fun e => a2 (hc.inj _ _ ha hi e)
        have n2 : h.data.get a ≠ h.data.get j := fun e => a1 (hc.inj _ _ ha hj e)
        rw [if_neg n1, if_neg n2]
        exact hc.pos a ha
  · intro a ha
    rw [swap_used] at ha
    rw [swap_data, get_swapD]
    by_cases a1 : a = j
    · rw [if_pos a1]; exact hc.nz i hi
    · rw [if_neg a1]
      by_cases a2 : a = i
      · rw [if_pos a2]; exact hc.nz j hj
      · rw [if_neg a2]; exact hc.nz a ha
  · intro x
    constructor
    · rintro ⟨a, ha, e⟩
      rw [swap_used] at ha
      rw [swap_data, get_swapD] at e
      by_cases a1 : a = j
      · rw [if_pos a1] at e; exact ⟨i, hi, e⟩
      · rw [if_neg a1] at e
        by_cases a2 : a = i
        · rw [if_pos a2] at e; exact ⟨j, hj, e⟩
        · rw [if_neg a2] at e; exact ⟨a, ha, e⟩
    · rintro ⟨a, ha, e⟩
      by_cases a1 : a = j
      · refine ⟨i, hi, ?_⟩
        rw [swap_data, get_swapD, if_neg hij, if_pos rfl, ← a1]; exact e
      · by_cases a2 : a = i
        · refine ⟨j, hj, ?_⟩
          rw [swap_data, get_swapD, if_pos rfl, ← a2]; exact e
        · refine ⟨a, ha, ?_⟩
          rw [swap_data, get_swapD, if_neg a1, if_neg a2]; exact e

/-- `bubble_up` from `k` with enough fuel restores heap order -/
theorem bubbleUp_spec {better} (sw : StrictWeak better) :
    ∀ fuel (h : Heap) (k : Nat), k ≤ fuel → k < h.used → Core h → UpInv better h.data h.used k →
      Good h (bubbleUp better fuel h k) ∧ Ord better (bubbleUp better fuel h k).data h.used := by
  intro fuel
  induction fuel with
  | zero =>
    intro h k hk _ hc hinv
    have : k = 0 := by omega
    subst this
    exact ⟨Good.refl hc, ord_of_upInv_zero hinv⟩
  | succ fuel ih =>
    intro h k hk hku hc hinv
    unfold bubbleUp
    by_cases hk0 : k > 0
    · rw [if_pos hk0]
      simp only
      by_cases hb : isBetter better h k (getParent k) = false
      · rw [if_pos hb]
        exact ⟨Good.refl hc, ord_of_upInv_stop hinv hb⟩
      · rw [if_neg hb]
        have hb' : better (h.data.get k) (h.data.get (getParent k)) = true := by
          unfold isBetter at hb; simpa using hb
        have hp := par_lt k hk0
        have g1 := swap_good h k (getParent k) hc hku (by omega) (by omega)
        have inv' := upInv_swap sw h.data h.used k hk0 hku hinv hb'
        have := ih (swap h k (getParent k)) (getParent k) (by omega) (by rw [swap_used]; omega) g1.core
          (by rw [swap_data, swap_used]; exact inv')
        rw [swap_used] at this
        exact ⟨g1.trans this.1, this.2⟩
    · rw [if_neg hk0]
      have : k = 0 := by omega
      subst this
      exact ⟨Good.refl hc, ord_of_upInv_zero hinv⟩

theorem bubbleDown_succ (better : Nat → Nat → Bool) (fuel : Nat) (h : Heap) (k : Nat) :
    bubbleDown better (fuel + 1) h k =
      if 2 * k + 1 < h.used then
        if isBetter better h (pickChild better h.data h.used k) k = false then h
        else bubbleDown better fuel (swap h k (pickChild better h.data h.used k)) (pickChild better h.data h.used k)
      else h := rfl

/-- `bubble_down` from `k` with enough fuel restores heap order -/
theorem bubbleDown_spec {better} (sw : StrictWeak better) :
    ∀ fuel (h : Heap) (k : Nat), h.used ≤ fuel + k → k < h.used → Core h → DownInv better h.data h.used k →
      Good h (bubbleDown better fuel h k) ∧ Ord better (bubbleDown better fuel h k).data h.used := by
  intro fuel
  induction fuel with
  | zero => intro h k hk hku; omega
  | succ fuel ih =>
    intro h k hk hku hc hinv
    rw [bubbleDown_succ]
    by_cases hcu : 2 * k + 1 < h.used
    · rw [if_pos hcu]
      obtain ⟨hcn, hcp, hc0, hcv, _⟩ := pickChild_spec sw h.data h.used k hcu
      by_cases hb : isBetter better h (pickChild better h.data h.used k) k = false
      · rw [if_pos hb]
        exact ⟨Good.refl hc, ord_of_downInv_stop sw hinv hcu hb⟩
      · rw [if_neg hb]
        have hb' : better (h.data.get (pickChild better h.data h.used k)) (h.data.get k) = true := by
          unfold isBetter at hb; simpa using hb
        have inv' := downInv_swap sw h.data h.used k hinv hcu hb'
        have g1 := swap_good h k (pickChild better h.data h.used k) hc hku hcn (by omega)
        have := ih (swap h k (pickChild better h.data h.used k)) (pickChild better h.data h.used k)
          (by rw [swap_used]; omega) (by rw [swap_used]; exact hcn) g1.core
          (by rw [swap_data, swap_used]; exact inv')
        rw [swap_used] at this
        exact ⟨g1.trans this.1, this.2⟩
    · rw [if_neg hcu]
      exact ⟨Good.refl hc, ord_of_downInv_leaf hinv (by omega)⟩


/-! ### heap_reserve, heap_push -/

theorem reserve_same (h : Heap) (e : Nat) :
    (reserve h e).data = h.data ∧ (reserve h e).used = h.used ∧ (reserve h e).pos = h.pos := by
  unfold reserve; split <;> exact ⟨rfl, rfl, rfl⟩

theorem reserve_inv {better} (h : Heap) (e : Nat) (hi : Inv better h) : Inv better (reserve h e) := by
  obtain ⟨e1, e2, e3⟩ := reserve_same h e
  exact ⟨⟨by rw [e1, e2]; exact hi.inj, by rw [e1, e2, e3]; exact hi.pos, by rw [e1, e2]; exact hi.nz⟩,
    by rw [e1, e2]; exact hi.ord⟩

theorem reserve_mem (h : Heap) (e : Nat) (x : Nat) : Mem (reserve h e) x ↔ Mem h x := by
  obtain ⟨e1, e2, _⟩ := reserve_same h e
  unfold Mem; rw [e1, e2]

/-- after `heap_reserve(h, extra)` there is room for `extra` more elements -/
theorem reserve_room (h : Heap) (e : Nat) : h.used + e ≤ (reserve h e).allocated := by
  unfold reserve
  split
  · omega
  · simp only; split <;> split <;> omega

/-- `heap_push` of a fresh non-NULL element -/
theorem push_spec {better} (sw : StrictWeak better) (h : Heap) (x : Nat) (hi : Inv better h)
    (hx0 : x ≠ 0) (hfresh : ¬ Mem h x) :
    Inv better (push better h x) ∧ (push better h x).used = h.used + 1 ∧
    ∀ y, Mem (push better h x) y ↔ (y = x ∨ Mem h y) := by
  unfold push
  generalize hh1 : (if h.used ≥ h.allocated then reserve h 1 else h) = h1
  have hi1 : Inv better h1 := by subst hh1; split; exact reserve_inv h 1 hi; exact hi
  have hm1 : ∀ y, Mem h1 y ↔ Mem h y := by
    intro y; subst hh1; split; exact reserve_mem h 1 y; exact Iff.rfl
  have hu1 : h1.used = h.used := by subst hh1; split; exact (reserve_same h 1).2.1; rfl
  have hfresh1 : ¬ Mem h1 x := fun m => hfresh ((hm1 x).mp m)
  simp only
  -- the heap right after `set(h, pos, ptr)`
  generalize hh3 : set { h1 with used := h1.used + 1 } h1.used x = h3
  have d3 : ∀ a, h3.data.get a = if a = h1.used then x else h1.data.get a := by
    intro a; subst hh3; exact Store.get_set _ _ _ _
  have p3 : ∀ a, h3.pos.get a = if a = x then h1.used else h1.pos.get a := by
    intro a; subst hh3; exact Store.get_set _ _ _ _
  have u3 : h3.used = h1.used + 1 := by subst hh3; rfl
  have ne : ∀ a, a < h1.used → h1.data.get a ≠ x := fun a ha e => hfresh1 ⟨a, ha, e⟩
  have c3 : Core h3 := by
    refine ⟨?_, ?_, ?_⟩
    · intro a b ha hb
      rw [u3] at ha hb
      rw [d3, d3]
      intro e
      by_cases a1 : a = h1.used <;> by_cases b1 : b = h1.used
      · omega
      · rw [if_pos a1, if_neg b1] at e; exact absurd e.symm (ne b (by omega))
      · rw [if_neg a1, if_pos b1] at e; exact absurd e (ne a (by omega))
      · rw [if_neg a1, if_neg b1] at e; exact hi1.inj a b (by omega) (by omega) e
    · intro a ha
      rw [u3] at ha
      rw [p3, d3]
      by_cases a1 : a = h1.used
      · rw [if_pos a1, if_pos rfl]; exact a1.symm
      · rw [if_neg a1, if_neg (ne a (by omega))]; exact hi1.pos a (by omega)
    · intro a ha
      rw [u3] at ha
      rw [d3]
      by_cases a1 : a = h1.used
      · rw [if_pos a1]; exact hx0
      · rw [if_neg a1]; exact hi1.nz a (by omega)
  have up3 : UpInv better h3.data h3.used h1.used := by
    refine ⟨?_, ?_⟩
    · intro i hi0 hin hik
      rw [u3] at hin
      have := par_lt i hi0
      rw [d3, d3, if_neg hik, if_neg (by omega)]
      exact hi1.ord i hi0 (by omega)
    · intro c hc0 hcn hcp _
      rw [u3] at hcn
      have := (par_eq_iff c h1.used hc0).mp hcp
      omega
  have := bubbleUp_spec sw h1.used h3 h1.used (Nat.le_refl _) (by omega) c3 up3
  obtain ⟨g, o⟩ := this
  refine ⟨⟨g.core, by rw [g.used]; exact o⟩, by rw [g.used, u3, hu1], ?_⟩
  intro y
  rw [g.mem y, ← hm1 y]
  constructor
  · rintro ⟨a, ha, e⟩
    rw [u3] at ha
    rw [d3] at e
    by_cases a1 : a = h1.used
    · rw [if_pos a1] at e; exact Or.inl e.symm
    · rw [if_neg a1] at e; exact Or.inr ⟨a, by omega, e⟩
  · rintro (e | ⟨a, ha, e⟩)
    · exact ⟨h1.used, by omega, by rw [d3, if_pos rfl, e]⟩
    · exact ⟨a, by omega, by rw [d3, if_neg (by omega)]; exact e⟩


/-! ### rebalance, heap_remove, heap_pop -/

/-- what `heap_remove` leaves for `rebalance`: only the edges at `k` may be broken -/
def RebPre (better : Nat → Nat → Bool) (d : Store) (n k : Nat) : Prop :=
  (∀ i, 0 < i → i < n → i ≠ k → getParent i ≠ k → better (d.get i) (d.get (getParent i)) = false) ∧
  (∀ c, 0 < c → c < n → getParent c = k → 0 < k → better (d.get c) (d.get (getParent k)) = false)

theorem rebalance_spec {better} (sw : StrictWeak better) (h : Heap) (k : Nat) (hc : Core h)
    (hk : k < h.used) (pre : RebPre better h.data h.used k) :
    Good h (rebalance better h k) ∧ Ord better (rebalance better h k).data h.used := by
  unfold rebalance
  by_cases k0 : k = 0
  · rw [if_pos k0]
    subst k0
    apply bubbleDown_spec sw h.used h 0 (by omega) hk hc
    refine ⟨?_, ?_⟩
    · intro i hi0 hin hp; exact pre.1 i hi0 hin (by omega) hp
    · intro c _ _ _ h0; omega
  · rw [if_neg k0]
    have hk0 : 0 < k := by omega
    by_cases kl : k = h.used - 1
    · rw [if_pos kl]
      apply bubbleUp_spec sw k h k (Nat.le_refl _) hk hc
      refine ⟨?_, ?_⟩
      · intro i hi0 hin hik
        apply pre.1 i hi0 hin hik
        intro e; have := (par_eq_iff i k hi0).mp e; omega
      · intro c hc0 hcn hcp _
        have := (par_eq_iff c k hc0).mp hcp; omega
    · rw [if_neg kl]
      by_cases hb : isBetter better h k (getParent k) = true
      · rw [if_pos hb]
        have hb' : better (h.data.get k) (h.data.get (getParent k)) = true := hb
        apply bubbleUp_spec sw k h k (Nat.le_refl _) hk hc
        refine ⟨?_, pre.2⟩
        intro i hi0 hin hik
        by_cases hp : getParent i = k
        · rw [hp]
          have e1 := pre.2 i hi0 hin hp hk0
          cases hx : better (h.data.get i) (h.data.get k) with
          | false => rfl
          | true =>
            have := sw.negTrans _ _ _ e1 (sw.asymm _ _ hb')
            rw [hx] at this; cases this
        · exact pre.1 i hi0 hin hik hp
      · rw [if_neg hb]
        have hb' : better (h.data.get k) (h.data.get (getParent k)) = false := by
          unfold isBetter at hb; simpa using hb
        apply bubbleDown_spec sw h.used h k (by omega) hk hc
        refine ⟨?_, pre.2⟩
        intro i hi0 hin hp
        by_cases hik : i = k
        · subst hik; exact hb'
        · exact pre.1 i hi0 hin hik hp

/-- `heap_remove(h, pos)` with `pos` inside the heap: returns the element at `pos`, which leaves;
    everything else stays; the invariant holds again -/
theorem remove_spec {better} (sw : StrictWeak better) (h : Heap) (p : Nat) (hi : Inv better h)
    (hp : p < h.used) :
    (remove better h p).2 = h.data.get p ∧ Inv better (remove better h p).1 ∧
    (remove better h p).1.used = h.used - 1 ∧
    ∀ y, Mem (remove better h p).1 y ↔ (Mem h y ∧ y ≠ h.data.get p) := by
  unfold remove
  rw [if_neg (by omega)]
  simp only
  generalize hh1 : ({ h with used := h.used - 1 } : Heap) = h1
  have u1 : h1.used = h.used - 1 := by subst hh1; rfl
  have d1 : h1.data = h.data := by subst hh1; rfl
  have p1 : h1.pos = h.pos := by subst hh1; rfl
  -- the heap after the optional `set` + `rebalance`
  generalize hh2 : (if p < h.used - 1 then rebalance better (set h1 p (h.data.get (h.used - 1))) p else h1) = h2
  have key : Core h2 ∧ Ord better h2.data (h.used - 1) ∧ h2.used = h.used - 1 ∧
      ∀ y, Mem h2 y ↔ (Mem h y ∧ y ≠ h.data.get p) := by
    by_cases hpl : p < h.used - 1
    · rw [if_pos hpl] at hh2
      generalize hhs : set h1 p (h.data.get (h.used - 1)) = hs at hh2
      have ds : ∀ a, hs.data.get a = if a = p then h.data.get (h.used - 1) else h.data.get a := by
        intro a; subst hhs; rw [← d1]; exact Store.get_set _ _ _ _
      have ps : ∀ a, hs.pos.get a = if a = h.data.get (h.used - 1) then p else h.pos.get a := by
        intro a; subst hhs; rw [← d1, ← p1]; exact Store.get_set _ _ _ _
      have us : hs.used = h.used - 1 := by subst hhs; exact u1
      have ne : ∀ a, a < h.used - 1 → h.data.get a ≠ h.data.get (h.used - 1) := by
        intro a ha e; have := hi.inj a (h.used - 1) (by omega) (by omega) e; omega
      have cs : Core hs := by
        refine ⟨?_, ?_, ?_⟩
        · intro a b ha hb
          rw [us] at ha hb
          rw [ds, ds]
          intro e
          by_cases a1 : a = p <;> by_cases b1 : b = p
          · omega
          · rw [if_pos a1, if_neg b1] at e; exact absurd e.symm (ne b hb)
          · rw [if_neg a1, if_pos b1] at e; exact absurd e (ne a ha)
          · rw [if_neg a1, if_neg b1] at e; exact hi.inj a b (by omega) (by omega) e
        · intro a ha
          rw [us] at ha
          rw [ps, ds]
          by_cases a1 : a = p
          · rw [if_pos a1, if_pos rfl]; exact a1.symm
          · rw [if_neg a1, if_neg (ne a ha)]; exact hi.pos a (by omega)
        · intro a ha
          rw [us] at ha
          rw [ds]
          by_cases a1 : a = p
          · rw [if_pos a1]; exact hi.nz _ (by omega)
          · rw [if_neg a1]; exact hi.nz a (by omega)
      have pre : RebPre better hs.data hs.used p := by
        refine ⟨?_, ?_⟩
        · intro i hi0 hin hik hpk
          rw [us] at hin
          rw [ds, ds, if_neg hik, if_neg hpk]
          exact hi.ord i hi0 (by omega)
        · intro c hc0 hcn hcp hp0
          rw [us] at hcn
          have h1' := par_lt c hc0
          have h2' := par_lt p hp0
          rw [ds, ds, if_neg (by omega), if_neg (by omega)]
          have e1 := hi.ord c hc0 (by omega)
          rw [hcp] at e1
          exact sw.negTrans _ _ _ e1 (hi.ord p hp0 hp)
      have := rebalance_spec sw hs p cs (by omega) pre
      rw [hh2, us] at this
      obtain ⟨g, o⟩ := this
      refine ⟨g.core, o, by rw [g.used, us], ?_⟩
      intro y
      rw [g.mem y]
      constructor
      · rintro ⟨a, ha, e⟩
        rw [us] at ha
        rw [ds] at e
        by_cases a1 : a = p
        · rw [if_pos a1] at e
          refine ⟨⟨h.used - 1, by omega, e⟩, ?_⟩
          rw [← e]; exact fun e' => ne p hpl e'.symm
        · rw [if_neg a1] at e
          refine ⟨⟨a, by omega, e⟩, ?_⟩
          rw [← e]; intro e'; exact a1 (hi.inj a p (by omega) hp e')
      · rintro ⟨⟨a, ha, e⟩, hne⟩
        by_cases a1 : a = h.used - 1
        · exact ⟨p, by omega, by rw [ds, if_pos rfl, ← a1]; exact e⟩
        · have : a ≠ p := by intro e'; subst e'; exact hne e.symm
          exact ⟨a, by omega, by rw [ds, if_neg this]; exact e⟩
    · rw [if_neg hpl] at hh2
      subst hh2
      have hpe : p = h.used - 1 := by omega
      refine ⟨⟨?_, ?_, ?_⟩, ?_, u1, ?_⟩
      · intro a b ha hb; rw [u1] at ha hb; rw [d1]; exact hi.inj a b (by omega) (by omega)
      · intro a ha; rw [u1] at ha; rw [d1, p1]; exact hi.pos a (by omega)
      · intro a ha; rw [u1] at ha; rw [d1]; exact hi.nz a (by omega)
      · intro i hi0 hin; rw [d1]; exact hi.ord i hi0 (by omega)
      · intro y
        unfold Mem
        rw [u1, d1]
        constructor
        · rintro ⟨a, ha, e⟩
          refine ⟨⟨a, by omega, e⟩, ?_⟩
          rw [← e]; intro e'; have := hi.inj a p (by omega) hp e'; omega
        · rintro ⟨⟨a, ha, e⟩, hne⟩
          have : a ≠ p := by intro e'; subst e'; exact hne e.symm
          exact ⟨a, by omega, e⟩
  obtain ⟨c2, o2, u2, m2⟩ := key
  -- the final `h->data[last] = NULL` is outside the live part
  have dl : ∀ a, a < h.used - 1 → (h2.data.set (h.used - 1) 0).get a = h2.data.get a := by
    intro a ha; rw [Store.get_set, if_neg (by omega)]
  refine ⟨trivial, ⟨⟨?_, ?_, ?_⟩, ?_⟩, u2, ?_⟩
  · intro a b ha hb
    simp only [u2] at ha hb
    show (h2.data.set (h.used - 1) 0).get a = (h2.data.set (h.used - 1) 0).get b → a = b
    rw [dl a ha, dl b hb]; exact c2.inj a b (by omega) (by omega)
  · intro a ha
    simp only [u2] at ha
    show h2.pos.get ((h2.data.set (h.used - 1) 0).get a) = a
    rw [dl a ha]; exact c2.pos a (by omega)
  · intro a ha
    simp only [u2] at ha
    show (h2.data.set (h.used - 1) 0).get a ≠ 0
    rw [dl a ha]; exact c2.nz a (by omega)
  · intro i hi0 hin
    simp only [u2] at hin
    show better ((h2.data.set (h.used - 1) 0).get i) ((h2.data.set (h.used - 1) 0).get (getParent i)) = false
    have := par_lt i hi0
    rw [dl i hin, dl _ (by omega)]
    exact o2 i hi0 hin
  · intro y
    rw [← m2 y]
    show (∃ a, a < h2.used ∧ (h2.data.set (h.used - 1) 0).get a = y) ↔ ∃ a, a < h2.used ∧ h2.data.get a = y
    constructor
    · rintro ⟨a, ha, e⟩; rw [dl a (by omega)] at e; exact ⟨a, ha, e⟩
    · rintro ⟨a, ha, e⟩; exact ⟨a, ha, by rw [dl a (by omega)]; exact e⟩

/-- `heap_remove(h, pos)` with `pos` outside: NULL, nothing changes -/
theorem remove_out (better : Nat → Nat → Bool) (h : Heap) (p : Nat) (hp : h.used ≤ p) :
    remove better h p = (h, 0) := by
  unfold remove; rw [if_pos hp]

/-- in an ordered heap no element is better than the root -/
theorem root_best {better} (sw : StrictWeak better) (d : Store) (n : Nat) (ho : Ord better d n) :
    ∀ i, i < n → better (d.get i) (d.get 0) = false := by
  intro i
  induction i using Nat.strongRecOn with
  | _ i ih =>
    intro hin
    by_cases i0 : i = 0
    · subst i0; exact sw.irrefl _
    · have hp := par_lt i (by omega)
      exact sw.negTrans _ _ _ (ho i (by omega) hin) (ih _ hp (by omega))


/-! ### the list view -/

theorem mem_toList (h : Heap) (x : Nat) : x ∈ toList h ↔ Mem h x := by
  unfold toList Mem
  simp only [List.mem_map, List.mem_range]

theorem toList_nodup (h : Heap) (hc : Core h) : (toList h).Nodup := by
  unfold toList
  rw [List.Nodup, List.pairwise_map]
  refine (List.pairwise_lt_range (n := h.used)).imp_of_mem ?_
  intro a b ha hb hlt e
  have := hc.inj a b (List.mem_range.mp ha) (List.mem_range.mp hb) e
  omega

theorem toList_length (h : Heap) : (toList h).length = h.used := by simp [toList]

theorem orderedB_iff (better : Nat → Nat → Bool) (h : Heap) :
    orderedB better h = true ↔ Ord better h.data h.used := by
  unfold orderedB Ord isBetter
  simp only [List.all_eq_true, List.mem_range, Bool.or_eq_true, decide_eq_true_eq, Bool.not_eq_true']
  constructor
  · intro H i hi0 hin
    rcases H i hin with e | e
    · omega
    · exact e
  · intro H i hin
    by_cases i0 : i = 0
    · exact Or.inl i0
    · exact Or.inr (H i (by omega) hin)

theorem posOkB_iff (h : Heap) : posOkB h = true ↔ ∀ i, i < h.used → h.pos.get (h.data.get i) = i := by
  unfold posOkB
  simp only [List.all_eq_true, List.mem_range, beq_iff_eq]


/-! ### allocation failure (the realloc oracle says no) -/

theorem reserve_noop (h : Heap) (e : Nat) (hroom : h.used + e < h.allocated) : reserve h e = h := by
  unfold reserve; rw [if_pos hroom]

theorem reserveO_ok (h : Heap) (e : Nat) : reserveO true h e = (reserve h e, true) := by
  unfold reserveO
  split
  · next hroom => rw [reserve_noop h e hroom]
  · rfl

/-- a failing allocator leaves the heap exactly as it was; the call reports failure iff it
    needed the allocator at all -/
theorem reserveO_fail (h : Heap) (e : Nat) : reserveO false h e = (h, !reserveAllocs h e) := by
  unfold reserveO reserveAllocs
  split <;> simp [*]

theorem pushO_ok (better : Nat → Nat → Bool) (h : Heap) (x : Nat) : pushO true better h x = (push better h x, true) := by
  unfold pushO
  split
  · rw [reserveO_ok]; rfl
  · rfl

theorem pushO_fail (better : Nat → Nat → Bool) (h : Heap) (x : Nat) :
    pushO false better h x = if h.used ≥ h.allocated then (h, false) else (push better h x, true) := by
  unfold pushO
  split
  · next hfull =>
    rw [reserveO_fail]
    have : reserveAllocs h 1 = true := by unfold reserveAllocs; simp; omega
    simp [this]
  · rfl

end UsualProofs.C15.HeapP
