import UsualProofs.C15.Sort
import UsualProofs.C15.HeapInv
import UsualProofs.C15.HTrun
import UsualProofs.C15.DSortP
import UsualProofs.C15.SHListP
/-! Operation histories (heap, one List/StatList, one SHList inside a movable region) with their
    list-level specifications, and the step lemmas the property theorems are assembled from.
    Also the concrete comparators / histories used by the non-vacuity examples. -/
namespace UsualProofs.C15.Runs
open Usual.C15 UsualProofs.C15

/-! ## heap histories -/
section HeapRuns
open Usual.C15.Heap UsualProofs.C15.HeapP

inductive HeapOp where
  | push (x : Nat)
  | pop
  | remove (i : Nat)
  | reserve (extra : Nat)

def heapStep (better : Nat → Nat → Bool) (h : Heap) : HeapOp → Heap
  | .push x => push better h x
  | .pop => (pop better h).1
  | .remove i => (remove better h i).1
  | .reserve e => reserve h e

def heapRun (better : Nat → Nat → Bool) : Heap → List HeapOp → Heap
  | h, [] => h
  | h, op :: rest => heapRun better (heapStep better h op) rest

/-- what the API allows: a pushed pointer is non-NULL and not already in the heap -/
def HeapOp.ok (h : Heap) : HeapOp → Prop
  | .push x => x ≠ 0 ∧ ¬ Mem h x
  | _ => True

def HeapValid (better : Nat → Nat → Bool) : Heap → List HeapOp → Prop
  | _, [] => True
  | h, op :: rest => op.ok h ∧ HeapValid better (heapStep better h op) rest

theorem heapStep_inv {better} (sw : StrictWeak better) (h : Heap) (op : HeapOp) (hi : Inv better h)
    (hv : op.ok h) : Inv better (heapStep better h op) := by
  cases op with
  | push x => exact (push_spec sw h x hi hv.1 hv.2).1
  | pop =>
    show Inv better (remove better h 0).1
    by_cases hu : 0 < h.used
    · exact (remove_spec sw h 0 hi hu).2.1
    · rw [remove_out better h 0 (by omega)]; exact hi
  | remove i =>
    show Inv better (remove better h i).1
    by_cases hu : i < h.used
    · exact (remove_spec sw h i hi hu).2.1
    · rw [remove_out better h i (by omega)]; exact hi
  | reserve e => exact reserve_inv h e hi

theorem init_inv (better : Nat → Nat → Bool) : Inv better Heap.init :=
  ⟨⟨fun i j hi => by simp [Heap.init] at hi, fun i hi => by simp [Heap.init] at hi,
    fun i hi => by simp [Heap.init] at hi⟩, fun i _ hi => by simp [Heap.init] at hi⟩

theorem heapRun_inv {better} (sw : StrictWeak better) :
    ∀ (ops : List HeapOp) (h : Heap), Inv better h → HeapValid better h ops → Inv better (heapRun better h ops)
  | [], _, hi, _ => hi
  | op :: rest, h, hi, hv => heapRun_inv sw rest _ (heapStep_inv sw h op hi hv.1) hv.2

/-- the multiset specification replayed with the values the heap returned -/
def specStep (better : Nat → Nat → Bool) (h : Heap) (S : List Nat) : HeapOp → List Nat
  | .push x => x :: S
  | .pop => S.erase (pop better h).2
  | .remove i => S.erase (remove better h i).2
  | .reserve _ => S

def specRun (better : Nat → Nat → Bool) : Heap → List Nat → List HeapOp → List Nat
  | _, S, [] => S
  | h, S, op :: rest => specRun better (heapStep better h op) (specStep better h S op) rest

theorem heapStep_refines {better} (sw : StrictWeak better) (h : Heap) (S : List Nat) (op : HeapOp)
    (hi : Inv better h) (hp : (toList h).Perm S) (hv : op.ok h) :
    (toList (heapStep better h op)).Perm (specStep better h S op) := by
  have hi' := heapStep_inv sw h op hi hv
  have nd : S.Nodup := hp.nodup_iff.mp (toList_nodup h hi.toCore)
  have ms : ∀ y, y ∈ S ↔ Mem h y := fun y => (hp.mem_iff (a := y)).symm.trans (mem_toList h y)
  have rm : ∀ i, (toList (remove better h i).1).Perm (S.erase (remove better h i).2) := by
    intro i
    by_cases hu : i < h.used
    · obtain ⟨e, i2, _, m2⟩ := remove_spec sw h i hi hu
      rw [List.perm_ext_iff_of_nodup (toList_nodup _ i2.toCore) (nd.erase _)]
      intro y
      rw [mem_toList, m2 y, nd.mem_erase_iff, ms y, e]
      exact And.comm
    · rw [remove_out better h i (by omega)]
      rw [List.erase_of_not_mem]
      · exact hp
      · rw [ms]; rintro ⟨a, ha, e⟩; exact hi.nz a ha e
  cases op with
  | push x =>
    obtain ⟨_, _, m2⟩ := push_spec sw h x hi hv.1 hv.2
    have ndx : (x :: S).Nodup := List.nodup_cons.mpr ⟨by rw [ms]; exact hv.2, nd⟩
    show (toList (push better h x)).Perm (x :: S)
    refine (List.perm_ext_iff_of_nodup (toList_nodup (push better h x) hi'.toCore) ndx).mpr ?_
    intro y
    rw [mem_toList, m2 y, List.mem_cons, ms y]
  | pop => exact rm 0
  | remove i => exact rm i
  | reserve e =>
    show (toList (reserve h e)).Perm S
    have := reserve_same h e
    unfold toList; rw [this.1, this.2.1]; exact hp

theorem heapRun_refines {better} (sw : StrictWeak better) :
    ∀ (ops : List HeapOp) (h : Heap) (S : List Nat), Inv better h → (toList h).Perm S →
      HeapValid better h ops → (toList (heapRun better h ops)).Perm (specRun better h S ops)
  | [], _, _, _, hp, _ => hp
  | op :: rest, h, S, hi, hp, hv =>
    heapRun_refines sw rest _ _ (heapStep_inv sw h op hi hv.1) (heapStep_refines sw h S op hi hp hv.1) hv.2

/-- the ordering of the harness and the examples: smaller number = better -/
def ltNat (a b : Nat) : Bool := decide (a < b)
theorem ltNat_sw : StrictWeak ltNat :=
  ⟨fun a b => by unfold ltNat; simp only [decide_eq_true_eq, decide_eq_false_iff_not]; omega,
   fun a b c => by unfold ltNat; simp only [decide_eq_false_iff_not]; omega⟩

def exOps : List HeapOp := [.push 5, .push 3, .push 9, .push 1, .reserve 3, .remove 1, .push 4, .pop, .push 2]

theorem exOps_valid : HeapValid ltNat Heap.init exOps := by
  simp only [exOps, HeapValid, heapStep, HeapOp.ok]
  refine ⟨⟨by decide, ?_⟩, ⟨by decide, ?_⟩, ⟨by decide, ?_⟩, ⟨by decide, ?_⟩, trivial, trivial,
          ⟨by decide, ?_⟩, trivial, ⟨by decide, ?_⟩, trivial⟩ <;>
    (rw [← mem_toList]; decide)

theorem exHeap_inv : Inv ltNat (heapRun ltNat Heap.init exOps) :=
  heapRun_inv ltNat_sw exOps _ (init_inv ltNat) exOps_valid

end HeapRuns

/-! ## sort comparators for the examples -/
section SortEx
open UsualProofs.C15.Sort

/-- compare first components (what the harness does with `key`) -/
def leFst (a b : Nat × Nat) : Bool := decide (a.1 ≤ b.1)

theorem leFst_preorder : TotalPreorder leFst :=
  ⟨fun a b => by unfold leFst; simp only [decide_eq_true_eq]; omega,
   fun a b c => by unfold leFst; simp only [decide_eq_true_eq]; omega⟩

/-- compare nodes by a key table -/
def leKey (key : Nat → Nat) (a b : Nat) : Bool := decide (key a ≤ key b)

theorem leKey_preorder (key : Nat → Nat) : TotalPreorder (leKey key) :=
  ⟨fun a b => by unfold leKey; simp only [decide_eq_true_eq]; omega,
   fun a b c => by unfold leKey; simp only [decide_eq_true_eq]; omega⟩

end SortEx

/-! ## one StatList: histories and the deque they refine -/
section ListRuns
open Usual.C15.DList UsualProofs.C15.DListP UsualProofs.C15.DSortP

inductive LOp where
  | pre (x : Nat)
  | app (x : Nat)
  | rem (x : Nat)
  | pop
  | sort

/-- the deque specification -/
def lspec (le : Nat → Nat → Bool) (xs : List Nat) : LOp → List Nat
  | .pre x => x :: xs
  | .app x => xs ++ [x]
  | .rem x => xs.erase x
  | .pop => xs.tail
  | .sort => ListSort.listSort le xs

/-- API contract: an inserted item is non-NULL and not in the list; a removed item is in it -/
def LOp.ok (head : Nat) (xs : List Nat) : LOp → Prop
  | .pre x => x ≠ 0 ∧ x ∉ head :: xs
  | .app x => x ≠ 0 ∧ x ∉ head :: xs
  | .rem x => x ∈ xs
  | _ => True

/-- the StatList model: store, head + count -/
def lstep (le : Nat → Nat → Bool) (fuel : Nat) (st : DL × SL) : LOp → DL × SL
  | .pre x => statPrepend st.1 st.2 x
  | .app x => statAppend st.1 st.2 x
  | .rem x => statRemove st.1 st.2 x
  | .pop => let r := statPop st.1 st.2; (r.1, r.2.1)
  | .sort => (DList.listSort le st.1 st.2.head fuel, st.2)

/-- representation: the ring of the head holds `xs`, `cur_count` is its length, no NULL node -/
structure LRep (st : DL × SL) (xs : List Nat) : Prop where
  ring : IsL st.1 st.2.head xs
  count : st.2.count = xs.length
  head0 : st.2.head ≠ 0
  nz : 0 ∉ xs

theorem lstep_head (le : Nat → Nat → Bool) (fuel : Nat) (st : DL × SL) (op : LOp) :
    (lstep le fuel st op).2.head = st.2.head := by
  cases op <;> try rfl
  show (if _ then _ else _ : SL).head = _
  split <;> rfl

theorem lstep_rep (le : Nat → Nat → Bool) (fuel : Nat) (st : DL × SL) (xs : List Nat) (op : LOp)
    (hr : LRep st xs) (hv : op.ok st.2.head xs) (hf : xs.length ≤ fuel) :
    LRep (lstep le fuel st op) (lspec le xs op) := by
  obtain ⟨ring, count, head0, nz⟩ := hr
  cases op with
  | pre x =>
    refine ⟨prepend_isL st.1 st.2.head xs x ring hv.2, ?_, head0, ?_⟩
    · show st.2.count + 1 = ((x :: xs).length : Int); rw [count]; simp
    · intro h; rcases List.mem_cons.mp h with e | e
      · exact hv.1 e.symm
      · exact nz e
  | app x =>
    refine ⟨append_isL st.1 st.2.head xs x ring hv.2, ?_, head0, ?_⟩
    · show st.2.count + 1 = ((xs ++ [x]).length : Int); rw [count]; simp
    · intro h; rcases List.mem_append.mp h with e | e
      · exact nz e
      · simp at e; exact hv.1 e.symm
  | rem x =>
    obtain ⟨A, B, e⟩ := List.append_of_mem hv
    have hnd : xs.Nodup := (List.nodup_cons.mp ring.2).2
    have hxA : x ∉ A := by
      intro h; rw [e] at hnd
      exact (List.nodup_append.mp hnd).2.2 x h x (by simp) rfl
    have he : xs.erase x = A ++ B := by
      rw [e, List.erase_append_right _ hxA, List.erase_cons_head]
    show LRep _ (xs.erase x)
    rw [he]
    refine ⟨(del_isL st.1 st.2.head A B x (by rw [← e]; exact ring)).1, ?_, head0, ?_⟩
    · show st.2.count - 1 = ((A ++ B).length : Int)
      rw [count, e]; simp; omega
    · intro h; apply nz; rw [e]
      rcases List.mem_append.mp h with h' | h'
      · exact List.mem_append_left _ h'
      · exact List.mem_append_right _ (List.mem_cons_of_mem _ h')
  | pop =>
    obtain ⟨p1, p2⟩ := pop_isL st.1 st.2.head xs ring
    have hh : (lstep le fuel st .pop).2.head = st.2.head := lstep_head le fuel st .pop
    refine ⟨?_, ?_, ?_, fun h => nz (List.mem_of_mem_tail h)⟩
    · show IsL (listPop st.1 st.2.head).1 (lstep le fuel st .pop).2.head xs.tail
      rw [hh]; exact p2
    · show (if (listPop st.1 st.2.head).2 ≠ 0 then { st.2 with count := st.2.count - 1 } else st.2).count
          = (xs.tail.length : Int)
      rw [p1]
      cases xs with
      | nil => simp [count]
      | cons y r =>
        have : y ≠ 0 := fun e => nz (by simp [e])
        simp [this, count]
    · rw [hh]; exact head0
  | sort =>
    refine ⟨(sort_isL le st.1 st.2.head xs fuel ring head0 nz hf).1, ?_, head0, ?_⟩
    · show st.2.count = ((ListSort.listSort le xs).length : Int)
      rw [count, (Sort.listSort_perm le xs).length_eq]
    · intro h; exact nz ((Sort.listSort_perm le xs).mem_iff.mp h)

def lrun (le : Nat → Nat → Bool) (fuel : Nat) : DL × SL → List LOp → DL × SL
  | st, [] => st
  | st, op :: rest => lrun le fuel (lstep le fuel st op) rest

def lspecRun (le : Nat → Nat → Bool) : List Nat → List LOp → List Nat
  | xs, [] => xs
  | xs, op :: rest => lspecRun le (lspec le xs op) rest

/-- every op of the history respects the API contract, and the list never outgrows `fuel`
    (the traversal bound of the model's `list_sort`) -/
def LValid (le : Nat → Nat → Bool) (fuel head : Nat) : List Nat → List LOp → Prop
  | _, [] => True
  | xs, op :: rest => op.ok head xs ∧ xs.length ≤ fuel ∧ LValid le fuel head (lspec le xs op) rest

theorem lrun_rep (le : Nat → Nat → Bool) (fuel : Nat) :
    ∀ (ops : List LOp) (st : DL × SL) (xs : List Nat), LRep st xs → LValid le fuel st.2.head xs ops →
      LRep (lrun le fuel st ops) (lspecRun le xs ops)
  | [], _, _, hr, _ => hr
  | op :: rest, st, xs, hr, hv =>
    lrun_rep le fuel rest _ _ (lstep_rep le fuel st xs op hr hv.1 hv.2.1)
      (by rw [lstep_head]; exact hv.2.2)

theorem statInit_rep (s : DL) (l : Nat) (hl : l ≠ 0) : LRep (statInit s l) [] :=
  ⟨init_isL s l, rfl, hl, by simp⟩

end ListRuns

/-! ## one SHList inside a region that is moved around -/
section SHRuns
open Usual.C15.SHList UsualProofs.C15.SHListP

/-- ops name nodes by their offset inside the region; `move` relocates the whole region -/
inductive SOp where
  | app (o : Nat)
  | pre (o : Nat)
  | rem (o : Nat)
  | pop
  | move (newBase : Nat)

structure SState where
  mem : Mem
  base : Nat

def sstep (len lo : Nat) (st : SState) : SOp → SState
  | .app o => { st with mem := append st.mem (st.base + lo) (st.base + o) }
  | .pre o => { st with mem := prepend st.mem (st.base + lo) (st.base + o) }
  | .rem o => { st with mem := remove st.mem (st.base + o) }
  | .pop => { st with mem := (pop st.mem (st.base + lo)).1 }
  | .move nb => { mem := relocate st.mem st.base len nb, base := nb }

/-- the deque of region offsets the list stands for; `move` does not change it -/
def sspec (os : List Nat) : SOp → List Nat
  | .app o => os ++ [o]
  | .pre o => o :: os
  | .rem o => os.erase o
  | .pop => os.tail
  | .move _ => os

def SOp.ok (len lo : Nat) (os : List Nat) : SOp → Prop
  | .app o => o < len ∧ o ∉ lo :: os
  | .pre o => o < len ∧ o ∉ lo :: os
  | .rem o => o ∈ os
  | .pop => True
  | .move nb => 0 < nb

/-- representation: at the current base the ring of the head (offset `lo`) holds the nodes at
    offsets `os`; everything lies inside the region -/
structure SRep (len lo : Nat) (st : SState) (os : List Nat) : Prop where
  ring : IsSH st.mem (st.base + lo) (os.map (st.base + ·))
  base : 0 < st.base
  inreg : ∀ o, o ∈ lo :: os → o < len

theorem map_add_inj (b : Nat) (o : Nat) (os : List Nat) : b + o ∈ os.map (b + ·) ↔ o ∈ os := by
  simp

theorem sstep_rep (len lo : Nat) (st : SState) (os : List Nat) (op : SOp) (hr : SRep len lo st os)
    (hv : op.ok len lo os) : SRep len lo (sstep len lo st op) (sspec os op) := by
  obtain ⟨ring, base, inreg⟩ := hr
  have notin : ∀ o, o ∉ lo :: os → st.base + o ∉ (st.base + lo) :: os.map (st.base + ·) := by
    intro o h hm
    apply h
    rcases List.mem_cons.mp hm with e | e
    · have : o = lo := by omega
      simp [this]
    · exact List.mem_cons_of_mem _ ((map_add_inj st.base o os).mp e)
  cases op with
  | app o =>
    refine ⟨?_, base, ?_⟩
    · have := append_isSH st.mem (st.base + lo) _ (st.base + o) ring (notin o hv.2)
      show IsSH (append st.mem (st.base + lo) (st.base + o)) (st.base + lo) ((os ++ [o]).map (st.base + ·))
      simpa using this
    · intro o' h'
      have : o' ∈ lo :: os ∨ o' = o := by
        simp [sspec] at h' ⊢; rcases h' with e | e | e
        · exact Or.inl (Or.inl e)
        · exact Or.inl (Or.inr e)
        · exact Or.inr e
      rcases this with e | e
      · exact inreg o' e
      · rw [e]; exact hv.1
  | pre o =>
    refine ⟨?_, base, ?_⟩
    · have := prepend_isSH st.mem (st.base + lo) _ (st.base + o) ring (notin o hv.2)
      show IsSH (prepend st.mem (st.base + lo) (st.base + o)) (st.base + lo) ((o :: os).map (st.base + ·))
      simpa using this
    · intro o' h'
      have : o' ∈ lo :: os ∨ o' = o := by
        simp [sspec] at h' ⊢; rcases h' with e | e | e
        · exact Or.inl (Or.inl e)
        · exact Or.inr e
        · exact Or.inl (Or.inr e)
      rcases this with e | e
      · exact inreg o' e
      · rw [e]; exact hv.1
  | rem o =>
    obtain ⟨A, B, e⟩ := List.append_of_mem hv
    have hnd : (os.map (st.base + ·)).Nodup := (List.nodup_cons.mp ring.2).2
    have hnd' : os.Nodup := by
      rw [List.Nodup, List.pairwise_map] at hnd
      exact hnd.imp (fun h e => h (by rw [e]))
    have hoA : o ∉ A := by
      intro h; rw [e] at hnd'
      exact (List.nodup_append.mp hnd').2.2 o h o (by simp) rfl
    have he : os.erase o = A ++ B := by
      rw [e, List.erase_append_right _ hoA, List.erase_cons_head]
    show SRep len lo _ (os.erase o)
    rw [he]
    refine ⟨?_, base, ?_⟩
    · have h1 : IsSH st.mem (st.base + lo) (A.map (st.base + ·) ++ (st.base + o) :: B.map (st.base + ·)) := by
        have : os.map (st.base + ·) = A.map (st.base + ·) ++ (st.base + o) :: B.map (st.base + ·) := by
          rw [e]; simp
        rw [← this]; exact ring
      have := (remove_isSH st.mem (st.base + lo) _ _ (st.base + o) h1).1
      show IsSH (remove st.mem (st.base + o)) (st.base + lo) ((A ++ B).map (st.base + ·))
      simpa using this
    · intro o' h'
      apply inreg o'
      rw [e]
      rcases List.mem_cons.mp h' with e' | e'
      · simp [e']
      · apply List.mem_cons_of_mem
        rcases List.mem_append.mp e' with h'' | h''
        · exact List.mem_append_left _ h''
        · exact List.mem_append_right _ (List.mem_cons_of_mem _ h'')
  | pop =>
    refine ⟨?_, base, ?_⟩
    · have := (pop_isSH st.mem (st.base + lo) _ ring (by omega)).2
      show IsSH (pop st.mem (st.base + lo)).1 (st.base + lo) (os.tail.map (st.base + ·))
      rw [List.map_tail]; exact this
    · intro o' h'
      apply inreg o'
      rcases List.mem_cons.mp h' with e' | e'
      · simp [e']
      · exact List.mem_cons_of_mem _ (List.mem_of_mem_tail e')
  | move nb =>
    refine ⟨?_, hv, inreg⟩
    have hreg : ∀ z, z ∈ (st.base + lo) :: os.map (st.base + ·) → st.base ≤ z ∧ z < st.base + len := by
      intro z hz
      rcases List.mem_cons.mp hz with e | e
      · have := inreg lo (by simp); omega
      · obtain ⟨o, ho, rfl⟩ := List.mem_map.mp e
        have := inreg o (List.mem_cons_of_mem _ ho); omega
    have := relocate_isSH st.mem st.base len nb _ _ ring base hreg
    show IsSH _ (nb + lo) (os.map (nb + ·))
    have e1 : st.base + lo - st.base + nb = nb + lo := by omega
    have e2 : (os.map (st.base + ·)).map (fun z => z - st.base + nb) = os.map (nb + ·) := by
      rw [List.map_map]
      apply List.map_congr_left
      intro o _
      simp only [Function.comp]; omega
    rw [e1, e2] at this
    exact this

def srun (len lo : Nat) : SState → List SOp → SState
  | st, [] => st
  | st, op :: rest => srun len lo (sstep len lo st op) rest

def sspecRun : List Nat → List SOp → List Nat
  | os, [] => os
  | os, op :: rest => sspecRun (sspec os op) rest

def SValid (len lo : Nat) : List Nat → List SOp → Prop
  | _, [] => True
  | os, op :: rest => op.ok len lo os ∧ SValid len lo (sspec os op) rest

theorem srun_rep (len lo : Nat) :
    ∀ (ops : List SOp) (st : SState) (os : List Nat), SRep len lo st os → SValid len lo os ops →
      SRep len lo (srun len lo st ops) (sspecRun os ops)
  | [], _, _, hr, _ => hr
  | op :: rest, st, os, hr, hv => srun_rep len lo rest _ _ (sstep_rep len lo st os op hr hv.1) hv.2

theorem sinit_rep (len lo : Nat) (m : Mem) (base : Nat) (hb : 0 < base) (hlo : lo < len) :
    SRep len lo { mem := init m (base + lo), base := base } [] :=
  ⟨init_isSH m (base + lo), hb, fun o h => by simp at h; omega⟩

end SHRuns

end UsualProofs.C15.Runs
