import Usual.C15.Heap
/-! Heap order is re-established by `bubble_up` / `bubble_down` (usual/heap.c): the array-level
    lemmas, about the `data` store only. -/
namespace UsualProofs.C15.HeapP
open Usual.C15 Usual.C15.Heap

/-- what the heap needs from the user's `is_better`: a strict weak order -/
structure StrictWeak (better : Nat → Nat → Bool) : Prop where
  asymm : ∀ a b, better a b = true → better b a = false
  negTrans : ∀ a b c, better a b = false → better b c = false → better a c = false

theorem StrictWeak.irrefl {better} (sw : StrictWeak better) (a : Nat) : better a a = false := by
  cases h : better a a with
  | false => rfl
  | true => have := sw.asymm a a h; rw [h] at this; cases this

/-- no element is better than its parent -/
def Ord (better : Nat → Nat → Bool) (d : Store) (n : Nat) : Prop :=
  ∀ i, 0 < i → i < n → better (d.get i) (d.get (getParent i)) = false

/-- heap order except for the edge from `k` up to its parent; the children of `k` are already
    no better than `k`'s parent -/
def UpInv (better : Nat → Nat → Bool) (d : Store) (n k : Nat) : Prop :=
  (∀ i, 0 < i → i < n → i ≠ k → better (d.get i) (d.get (getParent i)) = false) ∧
  (∀ c, 0 < c → c < n → getParent c = k → 0 < k → better (d.get c) (d.get (getParent k)) = false)

/-- heap order except for the edges from the children of `k` up to `k`; the children of `k` are
    already no better than `k`'s parent -/
def DownInv (better : Nat → Nat → Bool) (d : Store) (n k : Nat) : Prop :=
  (∀ i, 0 < i → i < n → getParent i ≠ k → better (d.get i) (d.get (getParent i)) = false) ∧
  (∀ c, 0 < c → c < n → getParent c = k → 0 < k → better (d.get c) (d.get (getParent k)) = false)

def swapD (d : Store) (i j : Nat) : Store := (d.set i (d.get j)).set j (d.get i)

theorem get_swapD (d : Store) (i j k : Nat) :
    (swapD d i j).get k = if k = j then d.get i else if k = i then d.get j else d.get k := by
  unfold swapD
  rw [Store.get_set, Store.get_set]

theorem par_lt (i : Nat) (h : 0 < i) : getParent i < i := by unfold getParent; omega
theorem par_eq_iff (i k : Nat) (h : 0 < i) : getParent i = k ↔ i = 2 * k + 1 ∨ i = 2 * k + 2 := by
  unfold getParent; omega

theorem ord_of_upInv_zero {better d n} (h : UpInv better d n 0) : Ord better d n := by
  intro i h0 hn; exact h.1 i h0 hn (by omega)

/-- one iteration of `bubble_up` that swaps -/
theorem upInv_swap {better} (sw : StrictWeak better) (d : Store) (n k : Nat) (hk0 : 0 < k) (hkn : k < n)
    (hinv : UpInv better d n k) (hb : better (d.get k) (d.get (getParent k)) = true) :
    UpInv better (swapD d k (getParent k)) n (getParent k) := by
  have hp := par_lt k hk0
  refine ⟨?_, ?_⟩
  · intro i hi0 hin hip
    rw [get_swapD, get_swapD]
    have hpi := par_lt i hi0
    by_cases hik : i = k
    · subst hik
      rw [if_neg (by omega), if_pos rfl, if_pos rfl]
      exact sw.asymm _ _ hb
    · rw [if_neg hip, if_neg hik]
      by_cases h1 : getParent i = getParent k
      · -- sibling of k
        rw [if_pos h1]
        have e1 := hinv.1 i hi0 hin hik
        rw [h1] at e1
        -- ¬ better d[i] d[k]
        cases hx : better (d.get i) (d.get k) with
        | false => rfl
        | true =>
          have := sw.negTrans _ _ _ e1 (sw.asymm _ _ hb)
          rw [hx] at this; cases this
      · rw [if_neg h1]
        by_cases h2 : getParent i = k
        · rw [if_pos h2]
          exact hinv.2 i hi0 hin h2 hk0
        · rw [if_neg h2]
          exact hinv.1 i hi0 hin hik
  · intro c hc0 hcn hcp hp0
    have hpp := par_lt (getParent k) hp0
    have hc_ne_p : c ≠ getParent k := by have := par_lt c hc0; omega
    have e1 : (swapD d k (getParent k)).get (getParent (getParent k)) = d.get (getParent (getParent k)) := by
      rw [get_swapD, if_neg (by omega), if_neg (by omega)]
    have ep := hinv.1 (getParent k) hp0 (by omega) (by omega)
    rw [e1, get_swapD, if_neg hc_ne_p]
    by_cases hck : c = k
    · rw [if_pos hck]; exact ep
    · rw [if_neg hck]
      have ec := hinv.1 c hc0 hcn hck
      rw [hcp] at ec
      exact sw.negTrans _ _ _ ec ep

/-- `bubble_up` stops: the broken edge is fine after all -/
theorem ord_of_upInv_stop {better d n k} (hinv : UpInv better d n k)
    (hb : better (d.get k) (d.get (getParent k)) = false) : Ord better d n := by
  intro i hi0 hin
  by_cases hik : i = k
  · subst hik; exact hb
  · exact hinv.1 i hi0 hin hik

theorem ord_of_downInv_leaf {better d n k} (hinv : DownInv better d n k) (hleaf : n ≤ 2 * k + 1) :
    Ord better d n := by
  intro i hi0 hin
  apply hinv.1 i hi0 hin
  intro e
  have := (par_eq_iff i k hi0).mp e
  omega

/-- the child that `bubble_down` looks at -/
def pickChild (better : Nat → Nat → Bool) (d : Store) (n k : Nat) : Nat :=
  if 2 * k + 1 + 1 < n ∧ better (d.get (2 * k + 1 + 1)) (d.get (2 * k + 1)) = true then 2 * k + 1 + 1 else 2 * k + 1

theorem pickChild_spec {better} (sw : StrictWeak better) (d : Store) (n k : Nat) (hc : 2 * k + 1 < n) :
    pickChild better d n k < n ∧ getParent (pickChild better d n k) = k ∧ 0 < pickChild better d n k ∧
    (pickChild better d n k = 2 * k + 1 ∨ pickChild better d n k = 2 * k + 2) ∧
    ∀ c', 0 < c' → c' < n → getParent c' = k → better (d.get c') (d.get (pickChild better d n k)) = false := by
  unfold pickChild
  by_cases h : 2 * k + 1 + 1 < n ∧ better (d.get (2 * k + 1 + 1)) (d.get (2 * k + 1)) = true
  · rw [if_pos h]
    refine ⟨h.1, by unfold getParent; omega, by omega, Or.inr rfl, ?_⟩
    intro c' h0 hn hp
    rcases (par_eq_iff c' k h0).mp hp with e | e
    · subst e; exact sw.asymm _ _ h.2
    · subst e; exact sw.irrefl _
  · rw [if_neg h]
    refine ⟨hc, by unfold getParent; omega, by omega, Or.inl rfl, ?_⟩
    intro c' h0 hn hp
    rcases (par_eq_iff c' k h0).mp hp with e | e
    · subst e; exact sw.irrefl _
    · subst e
      cases hx : better (d.get (2 * k + 2)) (d.get (2 * k + 1)) with
      | false => rfl
      | true => exact absurd ⟨hn, hx⟩ h

/-- `bubble_down` stops because the better child is not better than `k` -/
theorem ord_of_downInv_stop {better} (sw : StrictWeak better) {d n k} (hinv : DownInv better d n k)
    (hc : 2 * k + 1 < n) (hb : better (d.get (pickChild better d n k)) (d.get k) = false) :
    Ord better d n := by
  obtain ⟨_, _, _, _, hbest⟩ := pickChild_spec sw d n k hc
  intro i hi0 hin
  by_cases hp : getParent i = k
  · rw [hp]
    exact sw.negTrans _ _ _ (hbest i hi0 hin hp) hb
  · exact hinv.1 i hi0 hin hp

/-- one iteration of `bubble_down` that swaps -/
theorem downInv_swap {better} (sw : StrictWeak better) (d : Store) (n k : Nat)
    (hinv : DownInv better d n k) (hc : 2 * k + 1 < n)
    (hb : better (d.get (pickChild better d n k)) (d.get k) = true) :
    DownInv better (swapD d k (pickChild better d n k)) n (pickChild better d n k) := by
  obtain ⟨hcn, hcp, hc0, hcv, hbest⟩ := pickChild_spec sw d n k hc
  generalize pickChild better d n k = c at *
  have hkc : k < c := by omega
  refine ⟨?_, ?_⟩
  · intro i hi0 hin hip
    have hpi := par_lt i hi0
    rw [get_swapD, get_swapD]
    by_cases hic : i = c
    · subst hic
      rw [if_pos rfl, hcp, if_neg (by omega), if_pos rfl]
      exact sw.asymm _ _ hb
    · rw [if_neg hic, if_neg hip]
      by_cases hik : i = k
      · subst hik
        rw [if_pos rfl]
        have : getParent i ≠ i := by omega
        rw [if_neg this]
        have hk0 : 0 < i := hi0
        exact hinv.2 c hc0 hcn hcp hk0
      · rw [if_neg hik]
        by_cases hpk : getParent i = k
        · rw [if_pos hpk]
          exact hbest i hi0 hin hpk
        · rw [if_neg hpk]
          exact hinv.1 i hi0 hin hpk
  · intro g hg0 hgn hgp _
    have hpg := par_lt g hg0
    rw [get_swapD, get_swapD, hcp]
    rw [if_neg (by omega), if_neg (by omega), if_neg (by omega), if_pos rfl]
    have := hinv.1 g hg0 hgn (by omega)
    rw [hgp] at this
    exact this

end UsualProofs.C15.HeapP
