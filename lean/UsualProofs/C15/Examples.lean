import UsualProofs.C15.Runs
import UsualProofs.C15.MultiList
/-! Concrete values used by the non-vacuity examples of UsualProofs/Props/C15.lean. -/
namespace UsualProofs.C15.Examples
open Usual.C15 UsualProofs.C15 UsualProofs.C15.Runs
open Usual.C15.HashTab UsualProofs.C15.HT Usual.C15.DList Usual.C15.SHList

/-- nodes 5,6,7,8 with keys 3,1,3,1 appended to head 1 -/
def exKey (x : Nat) : Nat := if x = 6 ∨ x = 8 then 1 else 3
def exDL : Usual.C15.DList.DL :=
  let s := Usual.C15.DList.listInit Usual.C15.DList.empty 1
  [5, 6, 7, 8].foldl (fun s x => Usual.C15.DList.listAppend s 1 x) s


/-- the comparison of the harness's exact mode, and a history on a size-4 table: four keys with
    the same home slot (chain growth), a delete with compaction, a copy-resize, two more inserts -/
def eqCmp (a b : Nat) : Bool := a == b
def exHt : List HtOp :=
  [.ins 0 1 none, .ins 4 2 none, .ins 8 3 none, .ins 12 4 none, .del 4 (some 2), .copy 3,
   .ins 8 5 none, .ins 16 6 (some 6), .del 8 (some 3)]
theorem exHt_valid : ∀ op, op ∈ exHt → op.valid := by
  intro op h
  simp only [exHt, List.mem_cons, List.not_mem_nil, or_false] at h
  rcases h with rfl | rfl | rfl | rfl | rfl | rfl | rfl | rfl | rfl <;> simp [HtOp.valid]


def exL : List LOp := [.app 5, .app 6, .pre 7, .app 8, .rem 6, .sort, .pop, .pre 9]

theorem exL_valid : LValid (leKey exKey) 10 1 [] exL := by
  simp only [exL, LValid, lspec, LOp.ok]
  decide


/-- a second list (head 2: 10, 11) next to `exDL`'s list -/
def exDL2 : DL := [10, 11].foldl (fun s x => listAppend s 2 x) (listInit exDL 2)

def exS : List SOp := [.app 32, .app 48, .move 60, .pre 64, .rem 48, .move 8, .app 80, .pop, .move 150]

theorem exS_valid : SValid 96 0 [] exS := by
  simp only [exS, SValid, sspec, SOp.ok]
  decide


/-- head at 10, nodes at 26, 58 appended, then node 42 prepended -/
def exM : Mem := prepend (append (append (init emptyMem 10) 10 26) 10 58) 10 42

/-- two NULL-terminated runs in one store: 5 → 7 → NULL and 6 → 8 → NULL -/
def exRuns : DL :=
  DList.setNext (DList.setNext (DList.setNext (DList.setNext DList.empty 5 7) 7 0) 6 8) 8 0

/-- an interleaving on three lists (heads 1, 2, 3) -/
def exMulti : List Multi.MOp :=
  [.app 1 5, .app 2 6, .pre 1 8, .app 2 7, .app 3 10, .putAfter 2 6 9, .pop 3, .sort 1, .rem 1 5, .app 1 5,
   .putBefore 2 6 11, .rem 2 11]

theorem exMulti_valid : Multi.MValid (leKey exKey) [1, 2, 3] 9 (fun _ => []) exMulti := by
  apply Multi.MValidB_valid
  decide +kernel

end UsualProofs.C15.Examples
