import UsualProofs.C15.HTchain
import UsualProofs.C15.HTpow
/-! Histories of hash-table operations and the multimap specification they refine. -/
namespace UsualProofs.C15.HT
open Usual.C15 Usual.C15.HashTab UsualProofs.C15.HTdel

/-- the chain invariant for tables of size 2^k: non-empty chain; in every table `used` is the
    number of occupied slots and at most MAX_USED, and every stored pair is reachable from its
    home slot along the probe sequence through occupied slots -/
def HtInv (k : Nat) (h : List Table) : Prop := 1 ≤ k ∧ h ≠ [] ∧ CInv (cycPow k) h

theorem two_le_pow (k : Nat) (hk : 1 ≤ k) : 2 ≤ 2 ^ k := by
  have : 2 ^ 1 ≤ 2 ^ k := Nat.pow_le_pow_right (by omega) hk
  simpa using this

theorem HtInv_create (k : Nat) (hk : 1 ≤ k) : HtInv k [create (2 ^ k)] :=
  ⟨hk, by simp, by rw [CInv_cons]; exact ⟨TInv_create _, fun x hx => by cases hx⟩⟩

inductive HtOp where
  | ins (key val : Nat) (arg : Option Nat)
  | del (key : Nat) (arg : Option Nat)
  | copy (k : Nat)            -- hashtab_copy to size 2^k, the old chain is dropped

/-- one API call; `none` = the C code would spin forever -/
def htStep (cmp : Nat → Nat → Bool) (h : List Table) : HtOp → Option (List Table)
  | .ins key val arg =>
    match HashTab.insert cmp key val arg h with
    | (_, .spin) => none
    | (h', _) => some h'
  | .del key arg => HashTab.delete cmp key arg h
  | .copy k => HashTab.copy h (2 ^ k)

def htRun (cmp : Nat → Nat → Bool) : List Table → List HtOp → Option (List Table)
  | h, [] => some h
  | h, op :: rest =>
    match htStep cmp h op with
    | some h' => htRun cmp h' rest
    | none => none

/-- API contract: stored values are non-NULL, new sizes are powers of two ≥ 2 -/
def HtOp.valid : HtOp → Prop
  | .ins _ val _ => val ≠ 0
  | .del _ _ => True
  | .copy k => 1 ≤ k

/-- the multimap specification, one step (`S` = multiset of stored pairs, as a list up to ~) -/
def SpecRel (cmp : Nat → Nat → Bool) (S : List (Nat × Nat)) : HtOp → List (Nat × Nat) → Prop
  | .ins key val arg, S' =>
    (NoMatch cmp key arg S ∧ S'.Perm ((key, val) :: S)) ∨
    ((∃ v, (key, v) ∈ S ∧ argMatch cmp v arg = true) ∧ S' = S)
  | .del key arg, S' =>
    (NoMatch cmp key arg S ∧ S' = S) ∨ (∃ v, argMatch cmp v arg = true ∧ S.Perm ((key, v) :: S'))
  | .copy _, S' => S'.Perm S

inductive SpecTrace (cmp : Nat → Nat → Bool) : List (Nat × Nat) → List HtOp → List (Nat × Nat) → Prop
  | nil (S) : SpecTrace cmp S [] S
  | cons {S S' S'' op ops} : SpecRel cmp S op S' → SpecTrace cmp S' ops S'' → SpecTrace cmp S (op :: ops) S''

theorem htStep_spec (cmp : Nat → Nat → Bool) (k : Nat) (h : List Table) (hi : HtInv k h) (op : HtOp)
    (hv : op.valid) :
    ∃ h' k', htStep cmp h op = some h' ∧ HtInv k' h' ∧ SpecRel cmp (contents h) op (contents h') := by
  obtain ⟨hk, hne, hc⟩ := hi
  cases op with
  | ins key val arg =>
    obtain ⟨b1, b2, b3, b4, b5⟩ := insert_spec (cycPow k) (two_le_pow k hk) cmp key val arg hv h hne hc
    unfold htStep
    cases hr : HashTab.insert cmp key val arg h with
    | mk h' r =>
      rw [hr] at b1 b2 b3 b4 b5
      cases r with
      | new =>
        refine ⟨h', k, (by simp only [hr]), ⟨hk, b2, b1⟩, Or.inl ?_⟩
        obtain ⟨c1, c2⟩ := b4 rfl
        exact ⟨c2, c1⟩
      | «exists» v =>
        obtain ⟨c1, c2, c3⟩ := b5 v rfl
        refine ⟨h', k, (by simp only [hr]), ⟨hk, b2, b1⟩, Or.inr ⟨⟨v, c2, c3⟩, ?_⟩⟩
        show contents h' = contents h
        have : h' = h := c1
        rw [this]
      | spin => exact absurd rfl b3
  | del key arg =>
    obtain ⟨h', d1, d2, d3, d4⟩ := delete_spec (cycPow k) cmp key arg h hc
    refine ⟨h', k, d1, ⟨hk, ?_, d2⟩, ?_⟩
    · intro e; rw [e] at d3; exact hne (List.length_eq_zero_iff.mp d3.symm)
    · rcases d4 with ⟨nm, e⟩ | ⟨v, hm, hp⟩
      · exact Or.inl ⟨nm, by rw [e]⟩
      · exact Or.inr ⟨v, hm, hp⟩
  | copy k' =>
    obtain ⟨h', e1, e2, e3, e4⟩ := copy_spec (cycPow k') (two_le_pow k' hv) h
    exact ⟨h', k', e1, ⟨hv, e2, e3⟩, e4⟩

theorem htRun_spec (cmp : Nat → Nat → Bool) :
    ∀ (ops : List HtOp) (k : Nat) (h : List Table), HtInv k h → (∀ op, op ∈ ops → op.valid) →
      ∃ h' k', htRun cmp h ops = some h' ∧ HtInv k' h' ∧ SpecTrace cmp (contents h) ops (contents h')
  | [], k, h, hi, _ => ⟨h, k, rfl, hi, SpecTrace.nil _⟩
  | op :: rest, k, h, hi, hv => by
    obtain ⟨h1, k1, e1, i1, s1⟩ := htStep_spec cmp k h hi op (hv op List.mem_cons_self)
    obtain ⟨h2, k2, e2, i2, s2⟩ := htRun_spec cmp rest k1 h1 i1 (fun o ho => hv o (List.mem_cons_of_mem _ ho))
    refine ⟨h2, k2, ?_, i2, SpecTrace.cons s1 s2⟩
    unfold htRun; rw [e1]; exact e2

/-- iterating NEXT_POS `j` times from the slot at cycle position `a` -/
theorem iterate_σ {n : Nat} (C : Cyc n) (a : Nat) (ha : a < n) :
    ∀ j, j < n → (fun p => (p * 5 + 1) &&& (n - 1))^[j] (C.σ a) = C.σ (plus n a j) := by
  intro j
  induction j with
  | zero => intro _; rw [plus_zero a ha]; rfl
  | succ j ih =>
    intro hj
    rw [Function.iterate_succ_apply', ih (by omega)]
    exact C.σ_plus_succ a j ha (by omega)

end UsualProofs.C15.HT
