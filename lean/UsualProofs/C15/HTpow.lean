import UsualProofs.C15.FullCycle
import UsualProofs.C15.HTcyc
/-! For every table size 2^k the probe map p ↦ (5p+1) & (2^k - 1) is one full cycle
    (Hull–Dobell, FullCycle.lean): the `Cyc` structure the per-table proofs are parametrised by. -/
namespace UsualProofs.C15.HT
open UsualProofs.C15.FullCycle

theorem and_mask (k x : Nat) : x &&& (2 ^ k - 1) = x % 2 ^ k := Nat.and_two_pow_sub_one_eq_mod x k

noncomputable def cycIdx (k p : Nat) : Nat :=
  if h : p < 2 ^ k then Classical.choose (X_surj_mod k p h) else 0

theorem cycIdx_spec (k p : Nat) (h : p < 2 ^ k) : cycIdx k p < 2 ^ k ∧ X (cycIdx k p) % 2 ^ k = p := by
  unfold cycIdx; rw [dif_pos h]; exact Classical.choose_spec (X_surj_mod k p h)

noncomputable def cycPow (k : Nat) : Cyc (2 ^ k) where
  σ i := X i % 2 ^ k
  idx := cycIdx k
  σ_lt i := Nat.mod_lt _ (Nat.two_pow_pos k)
  σ_step i := by rw [and_mask]; exact X_succ_mod k i
  σ_per i := X_add_period k i
  idx_lt p hp := (cycIdx_spec k p hp).1
  σ_idx p hp := (cycIdx_spec k p hp).2
  idx_σ i hi := by
    have hp : X i % 2 ^ k < 2 ^ k := Nat.mod_lt _ (Nat.two_pow_pos k)
    exact X_inj_mod k _ _ (cycIdx_spec k _ hp).1 hi (cycIdx_spec k _ hp).2
  and_lt x := by rw [and_mask]; exact Nat.mod_lt _ (Nat.two_pow_pos k)

end UsualProofs.C15.HT
