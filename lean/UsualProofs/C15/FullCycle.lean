import Mathlib.Data.Fintype.EquivFin
import Mathlib.Tactic.Ring
/-! The heap-free part of C15: the hash-table probe sequence `p ↦ (5p+1) mod 2^k` visits every
    slot exactly once per `2^k` steps (Hull–Dobell for a power-of-two modulus).  Everything is
    stated over plain `Nat`: `X n` is the n-fold iterate from 0 without reduction, and the results
    are about `X n % 2 ^ k`. -/
namespace UsualProofs.C15.FullCycle

/-- n-fold iterate of p ↦ 5p+1 starting from 0, over ℕ (no modulus) -/
def X : Nat → Nat
  | 0 => 0
  | n + 1 => 5 * X n + 1

theorem X_succ (n : Nat) : X (n + 1) = 5 * X n + 1 := rfl

/-- closed form: `X n = (5^n - 1) / 4` -/
theorem four_X (n : Nat) : 4 * X n + 1 = 5 ^ n := by
  induction n with
  | zero => rfl
  | succ n ih => rw [Nat.pow_succ, ← ih, X_succ]; omega

theorem X_add (a b : Nat) : X (a + b) = 5 ^ b * X a + X b := by
  induction b with
  | zero => simp [X]
  | succ b ih =>
    rw [← Nat.add_assoc, X_succ, X_succ, ih, Nat.pow_succ, Nat.mul_right_comm]
    generalize 5 ^ b * X a = z
    omega

/-- doubling: `X (2m) = X m * (5^m + 1)`, and `5^m + 1 = 2 * odd` -/
theorem X_double (m : Nat) : X (2 * m) = X m * (2 * X m + 1) * 2 := by
  rw [Nat.two_mul, X_add, ← four_X m]
  ring

theorem X_odd (m : Nat) : X (2 * m + 1) % 2 = 1 := by
  rw [X_succ, X_double]; omega

theorem coprime_two_pow_odd (k x : Nat) : Nat.Coprime (2 ^ k) (2 * x + 1) := by
  apply Nat.Coprime.pow_left
  rw [Nat.Coprime, Nat.gcd_rec]
  have : (2 * x + 1) % 2 = 1 := by omega
  rw [this]; rfl

/-- 2-adic valuation of X n equals that of n, in divisibility form -/
theorem X_dvd (k n : Nat) : 2 ^ k ∣ X n → 2 ^ k ∣ n := by
  induction k generalizing n with
  | zero => intro _; simp
  | succ k ih =>
    intro h
    obtain ⟨m, hm⟩ : ∃ m, n = 2 * m ∨ n = 2 * m + 1 := ⟨n / 2, by omega⟩
    rcases hm with rfl | rfl
    · rw [X_double, Nat.pow_succ] at h
      have h1 : 2 ^ k ∣ X m * (2 * X m + 1) := Nat.dvd_of_mul_dvd_mul_right (by decide) h
      have h2 : 2 ^ k ∣ X m := (coprime_two_pow_odd k (X m)).dvd_of_dvd_mul_right h1
      have h3 : 2 ^ k ∣ m := ih m h2
      rw [Nat.pow_succ, Nat.mul_comm 2 m]
      exact Nat.mul_dvd_mul_right h3 2
    · exfalso
      have h2 : 2 ∣ X (2 * m + 1) :=
        Nat.dvd_trans ⟨2 ^ k, by rw [Nat.pow_succ, Nat.mul_comm]⟩ h
      have := X_odd m
      omega

/-- converse direction, needed for periodicity -/
theorem dvd_X (k n : Nat) : 2 ^ k ∣ n → 2 ^ k ∣ X n := by
  induction k generalizing n with
  | zero => intro _; simp
  | succ k ih =>
    rintro ⟨t, rfl⟩
    have e : 2 ^ (k + 1) * t = 2 * (2 ^ k * t) := by
      rw [Nat.pow_succ, Nat.mul_comm (2 ^ k) 2, Nat.mul_assoc]
    rw [e, X_double, Nat.pow_succ]
    apply Nat.mul_dvd_mul_right
    exact Nat.dvd_trans (ih _ (Nat.dvd_mul_right ..)) (Nat.dvd_mul_right ..)

theorem X_inj_mod_le (k a b : Nat) (hab : a ≤ b) (hb : b < 2 ^ k)
    (h : X a % 2 ^ k = X b % 2 ^ k) : a = b := by
  obtain ⟨d, rfl⟩ := Nat.exists_eq_add_of_le hab
  have e : X (a + d) = 5 ^ a * X d + X a := by rw [Nat.add_comm a d, X_add]
  have h0 : (X (a + d) - X a) % 2 ^ k = 0 := Nat.sub_mod_eq_zero_of_mod_eq h.symm
  rw [e, Nat.add_sub_cancel] at h0
  have h1 : 2 ^ k ∣ 5 ^ a * X d := Nat.dvd_of_mod_eq_zero h0
  have cop : Nat.Coprime (2 ^ k) (5 ^ a) := Nat.Coprime.pow k a (by decide)
  have h2 : 2 ^ k ∣ X d := cop.dvd_of_dvd_mul_left h1
  have h3 : 2 ^ k ∣ d := X_dvd k d h2
  have hd : d < 2 ^ k := by omega
  rcases Nat.eq_zero_or_pos d with hz | hpos
  · omega
  · exact absurd (Nat.le_of_dvd hpos h3) (by omega)

/-- the first 2^k iterates are pairwise distinct modulo 2^k -/
theorem X_inj_mod (k a b : Nat) (ha : a < 2 ^ k) (hb : b < 2 ^ k)
    (h : X a % 2 ^ k = X b % 2 ^ k) : a = b := by
  rcases Nat.le_total a b with hab | hba
  · exact X_inj_mod_le k a b hab hb h
  · exact (X_inj_mod_le k b a hba ha h.symm).symm

/-- ... hence every residue is hit (pigeonhole) -/
theorem X_surj_mod (k p : Nat) (hp : p < 2 ^ k) : ∃ i, i < 2 ^ k ∧ X i % 2 ^ k = p := by
  have hpos : 0 < 2 ^ k := Nat.pos_of_ne_zero (by intro h; omega)
  let f : Fin (2 ^ k) → Fin (2 ^ k) := fun i => ⟨X i.val % 2 ^ k, Nat.mod_lt _ hpos⟩
  have hinj : Function.Injective f := by
    intro a b hab
    apply Fin.ext
    exact X_inj_mod k a.val b.val a.isLt b.isLt (congrArg Fin.val hab)
  obtain ⟨i, hi⟩ := (Finite.injective_iff_surjective.mp hinj) ⟨p, hp⟩
  exact ⟨i.val, i.isLt, congrArg Fin.val hi⟩

/-- periodicity -/
theorem X_add_period (k i : Nat) : X (i + 2 ^ k) % 2 ^ k = X i % 2 ^ k := by
  obtain ⟨c, hc⟩ := dvd_X k (2 ^ k) (Nat.dvd_refl _)
  have e : X (i + 2 ^ k) = X i + 2 ^ k * (c * (4 * X i + 1)) := by
    rw [X_add, ← four_X (2 ^ k), ← Nat.mul_assoc, ← hc]
    ring
  rw [e, Nat.add_mul_mod_self_left]

/-- one step of the real probe function on residues -/
theorem X_succ_mod (k i : Nat) :
    X (i + 1) % 2 ^ k = ((X i % 2 ^ k) * 5 + 1) % 2 ^ k := by
  rw [X_succ]
  have h := Nat.div_add_mod (X i) (2 ^ k)
  have e : 5 * X i + 1 = (X i % 2 ^ k * 5 + 1) + 2 ^ k * (5 * (X i / 2 ^ k)) := by
    rw [Nat.mul_left_comm]
    generalize 2 ^ k * (X i / 2 ^ k) = q at *
    omega
  rw [e, Nat.add_mul_mod_self_left]

end UsualProofs.C15.FullCycle
