import UsualProofs.C15.HTinv
/-! One table: `hashtab_create`, storing into the probed empty slot, and `hashtab_delete`'s
    compaction keep the table invariant and change the stored pairs as specified. -/
namespace UsualProofs.C15.HT
open Usual.C15 Usual.C15.HashTab UsualProofs.C15.HTdel

variable {n : Nat}

theorem contents_create (m : Nat) : tableContents (create m) = [] := by
  rw [tableContents_eq, List.filterMap_eq_nil_iff]
  intro i _
  unfold pairAt create
  simp only [Store.get_empty, if_true]

theorem A_create (C : Cyc n) (m : Nat) : A C (create m) = fun _ => none := by
  funext i
  unfold A create
  simp only [Store.get_empty, if_true, ite_self]

theorem TInv_create (C : Cyc n) : TInv C (create n) :=
  ⟨rfl, by rw [contents_create]; rfl, Nat.zero_le _, by rw [A_create]; exact R_empty n⟩

/-- storing a new pair into the empty slot the probe ended at -/
theorem TInv_put (C : Cyc n) (cmp : Nat → Nat → Bool) (t : Table) (hi : TInv C t) (key val : Nat)
    (arg : Option Nat) (p : Nat) (hpr : probe0 cmp t key arg = .empty p) (hroom : t.used < maxUsed t)
    (hv : val ≠ 0) :
    TInv C (put t p key val) ∧ (tableContents (put t p key val)).Perm ((key, val) :: tableContents t) := by
  obtain ⟨hp, hemp, hpath⟩ := probe0_empty C cmp t hi.size key arg p hpr
  have hperm := contents_put t p key val (by rw [hi.size]; exact hp) hv hemp
  refine ⟨⟨hi.size, ?_, ?_, ?_⟩, hperm⟩
  · rw [hperm.length_eq, List.length_cons, ← hi.used]; rfl
  · show t.used + 1 ≤ maxUsed t; omega
  · have e : put t p key val = put t (C.σ (C.idx p)) key val := by rw [C.σ_idx p hp]
    rw [e, A_put C t hi.size (C.idx p) key val (C.idx_lt p hp) hv]
    exact insert_R n (A C t) (C.idx p) _ (C.idx_lt p hp) (C.idx_lt _ (calcPos_lt C t hi.size key)) hi.reach hpath

/-- the first pair of a freshly chained table -/
theorem TInv_put_fresh (C : Cyc n) (hn : 2 ≤ n) (key val : Nat) (hv : val ≠ 0) :
    TInv C (put (create n) (calcPos (create n) key) key val) ∧
    (tableContents (put (create n) (calcPos (create n) key) key val)).Perm [(key, val)] := by
  have hpr : probe0 (fun _ _ => false) (create n) key none = .empty (calcPos (create n) key) := by
    unfold probe0
    show probe _ _ _ _ n _ = _
    obtain ⟨m, rfl⟩ : ∃ m, n = m + 1 := ⟨n - 1, by omega⟩
    unfold probe
    rw [if_pos (by unfold create; exact Store.get_empty _)]
  have hroom : (create n).used < maxUsed (create n) := by
    show 0 < n * 75 / 100; omega
  have := TInv_put C _ (create n) (TInv_create C) key val none _ hpr hroom hv
  rw [contents_create] at this
  exact this

theorem scan_src (C : Cyc n) (t : Table) (hs : t.size = n) (d : Nat) (hd : d < n) (src : Nat)
    (h : HashTab.scan t (C.σ d) (t.size - 1) (nextPos t (C.σ d)) = some src) :
    ∃ p, p < n ∧ p ≠ d ∧ src = C.σ p ∧ t.vals.get src ≠ 0 := by
  have hn0 : 0 < n := C.pos
  have e0 : nextPos t (C.σ d) = C.σ (plus n d 1) := by
    have := nextPos_σ C t hs d 0 hd hn0
    rwa [plus_zero d hd] at this
  rw [e0, hs, scan_eq C t hs d hd (n - 1) 1 (Nat.le_refl _) (by omega)] at h
  cases hsc : HTdel.scan n (A C t) d 1 (n - 1) with
  | none => rw [hsc] at h; cases h
  | some p =>
    rw [hsc] at h
    simp only [Option.map_some, Option.some.injEq] at h
    obtain ⟨j', a, b, c, _, occ⟩ := scan_some_occ n (A C t) d (n - 1) 1 p hsc
    have hj' : j' < n := by omega
    have hp : p < n := by rw [c]; exact plus_lt n d j' hd hj'
    refine ⟨p, hp, ?_, h.symm, ?_⟩
    · rw [c]; exact plus_ne_self d j' hd a hj'
    · have := occ j' a (Nat.le_refl _)
      rw [← c] at this
      rw [← h]
      exact fun e => this ((A_none_iff C t p hp).mpr e)

/-- the stored pairs through the move loop: all pairs but the one in the hole survive -/
theorem compact_contents (C : Cyc n) :
    ∀ fuel (t : Table) (d : Nat) (t' : Table), t.size = n → d < n →
      HashTab.compact fuel t (C.σ d) = some t' →
      (tableContents t').Perm (exPairs t (C.σ d)) ∧ t'.used = t.used - 1 := by
  intro fuel
  induction fuel with
  | zero => intro t d t' _ _ h; cases h
  | succ fuel ih =>
    intro t d t' hs hd h
    unfold HashTab.compact at h
    split at h
    · next src hsc =>
      obtain ⟨p, hp, hpd, e, _⟩ := scan_src C t hs d hd src hsc
      subst e
      obtain ⟨h1, h2⟩ := ih (moveSlot t (C.σ d) (C.σ p)) p t' hs hp h
      refine ⟨h1.trans ?_, h2⟩
      exact exPairs_moveSlot t (C.σ d) (C.σ p) (by rw [hs]; exact C.σ_lt d) (by rw [hs]; exact C.σ_lt p)
        (fun e => hpd (C.σ_inj hp hd e.symm))
    · cases h
      exact ⟨by rw [contents_clearSlot], rfl⟩

/-- `hashtab_delete` inside one table: the compaction terminates, re-establishes the invariant,
    and removes exactly the pair that was in slot `p` -/
theorem TInv_compact (C : Cyc n) (t : Table) (hi : TInv C t) (p : Nat) (hp : p < n)
    (hocc : t.vals.get p ≠ 0) :
    ∃ t', HashTab.compact t.size t p = some t' ∧ TInv C t' ∧
      (tableContents t).Perm ((t.keys.get p, t.vals.get p) :: tableContents t') := by
  have hd := C.idx_lt p hp
  have ep : p = C.σ (C.idx p) := (C.σ_idx p hp).symm
  obtain ⟨e, he, hemp⟩ := exists_empty C t hi
  have hAd : A C t (C.idx p) ≠ none := by
    intro h; exact hocc (by have := (A_none_iff C t _ hd).mp h; rwa [← ep] at this)
  have hed : e ≠ C.idx p := by intro h; rw [h] at hemp; exact hAd hemp
  have hf := fwd_lt n (C.idx p) e hd he
  obtain ⟨T', hT'⟩ := compact_total n n (A C t) (C.idx p) e hd he hemp hed hf
  have hsim := compact_eq C n t (C.idx p) hi.size hd
  rw [hT', ← ep] at hsim
  rw [hi.size]
  cases hc : HashTab.compact n t p with
  | none => rw [hc] at hsim; cases hsim
  | some t' =>
    rw [hc] at hsim
    simp only [Option.map_some, Option.some.injEq] at hsim
    have hsz : t'.size = n := by rw [compact_size n t p t' hc]; exact hi.size
    have hc' : HashTab.compact n t (C.σ (C.idx p)) = some t' := by rw [← ep]; exact hc
    obtain ⟨hperm, hused⟩ := compact_contents C n t (C.idx p) t' hi.size hd hc'
    rw [← ep] at hperm
    have hsplit := contents_split t p (by rw [hi.size]; exact hp)
    have hpa : pairAt t p = some (t.keys.get p, t.vals.get p) := by unfold pairAt; rw [if_neg hocc]
    rw [hpa] at hsplit
    have hfinal : (tableContents t).Perm ((t.keys.get p, t.vals.get p) :: tableContents t') :=
      hsplit.trans (List.Perm.cons _ hperm.symm)
    refine ⟨t', rfl, ⟨hsz, ?_, ?_, ?_⟩, hfinal⟩
    · have := hfinal.length_eq
      rw [List.length_cons] at this
      have := hi.used
      omega
    · have h1 := hi.room
      have : maxUsed t' = maxUsed t := by unfold maxUsed; rw [hsz, hi.size]
      omega
    · rw [hsim]
      exact delete_R n (A C t) (C.idx p) hd hi.reach T' hT'

end UsualProofs.C15.HT
