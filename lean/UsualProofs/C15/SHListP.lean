import Usual.C15.SHList
import UsualProofs.C15.Ring
/-! SHList (usual/shlist.h): the self-relative offsets represent a ring exactly like absolute
    pointers do; every operation is the corresponding deque operation; moving the whole region
    (memmove) moves the ring with it. -/
namespace UsualProofs.C15.SHListP
open Usual.C15 Usual.C15.SHList UsualProofs.C15.Ring

/-- the list with head at address `l` holds exactly the nodes at addresses `xs`, in order -/
def IsSH (m : Mem) (l : Nat) (xs : List Nat) : Prop := IsList (getNext m) (getPrev m) l xs

theorem toNat_add_sub (a b : Nat) : ((a : Int) + ((b : Int) - (a : Int))).toNat = b := by omega

theorem getNext_setNext (m : Mem) (a b z : Nat) :
    getNext (setNext m a b) z = if z = a then b else getNext m z := by
  unfold getNext setNext
  simp only [IStore.get_set]
  split
  · next h => subst h; exact toNat_add_sub z b
  · rfl

theorem getPrev_setNext (m : Mem) (a b z : Nat) : getPrev (setNext m a b) z = getPrev m z := rfl
theorem getNext_setPrev (m : Mem) (a b z : Nat) : getNext (setPrev m a b) z = getNext m z := rfl

theorem getPrev_setPrev (m : Mem) (a b z : Nat) :
    getPrev (setPrev m a b) z = if z = a then b else getPrev m z := by
  unfold getPrev setPrev
  simp only [IStore.get_set]
  split
  · next h => subst h; exact toNat_add_sub z b
  · rfl

theorem getNext_init (m : Mem) (l z : Nat) : getNext (init m l) z = if z = l then l else getNext m z := by
  unfold getNext init
  simp only [IStore.get_set]
  split
  · next h => subst h; simp
  · rfl

theorem getPrev_init (m : Mem) (l z : Nat) : getPrev (init m l) z = if z = l then l else getPrev m z := by
  unfold getPrev init
  simp only [IStore.get_set]
  split
  · next h => subst h; simp
  · rfl

theorem init_isSH (m : Mem) (l : Nat) : IsSH (init m l) l [] := by
  unfold IsSH; rw [isList_nil_iff, getNext_init, getPrev_init]; simp

/-- shlist_append -/
theorem append_isSH (m : Mem) (l : Nat) (xs : List Nat) (x : Nat) (h : IsSH m l xs) (hx : x ∉ l :: xs) :
    IsSH (append m l x) l (xs ++ [x]) := by
  unfold IsSH at h ⊢
  have hlast : getPrev m l = (l :: xs).getLast (by simp) := isList_prev_head h
  have hxl : x ≠ l := fun e => hx (by simp [e])
  have hxu : x ≠ getPrev m l := by
    rw [hlast]; intro e; exact hx (e ▸ List.getLast_mem _)
  have := isList_insert (nx' := getNext (append m l x)) (pv' := getPrev (append m l x))
    l xs [] (l :: xs).dropLast [] (getPrev m l) l x (by simpa using h) (by simpa using hx)
    (by rw [hlast]; exact (List.dropLast_concat_getLast (by simp)).symm) (by simp)
    (by
      intro z
      unfold append
      simp only [getNext_setPrev, getNext_setNext])
    (by
      intro z
      unfold append
      simp only [getPrev_setPrev, getPrev_setNext])
  simpa using this

/-- shlist_prepend -/
theorem prepend_isSH (m : Mem) (l : Nat) (xs : List Nat) (x : Nat) (h : IsSH m l xs) (hx : x ∉ l :: xs) :
    IsSH (prepend m l x) l (x :: xs) := by
  unfold IsSH at h ⊢
  have hfirst : getNext m l = (xs ++ [l]).head (by simp) := isList_next_head h
  have hxl : x ≠ l := fun e => hx (by simp [e])
  have hxv : x ≠ getNext m l := by
    rw [hfirst]; intro e
    have : (xs ++ [l]).head (by simp) ∈ xs ++ [l] := List.head_mem _
    rw [← e] at this
    simp at this
    rcases this with h' | h'
    · exact hx (List.mem_cons_of_mem _ h')
    · exact hxl h'
  have := isList_insert (nx' := getNext (prepend m l x)) (pv' := getPrev (prepend m l x))
    l [] xs [] (xs ++ [l]).tail l (getNext m l) x (by simpa using h) (by simpa using hx)
    (by simp) (by rw [hfirst]; exact (List.cons_head_tail (by simp)).symm)
    (by
      intro z
      unfold prepend
      simp only [getNext_setPrev, getNext_setNext])
    (by
      intro z
      unfold prepend
      simp only [getPrev_setPrev, getPrev_setNext])
  simpa using this

/-- shlist_remove of a member -/
theorem remove_isSH (m : Mem) (l : Nat) (A B : List Nat) (x : Nat) (h : IsSH m l (A ++ x :: B)) :
    IsSH (remove m x) l (A ++ B) ∧ IsSH (remove m x) x [] := by
  have eA : l :: A = (l :: A).dropLast ++ [(l :: A).getLast (by simp)] :=
    (List.dropLast_concat_getLast (by simp)).symm
  have eB : B ++ [l] = (B ++ [l]).head (by simp) :: (B ++ [l]).tail :=
    (List.cons_head_tail (by simp)).symm
  obtain ⟨hnx, hpx⟩ := isList_nbrs l A B _ _ _ _ x h eA eB
  have := isList_remove (nx' := getNext (remove m x)) (pv' := getPrev (remove m x)) l A B _ _ _ _ x h eA eB
    (by
      intro z
      unfold remove
      simp only [getNext_init, getNext_setNext, getNext_setPrev, hnx, hpx])
    (by
      intro z
      unfold remove
      simp only [getPrev_init, getPrev_setNext, getPrev_setPrev, hnx, hpx])
  refine ⟨this.1, ?_⟩
  unfold IsSH; rw [isList_nil_iff]; exact ⟨this.2.1, this.2.2.1⟩

/-- shlist_remove of an initialised node that is in no list changes no pointer -/
theorem remove_detached (m : Mem) (x : Nat) (h : IsSH m x []) (z : Nat) :
    getNext (remove m x) z = getNext m z ∧ getPrev (remove m x) z = getPrev m z := by
  have ⟨e1, e2⟩ := (isList_nil_iff _ _ x).mp h
  unfold remove
  simp only [getNext_init, getNext_setNext, getNext_setPrev, getPrev_init, getPrev_setNext, getPrev_setPrev, e1, e2]
  constructor <;> (split <;> simp_all)

theorem frame (m m' : Mem) (l : Nat) (xs : List Nat) (h : IsSH m l xs)
    (hn : ∀ z, z ∈ l :: xs → getNext m' z = getNext m z) (hp : ∀ z, z ∈ l :: xs → getPrev m' z = getPrev m z) :
    IsSH m' l xs := isList_frame l xs h hn hp

theorem walkNext_eq (m : Mem) (l : Nat) : ∀ fuel p, walkNext m l fuel p = walk (getNext m) l fuel p
  | 0, _ => rfl
  | fuel + 1, p => by unfold walkNext walk; rw [walkNext_eq m l fuel]

theorem walkPrev_eq (m : Mem) (l : Nat) : ∀ fuel p, walkPrev m l fuel p = walk (getPrev m) l fuel p
  | 0, _ => rfl
  | fuel + 1, p => by unfold walkPrev walk; rw [walkPrev_eq m l fuel]

theorem toList_eq {m : Mem} {l : Nat} {xs : List Nat} (h : IsSH m l xs) (fuel : Nat) (hf : xs.length ≤ fuel) :
    toList m l fuel = xs ∧ toListRev m l fuel = xs.reverse := by
  unfold toList toListRev
  rw [walkNext_eq, walkPrev_eq]
  exact ⟨walk_next_isList h fuel hf, walk_prev_isList h fuel hf⟩

/-- shlist_empty tests exactly emptiness (addresses are non-zero) -/
theorem empty_iff {m : Mem} {l : Nat} {xs : List Nat} (h : IsSH m l xs) (hl : 0 < l) :
    isEmpty m l = true ↔ xs = [] := by
  rw [← isList_empty_iff h]
  unfold isEmpty getNext
  rw [beq_iff_eq]
  constructor
  · intro e; rw [e]; simp
  · intro e; omega

theorem first_eq {m : Mem} {l : Nat} {xs : List Nat} (h : IsSH m l xs) (hl : 0 < l) : first m l = xs.head? := by
  unfold first
  cases xs with
  | nil => rw [if_pos ((empty_iff h hl).mpr rfl)]; rfl
  | cons x r =>
    have : ¬ isEmpty m l = true := fun e => by have := (empty_iff h hl).mp e; cases this
    rw [if_neg this]
    have : getNext m l = x := h.1.1.1
    rw [this]; rfl

theorem last_eq {m : Mem} {l : Nat} {xs : List Nat} (h : IsSH m l xs) (hl : 0 < l) : last m l = xs.getLast? := by
  unfold last
  cases xs with
  | nil => rw [if_pos ((empty_iff h hl).mpr rfl)]; rfl
  | cons x r =>
    have : ¬ isEmpty m l = true := fun e => by have := (empty_iff h hl).mp e; cases this
    rw [if_neg this, isList_prev_head h]
    simp [List.getLast?_eq_some_getLast]

/-- shlist_pop -/
theorem pop_isSH (m : Mem) (l : Nat) (xs : List Nat) (h : IsSH m l xs) (hl : 0 < l) :
    (pop m l).2 = xs.head? ∧ IsSH (pop m l).1 l xs.tail := by
  unfold pop
  rw [first_eq h hl]
  cases xs with
  | nil => exact ⟨rfl, h⟩
  | cons x r =>
    simp only [List.head?_cons, List.tail_cons, true_and]
    have := (remove_isSH m l [] r x (by simpa using h)).1
    simpa using this

/-! ### relocation of the whole region -/

theorem relocate_get (m : Mem) (old new : Nat) : ∀ (len k : Nat), k < len →
    (relocate m old len new).next.get (new + k) = m.next.get (old + k) ∧
    (relocate m old len new).prev.get (new + k) = m.prev.get (old + k) := by
  intro len
  unfold relocate
  induction len with
  | zero => intro k hk; omega
  | succ n ih =>
    intro k hk
    rw [List.range_succ, List.foldl_append]
    simp only [List.foldl_cons, List.foldl_nil, IStore.get_set]
    by_cases e : k = n
    · subst e; simp
    · have h1 : ¬ new + k = new + n := by omega
      simp only [h1, if_false]
      exact ih k (by omega)

theorem linked_map {nx pv nx' pv' : Nat → Nat} (f : Nat → Nat) : ∀ (path : List Nat),
    (∀ z, z ∈ path.dropLast → nx' (f z) = f (nx z)) → (∀ z, z ∈ path.tail → pv' (f z) = f (pv z)) →
    Linked nx pv path → Linked nx' pv' (path.map f)
  | [], _, _, _ => trivial
  | [_], _, _, _ => trivial
  | a :: b :: r, h1, h2, h => by
    obtain ⟨⟨e1, e2⟩, hr⟩ := h
    refine ⟨⟨?_, ?_⟩, ?_⟩
    · rw [h1 a (by simp [List.dropLast]), e1]
    · rw [h2 b (by simp), e2]
    · apply linked_map f (b :: r) _ _ hr
      · intro z hz; exact h1 z (by simp only [List.dropLast_cons_cons]; exact List.mem_cons_of_mem _ hz)
      · intro z hz; exact h2 z (by simp only [List.tail_cons] at hz ⊢; exact List.mem_cons_of_mem _ hz)

theorem linked_closed {nx pv : Nat → Nat} : ∀ (path : List Nat), Linked nx pv path →
    (∀ z, z ∈ path.dropLast → nx z ∈ path.tail) ∧ (∀ z, z ∈ path.tail → pv z ∈ path.dropLast)
  | [], _ => ⟨fun _ h => (by cases h), fun _ h => (by cases h)⟩
  | [_], _ => ⟨fun _ h => (by cases h), fun _ h => (by cases h)⟩
  | a :: b :: r, h => by
    obtain ⟨⟨e1, e2⟩, hr⟩ := h
    obtain ⟨i1, i2⟩ := linked_closed (b :: r) hr
    constructor
    · intro z hz
      simp only [List.dropLast_cons_cons, List.mem_cons] at hz
      rcases hz with e | e
      · rw [e, e1]; simp
      · have := i1 z e
        simp only [List.tail_cons] at this ⊢
        exact List.mem_cons_of_mem _ this
    · intro z hz
      simp only [List.tail_cons, List.mem_cons] at hz
      rcases hz with e | e
      · rw [e, e2]; simp [List.dropLast_cons_cons]
      · have := i2 z (by simpa using e)
        simp only [List.dropLast_cons_cons]
        exact List.mem_cons_of_mem _ this

/-- in a ring, the pointers of member nodes (and of the head) point to member nodes (or the head) -/
theorem isList_closed {nx pv : Nat → Nat} {l : Nat} {xs : List Nat} (h : IsList nx pv l xs) :
    ∀ z, z ∈ l :: xs → nx z ∈ l :: xs ∧ pv z ∈ l :: xs := by
  obtain ⟨c1, c2⟩ := linked_closed _ h.1
  have e1 : (l :: xs ++ [l]).dropLast = l :: xs := List.dropLast_concat
  have e2 : (l :: xs ++ [l]).tail = xs ++ [l] := rfl
  have sub : ∀ w, w ∈ xs ++ [l] → w ∈ l :: xs := by
    intro w hw
    rcases List.mem_append.mp hw with h' | h'
    · exact List.mem_cons_of_mem _ h'
    · simp at h'; simp [h']
  have sub' : ∀ w, w ∈ l :: xs → w ∈ xs ++ [l] := by
    intro w hw
    rcases List.mem_cons.mp hw with h' | h'
    · simp [h']
    · exact List.mem_append_left _ h'
  intro z hz
  constructor
  · exact sub _ (by rw [← e2]; exact c1 z (by rw [e1]; exact hz))
  · have := c2 z (by rw [e2]; exact sub' z hz)
    rw [e1] at this; exact this

/-- RELOCATION: after `memmove` of the region [old, old+len) to `new`, the list whose head and
    nodes all lie in the region is the same list at the shifted addresses -/
theorem relocate_isSH (m : Mem) (old len new : Nat) (l : Nat) (xs : List Nat) (h : IsSH m l xs)
    (hold : 0 < old) (hreg : ∀ z, z ∈ l :: xs → old ≤ z ∧ z < old + len) :
    IsSH (relocate m old len new) (l - old + new) (xs.map (fun z => z - old + new)) := by
  unfold IsSH at h ⊢
  have hcl := isList_closed h
  -- the shifted pointer of a shifted member is the shifted pointer
  have keyN : ∀ z, z ∈ l :: xs →
      getNext (relocate m old len new) (z - old + new) = getNext m z - old + new := by
    intro z hz
    obtain ⟨h1, h2⟩ := hreg z hz
    obtain ⟨h3, _⟩ := hreg _ (hcl z hz).1
    have e : z - old + new = new + (z - old) := by omega
    have g := (relocate_get m old new len (z - old) (by omega)).1
    have e2 : old + (z - old) = z := by omega
    rw [e2] at g
    unfold getNext at h3 ⊢
    rw [e, g]
    omega
  have keyP : ∀ z, z ∈ l :: xs →
      getPrev (relocate m old len new) (z - old + new) = getPrev m z - old + new := by
    intro z hz
    obtain ⟨h1, h2⟩ := hreg z hz
    obtain ⟨h3, _⟩ := hreg _ (hcl z hz).2
    have e : z - old + new = new + (z - old) := by omega
    have g := (relocate_get m old new len (z - old) (by omega)).2
    have e2 : old + (z - old) = z := by omega
    rw [e2] at g
    unfold getPrev at h3 ⊢
    rw [e, g]
    omega
  refine ⟨?_, ?_⟩
  · have := linked_map (nx' := getNext (relocate m old len new)) (pv' := getPrev (relocate m old len new))
      (fun z => z - old + new) (l :: xs ++ [l]) ?_ ?_ h.1
    · simpa using this
    · intro z hz
      have e1 : (l :: xs ++ [l]).dropLast = l :: xs := List.dropLast_concat
      rw [e1] at hz
      exact keyN z hz
    · intro z hz
      have : z ∈ l :: xs := by
        simp only [List.cons_append, List.tail_cons, List.mem_append, List.mem_singleton] at hz
        rcases hz with h' | h'
        · exact List.mem_cons_of_mem _ h'
        · simp [h']
      exact keyP z this
  · have : (l - old + new) :: xs.map (fun z => z - old + new) = (l :: xs).map (fun z => z - old + new) := rfl
    rw [this]
    rw [List.Nodup, List.pairwise_map]
    refine List.Pairwise.imp_of_mem ?_ h.2
    intro a b ha hb hne e
    have := hreg a ha; have := hreg b hb
    omega

end UsualProofs.C15.SHListP
