import UsualProofs.C15.Runs
/-! Several List / StatList heads in one node store: any interleaving of operations on
    different lists; each list refines its own deque, the others are not disturbed. -/
namespace UsualProofs.C15.Multi
open Usual.C15 Usual.C15.DList UsualProofs.C15.Ring UsualProofs.C15.DListP UsualProofs.C15.DSortP
open UsualProofs.C15.SHListP (isList_closed)

/-! ### which nodes an operation writes to -/

theorem prepend_writes (s : DL) (l : Nat) (xs : List Nat) (pos x : Nat) (h : IsL s l xs)
    (hpos : pos ∈ l :: xs) (hxp : x ≠ pos) (z : Nat) (hz : z ∉ x :: l :: xs) :
    (listPrepend s pos x).next.get z = s.next.get z ∧ (listPrepend s pos x).prev.get z = s.prev.get z := by
  have hcl := (isList_closed h pos hpos).1
  have z1 : z ≠ x := fun e => hz (by simp [e])
  have z2 : z ≠ pos := fun e => hz (by rw [e]; exact List.mem_cons_of_mem _ hpos)
  have z3 : z ≠ s.next.get pos := fun e => hz (by rw [e]; exact List.mem_cons_of_mem _ hcl)
  rw [prepend_next, prepend_prev s pos x z hxp, if_neg z2, if_neg z1, if_neg z3, if_neg z1]
  exact ⟨rfl, rfl⟩

theorem append_writes (s : DL) (l : Nat) (xs : List Nat) (pos x : Nat) (h : IsL s l xs)
    (hpos : pos ∈ l :: xs) (hxp : x ≠ pos) (z : Nat) (hz : z ∉ x :: l :: xs) :
    (listAppend s pos x).next.get z = s.next.get z ∧ (listAppend s pos x).prev.get z = s.prev.get z := by
  have hcl := (isList_closed h pos hpos).2
  have z1 : z ≠ x := fun e => hz (by simp [e])
  have z2 : z ≠ pos := fun e => hz (by rw [e]; exact List.mem_cons_of_mem _ hpos)
  have z3 : z ≠ s.prev.get pos := fun e => hz (by rw [e]; exact List.mem_cons_of_mem _ hcl)
  rw [append_next s pos x z hxp, append_prev, if_neg z3, if_neg z1, if_neg z2, if_neg z1]
  exact ⟨rfl, rfl⟩

theorem del_writes (s : DL) (l : Nat) (A B : List Nat) (x : Nat) (h : IsL s l (A ++ x :: B))
    (z : Nat) (hz : z ∉ l :: (A ++ x :: B)) :
    (listDel s x).next.get z = s.next.get z ∧ (listDel s x).prev.get z = s.prev.get z := by
  have hxm : x ∈ l :: (A ++ x :: B) := by simp
  obtain ⟨hn, hp⟩ := isList_closed h x hxm
  have hxp : x ≠ s.prev.get x := by
    obtain ⟨P0, u, eA, _⟩ := list_split l A
    obtain ⟨v, Q0, eB, _⟩ := list_split' l B
    rw [(isList_nbrs l A B P0 Q0 u v x h eA eB).2]
    intro e
    have hu : u ∈ l :: A := by rw [eA]; simp
    have hnd : ((l :: A) ++ x :: B).Nodup := by simpa using h.2
    exact (List.nodup_append.mp hnd).2.2 u hu x (by simp) e.symm
  have z1 : z ≠ x := fun e => hz (e ▸ hxm)
  have z2 : z ≠ s.prev.get x := fun e => hz (e ▸ hp)
  have z3 : z ≠ s.next.get x := fun e => hz (e ▸ hn)
  rw [del_next, del_prev s x z hxp, if_neg z1, if_neg z2, if_neg z1, if_neg z3]
  exact ⟨rfl, rfl⟩

/-! ### the multi-list state and its specification -/

inductive MOp where
  | pre (h x : Nat)                 -- list_prepend / statlist_prepend
  | app (h x : Nat)                 -- list_append / statlist_append
  | rem (h x : Nat)                 -- list_del / statlist_remove
  | pop (h : Nat)                   -- list_pop / statlist_pop
  | sort (h : Nat)                  -- list_sort
  | putAfter (h pos x : Nat)        -- statlist_put_after(list, item, pos)
  | putBefore (h pos x : Nat)       -- statlist_put_before(list, item, pos)

structure MState where
  s : DL
  cnt : Nat → Int                   -- cur_count of the StatList with head id `h`

def setCnt (c : Nat → Int) (h : Nat) (v : Int) : Nat → Int := fun k => if k = h then v else c k

def mstep (le : Nat → Nat → Bool) (fuel : Nat) (st : MState) : MOp → MState
  | .pre h x => let r := statPrepend st.s { head := h, count := st.cnt h } x; ⟨r.1, setCnt st.cnt h r.2.count⟩
  | .app h x => let r := statAppend st.s { head := h, count := st.cnt h } x; ⟨r.1, setCnt st.cnt h r.2.count⟩
  | .rem h x => let r := statRemove st.s { head := h, count := st.cnt h } x; ⟨r.1, setCnt st.cnt h r.2.count⟩
  | .pop h => let r := statPop st.s { head := h, count := st.cnt h }; ⟨r.1, setCnt st.cnt h r.2.1.count⟩
  | .sort h => ⟨DList.listSort le st.s h fuel, st.cnt⟩
  | .putAfter h pos x =>
    let r := statPutAfter st.s { head := h, count := st.cnt h } x pos; ⟨r.1, setCnt st.cnt h r.2.count⟩
  | .putBefore h pos x =>
    let r := statPutBefore st.s { head := h, count := st.cnt h } x pos; ⟨r.1, setCnt st.cnt h r.2.count⟩

def insAfter (pos x : Nat) : List Nat → List Nat
  | [] => []
  | y :: r => if y = pos then y :: x :: r else y :: insAfter pos x r

def insBefore (pos x : Nat) : List Nat → List Nat
  | [] => []
  | y :: r => if y = pos then x :: y :: r else y :: insBefore pos x r

def MOp.head : MOp → Nat
  | .pre h _ | .app h _ | .rem h _ | .pop h | .sort h | .putAfter h _ _ | .putBefore h _ _ => h

/-- what the operation does to the sequence of ITS list -/
def MOp.onList (le : Nat → Nat → Bool) : MOp → List Nat → List Nat
  | .pre _ x, xs => x :: xs
  | .app _ x, xs => xs ++ [x]
  | .rem _ x, xs => xs.erase x
  | .pop _, xs => xs.tail
  | .sort _, xs => ListSort.listSort le xs
  | .putAfter _ pos x, xs => insAfter pos x xs
  | .putBefore _ pos x, xs => insBefore pos x xs

/-- the deque specification of the whole store: only the addressed list changes -/
def mspec (le : Nat → Nat → Bool) (R : Nat → List Nat) (op : MOp) : Nat → List Nat :=
  fun k => if k = op.head then op.onList le (R op.head) else R k

/-- representation: every head in `H` has its ring and count, rings are pairwise disjoint -/
structure MRep (H : List Nat) (st : MState) (R : Nat → List Nat) : Prop where
  ring : ∀ h, h ∈ H → IsL st.s h (R h)
  count : ∀ h, h ∈ H → st.cnt h = (R h).length
  disj : ∀ h1 h2, h1 ∈ H → h2 ∈ H → h1 ≠ h2 → ∀ z, z ∈ h1 :: R h1 → z ∉ h2 :: R h2
  nz : ∀ h, h ∈ H → 0 ∉ h :: R h

/-- API contract: the list is one of ours; an inserted item is non-NULL and in no list;
    a removed item / a position is a member of the addressed list -/
def MOp.ok (H : List Nat) (R : Nat → List Nat) (fuel : Nat) : MOp → Prop
  | .pre h x | .app h x => h ∈ H ∧ x ≠ 0 ∧ ∀ k, k ∈ H → x ∉ k :: R k
  | .rem h x => h ∈ H ∧ x ∈ R h
  | .pop h => h ∈ H
  | .sort h => h ∈ H ∧ (R h).length ≤ fuel
  | .putAfter h pos x | .putBefore h pos x => h ∈ H ∧ pos ∈ R h ∧ x ≠ 0 ∧ ∀ k, k ∈ H → x ∉ k :: R k

theorem insAfter_split (pos x : Nat) : ∀ (A B : List Nat), pos ∉ A → insAfter pos x (A ++ pos :: B) = A ++ pos :: x :: B
  | [], B, _ => by simp [insAfter]
  | a :: A, B, h => by
    have : a ≠ pos := fun e => h (by simp [e])
    simp only [List.cons_append, insAfter, if_neg this]
    rw [insAfter_split pos x A B (fun h' => h (List.mem_cons_of_mem _ h'))]

theorem insBefore_split (pos x : Nat) : ∀ (A B : List Nat), pos ∉ A → insBefore pos x (A ++ pos :: B) = A ++ x :: pos :: B
  | [], B, _ => by simp [insBefore]
  | a :: A, B, h => by
    have : a ≠ pos := fun e => h (by simp [e])
    simp only [List.cons_append, insBefore, if_neg this]
    rw [insBefore_split pos x A B (fun h' => h (List.mem_cons_of_mem _ h'))]

/-- first-occurrence split of a member -/
theorem split_first (x : Nat) : ∀ xs : List Nat, x ∈ xs → ∃ A B, xs = A ++ x :: B ∧ x ∉ A
  | [], h => by cases h
  | y :: r, h => by
    by_cases e : y = x
    · exact ⟨[], r, by simp [e], by simp⟩
    · have : x ∈ r := by
        rcases List.mem_cons.mp h with h' | h'
        · exact absurd h'.symm e
        · exact h'
      obtain ⟨A, B, e1, e2⟩ := split_first x r this
      exact ⟨y :: A, B, by simp [e1], by
        intro hm; rcases List.mem_cons.mp hm with h' | h'
        · exact e h'.symm
        · exact e2 h'⟩

/-- ONE STEP on one of several lists: the addressed list follows its deque operation (ring and
    count), every other list is untouched, disjointness is kept -/
theorem mstep_rep (le : Nat → Nat → Bool) (fuel : Nat) (H : List Nat) (st : MState) (R : Nat → List Nat)
    (op : MOp) (hr : MRep H st R) (hv : op.ok H R fuel) :
    MRep H (mstep le fuel st op) (mspec le R op) := by
  -- generic assembly: own ring + writes confined to `W ⊆ x? :: h :: R h` + membership of the new list
  have assemble : ∀ (h : Nat) (s' : DL) (c' : Int) (ys : List Nat) (extra : List Nat),
      h ∈ H → IsL s' h ys → c' = (ys.length : Int) →
      (∀ z, z ∉ extra ++ (h :: R h) → s'.next.get z = st.s.next.get z ∧ s'.prev.get z = st.s.prev.get z) →
      (∀ z, z ∈ ys → z ∈ extra ++ R h) → (∀ z, z ∈ extra → z ≠ 0 ∧ ∀ k, k ∈ H → z ∉ k :: R k) →
      MRep H ⟨s', setCnt st.cnt h c'⟩ (fun k => if k = h then ys else R k) := by
    intro h s' c' ys extra hh hring hcnt hwr hmem hextra
    refine ⟨?_, ?_, ?_, ?_⟩
    · intro k hk
      by_cases e : k = h
      · simp only [e, if_true]; exact hring
      · simp only [e, if_false]
        apply frame st.s s' k (R k) (hr.ring k hk)
        · intro z hz
          refine (hwr z ?_).1
          intro hm
          rcases List.mem_append.mp hm with h' | h'
          · exact (hextra z h').2 k hk hz
          · exact hr.disj k h hk hh e z hz h'
        · intro z hz
          refine (hwr z ?_).2
          intro hm
          rcases List.mem_append.mp hm with h' | h'
          · exact (hextra z h').2 k hk hz
          · exact hr.disj k h hk hh e z hz h'
    · intro k hk
      by_cases e : k = h
      · simp only [setCnt, e, if_true]; exact hcnt
      · simp only [setCnt, e, if_false]; exact hr.count k hk
    · intro h1 h2 k1 k2 hne z hz1 hz2
      -- membership in a (possibly new) ring of head k
      have memk : ∀ k, k ∈ H → ∀ w, w ∈ k :: (if k = h then ys else R k) →
          (w ∈ k :: R k) ∨ (k = h ∧ w ∈ extra) := by
        intro k _ w hw
        by_cases e : k = h
        · simp only [e, if_true] at hw
          rcases List.mem_cons.mp hw with h' | h'
          · left; rw [e, h']; simp
          · rcases List.mem_append.mp (hmem w h') with h'' | h''
            · right; exact ⟨e, h''⟩
            · left; rw [e]; exact List.mem_cons_of_mem _ h''
        · simp only [e, if_false] at hw; exact Or.inl hw
      rcases memk h1 k1 z hz1 with a | ⟨a1, a2⟩ <;> rcases memk h2 k2 z hz2 with b | ⟨b1, b2⟩
      · exact hr.disj h1 h2 k1 k2 hne z a b
      · exact (hextra z b2).2 h1 k1 a
      · exact (hextra z a2).2 h2 k2 b
      · exact hne (a1.trans b1.symm)
    · intro k hk hm
      by_cases e : k = h
      · simp only [e, if_true] at hm
        rcases List.mem_cons.mp hm with h' | h'
        · exact hr.nz h hh (by rw [← h']; simp)
        · rcases List.mem_append.mp (hmem 0 h') with h'' | h''
          · exact (hextra 0 h'').1 rfl
          · exact hr.nz h hh (List.mem_cons_of_mem _ h'')
      · simp only [e, if_false] at hm; exact hr.nz k hk hm
  cases op with
  | pre h x =>
    obtain ⟨hh, hx0, hxf⟩ := hv
    have ring := hr.ring h hh
    have := assemble h (listPrepend st.s h x) (st.cnt h + 1) (x :: R h) [x] hh
      (prepend_isL st.s h (R h) x ring (hxf h hh)) (by rw [hr.count h hh]; simp)
      (fun z hz => prepend_writes st.s h (R h) h x ring (by simp) (fun e => hxf h hh (by simp [e])) z (by simpa using hz))
      (fun z hz => by simpa using hz) (fun z hz => by simp at hz; subst hz; exact ⟨hx0, hxf⟩)
    exact this
  | app h x =>
    obtain ⟨hh, hx0, hxf⟩ := hv
    have ring := hr.ring h hh
    have := assemble h (listAppend st.s h x) (st.cnt h + 1) (R h ++ [x]) [x] hh
      (append_isL st.s h (R h) x ring (hxf h hh)) (by rw [hr.count h hh]; simp)
      (fun z hz => append_writes st.s h (R h) h x ring (by simp) (fun e => hxf h hh (by simp [e])) z (by simpa using hz))
      (fun z hz => by simp at hz ⊢; tauto) (fun z hz => by simp at hz; subst hz; exact ⟨hx0, hxf⟩)
    exact this
  | rem h x =>
    obtain ⟨hh, hxm⟩ := hv
    have ring := hr.ring h hh
    obtain ⟨A, B, e, hxA⟩ := split_first x (R h) hxm
    have he : (R h).erase x = A ++ B := by rw [e, List.erase_append_right _ hxA, List.erase_cons_head]
    have ring' : IsL st.s h (A ++ x :: B) := by rw [← e]; exact ring
    have := assemble h (listDel st.s x) (st.cnt h - 1) ((R h).erase x) [] hh
      (by rw [he]; exact (del_isL st.s h A B x ring').1)
      (by rw [hr.count h hh, he, e]; simp; omega)
      (fun z hz => del_writes st.s h A B x ring' z (by rw [← e]; simpa using hz))
      (fun z hz => by simpa using List.mem_of_mem_erase hz) (fun z hz => by cases hz)
    exact this
  | pop h =>
    have hh : h ∈ H := hv
    have ring := hr.ring h hh
    obtain ⟨p1, p2⟩ := pop_isL st.s h (R h) ring
    have hcnt : (if (listPop st.s h).2 ≠ 0 then ({ head := h, count := st.cnt h - 1 } : SL)
        else { head := h, count := st.cnt h }).count = ((R h).tail.length : Int) := by
      rw [p1]
      cases hR : R h with
      | nil => simp [hr.count h hh, hR]
      | cons y r =>
        have : y ≠ 0 := fun e => hr.nz h hh (by rw [hR]; simp [e])
        simp [this, hr.count h hh, hR]
    have hwr : ∀ z, z ∉ [] ++ (h :: R h) →
        (listPop st.s h).1.next.get z = st.s.next.get z ∧ (listPop st.s h).1.prev.get z = st.s.prev.get z := by
      intro z hz
      unfold listPop
      cases hR : R h with
      | nil =>
        rw [hR] at ring
        rw [if_pos ((empty_iff ring).mpr rfl)]; exact ⟨rfl, rfl⟩
      | cons y r =>
        rw [hR] at ring hz
        have hne : ¬ listEmpty st.s h = true := fun e => by have := (empty_iff ring).mp e; cases this
        rw [if_neg hne]
        have e : st.s.next.get h = y := ring.1.1.1
        rw [e]
        exact del_writes st.s h [] r y (by simpa using ring) z (by simpa using hz)
    exact assemble h (listPop st.s h).1 _ (R h).tail [] hh p2 hcnt hwr
      (fun z hz => by simpa using List.mem_of_mem_tail hz) (fun z hz => by cases hz)
  | sort h =>
    obtain ⟨hh, hf⟩ := hv
    have ring := hr.ring h hh
    have h0 : 0 ∉ R h := fun hm => hr.nz h hh (List.mem_cons_of_mem _ hm)
    have hl0 : h ≠ 0 := fun e => hr.nz h hh (by simp [e])
    obtain ⟨s1, s2⟩ := sort_isL le st.s h (R h) fuel ring hl0 h0 hf
    have := assemble h (DList.listSort le st.s h fuel) (st.cnt h) (ListSort.listSort le (R h)) [] hh s1
      (by rw [hr.count h hh, (Sort.listSort_perm le (R h)).length_eq])
      (fun z hz => s2 z (by simpa using hz))
      (fun z hz => by simpa using (Sort.listSort_perm le (R h)).mem_iff.mp hz) (fun z hz => by cases hz)
    have ec : setCnt st.cnt h (st.cnt h) = st.cnt := by
      funext k; unfold setCnt; split
      · next e => rw [e]
      · rfl
    rw [ec] at this
    exact this
  | putAfter h pos x =>
    obtain ⟨hh, hpm, hx0, hxf⟩ := hv
    have ring := hr.ring h hh
    obtain ⟨A, B, e, hpA⟩ := split_first pos (R h) hpm
    have ring' : IsL st.s h ((A ++ [pos]) ++ B) := by
      have : (A ++ [pos]) ++ B = A ++ pos :: B := by simp
      rw [this, ← e]; exact ring
    have hxn : x ∉ h :: ((A ++ [pos]) ++ B) := by
      have : (A ++ [pos]) ++ B = R h := by rw [e]; simp
      rw [this]; exact hxf h hh
    have own := prepend_at st.s h (A ++ [pos]) B pos x ring' hxn (by simp)
    have hys : insAfter pos x (R h) = (A ++ [pos]) ++ x :: B := by
      rw [e, insAfter_split pos x A B hpA]; simp
    have := assemble h (listPrepend st.s pos x) (st.cnt h + 1) (insAfter pos x (R h)) [x] hh
      (by rw [hys]; exact own) (by rw [hr.count h hh, hys, e]; simp; omega)
      (fun z hz => prepend_writes st.s h (R h) pos x ring (List.mem_cons_of_mem _ hpm)
        (fun e' => hxf h hh (by rw [e']; exact List.mem_cons_of_mem _ hpm)) z (by simpa using hz))
      (fun z hz => by rw [hys] at hz; rw [e]; simp at hz ⊢; tauto)
      (fun z hz => by simp at hz; subst hz; exact ⟨hx0, hxf⟩)
    exact this
  | putBefore h pos x =>
    obtain ⟨hh, hpm, hx0, hxf⟩ := hv
    have ring := hr.ring h hh
    obtain ⟨A, B, e, hpA⟩ := split_first pos (R h) hpm
    have ring' : IsL st.s h (A ++ pos :: B) := by rw [← e]; exact ring
    have hxn : x ∉ h :: (A ++ pos :: B) := by rw [← e]; exact hxf h hh
    have own := append_at st.s h A (pos :: B) pos x ring' hxn (by simp)
    have hys : insBefore pos x (R h) = A ++ x :: pos :: B := by
      rw [e, insBefore_split pos x A B hpA]
    have := assemble h (listAppend st.s pos x) (st.cnt h + 1) (insBefore pos x (R h)) [x] hh
      (by rw [hys]; exact own) (by rw [hr.count h hh, hys, e]; simp; omega)
      (fun z hz => append_writes st.s h (R h) pos x ring (List.mem_cons_of_mem _ hpm)
        (fun e' => hxf h hh (by rw [e']; exact List.mem_cons_of_mem _ hpm)) z (by simpa using hz))
      (fun z hz => by rw [hys] at hz; rw [e]; simp at hz ⊢; tauto)
      (fun z hz => by simp at hz; subst hz; exact ⟨hx0, hxf⟩)
    exact this

def mrun (le : Nat → Nat → Bool) (fuel : Nat) : MState → List MOp → MState
  | st, [] => st
  | st, op :: rest => mrun le fuel (mstep le fuel st op) rest

def mspecRun (le : Nat → Nat → Bool) : (Nat → List Nat) → List MOp → Nat → List Nat
  | R, [] => R
  | R, op :: rest => mspecRun le (mspec le R op) rest

def MValid (le : Nat → Nat → Bool) (H : List Nat) (fuel : Nat) : (Nat → List Nat) → List MOp → Prop
  | _, [] => True
  | R, op :: rest => op.ok H R fuel ∧ MValid le H fuel (mspec le R op) rest

/-- runnable form of the contract (for concrete histories) -/
def MOp.okB (H : List Nat) (R : Nat → List Nat) (fuel : Nat) : MOp → Bool
  | .pre h x | .app h x => decide (h ∈ H) && decide (x ≠ 0) && H.all (fun k => decide (x ∉ k :: R k))
  | .rem h x => decide (h ∈ H) && decide (x ∈ R h)
  | .pop h => decide (h ∈ H)
  | .sort h => decide (h ∈ H) && decide ((R h).length ≤ fuel)
  | .putAfter h pos x | .putBefore h pos x =>
    decide (h ∈ H) && decide (pos ∈ R h) && decide (x ≠ 0) && H.all (fun k => decide (x ∉ k :: R k))

def MValidB (le : Nat → Nat → Bool) (H : List Nat) (fuel : Nat) : (Nat → List Nat) → List MOp → Bool
  | _, [] => true
  | R, op :: rest => op.okB H R fuel && MValidB le H fuel (mspec le R op) rest

theorem okB_ok (H : List Nat) (R : Nat → List Nat) (fuel : Nat) (op : MOp) (h : op.okB H R fuel = true) :
    op.ok H R fuel := by
  cases op <;> simp only [MOp.okB, Bool.and_eq_true, decide_eq_true_eq, List.all_eq_true] at h <;>
    simp only [MOp.ok] <;> tauto

theorem MValidB_valid (le : Nat → Nat → Bool) (H : List Nat) (fuel : Nat) :
    ∀ (ops : List MOp) (R : Nat → List Nat), MValidB le H fuel R ops = true → MValid le H fuel R ops
  | [], _, _ => trivial
  | op :: rest, R, h => by
    simp only [MValidB, Bool.and_eq_true] at h
    exact ⟨okB_ok H R fuel op h.1, MValidB_valid le H fuel rest _ h.2⟩

theorem mrun_rep (le : Nat → Nat → Bool) (fuel : Nat) (H : List Nat) :
    ∀ (ops : List MOp) (st : MState) (R : Nat → List Nat), MRep H st R → MValid le H fuel R ops →
      MRep H (mrun le fuel st ops) (mspecRun le R ops)
  | [], _, _, hr, _ => hr
  | op :: rest, st, R, hr, hv => mrun_rep le fuel H rest _ _ (mstep_rep le fuel H st R op hr hv.1) hv.2

/-- a store in which every head of `H` has just been initialised (`list_init` / `statlist_init`) -/
def minit (H : List Nat) : MState := ⟨H.foldl (fun s h => listInit s h) DList.empty, fun _ => 0⟩

theorem foldl_init_get (H : List Nat) : ∀ (s : DL) (z : Nat),
    (H.foldl (fun s h => listInit s h) s).next.get z = (if z ∈ H then z else s.next.get z) ∧
    (H.foldl (fun s h => listInit s h) s).prev.get z = (if z ∈ H then z else s.prev.get z) := by
  induction H with
  | nil => intro s z; simp
  | cons h r ih =>
    intro s z
    simp only [List.foldl_cons]
    obtain ⟨i1, i2⟩ := ih (listInit s h) z
    rw [i1, i2]
    by_cases e1 : z ∈ r
    · simp [e1]
    · by_cases e2 : z = h
      · subst e2
        have := init_isL s z
        have e := (isList_nil_iff _ _ z).mp this
        simp [e1, e.1, e.2]
      · have := init_frame s h z e2
        simp [e1, e2, this.1, this.2]

theorem minit_rep (H : List Nat) (hnd : H.Nodup) (h0 : 0 ∉ H) : MRep H (minit H) (fun _ => []) := by
  refine ⟨?_, fun _ _ => rfl, ?_, ?_⟩
  · intro h hh
    unfold IsL; rw [isList_nil_iff]
    have := foldl_init_get H DList.empty h
    simp only [hh, if_true] at this
    exact this
  · intro h1 h2 _ _ hne z hz1 hz2
    simp at hz1 hz2; exact hne (hz1.symm.trans hz2)
  · intro h hh hm
    simp at hm; exact h0 (hm ▸ hh)

end UsualProofs.C15.Multi
