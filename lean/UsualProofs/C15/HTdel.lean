/-! Delete-compaction of usual/hashtab-impl.h in probe-cycle coordinates (pure arithmetic).

    Slots are numbered by their position on the probe cycle (NEXT_POS is one n-cycle, see
    FullCycle.lean), so the successor of slot i is i+1 with wrap-around and all distances are
    linear arithmetic.  A table is abstracted to `slot ↦ home slot of the item stored there`.
    Ported from the round-0 prototype probes/lean/HTdel.lean; the only change: a move leaves the
    stale item in the source slot (the new hole), as the C code does. -/
namespace UsualProofs.C15.HTdel

/-- number of probe steps from a to b -/
def fwd (n a b : Nat) : Nat := if a ≤ b then b - a else n - a + b
/-- the slot j steps after d -/
def plus (n d j : Nat) : Nat := if d + j < n then d + j else d + j - n

abbrev Tab := Nat → Option Nat        -- slot ↦ home slot of the item stored there (none = empty)

def upd (t : Tab) (i : Nat) (v : Option Nat) : Tab := fun j => if j = i then v else t j

/-- _hashtab_slot_can_move in closed form: the item's home lies on the way *to* dst -/
def canMove (n : Nat) (t : Tab) (dst src : Nat) : Bool :=
  match t src with
  | some h => decide (fwd n h dst < fwd n h src)
  | none => false

/-- the inner `for` of hashtab_delete: first movable slot after the hole, stop at the first empty slot -/
def scan (n : Nat) (t : Tab) (d : Nat) : Nat → Nat → Option Nat
  | _, 0 => none
  | j, fuel + 1 =>
    let p := plus n d j
    if t p = none then none
    else if canMove n t d p then some p
    else scan n t d (j + 1) fuel

/-- the outer loop: move, continue from the new hole; finally clear the hole -/
def compact (n : Nat) (t : Tab) (d : Nat) : Nat → Option Tab
  | 0 => none                                   -- out of fuel (does not happen with fuel = n)
  | fuel + 1 =>
    match scan n t d 1 (n - 1) with
    | some p => compact n (upd t d (t p)) p fuel
    | none => some (upd t d none)

/-- reachability invariant: every stored item is reached from its home slot through occupied slots -/
def R (n : Nat) (t : Tab) : Prop :=
  ∀ s, s < n → ∀ h, t s = some h → h < n ∧ ∀ q, q < n → fwd n h q < fwd n h s → t q ≠ none

/-- the same, except that slot d is a hole whose content does not count -/
def Rh (n : Nat) (t : Tab) (d : Nat) : Prop :=
  ∀ s, s < n → s ≠ d → ∀ h, t s = some h → h < n ∧ ∀ q, q < n → q ≠ d → fwd n h q < fwd n h s → t q ≠ none

theorem fwd_plus (n d j : Nat) (hd : d < n) (hj : j < n) : fwd n d (plus n d j) = j := by
  unfold fwd plus; split <;> split <;> omega
theorem plus_lt (n d j : Nat) (hd : d < n) (hj : j < n) : plus n d j < n := by
  unfold plus; split <;> omega
theorem plus_fwd (n d s : Nat) (hd : d < n) (hs : s < n) : plus n d (fwd n d s) = s := by
  unfold fwd plus; split <;> split <;> omega
theorem fwd_lt (n a b : Nat) (ha : a < n) (hb : b < n) : fwd n a b < n := by
  unfold fwd; split <;> omega
theorem fwd_eq_zero (n a b : Nat) (ha : a < n) (hb : b < n) : fwd n a b = 0 ↔ a = b := by
  unfold fwd; split <;> omega

/-- cycle geometry: if d lies on the path g → s, then everything strictly between d and s does too -/
theorem between (n g d s q : Nat) (hg : g < n) (hd : d < n) (hs : s < n) (hq : q < n)
    (h1 : fwd n g d < fwd n g s) (h2 : 0 < fwd n d q) (h3 : fwd n d q < fwd n d s) :
    fwd n g q < fwd n g s ∧ q ≠ d := by
  constructor
  · simp only [fwd] at h1 h2 h3 ⊢
    by_cases c1 : g ≤ d <;> by_cases c2 : g ≤ s <;> by_cases c3 : d ≤ q <;> by_cases c4 : d ≤ s <;>
      by_cases c5 : g ≤ q <;> simp only [c1, c2, c3, c4, c5, if_true, if_false] at h1 h2 h3 ⊢ <;> omega
  · intro e; subst e; simp [fwd] at h2

/-- one move keeps the invariant-with-hole, the hole travels to the source slot -/
theorem move_step (n : Nat) (t : Tab) (d p : Nat) (hd : d < n) (hp : p < n) (hne : p ≠ d)
    (hR : Rh n t d) (hmv : canMove n t d p = true) :
    Rh n (upd t d (t p)) p := by
  unfold canMove at hmv
  cases htp : t p with
  | none => simp [htp] at hmv
  | some hh =>
    simp only [htp, decide_eq_true_eq] at hmv
    have hpR := hR p hp hne hh htp
    intro s hs hsp h hts
    simp only [upd] at hts
    by_cases hsd : s = d
    · -- the moved item, now at d
      subst hsd
      simp only [if_true] at hts
      cases hts
      refine ⟨hpR.1, ?_⟩
      intro q hq hqp hlt
      simp only [upd]
      have hqd : q ≠ s := by
        intro e; subst e; omega
      rw [if_neg hqd]
      exact hpR.2 q hq hqd (by omega)
    · rw [if_neg hsd] at hts
      have hsR := hR s hs hsd h hts
      refine ⟨hsR.1, ?_⟩
      intro q hq hqp hlt
      simp only [upd]
      by_cases hqd : q = d
      · rw [if_pos hqd]; simp
      · rw [if_neg hqd]; exact hsR.2 q hq hqd hlt

/-- what `scan = none` means: no reachable occupied slot after the hole is movable -/
theorem scan_none (n : Nat) (t : Tab) (d : Nat) (hd : d < n) :
    ∀ fuel j, scan n t d j fuel = none → ∀ j', j ≤ j' → j' < j + fuel →
      (∀ i, j ≤ i → i < j' → t (plus n d i) ≠ none) → t (plus n d j') ≠ none →
      canMove n t d (plus n d j') = false := by
  intro fuel
  induction fuel with
  | zero => intro j _ j' h1 h2; omega
  | succ fuel ih =>
    intro j hsc j' h1 h2 hocc hj'
    unfold scan at hsc
    simp only at hsc
    by_cases he : j' = j
    · subst he
      rw [if_neg hj'] at hsc
      by_cases hc : canMove n t d (plus n d j') = true
      · rw [if_pos hc] at hsc; cases hsc
      · simpa using hc
    · have hjocc : t (plus n d j) ≠ none := hocc j (Nat.le_refl _) (by omega)
      rw [if_neg hjocc] at hsc
      by_cases hc : canMove n t d (plus n d j) = true
      · rw [if_pos hc] at hsc; cases hsc
      · rw [if_neg hc] at hsc
        exact ih (j + 1) hsc j' (by omega) (by omega) (fun i hi1 hi2 => hocc i (by omega) hi2) hj'

theorem scan_some (n : Nat) (t : Tab) (d : Nat) (hd : d < n) :
    ∀ fuel j p, scan n t d j fuel = some p → j + fuel ≤ n →
      ∃ j', j ≤ j' ∧ j' < j + fuel ∧ p = plus n d j' ∧ canMove n t d p = true := by
  intro fuel
  induction fuel with
  | zero => intro j p h; simp [scan] at h
  | succ fuel ih =>
    intro j p hsc hb
    unfold scan at hsc
    simp only at hsc
    split at hsc
    · cases hsc
    · split at hsc
      · next hc => cases hsc; exact ⟨j, Nat.le_refl _, by omega, rfl, hc⟩
      · obtain ⟨j', a, b, c, e⟩ := ih (j + 1) p hsc (by omega)
        exact ⟨j', by omega, by omega, c, e⟩

/-- when nothing is movable, clearing the hole restores the full invariant -/
theorem clear_step (n : Nat) (t : Tab) (d : Nat) (hd : d < n) (hR : Rh n t d)
    (hsc : scan n t d 1 (n - 1) = none) : R n (upd t d none) := by
  intro s hs h hts
  simp only [upd] at hts
  by_cases hsd : s = d
  · rw [if_pos hsd] at hts; cases hts
  · rw [if_neg hsd] at hts
    have hsR := hR s hs hsd h hts
    refine ⟨hsR.1, ?_⟩
    intro q hq hlt
    simp only [upd]
    by_cases hqd : q = d
    · -- the hole lies on s's path: then s is reachable from the hole and movable — contradiction
      exfalso
      subst hqd
      have hj : fwd n q s < n := fwd_lt n q s hd hs
      have hj0 : 0 < fwd n q s := by
        have := (fwd_eq_zero n q s hd hs); omega
      have hocc : ∀ i, 1 ≤ i → i < fwd n q s → t (plus n q i) ≠ none := by
        intro i hi1 hi2
        have hiq := plus_lt n q i hd (by omega)
        have hfi := fwd_plus n q i hd (by omega)
        have := between n h q s (plus n q i) hsR.1 hd hs hiq hlt (by omega) (by omega)
        exact hsR.2 _ hiq this.2 this.1
      have hts' : t (plus n q (fwd n q s)) ≠ none := by rw [plus_fwd n q s hd hs, hts]; simp
      have := scan_none n t q hd (n - 1) 1 hsc (fwd n q s) (by omega) (by omega) hocc hts'
      rw [plus_fwd n q s hd hs] at this
      unfold canMove at this
      simp only [hts, decide_eq_false_iff_not] at this
      exact this hlt
    · rw [if_neg hqd]; exact hsR.2 q hq hqd hlt

/-- MAIN: hashtab_delete's compaction re-establishes the reachability invariant -/
theorem compact_R (n : Nat) : ∀ fuel (t : Tab) (d : Nat), d < n → Rh n t d →
    ∀ t', compact n t d fuel = some t' → R n t' := by
  intro fuel
  induction fuel with
  | zero => intro t d _ _ t' h; simp [compact] at h
  | succ fuel ih =>
    intro t d hd hR t' h
    unfold compact at h
    split at h
    · next p hsc =>
      obtain ⟨j', a, b, c, e⟩ := scan_some n t d hd (n - 1) 1 p hsc (by omega)
      have hp : p < n := by rw [c]; exact plus_lt n d j' hd (by omega)
      have hne : p ≠ d := by
        intro e'; have := fwd_plus n d j' hd (by omega); rw [← c, e'] at this
        have := (fwd_eq_zero n d d hd hd).mpr rfl; omega
      exact ih _ p hp (move_step n t d p hd hp hne hR e) t' h
    · next hsc => cases h; exact clear_step n t d hd hR hsc

/-- deleting the item at slot d of a table satisfying R -/
theorem delete_R (n : Nat) (t : Tab) (d : Nat) (hd : d < n) (hR : R n t) (t' : Tab)
    (h : compact n t d n = some t') : R n t' := by
  apply compact_R n n t d hd ?_ t' h
  intro s hs _ hh hts
  have := hR s hs hh hts
  exact ⟨this.1, fun q hq _ hlt => this.2 q hq hlt⟩

end UsualProofs.C15.HTdel

namespace UsualProofs.C15.HTdel

/-- a stronger `scan_some`: everything scanned over, and the slot found, is occupied -/
theorem scan_some_occ (n : Nat) (t : Tab) (d : Nat) :
    ∀ fuel j p, scan n t d j fuel = some p →
      ∃ j', j ≤ j' ∧ j' < j + fuel ∧ p = plus n d j' ∧ canMove n t d p = true ∧
        ∀ i, j ≤ i → i ≤ j' → t (plus n d i) ≠ none := by
  intro fuel
  induction fuel with
  | zero => intro j p h; simp [scan] at h
  | succ fuel ih =>
    intro j p hsc
    unfold scan at hsc
    simp only at hsc
    split at hsc
    · cases hsc
    · next hocc =>
      split at hsc
      · next hc =>
        cases hsc
        exact ⟨j, Nat.le_refl _, by omega, rfl, hc, fun i h1 h2 => by
          have : i = j := by omega
          subst this; exact hocc⟩
      · obtain ⟨j', a, b, c, e, f⟩ := ih (j + 1) p hsc
        refine ⟨j', by omega, by omega, c, e, ?_⟩
        intro i h1 h2
        by_cases hij : i = j
        · subst hij; exact hocc
        · exact f i (by omega) h2

/-- the compaction loop terminates: the hole only travels towards the first empty slot -/
theorem compact_total (n : Nat) : ∀ fuel (t : Tab) (d e : Nat), d < n → e < n → t e = none → e ≠ d →
    fwd n d e < fuel → ∃ t', compact n t d fuel = some t' := by
  intro fuel
  induction fuel with
  | zero => intro t d e _ _ _ _ h; omega
  | succ fuel ih =>
    intro t d e hd he hte hne hf
    unfold compact
    split
    · next p hsc =>
      obtain ⟨j', a, b, c, _, occ⟩ := scan_some_occ n t d (n - 1) 1 p hsc
      have hj' : j' < n := by omega
      have hp : p < n := by rw [c]; exact plus_lt n d j' hd hj'
      have hfe : fwd n d e < n := fwd_lt n d e hd he
      have hfe0 : 0 < fwd n d e := by have := fwd_eq_zero n d e hd he; omega
      have hlt : j' < fwd n d e := by
        apply Nat.lt_of_not_le
        intro hle
        have := occ (fwd n d e) (by omega) hle
        rw [plus_fwd n d e hd he] at this
        exact this hte
      have hpe : p ≠ e := by
        intro e'; have := occ j' a (Nat.le_refl _); rw [← c, e'] at this; exact this hte
      apply ih (upd t d (t p)) p e hp he ?_ (fun h => hpe h.symm) ?_
      · simp only [upd, if_neg hne]; exact hte
      · have : fwd n d p = j' := by rw [c]; exact fwd_plus n d j' hd hj'
        have h3 : fwd n p e < fwd n d e := by
          simp only [fwd] at this hlt hf ⊢
          by_cases c1 : d ≤ p <;> by_cases c2 : d ≤ e <;> by_cases c3 : p ≤ e <;>
            simp only [c1, c2, c3, if_true, if_false] at this hlt hf ⊢ <;> omega
        omega
    · exact ⟨_, rfl⟩

/-- inserting into the first empty slot of an item's probe path keeps the reachability invariant -/
theorem insert_R (n : Nat) (t : Tab) (e h : Nat) (he : e < n) (hh : h < n) (hR : R n t)
    (hpath : ∀ q, q < n → fwd n h q < fwd n h e → t q ≠ none) : R n (upd t e (some h)) := by
  intro s hs h' hts
  simp only [upd] at hts
  by_cases hse : s = e
  · subst hse
    rw [if_pos rfl] at hts
    cases hts
    refine ⟨hh, ?_⟩
    intro q hq hlt
    simp only [upd]
    split
    · simp
    · exact hpath q hq hlt
  · rw [if_neg hse] at hts
    have := hR s hs h' hts
    refine ⟨this.1, ?_⟩
    intro q hq hlt
    simp only [upd]
    split
    · simp
    · exact this.2 q hq hlt

theorem R_empty (n : Nat) : R n (fun _ => none) := by
  intro s _ h hts; cases hts

end UsualProofs.C15.HTdel
