import UsualProofs.C15.HTops
/-! The chain of tables: `hashtab_lookup` (with and without insert), `hashtab_delete`,
    `hashtab_copy`, `hashtab_stats` against the multiset of stored pairs. -/
namespace UsualProofs.C15.HT
open Usual.C15 Usual.C15.HashTab UsualProofs.C15.HTdel

variable {n : Nat}

/-- every table of the chain satisfies the table invariant (all tables have size `n`) -/
def CInv (C : Cyc n) (h : List Table) : Prop := ∀ t, t ∈ h → TInv C t

theorem contents_cons (t : Table) (rest : List Table) : contents (t :: rest) = tableContents t ++ contents rest := by
  unfold contents; rw [List.flatMap_cons]

theorem contents_nil : contents [] = [] := rfl

theorem CInv_cons (C : Cyc n) (t : Table) (rest : List Table) : CInv C (t :: rest) ↔ TInv C t ∧ CInv C rest := by
  unfold CInv
  constructor
  · intro h; exact ⟨h t (List.mem_cons_self), fun x hx => h x (List.mem_cons_of_mem _ hx)⟩
  · rintro ⟨h1, h2⟩ x hx
    rcases List.mem_cons.mp hx with e | e
    · rw [e]; exact h1
    · exact h2 x e

/-- no stored pair with this key matches `arg` -/
def NoMatch (cmp : Nat → Nat → Bool) (key : Nat) (arg : Option Nat) (l : List (Nat × Nat)) : Prop :=
  ∀ v, (key, v) ∈ l → argMatch cmp v arg = false

theorem noMatch_of_empty (C : Cyc n) (cmp : Nat → Nat → Bool) (t : Table) (hi : TInv C t) (key : Nat) (arg : Option Nat)
    (p : Nat) (h : probe0 cmp t key arg = .empty p) : NoMatch cmp key arg (tableContents t) := by
  intro v hv
  cases hm : argMatch cmp v arg with
  | false => rfl
  | true =>
    obtain ⟨q, hq⟩ := probe0_complete C cmp t hi key v arg hv hm
    rw [h] at hq; cases hq

theorem NoMatch.append {cmp key arg} {a b : List (Nat × Nat)} (h1 : NoMatch cmp key arg a) (h2 : NoMatch cmp key arg b) :
    NoMatch cmp key arg (a ++ b) := by
  intro v hv
  rcases List.mem_append.mp hv with e | e
  · exact h1 v e
  · exact h2 v e

/-! ### hashtab_lookup without insert -/

theorem lookup_spec (C : Cyc n) (cmp : Nat → Nat → Bool) (key : Nat) (arg : Option Nat) :
    ∀ (h : List Table) (ti : Nat), CInv C h →
      lookup cmp key arg h ti ≠ .spin ∧
      (∀ tj p, lookup cmp key arg h ti = .found tj p →
        ∃ t, ti ≤ tj ∧ h[tj - ti]? = some t ∧ p < n ∧ t.vals.get p ≠ 0 ∧ t.keys.get p = key ∧
          argMatch cmp (t.vals.get p) arg = true ∧ (key, t.vals.get p) ∈ contents h) ∧
      (lookup cmp key arg h ti = .none → NoMatch cmp key arg (contents h)) := by
  intro h
  induction h with
  | nil =>
    intro ti _
    refine ⟨(by intro e; cases e), (by intro tj p e; cases e), fun _ v hv => by cases hv⟩
  | cons t rest ih =>
    intro ti hc
    obtain ⟨ht, hr⟩ := (CInv_cons C t rest).mp hc
    unfold lookup
    cases hp : probe0 cmp t key arg with
    | found p =>
      simp only
      obtain ⟨a1, a2, a3, a4, a5⟩ := probe0_found C cmp t ht.size key arg p hp
      refine ⟨(by intro e; cases e), ?_, (by intro e; cases e)⟩
      intro tj q e
      cases e
      refine ⟨t, Nat.le_refl _, by simp, a1, a2, a3, a4, ?_⟩
      rw [contents_cons]; exact List.mem_append_left _ a5
    | empty p =>
      simp only
      obtain ⟨b1, b2, b3⟩ := ih (ti + 1) hr
      refine ⟨b1, ?_, ?_⟩
      · intro tj q e
        obtain ⟨t', c1, c2, c3⟩ := b2 tj q e
        refine ⟨t', by omega, ?_, c3.1, c3.2.1, c3.2.2.1, c3.2.2.2.1, ?_⟩
        · have : tj - ti = (tj - (ti + 1)) + 1 := by omega
          rw [this, List.getElem?_cons_succ]; exact c2
        · rw [contents_cons]; exact List.mem_append_right _ c3.2.2.2.2
      · intro e
        rw [contents_cons]
        exact (noMatch_of_empty C cmp t ht key arg p hp).append (b3 e)
    | spin => exact absurd hp (probe0_nospin C cmp t ht key arg)

/-! ### hashtab_lookup with insert -/

theorem insert_spec (C : Cyc n) (hn : 2 ≤ n) (cmp : Nat → Nat → Bool) (key val : Nat) (arg : Option Nat)
    (hv : val ≠ 0) :
    ∀ (h : List Table), h ≠ [] → CInv C h →
      CInv C (HashTab.insert cmp key val arg h).1 ∧ (HashTab.insert cmp key val arg h).1 ≠ [] ∧
      (HashTab.insert cmp key val arg h).2 ≠ .spin ∧
      ((HashTab.insert cmp key val arg h).2 = .new →
        (contents (HashTab.insert cmp key val arg h).1).Perm ((key, val) :: contents h) ∧
        NoMatch cmp key arg (contents h)) ∧
      (∀ v, (HashTab.insert cmp key val arg h).2 = .exists v →
        (HashTab.insert cmp key val arg h).1 = h ∧ (key, v) ∈ contents h ∧ argMatch cmp v arg = true) := by
  intro h
  induction h with
  | nil => intro h; exact absurd rfl h
  | cons t rest ih =>
    intro _ hc
    obtain ⟨ht, hr⟩ := (CInv_cons C t rest).mp hc
    cases rest with
    | nil =>
      unfold HashTab.insert
      cases hp : probe0 cmp t key arg with
      | found p =>
        simp only
        obtain ⟨a1, a2, a3, a4, a5⟩ := probe0_found C cmp t ht.size key arg p hp
        refine ⟨hc, (by simp), (by intro e; cases e), (by intro e; cases e), ?_⟩
        intro v e
        cases e
        exact ⟨trivial, (by rw [contents_cons]; exact List.mem_append_left _ a5), a4⟩
      | empty p =>
        simp only
        have hnm : NoMatch cmp key arg (contents [t]) := by
          rw [contents_cons, contents_nil, List.append_nil]
          exact noMatch_of_empty C cmp t ht key arg p hp
        by_cases hfull : t.used ≥ maxUsed t
        · rw [if_pos hfull]
          simp only
          rw [ht.size]
          obtain ⟨f1, f2⟩ := TInv_put_fresh C hn key val hv
          refine ⟨?_, (by simp), (by intro e; cases e), ?_, (by intro v e; cases e)⟩
          · rw [CInv_cons, CInv_cons]; exact ⟨ht, f1, fun x hx => by cases hx⟩
          · intro _
            refine ⟨?_, hnm⟩
            rw [contents_cons, contents_cons, contents_cons, contents_nil, List.append_nil, List.append_nil]
            exact (List.Perm.append_left _ f2).trans (List.perm_append_comm (l₁ := tableContents t) (l₂ := [(key, val)]))
        · rw [if_neg hfull]
          simp only
          obtain ⟨f1, f2⟩ := TInv_put C cmp t ht key val arg p hp (by omega) hv
          refine ⟨?_, (by simp), (by intro e; cases e), ?_, (by intro v e; cases e)⟩
          · rw [CInv_cons]; exact ⟨f1, fun x hx => by cases hx⟩
          · intro _
            refine ⟨?_, hnm⟩
            rw [contents_cons, contents_cons, contents_nil, List.append_nil, List.append_nil]
            exact f2
      | spin => exact absurd hp (probe0_nospin C cmp t ht key arg)
    | cons t2 rest2 =>
      unfold HashTab.insert
      cases hp : probe0 cmp t key arg with
      | found p =>
        simp only
        obtain ⟨a1, a2, a3, a4, a5⟩ := probe0_found C cmp t ht.size key arg p hp
        refine ⟨hc, (by simp), (by intro e; cases e), (by intro e; cases e), ?_⟩
        intro v e
        cases e
        exact ⟨trivial, (by rw [contents_cons]; exact List.mem_append_left _ a5), a4⟩
      | empty p =>
        simp only
        obtain ⟨b1, b2, b3, b4, b5⟩ := ih (by simp) hr
        refine ⟨?_, by simp, b3, ?_, ?_⟩
        · rw [CInv_cons]; exact ⟨ht, b1⟩
        · intro e
          obtain ⟨c1, c2⟩ := b4 e
          refine ⟨?_, ?_⟩
          · rw [contents_cons, contents_cons]
            refine (List.Perm.append_left _ c1).trans ?_
            exact List.perm_middle
          · rw [contents_cons]
            exact (noMatch_of_empty C cmp t ht key arg p hp).append c2
        · intro v e
          obtain ⟨c1, c2, c3⟩ := b5 v e
          exact ⟨by rw [c1], by rw [contents_cons]; exact List.mem_append_right _ c2, c3⟩
      | spin => exact absurd hp (probe0_nospin C cmp t ht key arg)

/-! ### hashtab_delete -/

theorem delete_spec (C : Cyc n) (cmp : Nat → Nat → Bool) (key : Nat) (arg : Option Nat) :
    ∀ (h : List Table), CInv C h →
      ∃ h', delete cmp key arg h = some h' ∧ CInv C h' ∧ h'.length = h.length ∧
        ((NoMatch cmp key arg (contents h) ∧ h' = h) ∨
         (∃ v, argMatch cmp v arg = true ∧ (contents h).Perm ((key, v) :: contents h'))) := by
  intro h
  induction h with
  | nil =>
    intro hc
    exact ⟨[], rfl, hc, rfl, Or.inl ⟨fun v hv => (by cases hv), rfl⟩⟩
  | cons t rest ih =>
    intro hc
    obtain ⟨ht, hr⟩ := (CInv_cons C t rest).mp hc
    unfold delete
    cases hp : probe0 cmp t key arg with
    | found p =>
      simp only
      obtain ⟨a1, a2, a3, a4, _⟩ := probe0_found C cmp t ht.size key arg p hp
      obtain ⟨t', e1, e2, e3⟩ := TInv_compact C t ht p a1 a2
      rw [e1]
      refine ⟨t' :: rest, rfl, ?_, rfl, Or.inr ⟨t.vals.get p, a4, ?_⟩⟩
      · rw [CInv_cons]; exact ⟨e2, hr⟩
      · rw [contents_cons, contents_cons, ← a3]
        exact List.Perm.append_right _ e3
    | empty p =>
      simp only
      obtain ⟨r', d1, d2, d3, d4⟩ := ih hr
      rw [d1]
      refine ⟨t :: r', rfl, ?_, by simp [d3], ?_⟩
      · rw [CInv_cons]; exact ⟨ht, d2⟩
      · rcases d4 with ⟨nm, e⟩ | ⟨v, hm, hperm⟩
        · left
          refine ⟨?_, by rw [e]⟩
          rw [contents_cons]
          exact (noMatch_of_empty C cmp t ht key arg p hp).append nm
        · right
          refine ⟨v, hm, ?_⟩
          rw [contents_cons, contents_cons]
          exact (List.Perm.append_left _ hperm).trans List.perm_middle
    | spin => exact absurd hp (probe0_nospin C cmp t ht key arg)

/-! ### hashtab_stats -/

theorem stats_spec (C : Cyc n) : ∀ (h : List Table), CInv C h →
    (stats h).1 = (contents h).length ∧ (stats h).2 = h.length := by
  intro h
  induction h with
  | nil => intro _; exact ⟨rfl, rfl⟩
  | cons t rest ih =>
    intro hc
    obtain ⟨ht, hr⟩ := (CInv_cons C t rest).mp hc
    obtain ⟨i1, _⟩ := ih hr
    refine ⟨?_, rfl⟩
    unfold stats at i1 ⊢
    simp only [List.map_cons, List.sum_cons] at i1 ⊢
    rw [contents_cons, List.length_append, i1, ht.used]

/-! ### hashtab_copy -/

theorem insert_none_new (C : Cyc n) (hn : 2 ≤ n) (key val : Nat) (hv : val ≠ 0) (acc : List Table)
    (hne : acc ≠ []) (hc : CInv C acc) :
    (HashTab.insert (fun _ _ => false) key val none acc).2 = .new := by
  obtain ⟨_, _, b3, _, b5⟩ := insert_spec C hn (fun _ _ => false) key val none hv acc hne hc
  cases hr : (HashTab.insert (fun _ _ => false) key val none acc).2 with
  | new => rfl
  | «exists» v => have := (b5 v hr).2.2; cases this
  | spin => exact absurd hr b3

theorem copyFrom_spec (C : Cyc n) (hn : 2 ≤ n) (src : Table) :
    ∀ (k i : Nat) (acc : List Table), acc ≠ [] → CInv C acc →
      ∃ acc', copyFrom src k i acc = some acc' ∧ acc' ≠ [] ∧ CInv C acc' ∧
        (contents acc').Perm ((List.range' i k).filterMap (pairAt src) ++ contents acc) := by
  intro k
  induction k with
  | zero =>
    intro i acc hne hc
    exact ⟨acc, rfl, hne, hc, by simp⟩
  | succ k ih =>
    intro i acc hne hc
    unfold copyFrom
    rw [List.range'_succ, List.filterMap_cons]
    by_cases he : src.vals.get i = 0
    · rw [if_pos he]
      have : pairAt src i = none := by unfold pairAt; rw [if_pos he]
      rw [this]
      exact ih (i + 1) acc hne hc
    · rw [if_neg he]
      simp only
      have hnew := insert_none_new C hn (src.keys.get i) (src.vals.get i) he acc hne hc
      obtain ⟨b1, b2, _, b4, _⟩ := insert_spec C hn (fun _ _ => false) (src.keys.get i) (src.vals.get i) none he acc hne hc
      rw [hnew]
      simp only
      obtain ⟨acc', c1, c2, c3, c4⟩ := ih (i + 1) _ b2 b1
      refine ⟨acc', c1, c2, c3, ?_⟩
      have : pairAt src i = some (src.keys.get i, src.vals.get i) := by unfold pairAt; rw [if_neg he]
      rw [this]
      refine c4.trans ?_
      refine (List.Perm.append_left _ (b4 hnew).1).trans ?_
      exact List.perm_middle

theorem copyChain_spec (C : Cyc n) (hn : 2 ≤ n) :
    ∀ (h acc : List Table), acc ≠ [] → CInv C acc →
      ∃ acc', copyChain h acc = some acc' ∧ acc' ≠ [] ∧ CInv C acc' ∧
        (contents acc').Perm (contents h ++ contents acc) := by
  intro h
  induction h with
  | nil => intro acc hne hc; exact ⟨acc, rfl, hne, hc, by simp [contents_nil]⟩
  | cons t rest ih =>
    intro acc hne hc
    unfold copyChain
    obtain ⟨a1, e1, e2, e3, e4⟩ := copyFrom_spec C hn t t.size 0 acc hne hc
    rw [e1]
    simp only
    obtain ⟨a2, f1, f2, f3, f4⟩ := ih a1 e2 e3
    refine ⟨a2, f1, f2, f3, ?_⟩
    rw [← List.range_eq_range', ← tableContents_eq] at e4
    rw [contents_cons]
    refine f4.trans ?_
    refine (List.Perm.append_left _ e4).trans ?_
    rw [← List.append_assoc]
    exact List.Perm.append_right _ List.perm_append_comm

/-- `hashtab_copy(h, newsize)`: a well-formed chain of tables of the new size holding the same pairs -/
theorem copy_spec (C' : Cyc n) (hn : 2 ≤ n) (h : List Table) :
    ∃ h', copy h n = some h' ∧ h' ≠ [] ∧ CInv C' h' ∧ (contents h').Perm (contents h) := by
  unfold copy
  have hc0 : CInv C' [create n] := by
    rw [CInv_cons]; exact ⟨TInv_create C', fun x hx => by cases hx⟩
  obtain ⟨a, e1, e2, e3, e4⟩ := copyChain_spec C' hn h [create n] (by simp) hc0
  refine ⟨a, e1, e2, e3, ?_⟩
  rw [contents_cons, contents_nil, contents_create] at e4
  simpa using e4

end UsualProofs.C15.HT
