import Usual.C15.HashTab
import UsualProofs.C15.HTdel
/-! The probe cycle of one table: `σ i` = the slot reached after `i` probe steps from slot 0,
    `idx` its inverse.  Everything the per-table proofs need from "NEXT_POS is one full cycle"
    (established for every size 2^k in FullCycle.lean / HTpow.lean). -/
namespace UsualProofs.C15.HT
open Usual.C15 Usual.C15.HashTab UsualProofs.C15.HTdel

structure Cyc (n : Nat) where
  σ : Nat → Nat
  idx : Nat → Nat
  σ_lt : ∀ i, σ i < n
  σ_step : ∀ i, σ (i + 1) = (σ i * 5 + 1) &&& (n - 1)
  σ_per : ∀ i, σ (i + n) = σ i
  idx_lt : ∀ p, p < n → idx p < n
  σ_idx : ∀ p, p < n → σ (idx p) = p
  idx_σ : ∀ i, i < n → idx (σ i) = i
  and_lt : ∀ x, x &&& (n - 1) < n

variable {n : Nat}

theorem Cyc.pos (C : Cyc n) : 0 < n := by have := C.σ_lt 0; omega

theorem Cyc.σ_inj (C : Cyc n) {a b : Nat} (ha : a < n) (hb : b < n) (h : C.σ a = C.σ b) : a = b := by
  have := congrArg C.idx h
  rwa [C.idx_σ a ha, C.idx_σ b hb] at this

theorem Cyc.idx_inj (C : Cyc n) {p q : Nat} (hp : p < n) (hq : q < n) (h : C.idx p = C.idx q) : p = q := by
  have := congrArg C.σ h
  rwa [C.σ_idx p hp, C.σ_idx q hq] at this

theorem Cyc.σ_eq_iff (C : Cyc n) {a b : Nat} (ha : a < n) (hb : b < n) : C.σ a = C.σ b ↔ a = b :=
  ⟨C.σ_inj ha hb, fun h => by rw [h]⟩

/-- one NEXT_POS step from the slot `j` steps after `a` is the slot `j+1` steps after `a` -/
theorem Cyc.σ_plus_succ (C : Cyc n) (a j : Nat) (ha : a < n) (hj : j < n) :
    (C.σ (plus n a j) * 5 + 1) &&& (n - 1) = C.σ (plus n a (j + 1)) := by
  rw [← C.σ_step]
  unfold plus
  by_cases h1 : a + j < n
  · rw [if_pos h1]
    by_cases h2 : a + (j + 1) < n
    · rw [if_pos h2]; rfl
    · rw [if_neg h2]
      have : a + j + 1 = (a + (j + 1) - n) + n := by omega
      rw [this, C.σ_per]
  · rw [if_neg h1, if_neg (by omega)]
    congr 1; omega

theorem plus_zero (a : Nat) (ha : a < n) : plus n a 0 = a := by
  unfold plus; rw [if_pos (by omega)]; rfl

theorem plus_ne_self (a j : Nat) (ha : a < n) (h1 : 1 ≤ j) (hj : j < n) : plus n a j ≠ a := by
  unfold plus; split <;> omega

theorem plus_eq_iff (a j b : Nat) (ha : a < n) (hb : b < n) (hj : j < n) : plus n a j = b ↔ j = fwd n a b := by
  unfold plus fwd; split <;> split <;> omega

/-- cyclic order: `b` comes before `h` when walking from `a` iff `a` comes before `b` when walking
    from `h` (three distinct points) -/
theorem cyc_order (a b h : Nat) (ha : a < n) (hb : b < n) (hh : h < n) (hab : a ≠ b) (hah : a ≠ h) (hbh : b ≠ h) :
    fwd n a b < fwd n a h ↔ fwd n h a < fwd n h b := by
  unfold fwd
  by_cases c1 : a ≤ b <;> by_cases c2 : a ≤ h <;> by_cases c3 : h ≤ a <;> by_cases c4 : h ≤ b <;>
    simp only [c1, c2, c3, c4, if_true, if_false] <;> omega

end UsualProofs.C15.HT
