import Usual.C14.Str
/-! Lemmas about the string/memory models of `Usual.C14.Str`. -/
namespace UsualProofs.C14
open Usual.C14

/-! ## generic list facts -/

theorem length_takeWhile_take {α} (p : α → Bool) (l : List α) (n : Nat) :
    ((l.take n).takeWhile p).length = min n (l.takeWhile p).length := by
  induction l generalizing n with
  | nil => simp
  | cons a l ih =>
    cases n with
    | zero => simp
    | succ n =>
      simp only [List.take_succ_cons, List.takeWhile_cons]
      by_cases h : p a = true
      · simp only [h, if_pos, List.length_cons, ih]; omega
      · simp [h]

theorem takeWhile_append_all {α} (p : α → Bool) (x y : List α) (h : ∀ a ∈ x, p a = true) :
    (x ++ y).takeWhile p = x ++ y.takeWhile p := by
  induction x with
  | nil => rfl
  | cons a x ih =>
    have ha : p a = true := h a (by simp)
    simp only [List.cons_append, List.takeWhile_cons, ha, if_pos]
    rw [ih (fun b hb => h b (by simp [hb]))]

theorem dropWhile_append_all {α} (p : α → Bool) (x y : List α) (h : ∀ a ∈ x, p a = true) :
    (x ++ y).dropWhile p = y.dropWhile p := by
  induction x with
  | nil => rfl
  | cons a x ih =>
    have ha : p a = true := h a (by simp)
    simp only [List.cons_append, List.dropWhile_cons, ha, if_pos]
    exact ih (fun b hb => h b (by simp [hb]))

theorem takeWhile_all {α} (p : α → Bool) (x : List α) (h : ∀ a ∈ x, p a = true) :
    x.takeWhile p = x := by
  have := takeWhile_append_all p x [] h
  simpa using this

theorem takeWhile_stop {α} (p : α → Bool) (a : α) (y : List α) (h : p a = false) :
    (a :: y).takeWhile p = [] := by simp [h]

theorem mem_takeWhile {α} (p : α → Bool) (l : List α) : ∀ a ∈ l.takeWhile p, p a = true := by
  induction l with
  | nil => simp
  | cons b l ih =>
    intro a ha
    simp only [List.takeWhile_cons] at ha
    by_cases hb : p b = true
    · simp only [hb, if_pos, List.mem_cons] at ha
      rcases ha with rfl | ha
      · exact hb
      · exact ih a ha
    · simp [hb] at ha

/-- what stops `takeWhile`: the element right after the prefix fails the predicate -/
theorem takeWhile_next {α} (p : α → Bool) (l : List α) (h : (l.takeWhile p).length < l.length) :
    ∃ a, l[(l.takeWhile p).length]? = some a ∧ p a = false := by
  induction l with
  | nil => simp at h
  | cons b l ih =>
    by_cases hb : p b = true
    · simp only [List.takeWhile_cons, hb, if_pos, List.length_cons] at h ⊢
      have := ih (by omega)
      simpa using this
    · refine ⟨b, ?_, by simpa using hb⟩
      simp [hb]

theorem takeWhile_prefix {α} (p : α → Bool) (l : List α) :
    l.takeWhile p = l.take (l.takeWhile p).length := by
  induction l with
  | nil => rfl
  | cons b l ih =>
    by_cases hb : p b = true
    · simp only [List.takeWhile_cons, hb, if_pos, List.length_cons, List.take_succ_cons]
      rw [← ih]
    · simp [hb]

/-! ## cstr -/

theorem length_takeWhile_le' {α} (p : α → Bool) (l : List α) : (l.takeWhile p).length ≤ l.length := by
  induction l with
  | nil => simp
  | cons a l ih =>
    by_cases h : p a = true
    · simp only [List.takeWhile_cons, h, if_pos, List.length_cons]; omega
    · simp [h]

theorem cstr_length_le (s : Bytes) : (cstr s).length ≤ s.length := by
  unfold cstr; exact length_takeWhile_le' _ _

theorem cstr_no_nul (s : Bytes) : ∀ b ∈ cstr s, b ≠ 0 := by
  intro b hb
  unfold cstr at hb
  have := mem_takeWhile _ s b hb
  simpa using this

theorem cstr_of_no_nul (s : Bytes) (h : ∀ b ∈ s, b ≠ 0) : cstr s = s := by
  unfold cstr
  apply takeWhile_all
  intro a ha; simpa using h a ha

theorem cstr_append_nul (s t : Bytes) (h : ∀ b ∈ s, b ≠ 0) : cstr (s ++ 0 :: t) = s := by
  unfold cstr
  rw [takeWhile_append_all _ _ _ (by intro a ha; simpa using h a ha)]
  simp

theorem cstr_take (s : Bytes) : cstr s = s.take (cstr s).length := by
  unfold cstr; exact takeWhile_prefix _ _

/-- a buffer that contains a NUL has a NUL right after its C string -/
theorem cstr_terminated (s : Bytes) (h : 0 ∈ s) : s[(cstr s).length]? = some 0 := by
  have hlt : (cstr s).length < s.length := by
    rcases Nat.lt_or_ge (cstr s).length s.length with h1 | h1
    · exact h1
    · exfalso
      have hle := cstr_length_le s
      have heq : (cstr s).length = s.length := by omega
      have : cstr s = s := by
        have := cstr_take s
        rw [heq, List.take_length] at this; exact this
      exact cstr_no_nul s 0 (by rw [this]; exact h) rfl
  unfold cstr at hlt ⊢
  obtain ⟨a, ha, hp⟩ := takeWhile_next _ s hlt
  have : a = 0 := by simpa using hp
  subst this
  exact ha

/-! ## blit -/

theorem blit_zero (dst src : Bytes) : blit dst 0 src = src ++ dst.drop src.length := by
  simp [blit]

theorem blit_length (dst src : Bytes) (off : Nat) (h : off + src.length ≤ dst.length) :
    (blit dst off src).length = dst.length := by
  simp [blit]; omega

/-! ## strlcpy / strlcat -/

theorem strlcpy_ret (dst src : Bytes) (n : Nat) : (strlcpy dst src n).1 = (cstr src).length := by
  unfold strlcpy; simp only []; repeat' split
  all_goals rfl

theorem strlcpy_buf (dst src : Bytes) (n : Nat) (h0 : 0 < n) :
    (strlcpy dst src n).2 =
      (cstr src).take (n - 1) ++ [0] ++ dst.drop (min (cstr src).length (n - 1) + 1) := by
  unfold strlcpy
  by_cases h1 : (cstr src).length < n
  · simp only [h1, if_pos]
    rw [blit_zero]
    have : List.take (n - 1) (cstr src) = cstr src := List.take_of_length_le (by omega)
    rw [this]
    have : min (cstr src).length (n - 1) = (cstr src).length := by omega
    rw [this]; simp
  · simp only [h1, if_neg, not_false_eq_true, h0, if_pos]
    have hmin : min (cstr src).length (n - 1) = n - 1 := by omega
    have hl : (List.take (n - 1) (cstr src)).length = n - 1 := by simp; omega
    rw [hmin, blit_zero, hl]
    simp only [blit]
    rw [List.take_append_of_le_length (by omega), List.take_of_length_le (by omega)]
    rw [List.drop_append, List.drop_of_length_le (by simp; omega)]
    simp [hl]

theorem strlcpy_zero (dst src : Bytes) : (strlcpy dst src 0).2 = dst := by
  simp [strlcpy]

theorem strlcpy_length (dst src : Bytes) (n : Nat) (hn : n ≤ dst.length) :
    (strlcpy dst src n).2.length = dst.length := by
  rcases Nat.eq_zero_or_pos n with rfl | h0
  · rw [strlcpy_zero]
  · rw [strlcpy_buf dst src n h0]
    simp only [List.length_append, List.length_take, List.length_drop, List.length_cons, List.length_nil]
    omega

theorem scanNul_eq (dst : Bytes) (n : Nat) : scanNul dst n = min n (cstr dst).length := by
  unfold scanNul cstr; exact length_takeWhile_take _ _ _

theorem strnlen_eq (s : Bytes) (m : Nat) : strnlen s m = min m (cstr s).length := by
  unfold strnlen cstr; exact length_takeWhile_take _ _ _

theorem strlcat_ret (dst src : Bytes) (n : Nat) :
    (strlcat dst src n).1 = min n (cstr dst).length + (cstr src).length := by
  unfold strlcat; simp only [strlcpy_ret, scanNul_eq]

/-- no NUL among the first `n` bytes: nothing is written -/
theorem strlcat_full (dst src : Bytes) (n : Nat) (hn : n ≤ dst.length) (h : n ≤ (cstr dst).length) :
    (strlcat dst src n).2 = dst := by
  unfold strlcat
  simp only [scanNul_eq]
  have : min n (cstr dst).length = n := by omega
  rw [this, Nat.sub_self, strlcpy_zero]; simp

/-- `dst` holds a C string shorter than `n`: it is kept, `src` is appended (truncated to the
    `n - 1 - strlen(dst)` bytes that fit), a NUL follows, the rest of the buffer is untouched -/
theorem strlcat_buf (dst src : Bytes) (n : Nat) (h : (cstr dst).length < n) :
    (strlcat dst src n).2 =
      cstr dst ++ (cstr src).take (n - (cstr dst).length - 1) ++ [0] ++
        dst.drop ((cstr dst).length + min (cstr src).length (n - (cstr dst).length - 1) + 1) := by
  unfold strlcat
  simp only [scanNul_eq]
  have hm : min n (cstr dst).length = (cstr dst).length := by omega
  rw [hm, strlcpy_buf _ _ _ (by omega), ← cstr_take]
  simp only [List.drop_drop, List.append_assoc]
  congr 3

theorem strlcat_length (dst src : Bytes) (n : Nat) (hn : n ≤ dst.length) :
    (strlcat dst src n).2.length = dst.length := by
  unfold strlcat
  simp only [List.length_append, List.length_take]
  rw [strlcpy_length _ _ _ (by simp [scanNul_eq]; omega)]
  have := cstr_length_le dst
  simp [scanNul_eq]; omega

/-! ## strpcpy / strpcat -/

theorem strpcpy_eq (dst src : Bytes) (n : Nat) :
    strpcpy dst src n =
      (if (cstr src).length < n then some (cstr src).length else none, (strlcpy dst src n).2) := by
  unfold strpcpy
  by_cases h0 : n = 0
  · subst h0; simp [strlcpy]
  · simp only [h0, if_neg, not_false_eq_true]
    by_cases h1 : (cstr src).length < n
    · simp only [h1, if_pos]; simp [strlcpy, h1]
    · simp only [h1, if_neg, not_false_eq_true]
      rw [strlcpy_buf _ _ _ (by omega), blit_zero]
      have hmin : min (cstr src).length (n - 1) = n - 1 := by omega
      simp [hmin]; omega

theorem strpcat_eq (dst src : Bytes) (n : Nat) :
    strpcat dst src n =
      (if (cstr dst).length < n ∧ (cstr dst).length + (cstr src).length < n
        then some ((cstr dst).length + (cstr src).length) else none,
       (strlcat dst src n).2) := by
  unfold strpcat
  simp only [strnlen_eq]
  by_cases h : (cstr dst).length < n
  · have hm : min n (cstr dst).length = (cstr dst).length := by omega
    have hlt : min n (cstr dst).length < n := by omega
    simp only [hlt, if_pos, strpcpy_eq, hm]
    unfold strlcat
    simp only [scanNul_eq, hm]
    by_cases h2 : (cstr src).length < n - (cstr dst).length
    · have : (cstr dst).length + (cstr src).length < n := by omega
      simp [h2, h, this]; omega
    · have : ¬ (cstr dst).length + (cstr src).length < n := by omega
      simp [h2, this]
      intro hc; omega
  · have hm : min n (cstr dst).length = n := by omega
    simp only [hm, Nat.lt_irrefl, if_false, h, false_and]
    unfold strlcat
    simp [scanNul_eq, hm, strlcpy_zero]

/-! ## mempcpy -/

theorem mempcpy_buf (dst src : Bytes) (n : Nat) (hs : n ≤ src.length) :
    (mempcpy dst src n).2 = src.take n ++ dst.drop n := by
  unfold mempcpy
  rw [blit_zero]; simp [Nat.min_eq_left hs]

/-! ## memrchr -/

theorem memrchrFrom_some (p : Bytes) (ch : Nat) (n i : Nat) :
    memrchrFrom p ch n = some i ↔
      i < n ∧ p.getD i 0 = ch ∧ ∀ j, i < j → j < n → p.getD j 0 ≠ ch := by
  induction n with
  | zero => simp [memrchrFrom]
  | succ n ih =>
    unfold memrchrFrom
    by_cases h : p.getD n 0 = ch
    · simp only [h, if_pos, Option.some.injEq]
      constructor
      · rintro rfl
        exact ⟨by omega, h, fun j h1 h2 => by omega⟩
      · rintro ⟨h1, h2, h3⟩
        rcases Nat.lt_or_ge i n with hlt | hge
        · exact absurd h (h3 n hlt (by omega))
        · omega
    · simp only [h, if_neg, not_false_eq_true, ih]
      constructor
      · rintro ⟨h1, h2, h3⟩
        refine ⟨by omega, h2, fun j hj1 hj2 => ?_⟩
        rcases Nat.lt_or_ge j n with hlt | hge
        · exact h3 j hj1 hlt
        · have : j = n := by omega
          subst this; exact h
      · rintro ⟨h1, h2, h3⟩
        have hin : i ≠ n := by rintro rfl; exact h h2
        exact ⟨by omega, h2, fun j hj1 hj2 => h3 j hj1 (by omega)⟩

theorem memrchrFrom_none (p : Bytes) (ch : Nat) (n : Nat) :
    memrchrFrom p ch n = none ↔ ∀ j, j < n → p.getD j 0 ≠ ch := by
  induction n with
  | zero => simp [memrchrFrom]
  | succ n ih =>
    unfold memrchrFrom
    by_cases h : p.getD n 0 = ch
    · simp only [h, if_pos]
      constructor
      · intro h1; cases h1
      · intro h1; exact absurd h (h1 n (by omega))
    · simp only [h, if_neg, not_false_eq_true, ih]
      constructor
      · intro h1 j hj
        rcases Nat.lt_or_ge j n with hlt | hge
        · exact h1 j hlt
        · have : j = n := by omega
          subst this; exact h
      · intro h1 j hj; exact h1 j (by omega)

theorem ucharOf_lt (c : Int) : ucharOf c < 256 := by
  unfold ucharOf; omega

theorem ucharOf_mod (c : Int) : (ucharOf c : Int) = c % 256 := by
  unfold ucharOf; omega

/-! ## findIdx? / mempbrk / memspn -/

theorem findIdx?_some {α} (p : α → Bool) (l : List α) (i : Nat) :
    l.findIdx? p = some i ↔
      (∃ a, l[i]? = some a ∧ p a = true) ∧ ∀ j, j < i → ∀ b, l[j]? = some b → p b = false := by
  induction l generalizing i with
  | nil => simp
  | cons x l ih =>
    rw [List.findIdx?_cons]
    by_cases hx : p x = true
    · simp only [hx, if_pos, Option.some.injEq]
      constructor
      · rintro rfl
        exact ⟨⟨x, by simp, hx⟩, fun j hj => by omega⟩
      · rintro ⟨_, h2⟩
        rcases Nat.eq_zero_or_pos i with h0 | h0
        · exact h0.symm
        · have := h2 0 h0 x (by simp)
          rw [hx] at this; cases this
    · have hx' : p x = false := by simpa using hx
      simp only [hx', Bool.false_eq_true, if_false, Option.map_eq_some_iff]
      constructor
      · rintro ⟨k, hk, rfl⟩
        obtain ⟨⟨a, ha1, ha2⟩, hmin⟩ := (ih k).mp hk
        refine ⟨⟨a, by simpa using ha1, ha2⟩, fun j hj b hb => ?_⟩
        cases j with
        | zero => simp at hb; subst hb; exact hx'
        | succ j => exact hmin j (by omega) b (by simpa using hb)
      · rintro ⟨⟨a, ha1, ha2⟩, hmin⟩
        cases i with
        | zero => simp at ha1; subst ha1; rw [hx'] at ha2; cases ha2
        | succ k =>
          refine ⟨k, (ih k).mpr ⟨⟨a, by simpa using ha1, ha2⟩, fun j hj b hb => ?_⟩, rfl⟩
          exact hmin (j + 1) (by omega) b (by simpa using hb)

theorem findIdx?_none {α} (p : α → Bool) (l : List α) :
    l.findIdx? p = none ↔ ∀ a ∈ l, p a = false := by
  simp [List.findIdx?_eq_none_iff]

end UsualProofs.C14
