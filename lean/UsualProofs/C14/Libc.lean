import Usual.C14.Libc
import UsualProofs.C14.Str
/-! `cx_vasprintf` two-pass logic, `getline`, `mbsnrtowcs`, days-from-civil. -/
namespace UsualProofs.C14
open Usual.C14

/-! ## cx_vasprintf -/

/-- for output of ANY length the result is the complete text plus the terminator and the return
    value is its length (both sides of the 128-byte boundary) -/
theorem cxVasprintf_eq (out : Bytes) : cxVasprintf out = ((out.length : Int), some (out ++ [0])) := by
  unfold cxVasprintf vsnprintf vaBuf
  simp only [show ¬ (128 = 0) by decide, if_false, Nat.add_sub_cancel]
  by_cases h : out.length < 128
  · simp only [h, if_pos]
    have h1 : List.take (128 - 1) out = out := List.take_of_length_le (by omega)
    rw [h1]
    have h2 : List.take (out.length + 1) (out ++ [0]) = out ++ [0] :=
      List.take_of_length_le (by simp)
    rw [h2]
  · simp only [h, if_false]
    have h3 : ¬ (out.length + 1 = 0) := by omega
    simp [h3]

/-- the unrepaired code: as soon as the text needs the second pass (≥ 128 bytes) the result
    depends on what the consumed `va_list` yields — e.g. an empty second text gives -1/NULL -/
theorem cxVasprintfOld_wrong (out : Bytes) (h : 128 ≤ out.length) :
    cxVasprintfOld out [] = (-1, none) := by
  unfold cxVasprintfOld vsnprintf vaBuf
  have h1 : ¬ out.length < 128 := by omega
  have h2 : ¬ (0 = out.length) := by omega
  simp [h1, h2]

/-! ## getline -/

theorem nextLine_prefix (file : Bytes) : file = nextLine file ++ file.drop (nextLine file).length := by
  induction file with
  | nil => rfl
  | cons c r ih =>
    by_cases h : c = 10
    · subst h; simp [nextLine]
    · have : nextLine (c :: r) = c :: nextLine r := by simp [nextLine, h]
      rw [this]
      simp only [List.cons_append, List.length_cons, List.drop_succ_cons]
      rw [← ih]

theorem nextLine_nil_iff (file : Bytes) : nextLine file = [] ↔ file = [] := by
  cases file with
  | nil => simp [nextLine]
  | cons c r =>
    by_cases h : c = 10
    · subst h; simp [nextLine]
    · have : nextLine (c :: r) = c :: nextLine r := by simp [nextLine, h]
      simp [this]

/-- a newline can only be the last byte of the line, and the line ends with one unless the
    file ended -/
theorem nextLine_newline (file : Bytes) :
    (∀ b ∈ (nextLine file).dropLast, b ≠ 10) ∧
    ((nextLine file).length < file.length → (nextLine file).getLast? = some 10) := by
  induction file with
  | nil => simp [nextLine]
  | cons c r ih =>
    by_cases h : c = 10
    · subst h; simp [nextLine]
    · have hn : nextLine (c :: r) = c :: nextLine r := by simp [nextLine, h]
      rw [hn]
      constructor
      · intro b hb
        cases hl : nextLine r with
        | nil => rw [hl] at hb; simp at hb
        | cons x xs =>
          rw [hl, List.dropLast_cons₂] at hb
          simp only [List.mem_cons] at hb
          rcases hb with rfl | hb
          · exact h
          · exact ih.1 b (by rw [hl]; exact hb)
      · intro hlt
        simp only [List.length_cons] at hlt
        have := ih.2 (by omega)
        cases hl : nextLine r with
        | nil => rw [hl] at this; simp at this
        | cons x xs => rw [hl] at this; simp [List.getLast?_cons_cons, this]

theorem growCap_ge (f size need : Nat) (h : need ≤ size * 2 ^ f) : need ≤ growCap f size need := by
  induction f generalizing size with
  | zero => simpa [growCap] using h
  | succ f ih =>
    unfold growCap
    by_cases hc : need ≤ size
    · simp [hc]
    · simp only [hc, if_false]
      apply ih
      rw [Nat.pow_succ] at h
      calc need ≤ size * (2 ^ f * 2) := h
        _ = size * 2 * 2 ^ f := by rw [Nat.mul_comm (2 ^ f) 2, Nat.mul_assoc]

theorem growCap_ge_size (f size need : Nat) : size ≤ growCap f size need := by
  induction f generalizing size with
  | zero => simp [growCap]
  | succ f ih =>
    unfold growCap
    by_cases hc : need ≤ size
    · simp [hc]
    · simp only [hc, if_false]
      have := ih (size * 2); omega

/-- one call of `getline`: -1 exactly at end of file; otherwise the whole next line (NUL bytes
    included) plus a terminator, the stream advanced by exactly that line, and a buffer size that
    holds line and terminator -/
theorem getline_spec' (file : Bytes) (cap : Option Nat) :
    let r := getline file cap
    (file = [] → r.ret = -1 ∧ r.rest = file) ∧
    (file ≠ [] →
      r.ret = ((nextLine file).length : Int) ∧ r.line = nextLine file ++ [0] ∧
      file = nextLine file ++ r.rest ∧ (nextLine file).length + 1 ≤ r.size) := by
  unfold getline
  simp only
  constructor
  · intro h; subst h; simp [nextLine]
  · intro h
    have hne : nextLine file ≠ [] := fun hc => h ((nextLine_nil_iff file).mp hc)
    simp only [hne, if_false]
    refine ⟨trivial, trivial, nextLine_prefix file, ?_⟩
    apply growCap_ge
    have h128 : 128 ≤ (match cap with | none => 512 | some c => if c < 128 then 512 else c) := by
      cases cap with
      | none => decide
      | some c => simp only; split <;> omega
    have hp : (nextLine file).length < 2 ^ (nextLine file).length := Nat.lt_two_pow_self
    calc (nextLine file).length + 1 ≤ 2 ^ (nextLine file).length := hp
      _ ≤ 128 * 2 ^ (nextLine file).length := by omega
      _ ≤ _ := Nat.mul_le_mul_right _ h128

/-! ## mbsnrtowcs -/

/-- the loop never stores more than `dstlen` wide characters -/
theorem mbsLoop_len (mbr : Bytes → MbRes) (dstlen : Nat) (f : Nat) (s : Bytes) (off count : Nat)
    (w : List Nat) (hw : w.length = count) (hc : count ≤ dstlen) :
    (mbsLoop mbr true dstlen f s off count w).2.2.length ≤ dstlen := by
  induction f generalizing s off count w with
  | zero => simp [mbsLoop]; omega
  | succ f ih =>
    unfold mbsLoop
    by_cases h1 : s = []
    · simp [h1]; omega
    · simp only [h1, if_false]
      by_cases h2 : count ≥ dstlen
      · simp [h2]; omega
      · simp only [h2, and_false, if_false, Bool.true_eq_false] 
        cases hm : mbr s with
        | char len wc =>
          simp only [if_true]
          exact ih _ _ _ _ (by simp [hw]) (by omega)
        | nul => simp; omega
        | invalid => simp; omega
        | incomplete => simp; omega

/-- the destination array keeps its size: no store outside `dst[0..dstlen)` -/
theorem mbsnrtowcs_dst_length (mbr : Bytes → MbRes) (src : Bytes) (srclen : Nat) (d : List Nat) :
    (mbsnrtowcs mbr src srclen (some d)).dst.length = d.length := by
  unfold mbsnrtowcs
  simp only [List.length_append, List.length_reverse, List.length_drop]
  have := mbsLoop_len mbr d.length (srclen + 1) (src.take srclen) 0 0 [] rfl (Nat.zero_le _)
  omega

/-- with a NULL destination `*src` is not assigned (POSIX) -/
theorem mbsnrtowcs_null_dst (mbr : Bytes → MbRes) (src : Bytes) (srclen : Nat) :
    (mbsnrtowcs mbr src srclen none).srcp = some 0 ∧ (mbsnrtowcs mbr src srclen none).dst = [] := by
  simp [mbsnrtowcs]

/-! ## days from civil -/

def isLeap (y : Int) : Prop := y % 4 = 0 ∧ (y % 100 ≠ 0 ∨ y % 400 = 0)

instance (y : Int) : Decidable (isLeap y) := by unfold isLeap; exact inferInstance

def daysInMonth (y m : Int) : Int :=
  if m = 2 then (if isLeap y then 29 else 28)
  else if m = 4 ∨ m = 6 ∨ m = 9 ∨ m = 11 then 30 else 31

theorem dfc_next_day (y m d : Int) : daysFromCivil y m (d + 1) = daysFromCivil y m d + 1 := by
  unfold daysFromCivil; simp only; omega

theorem dfc_epoch : daysFromCivil 1970 1 1 = 0 := by decide

theorem dfc_next_month (y m : Int) (h1 : 1 ≤ m) (h2 : m ≤ 11) :
    daysFromCivil y (m + 1) 1 = daysFromCivil y m (daysInMonth y m) + 1 := by
  have hm : m = 1 ∨ m = 2 ∨ m = 3 ∨ m = 4 ∨ m = 5 ∨ m = 6 ∨ m = 7 ∨ m = 8 ∨ m = 9 ∨ m = 10 ∨ m = 11 := by omega
  rcases hm with rfl | rfl | rfl | rfl | rfl | rfl | rfl | rfl | rfl | rfl | rfl
  all_goals (unfold daysFromCivil daysInMonth isLeap; simp (config := {decide := true}) only [if_true, if_false]; first | omega | (split <;> omega))

theorem dfc_next_year (y : Int) : daysFromCivil (y + 1) 1 1 = daysFromCivil y 12 31 + 1 := by
  unfold daysFromCivil; simp (config := {decide := true}) only [if_true, if_false]; omega

/-- `timegm` of a broken-down time with an in-range month is the civil day count × 86400 + time of day -/
theorem timegm_secs (y mon d h mi s : Int) (h1 : 1 ≤ mon) (h2 : mon ≤ 12) :
    (timegm y mon d h mi s).secs = daysFromCivil y mon d * 86400 + h * 3600 + mi * 60 + s := by
  unfold timegm
  simp only
  have e1 : (mon - 1) / 12 = 0 := by omega
  have e2 : (mon - 1) % 12 + 1 = mon := by omega
  rw [e1, e2]
  have : daysFromCivil (y + 0) mon 1 + (d - 1) = daysFromCivil y mon d := by
    unfold daysFromCivil; simp only [Int.add_zero]; omega
  rw [this]

end UsualProofs.C14
