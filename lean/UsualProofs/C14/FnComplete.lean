import UsualProofs.C14.FnSound
/-! COMPLETENESS of the mirror of the code's single-retry loop (`wfn` = `wfnmatch` of
    usual/fnmatch.c) for the flag sets without FNM_PERIOD, and termination within its fuel.
    The classic argument: restarting only from the LAST `*` loses nothing, because the later `*`
    can absorb whatever the earlier one would have skipped (`greedy`); under FNM_PATHNAME this
    needs that the characters in question contain no `/` (`periodic_false`). -/
namespace UsualProofs.C14
open Usual.C14

/-! ## completeness of the single-retry loop: generic facts about `Matches` -/

def isStar : Tok → Bool
  | .star _ => true
  | _ => false

/-- a one-character token `t` accepts the character `x` -/
def tokWild (fl : FnFlags) (t : Tok) (x : Nat) : Bool :=
  match t with
  | .lit c => cmpFold fl c x
  | .any => okWild fl x
  | .cls n it => okWild fl x && classHas fl n it x
  | .star _ => false
  | .never => false

/-- a star-free run of tokens matches a string character by character -/
def segM (fl : FnFlags) : List Tok → List Nat → Bool
  | [], [] => true
  | t :: ts, x :: r => tokWild fl t x && segM fl ts r
  | _, _ => false

theorem matches_one (fl : FnFlags) (t : Tok) (x : Nat) (ts : List Tok) (s : List Nat)
    (h : tokWild fl t x = true) (hm : Matches fl ts s) : Matches fl (t :: ts) (x :: s) := by
  cases t with
  | lit c => exact .lit c x ts s h hm
  | any => exact .any x ts s h hm
  | cls n it =>
    simp only [tokWild, Bool.and_eq_true] at h
    exact .cls n it x ts s h.1 h.2 hm
  | star => simp [tokWild] at h
  | never => simp [tokWild] at h

theorem matches_one_inv (fl : FnFlags) (t : Tok) (ts : List Tok) (X : List Nat)
    (ht : isStar t = false) (hm : Matches fl (t :: ts) X) :
    ∃ x s, X = x :: s ∧ tokWild fl t x = true ∧ Matches fl ts s := by
  cases hm with
  | lit c x ts s h1 h2 => exact ⟨x, s, rfl, h1, h2⟩
  | any x ts s h1 h2 => exact ⟨x, s, rfl, h1, h2⟩
  | cls n it x ts s h1 h2 h3 => exact ⟨x, s, rfl, by simp [tokWild, h1, h2], h3⟩
  | star0 m ts s h => simp [isStar] at ht
  | starS m x ts s h1 h2 => simp [isStar] at ht

theorem star_inv (fl : FnFlags) (m : Bool) (ts : List Tok) (s : List Nat) (hm : Matches fl (.star m :: ts) s) :
    Matches fl ts s ∨ ∃ x r, s = x :: r ∧ okWild fl x = true ∧ Matches fl (.star m :: ts) r := by
  cases hm with
  | star0 m ts s h => exact .inl h
  | starS m x ts s h1 h2 => exact .inr ⟨x, s, rfl, h1, h2⟩

theorem no_never (fl : FnFlags) (ts : List Tok) (s : List Nat) (hm : Matches fl ts s) : Tok.never ∉ ts := by
  induction hm with
  | nil => simp
  | leading => simp
  | lit c x ts s _ _ ih => simp [ih]
  | any x ts s _ _ ih => simp [ih]
  | cls n it x ts s _ _ _ ih => simp [ih]
  | star0 m ts s _ ih => simp [ih]
  | starS m x ts s _ _ ih => exact ih

theorem segM_length (fl : FnFlags) : ∀ (seg : List Tok) (pre : List Nat), segM fl seg pre = true → pre.length = seg.length
  | [], [], _ => rfl
  | [], _ :: _, h => by simp [segM] at h
  | _ :: _, [], h => by simp [segM] at h
  | t :: ts, x :: r, h => by
    simp only [segM, Bool.and_eq_true] at h
    simp [segM_length fl ts r h.2]

theorem segM_snoc (fl : FnFlags) : ∀ (seg : List Tok) (pre : List Nat) (t : Tok) (x : Nat),
    segM fl seg pre = true → tokWild fl t x = true → segM fl (seg ++ [t]) (pre ++ [x]) = true
  | [], [], t, x, _, h => by simp [segM, h]
  | [], _ :: _, _, _, h, _ => by simp [segM] at h
  | _ :: _, [], _, _, h, _ => by simp [segM] at h
  | u :: ts, y :: r, t, x, h, ht => by
    simp only [segM, Bool.and_eq_true, List.cons_append] at h ⊢
    exact ⟨h.1, segM_snoc fl ts r t x h.2 ht⟩

theorem segM_ne_star (fl : FnFlags) : ∀ (seg : List Tok) (pre : List Nat), segM fl seg pre = true →
    ∀ t ∈ seg, isStar t = false
  | [], _, _ => by simp
  | _ :: _, [], h => by simp [segM] at h
  | u :: ts, y :: r, h => by
    simp only [segM, Bool.and_eq_true] at h
    intro t ht
    simp only [List.mem_cons] at ht
    rcases ht with rfl | ht
    · have h1 := h.1
      cases t <;> simp [tokWild, isStar] at h1 ⊢
    · exact segM_ne_star fl ts r h.2 t ht

/-- determinism of a star-free prefix -/
theorem seg_strip (fl : FnFlags) : ∀ (seg : List Tok) (pre : List Nat) (T : List Tok) (Y : List Nat),
    segM fl seg pre = true → Matches fl (seg ++ T) (pre ++ Y) → Matches fl T Y
  | [], [], _, _, _, hm => hm
  | [], _ :: _, _, _, h, _ => by simp [segM] at h
  | _ :: _, [], _, _, h, _ => by simp [segM] at h
  | u :: ts, y :: r, T, Y, h, hm => by
    simp only [segM, Bool.and_eq_true] at h
    have hu : isStar u = false := by cases u <;> simp [tokWild, isStar] at h ⊢
    obtain ⟨x, s, he, _, hm'⟩ := matches_one_inv fl u (ts ++ T) _ hu hm
    simp only [List.cons_append, List.cons.injEq] at he
    obtain ⟨rfl, rfl⟩ := he
    exact seg_strip fl ts r T Y h.2 hm'

theorem seg_glue (fl : FnFlags) : ∀ (seg : List Tok) (pre : List Nat) (T : List Tok) (Y : List Nat),
    segM fl seg pre = true → Matches fl T Y → Matches fl (seg ++ T) (pre ++ Y)
  | [], [], _, _, _, hm => hm
  | [], _ :: _, _, _, h, _ => by simp [segM] at h
  | _ :: _, [], _, _, h, _ => by simp [segM] at h
  | u :: ts, y :: r, T, Y, h, hm => by
    simp only [segM, Bool.and_eq_true] at h
    exact matches_one fl u y _ _ h.1 (seg_glue fl ts r T Y h.2 hm)

/-- a star-free prefix consumes exactly its length -/
theorem seg_split (fl : FnFlags) : ∀ (seg : List Tok) (T : List Tok) (X : List Nat),
    (∀ t ∈ seg, isStar t = false) → Matches fl (seg ++ T) X →
    ∃ pre Y, X = pre ++ Y ∧ segM fl seg pre = true ∧ Matches fl T Y
  | [], T, X, _, hm => ⟨[], X, rfl, rfl, hm⟩
  | u :: ts, T, X, hs, hm => by
    obtain ⟨x, s, rfl, hx, hm'⟩ := matches_one_inv fl u (ts ++ T) X (hs u (by simp)) hm
    obtain ⟨pre, Y, rfl, h1, h2⟩ := seg_split fl ts T s (fun t ht => hs t (by simp [ht])) hm'
    exact ⟨x :: pre, Y, rfl, by simp [segM, hx, h1], h2⟩

theorem star_decomp (fl : FnFlags) (m : Bool) (U : List Tok) : ∀ (X : List Nat), Matches fl (.star m :: U) X →
    ∃ A R, X = A ++ R ∧ (∀ a ∈ A, okWild fl a = true) ∧ Matches fl U R
  | [], hm => by
    rcases star_inv fl m U [] hm with h | ⟨x, r, he, _, _⟩
    · exact ⟨[], [], rfl, by simp, h⟩
    · cases he
  | x :: X, hm => by
    rcases star_inv fl m U (x :: X) hm with h | ⟨y, r, he, hy, hm'⟩
    · exact ⟨[], x :: X, rfl, by simp, h⟩
    · simp only [List.cons.injEq] at he
      obtain ⟨rfl, rfl⟩ := he
      obtain ⟨A, R, rfl, hA, hR⟩ := star_decomp fl m U X hm'
      exact ⟨x :: A, R, rfl, by
        intro a ha
        simp only [List.mem_cons] at ha
        rcases ha with rfl | ha
        · exact hy
        · exact hA a ha, hR⟩

theorem star_absorb (fl : FnFlags) (m : Bool) (T : List Tok) (C : List Nat) : ∀ (W : List Nat),
    (∀ a ∈ W, okWild fl a = true) → Matches fl (.star m :: T) C → Matches fl (.star m :: T) (W ++ C)
  | [], _, hm => hm
  | w :: W, hW, hm =>
    .starS m w T (W ++ C) (hW w (by simp)) (star_absorb fl m T C W (fun a ha => hW a (by simp [ha])) hm)

/-! ## the greedy step: a later `*` may take over whatever the earlier one would have skipped -/

/-- tokens that can accept `/` under FNM_PATHNAME: only the literal `/` -/
def slashTok : Tok → Bool
  | .lit c => c == cSlash
  | _ => false

theorem cmpFold_slash_left (fl : FnFlags) (x : Nat) (h : cmpFold fl cSlash x = true) : x = cSlash := by
  unfold cmpFold at h
  simp only [Bool.or_eq_true, beq_iff_eq, Bool.and_eq_true] at h
  rcases h with h | ⟨_, h⟩
  · exact h.symm
  · simp [isUpperA, isLowerA, cSlash] at h

theorem cmpFold_slash_right (fl : FnFlags) (c : Nat) (h : cmpFold fl c cSlash = true) : c = cSlash := by
  unfold cmpFold at h
  simp only [Bool.or_eq_true, beq_iff_eq, Bool.and_eq_true] at h
  rcases h with h | ⟨_, h⟩
  · exact h
  · simp [isUpperA, isLowerA, cSlash] at h

theorem okWild_pathname (fl : FnFlags) (hp : fl.pathname = true) (x : Nat) :
    okWild fl x = !(x == cSlash) := by
  simp [okWild, hp]

theorem tokWild_slash (fl : FnFlags) (hp : fl.pathname = true) (t : Tok) (x : Nat)
    (h : tokWild fl t x = true) : (x == cSlash) = slashTok t := by
  cases t with
  | lit c =>
    simp only [tokWild] at h
    simp only [slashTok]
    by_cases hx : x = cSlash
    · subst hx
      have := cmpFold_slash_right fl c h
      simp [this]
    · have hc : c ≠ cSlash := by
        intro hc; subst hc; exact hx (cmpFold_slash_left fl x h)
      rw [beq_eq_false_iff_ne.mpr hx, beq_eq_false_iff_ne.mpr hc]
  | any =>
    simp only [tokWild, okWild_pathname fl hp] at h
    show (x == cSlash) = false
    simpa using h
  | cls n it =>
    simp only [tokWild, okWild_pathname fl hp, Bool.and_eq_true] at h
    show (x == cSlash) = false
    simpa using h.1
  | star => simp [tokWild] at h
  | never => simp [tokWild] at h

theorem segM_slash (fl : FnFlags) (hp : fl.pathname = true) : ∀ (seg : List Tok) (w : List Nat),
    segM fl seg w = true → w.map (· == cSlash) = seg.map slashTok
  | [], [], _ => rfl
  | [], _ :: _, h => by simp [segM] at h
  | _ :: _, [], h => by simp [segM] at h
  | t :: ts, x :: r, h => by
    simp only [segM, Bool.and_eq_true] at h
    simp only [List.map_cons, tokWild_slash fl hp t x h.1, segM_slash fl hp ts r h.2]

/-- a Boolean string that equals itself shifted right by `a > 0` positions (padded with
    `false`) is all `false` -/
theorem periodic_false (σ : List Bool) (a : Nat) (ha : 0 < a)
    (h : σ = (List.replicate a false ++ σ).take σ.length) : ∀ j, j < σ.length → σ[j]? = some false := by
  intro j
  induction j using Nat.strongRecOn with
  | _ j ih =>
    intro hj
    rw [h, List.getElem?_take]
    simp only [hj, if_true]
    by_cases hja : j < a
    · rw [List.getElem?_append_left (by simpa using hja)]
      simp [hja]
    · rw [List.getElem?_append_right (by simpa using Nat.le_of_not_lt hja)]
      simp only [List.length_replicate]
      exact ih (j - a) (by omega) (by omega)

theorem all_false_of_getElem? (σ : List Bool) (h : ∀ j, j < σ.length → σ[j]? = some false) :
    ∀ b ∈ σ, b = false := by
  intro b hb
  obtain ⟨j, hj, rfl⟩ := List.mem_iff_getElem.mp hb
  have := h j hj
  rw [List.getElem?_eq_getElem hj] at this
  exact Option.some.inj this

/-- the greedy lemma: the attempt has matched the star-free run `seg` on `pre`; if the earlier
    `*` could still make the whole rest match, then the `*` that follows `seg` can do it from
    where the attempt stands -/
theorem greedy (fl : FnFlags) (m1 m2 : Bool) (seg : List Tok) (pre : List Nat) (T : List Tok) (Y : List Nat)
    (hseg : segM fl seg pre = true)
    (hm : Matches fl (.star m1 :: (seg ++ .star m2 :: T)) (pre ++ Y)) : Matches fl (.star m2 :: T) Y := by
  obtain ⟨A, R, hX, hA, hR⟩ := star_decomp fl _ _ _ hm
  obtain ⟨B, C, rfl, hB, hC⟩ := seg_split fl seg (.star m2 :: T) R (segM_ne_star fl seg pre hseg) hR
  have hlp := segM_length fl seg pre hseg
  have hlb := segM_length fl seg B hB
  -- Y = W ++ C with W = the last |A| characters of A ++ B
  have hpre : pre = (A ++ B).take B.length := by
    have h1 := congrArg (List.take pre.length) hX
    rw [List.take_left] at h1
    rw [h1, ← List.append_assoc, List.take_append_of_le_length (by simp; omega)]
    congr 1; omega
  have hY : Y = (A ++ B).drop B.length ++ C := by
    have h1 := congrArg (List.drop pre.length) hX
    rw [List.drop_left] at h1
    rw [h1, ← List.append_assoc, List.drop_append_of_le_length (by simp; omega)]
    congr 2; omega
  rw [hY]
  apply star_absorb fl m2 T C _ _ hC
  -- every character of W may be consumed by a wildcard
  by_cases hp : fl.pathname = true
  · cases A with
    | nil => simp
    | cons a0 A' =>
      have hAs : (a0 :: A').map (· == cSlash) = List.replicate (a0 :: A').length false := by
        apply List.eq_replicate_iff.mpr
        refine ⟨by simp, fun b hb => ?_⟩
        obtain ⟨x, hx, rfl⟩ := List.mem_map.mp hb
        have := hA x hx
        rw [okWild_pathname fl hp] at this
        simpa using this
      have h1 := segM_slash fl hp seg pre hseg
      have h2 := segM_slash fl hp seg B hB
      have hσ : B.map (· == cSlash) =
          (List.replicate (a0 :: A').length false ++ B.map (· == cSlash)).take (B.map (· == cSlash)).length := by
        rw [← hAs, ← List.map_append, ← List.map_take, List.length_map, ← hpre, h1, h2]
      have hBf := all_false_of_getElem? _ (periodic_false _ (a0 :: A').length (by simp) hσ)
      intro w hw
      have hw' : w ∈ (a0 :: A') ++ B := List.mem_of_mem_drop hw
      rw [okWild_pathname fl hp]
      rcases List.mem_append.mp hw' with hwA | hwB
      · have := hA w hwA
        rw [okWild_pathname fl hp] at this; exact this
      · have := hBf (w == cSlash) (List.mem_map.mpr ⟨w, hwB, rfl⟩)
        simp [this]
  · intro w _
    have : fl.pathname = false := by simpa using hp
    simp [okWild, this]


/-! ## the invariant of the loop and the main induction -/

def nz (l : List Nat) : Prop := ∀ c ∈ l, c ≠ 0

/-- what is known about the remembered `*` (`retry_p`, `skip_s`) while the loop stands at
    `(p, s)`: the tokens between `retry_p` and `p` are star-free and have matched the characters
    between `skip_s` and `s`; and the `*` in front of `retry_p` can still make everything match -/
def RInv (fl : FnFlags) (p : List Nat) (s : SPos) (rp : List Nat) (skip : SPos) : Prop :=
  nz rp ∧ nz skip.rest ∧ p.length ≤ rp.length ∧
  (∃ seg pre, toks fl rp = seg ++ toks fl p ∧ skip.rest = pre ++ s.rest ∧ segM fl seg pre = true) ∧
  Matches fl (.star (dotNext fl rp) :: toks fl rp) skip.rest

def CInv (fl : FnFlags) (p : List Nat) (s : SPos) : Option (List Nat × SPos) → Prop
  | none => Matches fl (toks fl p) s.rest
  | some (rp, skip) => RInv fl p s rp skip

/-- termination measure -/
def mu (p : List Nat) (s : SPos) : Option (List Nat × SPos) → Nat
  | none => p.length + 1 + s.rest.length * (p.length + 2)
  | some (rp, skip) => p.length + 1 + skip.rest.length * (rp.length + 2)

theorem mul_mono2 (a a' b b' : Nat) (h1 : a ≤ a') (h2 : b ≤ b') : a * (b + 2) ≤ a' * (b' + 2) :=
  Nat.mul_le_mul h1 (by omega)

/-- with FNM_PERIOD off, `disallow_wildcard` is "end of string, or `/` under FNM_PATHNAME" -/
theorem disallow_np (fl : FnFlags) (hper : fl.period = false) (prev : Option Nat) (x : Nat) (r : List Nat) :
    disallow fl ⟨prev, x :: r⟩ = !(okWild fl x) := by
  unfold disallow okWild
  simp only [hper]
  by_cases hx : x = cSlash
  · simp [hx]
  · simp [hx]

theorem disallow_nil (fl : FnFlags) (prev : Option Nat) : disallow fl ⟨prev, []⟩ = true := by
  simp [disallow]

/-- the current state implies the `*`-level statement, whatever is remembered -/
theorem cinv_current (fl : FnFlags) (p : List Nat) (s : SPos) (rp : List Nat) (skip : SPos)
    (h : RInv fl p s rp skip) (hm : Matches fl (toks fl p) s.rest) : Matches fl (toks fl rp) skip.rest := by
  obtain ⟨_, _, _, ⟨seg, pre, h1, h2, h3⟩, _⟩ := h
  rw [h1, h2]; exact seg_glue fl seg pre _ _ h3 hm

/-- consuming one character with a one-character token keeps the invariant and decreases the
    measure -/
theorem cinv_advance (fl : FnFlags) (p p' : List Nat) (t : Tok) (prev : Option Nat) (x : Nat) (r : List Nat)
    (retry : Option (List Nat × SPos))
    (htk : toks fl p = t :: toks fl p') (hx : tokWild fl t x = true) (hlen : p'.length < p.length)
    (hc : CInv fl p ⟨prev, x :: r⟩ retry) :
    CInv fl p' ⟨some x, r⟩ retry ∧ mu p' ⟨some x, r⟩ retry < mu p ⟨prev, x :: r⟩ retry := by
  have ht : isStar t = false := by cases t <;> simp [tokWild, isStar] at hx ⊢
  cases retry with
  | none =>
    simp only [CInv, mu] at hc ⊢
    rw [htk] at hc
    obtain ⟨x', s', he, _, hm⟩ := matches_one_inv fl t _ _ ht hc
    simp only [List.cons.injEq] at he
    obtain ⟨rfl, rfl⟩ := he
    refine ⟨hm, ?_⟩
    have := mul_mono2 r.length (r.length + 1) p'.length p.length (by omega) (by omega)
    simp only [List.length_cons]
    omega
  | some rs =>
    obtain ⟨rp, skip⟩ := rs
    simp only [CInv, mu] at hc ⊢
    obtain ⟨h1, h2, h3, ⟨seg, pre, h4, h5, h6⟩, h7⟩ := hc
    refine ⟨⟨h1, h2, by omega, ⟨seg ++ [t], pre ++ [x], ?_, ?_, segM_snoc fl seg pre t x h6 hx⟩, h7⟩, by omega⟩
    · rw [h4, htk]; simp
    · rw [h5]; simp

/-- label `nomatch_retry` when the current token cannot match: the remembered `*` takes one more
    character and the loop goes on with a smaller measure -/
theorem retry_complete (fl : FnFlags) (hper : fl.period = false) (f : Nat)
    (ih : ∀ (p : List Nat) (s : SPos) (retry : Option (List Nat × SPos)),
      nz p → nz s.rest → CInv fl p s retry → mu p s retry < f → wfn fl f p s retry = 0)
    (p : List Nat) (s : SPos) (retry : Option (List Nat × SPos))
    (hc : CInv fl p s retry) (hnot : ¬ Matches fl (toks fl p) s.rest) (hmu : mu p s retry < f + 1) :
    (match retryStep fl s retry with
     | .inl r => r
     | .inr (p', s', retry') => wfn fl f p' s' retry') = 0 := by
  cases retry with
  | none => exact absurd hc hnot
  | some rs =>
    obtain ⟨rp, skip⟩ := rs
    have hcur := fun hm => cinv_current fl p s rp skip hc hm
    obtain ⟨hz1, hz2, hlen, ⟨seg, pre, h4, h5, h6⟩, h7⟩ := hc
    -- the attempt that started at `skip` has failed: `toks rp` does not match there
    have hfail : ¬ Matches fl (toks fl rp) skip.rest := by
      intro hm
      rw [h4, h5] at hm
      exact hnot (seg_strip fl seg pre _ _ h6 hm)
    -- so the `*` must take the next character
    rcases star_inv fl _ _ _ h7 with hm | ⟨x, r, hsk, hx, hm⟩
    · exact absurd hm hfail
    · -- the subject is not exhausted
      have hs : s.rest ≠ [] := by
        intro hs
        rw [hs, List.append_nil] at h5
        obtain ⟨A, R, hX, _, hR⟩ := star_decomp fl _ _ _ h7
        rw [h4] at hR
        obtain ⟨B, Y, rfl, hB, hY⟩ := seg_split fl seg _ R (segM_ne_star fl seg pre h6) hR
        have l1 := segM_length fl seg pre h6
        have l2 := segM_length fl seg B hB
        have l3 := congrArg List.length hX
        rw [h5] at l3
        simp only [List.length_append] at l3
        have hY0 : Y = [] := List.eq_nil_of_length_eq_zero (by omega)
        subst hY0
        rw [hs] at hnot
        exact hnot hY
      obtain ⟨sprev, srest⟩ := skip
      simp only at hsk h5 hz2 h7
      subst hsk
      have hd : disallow fl ⟨sprev, x :: r⟩ = false := by
        rw [disallow_np fl hper, hx]; rfl
      unfold retryStep
      simp only [hs, if_false, hd, Bool.false_eq_true]
      have hne : ¬ (x :: r = []) := by simp
      simp only [hne, if_false]
      show wfn fl f rp ⟨some x, r⟩ (some (rp, ⟨some x, r⟩)) = 0
      apply ih rp ⟨some x, r⟩ _ hz1 (fun c hc => hz2 c (by simp [hc]))
      · exact ⟨hz1, fun c hc => hz2 c (by simp [hc]), Nat.le_refl _, ⟨[], [], rfl, rfl, rfl⟩, hm⟩
      · simp only [mu, List.length_cons] at hmu ⊢
        rw [Nat.succ_mul] at hmu
        omega

theorem cinv_no_never (fl : FnFlags) (p : List Nat) (s : SPos) (retry : Option (List Nat × SPos))
    (hc : CInv fl p s retry) : Tok.never ∉ toks fl p := by
  cases retry with
  | none => exact no_never fl _ _ hc
  | some rs =>
    obtain ⟨rp, skip⟩ := rs
    obtain ⟨_, _, _, ⟨seg, pre, h4, _, _⟩, h7⟩ := hc
    have := no_never fl _ _ h7
    rw [h4] at this
    intro hn
    exact this (by simp [hn])

theorem cmpFold_nonletter (fl : FnFlags) (c x : Nat) (h1 : isUpperA c = false) (h2 : isLowerA c = false)
    (h : cmpFold fl c x = true) : x = c := by
  unfold cmpFold at h
  simp only [h1, h2, Bool.false_and, Bool.false_eq_true, if_false, Bool.and_false, Bool.or_false,
    beq_iff_eq] at h
  exact h.symm

theorem okWild_ne_slash (fl : FnFlags) (x : Nat) (h : x ≠ cSlash) : okWild fl x = true := by
  simp [okWild, h]

/-- COMPLETENESS of the loop (FNM_PERIOD off): from a state whose invariant says that a match is
    still possible, the loop answers 0 -/
theorem wfn_complete (fl : FnFlags) (hper : fl.period = false) :
    ∀ (f : Nat) (p : List Nat) (s : SPos) (retry : Option (List Nat × SPos)),
      nz p → nz s.rest → CInv fl p s retry → mu p s retry < f → wfn fl f p s retry = 0 := by
  intro f
  induction f with
  | zero => intro p s retry _ _ _ h; omega
  | succ f ih =>
    intro p s retry hp0 hs0 hc hmu
    unfold wfn
    simp only
    have retryC : ¬ Matches fl (toks fl p) s.rest →
        (match retryStep fl s retry with
         | .inl r => r
         | .inr (p', s', retry') => wfn fl f p' s' retry') = 0 :=
      fun hnot => retry_complete fl hper f ih p s retry hc hnot hmu
    -- one literal character
    have litCase : ∀ (pc : Nat) (prest : List Nat), pc ≠ 0 → toks fl p = .lit pc :: toks fl prest →
        prest.length < p.length → nz prest →
        (if s.rest.getD 0 0 = cSlash ∧ pc = 0 ∧ fl.leadingDir = true then 0
         else if (!cmpFold fl pc (s.rest.getD 0 0)) = true then
           (match retryStep fl s retry with
            | .inl r => r
            | .inr (p', s', retry') => wfn fl f p' s' retry')
         else if s.rest = [] then 0 else wfn fl f prest s.adv retry) = 0 := by
      intro pc prest hpc htk hlen hnzp
      have e1 : ¬ (s.rest.getD 0 0 = cSlash ∧ pc = 0 ∧ fl.leadingDir = true) := fun h => hpc h.2.1
      simp only [e1, if_false]
      obtain ⟨prev, rest⟩ := s
      cases rest with
      | nil =>
        have hcf : cmpFold fl pc 0 = false := by
          cases h : cmpFold fl pc 0 with
          | false => rfl
          | true => exact absurd (cmpFold_zero fl pc h) hpc
        simp only [List.getD_eq_getElem?_getD, List.getElem?_nil, Option.getD_none, hcf, Bool.not_false, if_true]
        apply retryC
        rw [htk]; intro hm
        obtain ⟨x, s', he, _, _⟩ := matches_one_inv fl _ _ _ rfl hm
        cases he
      | cons x r =>
        simp only [List.getD_cons_zero]
        by_cases hcf : cmpFold fl pc x = true
        · simp only [hcf, Bool.not_true, Bool.false_eq_true, if_false]
          have hne : ¬ (x :: r = []) := by simp
          simp only [hne, if_false]
          obtain ⟨hc', hmu'⟩ := cinv_advance fl p prest (.lit pc) prev x r retry htk hcf hlen hc
          exact ih prest ⟨some x, r⟩ retry hnzp (fun c hc => hs0 c (by simp [hc])) hc' (by omega)
        · have hcf' : cmpFold fl pc x = false := by simpa using hcf
          simp only [hcf', Bool.not_false, if_true]
          apply retryC
          rw [htk]; intro hm
          obtain ⟨x', s', he, hx', _⟩ := matches_one_inv fl _ _ _ rfl hm
          simp only [List.cons.injEq] at he
          obtain ⟨rfl, rfl⟩ := he
          simp only [tokWild] at hx'
          rw [hx'] at hcf'; cases hcf'
    cases p with
    | nil =>
      simp only
      by_cases hl : s.rest.getD 0 0 = cSlash ∧ True ∧ fl.leadingDir = true
      · simp only [hl, and_self, if_true]
      · simp only [hl, if_false]
        obtain ⟨prev, rest⟩ := s
        cases rest with
        | nil => simp [cmpFold]
        | cons x r =>
          simp only [List.getD_cons_zero] at hl ⊢
          have hx0 : x ≠ 0 := hs0 x (by simp)
          have hcf : cmpFold fl 0 x = false := by
            cases h : cmpFold fl 0 x with
            | false => rfl
            | true => exact absurd (cmpFold_zero' fl x h) hx0
          simp only [hcf, Bool.not_false, if_true]
          apply retryC
          rw [toks_nil]; intro hm
          cases hm with
          | leading x r h1 h2 => exact hl ⟨h2, trivial, h1⟩
    | cons pc p1 =>
      simp only
      have hp1 : nz p1 := fun c hc => hp0 c (by simp [hc])
      have hpc0 : pc ≠ 0 := hp0 pc (by simp)
      have htk := toks_cons fl pc p1
      by_cases c1 : pc = cStar
      · simp only [c1, if_true]
        rw [if_pos c1] at htk
        -- the `*` at hand can make the rest match from here
        have hstar : Matches fl (.star (dotNext fl p1) :: toks fl p1) s.rest := by
          cases retry with
          | none => simp only [CInv] at hc; rw [htk] at hc; exact hc
          | some rs =>
            obtain ⟨rp, skip⟩ := rs
            obtain ⟨_, _, _, ⟨seg, pre, h4, h5, h6⟩, h7⟩ := hc
            rw [h4, htk, h5] at h7
            exact greedy fl _ _ seg pre _ _ h6 h7
        have hnodot : ¬ ((dotNext fl p1 && disallow fl s) = true) := by
          intro hcond
          simp only [Bool.and_eq_true] at hcond
          obtain ⟨hh, hd⟩ := hcond
          obtain ⟨p2, htk2⟩ := dotNext_toks fl p1 hh
          rw [htk2] at hstar
          obtain ⟨prev, rest⟩ := s
          cases rest with
          | nil =>
            rcases star_inv fl _ _ _ hstar with hm | ⟨x, r, he, _, _⟩
            · obtain ⟨x, s', he, _, _⟩ := matches_one_inv fl _ _ _ rfl hm
              cases he
            · cases he
          | cons x r =>
            rw [disallow_np fl hper] at hd
            have hxw : okWild fl x = false := by simpa using hd
            rcases star_inv fl _ _ _ hstar with hm | ⟨x', r', he, hx', _⟩
            · obtain ⟨x', s', he, hx', _⟩ := matches_one_inv fl _ _ _ rfl hm
              simp only [List.cons.injEq] at he
              obtain ⟨rfl, rfl⟩ := he
              have : x = cDot := cmpFold_nonletter fl cDot x (by decide) (by decide) hx'
              subst this
              rw [okWild_ne_slash fl cDot (by decide)] at hxw; cases hxw
            · simp only [List.cons.injEq] at he
              obtain ⟨rfl, rfl⟩ := he
              rw [hx'] at hxw; cases hxw
        simp only [hnodot, if_false]
        apply ih p1 s (some (p1, s)) hp1 hs0
        · exact ⟨hp1, hs0, Nat.le_refl _, ⟨[], [], rfl, rfl, rfl⟩, hstar⟩
        · cases retry with
          | none =>
            simp only [mu, List.length_cons] at hmu ⊢
            have := mul_mono2 s.rest.length s.rest.length p1.length (p1.length + 1) (Nat.le_refl _) (by omega)
            omega
          | some rs =>
            obtain ⟨rp, skip⟩ := rs
            obtain ⟨_, _, hlen, ⟨seg, pre, _, h5, _⟩, _⟩ := hc
            simp only [mu, List.length_cons] at hmu hlen ⊢
            have hl : s.rest.length ≤ skip.rest.length := by rw [h5]; simp
            have := mul_mono2 s.rest.length skip.rest.length p1.length rp.length hl (by omega)
            omega
      · simp only [c1, if_false]
        rw [if_neg c1] at htk
        by_cases c2 : pc = cQuest
        · simp only [c2, if_true]
          rw [if_pos c2] at htk
          obtain ⟨prev, rest⟩ := s
          cases rest with
          | nil =>
            simp only [disallow_nil, if_true]
            apply retryC; rw [htk]; intro hm
            obtain ⟨x, s', he, _, _⟩ := matches_one_inv fl _ _ _ rfl hm
            cases he
          | cons x r =>
            rw [disallow_np fl hper]
            by_cases hx : okWild fl x = true
            · simp only [hx, Bool.not_true, Bool.false_eq_true, if_false]
              obtain ⟨hc', hmu'⟩ := cinv_advance fl (pc :: p1) p1 .any prev x r retry htk hx (by simp) hc
              exact ih p1 ⟨some x, r⟩ retry hp1 (fun c hc => hs0 c (by simp [hc])) hc' (by omega)
            · have hx' : okWild fl x = false := by simpa using hx
              simp only [hx', Bool.not_false, if_true]
              apply retryC; rw [htk]; intro hm
              obtain ⟨x', s', he, hw, _⟩ := matches_one_inv fl _ _ _ rfl hm
              simp only [List.cons.injEq] at he
              obtain ⟨rfl, rfl⟩ := he
              simp only [tokWild] at hw
              rw [hw] at hx'; cases hx'
        · simp only [c2, if_false]
          rw [if_neg c2] at htk
          by_cases c3 : pc = cLB
          · simp only [c3, if_true]
            rw [if_pos c3] at htk
            have hnn := cinv_no_never fl _ _ _ hc
            obtain ⟨prev, rest⟩ := s
            cases hpc : parseClass fl (p1.length + 2)
                (if (p1.head? == some cBang || p1.head? == some cCaret) = true then List.drop 1 p1 else p1)
                true true [] with
            | never =>
              rw [hpc] at htk
              rw [htk] at hnn
              exact absurd (by simp) hnn
            | closed items prest =>
              rw [hpc] at htk
              simp only at htk
              have hsuf := parseClass_rest_suffix fl _ _ _ _ _ _ _ hpc
              have hb : (if (p1.head? == some cBang || p1.head? == some cCaret) = true then List.drop 1 p1 else p1)
                  <:+ p1 := by
                split
                · exact List.drop_suffix _ _
                · exact List.suffix_refl _
              have hprest0 : nz prest := fun c hc => hp1 c ((hsuf.trans hb).subset hc)
              have hplen : prest.length < (pc :: p1).length := by
                have := (hsuf.trans hb).length_le; simp; omega
              cases rest with
              | nil =>
                simp only [disallow_nil, if_true]
                apply retryC; rw [htk]; intro hm
                obtain ⟨x, s', he, _, _⟩ := matches_one_inv fl _ _ _ rfl hm
                cases he
              | cons x r =>
                rw [disallow_np fl hper]
                by_cases hx : okWild fl x = true
                · simp only [hx, Bool.not_true, Bool.false_eq_true, if_false, List.getD_cons_zero]
                  rw [matchClass_eq_parse]
                  simp only [hpc, classResult]
                  by_cases hin : (items.any (itemHas fl x) != (p1.head? == some cBang || p1.head? == some cCaret)) = true
                  · simp only [hin, if_true]
                    have hw : tokWild fl (.cls (p1.head? == some cBang || p1.head? == some cCaret) items) x = true := by
                      simp only [tokWild, hx, Bool.true_and, classHas]; exact hin
                    obtain ⟨hc', hmu'⟩ := cinv_advance fl (pc :: p1) prest _ prev x r retry htk hw hplen hc
                    exact ih prest ⟨some x, r⟩ retry hprest0 (fun c hc => hs0 c (by simp [hc])) hc' (by omega)
                  · simp only [hin, if_false]
                    apply retryC; rw [htk]; intro hm
                    obtain ⟨x', s', he, hw, _⟩ := matches_one_inv fl _ _ _ rfl hm
                    simp only [List.cons.injEq] at he
                    obtain ⟨rfl, rfl⟩ := he
                    simp only [tokWild, Bool.and_eq_true, classHas] at hw
                    exact hin hw.2
                · have hx' : okWild fl x = false := by simpa using hx
                  simp only [hx', Bool.not_false, if_true]
                  apply retryC; rw [htk]; intro hm
                  obtain ⟨x', s', he, hw, _⟩ := matches_one_inv fl _ _ _ rfl hm
                  simp only [List.cons.injEq] at he
                  obtain ⟨rfl, rfl⟩ := he
                  simp only [tokWild, Bool.and_eq_true] at hw
                  rw [hw.1] at hx'; cases hx'
            | literal =>
              rw [hpc] at htk
              simp only at htk
              cases rest with
              | nil =>
                simp only [disallow_nil, if_true]
                apply retryC; rw [htk]; intro hm
                obtain ⟨x, s', he, _, _⟩ := matches_one_inv fl _ _ _ rfl hm
                cases he
              | cons x r =>
                have hlitx : ∀ s', Matches fl (.lit cLB :: toks fl p1) (x :: s') → x = cLB := by
                  intro s' hm
                  obtain ⟨x', s'', he, hw, _⟩ := matches_one_inv fl _ _ _ rfl hm
                  simp only [List.cons.injEq] at he
                  obtain ⟨rfl, rfl⟩ := he
                  exact cmpFold_nonletter fl cLB x (by decide) (by decide) hw
                rw [disallow_np fl hper]
                by_cases hx : okWild fl x = true
                · simp only [hx, Bool.not_true, Bool.false_eq_true, if_false, List.getD_cons_zero]
                  rw [matchClass_eq_parse]
                  simp only [hpc, classResult]
                  by_cases hxb : (x == cLB) = true
                  · simp only [hxb, if_true]
                    have hxe : x = cLB := by simpa using hxb
                    have hw : tokWild fl (.lit cLB) x = true := by
                      subst hxe; simp [tokWild, cmpFold]
                    obtain ⟨hc', hmu'⟩ := cinv_advance fl (pc :: p1) p1 _ prev x r retry htk hw (by simp) hc
                    exact ih p1 ⟨some x, r⟩ retry hp1 (fun c hc => hs0 c (by simp [hc])) hc' (by omega)
                  · simp only [hxb, if_false]
                    apply retryC; rw [htk]; intro hm
                    exact hxb (by simp [hlitx r hm])
                · have hx' : okWild fl x = false := by simpa using hx
                  simp only [hx', Bool.not_false, if_true]
                  apply retryC; rw [htk]; intro hm
                  have := hlitx r hm
                  subst this
                  rw [okWild_ne_slash fl cLB (by decide)] at hx'; cases hx'
          · simp only [c3, if_false]
            rw [if_neg c3] at htk
            by_cases c4 : pc = cBSl ∧ (!fl.noescape) = true
            · simp only [c4, and_self, if_true]
              rw [if_pos c4] at htk
              cases p1 with
              | nil =>
                exfalso
                simp only at htk
                have hnn := cinv_no_never fl _ _ _ hc
                rw [htk] at hnn
                exact hnn (by simp)
              | cons e p2 =>
                simp only at htk ⊢
                exact litCase e p2 (hp1 e (by simp)) htk (by simp; omega) (fun c hc => hp1 c (by simp [hc]))
            · simp only [c4, if_false]
              rw [if_neg c4] at htk
              exact litCase pc p1 hpc0 htk (by simp) hp1

theorem wfnmatch_complete (fl : FnFlags) (hper : fl.period = false) (pat str : List Nat)
    (hp : ∀ c ∈ pat, c ≠ 0) (hs : ∀ c ∈ str, c ≠ 0)
    (hm : Matches fl (tokenize fl (pat.length + 1) pat) str) : wfnmatch fl pat str = 0 := by
  unfold wfnmatch
  apply wfn_complete fl hper _ pat ⟨none, str⟩ none hp hs hm
  simp only [mu]
  have : (pat.length + 2) * (str.length + 2) = str.length * (pat.length + 2) + 2 * (pat.length + 2) := by
    rw [Nat.mul_comm, Nat.add_mul]
  omega

/-! ## the loop always terminates within its fuel with 0 or 1 -/

def SInv (p : List Nat) (s : SPos) : Option (List Nat × SPos) → Prop
  | none => True
  | some (rp, skip) => p.length ≤ rp.length ∧ s.rest.length ≤ skip.rest.length ∧ nz skip.rest

theorem mu_advance (p p' : List Nat) (prev : Option Nat) (x : Nat) (r : List Nat)
    (retry : Option (List Nat × SPos)) (hlen : p'.length < p.length) :
    mu p' ⟨some x, r⟩ retry < mu p ⟨prev, x :: r⟩ retry := by
  cases retry with
  | none =>
    simp only [mu, List.length_cons]
    have := mul_mono2 r.length (r.length + 1) p'.length p.length (by omega) (by omega)
    omega
  | some rs => obtain ⟨rp, skip⟩ := rs; simp only [mu]; omega

theorem sinv_advance (p p' : List Nat) (prev : Option Nat) (x : Nat) (r : List Nat)
    (retry : Option (List Nat × SPos)) (hlen : p'.length < p.length)
    (h : SInv p ⟨prev, x :: r⟩ retry) : SInv p' ⟨some x, r⟩ retry := by
  cases retry with
  | none => trivial
  | some rs =>
    obtain ⟨rp, skip⟩ := rs
    simp only [SInv, List.length_cons] at h ⊢
    exact ⟨by omega, by omega, h.2.2⟩

theorem matchClass_rest_le (fl : FnFlags) (p1 : List Nat) (c : Nat) (rest : List Nat)
    (h : matchClass fl p1 c = some rest) : rest.length ≤ p1.length := by
  rw [matchClass_eq_parse] at h
  simp only at h
  cases hpc : parseClass fl (p1.length + 2)
      (if (p1.head? == some cBang || p1.head? == some cCaret) = true then List.drop 1 p1 else p1)
      true true [] with
  | closed items prest =>
    rw [hpc] at h
    simp only [classResult] at h
    split at h
    · cases h
      have hsuf := parseClass_rest_suffix fl _ _ _ _ _ _ _ hpc
      have hb : (if (p1.head? == some cBang || p1.head? == some cCaret) = true then List.drop 1 p1 else p1)
          <:+ p1 := by
        split
        · exact List.drop_suffix _ _
        · exact List.suffix_refl _
      exact (hsuf.trans hb).length_le
    · cases h
  | literal =>
    rw [hpc] at h
    simp only [classResult] at h
    split at h
    · cases h; exact Nat.le_refl _
    · cases h
  | never => rw [hpc] at h; simp [classResult] at h

/-- within the fuel `wfnmatch` gives it, the loop ends with 0 or 1 (never "out of fuel") -/
theorem wfn_01 (fl : FnFlags) : ∀ (f : Nat) (p : List Nat) (s : SPos) (retry : Option (List Nat × SPos)),
    nz s.rest → SInv p s retry → mu p s retry < f → wfn fl f p s retry = 0 ∨ wfn fl f p s retry = 1 := by
  intro f
  induction f with
  | zero => intro p s retry _ _ h; omega
  | succ f ih =>
    intro p s retry hs0 hsi hmu
    unfold wfn
    simp only
    have retryC : (match retryStep fl s retry with
         | .inl r => r
         | .inr (p', s', retry') => wfn fl f p' s' retry') = 0 ∨
        (match retryStep fl s retry with
         | .inl r => r
         | .inr (p', s', retry') => wfn fl f p' s' retry') = 1 := by
      unfold retryStep
      cases retry with
      | none => simp
      | some rs =>
        obtain ⟨rp, skip⟩ := rs
        simp only
        by_cases h1 : s.rest = []
        · simp [h1]
        · simp only [h1, if_false]
          by_cases h2 : skip.rest = []
          · simp only [h2, if_true]; split <;> simp
          · simp only [h2, if_false]
            by_cases h3 : disallow fl skip = true
            · simp [h3]
            · simp only [h3, if_false]
              obtain ⟨sprev, srest⟩ := skip
              cases srest with
              | nil => exact absurd rfl h2
              | cons x r =>
                show wfn fl f rp ⟨some x, r⟩ (some (rp, ⟨some x, r⟩)) = 0 ∨ _
                have hz : nz r := fun c hc => hsi.2.2 c (by simp [hc])
                have hsi' : SInv rp ⟨some x, r⟩ (some (rp, ⟨some x, r⟩)) := ⟨Nat.le_refl _, Nat.le_refl _, hz⟩
                apply ih rp ⟨some x, r⟩ (some (rp, ⟨some x, r⟩)) hz hsi'
                simp only [mu, List.length_cons] at hmu ⊢
                rw [Nat.succ_mul] at hmu
                omega
    -- one step that consumes a character and moves to a shorter pattern
    have adv : ∀ (prest : List Nat), prest.length < p.length → s.rest ≠ [] →
        wfn fl f prest s.adv retry = 0 ∨ wfn fl f prest s.adv retry = 1 := by
      intro prest hlen hne
      obtain ⟨prev, rest⟩ := s
      cases rest with
      | nil => exact absurd rfl hne
      | cons x r =>
        exact ih prest ⟨some x, r⟩ retry (fun c hc => hs0 c (by simp [hc]))
          (sinv_advance p prest prev x r retry hlen hsi)
          (by have := mu_advance p prest prev x r retry hlen; omega)
    have litCase : ∀ (pc : Nat) (prest : List Nat), (pc ≠ 0 → prest.length < p.length) →
        (if s.rest.getD 0 0 = cSlash ∧ pc = 0 ∧ fl.leadingDir = true then 0
         else if (!cmpFold fl pc (s.rest.getD 0 0)) = true then
           (match retryStep fl s retry with
            | .inl r => r
            | .inr (p', s', retry') => wfn fl f p' s' retry')
         else if s.rest = [] then 0 else wfn fl f prest s.adv retry) = 0 ∨
        (if s.rest.getD 0 0 = cSlash ∧ pc = 0 ∧ fl.leadingDir = true then 0
         else if (!cmpFold fl pc (s.rest.getD 0 0)) = true then
           (match retryStep fl s retry with
            | .inl r => r
            | .inr (p', s', retry') => wfn fl f p' s' retry')
         else if s.rest = [] then 0 else wfn fl f prest s.adv retry) = 1 := by
      intro pc prest hlen
      split
      · simp
      · split
        · exact retryC
        · next hcf =>
          split
          · simp
          · next hne =>
            by_cases hpc : pc = 0
            · exfalso
              subst hpc
              obtain ⟨prev, rest⟩ := s
              cases rest with
              | nil => exact absurd rfl hne
              | cons x r =>
                simp only [List.getD_cons_zero, Bool.not_eq_true', Bool.not_eq_false] at hcf
                exact hs0 x (by simp) (cmpFold_zero' fl x hcf)
            · exact adv prest (hlen hpc) hne
    have wildNe : disallow fl s ≠ true → s.rest ≠ [] := by
      intro hd hs
      obtain ⟨prev, rest⟩ := s
      simp only at hs; subst hs
      exact hd (disallow_nil fl prev)
    cases p with
    | nil =>
      have := litCase 0 [] (fun h => absurd rfl h)
      simp only [eq_self_iff_true] at this
      exact this
    | cons pc p1 =>
      simp only
      split
      · split
        · simp
        · have hsi' : SInv p1 s (some (p1, s)) := ⟨Nat.le_refl _, Nat.le_refl _, hs0⟩
          apply ih p1 s (some (p1, s)) hs0 hsi'
          cases retry with
          | none =>
            simp only [mu, List.length_cons] at hmu ⊢
            have := mul_mono2 s.rest.length s.rest.length p1.length (p1.length + 1) (Nat.le_refl _) (by omega)
            omega
          | some rs =>
            obtain ⟨rp, skip⟩ := rs
            obtain ⟨hlen, hl, _⟩ := hsi
            simp only [mu, List.length_cons] at hmu hlen ⊢
            have := mul_mono2 s.rest.length skip.rest.length p1.length rp.length hl (by omega)
            omega
      · split
        · split
          · exact retryC
          · next hd => exact adv p1 (by simp) (wildNe hd)
        · split
          · split
            · exact retryC
            · next hd =>
              split
              · exact retryC
              · next rest hmc =>
                have := matchClass_rest_le fl p1 _ rest hmc
                exact adv rest (by simp; omega) (wildNe hd)
          · split
            · cases p1 with
              | nil => simp
              | cons e p2 => exact litCase e p2 (fun _ => by simp; omega)
            · exact litCase pc p1 (fun _ => by simp)

theorem wfnmatch_01 (fl : FnFlags) (pat str : List Nat) (hs : ∀ c ∈ str, c ≠ 0) :
    wfnmatch fl pat str = 0 ∨ wfnmatch fl pat str = 1 := by
  unfold wfnmatch
  apply wfn_01 fl _ pat ⟨none, str⟩ none hs trivial
  simp only [mu]
  have : (pat.length + 2) * (str.length + 2) = str.length * (pat.length + 2) + 2 * (pat.length + 2) := by
    rw [Nat.mul_comm, Nat.add_mul]
  omega

/-! ## class names are matched exactly -/

theorem idxOf_append (x : Nat) (a b : List Nat) (h : x ∉ a) : idxOf x (a ++ x :: b) = some a.length := by
  unfold idxOf
  induction a with
  | nil => simp [List.findIdx?_cons]
  | cons y ys ih =>
    have hy : y ≠ x := fun he => h (by simp [he])
    have hys : x ∉ ys := fun hm => h (by simp [hm])
    rw [List.cons_append, List.findIdx?_cons]
    simp [hy, ih hys]

/-- a bracket expression that starts with `[:name:]` for an UNKNOWN class name (anything but
    the twelve exact names: prefixes, the empty name, wrong case, name + extra character …) never
    matches any character, whatever follows; the whole pattern tokenises to `never` -/
theorem unknown_class_never (fl : FnFlags) (name rest : List Nat) (c : Nat)
    (hn : cclassOf name = none) (hc : 58 ∉ name) :
    matchClass fl (91 :: 58 :: (name ++ 58 :: 93 :: rest)) c = none ∧
    toks fl (91 :: 91 :: 58 :: (name ++ 58 :: 93 :: rest)) = [.never] := by
  generalize hp1 : (91 :: 58 :: (name ++ 58 :: 93 :: rest)) = p1
  have hnamed : namedClass p1 = some none := by
    rw [← hp1]
    unfold namedClass
    simp only [true_or, if_true, idxOf_append 58 name (93 :: rest) hc]
    have e1 : (name ++ 58 :: 93 :: rest).getD (name.length + 1) 0 = 93 := by
      simp [List.getD_eq_getElem?_getD, List.getElem?_append_right]
    have e2 : cRB = 93 := rfl
    simp [e1, e2, hn]
  have hparse : ∀ f, parseClass fl (f + 1) p1 true true [] = .never := by
    intro f; unfold parseClass; simp [hnamed]
  have hhead : (p1.head? == some cBang || p1.head? == some cCaret) = false := by
    rw [← hp1]; simp [cBang, cCaret]
  constructor
  · rw [matchClass_eq_parse]
    simp only [hhead, Bool.false_eq_true, if_false]
    rw [show p1.length + 2 = (p1.length + 1) + 1 from rfl, hparse]
    rfl
  · rw [toks_cons]
    have e2 : ¬ ((91 : Nat) = cStar) := by decide
    have e3 : ¬ ((91 : Nat) = cQuest) := by decide
    have e4 : (91 : Nat) = cLB := by decide
    simp only [e2, e3, e4, if_true, if_false, hhead, Bool.false_eq_true]
    rw [show p1.length + 2 = (p1.length + 1) + 1 from rfl, hparse]
    have e5 : ¬ (cLB = cStar) := by decide
    have e6 : ¬ (cLB = cQuest) := by decide
    simp only [e5, e6, if_false]


end UsualProofs.C14
