import Usual.C14.Fnmatch
/-! Declarative glob semantics `Matches` and the proof that the reference matcher `refMatch`
    decides it (soundness and completeness), for every flag set (FNM_PERIOD plays no role in
    either; `fnmatchSpec` only uses the reference when FNM_PERIOD is off). -/
namespace UsualProofs.C14
open Usual.C14

/-- declarative semantics of a tokenised pattern:
    * a literal matches a character equal to it (up to case with FNM_CASEFOLD),
    * `?` and a bracket expression match one character — not `/` under FNM_PATHNAME,
    * `*` matches any string of such characters,
    * `never` matches nothing,
    * at the end of the pattern the subject must end — or, with FNM_LEADING_DIR, continue
      with `/…`. -/
inductive Matches (fl : FnFlags) : List Tok → List Nat → Prop
  | nil : Matches fl [] []
  | leading (x : Nat) (rest : List Nat) : fl.leadingDir = true → x = cSlash → Matches fl [] (x :: rest)
  | lit (c x : Nat) (ts : List Tok) (s : List Nat) :
      cmpFold fl c x = true → Matches fl ts s → Matches fl (.lit c :: ts) (x :: s)
  | any (x : Nat) (ts : List Tok) (s : List Nat) :
      okWild fl x = true → Matches fl ts s → Matches fl (.any :: ts) (x :: s)
  | cls (n : Bool) (it : List CItem) (x : Nat) (ts : List Tok) (s : List Nat) :
      okWild fl x = true → classHas fl n it x = true → Matches fl ts s →
      Matches fl (.cls n it :: ts) (x :: s)
  | star0 (m : Bool) (ts : List Tok) (s : List Nat) : Matches fl ts s → Matches fl (.star m :: ts) s
  | starS (m : Bool) (x : Nat) (ts : List Tok) (s : List Nat) :
      okWild fl x = true → Matches fl (.star m :: ts) s → Matches fl (.star m :: ts) (x :: s)

theorem starMatch_sound (fl : FnFlags) (m : Bool) (ts : List Tok) (k : List Nat → Bool)
    (hk : ∀ s, k s = true → Matches fl ts s) (s : List Nat)
    (h : starMatch k (okWild fl) s = true) : Matches fl (.star m :: ts) s := by
  induction s with
  | nil => exact .star0 _ _ _ (hk [] (by simpa [starMatch] using h))
  | cons x s ih =>
    simp only [starMatch, Bool.or_eq_true, Bool.and_eq_true] at h
    rcases h with h | ⟨h1, h2⟩
    · exact .star0 _ _ _ (hk _ h)
    · exact .starS _ _ _ _ h1 (ih h2)

theorem starMatch_of_k (k : List Nat → Bool) (ok : Nat → Bool) (s : List Nat) (h : k s = true) :
    starMatch k ok s = true := by
  cases s with
  | nil => simpa [starMatch] using h
  | cons x s => simp [starMatch, h]

theorem refMatch_sound (fl : FnFlags) (ts : List Tok) (s : List Nat)
    (h : refMatch fl ts s = true) : Matches fl ts s := by
  induction ts generalizing s with
  | nil =>
    cases s with
    | nil => exact .nil
    | cons x r =>
      simp only [refMatch, Bool.and_eq_true, beq_iff_eq] at h
      exact .leading x r h.1 h.2
  | cons t ts ih =>
    cases t with
    | never => simp [refMatch] at h
    | lit c =>
      cases s with
      | nil => simp [refMatch] at h
      | cons x r =>
        simp only [refMatch, Bool.and_eq_true] at h
        exact .lit c x ts r h.1 (ih r h.2)
    | any =>
      cases s with
      | nil => simp [refMatch] at h
      | cons x r =>
        simp only [refMatch, Bool.and_eq_true] at h
        exact .any x ts r h.1 (ih r h.2)
    | cls n it =>
      cases s with
      | nil => simp [refMatch] at h
      | cons x r =>
        simp only [refMatch, Bool.and_eq_true] at h
        exact .cls n it x ts r h.1.1 h.1.2 (ih r h.2)
    | star m =>
      simp only [refMatch] at h
      exact starMatch_sound fl m ts _ ih s h

theorem refMatch_complete (fl : FnFlags) (ts : List Tok) (s : List Nat)
    (h : Matches fl ts s) : refMatch fl ts s = true := by
  induction h with
  | nil => simp [refMatch]
  | leading x rest h1 h2 => simp [refMatch, h1, h2]
  | lit c x ts s h1 _ ih => simp [refMatch, h1, ih]
  | any x ts s h1 _ ih => simp [refMatch, h1, ih]
  | cls n it x ts s h1 h2 _ ih => simp [refMatch, h1, h2, ih]
  | star0 m ts s _ ih =>
    simp only [refMatch]
    exact starMatch_of_k _ _ _ ih
  | starS m x ts s h1 _ ih =>
    simp only [refMatch] at ih ⊢
    simp [starMatch, h1, ih]

theorem refMatch_iff (fl : FnFlags) (ts : List Tok) (s : List Nat) :
    refMatch fl ts s = true ↔ Matches fl ts s :=
  ⟨refMatch_sound fl ts s, refMatch_complete fl ts s⟩

/-- what the bracket walk of the code (`classLoop`) returns, expressed through the
    subject-independent parser of the reference (`parseClass`) -/
def classResult (fl : FnFlags) (c : Nat) (neg : Bool) (pat0 : List Nat) : BrParse → Option (List Nat)
  | .closed items rest => if items.any (itemHas fl c) != neg then some rest else none
  | .literal => if c == cLB then some pat0 else none
  | .never => none

theorem classLoop_eq_parse (fl : FnFlags) (c : Nat) (neg : Bool) (pat0 : List Nat) :
    ∀ (f : Nat) (p : List Nat) (atStart fb : Bool) (acc : List CItem),
      classLoop fl c neg pat0 f p atStart (acc.any (itemHas fl c)) fb =
        classResult fl c neg pat0 (parseClass fl f p atStart fb acc) := by
  intro f
  induction f with
  | zero => intro p a fb acc; simp [classLoop, parseClass, classResult]
  | succ f ih =>
    intro p atStart fb acc
    have hany : ∀ x, (acc.any (itemHas fl c) || itemHas fl c x) = (acc ++ [x]).any (itemHas fl c) := by
      intro x; simp [List.any_append]
    unfold classLoop parseClass
    cases hn : namedClass p with
    | some r =>
      cases r with
      | none => simp [classResult]
      | some rc =>
        obtain ⟨rest, cls⟩ := rc
        simp only []
        have := hany (.named cls)
        simp only [itemHas] at this
        rw [this]
        exact ih rest false false _
    | none =>
      simp only []
      cases p with
      | nil => cases fb <;> simp [classResult]
      | cons p0 p1 =>
        simp only []
        by_cases h1 : p0 = cRB ∧ (!atStart) = true
        · simp only [h1, and_self, if_true, classResult]
        · simp only [h1, if_false]
          by_cases h2 : (p0 = cBSl ∧ (!fl.noescape) = true) ∧ p1 = []
          · simp only [h2, and_self, if_true, classResult]
          · simp only [h2, if_false]
            generalize (if p0 = cBSl ∧ (!fl.noescape) = true then p1 else p0 :: p1) = q
            by_cases h3 : q.getD 1 0 = cMinus ∧ q.getD 2 0 ≠ cRB ∧ q.getD 2 0 ≠ 0
            · simp only [h3, ne_eq, not_false_eq_true, and_self, if_true]
              by_cases h4 : q.getD 2 0 = cBSl ∧ (!fl.noescape) = true
              · simp only [h4, and_self, if_true]
                by_cases h5 : q.getD 3 0 = 0
                · simp only [h5, if_true, classResult]
                · simp only [h5, if_false]
                  have := hany (.range (q.getD 0 0) (q.getD 3 0))
                  simp only [itemHas] at this
                  rw [this]
                  exact ih _ false fb _
              · simp only [h4, if_false]
                have := hany (.range (q.getD 0 0) (q.getD 2 0))
                simp only [itemHas] at this
                rw [this]
                exact ih _ false fb _
            · simp only [h3, if_false]
              have := hany (.ch (q.getD 0 0))
              simp only [itemHas] at this
              rw [this]
              exact ih _ false fb _


/-- `match_class` (the code's bracket walk on a concrete subject character) = parse the bracket
    expression once, independently of the subject, then test membership -/
theorem matchClass_eq_parse (fl : FnFlags) (pat : List Nat) (c : Nat) :
    matchClass fl pat c =
      (let neg := pat.head? == some cBang || pat.head? == some cCaret
       let body := if neg then pat.drop 1 else pat
       classResult fl c neg pat (parseClass fl (pat.length + 2) body true true [])) := by
  unfold matchClass
  simp only
  have := classLoop_eq_parse fl c (pat.head? == some cBang || pat.head? == some cCaret) pat
    (pat.length + 2) (if (pat.head? == some cBang || pat.head? == some cCaret) = true then pat.drop 1 else pat)
    true true []
  simpa using this

end UsualProofs.C14
