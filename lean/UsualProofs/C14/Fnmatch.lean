import Usual.C14.Fnmatch
/-! Declarative glob semantics `Matches` and the proof that the reference matcher `refMatch`
    decides it (soundness and completeness), for every flag set (FNM_PERIOD plays no role in
    either; `fnmatchSpec` only uses the reference when FNM_PERIOD is off). -/
namespace UsualProofs.C14
open Usual.C14

/-- declarative semantics of a tokenised pattern:
    * a literal matches a character equal to it (up to case with FNM_CASEFOLD),
    * `?` and a bracket expression match one character — not `/` under FNM_PATHNAME,
    * `*` matches any string of such characters,
    * `never` matches nothing,
    * at the end of the pattern the subject must end — or, with FNM_LEADING_DIR, continue
      with `/…`. -/
inductive Matches (fl : FnFlags) : List Tok → List Nat → Prop
  | nil : Matches fl [] []
  | leading (x : Nat) (rest : List Nat) : fl.leadingDir = true → x = cSlash → Matches fl [] (x :: rest)
  | lit (c x : Nat) (ts : List Tok) (s : List Nat) :
      cmpFold fl c x = true → Matches fl ts s → Matches fl (.lit c :: ts) (x :: s)
  | any (x : Nat) (ts : List Tok) (s : List Nat) :
      okWild fl x = true → Matches fl ts s → Matches fl (.any :: ts) (x :: s)
  | cls (n : Bool) (it : List CItem) (x : Nat) (ts : List Tok) (s : List Nat) :
      okWild fl x = true → classHas fl n it x = true → Matches fl ts s →
      Matches fl (.cls n it :: ts) (x :: s)
  | star0 (ts : List Tok) (s : List Nat) : Matches fl ts s → Matches fl (.star :: ts) s
  | starS (x : Nat) (ts : List Tok) (s : List Nat) :
      okWild fl x = true → Matches fl (.star :: ts) s → Matches fl (.star :: ts) (x :: s)

theorem starMatch_sound (fl : FnFlags) (ts : List Tok) (k : List Nat → Bool)
    (hk : ∀ s, k s = true → Matches fl ts s) (s : List Nat)
    (h : starMatch k (okWild fl) s = true) : Matches fl (.star :: ts) s := by
  induction s with
  | nil => exact .star0 _ _ (hk [] (by simpa [starMatch] using h))
  | cons x s ih =>
    simp only [starMatch, Bool.or_eq_true, Bool.and_eq_true] at h
    rcases h with h | ⟨h1, h2⟩
    · exact .star0 _ _ (hk _ h)
    · exact .starS _ _ _ h1 (ih h2)

theorem starMatch_of_k (k : List Nat → Bool) (ok : Nat → Bool) (s : List Nat) (h : k s = true) :
    starMatch k ok s = true := by
  cases s with
  | nil => simpa [starMatch] using h
  | cons x s => simp [starMatch, h]

theorem refMatch_sound (fl : FnFlags) (ts : List Tok) (s : List Nat)
    (h : refMatch fl ts s = true) : Matches fl ts s := by
  induction ts generalizing s with
  | nil =>
    cases s with
    | nil => exact .nil
    | cons x r =>
      simp only [refMatch, Bool.and_eq_true, beq_iff_eq] at h
      exact .leading x r h.1 h.2
  | cons t ts ih =>
    cases t with
    | never => simp [refMatch] at h
    | lit c =>
      cases s with
      | nil => simp [refMatch] at h
      | cons x r =>
        simp only [refMatch, Bool.and_eq_true] at h
        exact .lit c x ts r h.1 (ih r h.2)
    | any =>
      cases s with
      | nil => simp [refMatch] at h
      | cons x r =>
        simp only [refMatch, Bool.and_eq_true] at h
        exact .any x ts r h.1 (ih r h.2)
    | cls n it =>
      cases s with
      | nil => simp [refMatch] at h
      | cons x r =>
        simp only [refMatch, Bool.and_eq_true] at h
        exact .cls n it x ts r h.1.1 h.1.2 (ih r h.2)
    | star =>
      simp only [refMatch] at h
      exact starMatch_sound fl ts _ ih s h

theorem refMatch_complete (fl : FnFlags) (ts : List Tok) (s : List Nat)
    (h : Matches fl ts s) : refMatch fl ts s = true := by
  induction h with
  | nil => simp [refMatch]
  | leading x rest h1 h2 => simp [refMatch, h1, h2]
  | lit c x ts s h1 _ ih => simp [refMatch, h1, ih]
  | any x ts s h1 _ ih => simp [refMatch, h1, ih]
  | cls n it x ts s h1 h2 _ ih => simp [refMatch, h1, h2, ih]
  | star0 ts s _ ih =>
    simp only [refMatch]
    exact starMatch_of_k _ _ _ ih
  | starS x ts s h1 _ ih =>
    simp only [refMatch] at ih ⊢
    simp [starMatch, h1, ih]

theorem refMatch_iff (fl : FnFlags) (ts : List Tok) (s : List Nat) :
    refMatch fl ts s = true ↔ Matches fl ts s :=
  ⟨refMatch_sound fl ts s, refMatch_complete fl ts s⟩

end UsualProofs.C14
