import UsualProofs.C14.FnComplete
/-! FNM_PERIOD: position-aware declarative semantics `MatchesP` (for EVERY flag set) and the proof
    that the mirror of the code's loop is sound and complete for it.

    `MatchesP fl prev ts s`: the tokens `ts` match `s`, where `prev` is the character in front of
    `s` (`none` at the start of the string).  Differences from `Matches`:
    * a wildcard (`?`, bracket, `*`) may not consume a LEADING period under FNM_PERIOD — leading =
      at the start of the string, or right after `/` under FNM_PATHNAME (`wildOK`);
    * a `*` that is directly followed by a `.` written in the pattern, plain or escaped (`.star true`,
      `dotNext`), cannot start at a
      position where a wildcard could consume nothing (end of string, `/` under FNM_PATHNAME,
      leading period under FNM_PERIOD): the glibc-style reading of `*.` the code implements. -/
namespace UsualProofs.C14
open Usual.C14

def leadingPos (fl : FnFlags) (prev : Option Nat) : Bool :=
  prev == none || (prev == some cSlash && fl.pathname)

/-- a wildcard may consume `x`, which comes right after `prev` -/
def wildOK (fl : FnFlags) (prev : Option Nat) (x : Nat) : Bool :=
  okWild fl x && !(fl.period && x == cDot && leadingPos fl prev)

theorem disallow_cons (fl : FnFlags) (prev : Option Nat) (x : Nat) (r : List Nat) :
    disallow fl ⟨prev, x :: r⟩ = !(wildOK fl prev x) := by
  unfold disallow wildOK okWild leadingPos
  simp only
  by_cases hx : x = cSlash
  · subst hx
    cases fl.pathname <;> cases fl.period <;> simp [cSlash, cDot]
  · by_cases hd : x = cDot
    · subst hd
      cases hper : fl.period <;> cases hpa : fl.pathname <;> cases prev <;> simp [cSlash, cDot]
    · simp [hx, hd]

inductive MatchesP (fl : FnFlags) : Option Nat → List Tok → List Nat → Prop
  | nil (prev : Option Nat) : MatchesP fl prev [] []
  | leading (prev : Option Nat) (x : Nat) (rest : List Nat) :
      fl.leadingDir = true → x = cSlash → MatchesP fl prev [] (x :: rest)
  | lit (prev : Option Nat) (c x : Nat) (ts : List Tok) (s : List Nat) :
      cmpFold fl c x = true → MatchesP fl (some x) ts s → MatchesP fl prev (.lit c :: ts) (x :: s)
  | any (prev : Option Nat) (x : Nat) (ts : List Tok) (s : List Nat) :
      wildOK fl prev x = true → MatchesP fl (some x) ts s → MatchesP fl prev (.any :: ts) (x :: s)
  | cls (prev : Option Nat) (n : Bool) (it : List CItem) (x : Nat) (ts : List Tok) (s : List Nat) :
      wildOK fl prev x = true → classHas fl n it x = true → MatchesP fl (some x) ts s →
      MatchesP fl prev (.cls n it :: ts) (x :: s)
  | starDot (prev : Option Nat) (ts : List Tok) (s : List Nat) :
      disallow fl ⟨prev, s⟩ = false → MatchesP fl prev (.star false :: ts) s →
      MatchesP fl prev (.star true :: ts) s
  | star0 (prev : Option Nat) (ts : List Tok) (s : List Nat) :
      MatchesP fl prev ts s → MatchesP fl prev (.star false :: ts) s
  | starS (prev : Option Nat) (x : Nat) (ts : List Tok) (s : List Nat) :
      wildOK fl prev x = true → MatchesP fl (some x) (.star false :: ts) s →
      MatchesP fl prev (.star false :: ts) (x :: s)

/-- a one-character token accepts `x` after `prev` -/
def tokWildP (fl : FnFlags) (prev : Option Nat) (t : Tok) (x : Nat) : Bool :=
  match t with
  | .lit c => cmpFold fl c x
  | .any => wildOK fl prev x
  | .cls n it => wildOK fl prev x && classHas fl n it x
  | .star _ => false
  | .never => false

/-- the character in front of what follows `pre` -/
def endPrev (prev : Option Nat) : List Nat → Option Nat
  | [] => prev
  | x :: r => endPrev (some x) r

def segMP (fl : FnFlags) : Option Nat → List Tok → List Nat → Bool
  | _, [], [] => true
  | prev, t :: ts, x :: r => tokWildP fl prev t x && segMP fl (some x) ts r
  | _, _, _ => false

def allWildP (fl : FnFlags) : Option Nat → List Nat → Bool
  | _, [] => true
  | prev, x :: r => wildOK fl prev x && allWildP fl (some x) r

theorem endPrev_append (prev : Option Nat) (a b : List Nat) :
    endPrev prev (a ++ b) = endPrev (endPrev prev a) b := by
  induction a generalizing prev with
  | nil => rfl
  | cons x r ih => exact ih (some x)

theorem endPrev_snoc (prev : Option Nat) (a : List Nat) (x : Nat) : endPrev prev (a ++ [x]) = some x := by
  rw [endPrev_append]; rfl

theorem matchesP_one (fl : FnFlags) (prev : Option Nat) (t : Tok) (x : Nat) (ts : List Tok) (s : List Nat)
    (h : tokWildP fl prev t x = true) (hm : MatchesP fl (some x) ts s) : MatchesP fl prev (t :: ts) (x :: s) := by
  cases t with
  | lit c => exact .lit prev c x ts s h hm
  | any => exact .any prev x ts s h hm
  | cls n it =>
    simp only [tokWildP, Bool.and_eq_true] at h
    exact .cls prev n it x ts s h.1 h.2 hm
  | star m => simp [tokWildP] at h
  | never => simp [tokWildP] at h

theorem matchesP_one_inv (fl : FnFlags) (prev : Option Nat) (t : Tok) (ts : List Tok) (X : List Nat)
    (ht : isStar t = false) (hm : MatchesP fl prev (t :: ts) X) :
    ∃ x s, X = x :: s ∧ tokWildP fl prev t x = true ∧ MatchesP fl (some x) ts s := by
  cases hm with
  | lit _ c x ts s h1 h2 => exact ⟨x, s, rfl, h1, h2⟩
  | any _ x ts s h1 h2 => exact ⟨x, s, rfl, h1, h2⟩
  | cls _ n it x ts s h1 h2 h3 => exact ⟨x, s, rfl, by simp [tokWildP, h1, h2], h3⟩
  | starDot _ ts s h1 h2 => simp [isStar] at ht
  | star0 _ ts s h => simp [isStar] at ht
  | starS _ x ts s h1 h2 => simp [isStar] at ht

theorem starP_inv (fl : FnFlags) (prev : Option Nat) (ts : List Tok) (s : List Nat)
    (hm : MatchesP fl prev (.star false :: ts) s) :
    MatchesP fl prev ts s ∨
      ∃ x r, s = x :: r ∧ wildOK fl prev x = true ∧ MatchesP fl (some x) (.star false :: ts) r := by
  cases hm with
  | star0 _ ts s h => exact .inl h
  | starS _ x ts s h1 h2 => exact .inr ⟨x, s, rfl, h1, h2⟩

theorem starP_true_inv (fl : FnFlags) (prev : Option Nat) (ts : List Tok) (s : List Nat)
    (hm : MatchesP fl prev (.star true :: ts) s) :
    disallow fl ⟨prev, s⟩ = false ∧ MatchesP fl prev (.star false :: ts) s := by
  cases hm with
  | starDot _ ts s h1 h2 => exact ⟨h1, h2⟩

/-- entering a `*` token with mark `m` -/
theorem starP_enter (fl : FnFlags) (prev : Option Nat) (m : Bool) (ts : List Tok) (s : List Nat)
    (hq : m = true → disallow fl ⟨prev, s⟩ = false) (hm : MatchesP fl prev (.star false :: ts) s) :
    MatchesP fl prev (.star m :: ts) s := by
  cases m with
  | false => exact hm
  | true => exact .starDot prev ts s (hq rfl) hm

theorem starP_body (fl : FnFlags) (prev : Option Nat) (m : Bool) (ts : List Tok) (s : List Nat)
    (hm : MatchesP fl prev (.star m :: ts) s) :
    (m = true → disallow fl ⟨prev, s⟩ = false) ∧ MatchesP fl prev (.star false :: ts) s := by
  cases m with
  | false => exact ⟨fun h => Bool.noConfusion h, hm⟩
  | true => exact ⟨fun _ => (starP_true_inv fl prev ts s hm).1, (starP_true_inv fl prev ts s hm).2⟩

theorem no_neverP (fl : FnFlags) (prev : Option Nat) (ts : List Tok) (s : List Nat)
    (hm : MatchesP fl prev ts s) : Tok.never ∉ ts := by
  induction hm with
  | nil => simp
  | leading => simp
  | lit _ c x ts s _ _ ih => simp [ih]
  | any _ x ts s _ _ ih => simp [ih]
  | cls _ n it x ts s _ _ _ ih => simp [ih]
  | starDot _ ts s _ _ ih => simpa using ih
  | star0 _ ts s _ ih => simp [ih]
  | starS _ x ts s _ _ ih => exact ih

theorem segMP_length (fl : FnFlags) : ∀ (prev : Option Nat) (seg : List Tok) (pre : List Nat),
    segMP fl prev seg pre = true → pre.length = seg.length
  | _, [], [], _ => rfl
  | _, [], _ :: _, h => by simp [segMP] at h
  | _, _ :: _, [], h => by simp [segMP] at h
  | prev, t :: ts, x :: r, h => by
    simp only [segMP, Bool.and_eq_true] at h
    simp [segMP_length fl (some x) ts r h.2]

theorem segMP_snoc (fl : FnFlags) : ∀ (prev : Option Nat) (seg : List Tok) (pre : List Nat) (t : Tok) (x : Nat),
    segMP fl prev seg pre = true → tokWildP fl (endPrev prev pre) t x = true →
    segMP fl prev (seg ++ [t]) (pre ++ [x]) = true
  | _, [], [], t, x, _, h => by simpa [segMP, endPrev] using h
  | _, [], _ :: _, _, _, h, _ => by simp [segMP] at h
  | _, _ :: _, [], _, _, h, _ => by simp [segMP] at h
  | prev, u :: ts, y :: r, t, x, h, ht => by
    simp only [segMP, Bool.and_eq_true, List.cons_append] at h ⊢
    exact ⟨h.1, segMP_snoc fl (some y) ts r t x h.2 ht⟩

theorem segMP_ne_star (fl : FnFlags) : ∀ (prev : Option Nat) (seg : List Tok) (pre : List Nat),
    segMP fl prev seg pre = true → ∀ t ∈ seg, isStar t = false
  | _, [], _, _ => by simp
  | _, _ :: _, [], h => by simp [segMP] at h
  | prev, u :: ts, y :: r, h => by
    simp only [segMP, Bool.and_eq_true] at h
    intro t ht
    simp only [List.mem_cons] at ht
    rcases ht with rfl | ht
    · have h1 := h.1
      cases t <;> simp [tokWildP, isStar] at h1 ⊢
    · exact segMP_ne_star fl (some y) ts r h.2 t ht

theorem seg_stripP (fl : FnFlags) : ∀ (prev : Option Nat) (seg : List Tok) (pre : List Nat) (T : List Tok)
    (Y : List Nat), segMP fl prev seg pre = true → MatchesP fl prev (seg ++ T) (pre ++ Y) →
    MatchesP fl (endPrev prev pre) T Y
  | _, [], [], _, _, _, hm => hm
  | _, [], _ :: _, _, _, h, _ => by simp [segMP] at h
  | _, _ :: _, [], _, _, h, _ => by simp [segMP] at h
  | prev, u :: ts, y :: r, T, Y, h, hm => by
    simp only [segMP, Bool.and_eq_true] at h
    have hu : isStar u = false := by
      have h1 := h.1
      cases u <;> simp [tokWildP, isStar] at h1 ⊢
    obtain ⟨x, s, he, _, hm'⟩ := matchesP_one_inv fl prev u (ts ++ T) _ hu hm
    simp only [List.cons_append, List.cons.injEq] at he
    obtain ⟨rfl, rfl⟩ := he
    exact seg_stripP fl (some y) ts r T Y h.2 hm'

theorem seg_glueP (fl : FnFlags) : ∀ (prev : Option Nat) (seg : List Tok) (pre : List Nat) (T : List Tok)
    (Y : List Nat), segMP fl prev seg pre = true → MatchesP fl (endPrev prev pre) T Y →
    MatchesP fl prev (seg ++ T) (pre ++ Y)
  | _, [], [], _, _, _, hm => hm
  | _, [], _ :: _, _, _, h, _ => by simp [segMP] at h
  | _, _ :: _, [], _, _, h, _ => by simp [segMP] at h
  | prev, u :: ts, y :: r, T, Y, h, hm => by
    simp only [segMP, Bool.and_eq_true] at h
    exact matchesP_one fl prev u y _ _ h.1 (seg_glueP fl (some y) ts r T Y h.2 hm)

theorem seg_splitP (fl : FnFlags) : ∀ (prev : Option Nat) (seg : List Tok) (T : List Tok) (X : List Nat),
    (∀ t ∈ seg, isStar t = false) → MatchesP fl prev (seg ++ T) X →
    ∃ pre Y, X = pre ++ Y ∧ segMP fl prev seg pre = true ∧ MatchesP fl (endPrev prev pre) T Y
  | prev, [], T, X, _, hm => ⟨[], X, rfl, rfl, hm⟩
  | prev, u :: ts, T, X, hs, hm => by
    obtain ⟨x, s, rfl, hx, hm'⟩ := matchesP_one_inv fl prev u (ts ++ T) X (hs u (by simp)) hm
    obtain ⟨pre, Y, rfl, h1, h2⟩ := seg_splitP fl (some x) ts T s (fun t ht => hs t (by simp [ht])) hm'
    exact ⟨x :: pre, Y, rfl, by simp [segMP, hx, h1], h2⟩

theorem star_decompP (fl : FnFlags) (U : List Tok) : ∀ (X : List Nat) (prev : Option Nat),
    MatchesP fl prev (.star false :: U) X →
    ∃ A R, X = A ++ R ∧ allWildP fl prev A = true ∧ MatchesP fl (endPrev prev A) U R
  | [], prev, hm => by
    rcases starP_inv fl prev U [] hm with h | ⟨x, r, he, _, _⟩
    · exact ⟨[], [], rfl, rfl, h⟩
    · cases he
  | x :: X, prev, hm => by
    rcases starP_inv fl prev U (x :: X) hm with h | ⟨y, r, he, hy, hm'⟩
    · exact ⟨[], x :: X, rfl, rfl, h⟩
    · simp only [List.cons.injEq] at he
      obtain ⟨rfl, rfl⟩ := he
      obtain ⟨A, R, rfl, hA, hR⟩ := star_decompP fl U X (some x) hm'
      exact ⟨x :: A, R, rfl, by simp [allWildP, hy, hA], hR⟩

theorem star_absorbP (fl : FnFlags) (T : List Tok) (C : List Nat) : ∀ (W : List Nat) (prev : Option Nat),
    allWildP fl prev W = true → MatchesP fl (endPrev prev W) (.star false :: T) C →
    MatchesP fl prev (.star false :: T) (W ++ C)
  | [], _, _, hm => hm
  | w :: W, prev, hW, hm => by
    simp only [allWildP, Bool.and_eq_true] at hW
    exact .starS prev w T (W ++ C) hW.1 (star_absorbP fl T C W (some w) hW.2 hm)

/-! ## soundness of the loop for `MatchesP`, every flag set -/

theorem okWild_of_not_disallowP (fl : FnFlags) (prev : Option Nat) (x : Nat) (r : List Nat)
    (h : disallow fl ⟨prev, x :: r⟩ = false) : wildOK fl prev x = true := by
  rw [disallow_cons] at h
  simpa using h

/-- the retry label: if it leads to a match, the invariant of the remembered `*` gives the goal -/
theorem retry_soundP (fl : FnFlags) (G : Prop) (f : Nat)
    (ih : ∀ (p : List Nat) (s : SPos) (retry : Option (List Nat × SPos)),
      (∀ c ∈ p, c ≠ 0) → (∀ c ∈ s.rest, c ≠ 0) →
      (∀ rp skip, retry = some (rp, skip) → (∀ c ∈ rp, c ≠ 0) ∧ (∀ c ∈ skip.rest, c ≠ 0)) →
      (MatchesP fl s.prev (toks fl p) s.rest → G) →
      (∀ rp skip, retry = some (rp, skip) → MatchesP fl skip.prev (.star false :: toks fl rp) skip.rest → G) →
      wfn fl f p s retry = 0 → G)
    (s : SPos) (retry : Option (List Nat × SPos))
    (hr0 : ∀ rp skip, retry = some (rp, skip) → (∀ c ∈ rp, c ≠ 0) ∧ (∀ c ∈ skip.rest, c ≠ 0))
    (I2 : ∀ rp skip, retry = some (rp, skip) → MatchesP fl skip.prev (.star false :: toks fl rp) skip.rest → G)
    (h : (match retryStep fl s retry with
          | .inl r => r
          | .inr (p', s', retry') => wfn fl f p' s' retry') = 0) : G := by
  unfold retryStep at h
  cases retry with
  | none => simp at h
  | some rs =>
    obtain ⟨rp, skip⟩ := rs
    obtain ⟨hrp0, hsk0⟩ := hr0 rp skip rfl
    simp only at h
    split at h
    · next heq =>
      -- a result
      split at heq
      · cases heq; simp at h
      · split at heq
        · next hskip =>
          cases heq
          split at h
          · next hrp =>
            subst hrp
            apply I2 [] skip rfl
            rw [hskip, toks_nil]
            exact .star0 _ _ _ (.nil _)
          · simp at h
        · split at heq
          · cases heq; simp at h
          · cases heq
    · next p' s' retry' heq =>
      split at heq
      · cases heq
      · split at heq
        · cases heq
        · next hskip =>
          split at heq
          · cases heq
          · next hdis =>
            simp only [Sum.inr.injEq, Prod.mk.injEq] at heq
            obtain ⟨rfl, rfl, rfl⟩ := heq
            obtain ⟨prev, rest⟩ := skip
            cases rest with
            | nil => exact absurd rfl hskip
            | cons x r =>
              have hok : wildOK fl prev x = true :=
                okWild_of_not_disallowP fl prev x r (by simpa using hdis)
              have hadv : (SPos.adv ⟨prev, x :: r⟩) = ⟨some x, r⟩ := rfl
              rw [hadv] at h
              apply ih rp ⟨some x, r⟩ _ hrp0 (fun c hc => hsk0 c (by simp [hc])) ?_ ?_ ?_ h
              · intro rp' skip' he
                simp only [Option.some.injEq, Prod.mk.injEq] at he
                obtain ⟨rfl, rfl⟩ := he
                exact ⟨hrp0, fun c hc => hsk0 c (by simp [hc])⟩
              · intro hm
                exact I2 rp ⟨prev, x :: r⟩ rfl (.starS _ x _ r hok (.star0 _ _ _ hm))
              · intro rp' skip' he hm
                simp only [Option.some.injEq, Prod.mk.injEq] at he
                obtain ⟨rfl, rfl⟩ := he
                exact I2 _ ⟨prev, x :: r⟩ rfl (.starS _ x _ r hok hm)

theorem wfn_soundP (fl : FnFlags) (G : Prop) : ∀ (f : Nat) (p : List Nat) (s : SPos) (retry : Option (List Nat × SPos)),
      (∀ c ∈ p, c ≠ 0) → (∀ c ∈ s.rest, c ≠ 0) →
      (∀ rp skip, retry = some (rp, skip) → (∀ c ∈ rp, c ≠ 0) ∧ (∀ c ∈ skip.rest, c ≠ 0)) →
      (MatchesP fl s.prev (toks fl p) s.rest → G) →
      (∀ rp skip, retry = some (rp, skip) → MatchesP fl skip.prev (.star false :: toks fl rp) skip.rest → G) →
      wfn fl f p s retry = 0 → G := by
  intro f
  induction f with
  | zero => intro p s retry _ _ _ _ _ h; simp [wfn] at h
  | succ f ih =>
    intro p s retry hp0 hs0 hr0 I1 I2 h
    unfold wfn at h
    simp only at h
    -- the retry label
    have retryCase : (match retryStep fl s retry with
          | .inl r => r
          | .inr (p', s', retry') => wfn fl f p' s' retry') = 0 → G :=
      retry_soundP fl G f ih s retry hr0 I2
    -- a position that a wildcard may consume
    have wild : disallow fl s = false → ∃ x r, s.rest = x :: r ∧ wildOK fl s.prev x = true := by
      intro hd
      obtain ⟨prev, rest⟩ := s
      cases rest with
      | nil => simp [disallow] at hd
      | cons x r => exact ⟨x, r, rfl, okWild_of_not_disallowP fl prev x r hd⟩
    -- matching one literal character
    have litCase : ∀ (pc : Nat) (prest : List Nat), pc ≠ 0 → (∀ c ∈ prest, c ≠ 0) →
        (∀ x r, cmpFold fl pc x = true → MatchesP fl (some x) (toks fl prest) r → MatchesP fl s.prev (toks fl p) (x :: r)) →
        (if s.rest.getD 0 0 = cSlash ∧ pc = 0 ∧ fl.leadingDir = true then 0
         else if (!cmpFold fl pc (s.rest.getD 0 0)) = true then
           (match retryStep fl s retry with
            | .inl r => r
            | .inr (p', s', retry') => wfn fl f p' s' retry')
         else if s.rest = [] then 0 else wfn fl f prest s.adv retry) = 0 → G := by
      intro pc prest hpc hpr0 hstep hh
      have e1 : ¬ (s.rest.getD 0 0 = cSlash ∧ pc = 0 ∧ fl.leadingDir = true) := fun hc => hpc hc.2.1
      simp only [e1, if_false] at hh
      by_cases hcf : cmpFold fl pc (s.rest.getD 0 0) = true
      · simp only [hcf, Bool.not_true, Bool.false_eq_true, if_false] at hh
        obtain ⟨prev, rest⟩ := s
        cases rest with
        | nil =>
          exfalso
          simp only [List.getD_eq_getElem?_getD, List.getElem?_nil, Option.getD_none] at hcf
          exact hpc (cmpFold_zero fl pc hcf)
        | cons x r =>
          simp only [List.getD_cons_zero] at hcf
          have hne : ¬ (x :: r = []) := by simp
          simp only [hne, if_false] at hh
          exact ih prest ⟨some x, r⟩ retry hpr0 (fun c hc => hs0 c (by simp [hc])) hr0
            (fun hm => I1 (hstep x r hcf hm)) I2 hh
      · have : cmpFold fl pc (s.rest.getD 0 0) = false := by simpa using hcf
        simp only [this, Bool.not_false, if_true] at hh
        exact retryCase hh
    cases p with
    | nil =>
      simp only at h
      rw [toks_nil] at I1
      by_cases hl : s.rest.getD 0 0 = cSlash ∧ True ∧ fl.leadingDir = true
      · obtain ⟨prev, rest⟩ := s
        cases rest with
        | nil => simp [cSlash] at hl
        | cons x r =>
          simp only [List.getD_cons_zero] at hl
          exact I1 (.leading _ x r hl.2.2 hl.1)
      · simp only [hl, if_false] at h
        by_cases hcf : cmpFold fl 0 (s.rest.getD 0 0) = true
        · simp only [hcf, Bool.not_true, Bool.false_eq_true, if_false] at h
          have hz := cmpFold_zero' fl _ hcf
          obtain ⟨prev, rest⟩ := s
          cases rest with
          | nil => exact I1 (.nil _)
          | cons x r =>
            simp only [List.getD_cons_zero] at hz
            exact absurd hz (hs0 x (by simp))
        · have : cmpFold fl 0 (s.rest.getD 0 0) = false := by simpa using hcf
          simp only [this, Bool.not_false, if_true] at h
          exact retryCase h
    | cons pc p1 =>
      simp only at h
      have hp1 : ∀ c ∈ p1, c ≠ 0 := fun c hc => hp0 c (by simp [hc])
      have hpc0 : pc ≠ 0 := hp0 pc (by simp)
      have htk := toks_cons fl pc p1
      by_cases c1 : pc = cStar
      · simp only [c1, if_true] at h
        rw [if_pos c1] at htk
        split at h
        · cases h
        · next hq =>
          rw [htk] at I1
          have hq' : (dotNext fl p1) = true → disallow fl ⟨s.prev, s.rest⟩ = false := by
            intro hm
            cases hd : disallow fl s with
            | false => rfl
            | true => exact absurd (by simp [hm, hd]) hq
          exact ih p1 s (some (p1, s)) hp1 hs0
            (fun rp skip he => by
              simp only [Option.some.injEq, Prod.mk.injEq] at he
              obtain ⟨rfl, rfl⟩ := he; exact ⟨hp1, hs0⟩)
            (fun hm => I1 (starP_enter fl _ _ _ _ hq' (.star0 _ _ _ hm)))
            (fun rp skip he hm => by
              simp only [Option.some.injEq, Prod.mk.injEq] at he
              obtain ⟨rfl, rfl⟩ := he; exact I1 (starP_enter fl _ _ _ _ hq' hm)) h
      · simp only [c1, if_false] at h
        rw [if_neg c1] at htk
        by_cases c2 : pc = cQuest
        · simp only [c2, if_true] at h
          rw [if_pos c2] at htk
          by_cases hd : disallow fl s = true
          · simp only [hd, if_true] at h; exact retryCase h
          · have hd' : disallow fl s = false := by simpa using hd
            simp only [hd', Bool.false_eq_true, if_false] at h
            obtain ⟨x, r, hsr, hok⟩ := wild hd'
            obtain ⟨prev, rest⟩ := s
            simp only at hsr
            subst hsr
            rw [htk] at I1
            exact ih p1 ⟨some x, r⟩ retry hp1 (fun c hc => hs0 c (by simp [hc])) hr0
              (fun hm => I1 (.any _ x _ r hok hm)) I2 h
        · simp only [c2, if_false] at h
          rw [if_neg c2] at htk
          by_cases c3 : pc = cLB
          · simp only [c3, if_true] at h
            rw [if_pos c3] at htk
            by_cases hd : disallow fl s = true
            · simp only [hd, if_true] at h; exact retryCase h
            · have hd' : disallow fl s = false := by simpa using hd
              simp only [hd', Bool.false_eq_true, if_false] at h
              obtain ⟨x, r, hsr, hok⟩ := wild hd'
              obtain ⟨prev, rest⟩ := s
              simp only at hsr
              subst hsr
              simp only [List.getD_cons_zero] at h
              cases hmc : matchClass fl p1 x with
              | none => simp only [hmc] at h; exact retryCase h
              | some rest' =>
                simp only [hmc] at h
                rw [matchClass_eq_parse] at hmc
                simp only at hmc
                rw [htk] at I1
                cases hpc : parseClass fl (p1.length + 2)
                    (if (p1.head? == some cBang || p1.head? == some cCaret) = true then List.drop 1 p1 else p1)
                    true true [] with
                | closed items rest =>
                  rw [hpc] at hmc I1
                  simp only [classResult] at hmc I1
                  split at hmc
                  · next hin =>
                    cases hmc
                    have hsuf := parseClass_rest_suffix fl _ _ _ _ _ _ _ hpc
                    have hb : (if (p1.head? == some cBang || p1.head? == some cCaret) = true then List.drop 1 p1 else p1)
                        <:+ p1 := by
                      split
                      · exact List.drop_suffix _ _
                      · exact List.suffix_refl _
                    have hr0' : ∀ c ∈ rest', c ≠ 0 := fun c hc => hp1 c ((hsuf.trans hb).subset hc)
                    exact ih rest' ⟨some x, r⟩ retry hr0' (fun c hc => hs0 c (by simp [hc])) hr0
                      (fun hm => I1 (.cls _ _ items x _ r hok (by simpa [classHas] using hin) hm)) I2 h
                  · cases hmc
                | literal =>
                  rw [hpc] at hmc I1
                  simp only [classResult] at hmc I1
                  split at hmc
                  · next hx =>
                    cases hmc
                    have hx' : x = cLB := by simpa using hx
                    exact ih p1 ⟨some x, r⟩ retry hp1 (fun c hc => hs0 c (by simp [hc])) hr0
                      (fun hm => I1 (.lit _ cLB x _ r (by simp [cmpFold, hx']) hm)) I2 h
                  · cases hmc
                | never =>
                  rw [hpc] at hmc
                  simp [classResult] at hmc
          · simp only [c3, if_false] at h
            rw [if_neg c3] at htk
            by_cases c4 : pc = cBSl ∧ (!fl.noescape) = true
            · simp only [c4, and_self, if_true] at h
              rw [if_pos c4] at htk
              cases p1 with
              | nil => simp at h
              | cons e p2 =>
                simp only at h htk
                exact litCase e p2 (hp1 e (by simp)) (fun c hc => hp1 c (by simp [hc]))
                  (fun x r hcf hm => by rw [htk]; exact .lit _ e x _ r hcf hm) h
            · simp only [c4, if_false] at h
              rw [if_neg c4] at htk
              exact litCase pc p1 hpc0 hp1
                (fun x r hcf hm => by rw [htk]; exact .lit _ pc x _ r hcf hm) h

/-- whenever the code's loop reports a match, the pattern (tokenised) matches the subject in the
    declarative semantics -/
theorem wfnmatch_soundP (fl : FnFlags) (pat str : List Nat) (hp : ∀ c ∈ pat, c ≠ 0) (hs : ∀ c ∈ str, c ≠ 0)
    (h : wfnmatch fl pat str = 0) : MatchesP fl none (tokenize fl (pat.length + 1) pat) str := by
  unfold wfnmatch at h
  exact wfn_soundP fl _ _ pat ⟨none, str⟩ none hp hs (fun _ _ he => by cases he) id
    (fun _ _ he => by cases he) h


/-! ## the greedy step, position-aware -/

theorem wildOK_okWild (fl : FnFlags) (prev : Option Nat) (x : Nat) (h : wildOK fl prev x = true) :
    okWild fl x = true := by
  simp only [wildOK, Bool.and_eq_true] at h; exact h.1

theorem allWildP_okWild (fl : FnFlags) : ∀ (prev : Option Nat) (A : List Nat), allWildP fl prev A = true →
    ∀ a ∈ A, okWild fl a = true
  | _, [], _ => by simp
  | prev, x :: r, h => by
    simp only [allWildP, Bool.and_eq_true] at h
    intro a ha
    simp only [List.mem_cons] at ha
    rcases ha with rfl | ha
    · exact wildOK_okWild fl prev a h.1
    · exact allWildP_okWild fl (some x) r h.2 a ha

theorem leadingPos_some (fl : FnFlags) (x : Nat) (h : okWild fl x = true) : leadingPos fl (some x) = false := by
  simp only [leadingPos, okWild] at h ⊢
  by_cases hx : x = cSlash
  · subst hx; cases hp : fl.pathname <;> simp_all
  · simp [hx]

theorem wildOK_of_not_leading (fl : FnFlags) (prev : Option Nat) (x : Nat) (hl : leadingPos fl prev = false)
    (h : okWild fl x = true) : wildOK fl prev x = true := by
  simp [wildOK, hl, h]

theorem allWildP_of_okWild (fl : FnFlags) : ∀ (prev : Option Nat) (W : List Nat),
    leadingPos fl prev = false → (∀ w ∈ W, okWild fl w = true) → allWildP fl prev W = true
  | _, [], _, _ => rfl
  | prev, x :: r, hl, h => by
    have hx := h x (by simp)
    simp only [allWildP, Bool.and_eq_true]
    exact ⟨wildOK_of_not_leading fl prev x hl hx,
      allWildP_of_okWild fl (some x) r (leadingPos_some fl x hx) (fun w hw => h w (by simp [hw]))⟩

theorem tokWildP_slash (fl : FnFlags) (hp : fl.pathname = true) (prev : Option Nat) (t : Tok) (x : Nat)
    (h : tokWildP fl prev t x = true) : (x == cSlash) = slashTok t := by
  cases t with
  | lit c => exact tokWild_slash fl hp (.lit c) x (by simpa [tokWildP, tokWild] using h)
  | any =>
    have := wildOK_okWild fl prev x (by simpa [tokWildP] using h)
    exact tokWild_slash fl hp .any x (by simpa [tokWild] using this)
  | cls n it =>
    simp only [tokWildP, Bool.and_eq_true] at h
    have := wildOK_okWild fl prev x h.1
    exact tokWild_slash fl hp (.cls n it) x (by simp [tokWild, this, h.2])
  | star m => simp [tokWildP] at h
  | never => simp [tokWildP] at h

theorem segMP_slash (fl : FnFlags) (hp : fl.pathname = true) : ∀ (prev : Option Nat) (seg : List Tok) (w : List Nat),
    segMP fl prev seg w = true → w.map (· == cSlash) = seg.map slashTok
  | _, [], [], _ => rfl
  | _, [], _ :: _, h => by simp [segMP] at h
  | _, _ :: _, [], h => by simp [segMP] at h
  | prev, t :: ts, x :: r, h => by
    simp only [segMP, Bool.and_eq_true] at h
    simp only [List.map_cons, tokWildP_slash fl hp prev t x h.1, segMP_slash fl hp (some x) ts r h.2]

theorem endPrev_mem (prev : Option Nat) : ∀ (pre : List Nat), pre ≠ [] → ∃ z ∈ pre, endPrev prev pre = some z
  | [], h => absurd rfl h
  | [x], _ => ⟨x, by simp, rfl⟩
  | x :: y :: r, _ => by
    obtain ⟨z, hz, he⟩ := endPrev_mem (some x) (y :: r) (by simp)
    exact ⟨z, List.mem_cons_of_mem x hz, he⟩

/-- the greedy lemma, position-aware and including the `*.` entry condition of the later `*` -/
theorem greedyP (fl : FnFlags) (prev : Option Nat) (m2 : Bool) (seg : List Tok) (pre : List Nat) (T : List Tok)
    (Y : List Nat) (hseg : segMP fl prev seg pre = true)
    (hm : MatchesP fl prev (.star false :: (seg ++ .star m2 :: T)) (pre ++ Y)) :
    MatchesP fl (endPrev prev pre) (.star m2 :: T) Y := by
  obtain ⟨A, R, hX, hA, hR⟩ := star_decompP fl _ _ _ hm
  obtain ⟨B, C, rfl, hB, hC⟩ := seg_splitP fl _ seg (.star m2 :: T) R (segMP_ne_star fl prev seg pre hseg) hR
  have hlp := segMP_length fl prev seg pre hseg
  have hlb := segMP_length fl _ seg B hB
  rw [← endPrev_append] at hC
  cases A with
  | nil =>
    simp only [List.nil_append] at hX hC
    have := List.append_inj hX (by omega)
    rw [this.1, this.2]; exact hC
  | cons a0 A' =>
    obtain ⟨hq, hbody⟩ := starP_body fl _ m2 T C hC
    have hpre : pre = ((a0 :: A') ++ B).take B.length := by
      have h1 := congrArg (List.take pre.length) hX
      rw [List.take_left] at h1
      rw [h1, ← List.append_assoc, List.take_append_of_le_length (by simp; omega)]
      congr 1; omega
    have hY : Y = ((a0 :: A') ++ B).drop B.length ++ C := by
      have h1 := congrArg (List.drop pre.length) hX
      rw [List.drop_left] at h1
      rw [h1, ← List.append_assoc, List.drop_append_of_le_length (by simp; omega)]
      congr 2; omega
    have hZ : pre ++ ((a0 :: A') ++ B).drop B.length = (a0 :: A') ++ B := by
      rw [hpre]; exact List.take_append_drop _ _
    have hAok := allWildP_okWild fl prev (a0 :: A') hA
    -- every character of A ++ B may be consumed by a wildcard as far as `/` is concerned
    have hZok : ∀ w ∈ (a0 :: A') ++ B, okWild fl w = true := by
      by_cases hp : fl.pathname = true
      · have hAs : (a0 :: A').map (· == cSlash) = List.replicate (a0 :: A').length false := by
          apply List.eq_replicate_iff.mpr
          refine ⟨by simp, fun b hb => ?_⟩
          obtain ⟨x, hx, rfl⟩ := List.mem_map.mp hb
          have := hAok x hx
          rw [okWild_pathname fl hp] at this
          simpa using this
        have h1 := segMP_slash fl hp prev seg pre hseg
        have h2 := segMP_slash fl hp _ seg B hB
        have hσ : B.map (· == cSlash) =
            (List.replicate (a0 :: A').length false ++ B.map (· == cSlash)).take (B.map (· == cSlash)).length := by
          rw [← hAs, ← List.map_append, ← List.map_take, List.length_map, ← hpre, h1, h2]
        have hBf := all_false_of_getElem? _ (periodic_false _ (a0 :: A').length (by simp) hσ)
        intro w hw
        rw [okWild_pathname fl hp]
        rcases List.mem_append.mp hw with hwA | hwB
        · have := hAok w hwA
          rw [okWild_pathname fl hp] at this; exact this
        · have := hBf (w == cSlash) (List.mem_map.mpr ⟨w, hwB, rfl⟩)
          simp [this]
      · intro w _
        have : fl.pathname = false := by simpa using hp
        simp [okWild, this]
    -- the characters the later `*` takes over
    have hW : allWildP fl (endPrev prev pre) (((a0 :: A') ++ B).drop B.length) = true := by
      by_cases hpe : pre = []
      · have hB0 : B = [] := List.eq_nil_of_length_eq_zero (by rw [hlb, ← hlp, hpe]; rfl)
        subst hpe; subst hB0
        simpa [endPrev] using hA
      · obtain ⟨z, hz, hez⟩ := endPrev_mem prev pre hpe
        rw [hez]
        have hzZ : z ∈ (a0 :: A') ++ B := by
          rw [← hZ]; exact List.mem_append_left _ hz
        exact allWildP_of_okWild fl (some z) _ (leadingPos_some fl z (hZok z hzZ))
          (fun w hw => hZok w (List.mem_of_mem_drop hw))
    have hend : endPrev (endPrev prev pre) (((a0 :: A') ++ B).drop B.length) = endPrev prev ((a0 :: A') ++ B) := by
      rw [← endPrev_append, hZ]
    rw [hY]
    apply starP_enter
    · intro hm2
      have hWne : ((a0 :: A') ++ B).drop B.length ≠ [] := by
        intro h0
        have := congrArg List.length h0
        simp at this
        omega
      cases hWl : ((a0 :: A') ++ B).drop B.length with
      | nil => exact absurd hWl hWne
      | cons w0 W' =>
        rw [hWl] at hW
        simp only [allWildP, Bool.and_eq_true] at hW
        simp only [List.cons_append]
        rw [disallow_cons, hW.1]; rfl
    · apply star_absorbP fl T C _ _ hW
      rw [hend]; exact hbody

/-! ## completeness of the loop for `MatchesP`, every flag set -/

/-- what is known about the remembered `*` while the loop stands at `(p, s)` -/
def RInvP (fl : FnFlags) (p : List Nat) (s : SPos) (rp : List Nat) (skip : SPos) : Prop :=
  nz rp ∧ nz skip.rest ∧ p.length ≤ rp.length ∧
  (∃ seg pre, toks fl rp = seg ++ toks fl p ∧ skip.rest = pre ++ s.rest ∧
    segMP fl skip.prev seg pre = true ∧ s.prev = endPrev skip.prev pre) ∧
  MatchesP fl skip.prev (.star false :: toks fl rp) skip.rest

def CInvP (fl : FnFlags) (p : List Nat) (s : SPos) : Option (List Nat × SPos) → Prop
  | none => MatchesP fl s.prev (toks fl p) s.rest
  | some (rp, skip) => RInvP fl p s rp skip

theorem cinv_advanceP (fl : FnFlags) (p p' : List Nat) (t : Tok) (prev : Option Nat) (x : Nat) (r : List Nat)
    (retry : Option (List Nat × SPos))
    (htk : toks fl p = t :: toks fl p') (hx : tokWildP fl prev t x = true) (hlen : p'.length < p.length)
    (hc : CInvP fl p ⟨prev, x :: r⟩ retry) :
    CInvP fl p' ⟨some x, r⟩ retry ∧ mu p' ⟨some x, r⟩ retry < mu p ⟨prev, x :: r⟩ retry := by
  have ht : isStar t = false := by cases t <;> simp [tokWildP, isStar] at hx ⊢
  cases retry with
  | none =>
    simp only [CInvP, mu] at hc ⊢
    rw [htk] at hc
    obtain ⟨x', s', he, _, hm⟩ := matchesP_one_inv fl prev t _ _ ht hc
    simp only [List.cons.injEq] at he
    obtain ⟨rfl, rfl⟩ := he
    refine ⟨hm, ?_⟩
    have := mul_mono2 r.length (r.length + 1) p'.length p.length (by omega) (by omega)
    simp only [List.length_cons]
    omega
  | some rs =>
    obtain ⟨rp, skip⟩ := rs
    simp only [CInvP, mu] at hc ⊢
    obtain ⟨h1, h2, h3, ⟨seg, pre, h4, h5, h6, h8⟩, h7⟩ := hc
    simp only at h8
    refine ⟨⟨h1, h2, by omega, ⟨seg ++ [t], pre ++ [x], ?_, ?_,
      segMP_snoc fl skip.prev seg pre t x h6 (by rw [← h8]; exact hx), ?_⟩, h7⟩, by omega⟩
    · rw [h4, htk]; simp
    · rw [h5]; simp
    · simp only; rw [endPrev_snoc]

theorem retry_completeP (fl : FnFlags) (f : Nat)
    (ih : ∀ (p : List Nat) (s : SPos) (retry : Option (List Nat × SPos)),
      nz p → nz s.rest → CInvP fl p s retry → mu p s retry < f → wfn fl f p s retry = 0)
    (p : List Nat) (s : SPos) (retry : Option (List Nat × SPos))
    (hc : CInvP fl p s retry) (hnot : ¬ MatchesP fl s.prev (toks fl p) s.rest) (hmu : mu p s retry < f + 1) :
    (match retryStep fl s retry with
     | .inl r => r
     | .inr (p', s', retry') => wfn fl f p' s' retry') = 0 := by
  cases retry with
  | none => exact absurd hc hnot
  | some rs =>
    obtain ⟨rp, skip⟩ := rs
    obtain ⟨hz1, hz2, hlen, ⟨seg, pre, h4, h5, h6, h8⟩, h7⟩ := hc
    have hfail : ¬ MatchesP fl skip.prev (toks fl rp) skip.rest := by
      intro hm
      rw [h4, h5] at hm
      have := seg_stripP fl skip.prev seg pre _ _ h6 hm
      rw [← h8] at this
      exact hnot this
    rcases starP_inv fl _ _ _ h7 with hm | ⟨x, r, hsk, hx, hm⟩
    · exact absurd hm hfail
    · have hs : s.rest ≠ [] := by
        intro hs
        rw [hs, List.append_nil] at h5
        obtain ⟨A, R, hX, _, hR⟩ := star_decompP fl _ _ _ h7
        rw [h4] at hR
        obtain ⟨B, Y, rfl, hB, hY⟩ := seg_splitP fl _ seg _ R (segMP_ne_star fl _ seg pre h6) hR
        have l1 := segMP_length fl _ seg pre h6
        have l2 := segMP_length fl _ seg B hB
        have l3 := congrArg List.length hX
        rw [h5] at l3
        simp only [List.length_append] at l3
        have hY0 : Y = [] := List.eq_nil_of_length_eq_zero (by omega)
        have hA0 : A = [] := List.eq_nil_of_length_eq_zero (by omega)
        subst hY0; subst hA0
        simp only [List.nil_append, List.append_nil] at hX hY
        have hBp : B = pre := by rw [h5] at hX; exact hX.symm
        subst hBp
        rw [hs, h8] at hnot
        exact hnot (by simpa [endPrev] using hY)
      obtain ⟨sprev, srest⟩ := skip
      simp only at hsk h5 hz2 h7 hm hx
      subst hsk
      have hd : disallow fl ⟨sprev, x :: r⟩ = false := by
        rw [disallow_cons, hx]; rfl
      unfold retryStep
      simp only [hs, if_false, hd, Bool.false_eq_true]
      have hne : ¬ (x :: r = []) := by simp
      simp only [hne, if_false]
      show wfn fl f rp ⟨some x, r⟩ (some (rp, ⟨some x, r⟩)) = 0
      apply ih rp ⟨some x, r⟩ _ hz1 (fun c hc => hz2 c (by simp [hc]))
      · exact ⟨hz1, fun c hc => hz2 c (by simp [hc]), Nat.le_refl _, ⟨[], [], rfl, rfl, rfl, rfl⟩, hm⟩
      · simp only [mu, List.length_cons] at hmu ⊢
        rw [Nat.succ_mul] at hmu
        omega

theorem cinv_no_neverP (fl : FnFlags) (p : List Nat) (s : SPos) (retry : Option (List Nat × SPos))
    (hc : CInvP fl p s retry) : Tok.never ∉ toks fl p := by
  cases retry with
  | none => exact no_neverP fl _ _ _ hc
  | some rs =>
    obtain ⟨rp, skip⟩ := rs
    obtain ⟨_, _, _, ⟨seg, pre, h4, _, _, _⟩, h7⟩ := hc
    have := no_neverP fl _ _ _ h7
    rw [h4] at this
    intro hn
    exact this (by simp [hn])

theorem wildOK_plain (fl : FnFlags) (prev : Option Nat) (x : Nat) (h1 : x ≠ cSlash) (h2 : x ≠ cDot) :
    wildOK fl prev x = true := by
  simp [wildOK, okWild, h1, h2]

/-- COMPLETENESS of the loop, every flag set: from a state whose invariant says that a match is
    still possible, the loop answers 0 -/
theorem wfn_completeP (fl : FnFlags) :
    ∀ (f : Nat) (p : List Nat) (s : SPos) (retry : Option (List Nat × SPos)),
      nz p → nz s.rest → CInvP fl p s retry → mu p s retry < f → wfn fl f p s retry = 0 := by
  intro f
  induction f with
  | zero => intro p s retry _ _ _ h; omega
  | succ f ih =>
    intro p s retry hp0 hs0 hc hmu
    unfold wfn
    simp only
    have retryC : ¬ MatchesP fl s.prev (toks fl p) s.rest →
        (match retryStep fl s retry with
         | .inl r => r
         | .inr (p', s', retry') => wfn fl f p' s' retry') = 0 :=
      fun hnot => retry_completeP fl f ih p s retry hc hnot hmu
    -- one literal character
    have litCase : ∀ (pc : Nat) (prest : List Nat), pc ≠ 0 → toks fl p = .lit pc :: toks fl prest →
        prest.length < p.length → nz prest →
        (if s.rest.getD 0 0 = cSlash ∧ pc = 0 ∧ fl.leadingDir = true then 0
         else if (!cmpFold fl pc (s.rest.getD 0 0)) = true then
           (match retryStep fl s retry with
            | .inl r => r
            | .inr (p', s', retry') => wfn fl f p' s' retry')
         else if s.rest = [] then 0 else wfn fl f prest s.adv retry) = 0 := by
      intro pc prest hpc htk hlen hnzp
      have e1 : ¬ (s.rest.getD 0 0 = cSlash ∧ pc = 0 ∧ fl.leadingDir = true) := fun h => hpc h.2.1
      simp only [e1, if_false]
      obtain ⟨prev, rest⟩ := s
      cases rest with
      | nil =>
        have hcf : cmpFold fl pc 0 = false := by
          cases h : cmpFold fl pc 0 with
          | false => rfl
          | true => exact absurd (cmpFold_zero fl pc h) hpc
        simp only [List.getD_eq_getElem?_getD, List.getElem?_nil, Option.getD_none, hcf, Bool.not_false, if_true]
        apply retryC
        rw [htk]; intro hm
        obtain ⟨x, s', he, _, _⟩ := matchesP_one_inv fl _ _ _ _ rfl hm
        cases he
      | cons x r =>
        simp only [List.getD_cons_zero]
        by_cases hcf : cmpFold fl pc x = true
        · simp only [hcf, Bool.not_true, Bool.false_eq_true, if_false]
          have hne : ¬ (x :: r = []) := by simp
          simp only [hne, if_false]
          obtain ⟨hc', hmu'⟩ := cinv_advanceP fl p prest (.lit pc) prev x r retry htk hcf hlen hc
          exact ih prest ⟨some x, r⟩ retry hnzp (fun c hc => hs0 c (by simp [hc])) hc' (by omega)
        · have hcf' : cmpFold fl pc x = false := by simpa using hcf
          simp only [hcf', Bool.not_false, if_true]
          apply retryC
          rw [htk]; intro hm
          obtain ⟨x', s', he, hx', _⟩ := matchesP_one_inv fl _ _ _ _ rfl hm
          simp only [List.cons.injEq] at he
          obtain ⟨rfl, rfl⟩ := he
          simp only [tokWildP] at hx'
          rw [hx'] at hcf'; cases hcf'
    cases p with
    | nil =>
      simp only
      by_cases hl : s.rest.getD 0 0 = cSlash ∧ True ∧ fl.leadingDir = true
      · simp only [hl, and_self, if_true]
      · simp only [hl, if_false]
        obtain ⟨prev, rest⟩ := s
        cases rest with
        | nil => simp [cmpFold]
        | cons x r =>
          simp only [List.getD_cons_zero] at hl ⊢
          have hx0 : x ≠ 0 := hs0 x (by simp)
          have hcf : cmpFold fl 0 x = false := by
            cases h : cmpFold fl 0 x with
            | false => rfl
            | true => exact absurd (cmpFold_zero' fl x h) hx0
          simp only [hcf, Bool.not_false, if_true]
          apply retryC
          rw [toks_nil]; intro hm
          cases hm with
          | leading _ x r h1 h2 => exact hl ⟨h2, trivial, h1⟩
    | cons pc p1 =>
      simp only
      have hp1 : nz p1 := fun c hc => hp0 c (by simp [hc])
      have hpc0 : pc ≠ 0 := hp0 pc (by simp)
      have htk := toks_cons fl pc p1
      by_cases c1 : pc = cStar
      · simp only [c1, if_true]
        rw [if_pos c1] at htk
        -- the `*` at hand can make the rest match from here
        have hstar : MatchesP fl s.prev (.star (dotNext fl p1) :: toks fl p1) s.rest := by
          cases retry with
          | none => simp only [CInvP] at hc; rw [htk] at hc; exact hc
          | some rs =>
            obtain ⟨rp, skip⟩ := rs
            obtain ⟨_, _, _, ⟨seg, pre, h4, h5, h6, h8⟩, h7⟩ := hc
            rw [h4, htk, h5] at h7
            rw [h8]
            exact greedyP fl _ _ seg pre _ _ h6 h7
        obtain ⟨hq, hbody⟩ := starP_body fl _ _ _ _ hstar
        have hnodot : ¬ ((dotNext fl p1 && disallow fl s) = true) := by
          intro hcond
          simp only [Bool.and_eq_true] at hcond
          have := hq hcond.1
          rw [show (⟨s.prev, s.rest⟩ : SPos) = s from rfl] at this
          rw [this] at hcond
          exact Bool.noConfusion hcond.2
        simp only [hnodot, if_false]
        apply ih p1 s (some (p1, s)) hp1 hs0
        · exact ⟨hp1, hs0, Nat.le_refl _, ⟨[], [], rfl, rfl, rfl, rfl⟩, hbody⟩
        · cases retry with
          | none =>
            simp only [mu, List.length_cons] at hmu ⊢
            have := mul_mono2 s.rest.length s.rest.length p1.length (p1.length + 1) (Nat.le_refl _) (by omega)
            omega
          | some rs =>
            obtain ⟨rp, skip⟩ := rs
            obtain ⟨_, _, hlen, ⟨seg, pre, _, h5, _, _⟩, _⟩ := hc
            simp only [mu, List.length_cons] at hmu hlen ⊢
            have hl : s.rest.length ≤ skip.rest.length := by rw [h5]; simp
            have := mul_mono2 s.rest.length skip.rest.length p1.length rp.length hl (by omega)
            omega
      · simp only [c1, if_false]
        rw [if_neg c1] at htk
        by_cases c2 : pc = cQuest
        · simp only [c2, if_true]
          rw [if_pos c2] at htk
          obtain ⟨prev, rest⟩ := s
          cases rest with
          | nil =>
            simp only [disallow_nil, if_true]
            apply retryC; rw [htk]; intro hm
            obtain ⟨x, s', he, _, _⟩ := matchesP_one_inv fl _ _ _ _ rfl hm
            cases he
          | cons x r =>
            rw [disallow_cons]
            by_cases hx : wildOK fl prev x = true
            · simp only [hx, Bool.not_true, Bool.false_eq_true, if_false]
              obtain ⟨hc', hmu'⟩ := cinv_advanceP fl (pc :: p1) p1 .any prev x r retry htk hx (by simp) hc
              exact ih p1 ⟨some x, r⟩ retry hp1 (fun c hc => hs0 c (by simp [hc])) hc' (by omega)
            · have hx' : wildOK fl prev x = false := by simpa using hx
              simp only [hx', Bool.not_false, if_true]
              apply retryC; rw [htk]; intro hm
              obtain ⟨x', s', he, hw, _⟩ := matchesP_one_inv fl _ _ _ _ rfl hm
              simp only [List.cons.injEq] at he
              obtain ⟨rfl, rfl⟩ := he
              simp only [tokWildP] at hw
              rw [hw] at hx'; cases hx'
        · simp only [c2, if_false]
          rw [if_neg c2] at htk
          by_cases c3 : pc = cLB
          · simp only [c3, if_true]
            rw [if_pos c3] at htk
            have hnn := cinv_no_neverP fl _ _ _ hc
            obtain ⟨prev, rest⟩ := s
            cases hpc : parseClass fl (p1.length + 2)
                (if (p1.head? == some cBang || p1.head? == some cCaret) = true then List.drop 1 p1 else p1)
                true true [] with
            | never =>
              rw [hpc] at htk
              rw [htk] at hnn
              exact absurd (by simp) hnn
            | closed items prest =>
              rw [hpc] at htk
              simp only at htk
              have hsuf := parseClass_rest_suffix fl _ _ _ _ _ _ _ hpc
              have hb : (if (p1.head? == some cBang || p1.head? == some cCaret) = true then List.drop 1 p1 else p1)
                  <:+ p1 := by
                split
                · exact List.drop_suffix _ _
                · exact List.suffix_refl _
              have hprest0 : nz prest := fun c hc => hp1 c ((hsuf.trans hb).subset hc)
              have hplen : prest.length < (pc :: p1).length := by
                have := (hsuf.trans hb).length_le; simp; omega
              cases rest with
              | nil =>
                simp only [disallow_nil, if_true]
                apply retryC; rw [htk]; intro hm
                obtain ⟨x, s', he, _, _⟩ := matchesP_one_inv fl _ _ _ _ rfl hm
                cases he
              | cons x r =>
                rw [disallow_cons]
                by_cases hx : wildOK fl prev x = true
                · simp only [hx, Bool.not_true, Bool.false_eq_true, if_false, List.getD_cons_zero]
                  rw [matchClass_eq_parse]
                  simp only [hpc, classResult]
                  by_cases hin : (items.any (itemHas fl x) != (p1.head? == some cBang || p1.head? == some cCaret)) = true
                  · simp only [hin, if_true]
                    have hw : tokWildP fl prev (.cls (p1.head? == some cBang || p1.head? == some cCaret) items) x = true := by
                      simp only [tokWildP, hx, Bool.true_and, classHas]; exact hin
                    obtain ⟨hc', hmu'⟩ := cinv_advanceP fl (pc :: p1) prest _ prev x r retry htk hw hplen hc
                    exact ih prest ⟨some x, r⟩ retry hprest0 (fun c hc => hs0 c (by simp [hc])) hc' (by omega)
                  · simp only [hin, if_false]
                    apply retryC; rw [htk]; intro hm
                    obtain ⟨x', s', he, hw, _⟩ := matchesP_one_inv fl _ _ _ _ rfl hm
                    simp only [List.cons.injEq] at he
                    obtain ⟨rfl, rfl⟩ := he
                    simp only [tokWildP, Bool.and_eq_true, classHas] at hw
                    exact hin hw.2
                · have hx' : wildOK fl prev x = false := by simpa using hx
                  simp only [hx', Bool.not_false, if_true]
                  apply retryC; rw [htk]; intro hm
                  obtain ⟨x', s', he, hw, _⟩ := matchesP_one_inv fl _ _ _ _ rfl hm
                  simp only [List.cons.injEq] at he
                  obtain ⟨rfl, rfl⟩ := he
                  simp only [tokWildP, Bool.and_eq_true] at hw
                  rw [hw.1] at hx'; cases hx'
            | literal =>
              rw [hpc] at htk
              simp only at htk
              cases rest with
              | nil =>
                simp only [disallow_nil, if_true]
                apply retryC; rw [htk]; intro hm
                obtain ⟨x, s', he, _, _⟩ := matchesP_one_inv fl _ _ _ _ rfl hm
                cases he
              | cons x r =>
                have hlitx : ∀ s', MatchesP fl prev (.lit cLB :: toks fl p1) (x :: s') → x = cLB := by
                  intro s' hm
                  obtain ⟨x', s'', he, hw, _⟩ := matchesP_one_inv fl _ _ _ _ rfl hm
                  simp only [List.cons.injEq] at he
                  obtain ⟨rfl, rfl⟩ := he
                  exact cmpFold_nonletter fl cLB x (by decide) (by decide) hw
                rw [disallow_cons]
                by_cases hx : wildOK fl prev x = true
                · simp only [hx, Bool.not_true, Bool.false_eq_true, if_false, List.getD_cons_zero]
                  rw [matchClass_eq_parse]
                  simp only [hpc, classResult]
                  by_cases hxb : (x == cLB) = true
                  · simp only [hxb, if_true]
                    have hxe : x = cLB := by simpa using hxb
                    have hw : tokWildP fl prev (.lit cLB) x = true := by
                      subst hxe; simp [tokWildP, cmpFold]
                    obtain ⟨hc', hmu'⟩ := cinv_advanceP fl (pc :: p1) p1 _ prev x r retry htk hw (by simp) hc
                    exact ih p1 ⟨some x, r⟩ retry hp1 (fun c hc => hs0 c (by simp [hc])) hc' (by omega)
                  · simp only [hxb, if_false]
                    apply retryC; rw [htk]; intro hm
                    exact hxb (by simp [hlitx r hm])
                · have hx' : wildOK fl prev x = false := by simpa using hx
                  simp only [hx', Bool.not_false, if_true]
                  apply retryC; rw [htk]; intro hm
                  have := hlitx r hm
                  subst this
                  rw [wildOK_plain fl prev cLB (by decide) (by decide)] at hx'; cases hx'
          · simp only [c3, if_false]
            rw [if_neg c3] at htk
            by_cases c4 : pc = cBSl ∧ (!fl.noescape) = true
            · simp only [c4, and_self, if_true]
              rw [if_pos c4] at htk
              cases p1 with
              | nil =>
                exfalso
                simp only at htk
                have hnn := cinv_no_neverP fl _ _ _ hc
                rw [htk] at hnn
                exact hnn (by simp)
              | cons e p2 =>
                simp only at htk ⊢
                exact litCase e p2 (hp1 e (by simp)) htk (by simp; omega) (fun c hc => hp1 c (by simp [hc]))
            · simp only [c4, if_false]
              rw [if_neg c4] at htk
              exact litCase pc p1 hpc0 htk (by simp) hp1

theorem wfnmatch_completeP (fl : FnFlags) (pat str : List Nat)
    (hp : ∀ c ∈ pat, c ≠ 0) (hs : ∀ c ∈ str, c ≠ 0)
    (hm : MatchesP fl none (tokenize fl (pat.length + 1) pat) str) : wfnmatch fl pat str = 0 := by
  unfold wfnmatch
  apply wfn_completeP fl _ pat ⟨none, str⟩ none hp hs hm
  simp only [mu]
  have : (pat.length + 2) * (str.length + 2) = str.length * (pat.length + 2) + 2 * (pat.length + 2) := by
    rw [Nat.mul_comm, Nat.add_mul]
  omega


end UsualProofs.C14
