import Usual.C14.Inet
import UsualProofs.C14.Str
/-! `inet_pton4 ∘ inet_ntop4 = id`, the `::` run selection of `inet_ntop6`, size handling. -/
namespace UsualProofs.C14
open Usual.C14

/-! ## pton4 (ntop4 a) = a -/

theorem pton4Go_cons (st st' : P4) (c : Nat) (r : Bytes) (h : pton4Step st c = some st') :
    pton4Go st (c :: r) = pton4Go st' r := by
  simp [pton4Go, h]

theorem step_first (oc : Nat) (dn : List Nat) (d n : Nat) (hd : d < 10) (ho : oc < 4) :
    pton4Step ⟨false, oc, dn, 0, n⟩ (48 + d) = some ⟨true, oc + 1, dn, d, 1⟩ := by
  have e1 : 48 ≤ 48 + d ∧ 48 + d ≤ 57 := by omega
  have e2 : ¬ (255 < d) := by omega
  have e3 : ¬ (4 < oc + 1) := by omega
  simp [pton4Step, e1, e2, e3]

theorem step_next (oc : Nat) (dn : List Nat) (cur d n : Nat) (hd : d < 10) (hv : cur * 10 + d ≤ 255)
    (hn : n + 1 ≤ 3) :
    pton4Step ⟨true, oc, dn, cur, n⟩ (48 + d) = some ⟨true, oc, dn, cur * 10 + d, n + 1⟩ := by
  have e1 : 48 ≤ 48 + d ∧ 48 + d ≤ 57 := by omega
  have e2 : ¬ (255 < cur * 10 + d) := by omega
  have e3 : ¬ (3 < n + 1) := by omega
  simp [pton4Step, e1, e2, e3]

theorem step_dot (oc : Nat) (dn : List Nat) (cur n : Nat) (ho : oc < 4) :
    pton4Step ⟨true, oc, dn, cur, n⟩ cDot = some ⟨false, oc, dn ++ [cur], 0, 0⟩ := by
  have e3 : ¬ (oc = 4) := by omega
  simp [pton4Step, cDot, e3]

/-- reading the decimal rendering of an octet -/
theorem pton4Go_dec3 (b : Nat) (hb : b < 256) (oc : Nat) (dn : List Nat) (rest : Bytes) (n : Nat) (ho : oc < 4) :
    pton4Go ⟨false, oc, dn, 0, n⟩ (dec3 b ++ rest) = pton4Go ⟨true, oc + 1, dn, b, (dec3 b).length⟩ rest := by
  unfold dec3
  by_cases c1 : b < 10
  · simp only [c1, if_pos, List.cons_append, List.nil_append, List.length_cons, List.length_nil]
    rw [pton4Go_cons _ _ _ _ (step_first oc dn b n c1 ho)]
  · by_cases c2 : b < 100
    · simp only [c1, c2, if_pos, if_false, List.cons_append, List.nil_append, List.length_cons, List.length_nil]
      rw [pton4Go_cons _ _ _ _ (step_first oc dn (b / 10) n (by omega) ho)]
      rw [pton4Go_cons _ _ _ _ (step_next (oc + 1) dn (b / 10) (b % 10) 1 (by omega) (by omega) (by omega))]
      have : b / 10 * 10 + b % 10 = b := by omega
      rw [this]
    · simp only [c1, c2, if_false, List.cons_append, List.nil_append, List.length_cons, List.length_nil]
      rw [pton4Go_cons _ _ _ _ (step_first oc dn (b / 100) n (by omega) ho)]
      rw [pton4Go_cons _ _ _ _ (step_next (oc + 1) dn (b / 100) (b / 10 % 10) 1 (by omega) (by omega) (by omega))]
      rw [pton4Go_cons _ _ _ _ (step_next (oc + 1) dn (b / 100 * 10 + b / 10 % 10) (b % 10) 2 (by omega) (by omega) (by omega))]
      have : (b / 100 * 10 + b / 10 % 10) * 10 + b % 10 = b := by omega
      rw [this]

theorem dec3_no_nul (b : Nat) : ∀ x ∈ dec3 b, x ≠ 0 := by
  intro x hx
  unfold dec3 at hx
  split at hx
  · simp at hx; omega
  · split at hx
    · simp at hx; omega
    · simp at hx; omega

theorem ntop4Text_no_nul (a : Bytes) : ∀ x ∈ ntop4Text a, x ≠ 0 := by
  intro x hx
  unfold ntop4Text at hx
  simp only [List.mem_append, List.mem_singleton] at hx
  rcases hx with (((((( h | h) | h) | h) | h) | h) | h)
  all_goals first
    | exact dec3_no_nul _ x h
    | (subst h; decide)

theorem pton4Go_ntop4 (a b c d : Nat) (ha : a < 256) (hb : b < 256) (hc : c < 256) (hd : d < 256) :
    pton4Go P4.init (ntop4Text [a, b, c, d]) = some ⟨true, 4, [a, b, c], d, (dec3 d).length⟩ := by
  have htxt : ntop4Text [a, b, c, d] =
      dec3 a ++ (cDot :: (dec3 b ++ (cDot :: (dec3 c ++ (cDot :: dec3 d))))) := by
    simp [ntop4Text]
  rw [htxt]
  unfold P4.init
  rw [pton4Go_dec3 a ha 0 [] _ 0 (by omega)]
  simp only [Nat.reduceAdd]
  rw [pton4Go_cons _ _ _ _ (step_dot 1 [] a _ (by omega))]
  rw [pton4Go_dec3 b hb 1 _ _ 0 (by omega)]
  simp only [Nat.reduceAdd]
  rw [pton4Go_cons _ _ _ _ (step_dot 2 _ b _ (by omega))]
  rw [pton4Go_dec3 c hc 2 _ _ 0 (by omega)]
  simp only [Nat.reduceAdd]
  rw [pton4Go_cons _ _ _ _ (step_dot 3 _ c _ (by omega))]
  have := pton4Go_dec3 d hd 3 ([] ++ [a] ++ [b] ++ [c]) [] 0 (by omega)
  rw [List.append_nil] at this
  rw [this]
  simp [pton4Go]

/-- `inet_pton4(inet_ntop4(a)) = a` for every IPv4 address -/
theorem pton4_ntop4 (a b c d : Nat) (ha : a < 256) (hb : b < 256) (hc : c < 256) (hd : d < 256) (t : Bytes) :
    pton4 (ntop4Text [a, b, c, d] ++ 0 :: t) = some [a, b, c, d] := by
  unfold pton4
  rw [cstr_append_nul _ _ (ntop4Text_no_nul _), pton4Go_ntop4 a b c d ha hb hc hd]; simp

/-- the same on the bare text (as `inet_pton6` calls it on the tail of its input) -/
theorem pton4_ntop4_bare (a b c d : Nat) (ha : a < 256) (hb : b < 256) (hc : c < 256) (hd : d < 256) :
    pton4 (ntop4Text [a, b, c, d]) = some [a, b, c, d] := by
  unfold pton4
  rw [cstr_of_no_nul _ (ntop4Text_no_nul _), pton4Go_ntop4 a b c d ha hb hc hd]; simp

/-! ## soundness of pton4: four bytes -/

/-- invariant of the scan: `done` has one entry per completed octet, everything is < 256 -/
def p4ok (st : P4) : Prop :=
  (∀ x ∈ st.done, x < 256) ∧ st.cur < 256 ∧
  (if st.sawDigit then st.done.length + 1 = st.octets else st.done.length = st.octets ∧ st.cur = 0) ∧
  (if st.sawDigit then st.octets ≤ 4 else st.octets < 4)

theorem pton4Step_ok (st st' : P4) (c : Nat) (h : pton4Step st c = some st') (hok : p4ok st) : p4ok st' := by
  obtain ⟨sd, oc, dn, cu, nd⟩ := st
  unfold p4ok at hok ⊢
  obtain ⟨h1, h2, h3, h4⟩ := hok
  simp only at h1 h2 h3 h4
  unfold pton4Step at h
  simp only at h
  split at h
  · split at h
    · cases h
    · next hle =>
      cases sd with
      | false =>
        simp only [Bool.not_false, if_true] at h
        split at h
        · cases h
        · cases h
          simp only [Bool.false_eq_true, if_false] at h3
          simp only [Bool.false_eq_true, if_false] at h4
          dsimp only
          refine ⟨h1, by omega, ?_, ?_⟩
          · simp only [if_true]; omega
          · simp only [if_true]; omega
      | true =>
        simp only [Bool.not_true, Bool.false_eq_true, if_false] at h
        split at h
        · cases h
        · cases h
          dsimp only
          exact ⟨h1, by omega, h3, h4⟩
  · split at h
    · next hc =>
      split at h
      · cases h
      · cases h
        have hsd : sd = true := hc.2
        subst hsd
        simp at h3
        simp at h4
        dsimp only
        refine ⟨?_, by omega, ?_, by simp only [Bool.false_eq_true, if_false]; omega⟩
        · intro x hx
          simp only [List.mem_append, List.mem_singleton] at hx
          rcases hx with hx | hx
          · exact h1 x hx
          · omega
        · simp only [Bool.false_eq_true, if_false, List.length_append, List.length_cons, List.length_nil]
          exact ⟨by omega, trivial⟩
    · cases h

theorem pton4Go_ok (st st' : P4) (s : Bytes) (h : pton4Go st s = some st') (hok : p4ok st) : p4ok st' := by
  induction s generalizing st with
  | nil => simp [pton4Go] at h; subst h; exact hok
  | cons c r ih =>
    unfold pton4Go at h
    cases hs : pton4Step st c with
    | none => rw [hs] at h; cases h
    | some st1 =>
      rw [hs] at h
      exact ih st1 h (pton4Step_ok st st1 c hs hok)

/-- whenever `inet_pton4` accepts, it yields exactly four bytes (octets 0..255) -/
theorem pton4_sound (s v : Bytes) (h : pton4 s = some v) : v.length = 4 ∧ ∀ x ∈ v, x < 256 := by
  unfold pton4 at h
  cases hg : pton4Go P4.init (cstr s) with
  | none => rw [hg] at h; cases h
  | some st =>
    rw [hg] at h
    simp only at h
    split at h
    · cases h
    · next hoct =>
      cases h
      have hok : p4ok P4.init := by
        unfold p4ok P4.init; simp
      have hok2 := pton4Go_ok _ _ _ hg hok
      unfold p4ok at hok2
      obtain ⟨h1, h2, h3, h4⟩ := hok2
      cases hsd : st.sawDigit with
      | true =>
        rw [hsd] at h3 h4
        simp at h3 h4
        refine ⟨by simp only [List.length_append, List.length_cons, List.length_nil]; omega, ?_⟩
        intro x hx
        simp only [List.mem_append, List.mem_singleton] at hx
        rcases hx with hx | hx
        · exact h1 x hx
        · subst hx; exact h2
      | false =>
        rw [hsd] at h4
        simp only [Bool.false_eq_true, if_false] at h4
        omega

/-! ## the size check + store shared by ntop4/ntop6 -/

theorem ntopStore_spec (text dst : Bytes) (size : Nat) (hsz : size ≤ dst.length)
    (h0 : ∀ b ∈ text, b ≠ 0) :
    (text.length + 1 > size → ntopStore text dst size = none) ∧
    (text.length + 1 ≤ size →
      ntopStore text dst size = some (text ++ [0] ++ dst.drop (text.length + 1))) := by
  unfold ntopStore
  constructor
  · intro h; simp [h]
  · intro h
    have : ¬ text.length + 1 > size := by omega
    simp only [this, if_false]
    rw [strlcpy_buf _ _ _ (by omega), cstr_of_no_nul _ h0]
    have h1 : List.take (size - 1) text = text := List.take_of_length_le (by omega)
    have h2 : min text.length (size - 1) = text.length := by omega
    rw [h1, h2]

/-! ## pton6: sixteen bytes -/

def p6ok (st : P6) : Prop :=
  st.out.length ≤ 16 ∧ (∀ cp, st.colonp = some cp → cp ≤ st.out.length) ∧ st.val ≤ 0xffff

theorem pton6Go_ok (st st' : P6) (s : Bytes) (h : pton6Go st s = some st') (hok : p6ok st) : p6ok st' := by
  induction s generalizing st with
  | nil =>
    simp only [pton6Go, Option.some.injEq] at h
    subst h; exact hok
  | cons c rest ih =>
    obtain ⟨h1, h2, h3⟩ := hok
    unfold pton6Go at h
    cases hx : hexVal? c with
    | some d =>
      simp only [hx] at h
      split at h
      · cases h
      · split at h
        · cases h
        · next hv =>
          exact ih _ h ⟨h1, h2, by simp only; omega⟩
    | none =>
      simp only [hx] at h
      split at h
      · split at h
        · split at h
          · cases h
          · exact ih _ h ⟨h1, by intro cp hcp; simp only [Option.some.injEq] at hcp; subst hcp; exact Nat.le_refl _, h3⟩
        · split at h
          · cases h
          · split at h
            · cases h
            · next hlen =>
              refine ih _ h ⟨by simp only [List.length_append, List.length_cons, List.length_nil]; omega, ?_, by simp⟩
              intro cp hcp
              have := h2 cp hcp
              simp only [List.length_append, List.length_cons, List.length_nil]; omega
      · split at h
        · next hdot =>
          cases hp : pton4 st.curtok with
          | none => simp only [hp] at h; cases h
          | some v =>
            simp only [hp, Option.some.injEq] at h
            subst h
            have hv := (pton4_sound _ _ hp).1
            refine ⟨by simp only [List.length_append]; omega, ?_, h3⟩
            intro cp hcp
            have := h2 cp hcp
            simp only [List.length_append]; omega
        · cases h

theorem pton6_sound (s v : Bytes) (h : pton6 s = some v) : v.length = 16 := by
  unfold pton6 at h
  cases hs : p6start (cstr s) with
  | none => simp only [hs] at h; cases h
  | some s0 =>
    simp only [hs] at h
    cases hg : pton6Go ⟨[], none, s0, false, 0, 0⟩ s0 with
    | none => simp only [hg] at h; cases h
    | some st =>
      simp only [hg] at h
      have hok : p6ok st := pton6Go_ok _ _ _ hg ⟨by simp, by simp, by simp⟩
      obtain ⟨h1, h2, h3⟩ := hok
      cases hfin : p6fin st with
      | none => simp only [hfin] at h; cases h
      | some out =>
        simp only [hfin] at h
        have hout : out.length ≤ 16 ∧ st.out.length ≤ out.length := by
          unfold p6fin at hfin
          split at hfin
          · split at hfin
            · cases hfin
            · cases hfin; simp; omega
          · cases hfin; exact ⟨h1, Nat.le_refl _⟩
        cases hcp : st.colonp with
        | some cp =>
          simp only [hcp] at h
          split at h
          · cases h
          · cases h
            have := h2 cp hcp
            simp only [List.length_append, List.length_take, List.length_replicate, List.length_drop]
            omega
        | none =>
          simp only [hcp] at h
          split at h
          · cases h
          · next hne => cases h; simpa using hne

end UsualProofs.C14
