import UsualProofs.C14.Inet6rt
import UsualProofs.C14.Inet4g
/-! The accepted input grammar of `inet_pton6` and the value of every sentence (both directions). -/
namespace UsualProofs.C14
open Usual.C14

/-! ## the input grammar of `inet_pton6` -/

def hexAcc (a : Nat) (g : Bytes) : Nat := g.foldl (fun a c => a * 16 + (hexVal? c).getD 0) a

/-- a group: one to four hex digits (either case, leading zeros allowed) and its value -/
def HexGroup (g : Bytes) (w : Nat) : Prop :=
  g ≠ [] ∧ g.length ≤ 4 ∧ (∀ c ∈ g, (hexVal? c).isSome = true) ∧ hexAcc 0 g = w

/-- a trailing dotted quad: what `inet_pton4` accepts, with a first field of at most four
    digits (its digits are scanned as hex digits of a would-be group first; since F42 `DecOctet`
    itself allows at most three) -/
def V4Tail (d v : Bytes) : Prop :=
  ∃ d1 d2 d3 d4 v1 v2 v3 v4, d = d1 ++ cDot :: (d2 ++ cDot :: (d3 ++ cDot :: d4)) ∧
    DecOctet d1 v1 ∧ DecOctet d2 v2 ∧ DecOctet d3 v3 ∧ DecOctet d4 v4 ∧ d1.length ≤ 4 ∧
    v = [v1, v2, v3, v4]

/-- items separated by single colons -/
def joinC : List Bytes → Bytes
  | [] => []
  | [g] => g
  | g :: gs => g ++ cColon :: joinC gs

/-- every item followed by a colon -/
def gc (gs : List Bytes) : Bytes := gs.flatMap fun g => g ++ [cColon]

theorem joinC_snoc (xs : List Bytes) (y : Bytes) : joinC (xs ++ [y]) = gc xs ++ y := by
  induction xs with
  | nil => simp [joinC, gc]
  | cons x xs ih =>
    cases xs with
    | nil => simp [joinC, gc]
    | cons x' xs' =>
      simp only [List.cons_append, joinC, gc, List.flatMap_cons] at ih ⊢
      rw [ih]; simp

theorem hexVal_lt (c d : Nat) (h : hexVal? c = some d) : d < 16 := by
  unfold hexVal? at h
  split at h
  · cases h; omega
  · split at h
    · cases h; omega
    · split at h
      · cases h; omega
      · cases h

theorem hexVal_ne_special (c d : Nat) (h : hexVal? c = some d) : c ≠ cColon ∧ c ≠ cDot ∧ c ≠ 0 := by
  unfold hexVal? at h
  unfold cColon cDot
  split at h
  · omega
  · split at h
    · omega
    · split at h
      · omega
      · cases h

/-- one hex digit read (any spelling) -/
theorem p6_digit' (st : P6) (c d : Nat) (rest : Bytes) (hcd : hexVal? c = some d) (hc : st.cnt < 4)
    (hv : st.val * 16 + d ≤ 0xffff) :
    pton6Go st (c :: rest) =
      pton6Go { st with val := st.val * 16 + d, sawX := true, cnt := st.cnt + 1 } rest := by
  rw [pton6Go, hcd]
  have e1 : ¬ st.cnt ≥ 4 := by omega
  have e2 : ¬ st.val * 16 + d > 0xffff := by omega
  simp [e1, e2]

theorem hexAcc_snoc (a : Nat) (g : Bytes) (c : Nat) :
    hexAcc a (g ++ [c]) = hexAcc a g * 16 + (hexVal? c).getD 0 := by
  simp [hexAcc, List.foldl_append]

/-- reading hex digits: the value stays below `16^cnt` -/
theorem p6_digits (out : Bytes) (cp : Option Nat) (tok : Bytes) (g : Bytes) :
    ∀ (sx : Bool) (cnt val : Nat) (rest : Bytes),
      (∀ c ∈ g, (hexVal? c).isSome = true) → cnt + g.length ≤ 4 → val < 16 ^ cnt →
      pton6Go ⟨out, cp, tok, sx, cnt, val⟩ (g ++ rest) =
        pton6Go ⟨out, cp, tok, sx || !g.isEmpty, cnt + g.length, hexAcc val g⟩ rest ∧
      hexAcc val g < 16 ^ (cnt + g.length) := by
  induction g with
  | nil => intro sx cnt val rest _ _ hv; simp [hexAcc, hv]
  | cons c g ih =>
    intro sx cnt val rest hg hl hv
    obtain ⟨d, hd⟩ := Option.isSome_iff_exists.mp (hg c (by simp))
    have hd16 := hexVal_lt c d hd
    simp only [List.length_cons] at hl
    have hp : val * 16 + d < 16 ^ (cnt + 1) := by rw [Nat.pow_succ]; omega
    have hp4 : 16 ^ (cnt + 1) ≤ 16 ^ 4 := Nat.pow_le_pow_right (by omega) (by omega)
    have := ih true (cnt + 1) (val * 16 + d) rest (fun x hx => hg x (by simp [hx])) (by omega) hp
    rw [List.cons_append, p6_digit' _ c d _ hd (by simp only; omega) (by simp only; omega)]
    simp only
    have e1 : hexAcc val (c :: g) = hexAcc (val * 16 + d) g := by simp [hexAcc, hd]
    have e2 : cnt + (g.length + 1) = cnt + 1 + g.length := by omega
    rw [e1, List.length_cons, e2]
    refine ⟨?_, this.2⟩
    rw [this.1]; simp

/-- a whole group read from a fresh state -/
theorem p6_group (out : Bytes) (cp : Option Nat) (tok : Bytes) (g : Bytes) (w : Nat) (hg : HexGroup g w)
    (rest : Bytes) :
    ∃ cnt, pton6Go ⟨out, cp, tok, false, 0, 0⟩ (g ++ rest) = pton6Go ⟨out, cp, tok, true, cnt, w⟩ rest := by
  obtain ⟨hne, hlen, hhex, hval⟩ := hg
  have := (p6_digits out cp tok g false 0 0 rest hhex (by omega) (by simp)).1
  refine ⟨0 + g.length, ?_⟩
  rw [this, hval]
  have : g.isEmpty = false := by cases g <;> simp_all
  simp [this]

def wb (l : List (Bytes × Nat)) : Bytes := wbytes (l.map (·.2))
def gtext (l : List (Bytes × Nat)) : List Bytes := l.map (·.1)

theorem wb_len (l : List (Bytes × Nat)) : (wb l).length = 2 * l.length := by
  simp [wb, wbytes_len]

theorem wb_append (a b : List (Bytes × Nat)) : wb (a ++ b) = wb a ++ wb b := by
  simp [wb, wbytes_append]

theorem wb_single (g : Bytes) (w : Nat) : wb [(g, w)] = [w / 256, w % 256] := by
  simp [wb, wbytes_single]

/-- groups each followed by a colon, read from a fresh state -/
theorem p6_gc (cp : Option Nat) (ps : List (Bytes × Nat)) :
    ∀ (out tok rest : Bytes), (∀ g ∈ ps, HexGroup g.1 g.2) → rest ≠ [] → out.length + 2 * ps.length ≤ 16 →
      pton6Go ⟨out, cp, tok, false, 0, 0⟩ (gc (gtext ps) ++ rest) =
        pton6Go ⟨out ++ wb ps, cp, if ps = [] then tok else rest, false, 0, 0⟩ rest := by
  induction ps with
  | nil => intro out tok rest _ _ _; simp [gc, gtext, wb, wbytes]
  | cons g ps ih =>
    intro out tok rest hg hr hl
    obtain ⟨g, w⟩ := g
    simp only [List.length_cons] at hl
    have hgc : gc (gtext ((g, w) :: ps)) ++ rest = g ++ (cColon :: (gc (gtext ps) ++ rest)) := by
      simp [gc, gtext]
    rw [hgc]
    obtain ⟨cnt, h1⟩ := p6_group out cp tok g w (hg (g, w) (by simp)) (cColon :: (gc (gtext ps) ++ rest))
    rw [h1, p6_colon_group _ _ _ _ _ _ (by simp [hr]) (by omega)]
    rw [ih _ _ rest (fun x hx => hg x (by simp [hx])) hr (by simp; omega)]
    have e : out ++ [w / 256, w % 256] ++ wb ps = out ++ wb ((g, w) :: ps) := by
      rw [show (g, w) :: ps = [(g, w)] ++ ps from rfl, wb_append, wb_single]; simp
    rw [e]
    by_cases hps : ps = []
    · subst hps; simp [gc, gtext]
    · simp [hps]

theorem digit_hex (c : Nat) (h : isDigit c = true) : (hexVal? c).isSome = true := by
  have := (isDigit_iff c).mp h
  simp [hexVal?, this]

theorem v4tail_pton4 (d v : Bytes) (h : V4Tail d v) : pton4 d = some v := by
  obtain ⟨d1, d2, d3, d4, v1, v2, v3, v4, hd, h1, h2, h3, h4, _, rfl⟩ := h
  apply pton4_accepts d1 d2 d3 d4 v1 v2 v3 v4 d h1 h2 h3 h4
  rw [hd]
  apply cstr_of_no_nul
  intro b hb
  simp only [List.mem_append, List.mem_cons] at hb
  rcases hb with hb | rfl | hb | rfl | hb | rfl | hb
  · exact decOctet_no_nul d1 v1 h1 b hb
  · decide
  · exact decOctet_no_nul d2 v2 h2 b hb
  · decide
  · exact decOctet_no_nul d3 v3 h3 b hb
  · decide
  · exact decOctet_no_nul d4 v4 h4 b hb

/-- the dotted-quad tail, read with `curtok` at its start -/
theorem p6_v4 (out : Bytes) (cp : Option Nat) (d v : Bytes) (h : V4Tail d v) (hl : out.length + 4 ≤ 16) :
    ∃ st, pton6Go ⟨out, cp, d, false, 0, 0⟩ d = some st ∧ st.colonp = cp ∧ p6fin st = some (out ++ v) := by
  have hp4 := v4tail_pton4 d v h
  obtain ⟨d1, d2, d3, d4, v1, v2, v3, v4, hd, h1, _, _, _, hlen, _⟩ := h
  have hhex : ∀ c ∈ d1, (hexVal? c).isSome = true := fun c hc => digit_hex c (h1.2.1 c hc)
  have hgo := (p6_digits out cp d d1 false 0 0 (cDot :: (d2 ++ cDot :: (d3 ++ cDot :: d4))) hhex (by omega) (by simp)).1
  refine ⟨⟨out ++ v, cp, d, false, 0, hexAcc 0 d1⟩, ?_, rfl, by simp [p6fin]⟩
  conv => lhs; arg 2; rw [hd]
  rw [hgo, pton6Go, hexVal_dot]
  have e1 : cDot ≠ cColon := by decide
  simp only [e1, if_false, true_and, hl, if_true, hp4]

/-- the items after the last `:` seen (or the whole input), read to the END: groups separated by
    colons, optionally a dotted quad last -/
theorem p6_items (cp : Option Nat) (xs : List (Bytes × Nat)) (tail : Option (Bytes × Bytes)) (out : Bytes)
    (hx : ∀ g ∈ xs, HexGroup g.1 g.2) (ht : ∀ t, tail = some t → V4Tail t.1 t.2)
    (hl : out.length + 2 * xs.length + (if tail.isSome then 4 else 0) ≤ 16) :
    ∃ st, pton6Go ⟨out, cp, joinC (gtext xs ++ (tail.map (·.1)).toList), false, 0, 0⟩
        (joinC (gtext xs ++ (tail.map (·.1)).toList)) = some st ∧
      st.colonp = cp ∧ p6fin st = some (out ++ wb xs ++ ((tail.map (·.2)).getD [])) := by
  cases tail with
  | some t =>
    obtain ⟨d, v⟩ := t
    have hv := ht (d, v) rfl
    simp only [Option.isSome_some, if_true] at hl
    simp only [Option.map_some, Option.toList_some, Option.getD_some]
    have hdne : d ≠ [] := by
      obtain ⟨d1, _, _, _, _, _, _, _, hd, h1, _⟩ := hv
      simp only at hd
      rw [hd]; intro h; simp at h
    rw [joinC_snoc]
    rw [p6_gc cp xs out _ d hx hdne (by omega)]
    obtain ⟨st, h1, h2, h3⟩ := p6_v4 (out ++ wb xs) cp d v hv (by simp only [List.length_append, wb_len]; omega)
    by_cases hxs : xs = []
    · subst hxs
      simp only [gtext, List.map_nil, gc, List.flatMap_nil, List.nil_append, if_true] at h1 ⊢
      exact ⟨st, h1, h2, h3⟩
    · simp only [hxs, if_false]
      exact ⟨st, h1, h2, h3⟩
  | none =>
    simp only [Option.map_none, Option.toList_none, List.append_nil, Option.getD_none]
    simp only [Option.isSome_none, Bool.false_eq_true, if_false, Nat.add_zero] at hl
    by_cases hxs : xs = []
    · subst hxs
      exact ⟨⟨out, cp, [], false, 0, 0⟩, by simp [gtext, joinC, pton6Go], rfl, by simp [p6fin, wb, wbytes]⟩
    · obtain ⟨ys, y, rfl⟩ := exists_snoc xs hxs
      obtain ⟨g, w⟩ := y
      have hgt : gtext (ys ++ [(g, w)]) = gtext ys ++ [g] := by simp [gtext]
      rw [hgt, joinC_snoc]
      have hgw : HexGroup g w := hx (g, w) (by simp)
      simp only [List.length_append, List.length_cons, List.length_nil] at hl
      rw [p6_gc cp ys out _ g (fun x hx' => hx x (by simp [hx'])) hgw.1 (by omega)]
      obtain ⟨cnt, h1⟩ := p6_group (out ++ wb ys) cp (if ys = [] then gc (gtext ys) ++ g else g) g w hgw []
      rw [List.append_nil] at h1
      refine ⟨⟨out ++ wb ys, cp, if ys = [] then gc (gtext ys) ++ g else g, true, cnt, w⟩,
        by rw [h1]; simp [pton6Go], rfl, ?_⟩
      have : ¬ ((out ++ wb ys).length + 2 > 16) := by
        simp only [List.length_append, wb_len]; omega
      simp only [p6fin, if_true, this, if_false, wb_append, wb_single, List.append_assoc]

/-- number of 16-bit groups a text stands for -/
def cnt6 (ps qs : List (Bytes × Nat)) (tail : Option (Bytes × Bytes)) : Nat :=
  ps.length + qs.length + (if tail.isSome then 2 else 0)

/-- THE SENTENCES of `inet_pton6` and their values: groups `ps`, optionally `::` followed by
    groups `qs`, optionally a dotted quad as the last item; single colons between items; exactly 8
    groups without `::`, at most 7 with it (a dotted quad counts for two); the value is the groups
    of `ps`, the zero fill, the groups of `qs`, the four bytes of the quad -/
def Sentence6 (T V : Bytes) : Prop :=
  ∃ (ps qs : List (Bytes × Nat)) (dbl : Bool) (tail : Option (Bytes × Bytes)),
    (∀ g ∈ ps ++ qs, HexGroup g.1 g.2) ∧ (∀ t, tail = some t → V4Tail t.1 t.2) ∧
    (dbl = false → qs = []) ∧
    (if dbl then cnt6 ps qs tail ≤ 7 else cnt6 ps qs tail = 8) ∧
    T = (if dbl then joinC (gtext ps) ++ cColon :: cColon :: joinC (gtext qs ++ (tail.map (·.1)).toList)
         else joinC (gtext ps ++ (tail.map (·.1)).toList)) ∧
    V = wb ps ++ (if dbl then List.replicate (16 - 2 * cnt6 ps qs tail) 0 else []) ++ wb qs ++
        (tail.map (·.2)).getD []

theorem p6start_ne (c : Nat) (r : Bytes) (hc : c ≠ cColon) : p6start (c :: r) = some (c :: r) := by
  unfold cColon at hc
  unfold p6start
  split
  · next h => simp at h; exact absurd h.1 hc
  · next h => simp at h; exact absurd h.1 hc
  · rfl

theorem group_head (g : Bytes) (w : Nat) (h : HexGroup g w) : ∃ c r, g = c :: r ∧ c ≠ cColon := by
  obtain ⟨hne, _, hhex, _⟩ := h
  cases g with
  | nil => exact absurd rfl hne
  | cons c r =>
    obtain ⟨d, hd⟩ := Option.isSome_iff_exists.mp (hhex c (by simp))
    exact ⟨c, r, rfl, (hexVal_ne_special c d hd).1⟩

theorem joinC_colon (xs : List Bytes) (h : xs ≠ []) : joinC xs ++ [cColon] = gc xs := by
  obtain ⟨ys, y, rfl⟩ := exists_snoc xs h
  rw [joinC_snoc]; simp [gc]

theorem tail_len (tail : Option (Bytes × Bytes)) (ht : ∀ t, tail = some t → V4Tail t.1 t.2) :
    ((tail.map (·.2)).getD []).length = if tail.isSome then 4 else 0 := by
  cases tail with
  | none => rfl
  | some t =>
    obtain ⟨_, _, _, _, _, _, _, _, _, _, _, _, _, _, hv⟩ := ht t rfl
    simp [hv]

/-- every sentence is accepted, with its value -/
theorem pton6_accepts (s V : Bytes) (h : Sentence6 (cstr s) V) : pton6 s = some V := by
  obtain ⟨ps, qs, dbl, tail, hg, ht, hq, hn, hT, hV⟩ := h
  have hps : ∀ g ∈ ps, HexGroup g.1 g.2 := fun g hgm => hg g (by simp [hgm])
  have hqs : ∀ g ∈ qs, HexGroup g.1 g.2 := fun g hgm => hg g (by simp [hgm])
  have htl := tail_len tail ht
  cases dbl with
  | false =>
    have hq0 := hq rfl
    subst hq0
    simp only [Bool.false_eq_true, if_false, cnt6, List.length_nil, Nat.add_zero] at hn hT hV
    have hpsne : ps ≠ [] := by
      intro h0; subst h0
      simp only [List.length_nil, Nat.zero_add] at hn
      split at hn <;> omega
    obtain ⟨st, hgo, hcp, hfin⟩ := p6_items none ps tail [] hps ht (by
      simp only [List.length_nil, Nat.zero_add]; split at hn <;> simp_all <;> omega)
    have hstart : p6start (cstr s) = some (joinC (gtext ps ++ (tail.map (·.1)).toList)) := by
      rw [hT]
      cases ps with
      | nil => exact absurd rfl hpsne
      | cons g ps' =>
        obtain ⟨c, r, hgc, hc⟩ := group_head g.1 g.2 (hps g (by simp))
        have : ∃ r', joinC (gtext (g :: ps') ++ (tail.map (·.1)).toList) = c :: r' := by
          simp only [gtext, List.map_cons, List.cons_append]
          cases hrest : (List.map (·.1) ps' ++ (tail.map (·.1)).toList) with
          | nil => exact ⟨r, by simp [joinC, hgc]⟩
          | cons y ys => exact ⟨r ++ cColon :: joinC (y :: ys), by simp [joinC, hgc]⟩
        obtain ⟨r', hr'⟩ := this
        rw [hr']; exact p6start_ne c r' hc
    rw [pton6_no_colonp s _ _ st hstart hgo hfin hcp (by
      simp only [List.nil_append, List.length_append, wb_len, htl]; split at hn <;> simp_all <;> omega)]
    rw [hV]; simp [wb, wbytes]
  | true =>
    simp only [if_true] at hn hT hV
    have hnn : cnt6 ps qs tail ≤ 7 := hn
    unfold cnt6 at hnn
    have hres : ∀ (out : Bytes), out = wb ps ++ wb qs ++ ((tail.map (·.2)).getD []) →
        out.take (2 * ps.length) ++ List.replicate (16 - out.length) 0 ++ out.drop (2 * ps.length) = V := by
      intro out ho
      have hol : out.length = 2 * cnt6 ps qs tail := by
        rw [ho]; simp only [List.length_append, wb_len, htl, cnt6]; split <;> omega
      rw [hV, hol, ho, List.append_assoc (wb ps)]
      rw [List.take_append_of_le_length (by rw [wb_len]; omega), List.take_of_length_le (by rw [wb_len]; omega)]
      rw [← wb_len ps, List.drop_left]
      simp
    by_cases hpe : ps = []
    · subst hpe
      obtain ⟨st, hgo, hcp, hfin⟩ := p6_items (some 0) qs tail [] hqs ht (by
        simp only [List.length_nil, Nat.zero_add] at hnn ⊢; split at hnn <;> simp_all <;> omega)
      have hstart : p6start (cstr s) = some (cColon :: joinC (gtext qs ++ (tail.map (·.1)).toList)) := by
        rw [hT]; simp [gtext, joinC, p6start, cColon]
      have hgo' : pton6Go ⟨[], none, cColon :: joinC (gtext qs ++ (tail.map (·.1)).toList), false, 0, 0⟩
          (cColon :: joinC (gtext qs ++ (tail.map (·.1)).toList)) = some st := by
        rw [p6_colon_dbl]; exact hgo
      rw [pton6_with_colonp s _ _ st 0 hstart hgo' hfin hcp (by
        simp only [List.nil_append, List.length_append, wb_len, htl]; split at hnn <;> simp_all <;> omega)]
      have := hres _ (by simp [wb, wbytes] : ([] ++ wb qs ++ ((tail.map (·.2)).getD []) : Bytes) = wb [] ++ wb qs ++ _)
      simpa using this
    · have hgne : gtext ps ≠ [] := by simp [gtext, hpe]
      have hT' : cstr s = gc (gtext ps) ++ cColon :: joinC (gtext qs ++ (tail.map (·.1)).toList) := by
        rw [hT, ← joinC_colon _ hgne]; simp
      obtain ⟨st, hgo, hcp, hfin⟩ := p6_items (some (2 * ps.length)) qs tail (wb ps) hqs ht (by
        simp only [wb_len]; split at hnn <;> simp_all <;> omega)
      have hstart : p6start (cstr s) = some (cstr s) := by
        rw [hT']
        cases ps with
        | nil => exact absurd rfl hpe
        | cons g ps' =>
          obtain ⟨c, r, hgc, hc⟩ := group_head g.1 g.2 (hps g (by simp))
          simp only [gtext, List.map_cons, gc, List.flatMap_cons, hgc, List.cons_append]
          exact p6start_ne c _ hc
      have hgo' : pton6Go ⟨[], none, cstr s, false, 0, 0⟩ (cstr s) = some st := by
        rw [hT']
        rw [p6_gc none ps [] _ _ hps (by simp) (by simp only [List.length_nil]; omega)]
        simp only [List.nil_append]
        rw [p6_colon_dbl, wb_len]
        exact hgo
      rw [pton6_with_colonp s _ _ st (2 * ps.length) hstart hgo' hfin hcp (by
        simp only [List.length_append, wb_len, htl]; split at hnn <;> simp_all <;> omega)]
      exact congrArg some (hres _ rfl)

/-! ### the converse: whatever is accepted is a sentence -/

/-- what the loop state means for the text `w` consumed so far (`rest` = what is still unread) -/
def Rep6 (st : P6) (w rest : Bytes) : Prop :=
  ∃ (ps qs : List (Bytes × Nat)) (dbl : Bool) (cur : Bytes),
    w = gc (gtext ps) ++ (if dbl then [cColon] else []) ++ gc (gtext qs) ++ cur ∧
    (dbl = false → qs = []) ∧
    (∀ g ∈ ps ++ qs, HexGroup g.1 g.2) ∧
    st.out = wb ps ++ wb qs ∧
    st.colonp = (if dbl then some (2 * ps.length) else none) ∧
    st.curtok = cur ++ rest ∧
    (∀ c ∈ cur, (hexVal? c).isSome = true) ∧ cur.length ≤ 4 ∧ st.cnt = cur.length ∧
    st.val = hexAcc 0 cur ∧ (st.sawX = true ↔ cur ≠ []) ∧
    2 * (ps.length + qs.length) ≤ 16 ∧
    (cur = [] → (if dbl then qs ≠ [] else ps ≠ []) → rest ≠ [])

/-- the loop left through the dotted-quad exit -/
def Exit6 (st' : P6) (L : Bytes) : Prop :=
  ∃ (ps qs : List (Bytes × Nat)) (dbl : Bool) (d v : Bytes),
    L = gc (gtext ps) ++ (if dbl then [cColon] else []) ++ gc (gtext qs) ++ d ∧
    (dbl = false → qs = []) ∧
    (∀ g ∈ ps ++ qs, HexGroup g.1 g.2) ∧ V4Tail d v ∧
    st'.out = wb ps ++ wb qs ++ v ∧
    st'.colonp = (if dbl then some (2 * ps.length) else none) ∧
    st'.sawX = false ∧ 2 * (ps.length + qs.length) + 4 ≤ 16

theorem split_at_unique (x : Nat) (a a' b b' : Bytes) (ha : x ∉ a) (ha' : x ∉ a')
    (h : a ++ x :: b = a' ++ x :: b') : a = a' := by
  induction a generalizing a' with
  | nil =>
    cases a' with
    | nil => rfl
    | cons y ys =>
      simp only [List.nil_append, List.cons_append, List.cons.injEq] at h
      exact absurd (by simp [h.1]) ha'
  | cons y ys ih =>
    cases a' with
    | nil =>
      simp only [List.nil_append, List.cons_append, List.cons.injEq] at h
      exact absurd (by simp [h.1]) ha
    | cons z zs =>
      simp only [List.cons_append, List.cons.injEq] at h
      rw [h.1, ih zs (fun hm => ha (by simp [hm])) (fun hm => ha' (by simp [hm])) h.2]

theorem gc_snoc (xs : List Bytes) (y : Bytes) : gc (xs ++ [y]) = gc xs ++ y ++ [cColon] := by
  simp [gc]

theorem rep6_go : ∀ (rest : Bytes) (st st' : P6) (w : Bytes),
    (∀ b ∈ rest, b ≠ 0) → pton6Go st rest = some st' → Rep6 st w rest →
    Rep6 st' (w ++ rest) [] ∨ Exit6 st' (w ++ rest) := by
  intro rest
  induction rest with
  | nil =>
    intro st st' w _ h hr
    simp only [pton6Go, Option.some.injEq] at h
    subst h
    left; simpa using hr
  | cons c rest' ih =>
    intro st st' w hnz h hr
    have hnz' : ∀ b ∈ rest', b ≠ 0 := fun b hb => hnz b (by simp [hb])
    obtain ⟨ps, qs, dbl, cur, hw, hq, hg, hout, hcp, htok, hcur, hlen, hcnt, hval, hsx, h16, hend⟩ := hr
    unfold pton6Go at h
    cases hx : hexVal? c with
    | some d =>
      simp only [hx] at h
      split at h
      · cases h
      · next hc4 =>
        split at h
        · cases h
        · have := ih _ st' (w ++ [c]) hnz' h ⟨ps, qs, dbl, cur ++ [c], by rw [hw]; simp, hq, hg, hout, hcp,
            by simp [htok], ?_, by simp only [List.length_append, List.length_cons, List.length_nil]; omega,
            by simp [hcnt], by simp only; rw [hexAcc_snoc, hx, hval]; rfl, by simp, h16, by simp⟩
          · simpa using this
          · intro x hxm
            simp only [List.mem_append, List.mem_singleton] at hxm
            rcases hxm with hxm | rfl
            · exact hcur x hxm
            · simp [hx]
    | none =>
      simp only [hx] at h
      split at h
      · next hcc =>
        -- a colon
        split at h
        · next hnsx =>
          -- `::`
          have hcur0 : cur = [] := by
            cases cur with
            | nil => rfl
            | cons a b =>
              have := hsx.mpr (by simp)
              simp [this] at hnsx
          subst hcur0
          split at h
          · cases h
          · next hncp =>
            have hdbl : dbl = false := by
              cases dbl with
              | false => rfl
              | true => simp [hcp] at hncp
            subst hdbl
            have hqs := hq rfl
            subst hqs
            have := ih _ st' (w ++ [c]) hnz' h ⟨ps, [], true, [], by rw [hw, hcc]; simp [gc, gtext], by simp, hg, hout,
              by simp only [if_true]; rw [hout]; simp only [List.length_append, wb_len, List.length_nil]; simp, by simp, by simp, by simp, hcnt, hval, hsx,
              h16, by simp⟩
            simpa using this
        · next hsxt =>
          have hsxt' : st.sawX = true := by simpa using hsxt
          have hcne : cur ≠ [] := hsx.mp hsxt'
          split at h
          · cases h
          · next hrne =>
            split at h
            · cases h
            · next hroom =>
              have hgrp : HexGroup cur st.val := ⟨hcne, hlen, hcur, hval.symm⟩
              have hol : st.out.length = 2 * (ps.length + qs.length) := by
                rw [hout]; simp only [List.length_append, wb_len]; omega
              cases dbl with
              | false =>
                have hqs := hq rfl
                subst hqs
                have := ih _ st' (w ++ [c]) hnz' h ⟨ps ++ [(cur, st.val)], [], false, [], ?_, by simp, ?_, ?_,
                  by simp only [Bool.false_eq_true, if_false] at hcp ⊢; exact hcp, by simp, by simp, by simp,
                  by simp, by simp [hexAcc], by simp, by simp at hol hroom ⊢; omega, fun _ _ => hrne⟩
                · simpa using this
                · rw [hw, hcc]; simp [gtext, gc]
                · intro g hgm
                  simp only [List.append_nil, List.mem_append, List.mem_singleton] at hgm
                  rcases hgm with hgm | rfl
                  · exact hg g (by simp [hgm])
                  · exact hgrp
                · simp only; rw [hout, wb_append, wb_single]; simp [wb, wbytes]
              | true =>
                have := ih _ st' (w ++ [c]) hnz' h ⟨ps, qs ++ [(cur, st.val)], true, [], ?_, by simp, ?_, ?_,
                  by simp only [if_true] at hcp ⊢; exact hcp, by simp, by simp, by simp,
                  by simp, by simp [hexAcc], by simp, by simp at hol hroom ⊢; omega, fun _ _ => hrne⟩
                · simpa using this
                · rw [hw, hcc]; simp [gtext, gc]
                · intro g hgm
                  simp only [List.mem_append, List.mem_singleton] at hgm
                  rcases hgm with hgm | hgm | rfl
                  · exact hg g (by simp [hgm])
                  · exact hg g (by simp [hgm])
                  · exact hgrp
                · simp only; rw [hout, wb_append, wb_single]; simp
      · split at h
        · next hdot =>
          -- the dotted quad
          cases hp4 : pton4 st.curtok with
          | none => simp only [hp4] at h; cases h
          | some v =>
            simp only [hp4, Option.some.injEq] at h
            subst h
            right
            have hdc : c = cDot := hdot.1
            subst hdc
            have hol : st.out.length = 2 * (ps.length + qs.length) := by
              rw [hout]; simp only [List.length_append, wb_len]; omega
            have hcnz : ∀ b ∈ cur ++ cDot :: rest', b ≠ 0 := by
              intro b hb
              simp only [List.mem_append, List.mem_cons] at hb
              rcases hb with hb | rfl | hb
              · obtain ⟨d, hd⟩ := Option.isSome_iff_exists.mp (hcur b hb)
                exact (hexVal_ne_special b d hd).2.2
              · decide
              · exact hnz' b hb
            rw [htok] at hp4
            obtain ⟨d1, d2, d3, d4, v1, v2, v3, v4, hd, h1, h2, h3, h4, hv⟩ := (pton4_grammar _ _).mp hp4
            rw [cstr_of_no_nul _ hcnz] at hd
            have hd1 : cur = d1 := by
              apply split_at_unique cDot cur d1 rest' _ _ _ hd
              · intro hm
                obtain ⟨d, hdd⟩ := Option.isSome_iff_exists.mp (hcur cDot hm)
                exact (hexVal_ne_special cDot d hdd).2.1 rfl
              · intro hm
                have := (isDigit_iff cDot).mp (h1.2.1 cDot hm)
                simp [cDot] at this
            refine ⟨ps, qs, dbl, cur ++ cDot :: rest', v, by rw [hw]; simp, hq, hg,
              ⟨d1, d2, d3, d4, v1, v2, v3, v4, hd, h1, h2, h3, h4, by rw [← hd1]; exact hlen, hv⟩,
              by simp only; rw [hout], hcp, rfl, by have := hdot.2; omega⟩
        · cases h

theorem p6start_cases (T L : Bytes) (h : p6start T = some L) :
    (T = cColon :: L ∧ ∃ r, L = cColon :: r) ∨ (T = L ∧ ∀ r, L ≠ cColon :: r) := by
  unfold p6start at h
  unfold cColon
  split at h
  · next r => cases h; left; exact ⟨rfl, r, rfl⟩
  · cases h
  · next h1 h2 =>
    cases h
    right
    refine ⟨rfl, fun r hr => ?_⟩
    subst hr
    cases r with
    | nil => exact h2 [] rfl
    | cons y ys =>
      by_cases hy : y = 58
      · subst hy; exact h1 ys rfl
      · exact h2 (y :: ys) rfl

theorem gc_head_ne_colon (ps : List (Bytes × Nat)) (hps : ps ≠ []) (hg : ∀ g ∈ ps, HexGroup g.1 g.2)
    (X : Bytes) : ∀ r, gc (gtext ps) ++ X ≠ cColon :: r := by
  intro r hr
  cases ps with
  | nil => exact hps rfl
  | cons g ps' =>
    obtain ⟨c, r', hgc, hc⟩ := group_head g.1 g.2 (hg g (by simp))
    simp only [gtext, List.map_cons, gc, List.flatMap_cons, hgc, List.cons_append, List.cons.injEq] at hr
    exact hc hr.1

theorem v4tail_head (d v : Bytes) (h : V4Tail d v) : ∃ c r, d = c :: r ∧ c ≠ cColon := by
  obtain ⟨d1, _, _, _, _, _, _, _, hd, h1, _⟩ := h
  obtain ⟨hne, hdig, _, _⟩ := h1
  cases d1 with
  | nil => exact absurd rfl hne
  | cons c r =>
    have := (isDigit_iff c).mp (hdig c (by simp))
    exact ⟨c, _, by rw [hd]; rfl, by unfold cColon; omega⟩

theorem start_eq (T L : Bytes) (hstart : p6start T = some L) (hno : ∀ r, L ≠ cColon :: r) : T = L := by
  rcases p6start_cases T L hstart with ⟨_, r, hr⟩ | ⟨hT, _⟩
  · exact absurd hr (hno r)
  · exact hT

/-- the original text of a `::` sentence from what the loop saw -/
theorem text_dbl (T L : Bytes) (ps : List (Bytes × Nat)) (M : Bytes) (hstart : p6start T = some L)
    (hL : L = gc (gtext ps) ++ cColon :: M) (hps : ∀ g ∈ ps, HexGroup g.1 g.2) :
    T = joinC (gtext ps) ++ cColon :: cColon :: M := by
  by_cases hpe : ps = []
  · subst hpe
    simp only [gtext, List.map_nil, gc, List.flatMap_nil, List.nil_append, joinC] at hL ⊢
    rcases p6start_cases T L hstart with ⟨hT, _⟩ | ⟨_, hno⟩
    · rw [hT, hL]
    · exact absurd hL (hno _)
  · have hgne : gtext ps ≠ [] := by simp [gtext, hpe]
    have := start_eq T L hstart (by rw [hL]; exact gc_head_ne_colon ps hpe hps _)
    rw [this, hL, ← joinC_colon _ hgne]; simp

theorem wb_nil : wb [] = [] := rfl

theorem v4_len (d v : Bytes) (h : V4Tail d v) : v.length = 4 := by
  obtain ⟨_, _, _, _, _, _, _, _, _, _, _, _, _, _, hv⟩ := h
  rw [hv]; rfl

theorem wb_take (ps : List (Bytes × Nat)) (X : Bytes) : (wb ps ++ X).take (2 * ps.length) = wb ps := by
  rw [← wb_len ps, List.take_left]

theorem wb_drop (ps : List (Bytes × Nat)) (X : Bytes) : (wb ps ++ X).drop (2 * ps.length) = X := by
  rw [← wb_len ps, List.drop_left]

/-- whatever `inet_pton6` accepts is a sentence, and the result is its value -/
theorem pton6_sentence (s V : Bytes) (h : pton6 s = some V) : Sentence6 (cstr s) V := by
  unfold pton6 at h
  cases hs : p6start (cstr s) with
  | none => simp only [hs] at h; cases h
  | some L =>
    simp only [hs] at h
    cases hg : pton6Go ⟨[], none, L, false, 0, 0⟩ L with
    | none => simp only [hg] at h; cases h
    | some st =>
      simp only [hg] at h
      cases hfin : p6fin st with
      | none => simp only [hfin] at h; cases h
      | some out =>
        simp only [hfin] at h
        have hnzL : ∀ b ∈ L, b ≠ 0 := by
          intro b hb
          rcases p6start_cases _ _ hs with ⟨hT, _⟩ | ⟨hT, _⟩
          · exact cstr_no_nul s b (by rw [hT]; simp [hb])
          · exact cstr_no_nul s b (by rw [hT]; exact hb)
        have hinit : Rep6 ⟨[], none, L, false, 0, 0⟩ [] L :=
          ⟨[], [], false, [], by simp [gc, gtext], by simp, by simp, by simp [wb, wbytes], by simp, by simp,
            by simp, by simp, rfl, by simp [hexAcc], by simp, by simp, by simp⟩
        rcases rep6_go L _ st [] hnzL hg hinit with hrep | hexit
        · rw [List.nil_append] at hrep
          obtain ⟨ps, qs, dbl, cur, hw, hq, hgr, hout, hcp, _, hcur, hlen, _, hval, hsx, h16, hend⟩ := hrep
          have hps : ∀ g ∈ ps, HexGroup g.1 g.2 := fun g hgm => hgr g (by simp [hgm])
          unfold p6fin at hfin
          by_cases hcne : cur = []
          · -- nothing pending
            subst hcne
            have hsxf : st.sawX = false := by
              cases hsv : st.sawX with
              | false => rfl
              | true => exact absurd (hsx.mp hsv) (by simp)
            simp only [hsxf, Bool.false_eq_true, if_false, Option.some.injEq] at hfin
            subst hfin
            cases dbl with
            | false =>
              exfalso
              have hq0 := hq rfl
              subst hq0
              have hps0 : ps = [] := by
                cases ps with
                | nil => rfl
                | cons a b => exact absurd rfl (hend rfl (by simp))
              subst hps0
              simp only [Bool.false_eq_true, if_false] at hcp
              simp only [hcp, hout] at h
              simp [wb, wbytes] at h
            | true =>
              simp only [if_true] at hcp hw
              have hqs0 : qs = [] := by
                cases qs with
                | nil => rfl
                | cons a b => exact absurd rfl (hend rfl (by simp))
              subst hqs0
              rw [wb_nil, List.append_nil] at hout
              simp only [hcp] at h
              split at h
              · cases h
              · next hne16 =>
                cases h
                have hol : st.out.length = 2 * ps.length := by rw [hout, wb_len]
                refine ⟨ps, [], true, none, hgr, by simp, by simp, ?_, ?_, ?_⟩
                · simp only [if_true, cnt6, List.length_nil, Option.isSome_none, Bool.false_eq_true, if_false]
                  omega
                · simp only [if_true]
                  exact text_dbl _ L ps [] hs (by rw [hw]; simp [gc, gtext, joinC]) hps
                · simp only [if_true, cnt6, List.length_nil, Option.isSome_none, Bool.false_eq_true, if_false,
                    Nat.add_zero, Option.map_none, Option.getD_none, wb_nil, List.append_nil]
                  rw [hol, hout]
                  have e1 : (wb ps).take (2 * ps.length) = wb ps := List.take_of_length_le (by rw [wb_len]; omega)
                  have e2 : (wb ps).drop (2 * ps.length) = [] := List.drop_of_length_le (by rw [wb_len]; omega)
                  rw [e1, e2]; simp
          · -- a pending group
            have hsxt : st.sawX = true := hsx.mpr hcne
            have hgl : HexGroup cur st.val := ⟨hcne, hlen, hcur, hval.symm⟩
            simp only [hsxt, if_true] at hfin
            split at hfin
            · cases hfin
            · next hroom =>
              simp only [Option.some.injEq] at hfin
              subst hfin
              have hol : st.out.length = 2 * (ps.length + qs.length) := by
                rw [hout]; simp only [List.length_append, wb_len]; omega
              cases dbl with
              | false =>
                have hq0 := hq rfl
                subst hq0
                simp only [Bool.false_eq_true, if_false] at hcp hw
                simp only [hcp] at h
                split at h
                · cases h
                · next h16' =>
                  cases h
                  have hl16 : (st.out ++ [st.val / 256, st.val % 256]).length = 16 := by
                    simpa using h16'
                  simp only [List.length_append, List.length_cons, List.length_nil] at hl16
                  have hL : L = joinC (gtext (ps ++ [(cur, st.val)])) := by
                    rw [hw]; simp only [gtext, List.map_append, List.map_cons, List.map_nil]
                    rw [joinC_snoc]; simp [gc]
                  have hT : cstr s = L := by
                    apply start_eq _ _ hs
                    rw [hw]
                    by_cases hpe : ps = []
                    · subst hpe
                      obtain ⟨c, r', hgc, hc⟩ := group_head cur st.val hgl
                      intro r hr
                      simp only [gtext, List.map_nil, gc, List.flatMap_nil, List.nil_append, hgc,
                        List.cons.injEq] at hr
                      exact hc hr.1
                    · intro r hr
                      simp only [List.append_nil, List.append_assoc] at hr
                      exact gc_head_ne_colon ps hpe hps _ r hr
                  have hn7 : ps.length = 7 := by
                    simp only [List.length_nil, Nat.add_zero] at hol; omega
                  refine ⟨ps ++ [(cur, st.val)], [], false, none, ?_, by simp, by simp, ?_, ?_, ?_⟩
                  · intro g hgm
                    simp only [List.append_nil, List.mem_append, List.mem_singleton] at hgm
                    rcases hgm with hgm | rfl
                    · exact hps g hgm
                    · exact hgl
                  · simp only [Bool.false_eq_true, if_false, cnt6, List.length_append, List.length_cons,
                      List.length_nil, Option.isSome_none]
                    omega
                  · simp only [Bool.false_eq_true, if_false, Option.map_none, Option.toList_none, List.append_nil]
                    rw [hT, hL]
                  · simp only [Bool.false_eq_true, if_false, hout, wb_append, wb_single]
                    simp [wb, wbytes]
              | true =>
                simp only [if_true] at hcp hw
                simp only [hcp] at h
                split at h
                · cases h
                · next hne16 =>
                  cases h
                  refine ⟨ps, qs ++ [(cur, st.val)], true, none, ?_, by simp, by simp, ?_, ?_, ?_⟩
                  · intro g hgm
                    simp only [List.mem_append, List.mem_singleton] at hgm
                    rcases hgm with hgm | hgm | rfl
                    · exact hgr g (by simp [hgm])
                    · exact hgr g (by simp [hgm])
                    · exact hgl
                  · simp only [if_true, cnt6, List.length_append, List.length_cons, List.length_nil,
                      Option.isSome_none, Bool.false_eq_true, if_false]
                    simp only [List.length_append, List.length_cons, List.length_nil] at hne16
                    omega
                  · simp only [if_true, Option.map_none, Option.toList_none, List.append_nil]
                    apply text_dbl _ L ps _ hs _ hps
                    rw [hw]
                    simp only [gtext, List.map_append, List.map_cons, List.map_nil]
                    rw [joinC_snoc]; simp [gc]
                  · simp only [if_true, cnt6, hout]
                    rw [List.append_assoc (wb ps), wb_take, wb_drop, wb_append, wb_single]
                    simp only [List.length_append, wb_len, List.length_cons, List.length_nil]
                    simp
                    omega
        · rw [List.nil_append] at hexit
          obtain ⟨ps, qs, dbl, d, v, hw, hq, hgr, hv4, hout, hcp, hsxf, h16⟩ := hexit
          have hps : ∀ g ∈ ps, HexGroup g.1 g.2 := fun g hgm => hgr g (by simp [hgm])
          have hvl := v4_len d v hv4
          unfold p6fin at hfin
          simp only [hsxf, Bool.false_eq_true, if_false, Option.some.injEq] at hfin
          subst hfin
          cases dbl with
          | false =>
            have hq0 := hq rfl
            subst hq0
            simp only [Bool.false_eq_true, if_false] at hcp hw
            simp only [hcp] at h
            split at h
            · cases h
            · next h16' =>
              cases h
              have hl16 : st.out.length = 16 := by simpa using h16'
              rw [hout] at hl16
              simp only [List.length_append, wb_len, hvl, List.length_nil] at hl16
              have hpe : ps ≠ [] := by intro h0; subst h0; simp at hl16
              have hT : cstr s = L := by
                apply start_eq _ _ hs
                rw [hw]; intro r hr
                simp only [List.append_nil, List.append_assoc] at hr
                exact gc_head_ne_colon ps hpe hps _ r hr
              refine ⟨ps, [], false, some (d, v), hgr, ?_, by simp, ?_, ?_, ?_⟩
              · intro t ht; cases ht; exact hv4
              · simp only [Bool.false_eq_true, if_false, cnt6, List.length_nil, Option.isSome_some, if_true]; omega
              · simp only [Bool.false_eq_true, if_false, Option.map_some, Option.toList_some]
                rw [hT, hw, joinC_snoc]; simp [gc, gtext]
              · simp only [Bool.false_eq_true, if_false, hout]; simp [wb, wbytes]
          | true =>
            simp only [if_true] at hcp hw
            simp only [hcp] at h
            split at h
            · cases h
            · next hne16 =>
              cases h
              have hol : st.out.length = 2 * (ps.length + qs.length) + 4 := by
                rw [hout]; simp only [List.length_append, wb_len, hvl]; omega
              refine ⟨ps, qs, true, some (d, v), hgr, ?_, by simp, ?_, ?_, ?_⟩
              · intro t ht; cases ht; exact hv4
              · simp only [if_true, cnt6, Option.isSome_some]; omega
              · simp only [if_true, Option.map_some, Option.toList_some]
                apply text_dbl _ L ps _ hs _ hps
                rw [hw, joinC_snoc]; simp
              · simp only [if_true, cnt6, hout]
                rw [List.append_assoc (wb ps), List.append_assoc (wb ps), wb_take, wb_drop]
                simp only [List.length_append, wb_len, hvl]
                simp
                omega

/-- THE GRAMMAR of `inet_pton6` -/
theorem pton6_grammar (s V : Bytes) : pton6 s = some V ↔ Sentence6 (cstr s) V :=
  ⟨pton6_sentence s V, pton6_accepts s V⟩

end UsualProofs.C14
