import UsualProofs.C14.Inet
import UsualProofs.C14.Inet6
/-! `inet_pton6(inet_ntop6(a)) = a` for every IPv6 address: the three text shapes the code can
    produce (`a:b:c:d:e:f:g:h`, `P::Q`, `::[ffff:]a.b.c.d`) are parsed back group by group. -/
namespace UsualProofs.C14
open Usual.C14

/-! ## pton6 (ntop6 a) = a -/

theorem hexVal_hexDig (d : Nat) (h : d < 16) : hexVal? (hexDig d) = some d := by
  unfold hexDig hexVal?
  by_cases h1 : d < 10
  · have e : 48 ≤ 48 + d ∧ 48 + d ≤ 57 := by omega
    simp [h1, e]
  · have e1 : ¬ (48 ≤ 87 + d ∧ 87 + d ≤ 57) := by omega
    have e2 : 97 ≤ 87 + d ∧ 87 + d ≤ 102 := by omega
    simp [h1, e1, e2]

theorem hexVal_colon : hexVal? cColon = none := by decide
theorem hexVal_dot : hexVal? cDot = none := by decide

/-- one hex digit read -/
theorem p6_digit (st : P6) (d : Nat) (rest : Bytes) (hd : d < 16) (hc : st.cnt < 4)
    (hv : st.val * 16 + d ≤ 0xffff) :
    pton6Go st (hexDig d :: rest) =
      pton6Go { st with val := st.val * 16 + d, sawX := true, cnt := st.cnt + 1 } rest := by
  rw [pton6Go, hexVal_hexDig d hd]
  have e1 : ¬ st.cnt ≥ 4 := by omega
  have e2 : ¬ st.val * 16 + d > 0xffff := by omega
  simp [e1, e2]

/-- a whole `%x` group read from a fresh state -/
theorem p6_hex4 (out : Bytes) (cp : Option Nat) (tok : Bytes) (w : Nat) (hw : w < 65536) (rest : Bytes) :
    ∃ cnt, pton6Go ⟨out, cp, tok, false, 0, 0⟩ (hex4 w ++ rest) =
      pton6Go ⟨out, cp, tok, true, cnt, w⟩ rest := by
  unfold hex4
  by_cases c1 : w < 16
  · refine ⟨1, ?_⟩
    simp only [c1, if_true, List.cons_append, List.nil_append]
    rw [p6_digit _ w rest (by omega) (by simp) (by simp; omega)]
    simp
  · by_cases c2 : w < 256
    · refine ⟨2, ?_⟩
      simp only [c1, c2, if_true, if_false, List.cons_append, List.nil_append]
      rw [p6_digit _ (w / 16) _ (by omega) (by simp) (by simp; omega)]
      rw [p6_digit _ (w % 16) _ (by omega) (by simp) (by simp; omega)]
      simp only [Nat.zero_mul, Nat.zero_add]
      have : w / 16 * 16 + w % 16 = w := by omega
      rw [this]
    · by_cases c3 : w < 4096
      · refine ⟨3, ?_⟩
        simp only [c1, c2, c3, if_true, if_false, List.cons_append, List.nil_append]
        rw [p6_digit _ (w / 256) _ (by omega) (by simp) (by simp; omega)]
        rw [p6_digit _ (w / 16 % 16) _ (by omega) (by simp) (by simp; omega)]
        rw [p6_digit _ (w % 16) _ (by omega) (by simp) (by simp; omega)]
        simp only [Nat.zero_mul, Nat.zero_add]
        have : (w / 256 * 16 + w / 16 % 16) * 16 + w % 16 = w := by omega
        rw [this]
      · refine ⟨4, ?_⟩
        simp only [c1, c2, c3, if_false, List.cons_append, List.nil_append]
        rw [p6_digit _ (w / 4096) _ (by omega) (by simp) (by simp; omega)]
        rw [p6_digit _ (w / 256 % 16) _ (by omega) (by simp) (by simp; omega)]
        rw [p6_digit _ (w / 16 % 16) _ (by omega) (by simp) (by simp; omega)]
        rw [p6_digit _ (w % 16) _ (by omega) (by simp) (by simp; omega)]
        simp only [Nat.zero_mul, Nat.zero_add]
        have : ((w / 4096 * 16 + w / 256 % 16) * 16 + w / 16 % 16) * 16 + w % 16 = w := by omega
        rw [this]

/-- a colon that ends a group -/
theorem p6_colon_group (out : Bytes) (cp : Option Nat) (tok : Bytes) (cnt w : Nat) (rest : Bytes)
    (hr : rest ≠ []) (hl : out.length + 2 ≤ 16) :
    pton6Go ⟨out, cp, tok, true, cnt, w⟩ (cColon :: rest) =
      pton6Go ⟨out ++ [w / 256, w % 256], cp, rest, false, 0, 0⟩ rest := by
  rw [pton6Go, hexVal_colon]
  have e : ¬ (out.length + 2 > 16) := by omega
  simp [hr, e]

/-- the second colon of `::` -/
theorem p6_colon_dbl (out : Bytes) (tok : Bytes) (rest : Bytes) :
    pton6Go ⟨out, none, tok, false, 0, 0⟩ (cColon :: rest) =
      pton6Go ⟨out, some out.length, rest, false, 0, 0⟩ rest := by
  rw [pton6Go, hexVal_colon]
  simp

def wbytes (ws : List Nat) : Bytes := ws.flatMap fun w => [w / 256, w % 256]

theorem wbytes_len (ws : List Nat) : (wbytes ws).length = 2 * ws.length := by
  induction ws with
  | nil => rfl
  | cons w ws ih => simp only [wbytes, List.flatMap_cons, List.length_append, List.length_cons, List.length_nil] at ih ⊢; omega

/-- `a:b:c` read from a fresh state: all groups but the last are stored, the last is pending -/
theorem p6_joinHex (ws : List Nat) (w : Nat) (out : Bytes) (cp : Option Nat) (tok : Bytes) (rest : Bytes)
    (hws : ∀ x ∈ ws ++ [w], x < 65536) (hl : out.length + 2 * ws.length + 2 ≤ 16) :
    ∃ tok' cnt, pton6Go ⟨out, cp, tok, false, 0, 0⟩ (joinHex (ws ++ [w]) ++ rest) =
      pton6Go ⟨out ++ wbytes ws, cp, tok', true, cnt, w⟩ rest := by
  induction ws generalizing out tok with
  | nil =>
    obtain ⟨cnt, h⟩ := p6_hex4 out cp tok w (hws w (by simp)) rest
    exact ⟨tok, cnt, by simpa [joinHex, wbytes] using h⟩
  | cons v vs ih =>
    have hj : joinHex ((v :: vs) ++ [w]) = hex4 v ++ [cColon] ++ joinHex (vs ++ [w]) := by
      cases vs <;> simp [joinHex]
    rw [hj]
    obtain ⟨cnt, h1⟩ := p6_hex4 out cp tok v (hws v (by simp)) ([cColon] ++ joinHex (vs ++ [w]) ++ rest)
    simp only [List.append_assoc] at h1 ⊢
    rw [h1]
    have hne : joinHex (vs ++ [w]) ++ rest ≠ [] := by
      cases vs with
      | nil => simp [joinHex]; unfold hex4; repeat' split
               all_goals simp
      | cons a b => 
        have : joinHex ((a :: b) ++ [w]) = hex4 a ++ [cColon] ++ joinHex (b ++ [w]) := by
          cases b <;> simp [joinHex]
        rw [this]; simp
    simp only [List.length_cons] at hl
    rw [List.singleton_append, p6_colon_group out cp tok cnt v _ hne (by omega)]
    obtain ⟨tok', cnt', h2⟩ := ih (out ++ [v / 256, v % 256]) (joinHex (vs ++ [w]) ++ rest)
      (fun x hx => hws x (by simp only [List.cons_append, List.mem_cons]; right; exact hx)) (by simp; omega)
    refine ⟨tok', cnt', ?_⟩
    rw [h2]
    simp [wbytes]

theorem hexDig_ne (d : Nat) (hd : d < 16) : hexDig d ≠ 0 ∧ hexDig d ≠ cColon := by
  unfold hexDig cColon; split <;> omega

theorem hex4_cons (w : Nat) (hw : w < 65536) : ∃ d r, d < 16 ∧ hex4 w = hexDig d :: r := by
  unfold hex4
  repeat' split
  · exact ⟨w, [], by omega, rfl⟩
  · exact ⟨w / 16, _, by omega, rfl⟩
  · exact ⟨w / 256, _, by omega, rfl⟩
  · exact ⟨w / 4096, _, by omega, rfl⟩

theorem hex4_no_nul (w : Nat) (hw : w < 65536) : ∀ x ∈ hex4 w, x ≠ 0 := by
  intro x hx
  unfold hex4 at hx
  repeat' split at hx
  all_goals
    simp only [List.mem_cons, List.mem_nil_iff, or_false] at hx
    rcases hx with rfl | hx
    · exact (hexDig_ne _ (by omega)).1
  all_goals try (rcases hx with rfl | hx; · exact (hexDig_ne _ (by omega)).1)
  all_goals try (rcases hx with rfl | hx; · exact (hexDig_ne _ (by omega)).1)
  all_goals try (subst hx; exact (hexDig_ne _ (by omega)).1)
  all_goals try (exact absurd hx (by simp))

theorem joinHex_cons (v : Nat) (vs : List Nat) (hvs : vs ≠ []) :
    joinHex (v :: vs) = hex4 v ++ [cColon] ++ joinHex vs := by
  cases vs with
  | nil => exact absurd rfl hvs
  | cons a b => simp [joinHex]

theorem joinHex_no_nul (ws : List Nat) (hws : ∀ x ∈ ws, x < 65536) : ∀ x ∈ joinHex ws, x ≠ 0 := by
  induction ws with
  | nil => simp [joinHex]
  | cons v vs ih =>
    by_cases hvs : vs = []
    · subst hvs; simpa [joinHex] using hex4_no_nul v (hws v (by simp))
    · rw [joinHex_cons v vs hvs]
      intro x hx
      simp only [List.mem_append, List.mem_singleton] at hx
      rcases hx with (hx | hx) | hx
      · exact hex4_no_nul v (hws v (by simp)) x hx
      · subst hx; decide
      · exact ih (fun y hy => hws y (by simp [hy])) x hx

theorem joinHex_head (v : Nat) (vs : List Nat) (hv : v < 65536) :
    ∃ d r, d < 16 ∧ joinHex (v :: vs) = hexDig d :: r := by
  obtain ⟨d, r, hd, h⟩ := hex4_cons v hv
  by_cases hvs : vs = []
  · subst hvs; exact ⟨d, r, hd, by simpa [joinHex] using h⟩
  · rw [joinHex_cons v vs hvs, h]; exact ⟨d, _, hd, rfl⟩

/-- split a non-empty list at its last element -/
theorem exists_snoc {α} (l : List α) (h : l ≠ []) : ∃ xs x, l = xs ++ [x] :=
  ⟨l.dropLast, l.getLast h, (List.dropLast_concat_getLast h).symm⟩

theorem wbytes_append (a b : List Nat) : wbytes (a ++ b) = wbytes a ++ wbytes b := by
  simp [wbytes]

theorem wbytes_single (w : Nat) : wbytes [w] = [w / 256, w % 256] := by simp [wbytes]

theorem pton6_with_colonp (src0 s out : Bytes) (st : P6) (cp : Nat)
    (h1 : p6start (cstr src0) = some s) (h2 : pton6Go ⟨[], none, s, false, 0, 0⟩ s = some st)
    (h3 : p6fin st = some out) (h4 : st.colonp = some cp) (h5 : out.length ≠ 16) :
    pton6 src0 = some (out.take cp ++ List.replicate (16 - out.length) 0 ++ out.drop cp) := by
  unfold pton6
  simp only [h1, h2, h3, h4, h5, if_false]

theorem pton6_no_colonp (src0 s out : Bytes) (st : P6)
    (h1 : p6start (cstr src0) = some s) (h2 : pton6Go ⟨[], none, s, false, 0, 0⟩ s = some st)
    (h3 : p6fin st = some out) (h4 : st.colonp = none) (h5 : out.length = 16) :
    pton6 src0 = some out := by
  unfold pton6
  simp only [h1, h2, h3, h4, h5, ne_eq, not_true_eq_false, if_false]

/-- phase 2 of `P::Q`: the groups after `::` -/
theorem p6_phase2 (pre post : List Nat) (hpost : ∀ x ∈ post, x < 65536)
    (hlen : pre.length + post.length < 8) (tok0 : Bytes) :
    ∃ st, pton6Go ⟨wbytes pre, some (2 * pre.length), tok0, false, 0, 0⟩ (joinHex post) = some st ∧
      st.colonp = some (2 * pre.length) ∧ p6fin st = some (wbytes pre ++ wbytes post) := by
  by_cases hp : post = []
  · subst hp
    exact ⟨⟨wbytes pre, some (2 * pre.length), tok0, false, 0, 0⟩, by simp [joinHex, pton6Go], rfl, by simp [p6fin, wbytes]⟩
  · obtain ⟨qs, q, hq⟩ := exists_snoc post hp
    subst hq
    have hl : (wbytes pre).length + 2 * qs.length + 2 ≤ 16 := by
      rw [wbytes_len]; simp at hlen; omega
    obtain ⟨tok', cnt', h⟩ := p6_joinHex qs q (wbytes pre) (some (2 * pre.length)) tok0 [] hpost hl
    rw [List.append_nil] at h
    refine ⟨⟨wbytes pre ++ wbytes qs, some (2 * pre.length), tok', true, cnt', q⟩, by rw [h]; simp [pton6Go], rfl, ?_⟩
    have : ¬ ((wbytes pre ++ wbytes qs).length + 2 > 16) := by
      simp only [List.length_append]; rw [wbytes_len qs]; omega
    simp only [p6fin, if_true, this, if_false, wbytes_append, wbytes_single, List.append_assoc]

theorem p6start_hex (d : Nat) (r : Bytes) (hd : d < 16) : p6start (hexDig d :: r) = some (hexDig d :: r) := by
  have := (hexDig_ne d hd).2
  unfold cColon at this
  unfold p6start
  split
  · next h => simp at h; exact absurd h.1 this
  · next h => simp at h; exact absurd h.1 this
  · rfl

/-- `P::Q` (P, Q sequences of groups, possibly empty, fewer than 8 groups in all) parses to the
    groups of P, a zero fill, the groups of Q -/
theorem pton6_form_b (pre post : List Nat) (hpre : ∀ x ∈ pre, x < 65536) (hpost : ∀ x ∈ post, x < 65536)
    (hlen : pre.length + post.length < 8) (t : Bytes) :
    pton6 (joinHex pre ++ cColon :: cColon :: joinHex post ++ 0 :: t) =
      some (wbytes pre ++ List.replicate (16 - 2 * (pre.length + post.length)) 0 ++ wbytes post) := by
  have hnn : ∀ b ∈ joinHex pre ++ cColon :: cColon :: joinHex post, b ≠ 0 := by
    intro b hb
    simp only [List.mem_append, List.mem_cons] at hb
    rcases hb with hb | rfl | rfl | hb
    · exact joinHex_no_nul pre hpre b hb
    · decide
    · decide
    · exact joinHex_no_nul post hpost b hb
  have hc : cstr (joinHex pre ++ cColon :: cColon :: joinHex post ++ 0 :: t) =
      joinHex pre ++ cColon :: cColon :: joinHex post := by
    have := cstr_append_nul _ t hnn
    simpa using this
  have hfinlen : (wbytes pre ++ wbytes post).length = 2 * (pre.length + post.length) := by
    simp only [List.length_append, wbytes_len]; omega
  have hres : ∀ (out : Bytes), out = wbytes pre ++ wbytes post →
      out.take (2 * pre.length) ++ List.replicate (16 - out.length) 0 ++ out.drop (2 * pre.length) =
      wbytes pre ++ List.replicate (16 - 2 * (pre.length + post.length)) 0 ++ wbytes post := by
    intro out ho
    subst ho
    rw [hfinlen]
    have h1 : (wbytes pre ++ wbytes post).take (2 * pre.length) = wbytes pre := by
      rw [List.take_append_of_le_length (by rw [wbytes_len]; omega), List.take_of_length_le (by rw [wbytes_len]; omega)]
    have h2 : (wbytes pre ++ wbytes post).drop (2 * pre.length) = wbytes post := by
      rw [← wbytes_len pre, List.drop_left]
    rw [h1, h2]
  by_cases hpe : pre = []
  · subst hpe
    obtain ⟨st, hgo, hcp, hfin⟩ := p6_phase2 [] post hpost hlen (joinHex post)
    have hstart : p6start (cstr (joinHex [] ++ cColon :: cColon :: joinHex post ++ 0 :: t)) =
        some (cColon :: joinHex post) := by
      rw [hc]; simp [joinHex, p6start, cColon]
    have hgo' : pton6Go ⟨[], none, cColon :: joinHex post, false, 0, 0⟩ (cColon :: joinHex post) = some st := by
      rw [p6_colon_dbl]
      simpa [wbytes] using hgo
    rw [pton6_with_colonp _ _ _ st (2 * ([] : List Nat).length) hstart hgo' hfin hcp (by rw [hfinlen]; simp at hlen ⊢; omega)]
    rw [hres _ rfl]
  · obtain ⟨ps, p, hp⟩ := exists_snoc pre hpe
    subst hp
    obtain ⟨d, r, hd, hhead⟩ : ∃ d r, d < 16 ∧ joinHex (ps ++ [p]) = hexDig d :: r := by
      cases ps with
      | nil => exact joinHex_head p [] (hpre p (by simp))
      | cons a b => exact joinHex_head a (b ++ [p]) (hpre a (by simp))
    have hl1 : ([] : Bytes).length + 2 * ps.length + 2 ≤ 16 := by simp at hlen ⊢; omega
    obtain ⟨tok', cnt', hj⟩ := p6_joinHex ps p [] none
      (joinHex (ps ++ [p]) ++ cColon :: cColon :: joinHex post) (cColon :: cColon :: joinHex post) hpre hl1
    obtain ⟨st, hgo, hcp, hfin⟩ := p6_phase2 (ps ++ [p]) post hpost hlen (joinHex post)
    have hstart : p6start (cstr (joinHex (ps ++ [p]) ++ cColon :: cColon :: joinHex post ++ 0 :: t)) =
        some (joinHex (ps ++ [p]) ++ cColon :: cColon :: joinHex post) := by
      rw [hc, hhead]; exact p6start_hex d _ hd
    have hgo' : pton6Go ⟨[], none, joinHex (ps ++ [p]) ++ cColon :: cColon :: joinHex post, false, 0, 0⟩
        (joinHex (ps ++ [p]) ++ cColon :: cColon :: joinHex post) = some st := by
      rw [hj]
      rw [p6_colon_group _ _ _ _ _ _ (by simp) (by simp only [List.nil_append, wbytes_len]; simp at hlen; omega)]
      rw [p6_colon_dbl]
      have e1 : ([] : Bytes) ++ wbytes ps ++ [p / 256, p % 256] = wbytes (ps ++ [p]) := by
        simp [wbytes_append, wbytes_single]
      have e2 : (([] : Bytes) ++ wbytes ps ++ [p / 256, p % 256]).length = 2 * (ps ++ [p]).length := by
        rw [e1, wbytes_len]
      rw [e2, e1]
      exact hgo
    rw [pton6_with_colonp _ _ _ st (2 * (ps ++ [p]).length) hstart hgo' hfin hcp (by rw [hfinlen]; omega)]
    rw [hres _ rfl]

/-- eight groups `a:b:c:d:e:f:g:h` -/
theorem pton6_form_a (ws : List Nat) (hws : ∀ x ∈ ws, x < 65536) (h8 : ws.length = 8) (t : Bytes) :
    pton6 (joinHex ws ++ 0 :: t) = some (wbytes ws) := by
  have hne : ws ≠ [] := by intro h; rw [h] at h8; cases h8
  obtain ⟨ps, p, hp⟩ := exists_snoc ws hne
  subst hp
  have h7 : ps.length = 7 := by simp at h8; omega
  have hc : cstr (joinHex (ps ++ [p]) ++ 0 :: t) = joinHex (ps ++ [p]) :=
    cstr_append_nul _ t (joinHex_no_nul _ hws)
  obtain ⟨d, r, hd, hhead⟩ : ∃ d r, d < 16 ∧ joinHex (ps ++ [p]) = hexDig d :: r := by
    cases ps with
    | nil => exact joinHex_head p [] (hws p (by simp))
    | cons a b => exact joinHex_head a (b ++ [p]) (hws a (by simp))
  have hstart : p6start (cstr (joinHex (ps ++ [p]) ++ 0 :: t)) = some (joinHex (ps ++ [p])) := by
    rw [hc, hhead]; exact p6start_hex d _ hd
  obtain ⟨tok', cnt', hj⟩ := p6_joinHex ps p [] none (joinHex (ps ++ [p])) [] hws (by simp; omega)
  rw [List.append_nil] at hj
  have hgo : pton6Go ⟨[], none, joinHex (ps ++ [p]), false, 0, 0⟩ (joinHex (ps ++ [p])) =
      some ⟨[] ++ wbytes ps, none, tok', true, cnt', p⟩ := by
    rw [hj]; simp [pton6Go]
  have hfin : p6fin ⟨[] ++ wbytes ps, none, tok', true, cnt', p⟩ = some (wbytes (ps ++ [p])) := by
    have : ¬ ((wbytes ps).length + 2 > 16) := by simp only [wbytes_len]; omega
    simp only [p6fin, if_true, List.nil_append, this, if_false, wbytes_append, wbytes_single]
  exact pton6_no_colonp _ _ _ _ hstart hgo hfin rfl (by rw [wbytes_len]; omega)

/-- the decimal digits of the first octet are read as hex digits before the `.` shows up -/
theorem p6_dec3 (out : Bytes) (cp : Option Nat) (tok : Bytes) (x : Nat) (hx : x < 256) (rest : Bytes) :
    ∃ cnt v, pton6Go ⟨out, cp, tok, false, 0, 0⟩ (dec3 x ++ rest) =
      pton6Go ⟨out, cp, tok, true, cnt, v⟩ rest := by
  have hd : ∀ d, d < 10 → 48 + d = hexDig d := by intro d h; simp [hexDig, h]
  unfold dec3
  by_cases c1 : x < 10
  · refine ⟨1, x, ?_⟩
    simp only [c1, if_true, List.cons_append, List.nil_append]
    rw [hd x c1, p6_digit _ x rest (by omega) (by simp) (by simp; omega)]
    simp
  · by_cases c2 : x < 100
    · refine ⟨2, (x / 10) * 16 + x % 10, ?_⟩
      simp only [c1, c2, if_true, if_false, List.cons_append, List.nil_append]
      rw [hd (x / 10) (by omega), hd (x % 10) (by omega)]
      rw [p6_digit _ (x / 10) _ (by omega) (by simp) (by simp; omega)]
      rw [p6_digit _ (x % 10) _ (by omega) (by simp) (by simp; omega)]
      simp
    · refine ⟨3, ((x / 100) * 16 + x / 10 % 10) * 16 + x % 10, ?_⟩
      simp only [c1, c2, if_false, List.cons_append, List.nil_append]
      rw [hd (x / 100) (by omega), hd (x / 10 % 10) (by omega), hd (x % 10) (by omega)]
      rw [p6_digit _ (x / 100) _ (by omega) (by simp) (by simp; omega)]
      rw [p6_digit _ (x / 10 % 10) _ (by omega) (by simp) (by simp; omega)]
      rw [p6_digit _ (x % 10) _ (by omega) (by simp) (by simp; omega)]
      simp

/-- the dotted-quad tail: the whole current token is handed to `inet_pton4` -/
theorem p6_v4tail (out : Bytes) (cp : Option Nat) (a b c d : Nat)
    (ha : a < 256) (hb : b < 256) (hc : c < 256) (hd : d < 256) (hl : out.length + 4 ≤ 16) :
    ∃ st, pton6Go ⟨out, cp, ntop4Text [a, b, c, d], false, 0, 0⟩ (ntop4Text [a, b, c, d]) = some st ∧
      st.colonp = cp ∧ p6fin st = some (out ++ [a, b, c, d]) := by
  have htxt : ntop4Text [a, b, c, d] =
      dec3 a ++ (cDot :: (dec3 b ++ (cDot :: (dec3 c ++ (cDot :: dec3 d))))) := by
    simp [ntop4Text]
  obtain ⟨cnt, v, h1⟩ := p6_dec3 out cp (ntop4Text [a, b, c, d]) a ha
    (cDot :: (dec3 b ++ (cDot :: (dec3 c ++ (cDot :: dec3 d)))))
  refine ⟨⟨out ++ [a, b, c, d], cp, ntop4Text [a, b, c, d], false, 0, v⟩, ?_, rfl, by simp [p6fin]⟩
  conv => lhs; arg 2; rw [htxt]
  rw [h1, pton6Go, hexVal_dot]
  have e1 : cDot ≠ cColon := by decide
  simp only [e1, if_false, true_and, hl, if_true, pton4_ntop4_bare a b c d ha hb hc hd]

theorem hex4_ffff : hex4 0xffff = [102, 102, 102, 102] := by decide

/-- `::a.b.c.d` -/
theorem pton6_form_c1 (a b c d : Nat) (ha : a < 256) (hb : b < 256) (hc : c < 256) (hd : d < 256)
    (t : Bytes) :
    pton6 (cColon :: cColon :: ntop4Text [a, b, c, d] ++ 0 :: t) =
      some (List.replicate 12 0 ++ [a, b, c, d]) := by
  have hnn : ∀ x ∈ cColon :: cColon :: ntop4Text [a, b, c, d], x ≠ 0 := by
    intro x hx
    simp only [List.mem_cons] at hx
    rcases hx with rfl | rfl | hx
    · decide
    · decide
    · exact ntop4Text_no_nul _ x hx
  have hc' : cstr (cColon :: cColon :: ntop4Text [a, b, c, d] ++ 0 :: t) =
      cColon :: cColon :: ntop4Text [a, b, c, d] := by
    have := cstr_append_nul _ t hnn
    simpa using this
  have hstart : p6start (cstr (cColon :: cColon :: ntop4Text [a, b, c, d] ++ 0 :: t)) =
      some (cColon :: ntop4Text [a, b, c, d]) := by
    rw [hc']; simp [p6start, cColon]
  obtain ⟨st, hgo, hcp, hfin⟩ := p6_v4tail [] (some 0) a b c d ha hb hc hd (by simp)
  have hgo' : pton6Go ⟨[], none, cColon :: ntop4Text [a, b, c, d], false, 0, 0⟩
      (cColon :: ntop4Text [a, b, c, d]) = some st := by
    rw [p6_colon_dbl]; exact hgo
  rw [pton6_with_colonp _ _ _ st 0 hstart hgo' hfin hcp (by simp)]
  simp

/-- `::ffff:a.b.c.d` -/
theorem pton6_form_c2 (a b c d : Nat) (ha : a < 256) (hb : b < 256) (hc : c < 256) (hd : d < 256)
    (t : Bytes) :
    pton6 (cColon :: cColon :: (hex4 0xffff ++ cColon :: ntop4Text [a, b, c, d]) ++ 0 :: t) =
      some (List.replicate 10 0 ++ [255, 255] ++ [a, b, c, d]) := by
  have hnn : ∀ x ∈ cColon :: cColon :: (hex4 0xffff ++ cColon :: ntop4Text [a, b, c, d]), x ≠ 0 := by
    intro x hx
    rw [hex4_ffff] at hx
    simp only [List.mem_cons, List.mem_append, List.mem_nil_iff, or_false] at hx
    rcases hx with rfl | rfl | (rfl | rfl | rfl | rfl) | rfl | hx
    all_goals first
      | decide
      | exact ntop4Text_no_nul _ x hx
  have hc' : cstr (cColon :: cColon :: (hex4 0xffff ++ cColon :: ntop4Text [a, b, c, d]) ++ 0 :: t) =
      cColon :: cColon :: (hex4 0xffff ++ cColon :: ntop4Text [a, b, c, d]) := by
    have := cstr_append_nul _ t hnn
    simpa using this
  have hstart : p6start (cstr (cColon :: cColon :: (hex4 0xffff ++ cColon :: ntop4Text [a, b, c, d]) ++ 0 :: t)) =
      some (cColon :: (hex4 0xffff ++ cColon :: ntop4Text [a, b, c, d])) := by
    rw [hc']; simp [p6start, cColon]
  obtain ⟨st, hgo, hcp, hfin⟩ := p6_v4tail [255, 255] (some 0) a b c d ha hb hc hd (by simp)
  have hgo' : pton6Go ⟨[], none, cColon :: (hex4 0xffff ++ cColon :: ntop4Text [a, b, c, d]), false, 0, 0⟩
      (cColon :: (hex4 0xffff ++ cColon :: ntop4Text [a, b, c, d])) = some st := by
    rw [p6_colon_dbl]
    obtain ⟨cnt, h1⟩ := p6_hex4 [] (some ([] : Bytes).length) (hex4 0xffff ++ cColon :: ntop4Text [a, b, c, d])
      0xffff (by decide) (cColon :: ntop4Text [a, b, c, d])
    rw [h1]
    have hne : ntop4Text [a, b, c, d] ≠ [] := by
      unfold ntop4Text; simp
    rw [p6_colon_group _ _ _ _ _ _ hne (by simp)]
    simpa using hgo
  rw [pton6_with_colonp _ _ _ st 0 hstart hgo' hfin hcp (by simp)]
  simp

theorem colonHex_eq (post : List Nat) :
    colonHex post = if post = [] then [] else cColon :: joinHex post := by
  induction post with
  | nil => rfl
  | cons p ps ih =>
    simp only [colonHex, List.flatMap_cons] at ih ⊢
    rw [ih]
    by_cases h : ps = []
    · subst h; simp [joinHex]
    · simp [h, joinHex_cons p ps h]

theorem wb_div (x y : Nat) (hy : y < 256) : (x * 256 + y) / 256 = x := by omega
theorem wb_mod (x y : Nat) (hy : y < 256) : (x * 256 + y) % 256 = y := by omega

theorem wbytes_zeros (l : Nat) : wbytes (List.replicate l 0) = List.replicate (2 * l) 0 := by
  induction l with
  | zero => rfl
  | succ l ih =>
    rw [List.replicate_succ, show 2 * (l + 1) = (2 * l) + 1 + 1 by omega, List.replicate_succ, List.replicate_succ]
    simp only [wbytes, List.flatMap_cons] at ih ⊢
    rw [ih]; rfl

/-- a zero run is literally a block of zeros in the middle of the word list -/
theorem zeroRun_split (ws : List Nat) (b l : Nat) (hz : ZeroRun ws b l) :
    ws = ws.take b ++ List.replicate l 0 ++ ws.drop (b + l) := by
  obtain ⟨hbl, hz⟩ := hz
  have hmid : (ws.drop b).take l = List.replicate l 0 := by
    apply List.eq_replicate_iff.mpr
    refine ⟨by simp; omega, fun x hx => ?_⟩
    obtain ⟨k, hk, rfl⟩ := List.mem_iff_getElem.mp hx
    simp only [List.length_take, List.length_drop] at hk
    have := hz k (by omega)
    simp only [List.getElem_take, List.getElem_drop]
    have hlt : b + k < ws.length := by omega
    rw [List.getD_eq_getElem?_getD, List.getElem?_eq_getElem hlt] at this
    simpa using this
  have h1 : ws.drop b = (ws.drop b).take l ++ (ws.drop b).drop l := (List.take_append_drop l _).symm
  have h2 : ws = ws.take b ++ ws.drop b := (List.take_append_drop b ws).symm
  rw [hmid, List.drop_drop] at h1
  rw [List.append_assoc, ← h1]
  exact h2

/-- `inet_pton6(inet_ntop6(a)) = a` for EVERY IPv6 address -/
theorem pton6_ntop6 (a : Bytes) (h16 : a.length = 16) (hb : ∀ x ∈ a, x < 256) (t : Bytes) :
    pton6 (ntop6Text a ++ 0 :: t) = some a := by
  match a, h16 with
  | [a0, a1, a2, a3, a4, a5, a6, a7, a8, a9, a10, a11, a12, a13, a14, a15], _ =>
    have b0 := hb a0 (by simp); have b1 := hb a1 (by simp); have b2 := hb a2 (by simp)
    have b3 := hb a3 (by simp); have b4 := hb a4 (by simp); have b5 := hb a5 (by simp)
    have b6 := hb a6 (by simp); have b7 := hb a7 (by simp); have b8 := hb a8 (by simp)
    have b9 := hb a9 (by simp); have b10 := hb a10 (by simp); have b11 := hb a11 (by simp)
    have b12 := hb a12 (by simp); have b13 := hb a13 (by simp); have b14 := hb a14 (by simp)
    have b15 := hb a15 (by simp)
    have hws : words6 [a0, a1, a2, a3, a4, a5, a6, a7, a8, a9, a10, a11, a12, a13, a14, a15] =
        [a0 * 256 + a1, a2 * 256 + a3, a4 * 256 + a5, a6 * 256 + a7, a8 * 256 + a9, a10 * 256 + a11,
         a12 * 256 + a13, a14 * 256 + a15] := by
      simp [words6, List.range, List.range.loop]
    generalize hwsdef : [a0 * 256 + a1, a2 * 256 + a3, a4 * 256 + a5, a6 * 256 + a7, a8 * 256 + a9,
         a10 * 256 + a11, a12 * 256 + a13, a14 * 256 + a15] = ws at hws
    have h8 : ws.length = 8 := by rw [← hwsdef]; rfl
    have hlt : ∀ x ∈ ws, x < 65536 := by
      intro x hx; rw [← hwsdef] at hx
      simp only [List.mem_cons, List.mem_nil_iff, or_false] at hx
      rcases hx with rfl | rfl | rfl | rfl | rfl | rfl | rfl | rfl <;> omega
    have hwb : wbytes ws = [a0, a1, a2, a3, a4, a5, a6, a7, a8, a9, a10, a11, a12, a13, a14, a15] := by
      subst hwsdef
      simp [wbytes, wb_div, wb_mod, b1, b3, b5, b7, b9, b11, b13, b15]
    unfold ntop6Text
    simp only [hws]
    have hrun := ntop6_run ws h8
    cases hbr : bestRun ws with
    | none =>
      simp only
      rw [pton6_form_a ws hlt h8 t, hwb]
    | some r =>
      obtain ⟨b, l⟩ := r
      rw [hbr] at hrun
      obtain ⟨hl2, ⟨hbl, hz⟩, _⟩ := hrun
      simp only
      by_cases hv4 : b = 0 ∧ (l = 6 ∨ l = 5 ∧ ws.getD 5 0 = 0xffff)
      · obtain ⟨hb0, hl⟩ := hv4
        subst hb0
        subst hwsdef
        simp only [true_and, hl, if_true]
        rcases hl with rfl | ⟨rfl, h5⟩
        · have z0 : a0 = 0 ∧ a1 = 0 := by have h := hz 0 (by omega); simp at h; omega
          have z1 : a2 = 0 ∧ a3 = 0 := by have h := hz 1 (by omega); simp at h; omega
          have z2 : a4 = 0 ∧ a5 = 0 := by have h := hz 2 (by omega); simp at h; omega
          have z3 : a6 = 0 ∧ a7 = 0 := by have h := hz 3 (by omega); simp at h; omega
          have z4 : a8 = 0 ∧ a9 = 0 := by have h := hz 4 (by omega); simp at h; omega
          have z5 : a10 = 0 ∧ a11 = 0 := by have h := hz 5 (by omega); simp at h; omega
          obtain ⟨rfl, rfl⟩ := z0; obtain ⟨rfl, rfl⟩ := z1; obtain ⟨rfl, rfl⟩ := z2
          obtain ⟨rfl, rfl⟩ := z3; obtain ⟨rfl, rfl⟩ := z4; obtain ⟨rfl, rfl⟩ := z5
          have := pton6_form_c1 a12 a13 a14 a15 b12 b13 b14 b15 t
          simpa using this
        · have z0 : a0 = 0 ∧ a1 = 0 := by have h := hz 0 (by omega); simp at h; omega
          have z1 : a2 = 0 ∧ a3 = 0 := by have h := hz 1 (by omega); simp at h; omega
          have z2 : a4 = 0 ∧ a5 = 0 := by have h := hz 2 (by omega); simp at h; omega
          have z3 : a6 = 0 ∧ a7 = 0 := by have h := hz 3 (by omega); simp at h; omega
          have z4 : a8 = 0 ∧ a9 = 0 := by have h := hz 4 (by omega); simp at h; omega
          obtain ⟨rfl, rfl⟩ := z0; obtain ⟨rfl, rfl⟩ := z1; obtain ⟨rfl, rfl⟩ := z2
          obtain ⟨rfl, rfl⟩ := z3; obtain ⟨rfl, rfl⟩ := z4
          simp at h5
          have h10 : a10 = 255 := by omega
          have h11 : a11 = 255 := by omega
          subst h10; subst h11
          have := pton6_form_c2 a12 a13 a14 a15 b12 b13 b14 b15 t
          simpa using this
      · simp only [hv4, if_false]
        have htext : joinHex (ws.take b) ++ [cColon] ++ colonHex (ws.drop (b + l)) ++
            (if ws.drop (b + l) = [] then [cColon] else []) =
            joinHex (ws.take b) ++ cColon :: cColon :: joinHex (ws.drop (b + l)) := by
          rw [colonHex_eq]
          by_cases hp : ws.drop (b + l) = []
          · simp [hp, joinHex]
          · simp [hp]
        rw [htext]
        have hpre : ∀ x ∈ ws.take b, x < 65536 := fun x hx => hlt x (List.mem_of_mem_take hx)
        have hpost : ∀ x ∈ ws.drop (b + l), x < 65536 := fun x hx => hlt x (List.mem_of_mem_drop hx)
        have hlen1 : (ws.take b).length = b := by simp; omega
        have hlen2 : (ws.drop (b + l)).length = 8 - (b + l) := by simp [h8]
        rw [pton6_form_b _ _ hpre hpost (by rw [hlen1, hlen2]; omega) t]
        rw [hlen1, hlen2, show 16 - 2 * (b + (8 - (b + l))) = 2 * l by omega, ← wbytes_zeros,
          ← wbytes_append, ← wbytes_append, ← zeroRun_split ws b l ⟨hbl, hz⟩, hwb]

end UsualProofs.C14
