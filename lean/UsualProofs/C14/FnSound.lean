import UsualProofs.C14.Fnmatch
/-! Soundness of the mirror of the code's loop (`wfn` = `wfnmatch` of usual/fnmatch.c) against
    the declarative glob semantics: whenever the loop answers "match", `Matches` holds for the
    tokenised pattern — for every flag set, FNM_PERIOD included (it only removes matches). -/
namespace UsualProofs.C14
open Usual.C14

/-! ## the loop of the code never reports a match the glob semantics rejects -/

theorem namedClass_rest_le (p rest : List Nat) (cls : CClass) (h : namedClass p = some (some (rest, cls))) :
    rest.length ≤ p.length := by
  unfold namedClass at h
  split at h
  · next x n1 =>
    split at h
    · split at h
      · cases h
      · split at h
        · cases h
        · split at h
          · cases h
          · split at h
            · cases h
            · simp only [Option.some.injEq, Prod.mk.injEq] at h
              obtain ⟨rfl, _⟩ := h
              simp only [List.length_drop, List.length_cons]; omega
    · cases h
  · cases h

theorem parseClass_rest_le (fl : FnFlags) :
    ∀ (f : Nat) (p : List Nat) (a fb : Bool) (acc items : List CItem) (rest : List Nat),
      parseClass fl f p a fb acc = .closed items rest → rest.length ≤ p.length := by
  intro f
  induction f with
  | zero => intro p a fb acc items rest h; simp [parseClass] at h
  | succ f ih =>
    intro p a fb acc items rest h
    unfold parseClass at h
    cases hn : namedClass p with
    | some r =>
      cases r with
      | none => simp [hn] at h
      | some rc =>
        obtain ⟨r1, cls⟩ := rc
        simp only [hn] at h
        have := ih _ _ _ _ _ _ h
        have := namedClass_rest_le p r1 cls hn
        omega
    | none =>
      simp only [hn] at h
      cases p with
      | nil => simp only at h; split at h <;> cases h
      | cons p0 p1 =>
        simp only at h
        split at h
        · simp only [BrParse.closed.injEq] at h; obtain ⟨_, rfl⟩ := h; simp
        · split at h
          · cases h
          · generalize hq : (if p0 = cBSl ∧ (!fl.noescape) = true then p1 else p0 :: p1) = q at h
            have hql : q.length ≤ (p0 :: p1).length := by
              rw [← hq]; split <;> simp
            split at h
            · split at h
              · split at h
                · cases h
                · have := ih _ _ _ _ _ _ h
                  simp only [List.length_drop] at this; omega
              · have := ih _ _ _ _ _ _ h
                simp only [List.length_drop] at this; omega
            · have := ih _ _ _ _ _ _ h
              simp only [List.length_drop] at this; omega

theorem tokenize_succ (fl : FnFlags) : ∀ (f : Nat) (p : List Nat), p.length < f →
    tokenize fl f p = tokenize fl (f + 1) p := by
  intro f
  induction f with
  | zero => intro p h; omega
  | succ f ih =>
    intro p h
    cases p with
    | nil => simp [tokenize]
    | cons pc p1 =>
      have h1 : p1.length < f := by simp at h; omega
      show tokenize fl (f + 1) (pc :: p1) = tokenize fl (f + 1 + 1) (pc :: p1)
      simp only [tokenize]
      by_cases c1 : pc = cStar
      · simp only [c1, if_true]; rw [ih p1 h1]
      · simp only [c1, if_false]
        by_cases c2 : pc = cQuest
        · simp only [c2, if_true]; rw [ih p1 h1]
        · simp only [c2, if_false]
          by_cases c3 : pc = cLB
          · simp only [c3, if_true]
            cases hp : parseClass fl (p1.length + 2)
                (if (p1.head? == some cBang || p1.head? == some cCaret) = true then List.drop 1 p1 else p1)
                true true [] with
            | closed items rest =>
              simp only
              have hr := parseClass_rest_le fl _ _ _ _ _ _ _ hp
              have hb : (if (p1.head? == some cBang || p1.head? == some cCaret) = true then List.drop 1 p1 else p1).length
                  ≤ p1.length := by split <;> simp
              rw [ih rest (by omega)]
            | literal => simp only; rw [ih p1 h1]
            | never => rfl
          · simp only [c3, if_false]
            by_cases c4 : pc = cBSl ∧ (!fl.noescape) = true
            · simp only [c4, and_self, if_true]
              cases p1 with
              | nil => rfl
              | cons e p2 =>
                simp only
                rw [ih p2 (by simp at h1; omega)]
            · simp only [c4, if_false]; rw [ih p1 h1]

/-- the tokens of a pattern (enough fuel) -/
def toks (fl : FnFlags) (p : List Nat) : List Tok := tokenize fl (p.length + 1) p

theorem tokenize_fuel (fl : FnFlags) (p : List Nat) (f : Nat) (h : p.length < f) :
    tokenize fl f p = toks fl p := by
  unfold toks
  obtain ⟨k, rfl⟩ : ∃ k, f = p.length + 1 + k := ⟨f - (p.length + 1), by omega⟩
  induction k with
  | zero => rfl
  | succ k ih =>
    rw [show p.length + 1 + (k + 1) = (p.length + 1 + k) + 1 by omega,
      ← tokenize_succ fl _ p (by omega)]
    exact ih (by omega)

theorem namedClass_rest_suffix (p rest : List Nat) (cls : CClass) (h : namedClass p = some (some (rest, cls))) :
    rest <:+ p := by
  unfold namedClass at h
  split at h
  · next x n1 =>
    split at h
    · split at h
      · cases h
      · split at h
        · cases h
        · split at h
          · cases h
          · split at h
            · cases h
            · simp only [Option.some.injEq, Prod.mk.injEq] at h
              obtain ⟨rfl, _⟩ := h
              exact (List.drop_suffix _ n1).trans ((List.suffix_cons _ _).trans (List.suffix_cons _ _))
    · cases h
  · cases h

theorem parseClass_rest_suffix (fl : FnFlags) :
    ∀ (f : Nat) (p : List Nat) (a fb : Bool) (acc items : List CItem) (rest : List Nat),
      parseClass fl f p a fb acc = .closed items rest → rest <:+ p := by
  intro f
  induction f with
  | zero => intro p a fb acc items rest h; simp [parseClass] at h
  | succ f ih =>
    intro p a fb acc items rest h
    unfold parseClass at h
    cases hn : namedClass p with
    | some r =>
      cases r with
      | none => simp [hn] at h
      | some rc =>
        obtain ⟨r1, cls⟩ := rc
        simp only [hn] at h
        exact (ih _ _ _ _ _ _ h).trans (namedClass_rest_suffix p r1 cls hn)
    | none =>
      simp only [hn] at h
      cases p with
      | nil => simp only at h; split at h <;> cases h
      | cons p0 p1 =>
        simp only at h
        split at h
        · simp only [BrParse.closed.injEq] at h; obtain ⟨_, rfl⟩ := h; exact List.suffix_cons _ _
        · split at h
          · cases h
          · generalize hq : (if p0 = cBSl ∧ (!fl.noescape) = true then p1 else p0 :: p1) = q at h
            have hql : q <:+ (p0 :: p1) := by
              rw [← hq]; split
              · exact List.suffix_cons _ _
              · exact List.suffix_refl _
            split at h
            · split at h
              · split at h
                · cases h
                · exact ((ih _ _ _ _ _ _ h).trans (List.drop_suffix _ _)).trans hql
              · exact ((ih _ _ _ _ _ _ h).trans (List.drop_suffix _ _)).trans hql
            · exact ((ih _ _ _ _ _ _ h).trans (List.drop_suffix _ _)).trans hql

/-- one step of tokenisation, with `toks` on the remainders -/
theorem toks_cons (fl : FnFlags) (pc : Nat) (p1 : List Nat) :
    toks fl (pc :: p1) =
      if pc = cStar then .star (dotNext fl p1) :: toks fl p1
      else if pc = cQuest then .any :: toks fl p1
      else if pc = cLB then
        (match parseClass fl (p1.length + 2)
            (if (p1.head? == some cBang || p1.head? == some cCaret) = true then p1.drop 1 else p1) true true [] with
         | .closed items rest => .cls (p1.head? == some cBang || p1.head? == some cCaret) items :: toks fl rest
         | .literal => .lit cLB :: toks fl p1
         | .never => [.never])
      else if pc = cBSl ∧ (!fl.noescape) = true then
        (match p1 with
         | [] => [.never]
         | e :: p2 => .lit e :: toks fl p2)
      else .lit pc :: toks fl p1 := by
  show tokenize fl (p1.length + 1 + 1) (pc :: p1) = _
  simp only [tokenize]
  have e1 : tokenize fl (p1.length + 1) p1 = toks fl p1 := rfl
  by_cases c1 : pc = cStar
  · simp only [c1, if_true, e1]
  · simp only [c1, if_false]
    by_cases c2 : pc = cQuest
    · simp only [c2, if_true, e1]
    · simp only [c2, if_false]
      by_cases c3 : pc = cLB
      · simp only [c3, if_true, e1]
        cases hp : parseClass fl (p1.length + 2)
            (if (p1.head? == some cBang || p1.head? == some cCaret) = true then List.drop 1 p1 else p1)
            true true [] with
        | closed items rest =>
          simp only
          have hr := (parseClass_rest_suffix fl _ _ _ _ _ _ _ hp).length_le
          have hb : (if (p1.head? == some cBang || p1.head? == some cCaret) = true then List.drop 1 p1 else p1).length
              ≤ p1.length := by split <;> simp
          rw [tokenize_fuel fl rest _ (by omega)]
        | literal => rfl
        | never => rfl
      · simp only [c3, if_false]
        by_cases c4 : pc = cBSl ∧ (!fl.noescape) = true
        · simp only [c4, and_self, if_true]
          cases p1 with
          | nil => rfl
          | cons e p2 =>
            simp only
            rw [tokenize_fuel fl p2 _ (by simp only [List.length_cons]; omega)]
        · simp only [c4, if_false, e1]

theorem toks_nil (fl : FnFlags) : toks fl [] = [] := rfl

/-- a `*` whose `dotNext` mark is set is followed by the token of a literal period -/
theorem dotNext_toks (fl : FnFlags) (p1 : List Nat) (h : dotNext fl p1 = true) :
    ∃ p2, toks fl p1 = .lit cDot :: toks fl p2 := by
  unfold dotNext at h
  cases p1 with
  | nil => simp at h
  | cons q p2 =>
    by_cases hq : q = cDot
    · subst hq
      exact ⟨p2, by rw [toks_cons]; simp [cDot, cStar, cQuest, cLB, cBSl]⟩
    · have hq' : ((some q : Option Nat) == some cDot) = false := by simp [hq]
      simp only [List.head?_cons, hq', Bool.false_or, Bool.and_eq_true, beq_iff_eq, Option.some.injEq,
        Bool.not_eq_eq_eq_not, Bool.not_true, List.drop_succ_cons, List.drop_zero] at h
      obtain ⟨⟨hb, hne⟩, hd⟩ := h
      subst hb
      cases p2 with
      | nil => simp at hd
      | cons e p3 =>
        simp only [List.head?_cons, Option.some.injEq] at hd
        subst hd
        refine ⟨p3, ?_⟩
        rw [toks_cons]
        simp [cStar, cQuest, cLB, cBSl, hne]

theorem okWild_of_not_disallow (fl : FnFlags) (prev : Option Nat) (x : Nat) (r : List Nat)
    (h : disallow fl ⟨prev, x :: r⟩ = false) : okWild fl x = true := by
  unfold disallow at h
  simp only at h
  unfold okWild
  by_cases hx : x = cSlash
  · simp only [hx, if_true] at h; simp [h]
  · simp [hx]

theorem cmpFold_zero (fl : FnFlags) (c : Nat) (h : cmpFold fl c 0 = true) : c = 0 := by
  unfold cmpFold at h
  simp only [Bool.or_eq_true, beq_iff_eq, Bool.and_eq_true] at h
  rcases h with h | ⟨_, h⟩
  · exact h
  · simp [isLowerA, isUpperA] at h

theorem cmpFold_zero' (fl : FnFlags) (c : Nat) (h : cmpFold fl 0 c = true) : c = 0 := by
  unfold cmpFold at h
  simp only [Bool.or_eq_true, beq_iff_eq, Bool.and_eq_true] at h
  rcases h with h | ⟨_, h⟩
  · exact h.symm
  · simp [isLowerA, isUpperA] at h

/-- the retry label: if it leads to a match, the invariant of the remembered `*` gives the goal -/
theorem retry_sound (fl : FnFlags) (G : Prop) (f : Nat)
    (ih : ∀ (p : List Nat) (s : SPos) (retry : Option (List Nat × SPos)),
      (∀ c ∈ p, c ≠ 0) → (∀ c ∈ s.rest, c ≠ 0) →
      (∀ rp skip, retry = some (rp, skip) → (∀ c ∈ rp, c ≠ 0) ∧ (∀ c ∈ skip.rest, c ≠ 0)) →
      (Matches fl (toks fl p) s.rest → G) →
      (∀ rp skip, retry = some (rp, skip) → Matches fl (.star (dotNext fl rp) :: toks fl rp) skip.rest → G) →
      wfn fl f p s retry = 0 → G)
    (s : SPos) (retry : Option (List Nat × SPos))
    (hr0 : ∀ rp skip, retry = some (rp, skip) → (∀ c ∈ rp, c ≠ 0) ∧ (∀ c ∈ skip.rest, c ≠ 0))
    (I2 : ∀ rp skip, retry = some (rp, skip) → Matches fl (.star (dotNext fl rp) :: toks fl rp) skip.rest → G)
    (h : (match retryStep fl s retry with
          | .inl r => r
          | .inr (p', s', retry') => wfn fl f p' s' retry') = 0) : G := by
  unfold retryStep at h
  cases retry with
  | none => simp at h
  | some rs =>
    obtain ⟨rp, skip⟩ := rs
    obtain ⟨hrp0, hsk0⟩ := hr0 rp skip rfl
    simp only at h
    split at h
    · next heq =>
      -- a result
      split at heq
      · cases heq; simp at h
      · split at heq
        · next hskip =>
          cases heq
          split at h
          · next hrp =>
            subst hrp
            apply I2 [] skip rfl
            rw [hskip, toks_nil]
            exact .star0 _ _ _ .nil
          · simp at h
        · split at heq
          · cases heq; simp at h
          · cases heq
    · next p' s' retry' heq =>
      split at heq
      · cases heq
      · split at heq
        · cases heq
        · next hskip =>
          split at heq
          · cases heq
          · next hdis =>
            simp only [Sum.inr.injEq, Prod.mk.injEq] at heq
            obtain ⟨rfl, rfl, rfl⟩ := heq
            obtain ⟨prev, rest⟩ := skip
            cases rest with
            | nil => exact absurd rfl hskip
            | cons x r =>
              have hok : okWild fl x = true :=
                okWild_of_not_disallow fl prev x r (by simpa using hdis)
              have hadv : (SPos.adv ⟨prev, x :: r⟩) = ⟨some x, r⟩ := rfl
              rw [hadv] at h
              apply ih rp ⟨some x, r⟩ _ hrp0 (fun c hc => hsk0 c (by simp [hc])) ?_ ?_ ?_ h
              · intro rp' skip' he
                simp only [Option.some.injEq, Prod.mk.injEq] at he
                obtain ⟨rfl, rfl⟩ := he
                exact ⟨hrp0, fun c hc => hsk0 c (by simp [hc])⟩
              · intro hm
                exact I2 rp ⟨prev, x :: r⟩ rfl (.starS _ x _ r hok (.star0 _ _ _ hm))
              · intro rp' skip' he hm
                simp only [Option.some.injEq, Prod.mk.injEq] at he
                obtain ⟨rfl, rfl⟩ := he
                exact I2 _ ⟨prev, x :: r⟩ rfl (.starS _ x _ r hok hm)

theorem wfn_sound (fl : FnFlags) (G : Prop) : ∀ (f : Nat) (p : List Nat) (s : SPos) (retry : Option (List Nat × SPos)),
      (∀ c ∈ p, c ≠ 0) → (∀ c ∈ s.rest, c ≠ 0) →
      (∀ rp skip, retry = some (rp, skip) → (∀ c ∈ rp, c ≠ 0) ∧ (∀ c ∈ skip.rest, c ≠ 0)) →
      (Matches fl (toks fl p) s.rest → G) →
      (∀ rp skip, retry = some (rp, skip) → Matches fl (.star (dotNext fl rp) :: toks fl rp) skip.rest → G) →
      wfn fl f p s retry = 0 → G := by
  intro f
  induction f with
  | zero => intro p s retry _ _ _ _ _ h; simp [wfn] at h
  | succ f ih =>
    intro p s retry hp0 hs0 hr0 I1 I2 h
    unfold wfn at h
    simp only at h
    -- the retry label
    have retryCase : (match retryStep fl s retry with
          | .inl r => r
          | .inr (p', s', retry') => wfn fl f p' s' retry') = 0 → G :=
      retry_sound fl G f ih s retry hr0 I2
    -- a position that a wildcard may consume
    have wild : disallow fl s = false → ∃ x r, s.rest = x :: r ∧ okWild fl x = true := by
      intro hd
      obtain ⟨prev, rest⟩ := s
      cases rest with
      | nil => simp [disallow] at hd
      | cons x r => exact ⟨x, r, rfl, okWild_of_not_disallow fl prev x r hd⟩
    -- matching one literal character
    have litCase : ∀ (pc : Nat) (prest : List Nat), pc ≠ 0 → (∀ c ∈ prest, c ≠ 0) →
        (∀ x r, cmpFold fl pc x = true → Matches fl (toks fl prest) r → Matches fl (toks fl p) (x :: r)) →
        (if s.rest.getD 0 0 = cSlash ∧ pc = 0 ∧ fl.leadingDir = true then 0
         else if (!cmpFold fl pc (s.rest.getD 0 0)) = true then
           (match retryStep fl s retry with
            | .inl r => r
            | .inr (p', s', retry') => wfn fl f p' s' retry')
         else if s.rest = [] then 0 else wfn fl f prest s.adv retry) = 0 → G := by
      intro pc prest hpc hpr0 hstep hh
      have e1 : ¬ (s.rest.getD 0 0 = cSlash ∧ pc = 0 ∧ fl.leadingDir = true) := fun hc => hpc hc.2.1
      simp only [e1, if_false] at hh
      by_cases hcf : cmpFold fl pc (s.rest.getD 0 0) = true
      · simp only [hcf, Bool.not_true, Bool.false_eq_true, if_false] at hh
        obtain ⟨prev, rest⟩ := s
        cases rest with
        | nil =>
          exfalso
          simp only [List.getD_eq_getElem?_getD, List.getElem?_nil, Option.getD_none] at hcf
          exact hpc (cmpFold_zero fl pc hcf)
        | cons x r =>
          simp only [List.getD_cons_zero] at hcf
          have hne : ¬ (x :: r = []) := by simp
          simp only [hne, if_false] at hh
          exact ih prest ⟨some x, r⟩ retry hpr0 (fun c hc => hs0 c (by simp [hc])) hr0
            (fun hm => I1 (hstep x r hcf hm)) I2 hh
      · have : cmpFold fl pc (s.rest.getD 0 0) = false := by simpa using hcf
        simp only [this, Bool.not_false, if_true] at hh
        exact retryCase hh
    cases p with
    | nil =>
      simp only at h
      rw [toks_nil] at I1
      by_cases hl : s.rest.getD 0 0 = cSlash ∧ True ∧ fl.leadingDir = true
      · obtain ⟨prev, rest⟩ := s
        cases rest with
        | nil => simp [cSlash] at hl
        | cons x r =>
          simp only [List.getD_cons_zero] at hl
          exact I1 (.leading x r hl.2.2 hl.1)
      · simp only [hl, if_false] at h
        by_cases hcf : cmpFold fl 0 (s.rest.getD 0 0) = true
        · simp only [hcf, Bool.not_true, Bool.false_eq_true, if_false] at h
          have hz := cmpFold_zero' fl _ hcf
          obtain ⟨prev, rest⟩ := s
          cases rest with
          | nil => exact I1 .nil
          | cons x r =>
            simp only [List.getD_cons_zero] at hz
            exact absurd hz (hs0 x (by simp))
        · have : cmpFold fl 0 (s.rest.getD 0 0) = false := by simpa using hcf
          simp only [this, Bool.not_false, if_true] at h
          exact retryCase h
    | cons pc p1 =>
      simp only at h
      have hp1 : ∀ c ∈ p1, c ≠ 0 := fun c hc => hp0 c (by simp [hc])
      have hpc0 : pc ≠ 0 := hp0 pc (by simp)
      have htk := toks_cons fl pc p1
      by_cases c1 : pc = cStar
      · simp only [c1, if_true] at h
        rw [if_pos c1] at htk
        split at h
        · cases h
        · rw [htk] at I1
          exact ih p1 s (some (p1, s)) hp1 hs0
            (fun rp skip he => by
              simp only [Option.some.injEq, Prod.mk.injEq] at he
              obtain ⟨rfl, rfl⟩ := he; exact ⟨hp1, hs0⟩)
            (fun hm => I1 (.star0 _ _ _ hm))
            (fun rp skip he hm => by
              simp only [Option.some.injEq, Prod.mk.injEq] at he
              obtain ⟨rfl, rfl⟩ := he; exact I1 hm) h
      · simp only [c1, if_false] at h
        rw [if_neg c1] at htk
        by_cases c2 : pc = cQuest
        · simp only [c2, if_true] at h
          rw [if_pos c2] at htk
          by_cases hd : disallow fl s = true
          · simp only [hd, if_true] at h; exact retryCase h
          · have hd' : disallow fl s = false := by simpa using hd
            simp only [hd', Bool.false_eq_true, if_false] at h
            obtain ⟨x, r, hsr, hok⟩ := wild hd'
            obtain ⟨prev, rest⟩ := s
            simp only at hsr
            subst hsr
            rw [htk] at I1
            exact ih p1 ⟨some x, r⟩ retry hp1 (fun c hc => hs0 c (by simp [hc])) hr0
              (fun hm => I1 (.any x _ r hok hm)) I2 h
        · simp only [c2, if_false] at h
          rw [if_neg c2] at htk
          by_cases c3 : pc = cLB
          · simp only [c3, if_true] at h
            rw [if_pos c3] at htk
            by_cases hd : disallow fl s = true
            · simp only [hd, if_true] at h; exact retryCase h
            · have hd' : disallow fl s = false := by simpa using hd
              simp only [hd', Bool.false_eq_true, if_false] at h
              obtain ⟨x, r, hsr, hok⟩ := wild hd'
              obtain ⟨prev, rest⟩ := s
              simp only at hsr
              subst hsr
              simp only [List.getD_cons_zero] at h
              cases hmc : matchClass fl p1 x with
              | none => simp only [hmc] at h; exact retryCase h
              | some rest' =>
                simp only [hmc] at h
                rw [matchClass_eq_parse] at hmc
                simp only at hmc
                rw [htk] at I1
                cases hpc : parseClass fl (p1.length + 2)
                    (if (p1.head? == some cBang || p1.head? == some cCaret) = true then List.drop 1 p1 else p1)
                    true true [] with
                | closed items rest =>
                  rw [hpc] at hmc I1
                  simp only [classResult] at hmc I1
                  split at hmc
                  · next hin =>
                    cases hmc
                    have hsuf := parseClass_rest_suffix fl _ _ _ _ _ _ _ hpc
                    have hb : (if (p1.head? == some cBang || p1.head? == some cCaret) = true then List.drop 1 p1 else p1)
                        <:+ p1 := by
                      split
                      · exact List.drop_suffix _ _
                      · exact List.suffix_refl _
                    have hr0' : ∀ c ∈ rest', c ≠ 0 := fun c hc => hp1 c ((hsuf.trans hb).subset hc)
                    exact ih rest' ⟨some x, r⟩ retry hr0' (fun c hc => hs0 c (by simp [hc])) hr0
                      (fun hm => I1 (.cls _ items x _ r hok (by simpa [classHas] using hin) hm)) I2 h
                  · cases hmc
                | literal =>
                  rw [hpc] at hmc I1
                  simp only [classResult] at hmc I1
                  split at hmc
                  · next hx =>
                    cases hmc
                    have hx' : x = cLB := by simpa using hx
                    exact ih p1 ⟨some x, r⟩ retry hp1 (fun c hc => hs0 c (by simp [hc])) hr0
                      (fun hm => I1 (.lit cLB x _ r (by simp [cmpFold, hx']) hm)) I2 h
                  · cases hmc
                | never =>
                  rw [hpc] at hmc
                  simp [classResult] at hmc
          · simp only [c3, if_false] at h
            rw [if_neg c3] at htk
            by_cases c4 : pc = cBSl ∧ (!fl.noescape) = true
            · simp only [c4, and_self, if_true] at h
              rw [if_pos c4] at htk
              cases p1 with
              | nil => simp at h
              | cons e p2 =>
                simp only at h htk
                exact litCase e p2 (hp1 e (by simp)) (fun c hc => hp1 c (by simp [hc]))
                  (fun x r hcf hm => by rw [htk]; exact .lit e x _ r hcf hm) h
            · simp only [c4, if_false] at h
              rw [if_neg c4] at htk
              exact litCase pc p1 hpc0 hp1
                (fun x r hcf hm => by rw [htk]; exact .lit pc x _ r hcf hm) h

/-- whenever the code's loop reports a match, the pattern (tokenised) matches the subject in the
    declarative semantics -/
theorem wfnmatch_sound (fl : FnFlags) (pat str : List Nat) (hp : ∀ c ∈ pat, c ≠ 0) (hs : ∀ c ∈ str, c ≠ 0)
    (h : wfnmatch fl pat str = 0) : Matches fl (tokenize fl (pat.length + 1) pat) str := by
  unfold wfnmatch at h
  exact wfn_sound fl _ _ pat ⟨none, str⟩ none hp hs (fun _ _ he => by cases he) id
    (fun _ _ he => by cases he) h

end UsualProofs.C14
