import UsualProofs.C14.Path
import UsualProofs.C14.Libc
/-! Static-buffer limit of `basename`; `mbsnrtowcs` on input that decodes. -/
namespace UsualProofs.C14
open Usual.C14

/-- the static-buffer limit of `basename`: a last component longer than 255 bytes that is followed
    by `/` is cut to its LAST 255 bytes (silently; POSIX knows no such limit) -/
theorem basename_limit (pre comp tail : Bytes) (hcs : ∀ b ∈ comp, b ≠ cSlash) (ht : ∀ b ∈ tail, b = cSlash)
    (htne : tail ≠ []) (hpre : pre = [] ∨ pre.getLast? = some cSlash)
    (h0 : ∀ b ∈ pre ++ comp ++ tail, b ≠ 0) (hlen : basenameBuf < comp.length) :
    basename (some (pre ++ comp ++ tail)) = comp.drop (comp.length - basenameBuf) := by
  have hc : comp ≠ [] := by intro h; rw [h] at hlen; simp at hlen
  unfold basename
  simp only [cstr_of_no_nul _ h0]
  have hne : pre ++ comp ++ tail ≠ [] := by
    intro h; simp at h; exact hc h.2.1
  simp only [hne, if_false]
  obtain ⟨c, hc1, hc2⟩ := comp_last comp hc hcs
  have hsl : cSlash ∈ tail := by
    cases tail with
    | nil => exact absurd rfl htne
    | cons t ts => have := ht t (by simp); subst this; simp
  have hcont : (pre ++ comp ++ tail).contains cSlash = true := by simp [hsl]
  simp only [hcont, Bool.not_true, Bool.false_eq_true, if_false]
  have hl : (pre ++ comp ++ tail).getLast? = some cSlash := by
    rw [getLast?_append_ne _ _ htne]
    have := ht _ (List.getLast_mem htne)
    rw [List.getLast?_eq_getLast htne, this]
  simp only [hl, ne_eq, not_true_eq_false, if_false]
  have hrs : rstripSlash (pre ++ comp ++ tail) = pre ++ comp :=
    rstripSlash_append (pre ++ comp) tail ht
      (Or.inr ⟨c, by rw [getLast?_append_ne _ _ hc]; exact hc1, hc2⟩)
  rw [hrs]
  have hpc : pre ++ comp ≠ [] := by simp [hc]
  simp only [hpc, if_false]
  have hcut : ∀ n, n < comp.length → lastN n (pre ++ comp) = comp.drop (comp.length - n) := by
    intro n hn
    unfold lastN
    rw [List.drop_append, List.drop_of_length_le (by simp only [List.length_append]; omega)]
    simp only [List.nil_append, List.length_append]
    congr 1; omega
  have hcut := hcut basenameBuf hlen
  rw [hcut]
  have := lastComp_append [] (comp.drop (comp.length - basenameBuf))
    (fun b hb => hcs b (List.mem_of_mem_drop hb)) (Or.inl rfl)
  simpa using this

/-! ## mbsnrtowcs on input that decodes -/

/-- `s` splits into characters as `mbrtowc` sees them (no NUL, nothing invalid) -/
inductive Decodes (mbr : Bytes → MbRes) : Bytes → List (Nat × Nat) → Prop
  | nil : Decodes mbr [] []
  | cons (s : Bytes) (len wc : Nat) (cs : List (Nat × Nat)) :
      s ≠ [] → mbr s = .char len wc → 0 < len → len ≤ s.length → Decodes mbr (s.drop len) cs →
      Decodes mbr s ((len, wc) :: cs)

theorem mbsLoop_valid (mbr : Bytes → MbRes) (dstlen : Nat) :
    ∀ (cs : List (Nat × Nat)) (f : Nat) (s : Bytes) (off count : Nat) (w : List Nat),
      Decodes mbr s cs → s.length < f → count + cs.length ≤ dstlen →
      mbsLoop mbr true dstlen f s off count w =
        (some (count + cs.length), some (off + s.length), (cs.map (·.2)).reverse ++ w) := by
  intro cs
  induction cs with
  | nil =>
    intro f s off count w hd hf _
    cases hd
    cases f with
    | zero => simp at hf
    | succ f => simp [mbsLoop]
  | cons c cs ih =>
    intro f s off count w hd hf hc
    cases hd with
    | cons _ len wc _ hne hm hpos hle hrest =>
      cases f with
      | zero => simp at hf
      | succ f =>
        unfold mbsLoop
        simp only [List.length_cons] at hc
        have h2 : ¬ (count ≥ dstlen) := by omega
        simp only [hne, if_false, true_and, h2, hm, if_true]
        rw [ih f (s.drop len) (off + len) (count + 1) (wc :: w) hrest (by simp; omega) (by omega)]
        simp only [List.length_drop, List.length_cons, List.map_cons, List.reverse_cons, List.append_assoc,
          List.singleton_append]
        refine Prod.ext ?_ (Prod.ext ?_ rfl)
        · simp; omega
        · simp; omega

/-- `mbsnrtowcs` on `srclen` bytes that decode into `cs` and fit: returns the number of
    characters, stores exactly their codes at the front of `dst` (the rest untouched), and moves
    `*src` past the `srclen` bytes -/
theorem mbsnrtowcs_valid (mbr : Bytes → MbRes) (src : Bytes) (srclen : Nat) (d : List Nat)
    (cs : List (Nat × Nat)) (hs : srclen ≤ src.length) (hd : Decodes mbr (src.take srclen) cs)
    (hfit : cs.length ≤ d.length) :
    mbsnrtowcs mbr src srclen (some d) = ⟨some cs.length, some srclen, cs.map (·.2) ++ d.drop cs.length⟩ := by
  unfold mbsnrtowcs
  simp only
  have := mbsLoop_valid mbr d.length cs (srclen + 1) (src.take srclen) 0 0 [] hd (by simp; omega) (by omega)
  rw [this]
  simp [Nat.min_eq_left hs]

end UsualProofs.C14
