import UsualProofs.C14.Path
import UsualProofs.C14.Libc
/-! Static-buffer limit of `basename`; `mbsnrtowcs` on input that decodes. -/
namespace UsualProofs.C14
open Usual.C14

/-- the static-buffer limit of `basename`: a last component longer than 255 bytes that is followed
    by `/` is cut to its LAST 255 bytes (silently; POSIX knows no such limit) -/
theorem basename_limit (pre comp tail : Bytes) (hcs : ∀ b ∈ comp, b ≠ cSlash) (ht : ∀ b ∈ tail, b = cSlash)
    (htne : tail ≠ []) (hpre : pre = [] ∨ pre.getLast? = some cSlash)
    (h0 : ∀ b ∈ pre ++ comp ++ tail, b ≠ 0) (hlen : basenameBuf < comp.length) :
    basename (some (pre ++ comp ++ tail)) = comp.drop (comp.length - basenameBuf) := by
  have hc : comp ≠ [] := by intro h; rw [h] at hlen; simp at hlen
  unfold basename
  simp only [cstr_of_no_nul _ h0]
  have hne : pre ++ comp ++ tail ≠ [] := by
    intro h; simp at h; exact hc h.2.1
  simp only [hne, if_false]
  obtain ⟨c, hc1, hc2⟩ := comp_last comp hc hcs
  have hsl : cSlash ∈ tail := by
    cases tail with
    | nil => exact absurd rfl htne
    | cons t ts => have := ht t (by simp); subst this; simp
  have hcont : (pre ++ comp ++ tail).contains cSlash = true := by simp [hsl]
  simp only [hcont, Bool.not_true, Bool.false_eq_true, if_false]
  have hl : (pre ++ comp ++ tail).getLast? = some cSlash := by
    rw [getLast?_append_ne _ _ htne]
    have := ht _ (List.getLast_mem htne)
    rw [List.getLast?_eq_getLast htne, this]
  simp only [hl, ne_eq, not_true_eq_false, if_false]
  have hrs : rstripSlash (pre ++ comp ++ tail) = pre ++ comp :=
    rstripSlash_append (pre ++ comp) tail ht
      (Or.inr ⟨c, by rw [getLast?_append_ne _ _ hc]; exact hc1, hc2⟩)
  rw [hrs]
  have hpc : pre ++ comp ≠ [] := by simp [hc]
  simp only [hpc, if_false]
  have hcut : ∀ n, n < comp.length → lastN n (pre ++ comp) = comp.drop (comp.length - n) := by
    intro n hn
    unfold lastN
    rw [List.drop_append, List.drop_of_length_le (by simp only [List.length_append]; omega)]
    simp only [List.nil_append, List.length_append]
    congr 1; omega
  have hcut := hcut basenameBuf hlen
  rw [hcut]
  have := lastComp_append [] (comp.drop (comp.length - basenameBuf))
    (fun b hb => hcs b (List.mem_of_mem_drop hb)) (Or.inl rfl)
  simpa using this

/-! ## mbsnrtowcs on input that decodes -/

/-- `s` splits into characters as `mbrtowc` sees them (no NUL, nothing invalid) -/
inductive Decodes (mbr : Bytes → MbRes) : Bytes → List (Nat × Nat) → Prop
  | nil : Decodes mbr [] []
  | cons (s : Bytes) (len wc : Nat) (cs : List (Nat × Nat)) :
      s ≠ [] → mbr s = .char len wc → 0 < len → len ≤ s.length → Decodes mbr (s.drop len) cs →
      Decodes mbr s ((len, wc) :: cs)

theorem mbsLoop_valid (mbr : Bytes → MbRes) (dstlen : Nat) :
    ∀ (cs : List (Nat × Nat)) (f : Nat) (s : Bytes) (off count : Nat) (w : List Nat),
      Decodes mbr s cs → s.length < f → count + cs.length ≤ dstlen →
      mbsLoop mbr true dstlen f s off count w =
        (some (count + cs.length), some (off + s.length), (cs.map (·.2)).reverse ++ w) := by
  intro cs
  induction cs with
  | nil =>
    intro f s off count w hd hf _
    cases hd
    cases f with
    | zero => simp at hf
    | succ f => simp [mbsLoop]
  | cons c cs ih =>
    intro f s off count w hd hf hc
    cases hd with
    | cons _ len wc _ hne hm hpos hle hrest =>
      cases f with
      | zero => simp at hf
      | succ f =>
        unfold mbsLoop
        simp only [List.length_cons] at hc
        have h2 : ¬ (count ≥ dstlen) := by omega
        simp only [hne, if_false, true_and, h2, hm, if_true]
        rw [ih f (s.drop len) (off + len) (count + 1) (wc :: w) hrest (by simp; omega) (by omega)]
        simp only [List.length_drop, List.length_cons, List.map_cons, List.reverse_cons, List.append_assoc,
          List.singleton_append]
        refine Prod.ext ?_ (Prod.ext ?_ rfl)
        · simp; omega
        · simp; omega

/-- `mbsnrtowcs` on `srclen` bytes that decode into `cs` and fit: returns the number of
    characters, stores exactly their codes at the front of `dst` (the rest untouched), and moves
    `*src` past the `srclen` bytes -/
theorem mbsnrtowcs_valid (mbr : Bytes → MbRes) (src : Bytes) (srclen : Nat) (d : List Nat)
    (cs : List (Nat × Nat)) (hs : srclen ≤ src.length) (hd : Decodes mbr (src.take srclen) cs)
    (hfit : cs.length ≤ d.length) :
    mbsnrtowcs mbr src srclen (some d) = ⟨some cs.length, some srclen, cs.map (·.2) ++ d.drop cs.length⟩ := by
  unfold mbsnrtowcs
  simp only
  have := mbsLoop_valid mbr d.length cs (srclen + 1) (src.take srclen) 0 0 [] hd (by simp; omega) (by omega)
  rw [this]
  simp [Nat.min_eq_left hs]

/-- why the scan of `mbsnrtowcs` stops -/
inductive MbStop
  | endOfInput   -- the `srclen` bytes are used up
  | nul          -- a NUL character
  | bad          -- invalid sequence
  | cut          -- the `srclen` bytes end inside a character (F43)
deriving DecidableEq

/-- `s` splits into the characters `cs`, then stops for reason `st` with `rem` unread -/
inductive DecodesTo (mbr : Bytes → MbRes) : Bytes → List (Nat × Nat) → MbStop → Bytes → Prop
  | done : DecodesTo mbr [] [] .endOfInput []
  | nul (s : Bytes) : s ≠ [] → mbr s = .nul → DecodesTo mbr s [] .nul s
  | invalid (s : Bytes) : s ≠ [] → mbr s = .invalid → DecodesTo mbr s [] .bad s
  | incomplete (s : Bytes) : s ≠ [] → mbr s = .incomplete → DecodesTo mbr s [] .cut s
  | cons (s : Bytes) (len wc : Nat) (cs : List (Nat × Nat)) (st : MbStop) (rem : Bytes) :
      s ≠ [] → mbr s = .char len wc → 0 < len → len ≤ s.length → DecodesTo mbr (s.drop len) cs st rem →
      DecodesTo mbr s ((len, wc) :: cs) st rem

theorem decodesTo_rem_le (mbr : Bytes → MbRes) (s : Bytes) (cs : List (Nat × Nat)) (st : MbStop) (rem : Bytes)
    (h : DecodesTo mbr s cs st rem) : rem.length ≤ s.length := by
  induction h with
  | done => simp
  | nul => exact Nat.le_refl _
  | invalid => exact Nat.le_refl _
  | incomplete => exact Nat.le_refl _
  | cons s len wc cs st rem _ _ _ _ _ ih => simp only [List.length_drop] at ih; omega

theorem mbsLoop_stop (mbr : Bytes → MbRes) (dstlen : Nat) :
    ∀ (cs : List (Nat × Nat)) (st : MbStop) (rem : Bytes) (f : Nat) (s : Bytes) (off count : Nat) (w : List Nat),
      DecodesTo mbr s cs st rem → s.length < f → count + cs.length < dstlen →
      mbsLoop mbr true dstlen f s off count w =
        match st with
        | .endOfInput => (some (count + cs.length), some (off + s.length), (cs.map (·.2)).reverse ++ w)
        | .nul => (some (count + cs.length), none, 0 :: ((cs.map (·.2)).reverse ++ w))
        | .bad => (none, some (off + (s.length - rem.length)), (cs.map (·.2)).reverse ++ w)
        | .cut => (some (count + cs.length), some (off + s.length), (cs.map (·.2)).reverse ++ w) := by
  intro cs
  induction cs with
  | nil =>
    intro st rem f s off count w hd hf hc
    cases f with
    | zero => simp at hf
    | succ f =>
      have h2 : ¬ (count ≥ dstlen) := by simp at hc; omega
      cases hd with
      | done => simp [mbsLoop]
      | nul _ hne hm => unfold mbsLoop; simp [hne, h2, hm]
      | invalid _ hne hm => unfold mbsLoop; simp [hne, h2, hm]
      | incomplete _ hne hm => unfold mbsLoop; simp [hne, h2, hm]
  | cons c cs ih =>
    intro st rem f s off count w hd hf hc
    cases hd with
    | cons _ len wc _ _ _ hne hm hpos hle hrest =>
      cases f with
      | zero => simp at hf
      | succ f =>
        unfold mbsLoop
        simp only [List.length_cons] at hc
        have h2 : ¬ (count ≥ dstlen) := by omega
        simp only [hne, if_false, true_and, h2, hm, if_true]
        rw [ih st rem f (s.drop len) (off + len) (count + 1) (wc :: w) hrest (by simp; omega) (by omega)]
        have hrl := decodesTo_rem_le mbr _ _ _ _ hrest
        simp only [List.length_drop] at hrl
        cases st <;>
          simp only [List.length_drop, List.length_cons, List.map_cons, List.reverse_cons, List.append_assoc,
            List.singleton_append] <;>
          refine Prod.ext ?_ (Prod.ext ?_ rfl) <;> simp <;> omega

/-- `mbsnrtowcs` with room in `dst` for everything: the three ways the scan ends.
    * input used up: returns the count, `*src` just past the `srclen` bytes;
    * NUL character: returns the count (NUL not counted), stores the terminating 0, `*src = NULL`;
    * invalid sequence: returns (size_t)-1, `*src` AT the offending sequence;
    * the input ends inside a character (F43): returns the count, `*src` just past the `srclen` bytes
      (the partial character is in `*ps`) — as POSIX allows, and as glibc does;
    in every case exactly the decoded codes are stored at the front of `dst`, nothing else. -/
theorem mbsnrtowcs_stop (mbr : Bytes → MbRes) (src : Bytes) (srclen : Nat) (d : List Nat)
    (cs : List (Nat × Nat)) (st : MbStop) (rem : Bytes) (hs : srclen ≤ src.length)
    (hd : DecodesTo mbr (src.take srclen) cs st rem) (hfit : cs.length < d.length) :
    mbsnrtowcs mbr src srclen (some d) =
      match st with
      | .endOfInput => ⟨some cs.length, some srclen, cs.map (·.2) ++ d.drop cs.length⟩
      | .nul => ⟨some cs.length, none, cs.map (·.2) ++ 0 :: d.drop (cs.length + 1)⟩
      | .bad => ⟨none, some (srclen - rem.length), cs.map (·.2) ++ d.drop cs.length⟩
      | .cut => ⟨some cs.length, some srclen, cs.map (·.2) ++ d.drop cs.length⟩ := by
  unfold mbsnrtowcs
  simp only
  have := mbsLoop_stop mbr d.length cs st rem (srclen + 1) (src.take srclen) 0 0 [] hd (by simp; omega) (by omega)
  rw [this]
  cases st <;> simp [Nat.min_eq_left hs]


/-! ## the conversion state -/

theorem mbsLoopSt_initial (mbr : Bytes → MbRes) (hasDst : Bool) (dstlen : Nat) :
    ∀ (f : Nat) (s : Bytes) (off count : Nat) (w : List Nat),
      (mbsLoopSt mbr hasDst dstlen f [] s off count w).1 = mbsLoop mbr hasDst dstlen f s off count w := by
  intro f
  induction f with
  | zero => intro s off count w; simp [mbsLoopSt, mbsLoop]
  | succ f ih =>
    intro s off count w
    unfold mbsLoopSt mbsLoop
    by_cases h1 : s = []
    · simp [h1]
    · by_cases h2 : hasDst = true ∧ count ≥ dstlen
      · simp [h1, h2]
      · simp only [h1, h2, if_false, List.nil_append, List.length_nil, Nat.sub_zero]
        cases hm : mbr s with
        | char len wc => simp only; exact ih _ _ _ _
        | nul => rfl
        | invalid => rfl
        | incomplete => rfl

/-- started in the INITIAL state, the stateful `mbsnrtowcs` is the single-call function of the
    other theorems -/
theorem mbsnrtowcsSt_initial (mbr : Bytes → MbRes) (src : Bytes) (srclen : Nat) (dst : Option (List Nat)) :
    (mbsnrtowcsSt mbr [] src srclen dst).1 = mbsnrtowcs mbr src srclen dst := by
  cases dst with
  | none => simp only [mbsnrtowcsSt, mbsnrtowcs, mbsLoopSt_initial]
  | some d => simp only [mbsnrtowcsSt, mbsnrtowcs, mbsLoopSt_initial]

/-- a pending partial character is never skipped: whatever the first byte of the new input is (an
    ASCII byte too), the first step is `mbr` on `pend ++ s`; when that is invalid the call fails
    with (size_t)-1, `*src` unchanged, nothing stored and the state kept -/
theorem mbsnrtowcsSt_pending_invalid (mbr : Bytes → MbRes) (pend src : Bytes) (srclen : Nat) (d : List Nat)
    (hs : src.take srclen ≠ []) (hd : 0 < d.length) (hm : mbr (pend ++ src.take srclen) = .invalid) :
    mbsnrtowcsSt mbr pend src srclen (some d) = (⟨none, some 0, d⟩, pend) := by
  unfold mbsnrtowcsSt
  simp only
  unfold mbsLoopSt
  have h2 : ¬ (0 ≥ d.length) := by omega
  simp [hs, h2, hm]

/-- … and when `pend ++ s` starts with a complete character of `len` bytes, exactly `len - |pend|` bytes of
    the new input are consumed for it and the state is initial again for the rest -/
theorem mbsLoopSt_pending_char (mbr : Bytes → MbRes) (hasDst : Bool) (dstlen f : Nat) (pend s : Bytes)
    (off count len wc : Nat) (w : List Nat) (hs : s ≠ []) (hroom : ¬ (hasDst = true ∧ count ≥ dstlen))
    (hm : mbr (pend ++ s) = .char len wc) :
    mbsLoopSt mbr hasDst dstlen (f + 1) pend s off count w =
      mbsLoopSt mbr hasDst dstlen f [] (s.drop (len - pend.length)) (off + (len - pend.length)) (count + 1)
        (if hasDst then wc :: w else w) := by
  rw [mbsLoopSt]
  simp only [hs, hroom, if_false, hm]


end UsualProofs.C14
