import UsualProofs.C14.Inet
/-! The accepted input grammar of `inet_pton4` (leading zeros allowed, one to three digits: POSIX). -/
namespace UsualProofs.C14
open Usual.C14

/-! ## the input grammar of `inet_pton4` -/

/-- a decimal field: ONE TO THREE digits (leading zeros allowed) whose value is at most 255 — the
    "ddd" of POSIX inet_pton (F42; before it any number of digits was taken) -/
def DecOctet (ds : Bytes) (v : Nat) : Prop :=
  ds ≠ [] ∧ (∀ d ∈ ds, isDigit d = true) ∧ digitsVal ds = v ∧ v ≤ 255 ∧ ds.length ≤ 3

/-- accumulate decimal digits -/
def decAcc (a : Nat) (ds : Bytes) : Nat := ds.foldl (fun a d => a * 10 + (d - 48)) a

theorem digitsVal_eq (ds : Bytes) : digitsVal ds = decAcc 0 ds := rfl

theorem decAcc_ge (a : Nat) (ds : Bytes) : a ≤ decAcc a ds := by
  induction ds generalizing a with
  | nil => exact Nat.le_refl _
  | cons d ds ih =>
    simp only [decAcc, List.foldl_cons]
    have := ih (a * 10 + (d - 48))
    simp only [decAcc] at this
    omega

theorem decAcc_snoc (a : Nat) (ds : Bytes) (d : Nat) : decAcc a (ds ++ [d]) = decAcc a ds * 10 + (d - 48) := by
  simp [decAcc, List.foldl_append]

theorem isDigit_iff (d : Nat) : isDigit d = true ↔ 48 ≤ d ∧ d ≤ 57 := by
  simp [isDigit]

/-- reading further digits of a field -/
theorem pton4Go_digits (oc : Nat) (dn : List Nat) (ds : Bytes) (cur n : Nat) (rest : Bytes)
    (hd : ∀ d ∈ ds, isDigit d = true) (hv : decAcc cur ds ≤ 255) (hn : n + ds.length ≤ 3) :
    pton4Go ⟨true, oc, dn, cur, n⟩ (ds ++ rest) = pton4Go ⟨true, oc, dn, decAcc cur ds, n + ds.length⟩ rest := by
  induction ds generalizing cur n with
  | nil => rfl
  | cons d ds ih =>
    have hdd := (isDigit_iff d).mp (hd d (by simp))
    have hstep : decAcc cur (d :: ds) = decAcc (cur * 10 + (d - 48)) ds := rfl
    rw [hstep] at hv ⊢
    have hle := decAcc_ge (cur * 10 + (d - 48)) ds
    simp only [List.length_cons] at hn
    have h1 := step_next oc dn cur (d - 48) n (by omega) (by omega) (by omega)
    have e : 48 + (d - 48) = d := by omega
    rw [e] at h1
    rw [List.cons_append, pton4Go_cons _ _ _ _ h1]
    have := ih _ (n + 1) (fun x hx => hd x (by simp [hx])) hv (by omega)
    rw [this]
    have e2 : n + 1 + ds.length = n + (d :: ds).length := by simp only [List.length_cons]; omega
    rw [e2]

/-- reading one whole field from a fresh state -/
theorem pton4Go_field (oc : Nat) (dn : List Nat) (ds : Bytes) (v n : Nat) (rest : Bytes)
    (h : DecOctet ds v) (ho : oc < 4) :
    pton4Go ⟨false, oc, dn, 0, n⟩ (ds ++ rest) = pton4Go ⟨true, oc + 1, dn, v, ds.length⟩ rest := by
  obtain ⟨hne, hd, hval, hle, hlen⟩ := h
  cases ds with
  | nil => exact absurd rfl hne
  | cons d ds =>
    have hdd := (isDigit_iff d).mp (hd d (by simp))
    have hv : decAcc (d - 48) ds = v := by
      rw [← hval, digitsVal_eq]; simp [decAcc]
    have h1 := step_first oc dn (d - 48) n (by omega) ho
    have e : 48 + (d - 48) = d := by omega
    rw [e] at h1
    simp only [List.length_cons] at hlen
    rw [List.cons_append, pton4Go_cons _ _ _ _ h1]
    rw [pton4Go_digits (oc + 1) dn ds (d - 48) 1 rest (fun x hx => hd x (by simp [hx])) (by omega) (by omega), hv]
    have e2 : 1 + ds.length = (d :: ds).length := by simp only [List.length_cons]; omega
    rw [e2]

theorem decOctet_no_nul (ds : Bytes) (v : Nat) (h : DecOctet ds v) : ∀ x ∈ ds, x ≠ 0 := by
  intro x hx h0
  have := (isDigit_iff x).mp (h.2.1 x hx)
  omega

/-- every dotted quad of decimal fields ≤ 255 is accepted, with the obvious value -/
theorem pton4_accepts (d1 d2 d3 d4 : Bytes) (v1 v2 v3 v4 : Nat) (s : Bytes)
    (h1 : DecOctet d1 v1) (h2 : DecOctet d2 v2) (h3 : DecOctet d3 v3) (h4 : DecOctet d4 v4)
    (hs : cstr s = d1 ++ cDot :: (d2 ++ cDot :: (d3 ++ cDot :: d4))) :
    pton4 s = some [v1, v2, v3, v4] := by
  unfold pton4
  rw [hs]
  unfold P4.init
  rw [pton4Go_field 0 [] d1 v1 0 _ h1 (by omega)]
  rw [pton4Go_cons _ _ _ _ (step_dot 1 [] v1 _ (by omega))]
  rw [pton4Go_field 1 _ d2 v2 0 _ h2 (by omega)]
  rw [pton4Go_cons _ _ _ _ (step_dot 2 _ v2 _ (by omega))]
  rw [pton4Go_field 2 _ d3 v3 0 _ h3 (by omega)]
  rw [pton4Go_cons _ _ _ _ (step_dot 3 _ v3 _ (by omega))]
  have := pton4Go_field 3 ([] ++ [v1] ++ [v2] ++ [v3]) d4 v4 0 [] h4 (by omega)
  rw [List.append_nil] at this
  rw [this]
  simp [pton4Go]

/-- what the scan state means for the text consumed so far -/
def Rep4 (st : P4) (w : Bytes) : Prop :=
  ∃ (groups : List (Bytes × Nat)) (cd : Bytes),
    w = (groups.flatMap fun g => g.1 ++ [cDot]) ++ cd ∧
    (∀ g ∈ groups, DecOctet g.1 g.2) ∧ st.done = groups.map (·.2) ∧
    (∀ d ∈ cd, isDigit d = true) ∧ decAcc 0 cd = st.cur ∧ st.cur ≤ 255 ∧
    (st.sawDigit = true ↔ cd ≠ []) ∧
    st.octets = groups.length + (if cd = [] then 0 else 1) ∧ st.octets ≤ 4 ∧
    (st.sawDigit = false → st.octets < 4) ∧ st.nd = cd.length ∧ cd.length ≤ 3

theorem rep4_step (st st' : P4) (c : Nat) (w : Bytes) (h : pton4Step st c = some st') (hr : Rep4 st w) :
    Rep4 st' (w ++ [c]) := by
  obtain ⟨sd, oc, dn, cu, nd⟩ := st
  obtain ⟨groups, cd, hw, hg, hdone, hcd, hcur, hle, hsd, hoc, hoc4, hlt, hnd, hcl⟩ := hr
  simp only at hdone hcur hle hsd hoc hoc4 hlt hnd
  unfold pton4Step at h
  simp only at h
  split at h
  · next hdig =>
    split at h
    · cases h
    · next hnw =>
      cases sd with
      | false =>
        simp only [Bool.not_false, if_true] at h
        split at h
        · cases h
        · cases h
          have hcd0 : cd = [] := by
            cases cd with
            | nil => rfl
            | cons a b => exact absurd (hsd.mpr (by simp)) (by simp)
          subst hcd0
          have hcu : cu = 0 := by rw [← hcur]; rfl
          subst hcu
          refine ⟨groups, [c], by rw [hw]; simp, hg, hdone, ?_, ?_, by simp only; omega, by simp, ?_, ?_, by simp,
            by simp, by simp⟩
          · intro d hd; simp only [List.mem_singleton] at hd; subst hd; simp [isDigit, hdig]
          · simp [decAcc]
          · simp only [if_true] at hoc; simp only; simp; omega
          · simp only [if_true] at hoc; simp only; have := hlt rfl; omega
      | true =>
        simp only [Bool.not_true, Bool.false_eq_true, if_false] at h
        split at h
        · cases h
        · next hn3 =>
          cases h
          have hcdne : cd ≠ [] := hsd.mp rfl
          refine ⟨groups, cd ++ [c], by rw [hw]; simp, hg, hdone, ?_, ?_, by simp only; omega, by simp, ?_, hoc4, by simp,
            by simp only [List.length_append, List.length_cons, List.length_nil]; omega,
            by simp only [List.length_append, List.length_cons, List.length_nil]; omega⟩
          · intro d hd
            simp only [List.mem_append, List.mem_singleton] at hd
            rcases hd with hd | hd
            · exact hcd d hd
            · subst hd; simp [isDigit, hdig]
          · rw [decAcc_snoc, hcur]
          · simp only [hcdne, if_false] at hoc; simp only; simp; omega
  · split at h
    · next hdot =>
      split at h
      · cases h
      · next hne4 =>
        cases h
        have hsdt : sd = true := hdot.2
        subst hsdt
        have hcdne : cd ≠ [] := hsd.mp rfl
        refine ⟨groups ++ [(cd, cu)], [], ?_, ?_, by simp [hdone], by simp, by simp [decAcc], by simp, by simp, ?_, ?_, ?_,
          by simp, by simp⟩
        · rw [hw, hdot.1]; simp
        · intro g hgm
          simp only [List.mem_append, List.mem_singleton] at hgm
          rcases hgm with hgm | hgm
          · exact hg g hgm
          · subst hgm; exact ⟨hcdne, hcd, by rw [digitsVal_eq]; exact hcur, hle, hcl⟩
        · simp only [hcdne, if_false] at hoc; simp only; simp; omega
        · simp only; omega
        · intro _; simp only; omega
    · cases h

theorem rep4_go (st st' : P4) (rest w : Bytes) (h : pton4Go st rest = some st') (hr : Rep4 st w) :
    Rep4 st' (w ++ rest) := by
  induction rest generalizing st w with
  | nil => simp only [pton4Go, Option.some.injEq] at h; subst h; simpa using hr
  | cons c r ih =>
    unfold pton4Go at h
    cases hs : pton4Step st c with
    | none => rw [hs] at h; cases h
    | some st1 =>
      rw [hs] at h
      have := ih st1 (w ++ [c]) h (rep4_step st st1 c w hs hr)
      simpa using this

/-- THE GRAMMAR of `inet_pton4`: accepted are exactly four decimal fields separated by single
    dots, each field ONE TO THREE digits (LEADING ZEROS allowed — POSIX "ddd"; glibc rejects
    them) with value ≤ 255; the result is the four values -/
theorem pton4_grammar (s v : Bytes) :
    pton4 s = some v ↔
      ∃ d1 d2 d3 d4 v1 v2 v3 v4, cstr s = d1 ++ cDot :: (d2 ++ cDot :: (d3 ++ cDot :: d4)) ∧
        DecOctet d1 v1 ∧ DecOctet d2 v2 ∧ DecOctet d3 v3 ∧ DecOctet d4 v4 ∧ v = [v1, v2, v3, v4] := by
  constructor
  · intro h
    unfold pton4 at h
    cases hg : pton4Go P4.init (cstr s) with
    | none => rw [hg] at h; cases h
    | some st =>
      rw [hg] at h
      simp only at h
      split at h
      · cases h
      · next hoct =>
        cases h
        have hr0 : Rep4 P4.init [] :=
          ⟨[], [], rfl, by simp, rfl, by simp, rfl, by simp [P4.init], by simp [P4.init], by simp [P4.init],
            by simp [P4.init], by simp [P4.init], by simp [P4.init], by simp⟩
        have hr := rep4_go _ _ _ _ hg hr0
        rw [List.nil_append] at hr
        obtain ⟨groups, cd, hw, hgr, hdone, hcd, hcur, hle, hsd, hoc, hoc4, hlt, _, hcl⟩ := hr
        have hsdt : st.sawDigit = true := by
          cases hsdv : st.sawDigit with
          | true => rfl
          | false => have := hlt hsdv; omega
        have hcdne : cd ≠ [] := hsd.mp hsdt
        simp only [hcdne, if_false] at hoc
        have hgl : groups.length = 3 := by omega
        match groups, hgl with
        | [g1, g2, g3], _ =>
          refine ⟨g1.1, g2.1, g3.1, cd, g1.2, g2.2, g3.2, st.cur, ?_, hgr g1 (by simp), hgr g2 (by simp),
            hgr g3 (by simp), ⟨hcdne, hcd, by rw [digitsVal_eq]; exact hcur, hle, hcl⟩, ?_⟩
          · rw [hw]; simp
          · rw [hdone]; simp
  · rintro ⟨d1, d2, d3, d4, v1, v2, v3, v4, hs, h1, h2, h3, h4, rfl⟩
    exact pton4_accepts d1 d2 d3 d4 v1 v2 v3 v4 s h1 h2 h3 h4 hs

end UsualProofs.C14
