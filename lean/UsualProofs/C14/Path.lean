import UsualProofs.C14.Str
/-! `basename` / `dirname`: the decomposition lemmas behind `basename_spec` / `dirname_spec`. -/
namespace UsualProofs.C14
open Usual.C14

theorem head?_reverse_eq_getLast? {α} (l : List α) : l.reverse.head? = l.getLast? := by
  simp

/-- `lastComp (pre ++ comp) = comp` when `comp` has no `/` and `pre` is empty or ends in `/` -/
theorem lastComp_append (pre comp : Bytes) (hcs : ∀ b ∈ comp, b ≠ cSlash)
    (hpre : pre = [] ∨ pre.getLast? = some cSlash) : lastComp (pre ++ comp) = comp := by
  unfold lastComp
  rw [List.reverse_append, takeWhile_append_all _ _ _ (by
    intro a ha; simpa using hcs a (by simpa using ha))]
  have : pre.reverse.takeWhile (· ≠ cSlash) = [] := by
    rcases hpre with rfl | h
    · rfl
    · cases hr : pre.reverse with
      | nil => rfl
      | cons x xs =>
        have : pre.reverse.head? = some cSlash := by rw [head?_reverse_eq_getLast?]; exact h
        rw [hr] at this
        simp only [List.head?_cons, Option.some.injEq] at this
        subst this
        simp
  rw [this]; simp

/-- `uptoLastSlash (pre ++ comp) = pre` (same hypotheses, `pre` non-empty or not) -/
theorem uptoLastSlash_append (pre comp : Bytes) (hcs : ∀ b ∈ comp, b ≠ cSlash)
    (hpre : pre = [] ∨ pre.getLast? = some cSlash) : uptoLastSlash (pre ++ comp) = pre := by
  unfold uptoLastSlash
  rw [List.reverse_append, dropWhile_append_all _ _ _ (by
    intro a ha; simpa using hcs a (by simpa using ha))]
  rcases hpre with rfl | h
  · rfl
  · cases hr : pre.reverse with
    | nil =>
      have : pre = [] := by simpa using hr
      subst this; rfl
    | cons x xs =>
      have : pre.reverse.head? = some cSlash := by rw [head?_reverse_eq_getLast?]; exact h
      rw [hr] at this
      simp only [List.head?_cons, Option.some.injEq] at this
      subst this
      have : (cSlash :: xs).dropWhile (· ≠ cSlash) = cSlash :: xs := by simp
      rw [this, ← hr]; simp

/-- stripping trailing slashes of `x ++ tail` gives `x` when `tail` is all `/` and `x` does not
    end in `/` -/
theorem rstripSlash_append (x tail : Bytes) (ht : ∀ b ∈ tail, b = cSlash)
    (hx : x = [] ∨ ∃ c, x.getLast? = some c ∧ c ≠ cSlash) : rstripSlash (x ++ tail) = x := by
  unfold rstripSlash
  rw [List.reverse_append, dropWhile_append_all _ _ _ (by
    intro a ha; simpa using ht a (by simpa using ha))]
  rcases hx with rfl | ⟨c, hc1, hc2⟩
  · rfl
  · cases hr : x.reverse with
    | nil =>
      have : x = [] := by simpa using hr
      subst this; rfl
    | cons y ys =>
      have : x.reverse.head? = some c := by rw [head?_reverse_eq_getLast?]; exact hc1
      rw [hr] at this
      simp only [List.head?_cons, Option.some.injEq] at this
      subst this
      have : (y :: ys).dropWhile (· = cSlash) = y :: ys := by simp [hc2]
      rw [this, ← hr]; simp

/-- characterisation of `rstripSlash` itself -/
theorem rstripSlash_spec (x : Bytes) :
    (∃ k, x = rstripSlash x ++ List.replicate k cSlash) ∧
    (rstripSlash x = [] ∨ ∃ c, (rstripSlash x).getLast? = some c ∧ c ≠ cSlash) := by
  unfold rstripSlash
  constructor
  · refine ⟨(x.reverse.takeWhile (· = cSlash)).length, ?_⟩
    have h1 : x.reverse = x.reverse.takeWhile (· = cSlash) ++ x.reverse.dropWhile (· = cSlash) :=
      (List.takeWhile_append_dropWhile).symm
    have h2 : x.reverse.takeWhile (· = cSlash) =
        List.replicate (x.reverse.takeWhile (· = cSlash)).length cSlash := by
      apply List.eq_replicate_iff.mpr
      refine ⟨rfl, fun b hb => ?_⟩
      simpa using mem_takeWhile _ _ b hb
    have h3 := congrArg List.reverse h1
    rw [List.reverse_reverse, List.reverse_append] at h3
    rw [h2, List.reverse_replicate] at h3
    exact h3
  · cases hd : x.reverse.dropWhile (· = cSlash) with
    | nil => left; rfl
    | cons y ys =>
      right
      refine ⟨y, by simp, ?_⟩
      have := List.head_dropWhile_not (fun b => decide (b = cSlash)) (l := x.reverse) (by rw [hd]; simp)
      simp only [hd, List.head_cons] at this
      simpa using this

theorem getLast?_append_ne {α} (a b : List α) (hb : b ≠ []) : (a ++ b).getLast? = b.getLast? := by
  rw [List.getLast?_append]
  cases h : b.getLast? with
  | none => simp [List.getLast?_eq_none_iff] at h; exact absurd h hb
  | some x => simp

theorem comp_last (comp : Bytes) (hc : comp ≠ []) (hcs : ∀ b ∈ comp, b ≠ cSlash) :
    ∃ c, comp.getLast? = some c ∧ c ≠ cSlash := by
  refine ⟨comp.getLast hc, List.getLast?_eq_getLast hc, hcs _ (List.getLast_mem hc)⟩

theorem lastN_append (n : Nat) (pre comp : Bytes) (hn : comp.length ≤ n)
    (hpre : pre = [] ∨ pre.getLast? = some cSlash) :
    ∃ pre', lastN n (pre ++ comp) = pre' ++ comp ∧ (pre' = [] ∨ pre'.getLast? = some cSlash) := by
  unfold lastN
  refine ⟨pre.drop ((pre ++ comp).length - n), ?_, ?_⟩
  · rw [List.drop_append]
    have : (pre ++ comp).length - n - pre.length = 0 := by simp; omega
    rw [this]; simp
  · rcases hpre with rfl | h
    · left; simp
    · by_cases hd : pre.drop ((pre ++ comp).length - n) = []
      · left; exact hd
      · right
        rw [List.getLast?_drop]
        have : ¬ pre.length ≤ (pre ++ comp).length - n := by
          intro hle; exact hd (List.drop_of_length_le hle)
        simp only [List.length_append] at this
        simp [h]; omega

/-- `basename` of `pre ++ comp ++ tail`: the last component `comp` -/
theorem basename_decomp (pre comp tail : Bytes) (hc : comp ≠ [])
    (hcs : ∀ b ∈ comp, b ≠ cSlash) (ht : ∀ b ∈ tail, b = cSlash)
    (hpre : pre = [] ∨ pre.getLast? = some cSlash)
    (h0 : ∀ b ∈ pre ++ comp ++ tail, b ≠ 0)
    (hlen : tail = [] ∨ comp.length ≤ basenameBuf) :
    basename (some (pre ++ comp ++ tail)) = comp := by
  unfold basename
  simp only [cstr_of_no_nul _ h0]
  have hne : pre ++ comp ++ tail ≠ [] := by
    intro h; simp at h; exact hc h.2.1
  simp only [hne, if_false]
  obtain ⟨c, hc1, hc2⟩ := comp_last comp hc hcs
  by_cases hcont : (pre ++ comp ++ tail).contains cSlash = true
  · simp only [hcont, Bool.not_true, Bool.false_eq_true, if_false]
    by_cases htl : tail = []
    · subst htl
      simp only [List.append_nil]
      have hl : (pre ++ comp).getLast? ≠ some cSlash := by
        rw [getLast?_append_ne _ _ hc, hc1]; intro h; exact hc2 (Option.some.inj h)
      simp only [hl, ne_eq, not_false_eq_true, if_true]
      exact lastComp_append pre comp hcs hpre
    · have hl : (pre ++ comp ++ tail).getLast? = some cSlash := by
        rw [getLast?_append_ne _ _ htl]
        have := ht _ (List.getLast_mem htl)
        rw [List.getLast?_eq_getLast htl, this]
      simp only [hl, ne_eq, not_true_eq_false, if_false]
      have hrs : rstripSlash (pre ++ comp ++ tail) = pre ++ comp :=
        rstripSlash_append (pre ++ comp) tail ht
          (Or.inr ⟨c, by rw [getLast?_append_ne _ _ hc]; exact hc1, hc2⟩)
      rw [hrs]
      have hpc : pre ++ comp ≠ [] := by simp [hc]
      simp only [hpc, if_false]
      have hl2 : comp.length ≤ basenameBuf := by
        rcases hlen with h | h
        · exact absurd h htl
        · exact h
      obtain ⟨pre', hp1, hp2⟩ := lastN_append basenameBuf pre comp hl2 hpre
      rw [hp1]
      exact lastComp_append pre' comp hcs hp2
  · have hcont' : (pre ++ comp ++ tail).contains cSlash = false := by simpa using hcont
    simp only [hcont', Bool.not_false, if_true]
    -- no slash at all: pre = [] and tail = []
    have hnos : ∀ b ∈ pre ++ comp ++ tail, b ≠ cSlash := by
      intro b hb heq
      subst heq
      have : (pre ++ comp ++ tail).contains cSlash = true := by simpa using hb
      rw [hcont'] at this; cases this
    have htl : tail = [] := by
      cases tail with
      | nil => rfl
      | cons t ts =>
        exact absurd (ht t (by simp)) (hnos t (by simp))
    have hpr : pre = [] := by
      rcases hpre with h | h
      · exact h
      · have hm : cSlash ∈ pre := List.mem_of_getLast? h
        exact absurd rfl (hnos cSlash (by simp [hm]))
    subst htl; subst hpr; simp

/-- `dirname` of `pre ++ comp ++ tail` -/
theorem dirname_decomp (pre comp tail : Bytes) (hc : comp ≠ [])
    (hcs : ∀ b ∈ comp, b ≠ cSlash) (ht : ∀ b ∈ tail, b = cSlash)
    (hpre : pre = [] ∨ pre.getLast? = some cSlash)
    (h0 : ∀ b ∈ pre ++ comp ++ tail, b ≠ 0) :
    dirname (some (pre ++ comp ++ tail)) =
      if pre = [] then some [cDot]
      else if rstripSlash pre = [] then some [cSlash]
      else if (rstripSlash pre).length > dirnameBuf then none
      else some (rstripSlash pre) := by
  unfold dirname
  simp only [cstr_of_no_nul _ h0]
  have hne : pre ++ comp ++ tail ≠ [] := by
    intro h; simp at h; exact hc h.2.1
  simp only [hne, if_false]
  obtain ⟨c, hc1, hc2⟩ := comp_last comp hc hcs
  have hrs : rstripSlash (pre ++ comp ++ tail) = pre ++ comp :=
    rstripSlash_append (pre ++ comp) tail ht
      (Or.inr ⟨c, by rw [getLast?_append_ne _ _ hc]; exact hc1, hc2⟩)
  rw [hrs]
  have hpc : pre ++ comp ≠ [] := by simp [hc]
  simp only [hpc, if_false]
  by_cases hp : pre = []
  · subst hp
    have : (([] : Bytes) ++ comp).contains cSlash = false := by
      simp only [List.nil_append]
      cases hcc : comp.contains cSlash with
      | false => rfl
      | true =>
        have : cSlash ∈ comp := by simpa using hcc
        exact absurd rfl (hcs _ this)
    simp only [this, Bool.not_false, if_true]
  · have hl : pre.getLast? = some cSlash := by
      rcases hpre with h | h
      · exact absurd h hp
      · exact h
    have hm : cSlash ∈ pre := List.mem_of_getLast? hl
    have : (pre ++ comp).contains cSlash = true := by simp [hm]
    simp only [this, Bool.not_true, Bool.false_eq_true, if_false, hp]
    rw [uptoLastSlash_append pre comp hcs hpre]

end UsualProofs.C14
