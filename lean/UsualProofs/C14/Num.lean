import UsualProofs.C14.Str
/-! `strtonum` on top of the `strtoll` model. -/
namespace UsualProofs.C14
open Usual.C14

theorem strtonum_ok_range (s : Bytes) (lo hi v : Int) (h : strtonum s lo hi = (v, .ok)) :
    lo ≤ v ∧ v ≤ hi := by
  unfold strtonum at h
  by_cases c0 : lo > hi
  · simp [c0] at h
  · simp only [c0, if_false] at h
    by_cases c1 : (strtoll s).erange = true
    · simp only [c1, if_true] at h
      split at h <;> simp at h
    · simp only [c1, Bool.false_eq_true, if_false] at h
      by_cases c2 : (strtoll s).consumed ≠ (cstr s).length ∨ (strtoll s).consumed = 0
      · simp [c2] at h
      · simp only [c2, if_false] at h
        by_cases c3 : (strtoll s).val < lo
        · simp [c3] at h
        · simp only [c3, if_false] at h
          by_cases c4 : (strtoll s).val > hi
          · simp [c4] at h
          · simp only [c4, if_false, Prod.mk.injEq, and_true] at h
            omega

theorem strtonum_err_zero (s : Bytes) (lo hi : Int) (h : (strtonum s lo hi).2 ≠ .ok) :
    (strtonum s lo hi).1 = 0 := by
  unfold strtonum at h ⊢
  by_cases c0 : lo > hi
  · simp [c0]
  · simp only [c0, if_false] at h ⊢
    by_cases c1 : (strtoll s).erange = true
    · simp only [c1, if_true]; split <;> rfl
    · simp only [c1, Bool.false_eq_true, if_false] at h ⊢
      by_cases c2 : (strtoll s).consumed ≠ (cstr s).length ∨ (strtoll s).consumed = 0
      · simp [c2]
      · simp only [c2, if_false] at h ⊢
        by_cases c3 : (strtoll s).val < lo
        · simp [c3]
        · simp only [c3, if_false] at h ⊢
          by_cases c4 : (strtoll s).val > hi
          · simp [c4]
          · simp [c4] at h

/-- `strtoll` on an optional minus sign followed by digits and the terminator -/
theorem strtoll_decimal (neg : Bool) (ds t : Bytes) (hne : ds ≠ []) (hd : ∀ d ∈ ds, isDigit d = true) :
    strtoll ((if neg then [45] else []) ++ ds ++ 0 :: t) =
      (let m : Int := Int.ofNat (digitsVal ds)
       let v := if neg then -m else m
       let e := (if neg then 1 else 0) + ds.length
       if v > llMax then ⟨llMax, e, true⟩
       else if v < llMin then ⟨llMin, e, true⟩
       else ⟨v, e, false⟩) := by
  have hdn : ∀ d ∈ ds, d ≠ 0 := by
    intro d hdm h0; subst h0
    have := hd 0 hdm; simp [isDigit] at this
  obtain ⟨d0, dr, rfl⟩ : ∃ d0 dr, ds = d0 :: dr := by
    cases ds with
    | nil => exact absurd rfl hne
    | cons a b => exact ⟨a, b, rfl⟩
  have hd0 : isDigit d0 = true := hd d0 (by simp)
  have hsp0 : isSpace d0 = false := by
    simp only [isDigit, Bool.and_eq_true, decide_eq_true_eq] at hd0
    simp only [isSpace, Bool.or_eq_false_iff, Bool.and_eq_false_iff, beq_eq_false_iff_ne, ne_eq,
      decide_eq_false_iff_not]
    omega
  have hne45 : d0 ≠ 45 ∧ d0 ≠ 43 := by
    simp only [isDigit, Bool.and_eq_true, decide_eq_true_eq] at hd0; omega
  have htw : (d0 :: dr).takeWhile isDigit = d0 :: dr := takeWhile_all _ _ hd
  unfold strtoll
  cases neg with
  | true =>
    have hc : cstr (([45] : Bytes) ++ (d0 :: dr) ++ 0 :: t) = 45 :: d0 :: dr := by
      have := cstr_append_nul (45 :: d0 :: dr) t (by
        intro b hb
        simp only [List.mem_cons] at hb
        rcases hb with rfl | hb
        · decide
        · exact hdn b (by simpa using hb))
      simpa using this
    simp only [if_true, hc]
    have hws : (45 :: d0 :: dr).takeWhile isSpace = [] := by
      simp [isSpace]
    simp only [hws, List.length_nil, List.drop_zero, List.head?_cons]
    simp only [show ((some 45 : Option Nat) == some 45) = true by decide, Bool.true_or, if_true,
      List.drop_succ_cons, List.drop_zero, htw]
    simp
  | false =>
    have hc : cstr (([] : Bytes) ++ (d0 :: dr) ++ 0 :: t) = d0 :: dr := by
      have := cstr_append_nul (d0 :: dr) t hdn
      simpa using this
    simp only [Bool.false_eq_true, if_false, hc]
    have hws : (d0 :: dr).takeWhile isSpace = [] := by simp [hsp0]
    simp only [hws, List.length_nil, List.drop_zero, List.head?_cons]
    have h45 : ((some d0 : Option Nat) == some 45) = false := by simp [hne45.1]
    have h43 : ((some d0 : Option Nat) == some 43) = false := by simp [hne45.2]
    simp only [h45, h43, Bool.or_self, Bool.false_eq_true, if_false, List.drop_zero, htw]
    simp

/-- `strtonum` on a plain decimal numeral with optional minus sign: the value when it lies in
    `[minval, maxval]`, otherwise 0 with "too small"/"too large" -/
theorem strtonum_decimal (neg : Bool) (ds t : Bytes) (hne : ds ≠ []) (hd : ∀ d ∈ ds, isDigit d = true)
    (lo hi : Int) (hlh : lo ≤ hi) (hlo : llMin ≤ lo) (hhi : hi ≤ llMax) :
    strtonum ((if neg then [45] else []) ++ ds ++ 0 :: t) lo hi =
      (let v : Int := if neg then -(Int.ofNat (digitsVal ds)) else Int.ofNat (digitsVal ds)
       if v < lo then (0, .small) else if v > hi then (0, .large) else (v, .ok)) := by
  have hdn : ∀ d ∈ ds, d ≠ 0 := by
    intro d hdm h0; subst h0
    have := hd 0 hdm; simp [isDigit] at this
  have hc : (cstr ((if neg then [45] else []) ++ ds ++ 0 :: t)).length = (if neg then 1 else 0) + ds.length := by
    rw [cstr_append_nul]
    · cases neg <;> simp; omega
    · intro b hb
      simp only [List.mem_append] at hb
      rcases hb with hb | hb
      · cases neg <;> simp at hb; omega
      · exact hdn b hb
  have hlen : 0 < ds.length := List.length_pos_iff.mpr hne
  have hst := strtoll_decimal neg ds t hne hd
  simp only at hst
  unfold strtonum
  simp only [show ¬ lo > hi by omega, if_false, hc]
  unfold llMax llMin at *
  generalize (if neg = true then -(Int.ofNat (digitsVal ds)) else Int.ofNat (digitsVal ds)) = v at hst ⊢
  generalize strtoll ((if neg = true then [45] else []) ++ ds ++ 0 :: t) = r at hst ⊢
  have he : ¬ ((if neg = true then 1 else 0) + ds.length = 0) := by omega
  by_cases h1 : v > 9223372036854775807
  · rw [if_pos h1] at hst
    subst hst
    have : ¬ v < lo := by omega
    have : v > hi := by omega
    simp [*]
  · rw [if_neg h1] at hst
    by_cases h2 : v < -9223372036854775808
    · rw [if_pos h2] at hst
      subst hst
      have : v < lo := by omega
      simp [*]
    · rw [if_neg h2] at hst
      subst hst
      simp only [Bool.false_eq_true, if_false, ne_eq, not_true_eq_false, he, or_self]

end UsualProofs.C14
