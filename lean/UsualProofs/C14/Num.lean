import UsualProofs.C14.Str
/-! `strtonum` (OpenBSD order, repair F39) on top of the `strtoll` model: full classification. -/
namespace UsualProofs.C14
open Usual.C14

/-- `t` is a decimal numeral for `v`: optional white space, optional sign, one or more digits,
    nothing else -/
def Numeral (t : Bytes) (v : Int) : Prop :=
  ∃ ws sg ds, t = ws ++ sg ++ ds ∧ (∀ c ∈ ws, isSpace c = true) ∧ (sg = [] ∨ sg = [43] ∨ sg = [45]) ∧
    ds ≠ [] ∧ (∀ d ∈ ds, isDigit d = true) ∧
    v = (if sg = [45] then -(Int.ofNat (digitsVal ds)) else Int.ofNat (digitsVal ds))

theorem digit_facts (d : Nat) (h : isDigit d = true) : isSpace d = false ∧ d ≠ 45 ∧ d ≠ 43 ∧ d ≠ 0 := by
  simp only [isDigit, Bool.and_eq_true, decide_eq_true_eq] at h
  refine ⟨?_, by omega, by omega, by omega⟩
  simp only [isSpace, Bool.or_eq_false_iff, Bool.and_eq_false_iff, beq_eq_false_iff_ne, ne_eq,
    decide_eq_false_iff_not]
  omega

/-- what `strtoll` computes on a numeral followed by anything that is not a digit -/
theorem strtoll_parts (ws sg ds rest : Bytes) (hws : ∀ c ∈ ws, isSpace c = true)
    (hsg : sg = [] ∨ sg = [43] ∨ sg = [45]) (hne : ds ≠ []) (hd : ∀ d ∈ ds, isDigit d = true)
    (hrest : ∀ c, rest.head? = some c → isDigit c = false)
    (hc : ∀ c ∈ ws ++ sg ++ ds ++ rest, c ≠ 0) :
    strtoll (ws ++ sg ++ ds ++ rest) =
      (let v : Int := if sg = [45] then -(Int.ofNat (digitsVal ds)) else Int.ofNat (digitsVal ds)
       let e := ws.length + sg.length + ds.length
       if v > llMax then ⟨llMax, e, true⟩ else if v < llMin then ⟨llMin, e, true⟩ else ⟨v, e, false⟩) := by
  obtain ⟨d0, dr, rfl⟩ : ∃ d0 dr, ds = d0 :: dr := by
    cases ds with
    | nil => exact absurd rfl hne
    | cons a b => exact ⟨a, b, rfl⟩
  obtain ⟨hsp0, h45, h43, _⟩ := digit_facts d0 (hd d0 (by simp))
  unfold strtoll
  rw [cstr_of_no_nul _ hc]
  -- white space
  have hfirst : ∃ c r, sg ++ (d0 :: dr) ++ rest = c :: r ∧ isSpace c = false := by
    rcases hsg with rfl | rfl | rfl
    · exact ⟨d0, dr ++ rest, by simp, hsp0⟩
    · exact ⟨43, d0 :: dr ++ rest, by simp, by decide⟩
    · exact ⟨45, d0 :: dr ++ rest, by simp, by decide⟩
  obtain ⟨c, r, hcr, hcs⟩ := hfirst
  have hws' : (ws ++ sg ++ (d0 :: dr) ++ rest).takeWhile isSpace = ws := by
    rw [List.append_assoc, List.append_assoc, ← List.append_assoc sg, takeWhile_append_all _ _ _ hws, hcr]
    simp [hcs]
  simp only [hws']
  have hdrop : (ws ++ sg ++ (d0 :: dr) ++ rest).drop ws.length = sg ++ (d0 :: dr) ++ rest := by
    rw [List.append_assoc, List.append_assoc, List.drop_left]; simp
  rw [hdrop]
  have htw : ((d0 :: dr) ++ rest).takeWhile isDigit = d0 :: dr := by
    rw [takeWhile_append_all _ _ _ hd]
    cases rest with
    | nil => simp
    | cons x xs => simp [hrest x rfl]
  rcases hsg with rfl | rfl | rfl
  · have e1 : ((some d0 : Option Nat) == some 45) = false := by simp [h45]
    have e2 : ((some d0 : Option Nat) == some 43) = false := by simp [h43]
    simp only [List.nil_append, List.cons_append, List.head?_cons, e1, e2, Bool.or_self, Bool.false_eq_true,
      if_false, List.drop_zero, List.append_nil, List.length_nil, Nat.add_zero]
    rw [show d0 :: (dr ++ rest) = (d0 :: dr) ++ rest from rfl, htw]
    simp
  · simp only [List.cons_append, List.nil_append, List.head?_cons,
      show ((some 43 : Option Nat) == some 45) = false by decide,
      show ((some 43 : Option Nat) == some 43) = true by decide, Bool.false_or, if_true,
      List.drop_succ_cons, List.drop_zero, Bool.false_eq_true, if_false]
    rw [show d0 :: (dr ++ rest) = (d0 :: dr) ++ rest from rfl, htw]
    simp
  · simp only [List.cons_append, List.nil_append, List.head?_cons,
      show ((some 45 : Option Nat) == some 45) = true by decide, Bool.true_or, if_true,
      List.drop_succ_cons, List.drop_zero]
    rw [show d0 :: (dr ++ rest) = (d0 :: dr) ++ rest from rfl, htw]
    simp

theorem numeral_no_nul (t : Bytes) (v : Int) (h : Numeral t v) : ∀ c ∈ t, c ≠ 0 := by
  obtain ⟨ws, sg, ds, rfl, hws, hsg, _, hd, _⟩ := h
  intro c hc
  simp only [List.mem_append] at hc
  rcases hc with (hc | hc) | hc
  · intro h0; subst h0; have := hws 0 hc; simp [isSpace] at this
  · rcases hsg with rfl | rfl | rfl <;> simp at hc <;> omega
  · exact (digit_facts c (hd c hc)).2.2.2

/-- CLASSIFICATION, part 1: a numeral gives its value when that lies in `[minval, maxval]`, else
    "too small"/"too large" -/
theorem strtonum_numeral (s : Bytes) (v lo hi : Int) (hn : Numeral (cstr s) v)
    (hlh : lo ≤ hi) (hlo : llMin ≤ lo) (hhi : hi ≤ llMax) :
    strtonum s lo hi = (if v < lo then (0, .small) else if v > hi then (0, .large) else (v, .ok)) := by
  have hnn := numeral_no_nul _ _ hn
  obtain ⟨ws, sg, ds, ht, hws, hsg, hne, hd, hv⟩ := hn
  have hst : strtoll s = strtoll (ws ++ sg ++ ds ++ []) := by
    unfold strtoll
    rw [ht, List.append_nil, cstr_of_no_nul (ws ++ sg ++ ds) (by rw [← ht]; exact hnn)]
  have hparts := strtoll_parts ws sg ds [] hws hsg hne hd (by simp) (by rw [List.append_nil, ← ht]; exact hnn)
  simp only at hparts
  subst hv
  generalize (if sg = [45] then -(Int.ofNat (digitsVal ds)) else Int.ofNat (digitsVal ds)) = v at hparts ⊢
  have hlen : (cstr s).length = ws.length + sg.length + ds.length := by
    rw [ht]; simp only [List.length_append]
  have hdl : 0 < ds.length := List.length_pos_iff.mpr hne
  unfold strtonum
  simp only [show ¬ lo > hi by omega, if_false, hst, hlen]
  unfold llMax llMin at *
  generalize strtoll (ws ++ sg ++ ds ++ []) = r at hparts ⊢
  have he : ¬ (ws.length + sg.length + ds.length = 0) := by omega
  by_cases h1 : v > 9223372036854775807
  · rw [if_pos h1] at hparts
    subst hparts
    have : ¬ v < lo := by omega
    have : v > hi := by omega
    simp [*]
  · rw [if_neg h1] at hparts
    by_cases h2 : v < -9223372036854775808
    · rw [if_pos h2] at hparts
      subst hparts
      have : v < lo := by omega
      simp [*]
    · rw [if_neg h2] at hparts
      subst hparts
      simp only [ne_eq, not_true_eq_false, he, or_self, if_false, Bool.false_eq_true]

theorem strtoll_consumed (s : Bytes) :
    (strtoll s).consumed =
      (let t := cstr s
       let ws := t.takeWhile isSpace
       let r := t.drop ws.length
       let sl := if (r.head? == some 45 || r.head? == some 43) = true then 1 else 0
       let ds := (r.drop sl).takeWhile isDigit
       if ds = [] then 0 else ws.length + sl + ds.length) := by
  unfold strtoll
  simp only
  generalize cstr s = t
  generalize t.takeWhile isSpace = ws
  generalize t.drop ws.length = r
  generalize (if (r.head? == some 45 || r.head? == some 43) = true then 1 else 0) = sl
  generalize (r.drop sl).takeWhile isDigit = ds
  by_cases h : ds = []
  · simp [h]
  · simp only [h, if_false]
    generalize (if (r.head? == some 45) = true then -(Int.ofNat (digitsVal ds)) else Int.ofNat (digitsVal ds)) = v
    split
    · rfl
    · split <;> rfl

/-- CLASSIFICATION, part 2: anything that is not a numeral is "invalid" — also when its digits
    overflow (this is where the unrepaired order differed) -/
theorem strtonum_not_numeral (s : Bytes) (lo hi : Int) (hno : ¬ ∃ v, Numeral (cstr s) v) :
    strtonum s lo hi = (0, .invalid) := by
  unfold strtonum
  by_cases h0 : lo > hi
  · simp [h0]
  · simp only [h0, if_false]
    by_cases hbad : (strtoll s).consumed ≠ (cstr s).length ∨ (strtoll s).consumed = 0
    · simp [hbad]
    · exfalso
      apply hno
      have hc1 : (strtoll s).consumed = (cstr s).length := by
        by_cases h : (strtoll s).consumed = (cstr s).length
        · exact h
        · exact absurd (Or.inl h) hbad
      have hc2 : (strtoll s).consumed ≠ 0 := fun h => hbad (Or.inr h)
      rw [strtoll_consumed] at hc1 hc2
      simp only at hc1 hc2
      generalize cstr s = t at hc1 hc2 ⊢
      generalize hwsdef : t.takeWhile isSpace = ws at hc1 hc2
      generalize hrdef : t.drop ws.length = r at hc1 hc2
      generalize hsldef : (if (r.head? == some 45 || r.head? == some 43) = true then 1 else 0) = sl at hc1 hc2
      generalize hdsdef : (r.drop sl).takeWhile isDigit = ds at hc1 hc2
      by_cases hds : ds = []
      · simp [hds] at hc2
      · simp only [hds, if_false] at hc1
        have hwsp : ws = t.take ws.length := by rw [← hwsdef]; exact takeWhile_prefix _ _
        have ht1 : t = ws ++ r := by
          rw [← hrdef]; conv => lhs; rw [← List.take_append_drop ws.length t]
          rw [← hwsp]
        have hrl : r.length = sl + ds.length := by
          have := congrArg List.length ht1
          simp only [List.length_append] at this; omega
        have hdsp : ds = (r.drop sl).take ds.length := by rw [← hdsdef]; exact takeWhile_prefix _ _
        have hds2 : r.drop sl = ds := by
          rw [hdsp]; symm; apply List.take_of_length_le
          simp only [List.length_drop]; omega
        have hr2 : r = r.take sl ++ ds := by
          conv => lhs; rw [← List.take_append_drop sl r]
          rw [hds2]
        have hsg : r.take sl = [] ∨ r.take sl = [43] ∨ r.take sl = [45] := by
          rw [← hsldef]
          by_cases hh : (r.head? == some 45 || r.head? == some 43) = true
          · simp only [hh, if_true]
            cases r with
            | nil => simp at hh
            | cons x xs =>
              simp only [List.head?_cons, Bool.or_eq_true, beq_iff_eq, Option.some.injEq] at hh
              rcases hh with rfl | rfl
              · right; right; rfl
              · right; left; rfl
          · simp only [hh, if_false]; left; rfl
        refine ⟨_, ws, r.take sl, ds, by rw [ht1, hr2, List.take_left' (by simp; omega)]; simp, ?_, hsg, hds, ?_, rfl⟩
        · intro c hc; rw [← hwsdef] at hc; exact mem_takeWhile _ _ c hc
        · intro d hd; rw [← hdsdef] at hd; exact mem_takeWhile _ _ d hd

theorem strtonum_ok_range (s : Bytes) (lo hi v : Int) (h : strtonum s lo hi = (v, .ok)) :
    lo ≤ v ∧ v ≤ hi := by
  unfold strtonum at h
  by_cases c0 : lo > hi
  · simp [c0] at h
  · simp only [c0, if_false] at h
    by_cases c2 : (strtoll s).consumed ≠ (cstr s).length ∨ (strtoll s).consumed = 0
    · simp [c2] at h
    · simp only [c2, if_false] at h
      by_cases c1 : (strtoll s).erange = true
      · simp only [c1, if_true] at h
        split at h <;> simp at h
      · simp only [c1, Bool.false_eq_true, if_false] at h
        by_cases c3 : (strtoll s).val < lo
        · simp [c3] at h
        · simp only [c3, if_false] at h
          by_cases c4 : (strtoll s).val > hi
          · simp [c4] at h
          · simp only [c4, if_false, Prod.mk.injEq, and_true] at h
            omega

theorem strtonum_err_zero (s : Bytes) (lo hi : Int) (h : (strtonum s lo hi).2 ≠ .ok) :
    (strtonum s lo hi).1 = 0 := by
  unfold strtonum at h ⊢
  by_cases c0 : lo > hi
  · simp [c0]
  · simp only [c0, if_false] at h ⊢
    by_cases c2 : (strtoll s).consumed ≠ (cstr s).length ∨ (strtoll s).consumed = 0
    · simp [c2]
    · simp only [c2, if_false] at h ⊢
      by_cases c1 : (strtoll s).erange = true
      · simp only [c1, if_true]; split <;> rfl
      · simp only [c1, Bool.false_eq_true, if_false] at h ⊢
        by_cases c3 : (strtoll s).val < lo
        · simp [c3]
        · simp only [c3, if_false] at h ⊢
          by_cases c4 : (strtoll s).val > hi
          · simp [c4]
          · simp [c4] at h

end UsualProofs.C14
