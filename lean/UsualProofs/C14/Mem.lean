import UsualProofs.C14.Str
/-! `memmem`, `strsep`, `mempbrk`/`memspn`/`memcspn`: lemmas behind the `_spec` theorems. -/
namespace UsualProofs.C14
open Usual.C14

/-- the needle `q` occurs in `h` at offset `i` (entirely inside `h`) -/
def Occ (h q : Bytes) (i : Nat) : Prop := i + q.length ≤ h.length ∧ (h.drop i).take q.length = q

theorem matchAt_iff (h q : Bytes) (i : Nat) : matchAt h q i = true ↔ (h.drop i).take q.length = q := by
  simp [matchAt]

theorem occ_of_match (h q : Bytes) (i : Nat) (hq : q ≠ []) (hm : (h.drop i).take q.length = q) :
    Occ h q i := by
  refine ⟨?_, hm⟩
  have hl := congrArg List.length hm
  simp only [List.length_take, List.length_drop] at hl
  have : 0 < q.length := List.length_pos_iff.mpr hq
  omega

theorem occ_head (h q : Bytes) (i : Nat) (q0 : Nat) (qs : Bytes) (hq : q = q0 :: qs) (ho : Occ h q i) :
    h[i]? = some q0 := by
  obtain ⟨_, hm⟩ := ho
  subst hq
  have : (h.drop i)[0]? = some q0 := by
    have h2 := congrArg (fun l => l[0]?) hm
    simp only [List.length_cons] at h2
    rw [List.getElem?_take] at h2
    simpa using h2
  simpa using this

theorem memmemLoop_some (h q : Bytes) (f i r : Nat) :
    memmemLoop h q f i = some r ↔
      i ≤ r ∧ r < i + f ∧ matchAt h q r = true ∧ ∀ j, i ≤ j → j < r → matchAt h q j = false := by
  induction f generalizing i with
  | zero => simp [memmemLoop]; intro h1 h2; omega
  | succ f ih =>
    unfold memmemLoop
    by_cases hm : matchAt h q i = true
    · simp only [hm, if_pos, Option.some.injEq]
      constructor
      · rintro rfl; exact ⟨Nat.le_refl _, by omega, hm, fun j h1 h2 => by omega⟩
      · rintro ⟨h1, _, _, h4⟩
        rcases Nat.lt_or_ge i r with hlt | hge
        · have := h4 i (Nat.le_refl _) hlt; rw [hm] at this; cases this
        · omega
    · have hm' : matchAt h q i = false := by simpa using hm
      simp only [hm', Bool.false_eq_true, if_false, ih]
      constructor
      · rintro ⟨h1, h2, h3, h4⟩
        refine ⟨by omega, by omega, h3, fun j hj1 hj2 => ?_⟩
        rcases Nat.lt_or_ge i j with hlt | hge
        · exact h4 j hlt hj2
        · have : j = i := by omega
          subst this; exact hm'
      · rintro ⟨h1, h2, h3, h4⟩
        have hne : r ≠ i := by rintro rfl; rw [hm'] at h3; cases h3
        exact ⟨by omega, by omega, h3, fun j hj1 hj2 => h4 j (by omega) hj2⟩

theorem memmemLoop_none (h q : Bytes) (f i : Nat) :
    memmemLoop h q f i = none ↔ ∀ j, i ≤ j → j < i + f → matchAt h q j = false := by
  induction f generalizing i with
  | zero => simp [memmemLoop]; intro j h1 h2; omega
  | succ f ih =>
    unfold memmemLoop
    by_cases hm : matchAt h q i = true
    · simp only [hm, if_pos]
      constructor
      · intro h1; cases h1
      · intro h1; have := h1 i (Nat.le_refl _) (by omega); rw [hm] at this; cases this
    · have hm' : matchAt h q i = false := by simpa using hm
      simp only [hm', Bool.false_eq_true, if_false, ih]
      constructor
      · intro h1 j hj1 hj2
        rcases Nat.lt_or_ge i j with hlt | hge
        · exact h1 j hlt (by omega)
        · have : j = i := by omega
          subst this; exact hm'
      · intro h1 j hj1 hj2; exact h1 j (by omega) (by omega)

theorem memchr_full (h : Bytes) (c : Nat) : memchr h c h.length = h.findIdx? (· == c) := by
  simp [memchr]

/-- `memmem` returns the LEAST offset of an occurrence -/
theorem memmem_some (h q : Bytes) (i : Nat) :
    memmem h q = some i ↔ Occ h q i ∧ ∀ j, j < i → ¬ Occ h q j := by
  unfold memmem
  by_cases hq0 : q.length = 0
  · have hq : q = [] := List.eq_nil_of_length_eq_zero hq0
    subst hq
    simp only [List.length_nil, if_pos, Option.some.injEq]
    constructor
    · rintro rfl; exact ⟨⟨by simp, by simp⟩, fun j hj => by omega⟩
    · rintro ⟨_, h2⟩
      rcases Nat.eq_zero_or_pos i with h0 | h0
      · exact h0.symm
      · exact absurd ⟨by simp, by simp⟩ (h2 0 h0)
  · simp only [hq0, if_neg, not_false_eq_true]
    obtain ⟨q0, qs, hq⟩ : ∃ q0 qs, q = q0 :: qs := by
      cases q with
      | nil => simp at hq0
      | cons a b => exact ⟨a, b, rfl⟩
    have hqne : q ≠ [] := by rw [hq]; simp
    by_cases hgt : q.length > h.length
    · simp only [hgt, if_pos]
      constructor
      · intro h1; cases h1
      · rintro ⟨⟨h1, _⟩, _⟩; omega
    · simp only [hgt, if_neg, not_false_eq_true]
      have hget : q.getD 0 0 = q0 := by rw [hq]; rfl
      rw [hget, memchr_full]
      cases hf : h.findIdx? (· == q0) with
      | none =>
        simp only
        constructor
        · intro h1; cases h1
        · rintro ⟨ho, _⟩
          have hh := occ_head h q i q0 qs hq ho
          have hnone := (findIdx?_none _ _).mp hf
          have hmem : q0 ∈ h := List.mem_of_getElem? hh
          have := hnone q0 hmem
          simp at this
      | some s2 =>
        simp only
        obtain ⟨⟨a, ha1, ha2⟩, hmin⟩ := (findIdx?_some _ _ _).mp hf
        have ha : a = q0 := by simpa using ha2
        subst ha
        -- no occurrence strictly before s2
        have hbefore : ∀ j, j < s2 → ¬ Occ h q j := by
          intro j hj ho
          have hh := occ_head h q j a qs hq ho
          have := hmin j hj a hh
          simp at this
        by_cases h1 : q.length = 1
        · simp only [h1, if_pos, Option.some.injEq]
          have hqs : qs = [] := by
            rw [hq] at h1; simpa using h1
          have hocc : Occ h q s2 := by
            have hlt : s2 < h.length := by
              rcases Nat.lt_or_ge s2 h.length with hl | hl
              · exact hl
              · rw [List.getElem?_eq_none hl] at ha1; cases ha1
            refine ⟨by omega, ?_⟩
            rw [hq, hqs]
            simp only [List.length_cons, List.length_nil]
            rw [List.drop_eq_getElem_cons hlt]
            have : h[s2] = a := by
              have := List.getElem?_eq_getElem hlt
              rw [this] at ha1; exact Option.some.inj ha1
            simp [this]
          constructor
          · rintro rfl; exact ⟨hocc, hbefore⟩
          · rintro ⟨ho, hmin2⟩
            rcases Nat.lt_trichotomy s2 i with hl | hl | hl
            · exact absurd hocc (hmin2 s2 hl)
            · exact hl
            · exact absurd ho (hbefore i hl)
        · simp only [h1, if_neg, not_false_eq_true]
          rw [memmemLoop_some]
          constructor
          · rintro ⟨h2, h3, h4, h5⟩
            have ho : Occ h q i := occ_of_match h q i hqne ((matchAt_iff _ _ _).mp h4)
            refine ⟨ho, fun j hj hoj => ?_⟩
            rcases Nat.lt_or_ge j s2 with hl | hl
            · exact hbefore j hl hoj
            · have := h5 j hl hj
              rw [(matchAt_iff _ _ _).mpr hoj.2] at this; cases this
          · rintro ⟨ho, hmin2⟩
            have hs2 : s2 ≤ i := by
              rcases Nat.lt_or_ge i s2 with hl | hl
              · exact absurd ho (hbefore i hl)
              · exact hl
            refine ⟨hs2, ?_, (matchAt_iff _ _ _).mpr ho.2, fun j hj1 hj2 => ?_⟩
            · have := ho.1; omega
            · cases hmj : matchAt h q j with
              | false => rfl
              | true =>
                exact absurd (occ_of_match h q j hqne ((matchAt_iff _ _ _).mp hmj)) (hmin2 j hj2)

theorem memmem_none (h q : Bytes) : memmem h q = none ↔ ∀ i, ¬ Occ h q i := by
  constructor
  · intro hn i ho
    -- take the least occurrence: memmem would return it
    have : ∃ k, Occ h q k ∧ ∀ j, j < k → ¬ Occ h q j := by
      induction i using Nat.strongRecOn with
      | _ i ih =>
        by_cases hex : ∃ j, j < i ∧ Occ h q j
        · obtain ⟨j, hj, hoj⟩ := hex
          exact ih j hj hoj
        · exact ⟨i, ho, fun j hj hoj => hex ⟨j, hj, hoj⟩⟩
    obtain ⟨k, hk1, hk2⟩ := this
    have := (memmem_some h q k).mpr ⟨hk1, hk2⟩
    rw [hn] at this; cases this
  · intro hall
    cases hm : memmem h q with
    | none => rfl
    | some i => exact absurd ((memmem_some h q i).mp hm).1 (hall i)

/-! ## strsep -/

theorem strcspn_le (s delim : Bytes) : strcspn s delim ≤ (cstr s).length := by
  unfold strcspn; exact length_takeWhile_le' _ _

theorem strsep_buf (s delim : Bytes) : (strsep s delim).2 = s.set (strcspn s delim) 0 := rfl

/-- the token: the bytes of the string before its first delimiter, now NUL-terminated in place -/
theorem strsep_token (s delim : Bytes) (hterm : 0 ∈ s) :
    cstr (strsep s delim).2 = (cstr s).take (strcspn s delim) := by
  rw [strsep_buf]
  have hk := strcspn_le s delim
  have hc := cstr_length_le s
  have hterm' := cstr_terminated s hterm
  have hlt : (cstr s).length < s.length := by
    rcases Nat.lt_or_ge (cstr s).length s.length with h1 | h1
    · exact h1
    · rw [List.getElem?_eq_none h1] at hterm'; cases hterm'
  rw [List.set_eq_take_append_cons_drop, if_pos (by omega)]
  have htake : s.take (strcspn s delim) = (cstr s).take (strcspn s delim) := by
    rw [cstr_take s, List.take_take]
    congr 1
    exact (Nat.min_eq_left hk).symm
  rw [htake]
  apply cstr_append_nul
  intro b hb
  exact cstr_no_nul s b (List.mem_of_mem_take hb)

theorem strsep_token_no_delim (s delim : Bytes) :
    ∀ b ∈ (cstr s).take (strcspn s delim), ¬ b ∈ cstr delim := by
  intro b hb
  unfold strcspn at hb
  rw [← takeWhile_prefix] at hb
  have := mem_takeWhile _ _ b hb
  simpa using this

/-- `*stringp` afterwards: NULL iff the string had no delimiter; otherwise just past the first
    delimiter (which is a delimiter byte indeed) -/
theorem strsep_next (s delim : Bytes) (hterm : 0 ∈ s) :
    ((strsep s delim).1 = none ↔ strcspn s delim = (cstr s).length) ∧
    (strcspn s delim < (cstr s).length →
      (strsep s delim).1 = some (strcspn s delim + 1) ∧
      ∃ d, (cstr s)[strcspn s delim]? = some d ∧ d ∈ cstr delim) := by
  have hk := strcspn_le s delim
  have hterm' := cstr_terminated s hterm
  have hget : s[(cstr s).length]?.getD 0 = 0 := by simp [hterm']
  have hnz : ∀ i, i < (cstr s).length → s[i]?.getD 0 ≠ 0 := by
    intro i hi
    have h1 : s[i]? = (cstr s)[i]? := by
      rw [cstr_take s, List.getElem?_take]; simp [hi]
    have h2 : (cstr s)[i]? = some ((cstr s)[i]) := List.getElem?_eq_getElem hi
    simp only [h1, h2, Option.getD_some]
    exact cstr_no_nul s _ (List.getElem_mem hi)
  constructor
  · unfold strsep
    simp only
    constructor
    · intro h1
      rcases Nat.lt_or_ge (strcspn s delim) (cstr s).length with hl | hl
      · have := hnz _ hl; simp [this] at h1
      · omega
    · intro h1; rw [h1]; simp [hget]
  · intro hl
    refine ⟨?_, ?_⟩
    · unfold strsep; simp [hnz _ hl]
    · unfold strcspn at hl ⊢
      obtain ⟨a, ha1, ha2⟩ := takeWhile_next _ _ hl
      exact ⟨a, ha1, by simpa using ha2⟩

/-! ## mempbrk / memspn / memcspn -/

theorem mempbrk_some (d f : Bytes) (i : Nat) :
    mempbrk d f = some i ↔
      (∃ a, d[i]? = some a ∧ a ∈ f) ∧ ∀ j, j < i → ∀ b, d[j]? = some b → ¬ b ∈ f := by
  unfold mempbrk
  rw [findIdx?_some]
  simp

theorem mempbrk_none (d f : Bytes) : mempbrk d f = none ↔ ∀ a ∈ d, ¬ a ∈ f := by
  unfold mempbrk
  rw [findIdx?_none]
  simp

theorem memspn_spec (d a : Bytes) :
    memspn d a ≤ d.length ∧ (∀ b ∈ d.take (memspn d a), b ∈ a) ∧
    (memspn d a < d.length → ∃ c, d[memspn d a]? = some c ∧ ¬ c ∈ a) := by
  unfold memspn
  refine ⟨length_takeWhile_le' _ _, ?_, ?_⟩
  · intro b hb
    rw [← takeWhile_prefix] at hb
    simpa using mem_takeWhile _ _ b hb
  · intro hl
    obtain ⟨c, hc1, hc2⟩ := takeWhile_next _ _ hl
    exact ⟨c, hc1, by simpa using hc2⟩

theorem memcspn_spec (d r : Bytes) :
    memcspn d r ≤ d.length ∧ (∀ j, j < memcspn d r → ∀ b, d[j]? = some b → ¬ b ∈ r) ∧
    (memcspn d r < d.length → ∃ c, d[memcspn d r]? = some c ∧ c ∈ r) := by
  unfold memcspn
  cases h : mempbrk d r with
  | none =>
    simp only
    have hn := (mempbrk_none d r).mp h
    refine ⟨Nat.le_refl _, fun j _ b hb => hn b (List.mem_of_getElem? hb), fun hl => absurd hl (Nat.lt_irrefl _)⟩
  | some i =>
    simp only
    obtain ⟨⟨a, ha1, ha2⟩, hmin⟩ := (mempbrk_some d r i).mp h
    have hlt : i < d.length := by
      rcases Nat.lt_or_ge i d.length with hl | hl
      · exact hl
      · rw [List.getElem?_eq_none hl] at ha1; cases ha1
    exact ⟨by omega, hmin, fun _ => ⟨a, ha1, ha2⟩⟩

end UsualProofs.C14
