import Usual.C14.Bits
/-! `fls`/`ffs` loops, `safe_mul`, `reallocarray`. -/
namespace UsualProofs.C14
open Usual.C14

theorem log2_step (u : Nat) (h : u > 1) : Nat.log2 u = Nat.log2 (u / 2) + 1 := by
  rw [Nat.log2_def u]
  simp [show 2 ≤ u by omega]

theorem log2_small (u : Nat) (h : ¬ u > 1) : Nat.log2 u = 0 := by
  rw [Nat.log2_def u]
  simp [show ¬ 2 ≤ u by omega]

theorem flsLoop_eq (f u bit : Nat) (hf : Nat.log2 u ≤ f) : flsLoop f u bit = bit + Nat.log2 u := by
  induction f generalizing u bit with
  | zero =>
    have : Nat.log2 u = 0 := by omega
    simp [flsLoop, this]
  | succ f ih =>
    unfold flsLoop
    by_cases h : u > 1
    · simp only [h, if_pos]
      have hs := log2_step u h
      rw [ih (u / 2) (bit + 1) (by omega), hs]; omega
    · simp only [h, if_false]
      rw [log2_small u h]; rfl

/-- `fls x = ⌊log2 x⌋ + 1` for `0 < x < 2^w` -/
theorem fls_eq (w x : Nat) (h0 : 0 < x) (hw : x < 2 ^ w) : fls w x = Nat.log2 x + 1 := by
  unfold fls
  have hx : x ≠ 0 := by omega
  simp only [hx, if_false]
  have : Nat.log2 x < w := (Nat.log2_lt hx).mpr hw
  rw [flsLoop_eq w x 1 (by omega)]; omega

/-- invariant of the `ffs` loop: it strips `r - bit` factors of two and stops at an odd number -/
theorem ffsLoop_spec (f u bit : Nat) (h0 : 0 < u) (hf : u < 2 ^ f) :
    bit ≤ ffsLoop f u bit ∧ 2 ^ (ffsLoop f u bit - bit) ∣ u ∧ ¬ 2 ^ (ffsLoop f u bit - bit + 1) ∣ u := by
  induction f generalizing u bit with
  | zero => simp at hf; omega
  | succ f ih =>
    unfold ffsLoop
    by_cases h : u % 2 = 0
    · simp only [h, if_pos]
      obtain ⟨v, rfl⟩ : ∃ v, u = 2 * v := ⟨u / 2, by omega⟩
      have hv : 2 * v / 2 = v := by omega
      rw [hv]
      have hf' : v < 2 ^ f := by
        rw [Nat.pow_succ] at hf; omega
      obtain ⟨h1, h2, h3⟩ := ih v (bit + 1) (by omega) hf'
      refine ⟨by omega, ?_, ?_⟩
      · have : ffsLoop f v (bit + 1) - bit = (ffsLoop f v (bit + 1) - (bit + 1)) + 1 := by omega
        rw [this, Nat.pow_succ, Nat.mul_comm]
        exact Nat.mul_dvd_mul_left 2 h2
      · have : ffsLoop f v (bit + 1) - bit + 1 = (ffsLoop f v (bit + 1) - (bit + 1) + 1) + 1 := by omega
        rw [this, Nat.pow_succ, Nat.mul_comm]
        intro hd
        exact h3 ((Nat.mul_dvd_mul_iff_left (by omega)).mp hd)
    · simp only [h, if_false]
      refine ⟨Nat.le_refl _, by simp, ?_⟩
      simp only [Nat.sub_self, Nat.zero_add, Nat.pow_one]
      intro hd; exact h (Nat.mod_eq_zero_of_dvd hd)

/-- `ffs x = k` ⇒ bit `k-1` is the lowest set bit: `2^(k-1) ∣ x` and `2^k ∤ x` -/
theorem ffs_spec' (w x : Nat) (h0 : 0 < x) (hw : x < 2 ^ w) :
    1 ≤ ffs w x ∧ 2 ^ (ffs w x - 1) ∣ x ∧ ¬ 2 ^ (ffs w x) ∣ x := by
  unfold ffs
  have hx : x ≠ 0 := by omega
  simp only [hx, if_false]
  obtain ⟨h1, h2, h3⟩ := ffsLoop_spec w x 1 h0 hw
  refine ⟨h1, h2, ?_⟩
  have : ffsLoop w x 1 - 1 + 1 = ffsLoop w x 1 := by omega
  rw [this] at h3; exact h3

theorem safeMul_iff (w a b : Nat) (hw : w % 2 = 0) (ha : a < 2 ^ w) (hb : b < 2 ^ w) :
    safeMul w a b = (if a * b < 2 ^ w then some (a * b) else none) := by
  have hpos : 0 < 2 ^ w := Nat.two_pow_pos w
  have hsq : 2 ^ (w / 2) * 2 ^ (w / 2) = 2 ^ w := by
    rw [← Nat.pow_add]; congr 1; omega
  unfold safeMul
  simp only []
  split
  · next h =>
    have : a * b < 2 ^ w := by
      calc a * b < 2 ^ (w/2) * 2 ^ (w/2) := Nat.mul_lt_mul'' h.1 h.2
        _ = 2 ^ w := hsq
    simp [this, Nat.mod_eq_of_lt this]
  · split
    · next _ h =>
      have : a * b = 0 := by rcases h with h | h <;> simp [h]
      simp [this, hpos]
    · next _ h0 =>
      have ha0 : 0 < a := by omega
      split
      · next h =>
        have : a * b ≤ 2 ^ w - 1 := by
          have := (Nat.le_div_iff_mul_le ha0).mp h
          rw [Nat.mul_comm]; exact this
        have hlt : a * b < 2 ^ w := by omega
        simp [hlt, Nat.mod_eq_of_lt hlt]
      · next h =>
        have : ¬ a * b < 2 ^ w := by
          intro hlt
          apply h
          apply (Nat.le_div_iff_mul_le ha0).mpr
          rw [Nat.mul_comm]; omega
        simp [this]

end UsualProofs.C14
