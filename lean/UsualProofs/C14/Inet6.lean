import Usual.C14.Inet
/-! `inet_ntop6`: which run of zero words becomes `::` — decided over all 2^8 zero/non-zero
    shapes of the eight words (the scan only looks at `w = 0`). -/
namespace UsualProofs.C14
open Usual.C14

/-- only zero-ness of a word matters -/
def norm (w : Nat) : Nat := if w = 0 then 0 else 1

theorem runStep_norm (st : RunSt) (i w : Nat) : runStep st i (norm w) = runStep st i w := by
  unfold runStep norm
  by_cases h : w = 0 <;> simp [h]

theorem runScan_norm (st : RunSt) (i : Nat) (ws : List Nat) :
    runScan st i (ws.map norm) = runScan st i ws := by
  induction ws generalizing st i with
  | nil => rfl
  | cons w ws ih => simp only [List.map_cons, runScan, runStep_norm, ih]

theorem bestRun_norm (ws : List Nat) : bestRun (ws.map norm) = bestRun ws := by
  unfold bestRun; rw [runScan_norm]

/-- `[b, b+l)` is a run of zero words inside the 8 words (Bool, for the finite check) -/
def zr (ws : List Nat) (b l : Nat) : Bool :=
  decide (b + l ≤ 8) && (List.range l).all (fun k => ws.getD (b + k) 1 == 0)

theorem zr_norm (ws : List Nat) (b l : Nat) : zr (ws.map norm) b l = zr ws b l := by
  unfold zr
  congr 1
  apply List.all_congr rfl
  intro k
  have : (ws.map norm).getD (b + k) 1 = norm (ws.getD (b + k) 1) := by
    simp only [List.getD_eq_getElem?_getD, List.getElem?_map]
    cases ws[b + k]? <;> simp [norm]
  rw [this]; unfold norm
  generalize ws.getD (b + k) 1 = x
  by_cases h : x = 0 <;> simp [h]

/-- the finite statement: the chosen run is a zero run of length ≥ 2, no zero run is longer, and
    among the longest it is the leftmost; `none` only when no two adjacent words are zero -/
def specOK (ws : List Nat) : Bool :=
  match bestRun ws with
  | some (b, l) =>
    decide (2 ≤ l) && zr ws b l &&
      (List.range 8).all (fun b' => (List.range 9).all (fun l' =>
        !(zr ws b' l') || (decide (l' ≤ l) && (l' != l || decide (b ≤ b')))))
  | none => (List.range 8).all (fun b' => !(zr ws b' 2))

theorem specOK_norm (ws : List Nat) : specOK (ws.map norm) = specOK ws := by
  unfold specOK
  rw [bestRun_norm]
  simp only [zr_norm]

def nb (b : Bool) : Nat := if b then 0 else 1

theorem specOK_shapes : ∀ b0 b1 b2 b3 b4 b5 b6 b7 : Bool,
    specOK [nb b0, nb b1, nb b2, nb b3, nb b4, nb b5, nb b6, nb b7] = true := by
  decide +kernel

theorem specOK_all (ws : List Nat) (h8 : ws.length = 8) : specOK ws = true := by
  match ws, h8 with
  | [w0, w1, w2, w3, w4, w5, w6, w7], _ =>
    rw [← specOK_norm]
    have := specOK_shapes (w0 == 0) (w1 == 0) (w2 == 0) (w3 == 0) (w4 == 0) (w5 == 0) (w6 == 0) (w7 == 0)
    have e : ∀ w : Nat, nb (w == 0) = norm w := by
      intro w; unfold nb norm; by_cases h : w = 0 <;> simp [h]
    simp only [e] at this
    simpa using this

/-- `[b, b+l)` is a run of zero words (Prop) -/
def ZeroRun (ws : List Nat) (b l : Nat) : Prop :=
  b + l ≤ ws.length ∧ ∀ k, k < l → ws.getD (b + k) 1 = 0

theorem zr_iff (ws : List Nat) (h8 : ws.length = 8) (b l : Nat) : zr ws b l = true ↔ ZeroRun ws b l := by
  unfold zr ZeroRun
  simp [h8, List.all_eq_true]

theorem ntop6_run (ws : List Nat) (h8 : ws.length = 8) :
    match bestRun ws with
    | some (b, l) =>
      2 ≤ l ∧ ZeroRun ws b l ∧
      ∀ b' l', 0 < l' → ZeroRun ws b' l' → l' ≤ l ∧ (l' = l → b ≤ b')
    | none => ∀ b', ¬ ZeroRun ws b' 2 := by
  have hs := specOK_all ws h8
  unfold specOK at hs
  cases hb : bestRun ws with
  | none =>
    rw [hb] at hs
    simp only [List.all_eq_true, List.mem_range, Bool.not_eq_eq_eq_not, Bool.not_true] at hs
    intro b' hz
    have hb8 : b' < 8 := by have := hz.1; omega
    have := hs b' hb8
    rw [(zr_iff ws h8 b' 2).mpr hz] at this; cases this
  | some r =>
    obtain ⟨b, l⟩ := r
    rw [hb] at hs
    simp only [Bool.and_eq_true, decide_eq_true_eq, List.all_eq_true, List.mem_range,
      Bool.or_eq_true, Bool.not_eq_eq_eq_not, Bool.not_true, bne_iff_ne, ne_eq] at hs
    obtain ⟨⟨h2, hz⟩, hall⟩ := hs
    refine ⟨h2, (zr_iff ws h8 b l).mp hz, ?_⟩
    intro b' l' hl' hz'
    have hb8 : b' < 8 := by have := hz'.1; omega
    have hl9 : l' < 9 := by have := hz'.1; omega
    rcases hall b' hb8 l' hl9 with h | h
    · rw [(zr_iff ws h8 b' l').mpr hz'] at h; cases h
    · refine ⟨h.1, fun he => ?_⟩
      rcases h.2 with h3 | h3
      · exact absurd he h3
      · exact h3

/-! ## the text fits `tmp` -/

theorem hex4_len (w : Nat) : (hex4 w).length ≤ 4 := by
  unfold hex4; repeat' split
  all_goals simp

theorem dec3_len (b : Nat) : (dec3 b).length ≤ 3 := by
  unfold dec3; repeat' split
  all_goals simp

theorem joinHex_len (ws : List Nat) : (joinHex ws).length ≤ 5 * ws.length := by
  induction ws with
  | nil => simp [joinHex]
  | cons w ws ih =>
    cases ws with
    | nil => have := hex4_len w; simp [joinHex]; omega
    | cons v vs =>
      have := hex4_len w
      simp only [joinHex, List.length_append, List.length_cons, List.length_nil] at ih ⊢
      omega

theorem colonHex_len (ws : List Nat) : (colonHex ws).length ≤ 5 * ws.length := by
  induction ws with
  | nil => simp [colonHex]
  | cons w ws ih =>
    have := hex4_len w
    simp only [colonHex, List.flatMap_cons, List.length_append, List.length_cons] at ih ⊢
    omega

theorem ntop4Text_len (a : Bytes) : (ntop4Text a).length ≤ 15 := by
  unfold ntop4Text
  have h0 := dec3_len (a.getD 0 0)
  have h1 := dec3_len (a.getD 1 0)
  have h2 := dec3_len (a.getD 2 0)
  have h3 := dec3_len (a.getD 3 0)
  simp only [List.length_append, List.length_cons, List.length_nil]
  omega

/-- the text built by `inet_ntop6` always fits its 46-byte `tmp` buffer (the `return NULL`
    paths without errno are unreachable) -/
theorem ntop6Text_len (a : Bytes) : (ntop6Text a).length ≤ 45 := by
  unfold ntop6Text
  simp only
  have h8 : (words6 a).length = 8 := by simp [words6]
  cases hb : bestRun (words6 a) with
  | none =>
    simp only
    have := joinHex_len (words6 a); omega
  | some r =>
    obtain ⟨b, l⟩ := r
    simp only
    split
    · have := ntop4Text_len (a.drop 12)
      have h4 := hex4_len 0xffff
      simp only [List.length_append, List.length_cons, List.length_nil]
      split <;> simp <;> omega
    · have h1 := joinHex_len ((words6 a).take b)
      have h2 := colonHex_len ((words6 a).drop (b + l))
      have h3 : ((words6 a).take b).length ≤ b := by simp; omega
      have h4 : ((words6 a).drop (b + l)).length = 8 - (b + l) := by simp [h8]
      have h5 : ((words6 a).take b).length ≤ 8 := by simp [h8]; omega
      simp only [List.length_append, List.length_cons, List.length_nil]
      split <;> simp <;> omega

end UsualProofs.C14
