import Usual.C08.TlsName
import Usual.C08.Spec
/-! Helper lemmas for C08: `matchName` is exactly `NameCovers`. -/
namespace UsualProofs.C08
open Usual.C08

theorem eqi_iff (a b : Str) : eqi a b = true ↔ a.map lower = b.map lower := by
  simp [eqi]

theorem eqi_length {a b : Str} (h : eqi a b = true) : a.length = b.length := by
  have := congrArg List.length ((eqi_iff a b).1 h)
  simpa using this

theorem star_ne_dot_lower : lower STAR ≠ lower DOT := by decide

/-- splitting at the first dot -/
theorem fromDot_spec : ∀ (s dom : Str), fromDot s = some dom →
    ∃ lbl, s = lbl ++ dom ∧ DOT ∉ lbl ∧ dom.head? = some DOT
  | [], dom, h => by simp [fromDot] at h
  | c :: cs, dom, h => by
    unfold fromDot at h
    split at h
    · next hc => cases h; exact ⟨[], by simp, by simp, by simp [hc]⟩
    · next hc =>
      obtain ⟨lbl, e1, e2, e3⟩ := fromDot_spec cs dom h
      refine ⟨c :: lbl, by simp [e1], ?_, e3⟩
      intro hm; rcases List.mem_cons.mp hm with h1 | h1
      · exact hc h1.symm
      · exact e2 h1

theorem fromDot_split : ∀ (lbl dom : Str), DOT ∉ lbl → dom.head? = some DOT →
    fromDot (lbl ++ dom) = some dom
  | [], dom, _, h => by
    cases dom with
    | nil => simp at h
    | cons d ds => simp at h; simp [fromDot, h]
  | c :: cs, dom, h1, h2 => by
    have hc : c ≠ DOT := by intro e; apply h1; simp [e]
    have hcs : DOT ∉ cs := by intro e; apply h1; simp [e]
    simp [fromDot, hc, fromDot_split cs dom hcs h2]

/-- every string starts with a (possibly empty) dot-free prefix followed by nothing or a dot -/
theorem split_prefix : ∀ (s : Str), ∃ l rest, s = l ++ rest ∧ DOT ∉ l ∧
    (rest = [] ∨ rest.head? = some DOT)
  | [] => ⟨[], [], by simp, by simp, Or.inl rfl⟩
  | c :: cs => by
    by_cases hc : c = DOT
    · exact ⟨[], c :: cs, by simp, by simp, Or.inr (by simp [hc])⟩
    · obtain ⟨l, rest, e1, e2, e3⟩ := split_prefix cs
      refine ⟨c :: l, rest, by simp [e1], ?_, e3⟩
      intro hm; rcases List.mem_cons.mp hm with h1 | h1
      · exact hc h1.symm
      · exact e2 h1

theorem split_label (s : Str) (h1 : s ≠ []) (h2 : s.head? ≠ some DOT) :
    ∃ l rest, s = l ++ rest ∧ IsLabel l ∧ (rest = [] ∨ rest.head? = some DOT) := by
  obtain ⟨l, rest, e1, e2, e3⟩ := split_prefix s
  refine ⟨l, rest, e1, ⟨?_, e2⟩, e3⟩
  intro hl; subst hl
  simp only [List.nil_append] at e1; subst e1
  rcases e3 with e3 | e3
  · exact h1 e3
  · exact h2 e3

theorem label_head {l : Str} (h : IsLabel l) (t : Str) : (l ++ t).head? ≠ some DOT := by
  obtain ⟨h1, h2⟩ := h
  cases l with
  | nil => exact absurd rfl h1
  | cons x xs =>
    simp only [List.cons_append, List.head?_cons, ne_eq, Option.some.injEq]
    intro e; apply h2; simp [e]

/-- SOUNDNESS of `tls_match_name` -/
theorem matchName_sound (cert name : Str) (h : matchName cert name = true) :
    NameCovers cert name := by
  unfold matchName at h
  by_cases he : eqi cert name = true
  · exact Or.inl he
  · right
    rw [if_neg he] at h
    cases cert with
    | nil => simp at h
    | cons c0 cd =>
      simp only at h
      by_cases hstar : c0 = STAR
      · subst hstar
        simp only [ne_eq, not_true_eq_false, ↓reduceIte] at h
        cases cd with
        | nil => simp at h
        | cons d0 cd1 =>
          simp only at h
          by_cases hd0 : d0 = DOT
          · subst hd0
            simp only [not_true_eq_false, ↓reduceIte] at h
            by_cases h2 : cd1.head? = some DOT
            · simp [h2] at h
            · rw [if_neg h2] at h
              cases hnd : fromDot cd1 with
              | none => simp [hnd] at h
              | some nd =>
                simp only [hnd] at h
                by_cases h3 : nd.tail.head? = some DOT ∨ nd.tail = []
                · rw [if_pos h3] at h; exact absurd h (by simp)
                · rw [if_neg h3] at h
                  by_cases hhost : name.head? = some DOT
                  · simp [hhost] at h
                  · rw [if_neg hhost] at h
                    cases hdom : fromDot name with
                    | none => simp [hdom] at h
                    | some dom =>
                      simp only [hdom] at h
                      by_cases hlen : dom.length = 1
                      · simp [hlen] at h
                      · rw [if_neg hlen] at h
                        obtain ⟨lbl, e1, e2, e3⟩ := fromDot_spec name dom hdom
                        obtain ⟨l1, f1, f2, f3⟩ := fromDot_spec cd1 nd hnd
                        have h3a : nd.tail.head? ≠ some DOT := fun e => h3 (Or.inl e)
                        have h3b : nd.tail ≠ [] := fun e => h3 (Or.inr e)
                        obtain ⟨l2, rest, g1, g2, g3⟩ := split_label nd.tail h3b h3a
                        have hnd' : nd = DOT :: nd.tail := by
                          cases nd with
                          | nil => simp at f3
                          | cons x xs => simp at f3; simp [f3]
                        refine ⟨⟨l1, l2, rest, ?_, ⟨?_, f2⟩, g2, g3⟩, lbl, dom, e1, ⟨?_, e2⟩, e3, h⟩
                        · rw [f1, hnd', g1]; simp
                        · intro hl; subst hl
                          simp only [List.nil_append] at f1; subst f1
                          exact h2 f3
                        · intro hl; subst hl
                          simp only [List.nil_append] at e1; subst e1
                          exact hhost e3
          · simp [hd0] at h
      · simp [hstar] at h

/-- COMPLETENESS of `tls_match_name` -/
theorem matchName_complete (cert name : Str) (h : NameCovers cert name) :
    matchName cert name = true := by
  unfold matchName
  by_cases he : eqi cert name = true
  · simp [he]
  · rcases h with h | ⟨⟨l1, l2, rest, hc, hl1, hl2, _⟩, lbl, dom, hn, hlbl, hdom, heq⟩
    · exact absurd h he
    · rw [if_neg he]
      subst hc
      have hcd1 : ([STAR, DOT] ++ l1 ++ [DOT] ++ l2 ++ rest : Str)
          = STAR :: DOT :: (l1 ++ DOT :: (l2 ++ rest)) := by simp
      rw [hcd1] at heq ⊢
      simp only [List.tail_cons] at heq
      have a1 : (l1 ++ DOT :: (l2 ++ rest)).head? ≠ some DOT := label_head hl1 _
      have a2 : fromDot (l1 ++ DOT :: (l2 ++ rest)) = some (DOT :: (l2 ++ rest)) :=
        fromDot_split l1 _ hl1.2 (by simp)
      have a3 : (l2 ++ rest).head? ≠ some DOT := label_head hl2 _
      have a4 : l2 ++ rest ≠ [] := by
        intro e; exact hl2.1 (List.append_eq_nil_iff.mp e).1
      have a5 : name.head? ≠ some DOT := by rw [hn]; exact label_head hlbl _
      have a6 : fromDot name = some dom := by rw [hn]; exact fromDot_split lbl dom hlbl.2 hdom
      have a7 : dom.length ≠ 1 := by
        have := eqi_length heq
        simp only [List.length_cons, List.length_append] at this
        have : 0 < l1.length := List.length_pos_iff.mpr hl1.1
        omega
      simp only [ne_eq, not_true_eq_false, ↓reduceIte, a1, a2, List.tail_cons, a3, a4, or_self,
        a5, a6, a7, heq]

theorem matchName_iff (cert name : Str) : matchName cert name = true ↔ NameCovers cert name :=
  ⟨matchName_sound cert name, matchName_complete cert name⟩

end UsualProofs.C08
