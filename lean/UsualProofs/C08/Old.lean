import Usual.C08.TlsName
/-!
The behaviour of the *unchanged* code at the two places repaired by F17 / F18, kept only to
state (in `Props/C08.lean`) that it violates the property on a concrete input.
-/
namespace UsualProofs.C08
open Usual.C08

/-- `tls_match_name` before F17: the test after `next_dot` is only `next_dot[1] == '.'` -/
def matchNameOld (cert name : Str) : Bool :=
  if eqi cert name then true
  else match cert with
    | [] => false
    | c0 :: cd =>
      if c0 ≠ STAR then false
      else match cd with
        | [] => false
        | d0 :: cd1 =>
          if d0 ≠ DOT then false
          else if cd1.head? = some DOT then false
          else match fromDot cd1 with
            | none => false
            | some nd =>
              if nd.tail.head? = some DOT then false          -- "*.bar." slips through
              else if name.head? = some DOT then false
              else match fromDot name with
                | none => false
                | some dom => if dom.length = 1 then false else eqi cd dom

/-- `tls_handshake_client` before F18: the value of `tls_check_name` is returned as is -/
def handshakeRcOld (r : Res) : Int := r.rc

/-- `TLS_WANT_POLLIN` of usual/tls/tls.h -/
def TLS_WANT_POLLIN : Int := -2

end UsualProofs.C08
