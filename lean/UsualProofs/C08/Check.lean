import UsualProofs.C08.Match
/-! Helper lemmas for C08: the scan over subjectAltName entries and the CN fallback. -/
namespace UsualProofs.C08
open Usual.C08

/-- an entry the DNS-mode scan steps over: not a dNSName, or a clean dNSName that does not match -/
def Skipped (name : Str) (e : SanEntry) : Prop :=
  ∀ d, e = .dns d → NUL ∉ d ∧ d ≠ [SPACE] ∧ matchName d name = false

theorem scanSAN_dns_cons_skip (name : Str) (e : SanEntry) (rest : List SanEntry)
    (h : Skipped name e) : scanSAN none name (e :: rest) = scanSAN none name rest := by
  cases e with
  | dns d =>
    obtain ⟨h1, h2, h3⟩ := h d rfl
    simp [scanSAN, h1, h2, h3]
  | ip d => simp [scanSAN]
  | other d => simp [scanSAN]

/-- entries before the first hit do not matter -/
theorem scanSAN_dns_prefix (name : Str) : ∀ (pre rest : List SanEntry),
    (∀ e ∈ pre, Skipped name e) → scanSAN none name (pre ++ rest) = scanSAN none name rest
  | [], _, _ => rfl
  | e :: pre, rest, h => by
    rw [List.cons_append, scanSAN_dns_cons_skip name e _ (h e (by simp))]
    exact scanSAN_dns_prefix name pre rest (fun e' he' => h e' (by simp [he']))

theorem scanSAN_dns_hit_nul (name d : Str) (rest : List SanEntry) (h : NUL ∈ d) :
    scanSAN none name (.dns d :: rest) = .errNulSan := by
  simp [scanSAN, h]

theorem scanSAN_dns_hit_space (name : Str) (rest : List SanEntry) :
    scanSAN none name (.dns [SPACE] :: rest) = .errSpace := by
  have : NUL ∉ [SPACE] := by decide
  simp [scanSAN, this]

theorem scanSAN_dns_hit_match (name d : Str) (rest : List SanEntry) (h1 : NUL ∉ d)
    (h2 : d ≠ [SPACE]) (h3 : matchName d name = true) :
    scanSAN none name (.dns d :: rest) = .ok := by
  simp [scanSAN, h1, h2, h3]

/-- DNS mode: a match comes from a clean dNSName that matches -/
theorem scanSAN_dns_ok (name : Str) : ∀ (sans : List SanEntry), scanSAN none name sans = .ok →
    ∃ d, SanEntry.dns d ∈ sans ∧ NUL ∉ d ∧ d ≠ [SPACE] ∧ matchName d name = true
  | [], h => by simp [scanSAN] at h
  | e :: rest, h => by
    cases e with
    | dns d =>
      by_cases h1 : NUL ∈ d
      · simp [scanSAN, h1] at h
      · by_cases h2 : d = [SPACE]
        · subst h2; rw [scanSAN_dns_hit_space] at h; cases h
        · by_cases h3 : matchName d name = true
          · exact ⟨d, by simp, h1, h2, h3⟩
          · simp [scanSAN, h1, h2, h3] at h
            obtain ⟨d', m, r⟩ := scanSAN_dns_ok name rest h
            exact ⟨d', by simp [m], r⟩
    | ip d =>
      simp [scanSAN] at h
      obtain ⟨d', m, r⟩ := scanSAN_dns_ok name rest h
      exact ⟨d', by simp [m], r⟩
    | other d =>
      simp [scanSAN] at h
      obtain ⟨d', m, r⟩ := scanSAN_dns_ok name rest h
      exact ⟨d', by simp [m], r⟩

/-- DNS mode: "no match" means every dNSName was clean and did not match -/
theorem scanSAN_dns_noMatch (name : Str) : ∀ (sans : List SanEntry),
    scanSAN none name sans = .noMatch ↔ ∀ e ∈ sans, Skipped name e
  | [] => by simp [scanSAN]
  | e :: rest => by
    constructor
    · intro h
      have hs : Skipped name e := by
        intro d hd; subst hd
        by_cases h1 : NUL ∈ d
        · simp [scanSAN, h1] at h
        · by_cases h2 : d = [SPACE]
          · subst h2; rw [scanSAN_dns_hit_space] at h; cases h
          · by_cases h3 : matchName d name = true
            · simp [scanSAN, h1, h2, h3] at h
            · exact ⟨h1, h2, by simpa using h3⟩
      rw [scanSAN_dns_cons_skip name e rest hs] at h
      intro e' he'
      rcases List.mem_cons.mp he' with r | r
      · subst r; exact hs
      · exact (scanSAN_dns_noMatch name rest).1 h e' r
    · intro h
      rw [scanSAN_dns_cons_skip name e rest (h e (by simp))]
      exact (scanSAN_dns_noMatch name rest).2 (fun e' he' => h e' (by simp [he']))

/-- IP mode: only an identical iPAddress entry matches; never an error -/
theorem scanSAN_ip (addr name : Str) : ∀ (sans : List SanEntry),
    scanSAN (some addr) name sans = if SanEntry.ip addr ∈ sans then .ok else .noMatch
  | [] => by simp [scanSAN]
  | e :: rest => by
    cases e with
    | dns d => simp [scanSAN, scanSAN_ip addr name rest]
    | other d => simp [scanSAN, scanSAN_ip addr name rest]
    | ip d =>
      by_cases h : d = addr
      · simp [scanSAN, h]
      · have h' : ¬ addr = d := fun e => h e.symm
        simp [scanSAN, h, h', scanSAN_ip addr name rest]

/-- the CN fallback, DNS mode -/
theorem checkCN_dns (name : Str) (cns : List Str) :
    checkCN none name cns = .ok ↔ ∃ cn, cns.head? = some cn ∧ NUL ∉ cn ∧ matchName cn name = true := by
  cases cns with
  | nil => simp [checkCN]
  | cons cn t =>
    by_cases h1 : NUL ∈ cn
    · simp [checkCN, h1]
    · by_cases h3 : matchName cn name = true
      · simp [checkCN, h1, h3]
      · simp [checkCN, h1, h3]

/-- the CN fallback, IP mode: byte-identical only -/
theorem checkCN_ip (addr name : Str) (cns : List Str) :
    checkCN (some addr) name cns = .ok ↔ (cns.head? = some name ∧ NUL ∉ name) := by
  cases cns with
  | nil => simp [checkCN]
  | cons cn t =>
    by_cases h1 : NUL ∈ cn
    · simp only [checkCN, h1, ↓reduceIte, List.head?_cons, Option.some.injEq]
      constructor
      · intro h; cases h
      · rintro ⟨rfl, h⟩; exact absurd h1 h
    · by_cases h3 : cn = name
      · subst h3; simp [checkCN, h1]
      · simp [checkCN, h1, h3]

theorem checkCN_nul (ip : Option Str) (name cn : Str) (t : List Str) (h : NUL ∈ cn) :
    checkCN ip name (cn :: t) = .errNulCN := by
  simp [checkCN, h]

/-- DNS mode, clean prefix: the scan reaches the entry after the prefix unless it already matched -/
theorem scanSAN_dns_clean_prefix (name : Str) : ∀ (pre rest : List SanEntry),
    (∀ d, SanEntry.dns d ∈ pre → ¬ MaliciousDns d) →
    scanSAN none name (pre ++ rest) = .ok ∨
    scanSAN none name (pre ++ rest) = scanSAN none name rest
  | [], _, _ => Or.inr rfl
  | e :: pre, rest, h => by
    have ih := scanSAN_dns_clean_prefix name pre rest (fun d hd => h d (by simp [hd]))
    cases e with
    | ip d => simpa [scanSAN] using ih
    | other d => simpa [scanSAN] using ih
    | dns d =>
      have hc := h d (by simp)
      have h1 : NUL ∉ d := fun e => hc (Or.inl e)
      have h2 : d ≠ [SPACE] := fun e => hc (Or.inr e)
      by_cases h3 : matchName d name = true
      · left; simp [scanSAN, h1, h2, h3]
      · simpa [scanSAN, h1, h2, h3] using ih

/-- DNS mode without malicious entries: never an error -/
theorem scanSAN_dns_clean (name : Str) (sans : List SanEntry) (h : CleanSans sans) :
    scanSAN none name sans = .ok ∨ scanSAN none name sans = .noMatch := by
  have := scanSAN_dns_clean_prefix name sans [] h
  simpa [scanSAN] using this

end UsualProofs.C08
