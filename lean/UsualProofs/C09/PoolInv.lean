import UsualProofs.C09.PoolBasic
/-! Invariant of the cx pool (model `Usual.C09.Pool`) and its preservation by every operation.
    Histories are sequences of `cx_alloc` / `cx_realloc` / `cx_free` calls issued by a client
    that only passes pointers of blocks it currently holds (`live`). -/
namespace UsualProofs.C09
open Usual.C09

/-- a block the client holds: address and the length it asked for -/
structure Block where
  ptr : Nat
  len : Nat
deriving DecidableEq, Repr, Inhabited

/-- a segment is well formed: header, then the window `start ≤ pos ≤ stop`, all inside the
    parent region; the window starts aligned (or is empty because the area was too small) -/
def SegOk (align : Nat) (s : Seg) : Prop :=
  s.base < s.hdrEnd ∧ s.hdrEnd ≤ s.start ∧ s.start ≤ s.pos ∧ s.pos ≤ s.stop ∧
  s.stop ≤ s.base + s.size ∧
  (s.start = s.cstart align ∨ s.start = s.stop) ∧ (s.pos % align = 0 ∨ s.start = s.stop)

/-- parent regions of two segments do not overlap -/
def regDisj (a b : Seg) : Prop := a.base + a.size ≤ b.base ∨ b.base + b.size ≤ a.base

/-- block lies in the used part of a segment -/
def InSeg (s : Seg) (b : Block) : Prop := s.start ≤ b.ptr ∧ b.ptr + b.len ≤ s.pos

def blkDisj (a b : Block) : Prop := a.ptr + a.len ≤ b.ptr ∨ b.ptr + b.len ≤ a.ptr

structure Inv (p : Pool) (live : List Block) : Prop where
  align_pos : 0 < p.align
  align_lt : p.align < 2 ^ 32          -- `unsigned int align`
  seg_ok : ∀ s ∈ p.segs, SegOk p.align s
  seg_disj : p.segs.Pairwise regDisj
  blk_pos : ∀ b ∈ live, 0 < b.len
  blk_al : ∀ b ∈ live, b.ptr % p.align = 0
  blk_in : ∀ b ∈ live, ∃ s ∈ p.segs, InSeg s b
  blk_disj : live.Pairwise blkDisj
  last_ok : ∀ q, p.lastPtr = some q → ∃ s rest, p.segs = s :: rest ∧ s.start ≤ q ∧ q ≤ s.pos ∧
      q % p.align = 0 ∧ ∀ b ∈ live, b.ptr = q ∨ b.ptr + b.len ≤ q ∨ s.stop ≤ b.ptr

/-- the parent's answer to a request of `req` bytes is a region that does not overlap any
    region the pool already holds (what any correct parent allocator guarantees) -/
def ParentOk (p : Pool) (req : Nat) (pa : Option Nat) : Prop :=
  ∀ a, pa = some a → ∀ s ∈ p.segs, a + req ≤ s.base ∨ s.base + s.size ≤ a

/-! ### removing blocks keeps the invariant -/

theorem Inv.sublist {p : Pool} {live live' : List Block} (h : Inv p live)
    (hs : live'.Sublist live) : Inv p live' where
  align_pos := h.align_pos
  align_lt := h.align_lt
  seg_ok := h.seg_ok
  seg_disj := h.seg_disj
  blk_pos := fun b hb => h.blk_pos b (hs.subset hb)
  blk_al := fun b hb => h.blk_al b (hs.subset hb)
  blk_in := fun b hb => h.blk_in b (hs.subset hb)
  blk_disj := h.blk_disj.sublist hs
  last_ok := by
    intro q hq
    obtain ⟨s, rest, h1, h2, h3, h4, h5⟩ := h.last_ok q hq
    exact ⟨s, rest, h1, h2, h3, h4, fun b hb => h5 b (hs.subset hb)⟩

theorem Inv.filter {p : Pool} {live : List Block} (h : Inv p live) (f : Block → Bool) :
    Inv p (live.filter f) := h.sublist List.filter_sublist

/-! ### facts about blocks and segments -/

theorem block_in_region {align : Nat} {s : Seg} {b : Block} (hs : SegOk align s) (hb : InSeg s b) :
    s.base < b.ptr ∧ b.ptr + b.len ≤ s.base + s.size := by
  obtain ⟨h1, h2, h3, h4, h5, _, _⟩ := hs
  obtain ⟨h6, h7⟩ := hb
  omega

/-! ### new_seg -/

theorem newSeg_ok (p : Pool) (nsize a : Nat) (ha : 0 < p.align) :
    SegOk p.align (newSeg p nsize a) ∧ (newSeg p nsize a).start + nsize < (newSeg p nsize a).stop := by
  have h1 := alignUp_ge (x := a + poolHdr) ha
  have h2 := alignUp_lt (x := a + poolHdr) ha
  have h3 := alignUp_mod (x := a + poolHdr) ha
  refine ⟨⟨?_, ?_, ?_, ?_, ?_, ?_, ?_⟩, ?_⟩
  · simp only [newSeg, poolHdr]; omega
  · simp only [newSeg]; exact h1
  · simp only [newSeg]; omega
  · simp only [newSeg, segAlloc, poolHdr] at *; omega
  · simp only [newSeg]; omega
  · left; rfl
  · left; exact h3
  · simp only [newSeg, segAlloc, poolHdr] at *; omega

theorem clamp512_ge (n0 : Nat) : 512 ≤ (if n0 < 512 then 512 else n0) := by split <;> omega

theorem segSizeStart_ge (p : Pool) : 512 ≤ segSizeStart p := by
  unfold segSizeStart
  exact clamp512_ge _

theorem nextSegSize_ge_512 (p : Pool) (sz : Nat) : 512 ≤ nextSegSize p sz :=
  Nat.le_trans (segSizeStart_ge p) (growTo_ge_start _ _ _)

/-- the segment size chosen by `pool_alloc` is at least the aligned request -/
theorem nextSegSize_ge (p : Pool) (sz : Nat) (hsz : sz < 2 ^ 63) : sz ≤ nextSegSize p sz := by
  unfold nextSegSize
  apply growTo_ge
  have hle := segSizeStart_ge p
  have h1 : 1 * 2 ^ 64 ≤ segSizeStart p * 2 ^ 64 := Nat.mul_le_mul_right _ (by omega)
  omega

theorem alignUp_lt_two_pow (size a : Nat) (ha : 0 < a) (ha32 : a ≤ 2 ^ 32) (hs : size ≤ poolMaxSize) :
    alignUp size a < 2 ^ 63 := by
  have := alignUp_lt (x := size) ha
  have : poolMaxSize < 2 ^ 62 := by unfold poolMaxSize; omega
  omega

end UsualProofs.C09

namespace UsualProofs.C09
open Usual.C09

/-! ### pool_alloc, first branch: the request fits into the current segment -/

theorem alloc_fits_inv {align : Nat} {s : Seg} {rest : List Seg} {lp : Option Nat} {af : Bool}
    {live : List Block} {sz l : Nat}
    (h : Inv { align := align, segs := s :: rest, lastPtr := lp, allowFree := af } live)
    (hfit : s.pos + sz ≤ s.stop) (hsz : sz % align = 0) (hl : 0 < l) (hls : l ≤ sz) :
    Inv { align := align, segs := { s with pos := s.pos + sz } :: rest, lastPtr := some s.pos,
          allowFree := af } (⟨s.pos, l⟩ :: live) := by
  have hs : SegOk align s := h.seg_ok s (List.mem_cons_self ..)
  obtain ⟨g1, g2, g3, g4, g5, g6, g7⟩ := hs
  have hposal : s.pos % align = 0 := by
    rcases g7 with g | g
    · exact g
    · omega
  have hdisj := List.pairwise_cons.mp h.seg_disj
  constructor
  · exact h.align_pos
  · exact h.align_lt
  · intro t ht
    rcases List.mem_cons.mp ht with rfl | ht'
    · refine ⟨g1, g2, by simp only []; omega, by simp only []; omega, g5, g6, ?_⟩
      left; simp only []; rw [Nat.add_mod, hposal, hsz]; simp
    · exact h.seg_ok t (List.mem_cons_of_mem _ ht')
  · apply List.pairwise_cons.mpr
    exact ⟨fun t ht => hdisj.1 t ht, hdisj.2⟩
  · intro b hb
    rcases List.mem_cons.mp hb with rfl | hb'
    · exact hl
    · exact h.blk_pos b hb'
  · intro b hb
    rcases List.mem_cons.mp hb with rfl | hb'
    · exact hposal
    · exact h.blk_al b hb'
  · intro b hb
    rcases List.mem_cons.mp hb with rfl | hb'
    · exact ⟨_, List.mem_cons_self .., by simp only [InSeg]; omega⟩
    · obtain ⟨t, ht, hin⟩ := h.blk_in b hb'
      rcases List.mem_cons.mp ht with rfl | ht'
      · exact ⟨_, List.mem_cons_self .., by simp only [InSeg] at *; omega⟩
      · exact ⟨t, List.mem_cons_of_mem _ ht', hin⟩
  · apply List.pairwise_cons.mpr
    refine ⟨?_, h.blk_disj⟩
    intro b hb
    obtain ⟨t, ht, hin⟩ := h.blk_in b hb
    rcases List.mem_cons.mp ht with rfl | ht'
    · simp only [InSeg, blkDisj] at *; omega
    · have hreg := block_in_region (h.seg_ok t (List.mem_cons_of_mem _ ht')) hin
      have := hdisj.1 t ht'
      simp only [regDisj, blkDisj] at *
      omega
  · intro q hq
    simp only [Option.some.injEq] at hq
    subst hq
    refine ⟨_, rest, rfl, by simp only []; omega, by simp only []; omega, hposal, ?_⟩
    intro b hb
    rcases List.mem_cons.mp hb with rfl | hb'
    · left; rfl
    · obtain ⟨t, ht, hin⟩ := h.blk_in b hb'
      rcases List.mem_cons.mp ht with rfl | ht'
      · right; left; simp only [InSeg] at hin; omega
      · have hreg := block_in_region (h.seg_ok t (List.mem_cons_of_mem _ ht')) hin
        have := hdisj.1 t ht'
        simp only [regDisj] at *
        omega

end UsualProofs.C09

namespace UsualProofs.C09
open Usual.C09

/-! ### pool_alloc, second branch: a new segment is obtained from the parent -/

theorem alloc_newseg_inv {p : Pool} {live : List Block} {nsize a sz l : Nat}
    (h : Inv p live) (hfresh : ∀ s ∈ p.segs, a + segAlloc p nsize ≤ s.base ∨ s.base + s.size ≤ a)
    (hn : sz ≤ nsize) (hsz : sz % p.align = 0) (hl : 0 < l) (hls : l ≤ sz) :
    Inv { p with segs := { newSeg p nsize a with pos := (newSeg p nsize a).pos + sz } :: p.segs,
                 lastPtr := some (newSeg p nsize a).pos } (⟨(newSeg p nsize a).pos, l⟩ :: live) := by
  obtain ⟨hok, hroom⟩ := newSeg_ok p nsize a h.align_pos
  generalize hnd : newSeg p nsize a = n at *
  have hnb : n.base = a := by rw [← hnd]; rfl
  have hns : n.size = segAlloc p nsize := by rw [← hnd]; rfl
  have hnp : n.pos = n.start := by rw [← hnd]; rfl
  obtain ⟨g1, g2, g3, g4, g5, g6, g7⟩ := hok
  have hposal : n.pos % p.align = 0 := by
    rcases g7 with g | g
    · exact g
    · omega
  have hregn : ∀ t ∈ p.segs, regDisj n t := by
    intro t ht
    have := hfresh t ht
    simp only [regDisj]; omega
  constructor
  · exact h.align_pos
  · exact h.align_lt
  · intro t ht
    rcases List.mem_cons.mp ht with rfl | ht'
    · refine ⟨g1, g2, by simp only []; omega, by simp only []; omega, g5, g6, ?_⟩
      left; simp only []; rw [Nat.add_mod, hposal, hsz]; simp
    · exact h.seg_ok t ht'
  · apply List.pairwise_cons.mpr
    exact ⟨fun t ht => hregn t ht, h.seg_disj⟩
  · intro b hb
    rcases List.mem_cons.mp hb with rfl | hb'
    · exact hl
    · exact h.blk_pos b hb'
  · intro b hb
    rcases List.mem_cons.mp hb with rfl | hb'
    · exact hposal
    · exact h.blk_al b hb'
  · intro b hb
    rcases List.mem_cons.mp hb with rfl | hb'
    · exact ⟨_, List.mem_cons_self .., by simp only [InSeg]; omega⟩
    · obtain ⟨t, ht, hin⟩ := h.blk_in b hb'
      exact ⟨t, List.mem_cons_of_mem _ ht, hin⟩
  · apply List.pairwise_cons.mpr
    refine ⟨?_, h.blk_disj⟩
    intro b hb
    obtain ⟨t, ht, hin⟩ := h.blk_in b hb
    have hreg := block_in_region (h.seg_ok t ht) hin
    have := hregn t ht
    simp only [regDisj, blkDisj] at *
    omega
  · intro q hq
    simp only [Option.some.injEq] at hq
    subst hq
    refine ⟨_, p.segs, rfl, by simp only []; omega, by simp only []; omega, hposal, ?_⟩
    intro b hb
    rcases List.mem_cons.mp hb with rfl | hb'
    · left; rfl
    · obtain ⟨t, ht, hin⟩ := h.blk_in b hb'
      have hreg := block_in_region (h.seg_ok t ht) hin
      have := hregn t ht
      simp only [regDisj] at *
      omega

end UsualProofs.C09

namespace UsualProofs.C09
open Usual.C09

/-! ### pool_alloc -/

theorem alloc_cases {p p' : Pool} {size q : Nat} {pa : Option Nat}
    (hr : alloc p size pa = some (p', q)) :
    size ≤ poolMaxSize ∧
    ((∃ s rest, p.segs = s :: rest ∧ s.pos + alignUp size p.align ≤ s.stop ∧
        (p', q) = allocFit p s rest (alignUp size p.align)) ∨
     (∃ a, pa = some a ∧ fits p (alignUp size p.align) = false ∧
        (p', q) = allocNew p (alignUp size p.align) a)) := by
  unfold alloc at hr
  by_cases hmax : size > poolMaxSize
  · simp [hmax] at hr
  · simp only [hmax, if_false] at hr
    refine ⟨Nat.le_of_not_gt hmax, ?_⟩
    cases hsegs : p.segs with
    | nil =>
      simp only [hsegs] at hr
      cases pa with
      | none => simp at hr
      | some a =>
        simp only [Option.map_some, Option.some.injEq] at hr
        exact Or.inr ⟨a, rfl, by simp [fits, hsegs], hr.symm⟩
    | cons s rest =>
      simp only [hsegs] at hr
      by_cases hfit : s.pos + alignUp size p.align ≤ s.stop
      · simp only [hfit, if_true, Option.some.injEq] at hr
        exact Or.inl ⟨s, rest, rfl, hfit, hr.symm⟩
      · simp only [hfit, if_false] at hr
        cases pa with
        | none => simp at hr
        | some a =>
          simp only [Option.map_some, Option.some.injEq] at hr
          exact Or.inr ⟨a, rfl, by simp [fits, hsegs, hfit], hr.symm⟩

theorem alloc_align {p p' : Pool} {size q : Nat} {pa : Option Nat}
    (hr : alloc p size pa = some (p', q)) : p'.align = p.align ∧ p'.allowFree = p.allowFree := by
  obtain ⟨_, h | h⟩ := alloc_cases hr
  · obtain ⟨s, rest, _, _, he⟩ := h
    simp only [allocFit, Prod.mk.injEq] at he
    rw [he.1]; exact ⟨rfl, rfl⟩
  · obtain ⟨a, _, _, he⟩ := h
    simp only [allocNew, Prod.mk.injEq] at he
    rw [he.1]; exact ⟨rfl, rfl⟩

/-- `pool_alloc` keeps the invariant; the new block may be registered with any length `l`
    up to the aligned size -/
theorem alloc_inv {p p' : Pool} {live : List Block} {size l q : Nat} {pa : Option Nat}
    (h : Inv p live) (hpa : ∀ req, allocReq p size = some req → ParentOk p req pa)
    (hl : 0 < l) (hls : l ≤ alignUp size p.align)
    (hr : alloc p size pa = some (p', q)) : Inv p' (⟨q, l⟩ :: live) := by
  have hal := alignUp_mod (x := size) h.align_pos
  obtain ⟨hmax, hc | hc⟩ := alloc_cases hr
  · obtain ⟨s, rest, hsegs, hfit, he⟩ := hc
    simp only [allocFit, Prod.mk.injEq] at he
    rw [he.1, he.2]
    have h' : Inv { align := p.align, segs := s :: rest, lastPtr := p.lastPtr, allowFree := p.allowFree } live := by
      rw [← hsegs]; exact h
    exact alloc_fits_inv h' hfit hal hl hls
  · obtain ⟨a, hpa', hnofit, he⟩ := hc
    simp only [allocNew, Prod.mk.injEq] at he
    rw [he.1, he.2]
    have hlt63 := alignUp_lt_two_pow size p.align h.align_pos (Nat.le_of_lt h.align_lt) hmax
    have hnsz := nextSegSize_ge p (alignUp size p.align) hlt63
    have hreq : allocReq p size = some (segAlloc p (nextSegSize p (alignUp size p.align))) := by
      unfold allocReq
      simp [Nat.not_lt.mpr hmax, hnofit]
    have hf := hpa _ hreq a hpa'
    exact alloc_newseg_inv (a := a) h hf hnsz hal hl hls

end UsualProofs.C09
