import UsualProofs.C09.Stack5
import Usual.C09.SlabMem
/-! Tree allocator and contents.  The tree code writes only list nodes: `list_init`,
    `list_append`, `list_del` store pointers into the 16-byte `struct CxTreeItem` at the start of
    items of the tree operated on (the item handled and its list neighbours) and into that tree's
    `struct CxTree`.  `treeTouch` over-approximates this by *all* item headers of the node plus its
    struct (plus the header of an item just obtained).  Theorem: none of these bytes belongs to the
    payload of any block of the forest, so every block keeps its contents across operations on
    other blocks, and `tree_realloc` delivers what the parent's `realloc` copied. -/
namespace UsualProofs.C09
open Usual.C09

/-- byte ranges the tree code may store list pointers into when operating on node `n`
    (`extra`: headers of items obtained from the parent during the operation) -/
def treeTouch (n : TNode) (extra : List Nat) : List (Nat × Nat) :=
  (n.hdr, sizeofTree) :: (n.items.map (·.1) ++ extra).map (fun a => (a, treeHdr))

theorem node_blocks_in_forest {t n : TNode} {id : Nat} (hf : t.find id = some n) (hnd : t.ids.Nodup) :
    (∀ it ∈ n.items, blkOf it ∈ collect ownIB t) ∧ (⟨n.hdr, sizeofTree⟩ : Block) ∈ collect ownHB t := by
  obtain ⟨CI, hI, _⟩ := decompFor ownIB hf hnd
  obtain ⟨CH, hH, _⟩ := decompFor ownHB hf hnd
  cases n with
  | mk i h its subs =>
    constructor
    · intro it hit
      apply hI.symm.subset
      simp only [collect_mk, ownIB, TNode.items] at *
      exact List.mem_append_left _ (List.mem_append_left _ (List.mem_map_of_mem hit))
    · apply hH.symm.subset
      simp only [collect_mk, ownHB, TNode.hdr]
      simp

/-- no byte of any block's payload lies in a range the tree code may write, as long as the
    headers of newly obtained items (`extra`) are outside all blocks currently held -/
theorem treeTouch_outside {P : Sys} (hP : Fresh P) {s : (TreeOn P).σ} (hwf : (TreeOn P).WF s)
    {id : Nat} {n : TNode} (hf : s.1.find id = some n) (extra : List Nat)
    (hextra : ∀ a ∈ extra, ∀ r ∈ P.live s.2, a + treeHdr ≤ r.ptr ∨ r.ptr + r.len ≤ a) :
    ∀ b ∈ (TreeOn P).live s, ∀ i, i < b.len → ∀ r ∈ treeTouch n extra, inRange r.1 r.2 (b.ptr + i) = false := by
  intro b hb i hi r hr
  obtain ⟨x, hx, rfl⟩ := List.mem_map.mp hb
  obtain ⟨hnd, hpw, hsz, rest, hcoup⟩ := hwf
  have hdis := pairwise_blkDisj_perm hcoup.symm (hP.live_disj s.2 hpw)
  have hxs := hsz x hx
  have hxlive : x ∈ P.live s.2 := hcoup.subset (List.mem_append_left _ hx)
  obtain ⟨hitems, hhdr⟩ := node_blocks_in_forest hf hnd
  simp only [shiftB] at hi ⊢
  simp only [treeTouch, List.mem_cons, List.mem_map, List.mem_append] at hr
  apply inRange_false
  rcases hr with rfl | ⟨a, (⟨it, hit, rfl⟩ | ha), rfl⟩
  · -- the tree struct: a block of HB, disjoint from the item block x
    have hcross := (List.pairwise_append.mp hdis).2.2 x hx (⟨n.hdr, sizeofTree⟩ : Block)
      (List.mem_append_left _ hhdr)
    simp only [blkDisj] at hcross; simp only [treeHdr] at *; omega
  · -- header of an item of the node
    have hmem : blkOf it ∈ collect ownIB s.1 ++ (collect ownHB s.1 ++ rest) :=
      List.mem_append_left _ (hitems it hit)
    have hxm : x ∈ collect ownIB s.1 ++ (collect ownHB s.1 ++ rest) := List.mem_append_left _ hx
    have hits := hsz _ (hitems it hit)
    rcases pairwise_mem_cases hdis hxm hmem with e | e | e
    · subst e; simp only [blkOf, treeHdr] at *; omega
    · simp only [blkDisj, blkOf] at e hits; simp only [treeHdr] at *; omega
    · simp only [blkDisj, blkOf] at e hits; simp only [treeHdr] at *; omega
  · have := hextra a ha x hxlive
    simp only [treeHdr] at *; omega

/-- **tree blocks keep their contents**: whatever pointers (`junk`) the tree code stores while
    operating on node `id`, every byte of every block held in the forest is unchanged -/
theorem tree_contents_stable {P : Sys} (hP : Fresh P) {s : (TreeOn P).σ} (hwf : (TreeOn P).WF s)
    {id : Nat} {n : TNode} (hf : s.1.find id = some n) (extra : List Nat)
    (hextra : ∀ a ∈ extra, ∀ r ∈ P.live s.2, a + treeHdr ≤ r.ptr ∨ r.ptr + r.len ≤ a)
    (junk m : Mem) :
    ∀ b ∈ (TreeOn P).live s, ∀ i, i < b.len →
      memStore junk m (treeTouch n extra) (b.ptr + i) = m (b.ptr + i) := by
  intro b hb i hi
  exact memStore_outside (treeTouch_outside hP hwf hf extra hextra b hb i hi)

/-- **tree_realloc preserves contents**: if the parent's `realloc` of the item `[a, a+sz)` to
    `[a', a'+16+len)` copies the first `min(sz, 16+len)` bytes (its contract), then after the tree
    code has re-linked the new item, the first `min(old, len)` payload bytes are at the new block;
    the new item being fresh memory (outside every other block held). -/
theorem tree_realloc_preserves {a sz a' len : Nat} (hsz : treeHdr ≤ sz) (junk m mP : Mem)
    (touch : List (Nat × Nat))
    (hparent : ∀ i, i < min sz (treeHdr + len) → mP (a' + i) = m (a + i))
    (houtside : ∀ i, i < len → ∀ r ∈ touch, inRange r.1 r.2 (a' + treeHdr + i) = false) :
    ∀ i, i < min (sz - treeHdr) len →
      memStore junk mP touch (a' + treeHdr + i) = m (a + treeHdr + i) := by
  intro i hi
  rw [memStore_outside (houtside i (by omega))]
  have := hparent (treeHdr + i) (by omega)
  simpa [Nat.add_assoc] using this

end UsualProofs.C09
