import Usual.C09.Pool
/-! Helper lemmas for the C09 pool proofs: `alignUp`, `growTo`, list facts. -/
namespace UsualProofs.C09
open Usual.C09

theorem alignUp_mod {x a : Nat} (_ha : 0 < a) : alignUp x a % a = 0 := by
  unfold alignUp; exact Nat.mul_mod_left _ _

theorem alignUp_ge {x a : Nat} (ha : 0 < a) : x ≤ alignUp x a := by
  unfold alignUp
  have h1 := Nat.div_add_mod (x + a - 1) a
  have h2 := Nat.mod_lt (x + a - 1) ha
  have h3 : (x + a - 1) / a * a = a * ((x + a - 1) / a) := Nat.mul_comm _ _
  omega

theorem alignUp_lt {x a : Nat} (ha : 0 < a) : alignUp x a < x + a := by
  unfold alignUp
  have h1 := Nat.div_add_mod (x + a - 1) a
  have h3 : (x + a - 1) / a * a = a * ((x + a - 1) / a) := Nat.mul_comm _ _
  omega

theorem alignUp_of_mod {x a : Nat} (ha : 0 < a) (h : x % a = 0) : alignUp x a = x := by
  have h1 := alignUp_ge (x := x) ha
  have h2 := alignUp_lt (x := x) ha
  have h3 := alignUp_mod (x := x) ha
  -- both multiples of a within distance < a
  have hx := Nat.div_add_mod x a
  have hy := Nat.div_add_mod (alignUp x a) a
  rw [h] at hx; rw [h3] at hy
  have : alignUp x a / a = x / a := by
    apply Nat.le_antisymm
    · apply Nat.le_of_lt_succ
      apply (Nat.mul_lt_mul_left ha).mp
      rw [Nat.mul_succ]; omega
    · apply Nat.le_of_mul_le_mul_left _ ha; omega
  rw [this] at hy; omega

theorem alignUp_idem {x a : Nat} (ha : 0 < a) : alignUp (alignUp x a) a = alignUp x a :=
  alignUp_of_mod ha (alignUp_mod ha)

theorem alignUp_pos {x a : Nat} (ha : 0 < a) (hx : 0 < x) : 0 < alignUp x a :=
  Nat.lt_of_lt_of_le hx (alignUp_ge ha)

theorem add_alignUp_mod {q x a : Nat} (ha : 0 < a) (hq : q % a = 0) : (q + alignUp x a) % a = 0 := by
  have := alignUp_mod (x := x) ha
  rw [Nat.add_mod, hq, this]; simp

/-- the doubling loop ends at or above `size` when it has fuel for it -/
theorem growTo_ge (fuel n size : Nat) (h : size ≤ n * 2 ^ fuel) : size ≤ growTo fuel n size := by
  induction fuel generalizing n with
  | zero => simpa [growTo] using h
  | succ f ih =>
    unfold growTo
    split
    · apply ih; rw [Nat.pow_succ] at h; rw [Nat.mul_assoc, Nat.mul_comm 2]; exact h
    · omega

theorem growTo_ge_start (fuel n size : Nat) : n ≤ growTo fuel n size := by
  induction fuel generalizing n with
  | zero => simp [growTo]
  | succ f ih =>
    unfold growTo
    split
    · exact Nat.le_trans (by omega) (ih (n * 2))
    · omega

/-- … and never overshoots `2 * size` (when it started below) -/
theorem growTo_lt (fuel n size : Nat) (hn : 0 < n) : growTo fuel n size < 2 * size ∨ growTo fuel n size = n := by
  induction fuel generalizing n with
  | zero => right; simp [growTo]
  | succ f ih =>
    unfold growTo
    split
    · next hlt =>
      rcases ih (n * 2) (by omega) with h | h
      · left; exact h
      · left; omega
    · right; rfl

theorem pairwise_mem_cases {α} {R : α → α → Prop} {l : List α} (h : l.Pairwise R)
    {a b : α} (ha : a ∈ l) (hb : b ∈ l) : a = b ∨ R a b ∨ R b a := by
  induction l with
  | nil => cases ha
  | cons x xs ih =>
    rw [List.pairwise_cons] at h
    rcases List.mem_cons.mp ha with rfl | ha' <;> rcases List.mem_cons.mp hb with rfl | hb'
    · left; rfl
    · right; left; exact h.1 _ hb'
    · right; right; exact h.1 _ ha'
    · exact ih h.2 ha' hb'

end UsualProofs.C09
