import UsualProofs.C09.Stack3
/-! Stacking, continued: a header layer (talloc-backed cx: every block is preceded by a fixed-size
    header inside the parent's block; `cx_libc_nofail` is the case of an empty header), and the
    address bound needed by `pool_no_wrap` as a consequence of the parent's answers. -/
namespace UsualProofs.C09
open Usual.C09

/-- client block inside a parent block: behind a header of `H` bytes; the parent block was
    requested with `H + pad n` bytes for a client request of `n` bytes -/
def hdrShift (H : Nat) (b : Block × Nat) : Block := ⟨b.1.ptr + H, b.2⟩

/-- An allocator that puts a header of `H` bytes in front of every block and rounds the payload up
    with `pad` (`pad n ≥ n`): the talloc-backed cx (`H = THSIZE`, `pad = ALIGN`), the exit-on-failure
    wrapper `cx_nofail_ops` (`H = 0`, `pad = id`).  State: parent blocks with the payload size the
    client asked for. -/
def HdrOn (P : Sys) (H : Nat) (pad : Nat → Nat) : Sys where
  σ := List (Block × Nat) × P.σ
  live := fun s => s.1.map (hdrShift H)
  WF := fun s => P.WF s.2 ∧ (∀ b ∈ s.1, 0 < b.2 ∧ H + b.2 ≤ b.1.len) ∧
    ∃ rest, (s.1.map (·.1) ++ rest).Perm (P.live s.2)
  alloc := fun s n r s' => ∃ pa, P.alloc s.2 (H + pad n) pa s'.2 ∧
    (match pa with
     | some a => s'.1 = (⟨a, H + pad n⟩, n) :: s.1 ∧ r = some (a + H)
     | none => s'.1 = s.1 ∧ r = none)
  realloc := fun s p n r s' => ∃ a sz old, ((⟨a, sz⟩ : Block), old) ∈ s.1 ∧ p = a + H ∧
    ∃ pa, P.realloc s.2 a (H + pad n) pa s'.2 ∧
    (match pa with
     | some a' => s'.1 = (⟨a', H + pad n⟩, n) :: s.1.filter (fun b => b.1.ptr != a) ∧ r = some (a' + H)
     | none => s'.1 = s.1 ∧ r = none)
  free := fun s p s' => ∃ a sz old, ((⟨a, sz⟩ : Block), old) ∈ s.1 ∧ p = a + H ∧ P.free s.2 a s'.2 ∧
    s'.1 = s.1.filter (fun b => b.1.ptr != a)

/-- parent blocks of a header layer are pairwise disjoint, so exactly one starts at `a` -/
theorem hdr_filter_perm {l : List (Block × Nat)} {a sz old : Nat}
    (hd : (l.map (·.1)).Pairwise blkDisj) (hpos : ∀ b ∈ l, 0 < b.1.len)
    (hm : ((⟨a, sz⟩ : Block), old) ∈ l) :
    (((⟨a, sz⟩ : Block), old) :: l.filter (fun b => b.1.ptr != a)).Perm l := by
  induction l with
  | nil => cases hm
  | cons x xs ih =>
    simp only [List.map_cons, List.pairwise_cons] at hd
    by_cases hx : x.1.ptr = a
    · have hxe : x = (⟨a, sz⟩, old) := by
        rcases List.mem_cons.mp hm with e | e
        · exact e.symm
        · have := hd.1 _ (List.mem_map_of_mem (f := (·.1)) e)
          have h1 := hpos x (List.mem_cons_self ..)
          have h2 := hpos _ (List.mem_cons_of_mem _ e)
          simp only [blkDisj] at this h2; omega
      have hrest : xs.filter (fun b => b.1.ptr != a) = xs := by
        apply List.filter_eq_self.mpr
        intro y hy
        have := hd.1 _ (List.mem_map_of_mem (f := (·.1)) hy)
        have h1 := hpos x (List.mem_cons_self ..)
        have h2 := hpos y (List.mem_cons_of_mem _ hy)
        simp only [bne_iff_ne, ne_eq]
        simp only [blkDisj] at this; omega
      have : (x :: xs).filter (fun b => b.1.ptr != a) = xs := by
        simp [List.filter_cons, hx, hrest]
      rw [this, hxe]
    · have hm' : ((⟨a, sz⟩ : Block), old) ∈ xs := by
        rcases List.mem_cons.mp hm with e | e
        · exact absurd (by rw [← e]) hx
        · exact e
      have : (x :: xs).filter (fun b => b.1.ptr != a) = x :: xs.filter (fun b => b.1.ptr != a) := by
        simp [List.filter_cons, hx]
      rw [this]
      exact (List.Perm.swap _ _ _).trans
        (List.Perm.cons _ (ih hd.2 (fun b hb => hpos b (List.mem_cons_of_mem _ hb)) hm'))

theorem hdrOn_facts {P : Sys} (hP : Fresh P) {H : Nat} {pad : Nat → Nat} {s : (HdrOn P H pad).σ}
    (hwf : (HdrOn P H pad).WF s) :
    (s.1.map (·.1)).Pairwise blkDisj ∧ (∀ b ∈ s.1, 0 < b.1.len) ∧ (∀ b ∈ s.1, b.1 ∈ P.live s.2) := by
  obtain ⟨hpw, hsz, rest, hc⟩ := hwf
  have hd := pairwise_blkDisj_perm hc.symm (hP.live_disj s.2 hpw)
  refine ⟨(List.pairwise_append.mp hd).1, ?_, fun b hb => hc.subset (List.mem_append_left _ (List.mem_map_of_mem hb))⟩
  intro b hb
  have := hsz b hb
  omega

theorem hdrOn_live_disj {P : Sys} (hP : Fresh P) {H : Nat} {pad : Nat → Nat} {s : (HdrOn P H pad).σ}
    (hwf : (HdrOn P H pad).WF s) :
    (s.1.map (hdrShift H)).Pairwise blkDisj ∧ ∀ b ∈ s.1.map (hdrShift H), 0 < b.len := by
  obtain ⟨hd, _, _⟩ := hdrOn_facts hP hwf
  refine ⟨?_, ?_⟩
  · rw [List.pairwise_map] at hd ⊢
    refine List.Pairwise.imp_of_mem ?_ hd
    intro x y hx hy hxy
    have h1 := hwf.2.1 x hx
    have h2 := hwf.2.1 y hy
    simp only [blkDisj, hdrShift] at *; omega
  · intro b hb
    obtain ⟨x, hx, rfl⟩ := List.mem_map.mp hb
    exact (hwf.2.1 x hx).1

/-- **a header layer preserves the fresh-memory contract** (for `pad n ≥ n`) -/
theorem fresh_hdrOn {P : Sys} (hP : Fresh P) (H : Nat) (pad : Nat → Nat) (hpad : ∀ n, n ≤ pad n) :
    Fresh (HdrOn P H pad) where
  live_disj := fun s hwf => (hdrOn_live_disj hP hwf).1
  live_pos := fun s hwf => (hdrOn_live_disj hP hwf).2
  alloc_ok := by
    intro s n q s' hwf hn hal
    obtain ⟨pa, hpa, hres⟩ := hal
    obtain ⟨hpw, hsz, rest, hc⟩ := hwf
    cases pa with
    | none => simp only [] at hres; obtain ⟨_, h2⟩ := hres; cases h2
    | some a =>
      simp only [Option.some.injEq] at hres
      obtain ⟨hs1, hq⟩ := hres
      have := hpad n
      obtain ⟨hpw', hperm⟩ := hP.alloc_ok s.2 _ a s'.2 hpw (by omega) hpa
      refine ⟨⟨hpw', ?_, rest, ?_⟩, ?_⟩
      · intro b hb
        rw [hs1] at hb
        rcases List.mem_cons.mp hb with rfl | hb'
        · simp only []; omega
        · exact hsz b hb'
      · rw [hs1]; simp only [List.map_cons, List.cons_append]
        exact (List.Perm.cons _ hc).trans hperm.symm
      · show (s'.1.map (hdrShift H)).Perm _
        rw [hs1]; simp only [List.map_cons, hdrShift, hq]
        exact List.Perm.refl _
  alloc_none := by
    intro s n s' hwf hal
    obtain ⟨pa, hpa, hres⟩ := hal
    obtain ⟨hpw, hsz, rest, hc⟩ := hwf
    cases pa with
    | some a => simp only [] at hres; obtain ⟨_, h2⟩ := hres; cases h2
    | none =>
      simp only [] at hres
      obtain ⟨hpw', hperm⟩ := hP.alloc_none s.2 _ s'.2 hpw hpa
      refine ⟨⟨hpw', by rw [hres.1]; exact hsz, rest, by rw [hres.1]; exact hc.trans hperm.symm⟩, ?_⟩
      show (s'.1.map (hdrShift H)).Perm _
      rw [hres.1]; exact List.Perm.refl _
  free_ok := by
    intro s p n s' hwf hm hfr
    obtain ⟨a, sz, old, hmem, hp, hpf, hs1⟩ := hfr
    have hwf0 := hwf
    obtain ⟨hpw, hsz, rest, hc⟩ := hwf
    obtain ⟨hd, hpos, hlive⟩ := hdrOn_facts hP hwf0
    obtain ⟨hpw', hperm⟩ := hP.free_ok s.2 a sz s'.2 hpw (hlive _ hmem) hpf
    have hfp := hdr_filter_perm hd hpos hmem
    have hsub : (s.1.filter (fun b => b.1.ptr != a)).Sublist s.1 := List.filter_sublist
    refine ⟨⟨hpw', fun b hb => hsz b (hsub.subset (hs1 ▸ hb)), rest, ?_⟩, ?_⟩
    · rw [hs1]
      have h1 : ((⟨a, sz⟩ : Block) :: ((s.1.filter (fun b => b.1.ptr != a)).map (·.1) ++ rest)).Perm (P.live s.2) := by
        refine List.Perm.trans ?_ hc
        rw [← List.cons_append]
        exact List.Perm.append_right _ (by simpa using hfp.map (·.1))
      exact List.Perm.cons_inv (h1.trans hperm.symm)
    · show ((⟨p, n⟩ : Block) :: s'.1.map (hdrShift H)).Perm (s.1.map (hdrShift H))
      rw [hs1]
      have h1 := hfp.map (hdrShift H)
      simp only [List.map_cons, hdrShift] at h1
      have hl := hdrOn_live_disj hP hwf0
      have hmem2 : (⟨p, old⟩ : Block) ∈ s.1.map (hdrShift H) := by
        rw [hp]; exact List.mem_map.mpr ⟨_, hmem, rfl⟩
      have : n = old := same_ptr_eq hl.1 hl.2 hm hmem2
      rw [this, hp]; exact h1
  realloc_ok := by
    intro s p n m q s' hwf hm hpos' hre
    obtain ⟨a, sz, old, hmem, hp, pa, hpr, hres⟩ := hre
    have hwf0 := hwf
    obtain ⟨hpw, hsz, rest, hc⟩ := hwf
    obtain ⟨hd, hpos, hlive⟩ := hdrOn_facts hP hwf0
    cases pa with
    | none => simp only [] at hres; obtain ⟨_, h2⟩ := hres; cases h2
    | some a' =>
      simp only [Option.some.injEq] at hres
      obtain ⟨hs1, hq⟩ := hres
      have := hpad m
      obtain ⟨hpw', restP, hp1, hp2⟩ := hP.realloc_ok s.2 a sz _ a' s'.2 hpw (hlive _ hmem) (by omega) hpr
      have hfp := hdr_filter_perm hd hpos hmem
      have hsub : (s.1.filter (fun b => b.1.ptr != a)).Sublist s.1 := List.filter_sublist
      have hD : ((s.1.filter (fun b => b.1.ptr != a)).map (·.1) ++ rest).Perm restP := by
        have h1 : ((⟨a, sz⟩ : Block) :: ((s.1.filter (fun b => b.1.ptr != a)).map (·.1) ++ rest)).Perm (⟨a, sz⟩ :: restP) := by
          refine List.Perm.trans ?_ (hc.trans hp1)
          rw [← List.cons_append]
          exact List.Perm.append_right _ (by simpa using hfp.map (·.1))
        exact List.Perm.cons_inv h1
      refine ⟨⟨hpw', ?_, rest, ?_⟩, (s.1.filter (fun b => b.1.ptr != a)).map (hdrShift H), ?_, ?_⟩
      · intro b hb
        rw [hs1] at hb
        rcases List.mem_cons.mp hb with rfl | hb'
        · simp only []; omega
        · exact hsz b (hsub.subset hb')
      · rw [hs1]; simp only [List.map_cons, List.cons_append]
        exact (List.Perm.cons _ hD).trans hp2.symm
      · show (s.1.map (hdrShift H)).Perm _
        have h1 := (hfp.map (hdrShift H)).symm
        simp only [List.map_cons, hdrShift] at h1
        have hl := hdrOn_live_disj hP hwf0
        have hmem2 : (⟨p, old⟩ : Block) ∈ s.1.map (hdrShift H) := by
          rw [hp]; exact List.mem_map.mpr ⟨_, hmem, rfl⟩
        have : n = old := same_ptr_eq hl.1 hl.2 hm hmem2
        rw [this, hp]; exact h1
      · show (s'.1.map (hdrShift H)).Perm _
        rw [hs1]; simp only [List.map_cons, hdrShift, hq]
        exact List.Perm.refl _
  realloc_none := by
    intro s p n m s' hwf hm hpos' hre
    obtain ⟨a, sz, old, hmem, hp, pa, hpr, hres⟩ := hre
    have hwf0 := hwf
    obtain ⟨hpw, hsz, rest, hc⟩ := hwf
    obtain ⟨hd, hpos, hlive⟩ := hdrOn_facts hP hwf0
    cases pa with
    | some a' => simp only [] at hres; obtain ⟨_, h2⟩ := hres; cases h2
    | none =>
      simp only [] at hres
      have := hpad m
      obtain ⟨hpw', hperm⟩ := hP.realloc_none s.2 a sz _ s'.2 hpw (hlive _ hmem) (by omega) hpr
      refine ⟨⟨hpw', by rw [hres.1]; exact hsz, rest, by rw [hres.1]; exact hc.trans hperm.symm⟩, ?_⟩
      show (s'.1.map (hdrShift H)).Perm _
      rw [hres.1]; exact List.Perm.refl _

/-- the address bound `pool_no_wrap` asks for follows from the parent's answers: if every region
    obtained (and the caller's area of `cx_new_pool_from_area`) ends below 2^62, so does every
    region the pool holds -/
theorem reach_addrOk {s : HState} (h : Reach s) (hob : ∀ r ∈ s.obtained, r.1 + r.2 ≤ 2 ^ 62)
    (hfirst : ∀ g, s.pool.segs.getLast? = some g → g.base + g.size ≤ 2 ^ 62) : AddrOk s.pool := by
  obtain ⟨_, ho⟩ := reach_inv h
  intro g hg
  have hne : s.pool.segs ≠ [] := ho.1
  have hsplit := List.dropLast_concat_getLast hne
  rw [← hsplit] at hg
  rcases List.mem_append.mp hg with hg | hg
  · have hmem : g.region ∈ destroy s.pool := by
      unfold destroy
      exact List.mem_append_left _ (List.mem_map_of_mem hg)
    rw [ho.2] at hmem
    have := hob _ (List.mem_reverse.mp hmem)
    simpa [Seg.region] using this
  · simp only [List.mem_singleton] at hg
    subst hg
    exact hfirst _ (List.getLast?_eq_some_getLast hne)

end UsualProofs.C09
