import UsualProofs.C09.SlabMemProofs
/-! Slab: histories of `slab_alloc` / `slab_free` (with reuse of freed objects) and what holds in
    every reachable state. -/
namespace UsualProofs.C09
open Usual.C09

/-- histories of a slab created by `slab_create`, over a parent that answers with fresh memory at
    addresses that are multiples of `A`; `live` = objects the client holds, `ob` = regions taken
    from the parent -/
inductive SReach (A : Nat) : Slab → List Nat → List (Nat × Nat) → Prop
  | create {objSize align a : Nat} {s : Slab} : slabCreate objSize align (some a) = some s →
      SReach A s [] [(a, sizeofSlab)]
  | alloc {s s' : Slab} {live : List Nat} {ob : List (Nat × Nat)} {o : Nat} {pa : Option Nat} :
      SReach A s live ob → (∀ req, slabAllocReq s = some req → SParentOkM s req pa) →
      (∀ a, pa = some a → a % A = 0) →
      slabAlloc s pa = (s', some o) →
      SReach A s' (o :: live) (obtainedAfter ob (slabAllocReq s) pa)
  | free {s : Slab} {live : List Nat} {ob : List (Nat × Nat)} {o : Nat} :
      SReach A s live ob → o ∈ live → SReach A (slabFree s o) (live.erase o) ob

theorem sreach_inv {A : Nat} {s : Slab} {live : List Nat} {ob : List (Nat × Nat)} (h : SReach A s live ob) :
    SInvM s live ∧ ob = (s.hdr, sizeofSlab) :: s.frags ∧ (∀ f ∈ s.frags, f.1 % A = 0) ∧
    s.frags.Pairwise fragDisj := by
  induction h with
  | create hc =>
    simp only [slabCreate, Option.map_some, Option.some.injEq] at hc
    subst hc
    refine ⟨⟨⟨slabFinalSize_ge _ _, by simp, by intro o ho; simp at ho, by simp⟩, by simp⟩, rfl, by simp, by simp⟩
  | @alloc s s' live ob o pa _ hpa hal hr ih =>
    obtain ⟨hM, hob, hfa, _⟩ := ih
    have hinv := slabAlloc_inv hM.inv (fun req hreq => (hpa req hreq).1) hr
    unfold slabAlloc at hr
    cases hfl : s.freelist with
    | cons x rest =>
      simp only [hfl, Prod.mk.injEq] at hr
      have hs : s'.frags = s.frags ∧ s'.hdr = s.hdr := by rw [← hr.1]; exact ⟨rfl, rfl⟩
      refine ⟨⟨hinv, ?_⟩, ?_, ?_, hinv.frag_disj⟩
      · rw [hs.1, hs.2]; exact hM.hdr_disj
      · simp [slabAllocReq, hfl, obtainedAfter, hob, hs.1, hs.2]
      · rw [hs.1]; exact hfa
    | nil =>
      simp only [hfl] at hr
      cases pa with
      | none => simp at hr
      | some a =>
        simp only [] at hr
        have hreq : slabAllocReq s = some (slabGrowReq s) := by simp [slabAllocReq, hfl]
        obtain ⟨_, hfrH⟩ := hpa _ hreq
        have hfreshH := hfrH a rfl
        cases hfl2 : (slabGrow s a).freelist with
        | nil => simp [hfl2] at hr
        | cons x rest =>
          simp only [hfl2, Prod.mk.injEq] at hr
          have hs : s'.frags = s.frags ++ [(a, slabGrowReq s)] ∧ s'.hdr = s.hdr := by
            rw [← hr.1]; exact ⟨rfl, rfl⟩
          refine ⟨⟨hinv, ?_⟩, ?_, ?_, hinv.frag_disj⟩
          · rw [hs.1, hs.2]
            intro f hf
            rcases List.mem_append.mp hf with hf | hf
            · exact hM.hdr_disj f hf
            · simp only [List.mem_singleton] at hf
              subst hf
              simp only [fragDisj]; omega
          · simp [hreq, obtainedAfter, hob, hs.1, hs.2]
          · rw [hs.1]
            intro f hf
            rcases List.mem_append.mp hf with hf | hf
            · exact hfa f hf
            · simp only [List.mem_singleton] at hf
              subst hf
              exact hal a rfl
  | free _ ho ih =>
    obtain ⟨hM, hob, hfa, hd⟩ := ih
    exact ⟨⟨slabFree_inv hM.inv ho, hM.hdr_disj⟩, hob, hfa, hd⟩

end UsualProofs.C09
