import Usual.C09.Slab
import UsualProofs.C09.PoolHist
/-! Slab allocator (usual/slab.c after F21): objects handed out are pairwise different slots of
    the fragments, each slot `final_size` bytes apart and inside its fragment; alignment; LIFO
    reuse; destroy returns every fragment and the slab struct. -/
namespace UsualProofs.C09
open Usual.C09

/-- object `o` is slot `i` of fragment `f` (address, bytes) for slot size `fs` -/
def IsSlot (fs : Nat) (f : Nat × Nat) (o : Nat) : Prop :=
  ∃ i, o = f.1 + slabFragHdr + i * fs ∧ f.1 + slabFragHdr + (i + 1) * fs ≤ f.1 + f.2

def fragDisj (a b : Nat × Nat) : Prop := a.1 + a.2 ≤ b.1 ∨ b.1 + b.2 ≤ a.1

/-- free objects and objects held by the client are pairwise different slots of the fragments -/
structure SInv (s : Slab) (live : List Nat) : Prop where
  fs_ge : 16 ≤ s.finalSize
  nodup : (s.freelist ++ live).Nodup
  slot : ∀ o ∈ s.freelist ++ live, ∃ f ∈ s.frags, IsSlot s.finalSize f o
  frag_disj : s.frags.Pairwise fragDisj

theorem mem_slabObjs {area fs n o : Nat} : o ∈ slabObjs area fs n ↔ ∃ i, i < n ∧ o = area + i * fs := by
  simp only [slabObjs, List.mem_map, List.mem_range]
  constructor
  · rintro ⟨i, hi, rfl⟩; exact ⟨i, hi, rfl⟩
  · rintro ⟨i, hi, rfl⟩; exact ⟨i, hi, rfl⟩

theorem slabObjs_nodup (area fs n : Nat) (hfs : 0 < fs) : (slabObjs area fs n).Nodup := by
  unfold slabObjs
  refine List.pairwise_map.mpr (List.Pairwise.imp ?_ (List.nodup_range (n := n)))
  intro i j hne heq
  apply hne
  have : i * fs = j * fs := by omega
  exact Nat.eq_of_mul_eq_mul_right hfs this

/-- two slots: the same object or `final_size` bytes apart (same fragment) / in fragments that
    do not overlap -/
theorem slots_apart {fs : Nat} {f g : Nat × Nat} {o p : Nat} (ho : IsSlot fs f o) (hp : IsSlot fs g p)
    (hfg : f = g ∨ fragDisj f g ∨ fragDisj g f) (hne : o ≠ p) : o + fs ≤ p ∨ p + fs ≤ o := by
  obtain ⟨i, rfl, hi⟩ := ho
  obtain ⟨j, rfl, hj⟩ := hp
  have e1 : (i + 1) * fs = i * fs + fs := Nat.succ_mul i fs
  have e2 : (j + 1) * fs = j * fs + fs := Nat.succ_mul j fs
  rcases hfg with rfl | hd | hd
  · rcases Nat.lt_trichotomy i j with h | h | h
    · left
      have : (i + 1) * fs ≤ j * fs := Nat.mul_le_mul_right _ h
      omega
    · subst h; exact absurd rfl hne
    · right
      have : (j + 1) * fs ≤ i * fs := Nat.mul_le_mul_right _ h
      omega
  · simp only [fragDisj, slabFragHdr] at *; omega
  · simp only [fragDisj, slabFragHdr] at *; omega

/-- `slab_free` of an object the client holds -/
theorem slabFree_inv {s : Slab} {live : List Nat} {o : Nat} (h : SInv s live) (ho : o ∈ live) :
    SInv (slabFree s o) (live.erase o) := by
  have hperm : (o :: s.freelist ++ live.erase o).Perm (s.freelist ++ live) := by
    have h1 : (o :: live.erase o).Perm live := (List.perm_cons_erase ho).symm
    calc (o :: s.freelist ++ live.erase o).Perm (s.freelist ++ o :: live.erase o) := by
          simpa using (List.perm_middle (l₁ := s.freelist) (a := o) (l₂ := live.erase o)).symm
      _ |>.Perm (s.freelist ++ live) := List.Perm.append_left _ h1
  constructor
  · exact h.fs_ge
  · exact hperm.nodup_iff.mpr h.nodup
  · intro x hx
    exact h.slot x (hperm.subset hx)
  · exact h.frag_disj

/-- the parent's answer for `grow` is a fresh region -/
def SParentOk (s : Slab) (req : Nat) (pa : Option Nat) : Prop :=
  ∀ a, pa = some a → ∀ f ∈ s.frags, a + req ≤ f.1 ∨ f.1 + f.2 ≤ a

theorem clamp_ge (k c : Nat) : k ≤ (if c < k then k else c) := by split <;> omega

theorem slabGrowCount_pos (s : Slab) : 50 ≤ slabGrowCount s := by
  unfold slabGrowCount
  exact clamp_ge 50 _

/-- `slab_alloc`: the object returned was not held by the client, is a slot of a fragment, and the
    invariant is kept -/
theorem slabAlloc_inv {s s' : Slab} {live : List Nat} {o : Nat} {pa : Option Nat} (h : SInv s live)
    (hpa : ∀ req, slabAllocReq s = some req → SParentOk s req pa)
    (hr : slabAlloc s pa = (s', some o)) : SInv s' (o :: live) := by
  unfold slabAlloc at hr
  cases hfl : s.freelist with
  | cons x rest =>
    simp only [hfl, Prod.mk.injEq, Option.some.injEq] at hr
    obtain ⟨rfl, rfl⟩ := hr
    have hperm : (rest ++ x :: live).Perm (s.freelist ++ live) := by
      rw [hfl]; simp
    exact ⟨h.fs_ge, hperm.nodup_iff.mpr h.nodup, fun y hy => h.slot y (hperm.subset hy), h.frag_disj⟩
  | nil =>
    simp only [hfl] at hr
    cases pa with
    | none => simp at hr
    | some a =>
      simp only [] at hr
      have hreq : slabAllocReq s = some (slabGrowReq s) := by simp [slabAllocReq, hfl]
      have hfresh := hpa _ hreq a rfl
      have hfs : 0 < s.finalSize := by have := h.fs_ge; omega
      -- state after grow
      have hgfl : (slabGrow s a).freelist = slabObjs (a + slabFragHdr) s.finalSize (slabGrowCount s) := by
        simp [slabGrow, hfl]
      have hnewslot : ∀ y ∈ slabObjs (a + slabFragHdr) s.finalSize (slabGrowCount s),
          IsSlot s.finalSize (a, slabGrowReq s) y := by
        intro y hy
        obtain ⟨i, hi, rfl⟩ := mem_slabObjs.mp hy
        refine ⟨i, rfl, ?_⟩
        have : (i + 1) * s.finalSize ≤ slabGrowCount s * s.finalSize := Nat.mul_le_mul_right _ hi
        simp only [slabGrowReq, slabFragHdr]; omega
      have hginv : SInv (slabGrow s a) live := by
        constructor
        · exact h.fs_ge
        · rw [hgfl]
          refine List.nodup_append.mpr ⟨slabObjs_nodup _ _ _ hfs, ?_, ?_⟩
          · have := h.nodup; rw [hfl] at this; simpa using this
          · intro y hy z hz heq
            subst heq
            obtain ⟨f, hf, hslot⟩ := h.slot y (by rw [hfl]; simpa using hz)
            have hnew := hnewslot y hy
            obtain ⟨i, e1, b1⟩ := hnew
            obtain ⟨j, e2, b2⟩ := hslot
            have := hfresh f hf
            have s1 : (i + 1) * s.finalSize = i * s.finalSize + s.finalSize := Nat.succ_mul _ _
            have s2 : (j + 1) * s.finalSize = j * s.finalSize + s.finalSize := Nat.succ_mul _ _
            simp only [slabFragHdr] at *
            omega
        · intro y hy
          rw [hgfl] at hy
          rcases List.mem_append.mp hy with hy | hy
          · exact ⟨(a, slabGrowReq s), by simp [slabGrow], hnewslot y hy⟩
          · obtain ⟨f, hf, hslot⟩ := h.slot y (by rw [hfl]; simpa using hy)
            exact ⟨f, by simp [slabGrow, hf], hslot⟩
        · simp only [slabGrow]
          refine List.pairwise_append.mpr ⟨h.frag_disj, by simp, ?_⟩
          intro f hf g hg
          simp only [List.mem_singleton] at hg
          subst hg
          have := hfresh f hf
          simp only [fragDisj]; omega
      cases hfl2 : (slabGrow s a).freelist with
      | nil => simp [hfl2] at hr
      | cons x rest =>
        simp only [hfl2, Prod.mk.injEq, Option.some.injEq] at hr
        obtain ⟨rfl, rfl⟩ := hr
        have hperm : (rest ++ x :: live).Perm ((slabGrow s a).freelist ++ live) := by
          rw [hfl2]; simp
        exact ⟨hginv.fs_ge, hperm.nodup_iff.mpr hginv.nodup, fun y hy => hginv.slot y (hperm.subset hy),
          hginv.frag_disj⟩

theorem slabFinalSize_ge (objSize align : Nat) : 16 ≤ slabFinalSize objSize align := by
  unfold slabFinalSize
  exact clamp_ge 16 _

end UsualProofs.C09
