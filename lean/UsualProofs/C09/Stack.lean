import UsualProofs.C09.PoolWrap
/-! Stacking allocators.  An allocator, as its client sees it, is a transition system `Sys`; the
    *fresh-memory contract* `Fresh` says: the blocks handed out and not yet given back are
    pairwise disjoint, `alloc` adds exactly the returned block, `free`/`realloc` give up exactly
    the block passed.  `PoolOn P` is the cx pool running on top of any allocator `P`:
    wherever pool code calls `cx_alloc(parent)`/`cx_free(parent)` the composite takes a step of
    `P`.  Theorem: `Fresh P → Fresh (PoolOn P)` (+ blocks inside memory obtained from `P`,
    destroy returns everything to `P` exactly once).  `TreeOn`, `SlabOn`, `MemPoolOn` are in
    `Stack2.lean`.  Iterating gives every stack: `PoolOn (TreeOn (TreeOn Base))`, … -/
namespace UsualProofs.C09
open Usual.C09

/-- an allocator as seen by its client: `live` = blocks handed out and not yet given back;
    `alloc s n r s'`: a request of `n` bytes answered by `r` (`none` = NULL);
    `realloc s p n r s'`: block at `p` resized to `n`; `free s p s'` -/
structure Sys where
  σ : Type
  live : σ → List Block
  WF : σ → Prop
  alloc : σ → Nat → Option Nat → σ → Prop
  realloc : σ → Nat → Nat → Option Nat → σ → Prop
  free : σ → Nat → σ → Prop

/-- the fresh-memory contract -/
structure Fresh (S : Sys) : Prop where
  live_disj : ∀ s, S.WF s → (S.live s).Pairwise blkDisj
  live_pos : ∀ s, S.WF s → ∀ b ∈ S.live s, 0 < b.len
  alloc_ok : ∀ s n a s', S.WF s → 0 < n → S.alloc s n (some a) s' →
    S.WF s' ∧ (S.live s').Perm (⟨a, n⟩ :: S.live s)
  alloc_none : ∀ s n s', S.WF s → S.alloc s n none s' → S.WF s' ∧ (S.live s').Perm (S.live s)
  free_ok : ∀ s p n s', S.WF s → ⟨p, n⟩ ∈ S.live s → S.free s p s' →
    S.WF s' ∧ (⟨p, n⟩ :: S.live s').Perm (S.live s)
  realloc_ok : ∀ s p n m a s', S.WF s → ⟨p, n⟩ ∈ S.live s → 0 < m → S.realloc s p m (some a) s' →
    S.WF s' ∧ ∃ rest, (S.live s).Perm (⟨p, n⟩ :: rest) ∧ (S.live s').Perm (⟨a, m⟩ :: rest)
  realloc_none : ∀ s p n m s', S.WF s → ⟨p, n⟩ ∈ S.live s → 0 < m → S.realloc s p m none s' →
    S.WF s' ∧ (S.live s').Perm (S.live s)

theorem blkDisj_symm {a b : Block} (h : blkDisj a b) : blkDisj b a := by
  simp only [blkDisj] at *; omega

theorem pairwise_blkDisj_perm {l l' : List Block} (hp : l.Perm l') (h : l.Pairwise blkDisj) :
    l'.Pairwise blkDisj :=
  (hp.pairwise_iff (fun {_ _} h => blkDisj_symm h)).mp h

/-- blocks with positive length that are pairwise disjoint are pairwise different -/
theorem nodup_of_disj {l : List Block} (hd : l.Pairwise blkDisj) (hp : ∀ b ∈ l, 0 < b.len) : l.Nodup := by
  refine List.Pairwise.imp_of_mem ?_ hd
  intro a b ha _ hab e
  subst e
  have := hp a ha
  simp only [blkDisj] at hab; omega

/-- a list without repetitions contained in `l` is `l` minus something -/
theorem exists_rest_of_subset {bs l : List Block} (hnd : bs.Nodup) (hsub : ∀ b ∈ bs, b ∈ l) :
    ∃ rest, (bs ++ rest).Perm l := by
  induction bs generalizing l with
  | nil => exact ⟨l, List.Perm.refl _⟩
  | cons b bs ih =>
    have hb : b ∈ l := hsub b (List.mem_cons_self ..)
    have hnd' := List.nodup_cons.mp hnd
    have hsub' : ∀ x ∈ bs, x ∈ l.erase b := by
      intro x hx
      have hne : x ≠ b := fun e => hnd'.1 (e ▸ hx)
      exact (List.mem_erase_of_ne hne).mpr (hsub x (List.mem_cons_of_mem _ hx))
    obtain ⟨rest, hr⟩ := ih hnd'.2 hsub'
    exact ⟨rest, (List.Perm.cons b hr).trans (List.perm_cons_erase hb).symm⟩

/-- `cx_free(P, b)` for each block of a list, in order -/
inductive FreeAll (S : Sys) : S.σ → List Block → S.σ → Prop
  | nil (s : S.σ) : FreeAll S s [] s
  | cons {s s1 s2 : S.σ} {b : Block} {bs : List Block} :
      S.free s b.ptr s1 → FreeAll S s1 bs s2 → FreeAll S s (b :: bs) s2

/-- freeing a list of different live blocks removes exactly them -/
theorem freeAll_ok {S : Sys} (hS : Fresh S) {s s' : S.σ} {bs rest : List Block}
    (hwf : S.WF s) (hperm : (bs ++ rest).Perm (S.live s)) (hf : FreeAll S s bs s') :
    S.WF s' ∧ rest.Perm (S.live s') := by
  induction hf generalizing rest with
  | nil s => exact ⟨hwf, by simpa using hperm⟩
  | @cons s s1 s2 b bs hfree _ ih =>
    have hb : b ∈ S.live s := hperm.subset (by simp)
    obtain ⟨hwf1, hp1⟩ := hS.free_ok s b.ptr b.len s1 hwf hb hfree
    -- b :: live s1 ~ live s ~ b :: bs ++ rest
    have h2 : (b :: S.live s1).Perm (b :: (bs ++ rest)) := hp1.trans hperm.symm
    have h3 : (S.live s1).Perm (bs ++ rest) := List.Perm.cons_inv h2
    exact ih hwf1 h3.symm

/-! ### the pool on top of an arbitrary allocator -/

def blkOf (r : Nat × Nat) : Block := ⟨r.1, r.2⟩

/-- a call of the parent made (or not made) by one pool operation -/
def ParentCall (P : Sys) (sp : P.σ) (req : Option Nat) (pa : Option Nat) (sp' : P.σ) : Prop :=
  match req with
  | some n => P.alloc sp n pa sp'
  | none => sp' = sp ∧ pa = none

def PoolOn (P : Sys) : Sys where
  σ := HState × P.σ
  live := fun s => s.1.live
  WF := fun s => Inv s.1.pool s.1.live ∧ Owes s.1.pool s.1.obtained ∧ P.WF s.2 ∧
    ∀ r ∈ s.1.pool.segs.map Seg.region, blkOf r ∈ P.live s.2
  alloc := fun s len r s' => ∃ pa, ParentCall P s.2 (cxAllocReq s.1.pool len) pa s'.2 ∧
    s'.1 = step s.1 (.alloc len pa) ∧ r = (cxAlloc s.1.pool len pa).map (·.2)
  realloc := fun s ptr len r s' => ∃ pa, ParentCall P s.2 (cxReallocReq s.1.pool ptr len) pa s'.2 ∧
    s'.1 = step s.1 (.realloc ptr len pa) ∧
    r = if len = 0 then none else (realloc s.1.pool ptr len pa).map (·.2.1)
  free := fun s ptr s' => s'.2 = s.2 ∧ s'.1 = step s.1 (.free ptr)

/-! how the regions held change -/

theorem alloc_regions {p p' : Pool} {size q : Nat} {pa : Option Nat}
    (hr : alloc p size pa = some (p', q)) :
    (allocReq p size = none ∧ p'.segs.map Seg.region = p.segs.map Seg.region) ∨
    (∃ a req, pa = some a ∧ allocReq p size = some req ∧
      p'.segs.map Seg.region = (a, req) :: p.segs.map Seg.region) := by
  obtain ⟨hmax, hc | hc⟩ := alloc_cases hr
  · obtain ⟨s, rest, hsegs, hfit, he⟩ := hc
    simp only [allocFit, Prod.mk.injEq] at he
    left
    refine ⟨by unfold allocReq; simp [Nat.not_lt.mpr hmax, fits, hsegs, hfit], ?_⟩
    rw [he.1, hsegs]; simp [Seg.region]
  · obtain ⟨a, hpa', hnofit, he⟩ := hc
    simp only [allocNew, Prod.mk.injEq] at he
    right
    refine ⟨a, _, hpa', by unfold allocReq; simp [Nat.not_lt.mpr hmax, hnofit]; rfl, ?_⟩
    rw [he.1]; simp [Seg.region, newSeg]

theorem free_regions (p : Pool) (ptr : Nat) :
    (free p ptr).segs.map Seg.region = p.segs.map Seg.region := by
  unfold free
  split
  · rfl
  · split
    · rename_i s rest hs; simp [hs, Seg.region]
    · rfl

theorem realloc_regions {p p' : Pool} {ptr len q n : Nat} {pa : Option Nat}
    (hr : realloc p ptr len pa = some (p', q, n)) :
    (reallocReq p ptr len = none ∧ p'.segs.map Seg.region = p.segs.map Seg.region) ∨
    (∃ a req, pa = some a ∧ reallocReq p ptr len = some req ∧
      p'.segs.map Seg.region = (a, req) :: p.segs.map Seg.region) := by
  unfold realloc at hr
  by_cases hmax : len > poolMaxSize
  · simp [hmax] at hr
  · simp only [hmax, if_false] at hr
    by_cases hl : p.lastPtr = some ptr
    · simp only [hl, ne_eq, not_true_eq_false, if_false] at hr
      cases hsegs : p.segs with
      | nil => simp [hsegs] at hr
      | cons s rest =>
        simp only [hsegs, reallocLast] at hr
        by_cases hfit : s.pos - (s.pos - ptr) + alignUp len p.align ≤ s.stop
        · simp only [hfit, if_true, Option.some.injEq, Prod.mk.injEq] at hr
          left
          refine ⟨by unfold reallocReq; simp only [hmax, if_false, hl, ne_eq, not_true_eq_false, hsegs, hfit, if_true], ?_⟩
          rw [← hr.1]; simp [Seg.region]
        · simp only [hfit, if_false] at hr
          cases hal : alloc p (alignUp len p.align) pa with
          | none => simp [hal] at hr
          | some r =>
            obtain ⟨p2, q2⟩ := r
            simp only [hal, Option.map_some, Option.some.injEq, Prod.mk.injEq] at hr
            have hreq : reallocReq p ptr len = allocReq p (alignUp len p.align) := by
              unfold reallocReq
              simp only [hmax, if_false, hl, ne_eq, not_true_eq_false, hsegs, hfit]
            rw [hreq, ← hr.1, ← hsegs]
            exact alloc_regions hal
    · simp only [ne_eq, hl, not_false_eq_true, if_true, reallocOther] at hr
      cases hal : alloc p len pa with
      | none => simp [hal] at hr
      | some r =>
        obtain ⟨p2, q2⟩ := r
        simp only [hal, Option.map_some, Option.some.injEq, Prod.mk.injEq] at hr
        have hreq : reallocReq p ptr len = allocReq p len := by
          unfold reallocReq
          simp only [hmax, if_false, ne_eq, hl, not_false_eq_true, if_true]
        rw [hreq, ← hr.1]
        exact alloc_regions hal

end UsualProofs.C09

namespace UsualProofs.C09
open Usual.C09

theorem allocReq_pos {p : Pool} {size req : Nat} (h : allocReq p size = some req) : 0 < req := by
  unfold allocReq at h
  by_cases hmax : size > poolMaxSize
  · simp [hmax] at h
  · simp only [hmax, if_false] at h
    by_cases hf : fits p (alignUp size p.align) = true
    · simp [hf] at h
    · simp only [hf] at h
      simp only [Bool.false_eq_true, if_false, Option.some.injEq] at h
      rw [← h]; simp only [segAlloc, poolHdr]; omega

theorem alloc_none_pa {p : Pool} {size req : Nat} {pa : Option Nat}
    (h : alloc p size pa = none) (hreq : allocReq p size = some req) : pa = none := by
  cases pa with
  | none => rfl
  | some a =>
    exfalso
    unfold allocReq at hreq
    unfold alloc at h
    by_cases hmax : size > poolMaxSize
    · simp [hmax] at hreq
    · simp only [hmax, if_false] at hreq h
      cases hsegs : p.segs with
      | nil => simp [hsegs] at h
      | cons s rest =>
        simp only [hsegs] at h
        by_cases hfit : s.pos + alignUp size p.align ≤ s.stop
        · simp [fits, hsegs, hfit] at hreq
        · simp [hfit] at h

theorem reallocReq_pos {p : Pool} {ptr len req : Nat} (h : reallocReq p ptr len = some req) : 0 < req := by
  unfold reallocReq at h
  by_cases hmax : len > poolMaxSize
  · simp [hmax] at h
  · simp only [hmax, if_false] at h
    by_cases hl : p.lastPtr = some ptr
    · simp only [hl, ne_eq, not_true_eq_false, if_false] at h
      cases hsegs : p.segs with
      | nil => simp [hsegs] at h
      | cons s rest =>
        simp only [hsegs] at h
        by_cases hfit : s.pos - (s.pos - ptr) + alignUp len p.align ≤ s.stop
        · simp [hfit] at h
        · simp only [hfit, if_false] at h
          exact allocReq_pos h
    · simp only [ne_eq, hl, not_false_eq_true, if_true] at h
      exact allocReq_pos h

theorem realloc_none_pa {p : Pool} {ptr len req : Nat} {pa : Option Nat}
    (h : realloc p ptr len pa = none) (hreq : reallocReq p ptr len = some req) : pa = none := by
  unfold realloc at h
  unfold reallocReq at hreq
  by_cases hmax : len > poolMaxSize
  · simp [hmax] at hreq
  · simp only [hmax, if_false] at h hreq
    by_cases hl : p.lastPtr = some ptr
    · simp only [hl, ne_eq, not_true_eq_false, if_false] at h hreq
      cases hsegs : p.segs with
      | nil => simp [hsegs] at hreq
      | cons s rest =>
        simp only [hsegs, reallocLast] at h hreq
        by_cases hfit : s.pos - (s.pos - ptr) + alignUp len p.align ≤ s.stop
        · simp [hfit] at hreq
        · simp only [hfit, if_false] at h hreq
          cases hal : alloc p (alignUp len p.align) pa with
          | none => exact alloc_none_pa hal hreq
          | some r => simp [hal] at h
    · simp only [ne_eq, hl, not_false_eq_true, if_true, reallocOther] at h hreq
      cases hal : alloc p len pa with
      | none => exact alloc_none_pa hal hreq
      | some r => simp [hal] at h

/-- exactly one held block starts at `p` -/
theorem dropPtr_perm {live : List Block} {p n : Nat} (hd : live.Pairwise blkDisj)
    (hpos : ∀ b ∈ live, 0 < b.len) (hm : (⟨p, n⟩ : Block) ∈ live) :
    ((⟨p, n⟩ : Block) :: dropPtr live p).Perm live := by
  induction live with
  | nil => cases hm
  | cons x xs ih =>
    have hd' := List.pairwise_cons.mp hd
    by_cases hx : x.ptr = p
    · -- x is the block; no other block starts at p
      have hxe : x = ⟨p, n⟩ := by
        rcases List.mem_cons.mp hm with e | e
        · exact e.symm
        · have := hd'.1 _ e
          have h1 := hpos x (List.mem_cons_self ..)
          have h2 := hpos _ (List.mem_cons_of_mem _ e)
          simp only [blkDisj] at this h2; omega
      have hrest : dropPtr xs p = xs := by
        unfold dropPtr
        apply List.filter_eq_self.mpr
        intro y hy
        have := hd'.1 y hy
        have h1 := hpos x (List.mem_cons_self ..)
        have h2 := hpos y (List.mem_cons_of_mem _ hy)
        simp only [bne_iff_ne, ne_eq]
        simp only [blkDisj] at this; omega
      have : dropPtr (x :: xs) p = dropPtr xs p := by
        simp [dropPtr, List.filter_cons, hx]
      rw [this, hrest, hxe]
    · have hm' : (⟨p, n⟩ : Block) ∈ xs := by
        rcases List.mem_cons.mp hm with e | e
        · exact absurd (by rw [← e]) hx
        · exact e
      have : dropPtr (x :: xs) p = x :: dropPtr xs p := by
        simp [dropPtr, List.filter_cons, hx]
      rw [this]
      exact (List.Perm.swap _ _ _).trans
        (List.Perm.cons _ (ih hd'.2 (fun b hb => hpos b (List.mem_cons_of_mem _ hb)) hm'))

/-- what a successful parent call gives the pool: the `ParentOk` it needs, and the new region
    is live in the parent -/
theorem parent_call_ok {P : Sys} (hP : Fresh P) {sp sp' : P.σ} {p : Pool} {req : Option Nat} {pa : Option Nat}
    (hwf : P.WF sp) (hcoup : ∀ r ∈ p.segs.map Seg.region, blkOf r ∈ P.live sp)
    (hpos : ∀ n, req = some n → 0 < n)
    (hc : ParentCall P sp req pa sp') :
    P.WF sp' ∧ (∀ n, req = some n → ParentOk p n pa) ∧
    (∀ b ∈ P.live sp, b ∈ P.live sp') ∧
    (∀ n a, req = some n → pa = some a → (⟨a, n⟩ : Block) ∈ P.live sp') := by
  cases req with
  | none =>
    obtain ⟨rfl, rfl⟩ := hc
    exact ⟨hwf, (by intro n hn; cases hn), fun b hb => hb, (by intro n a hn; cases hn)⟩
  | some n =>
    simp only [ParentCall] at hc
    cases pa with
    | none =>
      obtain ⟨hwf', hperm⟩ := hP.alloc_none sp n sp' hwf hc
      exact ⟨hwf', (by intro m _; unfold ParentOk; intro a ha; cases ha), fun b hb => hperm.symm.subset hb, (by intro m a _ ha; cases ha)⟩
    | some a =>
      obtain ⟨hwf', hperm⟩ := hP.alloc_ok sp n a sp' hwf (hpos n rfl) hc
      refine ⟨hwf', ?_, fun b hb => hperm.symm.subset (List.mem_cons_of_mem _ hb), ?_⟩
      · intro m hm
        unfold ParentOk
        intro a' ha' g hg
        simp only [Option.some.injEq] at hm ha'
        subst hm; subst ha'
        have hdis := pairwise_blkDisj_perm hperm (hP.live_disj sp' hwf')
        have hmem : blkOf g.region ∈ P.live sp := hcoup _ (List.mem_map_of_mem hg)
        have := (List.pairwise_cons.mp hdis).1 _ hmem
        simp only [blkDisj, blkOf, Seg.region] at this
        exact this
      · intro m a' hm ha'
        simp only [Option.some.injEq] at hm ha'
        subst hm; subst ha'
        exact hperm.symm.subset (List.mem_cons_self ..)

end UsualProofs.C09

namespace UsualProofs.C09
open Usual.C09

theorem cxAllocReq_pos {p : Pool} {len n : Nat} (h : cxAllocReq p len = some n) : 0 < n := by
  unfold cxAllocReq at h
  split at h
  · cases h
  · exact allocReq_pos h

theorem cxReallocReq_pos {p : Pool} {ptr len n : Nat} (h : cxReallocReq p ptr len = some n) : 0 < n := by
  unfold cxReallocReq at h
  split at h
  · cases h
  · exact reallocReq_pos h

/-- one pool operation on top of `P`: everything the composite invariant needs -/
theorem poolOn_step {P : Sys} (hP : Fresh P) {s : HState} {sp sp' : P.σ} {op : Op} {req pa : Option Nat}
    (hwf : (PoolOn P).WF (s, sp))
    (hreq : match op with
            | .alloc len _ => req = cxAllocReq s.pool len
            | .realloc ptr len _ => req = cxReallocReq s.pool ptr len
            | .free _ => req = none)
    (hpa : match op with
           | .alloc _ pa' => pa' = pa
           | .realloc _ _ pa' => pa' = pa
           | .free _ => True)
    (hlive : match op with
             | .alloc _ _ => True
             | .realloc ptr _ _ => ∃ b ∈ s.live, b.ptr = ptr
             | .free ptr => ∃ b ∈ s.live, b.ptr = ptr)
    (hc : ParentCall P sp req pa sp') : (PoolOn P).WF (step s op, sp') := by
  obtain ⟨hi, ho, hpw, hcoup⟩ := hwf
  have hpos : ∀ n, req = some n → 0 < n := by
    intro n hn
    cases op with
    | alloc len _ => simp only [] at hreq; rw [hreq] at hn; exact cxAllocReq_pos hn
    | realloc ptr len _ => simp only [] at hreq; rw [hreq] at hn; exact cxReallocReq_pos hn
    | free _ => simp only [] at hreq; rw [hreq] at hn; cases hn
  obtain ⟨hpw', hpok, hmono, hnew⟩ := parent_call_ok hP hpw hcoup hpos hc
  have hok : OpOk s op := by
    cases op with
    | alloc len pa' =>
      simp only [] at hreq hpa
      subst hpa
      simp only [OpOk]
      intro n hn; exact hpok n (by rw [hreq]; exact hn)
    | realloc ptr len pa' =>
      simp only [] at hreq hpa hlive
      subst hpa
      simp only [OpOk]
      exact ⟨hlive, fun n hn => hpok n (by rw [hreq]; exact hn)⟩
    | free ptr => simp only [] at hlive; exact hlive
  obtain ⟨hi', ho'⟩ := step_inv ⟨hi, ho⟩ hok
  refine ⟨hi', ho', hpw', ?_⟩
  -- coupling: every region the pool holds is live in the parent
  have keep : ∀ r ∈ s.pool.segs.map Seg.region, blkOf r ∈ P.live sp' := fun r hr => hmono _ (hcoup r hr)
  cases op with
  | alloc len pa' =>
    simp only [] at hreq hpa
    subst hpa
    simp only [step]
    cases hr : cxAlloc s.pool len pa' with
    | none => exact keep
    | some r =>
      obtain ⟨p', q⟩ := r
      simp only []
      unfold cxAlloc at hr
      by_cases hz : len = 0
      · simp [hz] at hr
      · simp only [hz, if_false] at hr
        have hreq2 : cxAllocReq s.pool len = allocReq s.pool len := by simp [cxAllocReq, hz]
        rcases alloc_regions hr with ⟨_, hsame⟩ | ⟨a, n, hpa', hn, hcons⟩
        · rw [hsame]; exact keep
        · rw [hcons]
          intro r hr'
          rcases List.mem_cons.mp hr' with rfl | hr'
          · exact hnew n a (by rw [hreq, hreq2, hn]) hpa'
          · exact keep r hr'
  | realloc ptr len pa' =>
    simp only [] at hreq hpa
    subst hpa
    simp only [step]
    by_cases hz : len = 0
    · simp only [hz, if_true]
      rw [free_regions]; exact keep
    · simp only [hz, if_false]
      cases hr : realloc s.pool ptr len pa' with
      | none => exact keep
      | some r =>
        obtain ⟨p', q, n0⟩ := r
        simp only []
        have hreq2 : cxReallocReq s.pool ptr len = reallocReq s.pool ptr len := by simp [cxReallocReq, hz]
        rcases realloc_regions hr with ⟨_, hsame⟩ | ⟨a, n, hpa', hn, hcons⟩
        · rw [hsame]; exact keep
        · rw [hcons]
          intro r hr'
          rcases List.mem_cons.mp hr' with rfl | hr'
          · exact hnew n a (by rw [hreq, hreq2, hn]) hpa'
          · exact keep r hr'
  | free ptr =>
    simp only [step]
    rw [free_regions]; exact keep

/-- **the pool preserves the fresh-memory contract**: on top of any allocator that satisfies
    it, the pool satisfies it again (so it can itself serve as parent of a pool, tree, slab …) -/
theorem fresh_poolOn {P : Sys} (hP : Fresh P) : Fresh (PoolOn P) where
  live_disj := fun s hwf => hwf.1.blk_disj
  live_pos := fun s hwf => hwf.1.blk_pos
  alloc_ok := by
    intro s len q s' hwf hlen hal
    obtain ⟨pa, hc, hs1, hr⟩ := hal
    have hwf' := poolOn_step (op := .alloc len pa) hP (s := s.1) (sp := s.2) hwf rfl rfl trivial hc
    cases hcx : cxAlloc s.1.pool len pa with
    | none => simp [hcx] at hr
    | some r =>
      obtain ⟨p', q'⟩ := r
      simp only [hcx, Option.map_some, Option.some.injEq] at hr
      subst hr
      refine ⟨by rw [← hs1] at hwf'; exact hwf', ?_⟩
      show s'.1.live.Perm _
      rw [hs1]; simp only [step, hcx]
      exact List.Perm.refl _
  alloc_none := by
    intro s len s' hwf hal
    obtain ⟨pa, hc, hs1, hr⟩ := hal
    have hwf' := poolOn_step (op := .alloc len pa) hP (s := s.1) (sp := s.2) hwf rfl rfl trivial hc
    refine ⟨by rw [← hs1] at hwf'; exact hwf', ?_⟩
    show s'.1.live.Perm _
    cases hcx : cxAlloc s.1.pool len pa with
    | none => rw [hs1]; simp only [step, hcx]; exact List.Perm.refl _
    | some r => simp [hcx] at hr
  free_ok := by
    intro s p n s' hwf hm hf
    obtain ⟨hs2, hs1⟩ := hf
    have hwf' := poolOn_step (op := .free p) (req := none) (pa := none) hP (s := s.1) (sp := s.2) hwf rfl trivial
      ⟨⟨p, n⟩, hm, rfl⟩ ⟨rfl, rfl⟩
    refine ⟨by rw [← hs1, ← hs2] at hwf'; exact hwf', ?_⟩
    show ((⟨p, n⟩ : Block) :: s'.1.live).Perm s.1.live
    rw [hs1]; simp only [step]
    exact dropPtr_perm hwf.1.blk_disj hwf.1.blk_pos hm
  realloc_ok := by
    intro s p n len q s' hwf hm hlen hre
    obtain ⟨pa, hc, hs1, hr⟩ := hre
    have hwf' := poolOn_step (op := .realloc p len pa) hP (s := s.1) (sp := s.2) hwf rfl rfl ⟨⟨p, n⟩, hm, rfl⟩ hc
    have hz : len ≠ 0 := by omega
    simp only [hz, if_false] at hr
    cases hcx : realloc s.1.pool p len pa with
    | none => simp [hcx] at hr
    | some r =>
      obtain ⟨p', q', n0⟩ := r
      simp only [hcx, Option.map_some, Option.some.injEq] at hr
      subst hr
      refine ⟨by rw [← hs1] at hwf'; exact hwf', dropPtr s.1.live p, ?_, ?_⟩
      · exact (dropPtr_perm hwf.1.blk_disj hwf.1.blk_pos hm).symm
      · show s'.1.live.Perm _
        rw [hs1]; simp only [step, hz, if_false, hcx]
        exact List.Perm.refl _
  realloc_none := by
    intro s p n len s' hwf hm hlen hre
    obtain ⟨pa, hc, hs1, hr⟩ := hre
    have hwf' := poolOn_step (op := .realloc p len pa) hP (s := s.1) (sp := s.2) hwf rfl rfl ⟨⟨p, n⟩, hm, rfl⟩ hc
    have hz : len ≠ 0 := by omega
    simp only [hz, if_false] at hr
    refine ⟨by rw [← hs1] at hwf'; exact hwf', ?_⟩
    show s'.1.live.Perm _
    cases hcx : realloc s.1.pool p len pa with
    | none => rw [hs1]; simp only [step, hz, if_false, hcx]; exact List.Perm.refl _
    | some r => simp [hcx] at hr

end UsualProofs.C09

namespace UsualProofs.C09
open Usual.C09

/-- `cx_new_pool(P, initial, align)`: the composite starts well-formed -/
theorem poolOn_create {P : Sys} (hP : Fresh P) {sp sp' : P.σ} {initial align a : Nat} {p : Pool}
    (hwf : P.WF sp) (hal : align < 2 ^ 32)
    (hpa : P.alloc sp (newPoolReq initial) (some a) sp')
    (hp : newPool initial align (some a) = some p) :
    (PoolOn P).WF (⟨p, [], [(a, newPoolReq initial)]⟩, sp') := by
  have hposreq : 0 < newPoolReq initial := by unfold newPoolReq sizeofPool; omega
  obtain ⟨hwf', hperm⟩ := hP.alloc_ok sp _ a sp' hwf hposreq hpa
  simp only [newPool] at hp
  obtain ⟨hinv, _, s0, hs0, hreg⟩ := fromArea_inv hal hp
  have ho := fromArea_owes hal hp
  refine ⟨hinv, by simpa using ho, hwf', ?_⟩
  intro r hr
  simp only [hs0, List.map_cons, List.map_nil, List.mem_singleton] at hr
  subst hr
  rw [hreg]
  exact hperm.symm.subset (List.mem_cons_self ..)

/-- every block of the pool lies inside a block the pool obtained from its parent, behind the
    segment header, and is aligned to the pool's alignment -/
theorem poolOn_block_inside {P : Sys} {s : (PoolOn P).σ} (hwf : (PoolOn P).WF s) :
    ∀ b ∈ (PoolOn P).live s, b.ptr % s.1.pool.align = 0 ∧
      ∃ r ∈ P.live s.2, r.ptr < b.ptr ∧ b.ptr + b.len ≤ r.ptr + r.len := by
  intro b hb
  obtain ⟨hi, _, _, hcoup⟩ := hwf
  refine ⟨hi.blk_al b hb, ?_⟩
  obtain ⟨g, hg, hin⟩ := hi.blk_in b hb
  have hreg := block_in_region (hi.seg_ok g hg) hin
  exact ⟨blkOf g.region, hcoup _ (List.mem_map_of_mem hg), by simpa [blkOf, Seg.region] using hreg⟩

/-- `cx_destroy(pool)` on top of `P`: the regions passed to `cx_free(P, …)` are exactly the ones
    obtained from `P` (latest first), all of them were live in `P`, and afterwards `P` holds
    exactly what it held without them: everything is returned exactly once -/
theorem poolOn_destroy {P : Sys} (hP : Fresh P) {s : (PoolOn P).σ} {sp' : P.σ}
    (hwf : (PoolOn P).WF s) (hd : FreeAll P s.2 ((destroy s.1.pool).map blkOf) sp') :
    destroy s.1.pool = s.1.obtained.reverse ∧ (destroy s.1.pool).Nodup ∧
    P.WF sp' ∧ ∃ rest, (P.live s.2).Perm ((destroy s.1.pool).map blkOf ++ rest) ∧ rest.Perm (P.live sp') := by
  obtain ⟨hi, ho, hpw, hcoup⟩ := hwf
  have hnd := destroy_nodup hi
  have hsubl := destroy_sublist s.1.pool
  have hnd2 : ((destroy s.1.pool).map blkOf).Nodup := by
    refine List.pairwise_map.mpr (List.Pairwise.imp ?_ hnd)
    intro x y hne hxy
    simp only [blkOf, Block.mk.injEq] at hxy
    exact hne (Prod.ext hxy.1 hxy.2)
  have hsub : ∀ b ∈ (destroy s.1.pool).map blkOf, b ∈ P.live s.2 := by
    intro b hb
    obtain ⟨r, hr, rfl⟩ := List.mem_map.mp hb
    exact hcoup r (hsubl.subset hr)
  obtain ⟨rest, hrest⟩ := exists_rest_of_subset hnd2 hsub
  obtain ⟨hwf', hp'⟩ := freeAll_ok hP hpw hrest hd
  exact ⟨ho.2, hnd, hwf', rest, hrest.symm, hp'⟩

end UsualProofs.C09
