import UsualProofs.C09.Stack
import UsualProofs.C09.TreeFull
/-! Stacking, continued: the tree allocator (a forest with nested sub-trees) on top of an
    arbitrary allocator `P` satisfying the fresh-memory contract satisfies the contract again. -/
namespace UsualProofs.C09
open Usual.C09

/-- node `n` found at `id`: for every way of collecting, the rest of the forest is a fixed list -/
theorem decompFor {α : Type} (own : Nat → Nat → List (Nat × Nat) → List α) {id : Nat} {t n : TNode}
    (hf : t.find id = some n) (hnd : t.ids.Nodup) :
    ∃ C, (collect own t).Perm (collect own n ++ C) ∧
      ∀ f : TNode → TNode, (collect own (t.update f id)).Perm (collect own (f n) ++ C) := by
  have hm := find_some_mem id t n hf
  obtain ⟨n1, C, hf1, _, h1, h2⟩ := decomp2 own hm hnd
  rw [hf] at hf1; cases hf1
  exact ⟨C, h1, h2⟩

/-- items as blocks of the parent -/
def ownIB (_i _h : Nat) (its : List (Nat × Nat)) : List Block := its.map blkOf
/-- the `struct CxTree` of every tree as a block of the parent -/
def ownHB (_i h : Nat) (_its : List (Nat × Nat)) : List Block := [⟨h, sizeofTree⟩]

/-- the client's block inside an item: behind the 16-byte header -/
def shiftB (b : Block) : Block := ⟨b.ptr + treeHdr, b.len - treeHdr⟩

def TreeOn (P : Sys) : Sys where
  σ := TNode × P.σ
  live := fun s => (collect ownIB s.1).map shiftB
  WF := fun s => s.1.ids.Nodup ∧ P.WF s.2 ∧ (∀ b ∈ collect ownIB s.1, treeHdr < b.len) ∧
    ∃ rest, (collect ownIB s.1 ++ (collect ownHB s.1 ++ rest)).Perm (P.live s.2)
  alloc := fun s len r s' => ∃ id, id ∈ s.1.ids ∧ ∃ pa,
    ParentCall P s.2 (if len = 0 then none else treeReq len) pa s'.2 ∧
    (match treeAlloc s.1 id len pa with
     | some (t', q) => s'.1 = t' ∧ r = some q
     | none => s'.1 = s.1 ∧ r = none)
  free := fun s p s' => ∃ id n a sz, s.1.find id = some n ∧ (a, sz) ∈ n.items ∧ p = a + treeHdr ∧
    P.free s.2 a s'.2 ∧ s'.1 = treeFree s.1 id p
  realloc := fun s p len r s' => ∃ id n a sz req, s.1.find id = some n ∧ (a, sz) ∈ n.items ∧
    p = a + treeHdr ∧ treeReq len = some req ∧ ∃ pa, P.realloc s.2 a req pa s'.2 ∧
    s'.1 = (treeRealloc s.1 id p len pa).1 ∧ r = (treeRealloc s.1 id p len pa).2

/-! node-level effects on the collected blocks -/

theorem collect_items_perm {α : Type} (own : Nat → Nat → List (Nat × Nat) → List α) (i h : Nat)
    (its its' : List (Nat × Nat)) (subs : List TNode) (L : List α)
    (hown : (own i h its').Perm (L ++ own i h its)) :
    (collect own (.mk i h its' subs)).Perm (L ++ collect own (.mk i h its subs)) := by
  simp only [collect_mk]
  rw [← List.append_assoc]
  exact List.Perm.append_right _ hown

theorem addItem_IB (a len : Nat) (n : TNode) :
    (collect ownIB (treeAddItem a len n)).Perm (⟨a, treeHdr + len⟩ :: collect ownIB n) := by
  cases n with
  | mk i h its subs =>
    simp only [treeAddItem]
    have := collect_items_perm ownIB i h its (its ++ [(a, treeHdr + len)]) subs [⟨a, treeHdr + len⟩]
      (by simp only [ownIB, List.map_append, List.map_cons, List.map_nil, blkOf]
          exact List.perm_append_comm)
    simpa using this

theorem addItem_HB (a len : Nat) (n : TNode) : collect ownHB (treeAddItem a len n) = collect ownHB n := by
  cases n; simp [treeAddItem, collect_mk, ownHB]

theorem delItem_HB (p : Nat) (n : TNode) : collect ownHB (treeDelItem p n) = collect ownHB n := by
  cases n; simp [treeDelItem, collect_mk, ownHB]

theorem readd_HB (old : List (Nat × Nat)) (n : TNode) : collect ownHB (treeReaddItems old n) = collect ownHB n := by
  cases n; simp [treeReaddItems, collect_mk, ownHB]

/-- removing the item at address `a`, when item addresses are pairwise different -/
theorem items_del_blk (its : List (Nat × Nat)) (a sz : Nat) (hmem : (a, sz) ∈ its)
    (hnd : (its.map (·.1)).Nodup) :
    (its.map blkOf).Perm (⟨a, sz⟩ :: (its.filter (fun it => it.1 + treeHdr != a + treeHdr)).map blkOf) := by
  induction its with
  | nil => cases hmem
  | cons x xs ih =>
    simp only [List.map_cons, List.nodup_cons] at hnd
    by_cases hx : x.1 = a
    · have hxe : x = (a, sz) := by
        rcases List.mem_cons.mp hmem with e | e
        · exact e.symm
        · exfalso; apply hnd.1; rw [hx]; exact List.mem_map_of_mem (f := (·.1)) e
      have hrest : xs.filter (fun it => it.1 + treeHdr != a + treeHdr) = xs := by
        apply List.filter_eq_self.mpr
        intro y hy
        have : y.1 ≠ a := by
          intro e
          apply hnd.1
          rw [hx, ← e]
          exact List.mem_map_of_mem hy
        simp only [bne_iff_ne, ne_eq]
        omega
      simp only [List.filter_cons, hx, bne_self_eq_false, Bool.false_eq_true, if_false, hrest, List.map_cons]
      rw [hxe]; exact List.Perm.refl _
    · have hmem' : (a, sz) ∈ xs := by
        rcases List.mem_cons.mp hmem with e | e
        · exact absurd (by rw [← e]) hx
        · exact e
      have hkeep : (x.1 + treeHdr != a + treeHdr) = true := by
        simp only [bne_iff_ne, ne_eq]; omega
      simp only [List.filter_cons, hkeep, if_true, List.map_cons]
      exact (List.Perm.cons _ (ih hmem' hnd.2)).trans (List.Perm.swap _ _ _)

theorem delItem_IB (n : TNode) (a sz : Nat) (hmem : (a, sz) ∈ n.items)
    (hnd : (n.items.map (·.1)).Nodup) :
    (collect ownIB n).Perm (⟨a, sz⟩ :: collect ownIB (treeDelItem (a + treeHdr) n)) := by
  cases n with
  | mk i h its subs =>
    simp only [TNode.items] at hmem hnd
    simp only [treeDelItem]
    have := collect_items_perm ownIB i h (its.filter (fun it => it.1 + treeHdr != a + treeHdr)) its subs
      [⟨a, sz⟩] (by simpa [ownIB] using items_del_blk its a sz hmem hnd)
    simpa using this

theorem readd_IB (n : TNode) (ptr : Nat) :
    (collect ownIB (treeReaddItems (n.items.filter (fun it => it.1 + treeHdr == ptr)) (treeDelItem ptr n))).Perm
      (collect ownIB n) := by
  cases n with
  | mk i h its subs =>
    simp only [treeDelItem, treeReaddItems, TNode.items, collect_mk, ownIB, List.map_append]
    apply List.Perm.append_right
    have h1 := List.filter_append_perm (fun it : Nat × Nat => it.1 + treeHdr != ptr) its
    have h2 : (its.filter (fun it : Nat × Nat => !(it.1 + treeHdr != ptr))) =
        its.filter (fun it : Nat × Nat => it.1 + treeHdr == ptr) := by
      congr 1; funext it; simp [bne]
    rw [h2] at h1
    have h3 := h1.map blkOf
    rw [List.map_append] at h3
    exact h3

/-- pairwise disjoint items of positive length have pairwise different addresses -/
theorem item_addrs_nodup (n : TNode) (hd : (collect ownIB n).Pairwise blkDisj)
    (hpos : ∀ b ∈ collect ownIB n, 0 < b.len) : (n.items.map (·.1)).Nodup := by
  cases n with
  | mk i h its subs =>
    simp only [collect_mk, ownIB, TNode.items] at *
    have hd' := (List.pairwise_append.mp hd).1
    have hpos' : ∀ b ∈ its.map blkOf, 0 < b.len := fun b hb => hpos b (List.mem_append_left _ hb)
    clear hd hpos
    induction its with
    | nil => simp
    | cons x xs ih =>
      simp only [List.map_cons, List.pairwise_cons] at hd'
      simp only [List.map_cons, List.nodup_cons]
      refine ⟨?_, ih hd'.2 (fun b hb => hpos' b (by simp [hb]))⟩
      intro hm
      obtain ⟨y, hy, hyx⟩ := List.mem_map.mp hm
      have := hd'.1 (blkOf y) (List.mem_map_of_mem hy)
      have h1 := hpos' (blkOf x) (by simp)
      have h2 := hpos' (blkOf y) (by simp [List.mem_map_of_mem hy])
      simp only [blkDisj, blkOf] at this h1 h2
      omega

end UsualProofs.C09

namespace UsualProofs.C09
open Usual.C09

theorem same_ptr_eq {l : List Block} (hd : l.Pairwise blkDisj) (hpos : ∀ b ∈ l, 0 < b.len) {p x y : Nat}
    (hx : (⟨p, x⟩ : Block) ∈ l) (hy : (⟨p, y⟩ : Block) ∈ l) : x = y := by
  rcases pairwise_mem_cases hd hx hy with e | e | e
  · simpa using e
  · have h1 := hpos _ hx; have h2 := hpos _ hy
    simp only [blkDisj] at e h1 h2; omega
  · have h1 := hpos _ hx; have h2 := hpos _ hy
    simp only [blkDisj] at e h1 h2; omega

theorem shiftB_disj {a b : Block} (ha : treeHdr < a.len) (hb : treeHdr < b.len) (h : blkDisj a b) :
    blkDisj (shiftB a) (shiftB b) := by
  simp only [blkDisj, shiftB, treeHdr] at *; omega

/-- facts every well-formed tree-on-`P` state provides -/
theorem treeOn_facts {P : Sys} (hP : Fresh P) {s : (TreeOn P).σ} (hwf : (TreeOn P).WF s) :
    (collect ownIB s.1).Pairwise blkDisj ∧ (∀ b ∈ collect ownIB s.1, 0 < b.len) ∧
    (∀ b ∈ collect ownIB s.1, b ∈ P.live s.2) := by
  obtain ⟨_, hpw, hsz, rest, hc⟩ := hwf
  have hd := pairwise_blkDisj_perm hc.symm (hP.live_disj s.2 hpw)
  refine ⟨(List.pairwise_append.mp hd).1, ?_, fun b hb => hc.subset (List.mem_append_left _ hb)⟩
  intro b hb
  have := hsz b hb
  simp only [treeHdr] at this; omega

/-- the three collections after applying `f` at node `id`, when `f` adds blocks `LI` to the items,
    leaves the tree structs alone and keeps the ids -/
theorem upd_add {t n : TNode} {id : Nat} (hf : t.find id = some n) (hnd : t.ids.Nodup) (f : TNode → TNode)
    (LI : List Block) (hI : (collect ownIB (f n)).Perm (LI ++ collect ownIB n))
    (hH : collect ownHB (f n) = collect ownHB n) (hid : (f n).ids = n.ids) :
    (collect ownIB (t.update f id)).Perm (LI ++ collect ownIB t) ∧
    (collect ownHB (t.update f id)).Perm (collect ownHB t) ∧ (t.update f id).ids.Nodup := by
  obtain ⟨CI, hI1, hI2⟩ := decompFor ownIB hf hnd
  obtain ⟨CH, hH1, hH2⟩ := decompFor ownHB hf hnd
  obtain ⟨CK, hK1, hK2⟩ := decompFor ownI hf hnd
  refine ⟨?_, ?_, ?_⟩
  · refine (hI2 f).trans ((List.Perm.append_right _ hI).trans ?_)
    rw [List.append_assoc]
    exact List.Perm.append_left _ hI1.symm
  · have := hH2 f
    rw [hH] at this
    exact this.trans hH1.symm
  · have := hK2 f
    rw [← ids_eq_collect, ← ids_eq_collect, hid] at this
    rw [← ids_eq_collect, ← ids_eq_collect] at hK1
    exact (this.trans hK1.symm).nodup_iff.mpr hnd

/-- … and when `f` takes the block `x` away from the items -/
theorem upd_del {t n : TNode} {id : Nat} (hf : t.find id = some n) (hnd : t.ids.Nodup) (f : TNode → TNode)
    (x : Block) (hI : (collect ownIB n).Perm (x :: collect ownIB (f n)))
    (hH : collect ownHB (f n) = collect ownHB n) (hid : (f n).ids = n.ids) :
    (collect ownIB t).Perm (x :: collect ownIB (t.update f id)) ∧
    (collect ownHB (t.update f id)).Perm (collect ownHB t) ∧ (t.update f id).ids.Nodup := by
  obtain ⟨CI, hI1, hI2⟩ := decompFor ownIB hf hnd
  obtain ⟨CH, hH1, hH2⟩ := decompFor ownHB hf hnd
  obtain ⟨CK, hK1, hK2⟩ := decompFor ownI hf hnd
  refine ⟨?_, ?_, ?_⟩
  · refine hI1.trans ((List.Perm.append_right _ hI).trans ?_)
    simp only [List.cons_append]
    exact List.Perm.cons _ (hI2 f).symm
  · have := hH2 f
    rw [hH] at this
    exact this.trans hH1.symm
  · have := hK2 f
    rw [← ids_eq_collect, ← ids_eq_collect, hid] at this
    rw [← ids_eq_collect, ← ids_eq_collect] at hK1
    exact (this.trans hK1.symm).nodup_iff.mpr hnd

theorem find_of_mem {t : TNode} {id : Nat} (hm : id ∈ t.ids) (hnd : t.ids.Nodup) : ∃ n, t.find id = some n := by
  obtain ⟨n, C, hf, _⟩ := decomp ownI id t hm hnd
  exact ⟨n, hf⟩

/-- node-level Nodup of item addresses, from the state invariant -/
theorem node_addrs_nodup {P : Sys} (hP : Fresh P) {s : (TreeOn P).σ} (hwf : (TreeOn P).WF s)
    {id : Nat} {n : TNode} (hf : s.1.find id = some n) : (n.items.map (·.1)).Nodup := by
  obtain ⟨hd, hpos, _⟩ := treeOn_facts hP hwf
  obtain ⟨C, h1, _⟩ := decompFor ownIB hf hwf.1
  have hd' := (List.pairwise_append.mp (pairwise_blkDisj_perm h1 hd)).1
  exact item_addrs_nodup n hd' (fun b hb => hpos b (h1.symm.subset (List.mem_append_left _ hb)))

theorem item_live {P : Sys} (hP : Fresh P) {s : (TreeOn P).σ} (hwf : (TreeOn P).WF s)
    {id : Nat} {n : TNode} {a sz : Nat} (hf : s.1.find id = some n) (hm : (a, sz) ∈ n.items) :
    (⟨a, sz⟩ : Block) ∈ collect ownIB s.1 := by
  obtain ⟨C, h1, _⟩ := decompFor ownIB hf hwf.1
  apply h1.symm.subset
  apply List.mem_append_left
  cases n with
  | mk i h its subs =>
    simp only [collect_mk, ownIB, TNode.items] at *
    exact List.mem_append_left _ (List.mem_map.mpr ⟨(a, sz), hm, rfl⟩)

end UsualProofs.C09

namespace UsualProofs.C09
open Usual.C09

theorem treeReq_some {len req : Nat} (h : treeReq len = some req) : req = treeHdr + len ∧ 0 < req := by
  unfold treeReq at h
  split at h
  · cases h
  · simp only [Option.some.injEq] at h
    subst h
    exact ⟨rfl, by simp only [treeHdr]; omega⟩

/-- the client's blocks of a well-formed state are pairwise disjoint and non-empty -/
theorem fresh_treeOn_aux_disj {P : Sys} (hP : Fresh P) {s : (TreeOn P).σ} (hwf : (TreeOn P).WF s) :
    ((collect ownIB s.1).map shiftB).Pairwise blkDisj ∧ ∀ b ∈ (collect ownIB s.1).map shiftB, 0 < b.len := by
  obtain ⟨hd, _, _⟩ := treeOn_facts hP hwf
  refine ⟨List.pairwise_map.mpr (List.Pairwise.imp_of_mem ?_ hd), ?_⟩
  · intro a b ha hb hab
    exact shiftB_disj (hwf.2.2.1 a ha) (hwf.2.2.1 b hb) hab
  · intro b hb
    obtain ⟨x, hx, rfl⟩ := List.mem_map.mp hb
    have := hwf.2.2.1 x hx
    simp only [shiftB]; omega

/-- **the tree allocator preserves the fresh-memory contract** -/
theorem fresh_treeOn {P : Sys} (hP : Fresh P) : Fresh (TreeOn P) where
  live_disj := by
    intro s hwf
    obtain ⟨hd, _, _⟩ := treeOn_facts hP hwf
    refine List.pairwise_map.mpr (List.Pairwise.imp_of_mem ?_ hd)
    intro a b ha hb hab
    exact shiftB_disj (hwf.2.2.1 a ha) (hwf.2.2.1 b hb) hab
  live_pos := by
    intro s hwf b hb
    obtain ⟨x, hx, rfl⟩ := List.mem_map.mp hb
    have := hwf.2.2.1 x hx
    simp only [shiftB]; omega
  alloc_ok := by
    intro s len q s' hwf hlen hal
    obtain ⟨id, hid, pa, hc, hres⟩ := hal
    have hz : len ≠ 0 := by omega
    simp only [hz, if_false] at hc
    obtain ⟨hnd, hpw, hsz, rest, hcoup⟩ := hwf
    cases hreq : treeReq len with
    | none => simp [treeAlloc, hz, hreq] at hres
    | some req =>
      obtain ⟨hre, hrpos⟩ := treeReq_some hreq
      rw [hreq] at hc
      simp only [ParentCall] at hc
      subst hre
      cases pa with
      | none => simp [treeAlloc, hz, hreq] at hres
      | some a =>
        simp only [treeAlloc, hz, if_false, hreq] at hres
        obtain ⟨hs1, hq⟩ := hres
        simp only [Option.some.injEq] at hq
        obtain ⟨hpw', hperm⟩ := hP.alloc_ok s.2 _ a s'.2 hpw hrpos hc
        obtain ⟨n, hf⟩ := find_of_mem hid hnd
        obtain ⟨u1, u2, u3⟩ := upd_add hf hnd (treeAddItem a len) [⟨a, treeHdr + len⟩]
          (by simpa using addItem_IB a len n) (addItem_HB a len n) (addItem_ids a len n)
        simp only [List.singleton_append] at u1
        refine ⟨⟨by rw [hs1]; exact u3, hpw', ?_, rest, ?_⟩, ?_⟩
        · intro b hb
          rw [hs1] at hb
          rcases List.mem_cons.mp (u1.subset hb) with rfl | hb'
          · simp only [treeHdr]; omega
          · exact hsz b hb'
        · rw [hs1]
          refine ((List.Perm.append_right _ u1).trans ?_).trans hperm.symm
          simp only [List.cons_append]
          exact List.Perm.cons _ ((List.Perm.append_left _ (List.Perm.append_right _ u2)).trans hcoup)
        · show ((collect ownIB s'.1).map shiftB).Perm _
          rw [hs1]
          have := u1.map shiftB
          simp only [List.map_cons] at this
          refine this.trans ?_
          have he : shiftB ⟨a, treeHdr + len⟩ = ⟨q, len⟩ := by
            simp only [shiftB, Block.mk.injEq]; exact ⟨hq.symm, by omega⟩
          rw [he]
          exact List.Perm.refl _
  alloc_none := by
    intro s len s' hwf hal
    obtain ⟨id, hid, pa, hc, hres⟩ := hal
    obtain ⟨hnd, hpw, hsz, rest, hcoup⟩ := hwf
    -- the forest is unchanged in every failing case
    have hs1 : s'.1 = s.1 := by
      cases hta : treeAlloc s.1 id len pa with
      | none => rw [hta] at hres; exact hres.1
      | some r => rw [hta] at hres; obtain ⟨_, h2⟩ := hres; cases h2
    have hparent : P.WF s'.2 ∧ (P.live s'.2).Perm (P.live s.2) := by
      by_cases hz : len = 0
      · simp only [hz, if_true, ParentCall] at hc
        rw [hc.1]; exact ⟨hpw, List.Perm.refl _⟩
      · simp only [hz, if_false] at hc
        cases hreq : treeReq len with
        | none =>
          rw [hreq] at hc; simp only [ParentCall] at hc
          rw [hc.1]; exact ⟨hpw, List.Perm.refl _⟩
        | some req =>
          rw [hreq] at hc; simp only [ParentCall] at hc
          cases pa with
          | none => exact hP.alloc_none s.2 req s'.2 hpw hc
          | some a =>
            simp only [treeAlloc, hz, if_false, hreq] at hres
            obtain ⟨_, h2⟩ := hres; cases h2
    refine ⟨⟨by rw [hs1]; exact hnd, hparent.1, by rw [hs1]; exact hsz, rest, ?_⟩, ?_⟩
    · rw [hs1]; exact hcoup.trans hparent.2.symm
    · show ((collect ownIB s'.1).map shiftB).Perm _
      rw [hs1]; exact List.Perm.refl _
  free_ok := by
    intro s p nlen s' hwf hm hfr
    obtain ⟨id, n, a, sz, hf, hit, hp, hpf, hs1⟩ := hfr
    have hwf0 := hwf
    obtain ⟨hnd, hpw, hsz, rest, hcoup⟩ := hwf
    obtain ⟨hd, hpos, hlive⟩ := treeOn_facts hP hwf0
    have hblk := item_live hP hwf0 hf hit
    obtain ⟨hpw', hperm⟩ := hP.free_ok s.2 a sz s'.2 hpw (hlive _ hblk) hpf
    have haddr := node_addrs_nodup hP hwf0 hf
    obtain ⟨u1, u2, u3⟩ := upd_del hf hnd (treeDelItem (a + treeHdr)) ⟨a, sz⟩
      (delItem_IB n a sz hit haddr) (delItem_HB _ n) (delItem_ids _ n)
    have hs1' : s'.1 = s.1.update (treeDelItem (a + treeHdr)) id := by rw [hs1, hp]; rfl
    refine ⟨⟨by rw [hs1']; exact u3, hpw', ?_, rest, ?_⟩, ?_⟩
    · intro b hb
      rw [hs1'] at hb
      exact hsz b (u1.symm.subset (List.mem_cons_of_mem _ hb))
    · rw [hs1']
      -- x :: (IB' ++ HB' ++ rest) ~ IB ++ HB ++ rest ~ live sp ~ x :: live sp'
      have h1 : ((⟨a, sz⟩ : Block) :: (collect ownIB (s.1.update (treeDelItem (a + treeHdr)) id) ++
          (collect ownHB (s.1.update (treeDelItem (a + treeHdr)) id) ++ rest))).Perm (P.live s.2) := by
        refine (List.Perm.trans ?_ hcoup)
        rw [← List.cons_append]
        exact List.Perm.append (u1.symm) (List.Perm.append_right _ u2)
      exact List.Perm.cons_inv (h1.trans hperm.symm)
    · show ((⟨p, nlen⟩ : Block) :: (collect ownIB s'.1).map shiftB).Perm ((collect ownIB s.1).map shiftB)
      rw [hs1']
      have h1 := (u1.map shiftB).symm
      simp only [List.map_cons] at h1
      have he : shiftB ⟨a, sz⟩ = ⟨p, sz - treeHdr⟩ := by simp only [shiftB, hp]
      rw [he] at h1
      -- the given length is the length of that block
      have hl := (fresh_treeOn_aux_disj hP hwf0)
      have hmem : (⟨p, sz - treeHdr⟩ : Block) ∈ (collect ownIB s.1).map shiftB := h1.subset (List.mem_cons_self ..)
      have : nlen = sz - treeHdr := same_ptr_eq hl.1 hl.2 hm hmem
      rw [this]; exact h1
  realloc_ok := by
    intro s p nlen len q s' hwf hm hlen hre
    obtain ⟨id, n, a, sz, req, hf, hit, hp, hreq, pa, hpr, hs1, hr⟩ := hre
    have hwf0 := hwf
    obtain ⟨hnd, hpw, hsz, rest, hcoup⟩ := hwf
    obtain ⟨hd, hpos, hlive⟩ := treeOn_facts hP hwf0
    obtain ⟨hre', hrpos⟩ := treeReq_some hreq
    subst hre'
    have hblk := item_live hP hwf0 hf hit
    cases pa with
    | none => simp [treeRealloc, hreq] at hr
    | some a' =>
      simp only [treeRealloc, hreq, Option.some.injEq] at hr hs1
      obtain ⟨hpw', restP, hp1, hp2⟩ := hP.realloc_ok s.2 a sz _ a' s'.2 hpw (hlive _ hblk) hrpos hpr
      have haddr := node_addrs_nodup hP hwf0 hf
      rw [update_update _ _ (delItem_id _)] at hs1
      -- node level: n loses ⟨a,sz⟩ and gains ⟨a',req⟩
      obtain ⟨CI, hI1, hI2⟩ := decompFor ownIB hf hnd
      obtain ⟨CH, hH1, hH2⟩ := decompFor ownHB hf hnd
      obtain ⟨CK, hK1, hK2⟩ := decompFor ownI hf hnd
      let f := fun m => treeAddItem a' len (treeDelItem p m)
      have hdel := delItem_IB n a sz hit haddr
      rw [← hp] at hdel
      have hadd := addItem_IB a' len (treeDelItem p n)
      let D := collect ownIB (treeDelItem p n) ++ CI
      have hold : (collect ownIB s.1).Perm (⟨a, sz⟩ :: D) :=
        hI1.trans (by simpa [D] using List.Perm.append_right CI hdel)
      have hnew : (collect ownIB s'.1).Perm (⟨a', treeHdr + len⟩ :: D) := by
        rw [hs1]
        exact (hI2 f).trans (by simpa [D, f] using List.Perm.append_right CI hadd)
      have hHB : (collect ownHB s'.1).Perm (collect ownHB s.1) := by
        rw [hs1]
        have := hH2 f
        simp only [f, addItem_HB, delItem_HB] at this
        exact this.trans hH1.symm
      have hids : s'.1.ids.Nodup := by
        rw [hs1]
        have := hK2 f
        rw [← ids_eq_collect, ← ids_eq_collect] at this hK1
        simp only [f, addItem_ids, delItem_ids] at this
        exact (this.trans hK1.symm).nodup_iff.mpr hnd
      -- parent: D ++ HB ++ rest ~ restP
      have hD : (D ++ (collect ownHB s.1 ++ rest)).Perm restP := by
        have : ((⟨a, sz⟩ : Block) :: (D ++ (collect ownHB s.1 ++ rest))).Perm (⟨a, sz⟩ :: restP) := by
          rw [← List.cons_append]
          exact ((List.Perm.append_right _ hold.symm).trans hcoup).trans hp1
        exact List.Perm.cons_inv this
      refine ⟨⟨hids, hpw', ?_, rest, ?_⟩, D.map shiftB, ?_, ?_⟩
      · intro b hb
        rcases List.mem_cons.mp (hnew.subset hb) with rfl | hb'
        · simp only [treeHdr]; omega
        · exact hsz b (hold.symm.subset (List.mem_cons_of_mem _ hb'))
      · refine (List.Perm.trans ?_ hp2.symm)
        have : (collect ownIB s'.1 ++ (collect ownHB s'.1 ++ rest)).Perm
            ((⟨a', treeHdr + len⟩ : Block) :: (D ++ (collect ownHB s.1 ++ rest))) := by
          rw [← List.cons_append]
          exact List.Perm.append hnew (List.Perm.append_right _ hHB)
        exact this.trans (List.Perm.cons _ hD)
      · show ((collect ownIB s.1).map shiftB).Perm _
        have h1 := hold.map shiftB
        simp only [List.map_cons] at h1
        have he : shiftB ⟨a, sz⟩ = ⟨p, sz - treeHdr⟩ := by simp only [shiftB, hp]
        rw [he] at h1
        have hl := fresh_treeOn_aux_disj hP hwf0
        have hmem : (⟨p, sz - treeHdr⟩ : Block) ∈ (collect ownIB s.1).map shiftB := h1.symm.subset (List.mem_cons_self ..)
        have : nlen = sz - treeHdr := same_ptr_eq hl.1 hl.2 hm hmem
        rw [this]; exact h1
      · show ((collect ownIB s'.1).map shiftB).Perm _
        have h1 := hnew.map shiftB
        simp only [List.map_cons] at h1
        have he : shiftB ⟨a', treeHdr + len⟩ = ⟨q, len⟩ := by
          simp only [shiftB, Block.mk.injEq]; exact ⟨hr.symm, by omega⟩
        rw [he] at h1; exact h1
  realloc_none := by
    intro s p nlen len s' hwf hm hlen hre
    obtain ⟨id, n, a, sz, req, hf, hit, hp, hreq, pa, hpr, hs1, hr⟩ := hre
    have hwf0 := hwf
    obtain ⟨hnd, hpw, hsz, rest, hcoup⟩ := hwf
    obtain ⟨hd, hpos, hlive⟩ := treeOn_facts hP hwf0
    obtain ⟨hre', hrpos⟩ := treeReq_some hreq
    have hblk := item_live hP hwf0 hf hit
    cases pa with
    | some a' => simp [treeRealloc, hreq] at hr
    | none =>
      simp only [treeRealloc, hreq, hf] at hs1
      obtain ⟨hpw', hperm⟩ := hP.realloc_none s.2 a sz req s'.2 hpw (hlive _ hblk) hrpos hpr
      rw [update_update _ _ (delItem_id _)] at hs1
      let f := fun m => treeReaddItems (n.items.filter (fun it => it.1 + treeHdr == p)) (treeDelItem p m)
      obtain ⟨u1, u2, u3⟩ := upd_add hf hnd f []
        (by simpa [f] using readd_IB n p) (by simp [f, readd_HB, delItem_HB]) (by simp [f, readd_ids, delItem_ids])
      simp only [List.nil_append] at u1
      refine ⟨⟨by rw [hs1]; exact u3, hpw', ?_, rest, ?_⟩, ?_⟩
      · intro b hb
        rw [hs1] at hb
        exact hsz b (u1.subset hb)
      · rw [hs1]
        exact ((List.Perm.append u1 (List.Perm.append_right _ u2)).trans hcoup).trans hperm.symm
      · show ((collect ownIB s'.1).map shiftB).Perm _
        rw [hs1]; exact u1.map shiftB

end UsualProofs.C09

namespace UsualProofs.C09
open Usual.C09

/-! ### creation, new sub-trees, destroy on top of `P` -/

/-- `cx_new_tree(P)` -/
theorem treeOn_create {P : Sys} (hP : Fresh P) {sp sp' : P.σ} {id a : Nat} (hwf : P.WF sp)
    (hpa : P.alloc sp sizeofTree (some a) sp') : (TreeOn P).WF (.mk id a [] [], sp') := by
  obtain ⟨hwf', hperm⟩ := hP.alloc_ok sp _ a sp' hwf (by simp [sizeofTree]) hpa
  refine ⟨by simp [TNode.ids, idsL], hwf', by intro b hb; simp [collect_mk, ownIB, collectL] at hb,
    P.live sp, ?_⟩
  simp only [collect_mk, ownIB, ownHB, collectL, List.map_nil, List.nil_append, List.append_nil,
    List.singleton_append]
  exact hperm.symm

theorem addSub_IB (newId a : Nat) (n : TNode) : collect ownIB (treeAddSub newId a n) = collect ownIB n := by
  cases n with
  | mk i h its subs =>
    simp only [treeAddSub, collect_mk]
    congr 1
    induction subs with
    | nil => simp [collectL, collect_mk, ownIB]
    | cons t ts ih => simp only [List.cons_append, collectL, ih]

theorem addSub_HB (newId a : Nat) (n : TNode) :
    (collect ownHB (treeAddSub newId a n)).Perm (⟨a, sizeofTree⟩ :: collect ownHB n) := by
  cases n with
  | mk i h its subs =>
    simp only [treeAddSub, collect_mk, ownHB]
    have hl : ∀ ts : List TNode, collectL ownHB (ts ++ [.mk newId a [] []]) = collectL ownHB ts ++ [⟨a, sizeofTree⟩] := by
      intro ts
      induction ts with
      | nil => simp [collectL, collect, ownHB]
      | cons t ts ih => simp only [List.cons_append, collectL, ih, List.append_assoc]
    rw [hl, ← List.append_assoc]
    exact List.perm_append_singleton _ _

/-- `cx_new_tree(tree)` below any tree of the forest -/
theorem treeOn_newSub {P : Sys} (hP : Fresh P) {s : (TreeOn P).σ} {sp' : P.σ} {par newId a : Nat}
    (hwf : (TreeOn P).WF s) (hpar : par ∈ s.1.ids) (hnew : newId ∉ s.1.ids)
    (hpa : P.alloc s.2 sizeofTree (some a) sp') :
    (TreeOn P).WF (s.1.update (treeAddSub newId a) par, sp') := by
  obtain ⟨hnd, hpw, hsz, rest, hcoup⟩ := hwf
  obtain ⟨hwf', hperm⟩ := hP.alloc_ok s.2 _ a sp' hpw (by simp [sizeofTree]) hpa
  obtain ⟨n, hf⟩ := find_of_mem hpar hnd
  obtain ⟨CI, hI1, hI2⟩ := decompFor ownIB hf hnd
  obtain ⟨CH, hH1, hH2⟩ := decompFor ownHB hf hnd
  obtain ⟨CK, hK1, hK2⟩ := decompFor ownI hf hnd
  have hI : (collect ownIB (s.1.update (treeAddSub newId a) par)).Perm (collect ownIB s.1) := by
    have := hI2 (treeAddSub newId a)
    rw [addSub_IB] at this
    exact this.trans hI1.symm
  have hH : (collect ownHB (s.1.update (treeAddSub newId a) par)).Perm (⟨a, sizeofTree⟩ :: collect ownHB s.1) := by
    refine (hH2 (treeAddSub newId a)).trans ((List.Perm.append_right _ (addSub_HB newId a n)).trans ?_)
    simp only [List.cons_append]
    exact List.Perm.cons _ hH1.symm
  have hK : (s.1.update (treeAddSub newId a) par).ids.Perm (newId :: s.1.ids) := by
    have h1 := hK2 (treeAddSub newId a)
    rw [← ids_eq_collect, ← ids_eq_collect] at h1 hK1
    refine h1.trans ((List.Perm.append_right _ (addSub_ids newId a n)).trans ?_)
    simp only [List.cons_append]
    exact List.Perm.cons _ hK1.symm
  refine ⟨hK.nodup_iff.mpr (List.nodup_cons.mpr ⟨hnew, hnd⟩), hwf', fun b hb => hsz b (hI.subset hb), rest, ?_⟩
  refine (List.Perm.append hI (List.Perm.append_right _ hH)).trans ?_
  simp only [List.cons_append]
  exact (List.perm_middle).trans ((List.Perm.cons _ hcoup).trans hperm.symm)

mutual
/-- `tree_destroy`: the blocks passed to `cx_free(real, …)`, in call order -/
def destroyB : TNode → List Block
  | .mk _ h its subs => its.map blkOf ++ destroyBL subs ++ [⟨h, sizeofTree⟩]
def destroyBL : List TNode → List Block
  | [] => []
  | t :: ts => destroyB t ++ destroyBL ts
end

mutual
theorem destroyB_ptrs : ∀ t : TNode, (destroyB t).map (·.ptr) = t.destroyList
  | .mk i h its subs => by
    simp only [destroyB, TNode.destroyList, List.map_append, List.map_map, destroyBL_ptrs subs,
      List.map_cons, List.map_nil]
    congr 2
theorem destroyBL_ptrs : ∀ ts : List TNode, (destroyBL ts).map (·.ptr) = destroyListL ts
  | [] => by simp [destroyBL, destroyListL]
  | t :: ts => by simp only [destroyBL, destroyListL, List.map_append, destroyB_ptrs t, destroyBL_ptrs ts]
end

mutual
theorem destroyB_perm : ∀ t : TNode, (destroyB t).Perm (collect ownIB t ++ collect ownHB t)
  | .mk i h its subs => by
    simp only [destroyB, collect_mk, ownIB, ownHB]
    have ih := destroyBL_perm subs
    -- its ++ D ++ [h]  ~  (its ++ IBs) ++ ([h] ++ HBs)
    have h1 : (its.map blkOf ++ destroyBL subs ++ [(⟨h, sizeofTree⟩ : Block)]).Perm
        (its.map blkOf ++ (collectL ownIB subs ++ collectL ownHB subs) ++ [(⟨h, sizeofTree⟩ : Block)]) :=
      List.Perm.append_right _ (List.Perm.append_left _ ih)
    refine h1.trans ?_
    simp only [List.append_assoc]
    refine List.Perm.append_left _ (List.Perm.append_left _ ?_)
    exact List.perm_append_comm
theorem destroyBL_perm : ∀ ts : List TNode, (destroyBL ts).Perm (collectL ownIB ts ++ collectL ownHB ts)
  | [] => by simp [destroyBL, collectL]
  | t :: ts => by
    simp only [destroyBL, collectL]
    have h1 := List.Perm.append (destroyB_perm t) (destroyBL_perm ts)
    refine h1.trans ?_
    simp only [List.append_assoc]
    refine List.Perm.append_left _ ?_
    rw [← List.append_assoc, ← List.append_assoc]
    exact List.Perm.append_right _ List.perm_append_comm
end

/-- `cx_destroy(root)` on top of `P`: all blocks passed to `cx_free(P, …)` were live in `P`,
    and `P` is left with exactly what it held without them -/
theorem treeOn_destroy {P : Sys} (hP : Fresh P) {s : (TreeOn P).σ} {sp' : P.σ} (hwf : (TreeOn P).WF s)
    (hd : FreeAll P s.2 (destroyB s.1) sp') :
    (destroyB s.1).map (·.ptr) = s.1.destroyList ∧ P.WF sp' ∧
    ∃ rest, (P.live s.2).Perm (destroyB s.1 ++ rest) ∧ rest.Perm (P.live sp') := by
  obtain ⟨_, hpw, _, rest, hcoup⟩ := hwf
  have hperm : (destroyB s.1 ++ rest).Perm (P.live s.2) := by
    refine (List.Perm.append_right _ (destroyB_perm s.1)).trans ?_
    rw [List.append_assoc]; exact hcoup
  obtain ⟨hwf', hp'⟩ := freeAll_ok hP hpw hperm hd
  exact ⟨destroyB_ptrs s.1, hwf', rest, hperm.symm, hp'⟩

/-- `cx_destroy(sub-tree)` on top of `P`: the rest of the forest stays well-formed -/
theorem treeOn_destroySub {P : Sys} (hP : Fresh P) {s : (TreeOn P).σ} {sp' : P.σ} {id : Nat} {n : TNode}
    (hwf : (TreeOn P).WF s) (hsub : id ∈ idsL s.1.subs) (hf : s.1.find id = some n)
    (hd : FreeAll P s.2 (destroyB n) sp') :
    (TreeOn P).WF (s.1.remove id, sp') := by
  obtain ⟨hnd, hpw, hsz, rest, hcoup⟩ := hwf
  obtain ⟨n1, hf1, _, hI⟩ := decompRemove ownIB id s.1 hsub hnd
  obtain ⟨n2, hf2, _, hH⟩ := decompRemove ownHB id s.1 hsub hnd
  obtain ⟨n3, hf3, _, hK⟩ := decompRemove ownI id s.1 hsub hnd
  rw [hf] at hf1 hf2 hf3; cases hf1; cases hf2; cases hf3
  have hperm : (destroyB n ++ (collect ownIB (s.1.remove id) ++ (collect ownHB (s.1.remove id) ++ rest))).Perm
      (P.live s.2) := by
    refine List.Perm.trans ?_ hcoup
    refine (List.Perm.append_right _ (destroyB_perm n)).trans ?_
    -- (IBn ++ HBn) ++ (IB' ++ (HB' ++ rest))  ~  (IBn ++ IB') ++ ((HBn ++ HB') ++ rest)
    have e1 := List.Perm.append hI.symm (List.Perm.append_right rest hH.symm)
    refine List.Perm.trans ?_ e1
    simp only [List.append_assoc]
    refine List.Perm.append_left _ ?_
    rw [← List.append_assoc, ← List.append_assoc (collect ownIB (s.1.remove id))]
    exact List.Perm.append_right _ List.perm_append_comm
  obtain ⟨hwf', hp'⟩ := freeAll_ok hP hpw hperm hd
  rw [← ids_eq_collect, ← ids_eq_collect, ← ids_eq_collect] at hK
  refine ⟨(List.nodup_append.mp (hK.nodup_iff.mp hnd)).2.1, hwf', ?_, rest, hp'⟩
  intro b hb
  exact hsz b (hI.symm.subset (List.mem_append_right _ hb))

end UsualProofs.C09
