import Usual.C09.SafeMul
/-! `safe_mul_*` is exact: it succeeds iff the product fits, and then stores the product. -/
namespace UsualProofs.C09
open Usual.C09

theorem safeMul_eq (w a b : Nat) (hw : w % 2 = 0) (_ha : a < 2 ^ w) (_hb : b < 2 ^ w) :
    safeMul w a b = (if a * b < 2 ^ w then some (a * b) else none) := by
  have hpos : 0 < 2 ^ w := Nat.two_pow_pos w
  have hsq : 2 ^ (w / 2) * 2 ^ (w / 2) = 2 ^ w := by
    rw [← Nat.pow_add]; congr 1; omega
  unfold safeMul safeMulCore
  simp only [Nat.one_shiftLeft]
  split
  · next h =>
    have : a * b < 2 ^ w := by
      calc a * b < 2 ^ (w/2) * 2 ^ (w/2) := Nat.mul_lt_mul'' h.1 h.2
        _ = 2 ^ w := hsq
    simp [this, Nat.mod_eq_of_lt this]
  · split
    · next _ h =>
      have : a * b = 0 := by rcases h with h | h <;> simp [h]
      simp [this, hpos]
    · next _ h0 =>
      have ha0 : 0 < a := by omega
      split
      · next h =>
        have : a * b ≤ 2 ^ w - 1 := by
          have := (Nat.le_div_iff_mul_le ha0).mp h
          rw [Nat.mul_comm]; exact this
        have hlt : a * b < 2 ^ w := by omega
        simp [hlt, Nat.mod_eq_of_lt hlt]
      · next h =>
        have : ¬ a * b < 2 ^ w := by
          intro hlt
          apply h
          apply (Nat.le_div_iff_mul_le ha0).mpr
          rw [Nat.mul_comm]; omega
        simp [this]

end UsualProofs.C09
