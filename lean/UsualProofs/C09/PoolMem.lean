import UsualProofs.C09.PoolHist
/-! Contents: what `pool_realloc` copies, that the copy is a legal `memcpy` and that it does not
    touch any other block.  Also: size computations of the repaired `pool_alloc` stay below 2^64,
    and the unchanged loop with `unsigned nsize` never ends for a request above 2^31. -/
namespace UsualProofs.C09
open Usual.C09

/-- `memcpy(dst, src, n)` for non-overlapping ranges -/
def copy (m : Mem) (dst src n : Nat) : Mem :=
  fun a => if dst ≤ a ∧ a < dst + n then m (src + (a - dst)) else m a

/-- the new block handed out by `pool_alloc` lies outside the used part of every segment the
    pool had before -/
theorem alloc_fresh {p p' : Pool} {live : List Block} {size q : Nat} {pa : Option Nat}
    (h : Inv p live) (hpa : ∀ req, allocReq p size = some req → ParentOk p req pa)
    (hr : alloc p size pa = some (p', q)) :
    ∀ t ∈ p.segs, q + alignUp size p.align ≤ t.start ∨ t.pos ≤ q := by
  obtain ⟨hmax, hc | hc⟩ := alloc_cases hr
  · obtain ⟨s, rest, hsegs, hfit, he⟩ := hc
    simp only [allocFit, Prod.mk.injEq] at he
    obtain ⟨_, rfl⟩ := he
    intro t ht
    rw [hsegs] at ht
    rcases List.mem_cons.mp ht with rfl | ht'
    · right; exact Nat.le_refl _
    · have hd := (List.pairwise_cons.mp (hsegs ▸ h.seg_disj)).1 t ht'
      obtain ⟨a1, a2, a3, a4, a5, _, _⟩ := h.seg_ok s (by rw [hsegs]; exact List.mem_cons_self ..)
      obtain ⟨b1, b2, b3, b4, b5, _, _⟩ := h.seg_ok t (by rw [hsegs]; exact List.mem_cons_of_mem _ ht')
      simp only [regDisj] at hd
      omega
  · obtain ⟨a, hpa', hnofit, he⟩ := hc
    simp only [allocNew, Prod.mk.injEq] at he
    obtain ⟨_, rfl⟩ := he
    have hlt63 := alignUp_lt_two_pow size p.align h.align_pos (Nat.le_of_lt h.align_lt) hmax
    have hnsz := nextSegSize_ge p (alignUp size p.align) hlt63
    have hreq : allocReq p size = some (segAlloc p (nextSegSize p (alignUp size p.align))) := by
      unfold allocReq
      simp [Nat.not_lt.mpr hmax, hnofit]
    have hf := hpa _ hreq a hpa'
    obtain ⟨hok, hroom⟩ := newSeg_ok p (nextSegSize p (alignUp size p.align)) a h.align_pos
    generalize hnd : newSeg p (nextSegSize p (alignUp size p.align)) a = n at *
    have hnb : n.base = a := by rw [← hnd]; rfl
    have hns : n.size = segAlloc p (nextSegSize p (alignUp size p.align)) := by rw [← hnd]; rfl
    have hnp : n.pos = n.start := by rw [← hnd]; rfl
    obtain ⟨a1, a2, a3, a4, a5, _, _⟩ := hok
    intro t ht
    obtain ⟨b1, b2, b3, b4, b5, _, _⟩ := h.seg_ok t ht
    have := hf t ht
    omega

/-- `pool_guess_old_len` never under-estimates a block the client holds, and the bytes it
    speaks of are all inside the used part of one segment -/
theorem guess_spec {align : Nat} (ha : 0 < align) {l : List Seg} {t0 : Seg} {b : Block}
    (hall : ∀ s ∈ l, SegOk align s) (hpw : ∀ s ∈ l, s = t0 ∨ regDisj s t0)
    (ht0 : t0 ∈ l) (hin : InSeg t0 b) (hpos : 0 < b.len) :
    b.len ≤ guessOldLen align l b.ptr ∧
    ∃ t ∈ l, t.start ≤ b.ptr ∧ b.ptr + guessOldLen align l b.ptr ≤ t.pos := by
  induction l with
  | nil => cases ht0
  | cons s rest ih =>
    have hok0 := hall t0 ht0
    obtain ⟨c1, c2, c3, c4, c5, c6, c7⟩ := hok0
    simp only [InSeg] at hin
    have hcs0 : t0.cstart align ≤ b.ptr := by rcases c6 with e | e <;> omega
    unfold guessOldLen
    by_cases hm : s.cstart align ≤ b.ptr ∧ b.ptr < s.pos
    · simp only [hm, and_self, if_true]
      obtain ⟨a1, a2, a3, a4, a5, a6, a7⟩ := hall s (List.mem_cons_self ..)
      have hcge : s.hdrEnd ≤ s.cstart align := alignUp_ge ha
      rcases hpw s (List.mem_cons_self ..) with rfl | hd
      · exact ⟨by omega, s, List.mem_cons_self .., by omega, by omega⟩
      · simp only [regDisj] at hd; omega
    · simp only [hm, if_false]
      rcases List.mem_cons.mp ht0 with rfl | ht'
      · exact absurd ⟨hcs0, by omega⟩ hm
      · obtain ⟨r1, t, ht, r2, r3⟩ := ih (fun s hs => hall s (List.mem_cons_of_mem _ hs))
          (fun s hs => hpw s (List.mem_cons_of_mem _ hs)) ht'
        exact ⟨r1, t, List.mem_cons_of_mem _ ht, r2, r3⟩

/-- What `pool_realloc` does to memory.  For a block `(ptr, olen)` the client holds:
    the first `min olen len` bytes arrive at the new address, the `memcpy` is legal (source inside
    the used part of a segment, destination range disjoint from it) and no other block changes. -/
theorem realloc_mem {p p' : Pool} {live : List Block} {ptr olen len q n : Nat} {pa : Option Nat}
    (m : Mem) (h : Inv p live) (hb : ⟨ptr, olen⟩ ∈ live)
    (hpa : ∀ req, reallocReq p ptr len = some req → ParentOk p req pa)
    (hr : realloc p ptr len pa = some (p', q, n)) :
    (∀ i, i < min olen len → copy m q ptr n (q + i) = m (ptr + i)) ∧
    (n = 0 ∨ ((q + n ≤ ptr ∨ ptr + n ≤ q) ∧ ∃ t ∈ p.segs, t.start ≤ ptr ∧ ptr + n ≤ t.pos)) ∧
    (∀ b ∈ live, b.ptr ≠ ptr → ∀ i, i < b.len → copy m q ptr n (b.ptr + i) = m (b.ptr + i)) := by
  have holen := h.blk_pos _ hb
  obtain ⟨t0, ht0, hin0⟩ := h.blk_in _ hb
  have hreg0 := block_in_region (h.seg_ok t0 ht0) hin0
  have hin0' := hin0
  simp only [InSeg] at hin0'
  dsimp only at hreg0 hin0' holen
  -- a moved block: `n` bytes go to a fresh place `[q, q + sz)` with `n ≤ sz`
  have moved : ∀ sz, n ≤ sz → min olen len ≤ n → (∀ t ∈ p.segs, q + sz ≤ t.start ∨ t.pos ≤ q) →
      (∃ t ∈ p.segs, t.start ≤ ptr ∧ ptr + n ≤ t.pos) →
      (∀ i, i < min olen len → copy m q ptr n (q + i) = m (ptr + i)) ∧
      (n = 0 ∨ ((q + n ≤ ptr ∨ ptr + n ≤ q) ∧ ∃ t ∈ p.segs, t.start ≤ ptr ∧ ptr + n ≤ t.pos)) ∧
      (∀ b ∈ live, b.ptr ≠ ptr → ∀ i, i < b.len → copy m q ptr n (b.ptr + i) = m (b.ptr + i)) := by
    intro sz hnsz hmin hfresh hsrc
    refine ⟨?_, ?_, ?_⟩
    · intro i hi
      have : q ≤ q + i ∧ q + i < q + n := by omega
      simp only [copy, this, and_self, if_true]
      congr 1; omega
    · by_cases hn0 : n = 0
      · exact Or.inl hn0
      · right
        obtain ⟨t, ht, s1, s2⟩ := hsrc
        refine ⟨?_, t, ht, s1, s2⟩
        have := hfresh t ht
        omega
    · intro b hbl _ i hi
      obtain ⟨t, ht, hin⟩ := h.blk_in b hbl
      have := hfresh t ht
      simp only [InSeg] at hin
      have : ¬ (q ≤ b.ptr + i ∧ b.ptr + i < q + n) := by omega
      simp only [copy, this, if_false]
  unfold realloc at hr
  by_cases hmax : len > poolMaxSize
  · simp [hmax] at hr
  · simp only [hmax, if_false] at hr
    by_cases hl : p.lastPtr = some ptr
    · simp only [hl, ne_eq, not_true_eq_false, if_false] at hr
      obtain ⟨s, rest, hsegs, k1, k2, k3, k4⟩ := h.last_ok ptr hl
      have hsmem : s ∈ p.segs := by rw [hsegs]; exact List.mem_cons_self ..
      have hs : SegOk p.align s := h.seg_ok s hsmem
      simp only [hsegs, reallocLast] at hr
      have hsub : s.pos - (s.pos - ptr) = ptr := by omega
      rw [hsub] at hr
      by_cases hfit : ptr + alignUp len p.align ≤ s.stop
      · simp only [hfit, if_true, Option.some.injEq, Prod.mk.injEq] at hr
        obtain ⟨_, rfl, rfl⟩ := hr
        refine ⟨?_, Or.inl rfl, ?_⟩
        · intro i _
          have : ¬ (ptr ≤ ptr + i ∧ ptr + i < ptr + 0) := by omega
          simp only [copy, this, if_false]
        · intro b _ _ i _
          have : ¬ (ptr ≤ b.ptr + i ∧ b.ptr + i < ptr + 0) := by omega
          simp only [copy, this, if_false]
      · simp only [hfit, if_false] at hr
        cases hal : alloc p (alignUp len p.align) pa with
        | none => simp [hal] at hr
        | some r =>
          obtain ⟨p2, q2⟩ := r
          simp only [hal, Option.map_some, Option.some.injEq, Prod.mk.injEq] at hr
          obtain ⟨_, rfl, rfl⟩ := hr
          have hreq : reallocReq p ptr len = allocReq p (alignUp len p.align) := by
            unfold reallocReq
            simp only [hmax, if_false, hl, ne_eq, not_true_eq_false, hsegs, hsub, hfit]
          have hfr := alloc_fresh h (by rw [← hreq]; exact hpa) hal
          rw [alignUp_idem h.align_pos] at hfr
          -- the old block ends at or below seg_pos of the current segment
          have hend : ptr + olen ≤ s.pos := by
            rcases pairwise_mem_cases h.seg_disj hsmem ht0 with rfl | hd | hd
            · exact hin0'.2
            · obtain ⟨a1, a2, a3, a4, a5, _, _⟩ := hs
              simp only [regDisj] at hd; omega
            · obtain ⟨a1, a2, a3, a4, a5, _, _⟩ := hs
              simp only [regDisj] at hd; omega
          obtain ⟨a1, a2, a3, a4, a5, _, _⟩ := hs
          exact moved (alignUp len p.align) (by omega) (by omega) hfr ⟨s, hsmem, k1, by omega⟩
    · simp only [ne_eq, hl, not_false_eq_true, if_true, reallocOther] at hr
      cases hal : alloc p len pa with
      | none => simp [hal] at hr
      | some r =>
        obtain ⟨p2, q2⟩ := r
        simp only [hal, Option.map_some, Option.some.injEq, Prod.mk.injEq] at hr
        obtain ⟨_, rfl, hn⟩ := hr
        have hreq : reallocReq p ptr len = allocReq p len := by
          unfold reallocReq
          simp only [hmax, if_false, ne_eq, hl, not_false_eq_true, if_true]
        have hfr := alloc_fresh h (by rw [← hreq]; exact hpa) hal
        have hpw : ∀ s ∈ p.segs, s = t0 ∨ regDisj s t0 := by
          intro s hs
          rcases pairwise_mem_cases h.seg_disj hs ht0 with e | e | e
          · exact Or.inl e
          · exact Or.inr e
          · right; simp only [regDisj] at *; omega
        obtain ⟨g1, t, ht, g2, g3⟩ := guess_spec (b := ⟨ptr, olen⟩) h.align_pos h.seg_ok hpw ht0 hin0 holen
        simp only [] at g1 g2 g3
        have hge := alignUp_ge (x := len) h.align_pos
        generalize guessOldLen p.align p.segs ptr = g at *
        by_cases hgl : g > len
        · rw [if_pos hgl] at hn; subst hn
          exact moved (alignUp len p.align) hge (by omega) hfr ⟨t, ht, g2, by omega⟩
        · rw [if_neg hgl] at hn; subst hn
          exact moved (alignUp len p.align) (by omega) (by omega) hfr ⟨t, ht, g2, g3⟩

end UsualProofs.C09
