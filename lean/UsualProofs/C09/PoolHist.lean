import UsualProofs.C09.PoolInv
/-! pool_free / pool_realloc keep the invariant; histories of client operations. -/
namespace UsualProofs.C09
open Usual.C09

/-- the blocks the client still holds after giving up the one at `ptr` -/
def dropPtr (live : List Block) (ptr : Nat) : List Block := live.filter (fun b => b.ptr != ptr)

theorem mem_dropPtr {live : List Block} {ptr : Nat} {b : Block} :
    b ∈ dropPtr live ptr ↔ b ∈ live ∧ b.ptr ≠ ptr := by
  simp [dropPtr]

/-- moving `seg_pos` of the current segment to `np` (free of the last block: `np = q`;
    in-place realloc: `np = q + alen`) and registering the last block anew with length `l`
    (`l = 0`: not at all) -/
theorem move_pos_inv {align : Nat} {s : Seg} {rest : List Seg} {af : Bool} {live : List Block}
    {q np : Nat}
    (h : Inv { align := align, segs := s :: rest, lastPtr := some q, allowFree := af } live)
    (hnp1 : q ≤ np) (hnp2 : np ≤ s.stop) (hnpal : np % align = 0) :
    Inv { align := align, segs := { s with pos := np } :: rest, lastPtr := none, allowFree := af }
      (dropPtr live q) ∧
    ∀ l, 0 < l → q + l ≤ np →
    Inv { align := align, segs := { s with pos := np } :: rest, lastPtr := some q, allowFree := af }
      (⟨q, l⟩ :: dropPtr live q) := by
  obtain ⟨s0, rest0, hs0, k1, k2, k3, k4⟩ := h.last_ok q rfl
  simp only [List.cons.injEq] at hs0
  obtain ⟨rfl, rfl⟩ := hs0
  have hs : SegOk align s := h.seg_ok s (List.mem_cons_self ..)
  obtain ⟨g1, g2, g3, g4, g5, g6, g7⟩ := hs
  have hdisj := List.pairwise_cons.mp h.seg_disj
  have hd := h.filter (fun b => b.ptr != q)
  -- every remaining block that lies in `s` ends at or below `q`
  have hbelow : ∀ b ∈ dropPtr live q, InSeg s b → b.ptr + b.len ≤ q := by
    intro b hb hin
    obtain ⟨hbl, hne⟩ := mem_dropPtr.mp hb
    have hp := h.blk_pos b hbl
    rcases k4 b hbl with e | e | e
    · exact absurd e hne
    · exact e
    · simp only [InSeg] at hin; omega
  have segok' : ∀ t ∈ ({ s with pos := np } :: rest), SegOk align t := by
    intro t ht
    rcases List.mem_cons.mp ht with rfl | ht'
    · exact ⟨g1, g2, by simp only []; omega, by simp only []; omega, g5, g6, Or.inl hnpal⟩
    · exact h.seg_ok t (List.mem_cons_of_mem _ ht')
  have segdisj' : ({ s with pos := np } :: rest).Pairwise regDisj :=
    List.pairwise_cons.mpr ⟨fun t ht => hdisj.1 t ht, hdisj.2⟩
  have blkin' : ∀ b ∈ dropPtr live q, ∃ t ∈ ({ s with pos := np } :: rest), InSeg t b := by
    intro b hb
    obtain ⟨t, ht, hin⟩ := hd.blk_in b hb
    rcases List.mem_cons.mp ht with rfl | ht'
    · have := hbelow b hb hin
      exact ⟨_, List.mem_cons_self .., by simp only [InSeg] at *; omega⟩
    · exact ⟨t, List.mem_cons_of_mem _ ht', hin⟩
  constructor
  · exact { align_pos := h.align_pos, align_lt := h.align_lt, seg_ok := segok', seg_disj := segdisj',
            blk_pos := hd.blk_pos, blk_al := hd.blk_al, blk_in := blkin', blk_disj := hd.blk_disj,
            last_ok := by intro q' hq'; cases hq' }
  · intro l hl hle
    -- how the remaining blocks lie relative to the last block
    have hrel : ∀ b ∈ dropPtr live q, b.ptr + b.len ≤ q ∨ s.stop ≤ b.ptr := by
      intro b hb
      obtain ⟨hbl, hne⟩ := mem_dropPtr.mp hb
      rcases k4 b hbl with e | e | e
      · exact absurd e hne
      · exact Or.inl e
      · exact Or.inr e
    constructor
    · exact h.align_pos
    · exact h.align_lt
    · exact segok'
    · exact segdisj'
    · intro b hb
      rcases List.mem_cons.mp hb with rfl | hb'
      · exact hl
      · exact hd.blk_pos b hb'
    · intro b hb
      rcases List.mem_cons.mp hb with rfl | hb'
      · exact k3
      · exact hd.blk_al b hb'
    · intro b hb
      rcases List.mem_cons.mp hb with rfl | hb'
      · exact ⟨_, List.mem_cons_self .., by simp only [InSeg]; omega⟩
      · exact blkin' b hb'
    · apply List.pairwise_cons.mpr
      refine ⟨?_, hd.blk_disj⟩
      intro b hb
      have := hrel b hb
      simp only [blkDisj]; omega
    · intro q' hq'
      simp only [Option.some.injEq] at hq'
      subst hq'
      refine ⟨_, rest, rfl, k1, by simp only []; omega, k3, ?_⟩
      intro b hb
      rcases List.mem_cons.mp hb with rfl | hb'
      · left; rfl
      · right; exact hrel b hb'

/-- `pool_free` keeps the invariant (the client gives up the block at `ptr`) -/
theorem free_inv {p : Pool} {live : List Block} {ptr : Nat} (h : Inv p live) :
    Inv (free p ptr) (dropPtr live ptr) := by
  unfold free
  by_cases hl : p.lastPtr = some ptr
  · simp only [hl, ne_eq, not_true_eq_false, if_false]
    obtain ⟨s, rest, hsegs, k1, k2, k3, _⟩ := h.last_ok ptr hl
    have hs : SegOk p.align s := h.seg_ok s (by rw [hsegs]; exact List.mem_cons_self ..)
    have h' : Inv { align := p.align, segs := s :: rest, lastPtr := some ptr, allowFree := p.allowFree } live := by
      rw [← hsegs, ← hl]; exact h
    rw [hsegs]
    exact (move_pos_inv h' (Nat.le_refl _) (by have := hs.2.2.2.1; omega) k3).1
  · simp only [ne_eq, hl, not_false_eq_true, if_true]
    exact h.filter _

theorem cons_dropPtr_sublist (b : Block) (live : List Block) (ptr : Nat) :
    (b :: dropPtr live ptr).Sublist (b :: live) :=
  List.Sublist.cons_cons _ List.filter_sublist

/-- `pool_realloc` keeps the invariant: the client gives up the block at `ptr` and holds the
    returned one with its new length -/
theorem realloc_inv {p p' : Pool} {live : List Block} {ptr len q n : Nat} {pa : Option Nat}
    (h : Inv p live) (hlen : 0 < len)
    (hpa : ∀ req, reallocReq p ptr len = some req → ParentOk p req pa)
    (hr : realloc p ptr len pa = some (p', q, n)) : Inv p' (⟨q, len⟩ :: dropPtr live ptr) := by
  unfold realloc at hr
  by_cases hmax : len > poolMaxSize
  · simp [hmax] at hr
  · simp only [hmax, if_false] at hr
    by_cases hl : p.lastPtr = some ptr
    · simp only [hl, ne_eq, not_true_eq_false, if_false] at hr
      obtain ⟨s, rest, hsegs, k1, k2, k3, _⟩ := h.last_ok ptr hl
      have hs : SegOk p.align s := h.seg_ok s (by rw [hsegs]; exact List.mem_cons_self ..)
      simp only [hsegs, reallocLast] at hr
      have hsub : s.pos - (s.pos - ptr) = ptr := by omega
      rw [hsub] at hr
      by_cases hfit : ptr + alignUp len p.align ≤ s.stop
      · simp only [hfit, if_true, Option.some.injEq, Prod.mk.injEq] at hr
        obtain ⟨rfl, rfl, _⟩ := hr
        have h' : Inv { align := p.align, segs := s :: rest, lastPtr := some ptr, allowFree := p.allowFree } live := by
          rw [← hsegs, ← hl]; exact h
        have := (move_pos_inv h' (np := ptr + alignUp len p.align) (by omega) hfit
          (add_alignUp_mod h.align_pos k3)).2 len hlen
          (by have := alignUp_ge (x := len) h.align_pos; omega)
        rw [hl]; exact this
      · simp only [hfit, if_false] at hr
        cases hal : alloc p (alignUp len p.align) pa with
        | none => simp [hal] at hr
        | some r =>
          obtain ⟨p2, q2⟩ := r
          simp only [hal, Option.map_some, Option.some.injEq, Prod.mk.injEq] at hr
          obtain ⟨rfl, rfl, _⟩ := hr
          have hreq : reallocReq p ptr len = allocReq p (alignUp len p.align) := by
            unfold reallocReq
            simp only [hmax, if_false, hl, ne_eq, not_true_eq_false, hsegs, hsub, hfit]
          have hge := alignUp_ge (x := len) h.align_pos
          have hge2 := alignUp_ge (x := alignUp len p.align) h.align_pos
          have := alloc_inv (l := len) h (by rw [← hreq]; exact hpa) hlen (by omega) hal
          exact this.sublist (cons_dropPtr_sublist _ _ _)
    · simp only [ne_eq, hl, not_false_eq_true, if_true, reallocOther] at hr
      cases hal : alloc p len pa with
      | none => simp [hal] at hr
      | some r =>
        obtain ⟨p2, q2⟩ := r
        simp only [hal, Option.map_some, Option.some.injEq, Prod.mk.injEq] at hr
        obtain ⟨rfl, rfl, _⟩ := hr
        have hreq : reallocReq p ptr len = allocReq p len := by
          unfold reallocReq
          simp only [hmax, if_false, ne_eq, hl, not_false_eq_true, if_true]
        have hge := alignUp_ge (x := len) h.align_pos
        have := alloc_inv (l := len) h (by rw [← hreq]; exact hpa) hlen hge hal
        exact this.sublist (cons_dropPtr_sublist _ _ _)

end UsualProofs.C09

namespace UsualProofs.C09
open Usual.C09

/-! ### creation -/

theorem isPowerOf2_pos {n : Nat} (h : isPowerOf2 n = true) : 0 < n := by
  unfold isPowerOf2 at h
  simp only [Bool.and_eq_true, decide_eq_true_eq] at h
  exact h.1

theorem fromArea_inv {buf size align : Nat} {af : Bool} {p : Pool} (hal : align < 2 ^ 32)
    (h : fromArea buf size af align = some p) : Inv p [] ∧ p.allowFree = af ∧
      ∃ s, p.segs = [s] ∧ s.region = (buf, size) := by
  unfold fromArea at h
  by_cases h1 : size < sizeofPool
  · simp [h1] at h
  · simp only [h1, if_false] at h
    by_cases h2 : align ≠ 0 ∧ isPowerOf2 align = false
    · simp [h2] at h
    · simp only [h2, if_false, Option.some.injEq] at h
      subst h
      have hapos : 0 < (if align = 0 then 8 else align) := by
        split
        · omega
        · rename_i hne
          have : isPowerOf2 align = true := by
            cases hp : isPowerOf2 align with
            | true => rfl
            | false => exact absurd ⟨hne, hp⟩ h2
          exact isPowerOf2_pos this
      have halt : (if align = 0 then 8 else align) < 2 ^ 32 := by split <;> omega
      generalize (if align = 0 then 8 else align) = al at *
      have hge := alignUp_ge (x := buf + sizeofPool) hapos
      have hmod := alignUp_mod (x := buf + sizeofPool) hapos
      refine ⟨?_, rfl, _, rfl, rfl⟩
      constructor
      · exact hapos
      · exact halt
      · intro s hs
        simp only [List.mem_singleton] at hs
        subst hs
        simp only [sizeofPool] at *
        unfold SegOk Seg.cstart
        by_cases hc : alignUp (buf + 80) al > buf + size
        · simp only [hc, if_true]
          exact ⟨by omega, by omega, by omega, by omega, by omega, Or.inr trivial, Or.inr trivial⟩
        · simp only [hc, if_false]
          exact ⟨by omega, by omega, by omega, by omega, by omega, Or.inl trivial, Or.inl hmod⟩
      · simp
      · intro b hb; cases hb
      · intro b hb; cases hb
      · intro b hb; cases hb
      · simp
      · intro q hq; cases hq

/-! ### pool_destroy and the regions obtained from the parent -/

theorem destroy_head_pos (p : Pool) (s : Seg) (rest : List Seg) (x : Nat) (lp : Option Nat) :
    destroy { p with segs := { s with pos := x } :: rest, lastPtr := lp } =
    destroy { p with segs := s :: rest } := by
  cases rest <;> simp [destroy, Seg.region]

theorem destroy_push (p : Pool) (n : Seg) (lp : Option Nat) (hne : p.segs ≠ []) :
    destroy { p with segs := n :: p.segs, lastPtr := lp } = n.region :: destroy p := by
  cases hs : p.segs with
  | nil => exact absurd hs hne
  | cons s rest =>
    simp only [destroy, hs]
    rw [List.dropLast_cons_of_ne_nil (by simp)]
    simp [List.getLast?_cons_cons]

/-- what the pool owes its parent: `destroy` hands back exactly the regions in `obtained`
    (latest first) -/
def Owes (p : Pool) (obtained : List (Nat × Nat)) : Prop :=
  p.segs ≠ [] ∧ destroy p = obtained.reverse

/-- bookkeeping of what was obtained: a parent call with request `req` answered by `pa` -/
def obtainedAfter (ob : List (Nat × Nat)) : Option Nat → Option Nat → List (Nat × Nat)
  | some req, some a => ob ++ [(a, req)]
  | _, _ => ob

theorem alloc_owes {p p' : Pool} {size q : Nat} {pa : Option Nat} {ob : List (Nat × Nat)}
    (h : Owes p ob) (hr : alloc p size pa = some (p', q)) :
    Owes p' (obtainedAfter ob (allocReq p size) pa) := by
  obtain ⟨hmax, hc | hc⟩ := alloc_cases hr
  · obtain ⟨s, rest, hsegs, hfit, he⟩ := hc
    simp only [allocFit, Prod.mk.injEq] at he
    have hreq : allocReq p size = none := by
      unfold allocReq; simp [Nat.not_lt.mpr hmax, fits, hsegs, hfit]
    rw [hreq, he.1]
    refine ⟨by simp, ?_⟩
    simp only [obtainedAfter]
    rw [destroy_head_pos]
    have : ({ p with segs := s :: rest } : Pool) = p := by rw [← hsegs]
    rw [this]; exact h.2
  · obtain ⟨a, hpa', hnofit, he⟩ := hc
    simp only [allocNew, Prod.mk.injEq] at he
    have hreq : allocReq p size = some (segAlloc p (nextSegSize p (alignUp size p.align))) := by
      unfold allocReq; simp [Nat.not_lt.mpr hmax, hnofit]
    rw [hreq, hpa', he.1]
    refine ⟨by simp, ?_⟩
    have := destroy_push p { newSeg p (nextSegSize p (alignUp size p.align)) a with
        pos := (newSeg p (nextSegSize p (alignUp size p.align)) a).pos + alignUp size p.align }
        (some (newSeg p (nextSegSize p (alignUp size p.align)) a).pos) h.1
    rw [this, h.2]
    simp [Seg.region, newSeg, obtainedAfter]

end UsualProofs.C09

namespace UsualProofs.C09
open Usual.C09

theorem free_owes {p : Pool} {ptr : Nat} {ob : List (Nat × Nat)} (h : Owes p ob) :
    Owes (free p ptr) ob := by
  unfold free
  split
  · exact h
  · cases hs : p.segs with
    | nil => exact absurd hs h.1
    | cons s rest =>
      simp only []
      refine ⟨by simp, ?_⟩
      rw [destroy_head_pos]
      have : ({ p with segs := s :: rest } : Pool) = p := by rw [← hs]
      rw [this]; exact h.2

theorem realloc_owes {p p' : Pool} {ptr len q n : Nat} {pa : Option Nat} {ob : List (Nat × Nat)}
    (h : Owes p ob) (hr : realloc p ptr len pa = some (p', q, n)) :
    Owes p' (obtainedAfter ob (reallocReq p ptr len) pa) := by
  unfold realloc at hr
  by_cases hmax : len > poolMaxSize
  · simp [hmax] at hr
  · simp only [hmax, if_false] at hr
    by_cases hl : p.lastPtr = some ptr
    · simp only [hl, ne_eq, not_true_eq_false, if_false] at hr
      cases hsegs : p.segs with
      | nil => exact absurd hsegs h.1
      | cons s rest =>
        simp only [hsegs, reallocLast] at hr
        by_cases hfit : s.pos - (s.pos - ptr) + alignUp len p.align ≤ s.stop
        · simp only [hfit, if_true, Option.some.injEq, Prod.mk.injEq] at hr
          obtain ⟨rfl, _, _⟩ := hr
          have hreq : reallocReq p ptr len = none := by
            unfold reallocReq
            simp only [hmax, if_false, hl, ne_eq, not_true_eq_false, hsegs, hfit, if_true]
          rw [hreq]
          refine ⟨by simp, ?_⟩
          simp only [obtainedAfter]
          have := destroy_head_pos p s rest (ptr + alignUp len p.align) p.lastPtr
          rw [this]
          have : ({ p with segs := s :: rest } : Pool) = p := by rw [← hsegs]
          rw [this]; exact h.2
        · simp only [hfit, if_false] at hr
          cases hal : alloc p (alignUp len p.align) pa with
          | none => simp [hal] at hr
          | some r =>
            obtain ⟨p2, q2⟩ := r
            simp only [hal, Option.map_some, Option.some.injEq, Prod.mk.injEq] at hr
            obtain ⟨rfl, _, _⟩ := hr
            have hreq : reallocReq p ptr len = allocReq p (alignUp len p.align) := by
              unfold reallocReq
              simp only [hmax, if_false, hl, ne_eq, not_true_eq_false, hsegs, hfit]
            rw [hreq]; exact alloc_owes h hal
    · simp only [ne_eq, hl, not_false_eq_true, if_true, reallocOther] at hr
      cases hal : alloc p len pa with
      | none => simp [hal] at hr
      | some r =>
        obtain ⟨p2, q2⟩ := r
        simp only [hal, Option.map_some, Option.some.injEq, Prod.mk.injEq] at hr
        obtain ⟨rfl, _, _⟩ := hr
        have hreq : reallocReq p ptr len = allocReq p len := by
          unfold reallocReq
          simp only [hmax, if_false, ne_eq, hl, not_false_eq_true, if_true]
        rw [hreq]; exact alloc_owes h hal

/-! ### histories -/

/-- client operations on a pool (through `cx_alloc`, `cx_realloc`, `cx_free`); `pa` is the
    answer the parent allocator gives if this operation asks it for memory -/
inductive Op
  | alloc (len : Nat) (pa : Option Nat)
  | realloc (ptr len : Nat) (pa : Option Nat)
  | free (ptr : Nat)

/-- pool, the blocks the client holds, and the regions obtained from the parent so far -/
structure HState where
  pool : Pool
  live : List Block
  obtained : List (Nat × Nat)

/-- `cx_realloc(pool, ptr, len)` with `ptr ≠ NULL`, and the parent request it makes -/
def cxReallocReq (p : Pool) (ptr len : Nat) : Option Nat :=
  if len = 0 then none else reallocReq p ptr len

def step (s : HState) : Op → HState
  | .alloc len pa =>
    match cxAlloc s.pool len pa with
    | none => s
    | some (p', q) => { pool := p', live := ⟨q, len⟩ :: s.live,
                        obtained := obtainedAfter s.obtained (cxAllocReq s.pool len) pa }
  | .realloc ptr len pa =>
    if len = 0 then { s with pool := free s.pool ptr, live := dropPtr s.live ptr }
    else match realloc s.pool ptr len pa with
      | none => s
      | some (p', q, _) => { pool := p', live := ⟨q, len⟩ :: dropPtr s.live ptr,
                             obtained := obtainedAfter s.obtained (reallocReq s.pool ptr len) pa }
  | .free ptr => { s with pool := free s.pool ptr, live := dropPtr s.live ptr }

/-- the client passes only pointers it holds, and the parent answers with fresh memory -/
def OpOk (s : HState) : Op → Prop
  | .alloc len pa => ∀ req, cxAllocReq s.pool len = some req → ParentOk s.pool req pa
  | .realloc ptr len pa => (∃ b ∈ s.live, b.ptr = ptr) ∧
      ∀ req, cxReallocReq s.pool ptr len = some req → ParentOk s.pool req pa
  | .free ptr => ∃ b ∈ s.live, b.ptr = ptr

/-- states reachable from `cx_new_pool` / `cx_new_pool_from_area` -/
inductive Reach : HState → Prop
  | newPool {initial align area : Nat} {p : Pool} : align < 2 ^ 32 →
      newPool initial align (some area) = some p →
      Reach ⟨p, [], [(area, newPoolReq initial)]⟩
  | fromArea {buf size align : Nat} {af : Bool} {p : Pool} : align < 2 ^ 32 →
      fromArea buf size af align = some p →
      Reach ⟨p, [], if af then [(buf, size)] else []⟩
  | step {s : HState} {op : Op} : Reach s → OpOk s op → Reach (step s op)

theorem fromArea_owes {buf size align : Nat} {af : Bool} {p : Pool} (hal : align < 2 ^ 32)
    (h : fromArea buf size af align = some p) : Owes p (if af then [(buf, size)] else []) := by
  obtain ⟨_, haf, s, hs, hreg⟩ := fromArea_inv hal h
  refine ⟨by simp [hs], ?_⟩
  simp only [destroy, hs, haf]
  cases af <;> simp [hreg]

theorem step_inv {s : HState} {op : Op} (h : Inv s.pool s.live ∧ Owes s.pool s.obtained)
    (hok : OpOk s op) : Inv (step s op).pool (step s op).live ∧ Owes (step s op).pool (step s op).obtained := by
  obtain ⟨hi, ho⟩ := h
  cases op with
  | alloc len pa =>
    simp only [step]
    cases hr : cxAlloc s.pool len pa with
    | none => exact ⟨hi, ho⟩
    | some r =>
      obtain ⟨p', q⟩ := r
      simp only []
      unfold cxAlloc at hr
      by_cases hz : len = 0
      · simp [hz] at hr
      · simp only [hz, if_false] at hr
        have hreq : cxAllocReq s.pool len = allocReq s.pool len := by simp [cxAllocReq, hz]
        simp only [OpOk] at hok
        rw [hreq] at hok ⊢
        exact ⟨alloc_inv hi hok (by omega) (alignUp_ge hi.align_pos) hr, alloc_owes ho hr⟩
  | realloc ptr len pa =>
    simp only [step]
    by_cases hz : len = 0
    · simp only [hz, if_true]
      exact ⟨free_inv hi, free_owes ho⟩
    · simp only [hz, if_false]
      cases hr : realloc s.pool ptr len pa with
      | none => exact ⟨hi, ho⟩
      | some r =>
        obtain ⟨p', q, n⟩ := r
        simp only []
        simp only [OpOk, cxReallocReq, hz, if_false] at hok
        exact ⟨realloc_inv hi (by omega) hok.2 hr, realloc_owes ho hr⟩
  | free ptr =>
    simp only [step]
    exact ⟨free_inv hi, free_owes ho⟩

theorem reach_inv {s : HState} (h : Reach s) : Inv s.pool s.live ∧ Owes s.pool s.obtained := by
  induction h with
  | newPool hal hp =>
    simp only [Usual.C09.newPool] at hp
    exact ⟨(fromArea_inv hal hp).1, by have := fromArea_owes hal hp; simpa using this⟩
  | fromArea hal hp => exact ⟨(fromArea_inv hal hp).1, fromArea_owes hal hp⟩
  | step _ hok ih => exact step_inv ih hok

end UsualProofs.C09
