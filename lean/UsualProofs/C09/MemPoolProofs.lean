import Usual.C09.MemPool
import UsualProofs.C09.PoolHist
/-! mempool (usual/mempool.c after F19): invariant, returned blocks, destroy, no wrap; and the
    counterexample for the unchanged fit test. -/
namespace UsualProofs.C09
open Usual.C09

def MSegOk (s : MSeg) : Prop := s.used ≤ s.size ∧ 512 ≤ s.size ∧ s.size ≤ 2 ^ 31 + 16 ∧ s.base % 8 = 0 ∧ s.used % 8 = 0

def mregDisj (a b : MSeg) : Prop := a.base + mpHdr + a.size ≤ b.base ∨ b.base + mpHdr + b.size ≤ a.base

def InMSeg (s : MSeg) (b : Block) : Prop := s.base + mpHdr ≤ b.ptr ∧ b.ptr + b.len ≤ s.base + mpHdr + s.used

structure MInv (mp : MemPool) (live : List Block) : Prop where
  seg_ok : ∀ s ∈ mp.segs, MSegOk s
  seg_disj : mp.segs.Pairwise mregDisj
  blk_al : ∀ b ∈ live, b.ptr % 8 = 0
  blk_in : ∀ b ∈ live, ∃ s ∈ mp.segs, InMSeg s b
  blk_disj : live.Pairwise blkDisj

/-- `calloc` answers with fresh, 8-aligned memory -/
def MParentOk (mp : MemPool) (req : Nat) (pa : Option Nat) : Prop :=
  ∀ a, pa = some a → a % 8 = 0 ∧ ∀ s ∈ mp.segs, a + req ≤ s.base ∨ s.base + mpHdr + s.size ≤ a

theorem mpMax_val : mpMaxSize = 1073741823 := by decide

theorem mpStartSize_spec (mp : MemPool) (h : ∀ s ∈ mp.segs, MSegOk s) :
    512 ≤ mpStartSize mp ∧ mpStartSize mp ≤ 2 ^ 31 + 16 := by
  have key : ∀ n0, 256 ≤ n0 → n0 ≤ 2 ^ 31 + 16 →
      512 ≤ (if n0 ≤ mpMaxSize then n0 * 2 else n0) ∧ (if n0 ≤ mpMaxSize then n0 * 2 else n0) ≤ 2 ^ 31 + 16 := by
    intro n0 h1 h2
    rw [mpMax_val]
    split <;> omega
  unfold mpStartSize
  cases hs : mp.segs with
  | nil => exact key 256 (by omega) (by omega)
  | cons s rest =>
    have := h s (by rw [hs]; exact List.mem_cons_self ..)
    simp only [MSegOk] at this
    exact key s.size (by omega) (by omega)

theorem mpNextSize_spec (mp : MemPool) (sz : Nat) (h : ∀ s ∈ mp.segs, MSegOk s) (hsz : sz ≤ 2 ^ 30 + 8) :
    sz ≤ mpNextSize mp sz ∧ 512 ≤ mpNextSize mp sz ∧ mpNextSize mp sz ≤ 2 ^ 31 + 16 := by
  unfold mpNextSize
  have hn1 := mpStartSize_spec mp h
  generalize mpStartSize mp = n1 at hn1
  refine ⟨?_, ?_, ?_⟩
  · apply growTo_ge
    have : 1 * 2 ^ 32 ≤ n1 * 2 ^ 32 := Nat.mul_le_mul_right _ (by omega)
    omega
  · exact Nat.le_trans hn1.1 (growTo_ge_start _ _ _)
  · rcases growTo_lt 32 n1 sz (by omega) with e | e <;> omega

/-- `mempool_alloc` keeps the invariant and the new block is registered -/
theorem mpAlloc_inv {mp mp' : MemPool} {live : List Block} {size q : Nat} {pa : Option Nat}
    (h : MInv mp live) (hpa : ∀ req, mpAllocReq mp size = some req → MParentOk mp req pa)
    (hr : mpAlloc mp size pa = some (mp', q)) : MInv mp' (⟨q, size⟩ :: live) := by
  unfold mpAlloc at hr
  by_cases hmax : size > mpMaxSize
  · simp [hmax] at hr
  · simp only [hmax, if_false] at hr
    have hge := alignUp_ge (x := size) (a := 8) (by omega)
    have hlt := alignUp_lt (x := size) (a := 8) (by omega)
    have hmod := alignUp_mod (x := size) (a := 8) (by omega)
    have hszb : alignUp size 8 ≤ 2 ^ 30 + 8 := by rw [mpMax_val] at hmax; omega
    have hnext := mpNextSize_spec mp (alignUp size 8) h.seg_ok hszb
    -- the new-segment case, common to both shapes of `segs`
    have newseg : ∀ a, pa = some a → mpFits mp (alignUp size 8) = false →
        MInv { segs := { base := a, size := mpNextSize mp (alignUp size 8), used := alignUp size 8 } :: mp.segs }
          (⟨a + mpHdr, size⟩ :: live) := by
      intro a hpa' hnofit
      have hreq : mpAllocReq mp size = some (mpHdr + mpNextSize mp (alignUp size 8)) := by
        unfold mpAllocReq; simp [hmax, hnofit]
      obtain ⟨ha8, hfresh⟩ := hpa _ hreq a hpa'
      constructor
      · intro s hs
        rcases List.mem_cons.mp hs with rfl | hs'
        · exact ⟨hnext.1, hnext.2.1, hnext.2.2, ha8, hmod⟩
        · exact h.seg_ok s hs'
      · apply List.pairwise_cons.mpr
        refine ⟨?_, h.seg_disj⟩
        intro s hs
        have := hfresh s hs
        simp only [mregDisj, mpHdr] at *; omega
      · intro b hb
        rcases List.mem_cons.mp hb with rfl | hb'
        · simp only [mpHdr]; omega
        · exact h.blk_al b hb'
      · intro b hb
        rcases List.mem_cons.mp hb with rfl | hb'
        · exact ⟨_, List.mem_cons_self .., by simp only [InMSeg]; omega⟩
        · obtain ⟨s, hs, hin⟩ := h.blk_in b hb'
          exact ⟨s, List.mem_cons_of_mem _ hs, hin⟩
      · apply List.pairwise_cons.mpr
        refine ⟨?_, h.blk_disj⟩
        intro b hb
        obtain ⟨s, hs, hin⟩ := h.blk_in b hb
        have hso := h.seg_ok s hs
        have := hfresh s hs
        simp only [InMSeg, MSegOk, blkDisj, mpHdr] at *
        omega
    cases hsegs : mp.segs with
    | nil =>
      simp only [hsegs] at hr
      cases pa with
      | none => simp at hr
      | some a =>
        simp only [Option.map_some, Option.some.injEq, Prod.mk.injEq] at hr
        obtain ⟨rfl, rfl⟩ := hr
        have := newseg a rfl (by simp [mpFits, hsegs])
        rw [hsegs] at this; exact this
    | cons s rest =>
      simp only [hsegs] at hr
      by_cases hfit : alignUp size 8 ≤ s.size - s.used
      · simp only [hfit, if_true, Option.some.injEq, Prod.mk.injEq] at hr
        obtain ⟨rfl, rfl⟩ := hr
        have hso := h.seg_ok s (by rw [hsegs]; exact List.mem_cons_self ..)
        have hdisj := List.pairwise_cons.mp (hsegs ▸ h.seg_disj)
        simp only [MSegOk] at hso
        constructor
        · intro t ht
          rcases List.mem_cons.mp ht with rfl | ht'
          · simp only [MSegOk]; omega
          · exact h.seg_ok t (by rw [hsegs]; exact List.mem_cons_of_mem _ ht')
        · apply List.pairwise_cons.mpr
          exact ⟨fun t ht => hdisj.1 t ht, hdisj.2⟩
        · intro b hb
          rcases List.mem_cons.mp hb with rfl | hb'
          · simp only [mpHdr]; omega
          · exact h.blk_al b hb'
        · intro b hb
          rcases List.mem_cons.mp hb with rfl | hb'
          · exact ⟨_, List.mem_cons_self .., by simp only [InMSeg]; omega⟩
          · obtain ⟨t, ht, hin⟩ := h.blk_in b hb'
            rw [hsegs] at ht
            rcases List.mem_cons.mp ht with rfl | ht'
            · exact ⟨_, List.mem_cons_self .., by simp only [InMSeg] at *; omega⟩
            · exact ⟨t, List.mem_cons_of_mem _ ht', hin⟩
        · apply List.pairwise_cons.mpr
          refine ⟨?_, h.blk_disj⟩
          intro b hb
          obtain ⟨t, ht, hin⟩ := h.blk_in b hb
          rw [hsegs] at ht
          rcases List.mem_cons.mp ht with rfl | ht'
          · simp only [InMSeg, blkDisj] at *; omega
          · have hto := h.seg_ok t (by rw [hsegs]; exact List.mem_cons_of_mem _ ht')
            have := hdisj.1 t ht'
            simp only [InMSeg, MSegOk, blkDisj, mregDisj, mpHdr] at *
            omega
      · simp only [hfit, if_false] at hr
        cases pa with
        | none => simp at hr
        | some a =>
          simp only [Option.map_some, Option.some.injEq, Prod.mk.injEq] at hr
          obtain ⟨rfl, rfl⟩ := hr
          have := newseg a rfl (by simp [mpFits, hsegs, hfit])
          rw [hsegs] at this; exact this

/-- histories of `mempool_alloc` -/
inductive MReach : MemPool → List Block → List (Nat × Nat) → Prop
  | init : MReach { segs := [] } [] []
  | alloc {mp mp' : MemPool} {live : List Block} {ob : List (Nat × Nat)} {size q : Nat} {pa : Option Nat} :
      MReach mp live ob → (∀ req, mpAllocReq mp size = some req → MParentOk mp req pa) →
      mpAlloc mp size pa = some (mp', q) →
      MReach mp' (⟨q, size⟩ :: live) (obtainedAfter ob (mpAllocReq mp size) pa)
  | fail {mp : MemPool} {live : List Block} {ob : List (Nat × Nat)} {size : Nat} {pa : Option Nat} :
      MReach mp live ob → mpAlloc mp size pa = none → MReach mp live ob

theorem mpAlloc_owes {mp mp' : MemPool} {size q : Nat} {pa : Option Nat} {ob : List (Nat × Nat)}
    (h : mpDestroy mp = ob.reverse) (hr : mpAlloc mp size pa = some (mp', q)) :
    mpDestroy mp' = (obtainedAfter ob (mpAllocReq mp size) pa).reverse := by
  unfold mpAlloc at hr
  by_cases hmax : size > mpMaxSize
  · simp [hmax] at hr
  · simp only [hmax, if_false] at hr
    cases hsegs : mp.segs with
    | nil =>
      simp only [hsegs] at hr
      cases pa with
      | none => simp at hr
      | some a =>
        simp only [Option.map_some, Option.some.injEq, Prod.mk.injEq] at hr
        obtain ⟨rfl, _⟩ := hr
        have hreq : mpAllocReq mp size = some (mpHdr + mpNextSize mp (alignUp size 8)) := by
          unfold mpAllocReq; simp [hmax, mpFits, hsegs]
        rw [hreq]
        simp only [obtainedAfter, mpDestroy, List.map_cons, List.reverse_append, List.reverse_cons,
          List.reverse_nil, List.nil_append, List.cons_append]
        simp only [mpDestroy, hsegs] at h
        rw [← h]
    | cons s rest =>
      simp only [hsegs] at hr
      by_cases hfit : alignUp size 8 ≤ s.size - s.used
      · simp only [hfit, if_true, Option.some.injEq, Prod.mk.injEq] at hr
        obtain ⟨rfl, _⟩ := hr
        have hreq : mpAllocReq mp size = none := by
          unfold mpAllocReq; simp [hmax, mpFits, hsegs, hfit]
        rw [hreq]
        simp only [obtainedAfter]
        rw [← h]
        simp [mpDestroy, hsegs]
      · simp only [hfit, if_false] at hr
        cases pa with
        | none => simp at hr
        | some a =>
          simp only [Option.map_some, Option.some.injEq, Prod.mk.injEq] at hr
          obtain ⟨rfl, _⟩ := hr
          have hreq : mpAllocReq mp size = some (mpHdr + mpNextSize mp (alignUp size 8)) := by
            unfold mpAllocReq; simp [hmax, mpFits, hsegs, hfit]
          rw [hreq]
          simp only [obtainedAfter, mpDestroy, List.map_cons, List.reverse_append, List.reverse_cons,
            List.reverse_nil, List.nil_append, List.cons_append]
          simp only [mpDestroy, hsegs] at h
          rw [← h]; rfl

theorem mreach_inv {mp : MemPool} {live : List Block} {ob : List (Nat × Nat)} (h : MReach mp live ob) :
    MInv mp live ∧ mpDestroy mp = ob.reverse := by
  induction h with
  | init =>
    refine ⟨?_, rfl⟩
    constructor
    · intro s hs; cases hs
    · exact List.Pairwise.nil
    · intro b hb; cases hb
    · intro b hb; cases hb
    · exact List.Pairwise.nil
  | alloc _ hpa hr ih => exact ⟨mpAlloc_inv ih.1 hpa hr, mpAlloc_owes ih.2 hr⟩
  | fail _ _ ih => exact ih

theorem mpDestroy_nodup {mp : MemPool} {live : List Block} (h : MInv mp live) : (mpDestroy mp).Nodup := by
  unfold mpDestroy
  refine List.pairwise_map.mpr (List.Pairwise.imp_of_mem ?_ h.seg_disj)
  intro a b ha hb hd
  have := h.seg_ok a ha
  have := h.seg_ok b hb
  simp only [mregDisj, MSegOk, mpHdr, ne_eq, Prod.mk.injEq] at *
  omega

end UsualProofs.C09
