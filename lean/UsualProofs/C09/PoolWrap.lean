import UsualProofs.C09.PoolHist
/-! Size computations of the repaired `pool_alloc` never leave the range of `size_t` (so the
    `Nat` arithmetic of the model *is* the C arithmetic); the unchanged loop over `unsigned nsize`
    never ends for a request above 2^31; `pool_destroy` frees no region twice. -/
namespace UsualProofs.C09
open Usual.C09

/-- every region the pool holds ends below 2^62 (any user-space address does) -/
def AddrOk (p : Pool) : Prop := ∀ s ∈ p.segs, s.base + s.size ≤ 2 ^ 62

theorem growTo_mono_fuel (k n size : Nat) : growTo k n size ≤ growTo (k + 1) n size := by
  induction k generalizing n with
  | zero => simp only [growTo]; split <;> omega
  | succ f ih =>
    rw [growTo]
    conv => rhs; rw [growTo]
    split
    · exact ih (n * 2)
    · omega

theorem growTo_le_of_le (k j n size : Nat) (h : k ≤ j) : growTo k n size ≤ growTo j n size := by
  induction h with
  | refl => omega
  | step _ ih => exact Nat.le_trans ih (growTo_mono_fuel _ _ _)

/-- all quantities `pool_alloc` computes for a request it does not refuse stay below 2^64:
    the aligned size (and the sum inside `CUSTOM_ALIGN`), `seg_pos + size`, the start value of
    `nsize`, every value `nsize` takes in the loop, and the byte count asked from the parent;
    and the loop ends with `nsize ≥ size`. -/
theorem alloc_no_wrap {p : Pool} {live : List Block} {size : Nat} (h : Inv p live) (ha : AddrOk p)
    (hmax : size ≤ poolMaxSize) :
    size + p.align - 1 < 2 ^ 64 ∧ alignUp size p.align < 2 ^ 63 ∧
    (∀ s ∈ p.segs, s.pos + alignUp size p.align < 2 ^ 64 ∧ 2 * (s.stop - s.start) < 2 ^ 63) ∧
    (∀ k, k ≤ 64 → growTo k (segSizeStart p) (alignUp size p.align) < 2 ^ 64) ∧
    alignUp size p.align ≤ nextSegSize p (alignUp size p.align) ∧
    segAlloc p (nextSegSize p (alignUp size p.align)) < 2 ^ 64 := by
  have hsz := alignUp_lt_two_pow size p.align h.align_pos (Nat.le_of_lt h.align_lt) hmax
  have hpm : poolMaxSize < 2 ^ 62 := by unfold poolMaxSize; omega
  have hal := h.align_lt
  have hsegs : ∀ s ∈ p.segs, s.pos + alignUp size p.align < 2 ^ 64 ∧ 2 * (s.stop - s.start) < 2 ^ 63 := by
    intro s hs
    obtain ⟨a1, a2, a3, a4, a5, _, _⟩ := h.seg_ok s hs
    have := ha s hs
    omega
  have hstart : segSizeStart p < 2 ^ 63 := by
    unfold segSizeStart
    cases hs : p.segs with
    | nil => simp
    | cons s rest =>
      have := (hsegs s (by rw [hs]; exact List.mem_cons_self ..)).2
      simp only []
      split <;> omega
  have hnext : nextSegSize p (alignUp size p.align) < 2 ^ 63 + 2 ^ 33 := by
    unfold nextSegSize
    rcases growTo_lt 64 (segSizeStart p) (alignUp size p.align) (by have := segSizeStart_ge p; omega) with e | e
    · have := alignUp_lt (x := size) h.align_pos; omega
    · omega
  refine ⟨by omega, hsz, hsegs, ?_, nextSegSize_ge p _ hsz, ?_⟩
  · intro k hk
    have := growTo_le_of_le k 64 (segSizeStart p) (alignUp size p.align) hk
    unfold nextSegSize at hnext
    omega
  · unfold segAlloc poolHdr; omega

/-! ### the unchanged loop (`unsigned nsize`) -/

theorem growToOld_add (a b n size : Nat) :
    growToOld (a + b) n size = growToOld b (growToOld a n size) size := by
  induction a generalizing n with
  | zero => simp [growToOld]
  | succ f ih =>
    rw [Nat.add_right_comm, growToOld]
    conv => rhs; rw [growToOld]
    split
    · exact ih _
    · cases b with
      | zero => simp [growToOld]
      | succ b' =>
        rename_i hn
        clear ih
        induction b' with
        | zero => simp [growToOld, hn]
        | succ b'' ih2 => rw [growToOld]; simp [hn]

theorem growToOld_zero (fuel size : Nat) (h : 0 < size) : growToOld fuel 0 size = 0 := by
  induction fuel with
  | zero => rfl
  | succ f ih => rw [growToOld]; simp [h, ih]

/-- K2: for a request of 2^31+8 bytes the doubling of `unsigned nsize` never reaches the size,
    whatever number of rounds it is given (from the 1024-byte first segment: 2048 → … → 2^31 → 0 → 0 …) -/
theorem growToOld_never (fuel : Nat) : growToOld fuel 2048 (2 ^ 31 + 8) < 2 ^ 31 + 8 := by
  by_cases h : fuel < 21
  · have : ∀ f : Fin 21, growToOld f.val 2048 (2 ^ 31 + 8) < 2 ^ 31 + 8 := by decide +kernel
    exact this ⟨fuel, h⟩
  · obtain ⟨f, rfl⟩ : ∃ f, fuel = 21 + f := ⟨fuel - 21, by omega⟩
    rw [growToOld_add]
    have : growToOld 21 2048 (2 ^ 31 + 8) = 0 := by decide +kernel
    rw [this, growToOld_zero _ _ (by omega)]
    omega

/-! ### pool_destroy frees nothing twice -/

theorem regions_nodup {p : Pool} {live : List Block} (h : Inv p live) :
    (p.segs.map Seg.region).Nodup := by
  have hpw : p.segs.Pairwise (fun a b => a.region ≠ b.region) := by
    refine List.Pairwise.imp_of_mem ?_ h.seg_disj
    intro a b ha hb hd
    obtain ⟨a1, a2, a3, a4, a5, _, _⟩ := h.seg_ok a ha
    obtain ⟨b1, b2, b3, b4, b5, _, _⟩ := h.seg_ok b hb
    simp only [regDisj] at hd
    simp only [Seg.region, ne_eq, Prod.mk.injEq]
    omega
  exact List.pairwise_map.mpr hpw

theorem destroy_sublist (p : Pool) : (destroy p).Sublist (p.segs.map Seg.region) := by
  unfold destroy
  cases hne : p.segs with
  | nil => simp
  | cons s rest =>
    have hsplit := List.dropLast_concat_getLast (l := s :: rest) (by simp)
    have hl : (s :: rest).getLast? = some ((s :: rest).getLast (by simp)) := List.getLast?_eq_some_getLast (by simp)
    rw [hl]
    split
    · simp only [Option.map_some, Option.toList_some]
      conv => rhs; rw [← hsplit]
      simp
    · conv => rhs; rw [← hsplit]
      simp

theorem destroy_nodup {p : Pool} {live : List Block} (h : Inv p live) : (destroy p).Nodup :=
  (regions_nodup h).sublist (destroy_sublist p)

end UsualProofs.C09
