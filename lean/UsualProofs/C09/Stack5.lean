import UsualProofs.C09.Stack4
/-! Stacking, continued: where the client's blocks of the tree / header layers lie inside the
    parent's blocks, and their alignment. -/
namespace UsualProofs.C09
open Usual.C09

/-- every block of a tree on `P` starts exactly 16 bytes into a block obtained from `P` and ends
    inside it; it is as aligned as that block, for every alignment dividing 16 -/
theorem treeOn_block_inside {P : Sys} (hP : Fresh P) {s : (TreeOn P).σ} (hwf : (TreeOn P).WF s) :
    ∀ b ∈ (TreeOn P).live s, ∃ r ∈ P.live s.2, b.ptr = r.ptr + treeHdr ∧ b.ptr + b.len = r.ptr + r.len ∧
      ∀ A, 16 % A = 0 → r.ptr % A = 0 → b.ptr % A = 0 := by
  intro b hb
  obtain ⟨x, hx, rfl⟩ := List.mem_map.mp hb
  obtain ⟨_, _, hlive⟩ := treeOn_facts hP hwf
  have hsz := hwf.2.2.1 x hx
  refine ⟨x, hlive x hx, rfl, ?_, ?_⟩
  · simp only [shiftB]; omega
  · intro A h16 hr
    simp only [shiftB, treeHdr]
    rw [Nat.add_mod, hr, h16]; simp

/-- every block of a header layer on `P` starts exactly `H` bytes into a block obtained from `P`
    and ends inside it -/
theorem hdrOn_block_inside {P : Sys} (hP : Fresh P) {H : Nat} {pad : Nat → Nat} {s : (HdrOn P H pad).σ}
    (hwf : (HdrOn P H pad).WF s) :
    ∀ b ∈ (HdrOn P H pad).live s, ∃ r ∈ P.live s.2, b.ptr = r.ptr + H ∧ b.ptr + b.len ≤ r.ptr + r.len := by
  intro b hb
  obtain ⟨x, hx, rfl⟩ := List.mem_map.mp hb
  obtain ⟨_, _, hlive⟩ := hdrOn_facts hP hwf
  have := hwf.2.1 x hx
  exact ⟨x.1, hlive x hx, rfl, by simp only [hdrShift]; omega⟩

/-- inside-ness composes: a block inside a block inside a block … -/
theorem inside_trans {b r q : Block} (h1 : r.ptr ≤ b.ptr ∧ b.ptr + b.len ≤ r.ptr + r.len)
    (h2 : q.ptr ≤ r.ptr ∧ r.ptr + r.len ≤ q.ptr + q.len) :
    q.ptr ≤ b.ptr ∧ b.ptr + b.len ≤ q.ptr + q.len := by omega

/-- depth-3 instance: every block of a pool in a tree in a header layer (talloc-backed cx) over
    any base `B` lies inside a block obtained from the base -/
theorem stack3_inside {B : Sys} (hB : Fresh B) {H : Nat} {pad : Nat → Nat} (hpad : ∀ n, n ≤ pad n)
    {s : (PoolOn (TreeOn (HdrOn B H pad))).σ} (hwf : (PoolOn (TreeOn (HdrOn B H pad))).WF s) :
    ∀ b ∈ (PoolOn (TreeOn (HdrOn B H pad))).live s, ∃ q ∈ B.live s.2.2.2,
      q.ptr ≤ b.ptr ∧ b.ptr + b.len ≤ q.ptr + q.len := by
  intro b hb
  have hH := fresh_hdrOn hB H pad hpad
  have hT := fresh_treeOn hH
  obtain ⟨_, r1, hr1, h1a, h1b⟩ := poolOn_block_inside hwf b hb
  obtain ⟨r2, hr2, h2a, h2b, _⟩ := treeOn_block_inside hH hwf.2.2.1 r1 hr1
  obtain ⟨r3, hr3, h3a, h3b⟩ := hdrOn_block_inside hB hwf.2.2.1.2.1 r2 hr2
  exact ⟨r3, hr3, by omega, by omega⟩

end UsualProofs.C09
