import UsualProofs.C09.Stack2
import UsualProofs.C09.SlabHist
import UsualProofs.C09.MemPoolProofs
/-! Stacking, continued: slab and mempool as clients of an arbitrary allocator satisfying the
    fresh-memory contract, and a concrete allocator (bump allocator) satisfying the contract, so
    that the stacking theorems are not vacuous. -/
namespace UsualProofs.C09
open Usual.C09

/-! ### slab on top of `P` -/

/-- composite state: slab, objects the client holds, parent -/
structure SlabOnState (P : Sys) where
  slab : Slab
  live : List Nat
  par : P.σ

def SlabOnWF {P : Sys} (s : SlabOnState P) : Prop :=
  SInvM s.slab s.live ∧ P.WF s.par ∧
  ∃ rest, ((⟨s.slab.hdr, sizeofSlab⟩ : Block) :: (s.slab.frags.map blkOf ++ rest)).Perm (P.live s.par)

/-- `slab_create(…, cx = P)` -/
theorem slabOn_create {P : Sys} (hP : Fresh P) {sp sp' : P.σ} {objSize align a : Nat} {sl : Slab}
    (hwf : P.WF sp) (hpa : P.alloc sp sizeofSlab (some a) sp')
    (hc : slabCreate objSize align (some a) = some sl) :
    SlabOnWF (⟨sl, [], sp'⟩ : SlabOnState P) := by
  obtain ⟨hwf', hperm⟩ := hP.alloc_ok sp _ a sp' hwf (by simp [sizeofSlab]) hpa
  simp only [slabCreate, Option.map_some, Option.some.injEq] at hc
  subst hc
  refine ⟨⟨⟨slabFinalSize_ge _ _, by simp, by intro o ho; simp at ho, by simp⟩, by simp⟩, hwf', P.live sp, ?_⟩
  simpa using hperm.symm

/-- the objects held after `slab_alloc` returned `r` -/
def consOpt (r : Option Nat) (live : List Nat) : List Nat :=
  match r with
  | some o => o :: live
  | none => live

/-- `slab_alloc` on top of `P`: the call of `cx_alloc0(P, …)` made by `grow` (if any) gives the
    slab what it requires from its parent, and the composite stays well-formed -/
theorem slabOn_alloc {P : Sys} (hP : Fresh P) {s : SlabOnState P} {sp' : P.σ} {pa : Option Nat}
    {sl' : Slab} {r : Option Nat} (hwf : SlabOnWF s)
    (hc : ParentCall P s.par (slabAllocReq s.slab) pa sp') (hr : slabAlloc s.slab pa = (sl', r)) :
    (∀ req, slabAllocReq s.slab = some req → SParentOkM s.slab req pa) ∧
    SlabOnWF (⟨sl', consOpt r s.live, sp'⟩ : SlabOnState P) := by
  obtain ⟨hM, hpw, rest, hcoup⟩ := hwf
  have hdis := pairwise_blkDisj_perm hcoup.symm (hP.live_disj s.par hpw)
  cases hfl : s.slab.freelist with
  | cons x xs =>
    have hreq : slabAllocReq s.slab = none := by simp [slabAllocReq, hfl]
    rw [hreq] at hc
    obtain ⟨rfl, rfl⟩ := hc
    refine ⟨(by intro req h; rw [hreq] at h; cases h), ?_⟩
    simp only [slabAlloc, hfl, Prod.mk.injEq] at hr
    obtain ⟨rfl, rfl⟩ := hr
    have hinv := slabAlloc_inv (s' := { s.slab with freelist := xs }) (o := x) (pa := none) hM.inv
      (by intro req h; rw [hreq] at h; cases h) (by simp [slabAlloc, hfl])
    exact ⟨⟨hinv, hM.hdr_disj⟩, hpw, rest, hcoup⟩
  | nil =>
    have hreq : slabAllocReq s.slab = some (slabGrowReq s.slab) := by simp [slabAllocReq, hfl]
    rw [hreq] at hc
    simp only [ParentCall] at hc
    cases pa with
    | none =>
      obtain ⟨hpw', hperm⟩ := hP.alloc_none s.par _ sp' hpw hc
      refine ⟨(by intro req _; exact ⟨(by unfold SParentOk; intro a ha; cases ha), (by intro a ha; cases ha)⟩), ?_⟩
      simp only [slabAlloc, hfl, Prod.mk.injEq] at hr
      obtain ⟨rfl, rfl⟩ := hr
      exact ⟨hM, hpw', rest, hcoup.trans hperm.symm⟩
    | some a =>
      have hpos : 0 < slabGrowReq s.slab := by simp [slabGrowReq, slabFragHdr]
      obtain ⟨hpw', hperm⟩ := hP.alloc_ok s.par _ a sp' hpw hpos hc
      -- the new block is disjoint from everything the slab holds
      have hdis' := pairwise_blkDisj_perm hperm (hP.live_disj sp' hpw')
      have hnew := (List.pairwise_cons.mp hdis').1
      have hok : SParentOkM s.slab (slabGrowReq s.slab) (some a) := by
        constructor
        · intro a' ha' f hf
          cases ha'
          have hm : blkOf f ∈ P.live s.par := by
            apply hcoup.subset
            simp only [List.mem_cons, List.mem_append, List.mem_map]
            exact Or.inr (Or.inl ⟨f, hf, rfl⟩)
          have := hnew _ hm
          simpa [blkDisj, blkOf] using this
        · intro a' ha'
          cases ha'
          have hm : (⟨s.slab.hdr, sizeofSlab⟩ : Block) ∈ P.live s.par := hcoup.subset (List.mem_cons_self ..)
          have := hnew _ hm
          simpa [blkDisj] using this
      refine ⟨(by intro req h; rw [hreq] at h; cases h; exact hok), ?_⟩
      have hfresh := hok.1 a rfl
      obtain ⟨hginv, hgfl, _⟩ := slabGrow_inv hM.inv hfl hfresh
      have hgM : SInvM (slabGrow s.slab a) s.live := by
        refine ⟨hginv, ?_⟩
        intro f hf
        simp only [slabGrow, List.mem_append, List.mem_singleton] at hf
        rcases hf with hf | rfl
        · exact hM.hdr_disj f hf
        · have := hok.2 a rfl
          simp only [fragDisj, slabGrow]; omega
      have hcoup' : ((⟨(slabGrow s.slab a).hdr, sizeofSlab⟩ : Block) ::
          ((slabGrow s.slab a).frags.map blkOf ++ rest)).Perm (P.live sp') := by
        refine List.Perm.trans ?_ hperm.symm
        simp only [slabGrow, List.map_append, List.map_cons, List.map_nil, blkOf, List.append_assoc,
          List.singleton_append]
        refine (List.Perm.cons _ (List.perm_middle)).trans ((List.Perm.swap _ _ _).trans ?_)
        exact List.Perm.cons _ hcoup
      simp only [slabAlloc, hfl] at hr
      cases hfl2 : (slabGrow s.slab a).freelist with
      | nil =>
        simp only [hfl2, Prod.mk.injEq] at hr
        obtain ⟨rfl, rfl⟩ := hr
        exact ⟨hgM, hpw', rest, hcoup'⟩
      | cons x xs =>
        simp only [hfl2, Prod.mk.injEq] at hr
        obtain ⟨rfl, rfl⟩ := hr
        have hperm2 : (xs ++ x :: s.live).Perm ((slabGrow s.slab a).freelist ++ s.live) := by
          rw [hfl2]; simp
        refine ⟨⟨⟨hginv.fs_ge, hperm2.nodup_iff.mpr hginv.nodup, fun y hy => hginv.slot y (hperm2.subset hy),
          hginv.frag_disj⟩, hgM.hdr_disj⟩, hpw', rest, hcoup'⟩

/-- `slab_free` on top of `P` (no parent call) -/
theorem slabOn_free {P : Sys} {s : SlabOnState P} {o : Nat} (hwf : SlabOnWF s) (ho : o ∈ s.live) :
    SlabOnWF (⟨slabFree s.slab o, s.live.erase o, s.par⟩ : SlabOnState P) := by
  obtain ⟨hM, hpw, rest, hcoup⟩ := hwf
  exact ⟨⟨slabFree_inv hM.inv ho, hM.hdr_disj⟩, hpw, rest, hcoup⟩

/-- every object the client holds lies inside a block the slab obtained from `P` -/
theorem slabOn_inside {P : Sys} {s : SlabOnState P} (hwf : SlabOnWF s) :
    ∀ o ∈ s.live, ∃ b ∈ P.live s.par, b.ptr + slabFragHdr ≤ o ∧ o + s.slab.finalSize ≤ b.ptr + b.len := by
  intro o ho
  obtain ⟨hM, _, rest, hcoup⟩ := hwf
  obtain ⟨f, hf, hslot⟩ := hM.inv.slot o (by simp [ho])
  refine ⟨blkOf f, ?_, slot_bounds hslot⟩
  apply hcoup.subset
  simp only [List.mem_cons, List.mem_append, List.mem_map]
  exact Or.inr (Or.inl ⟨f, hf, rfl⟩)

/-- `slab_destroy` on top of `P`: every fragment and the slab struct go back to `P`, once -/
theorem slabOn_destroy {P : Sys} (hP : Fresh P) {s : SlabOnState P} {sp' : P.σ} (hwf : SlabOnWF s)
    (hd : FreeAll P s.par ((slabDestroy s.slab).map blkOf) sp') :
    P.WF sp' ∧ ∃ rest, (P.live s.par).Perm ((slabDestroy s.slab).map blkOf ++ rest) ∧ rest.Perm (P.live sp') := by
  obtain ⟨_, hpw, rest, hcoup⟩ := hwf
  have hperm : ((slabDestroy s.slab).map blkOf ++ rest).Perm (P.live s.par) := by
    refine List.Perm.trans ?_ hcoup
    simp only [slabDestroy, List.map_append, List.map_cons, List.map_nil, blkOf, List.append_assoc,
      List.singleton_append]
    exact List.perm_middle
  obtain ⟨hwf', hp'⟩ := freeAll_ok hP hpw hperm hd
  exact ⟨hwf', rest, hperm.symm, hp'⟩

end UsualProofs.C09

namespace UsualProofs.C09
open Usual.C09

/-! ### mempool on top of `P` -/

structure MpOnState (P : Sys) where
  mp : MemPool
  live : List Block
  par : P.σ

def mpBlk (s : MSeg) : Block := ⟨s.base, mpHdr + s.size⟩

def MpOnWF {P : Sys} (s : MpOnState P) : Prop :=
  MInv s.mp s.live ∧ P.WF s.par ∧ ∃ rest, (s.mp.segs.map mpBlk ++ rest).Perm (P.live s.par)

/-- the parent's answers are 8-aligned (as `calloc`'s are) -/
def Aligned8 (P : Sys) : Prop := ∀ s n a s', P.alloc s n (some a) s' → a % 8 = 0

theorem mpAllocReq_pos {mp : MemPool} {size req : Nat} (h : mpAllocReq mp size = some req) : 0 < req := by
  unfold mpAllocReq at h
  by_cases hmax : size > mpMaxSize
  · simp [hmax] at h
  · simp only [hmax, if_false] at h
    by_cases hf : mpFits mp (alignUp size 8) = true
    · simp [hf] at h
    · simp only [hf, Bool.false_eq_true, if_false, Option.some.injEq] at h
      rw [← h]; simp only [mpHdr]; omega

/-- the segment list after `mempool_alloc` -/
theorem mpAlloc_segs {mp mp' : MemPool} {size q : Nat} {pa : Option Nat}
    (hr : mpAlloc mp size pa = some (mp', q)) :
    (mpAllocReq mp size = none ∧ mp'.segs.map mpBlk = mp.segs.map mpBlk) ∨
    (∃ a req, pa = some a ∧ mpAllocReq mp size = some req ∧
      mp'.segs.map mpBlk = ⟨a, req⟩ :: mp.segs.map mpBlk) := by
  unfold mpAlloc at hr
  by_cases hmax : size > mpMaxSize
  · simp [hmax] at hr
  · simp only [hmax, if_false] at hr
    cases hsegs : mp.segs with
    | nil =>
      simp only [hsegs] at hr
      cases pa with
      | none => simp at hr
      | some a =>
        simp only [Option.map_some, Option.some.injEq, Prod.mk.injEq] at hr
        right
        refine ⟨a, _, rfl, by unfold mpAllocReq; simp [hmax, mpFits, hsegs]; rfl, ?_⟩
        rw [← hr.1]; simp [mpBlk, hsegs]
    | cons s rest =>
      simp only [hsegs] at hr
      by_cases hfit : alignUp size 8 ≤ s.size - s.used
      · simp only [hfit, if_true, Option.some.injEq, Prod.mk.injEq] at hr
        left
        refine ⟨by unfold mpAllocReq; simp [hmax, mpFits, hsegs, hfit], ?_⟩
        rw [← hr.1]; simp [mpBlk]
      · simp only [hfit, if_false] at hr
        cases pa with
        | none => simp at hr
        | some a =>
          simp only [Option.map_some, Option.some.injEq, Prod.mk.injEq] at hr
          right
          refine ⟨a, _, rfl, by unfold mpAllocReq; simp [hmax, mpFits, hsegs, hfit]; rfl, ?_⟩
          rw [← hr.1]; simp [mpBlk, hsegs]

/-- `mempool_alloc` on top of `P` (its `calloc`): the answer gives what the mempool requires from
    its parent and the composite stays well-formed -/
theorem mpOn_alloc {P : Sys} (hP : Fresh P) (hal : Aligned8 P) {s : MpOnState P} {sp' : P.σ}
    {size q : Nat} {pa : Option Nat} {mp' : MemPool} (hwf : MpOnWF s)
    (hc : ParentCall P s.par (mpAllocReq s.mp size) pa sp') (hr : mpAlloc s.mp size pa = some (mp', q)) :
    (∀ req, mpAllocReq s.mp size = some req → MParentOk s.mp req pa) ∧
    MpOnWF (⟨mp', ⟨q, size⟩ :: s.live, sp'⟩ : MpOnState P) := by
  obtain ⟨hM, hpw, rest, hcoup⟩ := hwf
  have key : (∀ req, mpAllocReq s.mp size = some req → MParentOk s.mp req pa) ∧ P.WF sp' ∧
      ∃ rest', (mp'.segs.map mpBlk ++ rest').Perm (P.live sp') := by
    rcases mpAlloc_segs hr with ⟨hnone, hsame⟩ | ⟨a, req, hpa, hreq, hcons⟩
    · rw [hnone] at hc
      obtain ⟨rfl, _⟩ := hc
      exact ⟨(by intro req h; rw [hnone] at h; cases h), hpw, rest, (by rw [hsame]; exact hcoup)⟩
    · rw [hreq] at hc
      subst hpa
      simp only [ParentCall] at hc
      obtain ⟨hpw', hperm⟩ := hP.alloc_ok s.par req a sp' hpw (mpAllocReq_pos hreq) hc
      have hdis' := pairwise_blkDisj_perm hperm (hP.live_disj sp' hpw')
      have hnew := (List.pairwise_cons.mp hdis').1
      refine ⟨?_, hpw', rest, ?_⟩
      · intro req' h
        rw [hreq] at h; cases h
        intro a' ha'
        cases ha'
        refine ⟨hal _ _ _ _ hc, ?_⟩
        intro g hg
        have hm : mpBlk g ∈ P.live s.par := hcoup.subset (List.mem_append_left _ (List.mem_map_of_mem hg))
        have := hnew _ hm
        simp only [blkDisj, mpBlk] at this
        omega
      · rw [hcons]
        simp only [List.cons_append]
        exact (List.Perm.cons _ hcoup).trans hperm.symm
  exact ⟨key.1, mpAlloc_inv hM key.1 hr, key.2⟩

/-- every block of the mempool lies inside a block obtained from `P`, behind the header -/
theorem mpOn_inside {P : Sys} {s : MpOnState P} (hwf : MpOnWF s) :
    ∀ b ∈ s.live, b.ptr % 8 = 0 ∧ ∃ r ∈ P.live s.par, r.ptr + mpHdr ≤ b.ptr ∧ b.ptr + b.len ≤ r.ptr + r.len := by
  intro b hb
  obtain ⟨hM, _, rest, hcoup⟩ := hwf
  obtain ⟨g, hg, hin⟩ := hM.blk_in b hb
  have hok := hM.seg_ok g hg
  refine ⟨hM.blk_al b hb, mpBlk g, hcoup.subset (List.mem_append_left _ (List.mem_map_of_mem hg)), ?_⟩
  simp only [InMSeg, MSegOk, mpBlk] at *
  omega

/-- `mempool_destroy` on top of `P`: every segment goes back, once -/
theorem mpOn_destroy {P : Sys} (hP : Fresh P) {s : MpOnState P} {sp' : P.σ} (hwf : MpOnWF s)
    (hd : FreeAll P s.par ((mpDestroy s.mp).map blkOf) sp') :
    P.WF sp' ∧ ∃ rest, (P.live s.par).Perm ((mpDestroy s.mp).map blkOf ++ rest) ∧ rest.Perm (P.live sp') := by
  obtain ⟨_, hpw, rest, hcoup⟩ := hwf
  have he : (mpDestroy s.mp).map blkOf = s.mp.segs.map mpBlk := by
    simp [mpDestroy, blkOf, mpBlk, List.map_map, Function.comp_def]
  rw [he] at hd ⊢
  obtain ⟨hwf', hp'⟩ := freeAll_ok hP hpw hcoup hd
  exact ⟨hwf', rest, hcoup.symm, hp'⟩

/-! ### a concrete allocator satisfying the contract: the bump allocator -/

/-- state: next unused address, blocks handed out.  `alloc` hands out `[next, next+n)` (or fails),
    `free` forgets the block, `realloc` = allocate new + forget old (or fails). -/
def Bump : Sys where
  σ := Nat × List Block
  live := fun s => s.2
  WF := fun s => s.2.Pairwise blkDisj ∧ ∀ b ∈ s.2, 0 < b.len ∧ b.ptr + b.len ≤ s.1
  alloc := fun s n r s' => (r = some s.1 ∧ s' = (s.1 + n, ⟨s.1, n⟩ :: s.2)) ∨ (r = none ∧ s' = s)
  realloc := fun s p n r s' =>
    (r = some s.1 ∧ s' = (s.1 + n, ⟨s.1, n⟩ :: dropPtr s.2 p)) ∨ (r = none ∧ s' = s)
  free := fun s p s' => s' = (s.1, dropPtr s.2 p)

theorem fresh_bump : Fresh Bump where
  live_disj := fun s h => h.1
  live_pos := fun s h b hb => (h.2 b hb).1
  alloc_ok := by
    intro s n a s' hwf hn hal
    rcases hal with ⟨ha, rfl⟩ | ⟨ha, _⟩
    · simp only [Option.some.injEq] at ha
      subst ha
      refine ⟨⟨List.pairwise_cons.mpr ⟨?_, hwf.1⟩, ?_⟩, List.Perm.refl _⟩
      · intro b hb
        have := hwf.2 b hb
        simp only [blkDisj]; omega
      · intro b hb
        rcases List.mem_cons.mp hb with rfl | hb'
        · exact ⟨hn, Nat.le_refl _⟩
        · have := hwf.2 b hb'; omega
    · cases ha
  alloc_none := by
    intro s n s' hwf hal
    rcases hal with ⟨ha, _⟩ | ⟨_, rfl⟩
    · cases ha
    · exact ⟨hwf, List.Perm.refl _⟩
  free_ok := by
    intro s p n s' hwf hm hf
    subst hf
    have hsub : (dropPtr s.2 p).Sublist s.2 := List.filter_sublist
    refine ⟨⟨hwf.1.sublist hsub, fun b hb => hwf.2 b (hsub.subset hb)⟩, ?_⟩
    exact dropPtr_perm hwf.1 (fun b hb => (hwf.2 b hb).1) hm
  realloc_ok := by
    intro s p n m a s' hwf hm hpos hre
    rcases hre with ⟨ha, rfl⟩ | ⟨ha, _⟩
    · simp only [Option.some.injEq] at ha
      subst ha
      have hsub : (dropPtr s.2 p).Sublist s.2 := List.filter_sublist
      refine ⟨⟨List.pairwise_cons.mpr ⟨?_, hwf.1.sublist hsub⟩, ?_⟩, dropPtr s.2 p, ?_, List.Perm.refl _⟩
      · intro b hb
        have := hwf.2 b (hsub.subset hb)
        simp only [blkDisj]; omega
      · intro b hb
        rcases List.mem_cons.mp hb with rfl | hb'
        · exact ⟨hpos, Nat.le_refl _⟩
        · have := hwf.2 b (hsub.subset hb'); omega
      · exact (dropPtr_perm hwf.1 (fun b hb => (hwf.2 b hb).1) hm).symm
    · cases ha
  realloc_none := by
    intro s p n m s' hwf _ _ hre
    rcases hre with ⟨ha, _⟩ | ⟨_, rfl⟩
    · cases ha
    · exact ⟨hwf, List.Perm.refl _⟩

end UsualProofs.C09
