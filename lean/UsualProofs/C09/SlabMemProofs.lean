import Usual.C09.SlabMem
import UsualProofs.C09.SlabProofs
/-! Slab: initialisation of returned objects as documented in slab.h, and stability of the
    contents of every other object (live objects completely, free objects behind their list node). -/
namespace UsualProofs.C09
open Usual.C09

theorem memStore_outside {junk m : Mem} {rs : List (Nat × Nat)} {x : Nat}
    (h : ∀ r ∈ rs, inRange r.1 r.2 x = false) : memStore junk m rs x = m x := by
  unfold memStore
  have : rs.any (fun r => inRange r.1 r.2 x) = false := by
    apply List.any_eq_false.mpr
    intro r hr
    simp [h r hr]
  simp [this]

theorem memZero_outside {m : Mem} {a n x : Nat} (h : inRange a n x = false) : memZero m a n x = m x := by
  simp [memZero, h]

theorem memZero_inside {m : Mem} {a n x : Nat} (h : inRange a n x = true) : memZero m a n x = 0 := by
  simp [memZero, h]

theorem inRange_false {a n x : Nat} (h : x < a ∨ a + n ≤ x) : inRange a n x = false := by
  unfold inRange
  rcases h with h | h
  · have : decide (a ≤ x) = false := by simp; omega
    simp [this]
  · have : decide (x < a + n) = false := by simp; omega
    simp [this]

theorem inRange_true {a n x : Nat} (h1 : a ≤ x) (h2 : x < a + n) : inRange a n x = true := by
  simp [inRange, h1, h2]

/-- the state part of `slabAllocM` is `slabAlloc` -/
theorem slabAllocM_state (junk : Mem) (init : InitFn) (s : Slab) (m : Mem) (pa : Option Nat) :
    ((slabAllocM junk init s m pa).1, (slabAllocM junk init s m pa).2.1) = slabAlloc s pa := by
  unfold slabAllocM slabAlloc
  cases hfl : s.freelist with
  | cons o rest => simp [hfl]
  | nil =>
    cases pa with
    | none => simp [hfl]
    | some a =>
      simp only []
      cases hg : (slabGrow s a).freelist with
      | nil => simp [hg]
      | cons o rest => simp [hg]

theorem slabFreeM_state (junk : Mem) (s : Slab) (m : Mem) (obj : Nat) :
    (slabFreeM junk s m obj).1 = slabFree s obj := rfl

/-- slab invariant plus: `struct Slab` does not overlap any fragment -/
structure SInvM (s : Slab) (live : List Nat) : Prop where
  inv : SInv s live
  hdr_disj : ∀ f ∈ s.frags, fragDisj (s.hdr, sizeofSlab) f

/-- parent answers for `grow` are fresh also with respect to `struct Slab` -/
def SParentOkM (s : Slab) (req : Nat) (pa : Option Nat) : Prop :=
  SParentOk s req pa ∧ ∀ a, pa = some a → a + req ≤ s.hdr ∨ s.hdr + sizeofSlab ≤ a

theorem slot_bounds {fs : Nat} {f : Nat × Nat} {o : Nat} (h : IsSlot fs f o) :
    f.1 + slabFragHdr ≤ o ∧ o + fs ≤ f.1 + f.2 := by
  obtain ⟨i, rfl, hb⟩ := h
  have : (i + 1) * fs = i * fs + fs := Nat.succ_mul _ _
  omega

end UsualProofs.C09

namespace UsualProofs.C09
open Usual.C09

/-- `grow` keeps the slab invariant (the fragment comes fresh from the parent) -/
theorem slabGrow_inv {s : Slab} {live : List Nat} {a : Nat} (h : SInv s live) (hfl : s.freelist = [])
    (hfresh : ∀ f ∈ s.frags, a + slabGrowReq s ≤ f.1 ∨ f.1 + f.2 ≤ a) :
    SInv (slabGrow s a) live ∧
    (slabGrow s a).freelist = slabObjs (a + slabFragHdr) s.finalSize (slabGrowCount s) ∧
    ∀ y ∈ slabObjs (a + slabFragHdr) s.finalSize (slabGrowCount s), IsSlot s.finalSize (a, slabGrowReq s) y := by
  have hfs : 0 < s.finalSize := by have := h.fs_ge; omega
  have hgfl : (slabGrow s a).freelist = slabObjs (a + slabFragHdr) s.finalSize (slabGrowCount s) := by
    simp [slabGrow, hfl]
  have hnewslot : ∀ y ∈ slabObjs (a + slabFragHdr) s.finalSize (slabGrowCount s),
      IsSlot s.finalSize (a, slabGrowReq s) y := by
    intro y hy
    obtain ⟨i, hi, rfl⟩ := mem_slabObjs.mp hy
    refine ⟨i, rfl, ?_⟩
    have : (i + 1) * s.finalSize ≤ slabGrowCount s * s.finalSize := Nat.mul_le_mul_right _ hi
    simp only [slabGrowReq, slabFragHdr]; omega
  refine ⟨?_, hgfl, hnewslot⟩
  constructor
  · exact h.fs_ge
  · rw [hgfl]
    refine List.nodup_append.mpr ⟨slabObjs_nodup _ _ _ hfs, ?_, ?_⟩
    · have := h.nodup; rw [hfl] at this; simpa using this
    · intro y hy z hz heq
      subst heq
      obtain ⟨f, hf, hslot⟩ := h.slot y (by rw [hfl]; simpa using hz)
      have b1 := slot_bounds (hnewslot y hy)
      have b2 := slot_bounds hslot
      have := hfresh f hf
      have := h.fs_ge
      simp only [slabFragHdr] at *
      omega
  · intro y hy
    rw [hgfl] at hy
    rcases List.mem_append.mp hy with hy | hy
    · exact ⟨(a, slabGrowReq s), by simp [slabGrow], hnewslot y hy⟩
    · obtain ⟨f, hf, hslot⟩ := h.slot y (by rw [hfl]; simpa using hy)
      exact ⟨f, by simp [slabGrow, hf], hslot⟩
  · simp only [slabGrow]
    refine List.pairwise_append.mpr ⟨h.frag_disj, by simp, ?_⟩
    intro f hf g hg
    simp only [List.mem_singleton] at hg
    subst hg
    have := hfresh f hf
    simp only [fragDisj]; omega

/-- two different slots: no byte of one lies in the list node of the other -/
theorem other_head_outside {s : Slab} {live : List Nat} (h : SInv s live) {p q : Nat}
    (hp : p ∈ s.freelist ++ live) (hq : q ∈ s.freelist ++ live) (hne : p ≠ q) {i : Nat}
    (hi : i < s.finalSize) : inRange q listSize (p + i) = false := by
  obtain ⟨f, hf, sp⟩ := h.slot p hp
  obtain ⟨g, hg, sq⟩ := h.slot q hq
  have := slots_apart sp sq (pairwise_mem_cases h.frag_disj hf hg) hne
  have := h.fs_ge
  apply inRange_false
  simp only [listSize]; omega

theorem hdr_outside {s : Slab} {live : List Nat} (h : SInvM s live) {p : Nat}
    (hp : p ∈ s.freelist ++ live) {i : Nat} (hi : i < s.finalSize) :
    inRange s.hdr sizeofSlab (p + i) = false := by
  obtain ⟨f, hf, sp⟩ := h.inv.slot p hp
  have b := slot_bounds sp
  have := h.hdr_disj f hf
  apply inRange_false
  simp only [fragDisj, slabFragHdr] at *; omega

theorem own_tail_outside {p i : Nat} (hi : listSize ≤ i) : inRange p listSize (p + i) = false := by
  apply inRange_false; omega

/-- memory effect of unlinking `o` from the free list (`o :: rest`), then initialising it:
    what the callback sees, what a NULL callback leaves, and what is not touched -/
theorem pop_frame {s : Slab} {live : List Nat} {o : Nat} {rest : List Nat} (junk m : Mem)
    (h : SInvM s live) (hfl : s.freelist = o :: rest) :
    let m1 := slabPopMem junk m s o rest
    (∀ i, listSize ≤ i → i < s.finalSize → m1 (o + i) = m (o + i)) ∧
    (∀ p ∈ live, ∀ i, i < s.finalSize → m1 (p + i) = m (p + i)) ∧
    (∀ p ∈ rest, ∀ i, listSize ≤ i → i < s.finalSize → m1 (p + i) = m (p + i)) := by
  have ho : o ∈ s.freelist ++ live := by rw [hfl]; simp
  have hnd := h.inv.nodup
  rw [hfl] at hnd
  have hnd1 : o ∉ rest ++ live := by
    simp only [List.cons_append, List.nodup_cons] at hnd; exact hnd.1
  have hndr : (rest ++ live).Nodup := by
    simp only [List.cons_append, List.nodup_cons] at hnd; exact hnd.2
  refine ⟨?_, ?_, ?_⟩
  · intro i h16 hi
    apply memStore_outside
    intro r hr
    simp only [List.mem_cons, Option.mem_toList, Option.map_eq_some_iff] at hr
    rcases hr with rfl | rfl | ⟨q, hq, rfl⟩
    · exact own_tail_outside h16
    · exact hdr_outside h ho hi
    · have hq' : q ∈ rest := List.mem_of_mem_head? hq
      have : o ≠ q := fun e => hnd1 (e ▸ List.mem_append_left _ hq')
      exact other_head_outside h.inv ho (by rw [hfl]; simp [hq']) this hi
  · intro p hp i hi
    have hp' : p ∈ s.freelist ++ live := by simp [hp]
    have hpo : p ≠ o := fun e => hnd1 (e ▸ List.mem_append_right _ hp)
    apply memStore_outside
    intro r hr
    simp only [List.mem_cons, Option.mem_toList, Option.map_eq_some_iff] at hr
    rcases hr with rfl | rfl | ⟨q, hq, rfl⟩
    · exact other_head_outside h.inv hp' ho hpo hi
    · exact hdr_outside h hp' hi
    · have hq' : q ∈ rest := List.mem_of_mem_head? hq
      have : p ≠ q := by
        intro e
        exact (List.nodup_append.mp hndr).2.2 q hq' p hp e.symm
      exact other_head_outside h.inv hp' (by rw [hfl]; simp [hq']) this hi
  · intro p hp i h16 hi
    have hp' : p ∈ s.freelist ++ live := by rw [hfl]; simp [hp]
    have hpo : p ≠ o := fun e => hnd1 (e ▸ List.mem_append_left _ hp)
    apply memStore_outside
    intro r hr
    simp only [List.mem_cons, Option.mem_toList, Option.map_eq_some_iff] at hr
    rcases hr with rfl | rfl | ⟨q, hq, rfl⟩
    · exact other_head_outside h.inv hp' ho hpo hi
    · exact hdr_outside h hp' hi
    · have hq' : q ∈ rest := List.mem_of_mem_head? hq
      by_cases e : p = q
      · subst e; exact own_tail_outside h16
      · exact other_head_outside h.inv hp' (by rw [hfl]; simp [hq']) e hi

end UsualProofs.C09

namespace UsualProofs.C09
open Usual.C09

/-- memory effect of `grow`: objects held or free before are untouched, and every new object is
    zero behind its list node -/
theorem grow_frame {s : Slab} {live : List Nat} {a : Nat} (junk m : Mem) (h : SInvM s live)
    (hfl : s.freelist = [])
    (hfresh : ∀ f ∈ s.frags, a + slabGrowReq s ≤ f.1 ∨ f.1 + f.2 ≤ a)
    (hfreshH : a + slabGrowReq s ≤ s.hdr ∨ s.hdr + sizeofSlab ≤ a) :
    let m0 := slabGrowMem junk m s a
    (∀ p ∈ live, ∀ i, i < s.finalSize → m0 (p + i) = m (p + i)) ∧
    (∀ y ∈ slabObjs (a + slabFragHdr) s.finalSize (slabGrowCount s),
       ∀ i, listSize ≤ i → i < s.finalSize → m0 (y + i) = 0) := by
  obtain ⟨hginv, hgfl, hnewslot⟩ := slabGrow_inv h.inv hfl hfresh
  have hfs := h.inv.fs_ge
  refine ⟨?_, ?_⟩
  · intro p hp i hi
    obtain ⟨f, hf, sp⟩ := h.inv.slot p (by simp [hp])
    have bp := slot_bounds sp
    have hfr := hfresh f hf
    simp only [slabGrowMem]
    rw [memStore_outside, memZero_outside]
    · apply inRange_false; omega
    · intro r hr
      simp only [List.mem_cons, List.mem_append, List.mem_map] at hr
      rcases hr with rfl | rfl | ⟨g, hg, rfl⟩ | ⟨y, hy, rfl⟩
      · apply inRange_false; simp only [slabFragHdr, slabGrowReq] at *; omega
      · exact hdr_outside h (by simp [hp]) hi
      · apply inRange_false
        rcases pairwise_mem_cases h.inv.frag_disj hf hg with e | e | e
        · subst e; simp only [slabFragHdr] at *; omega
        · simp only [fragDisj, slabFragHdr] at *; omega
        · simp only [fragDisj, slabFragHdr] at *; omega
      · have by_ := slot_bounds (hnewslot y hy)
        apply inRange_false
        simp only [listSize, slabFragHdr] at *; omega
  · intro y hy i h16 hi
    have by_ := slot_bounds (hnewslot y hy)
    simp only [slabGrowMem]
    rw [memStore_outside, memZero_inside]
    · apply inRange_true <;> simp only [slabFragHdr] at * <;> omega
    · intro r hr
      simp only [List.mem_cons, List.mem_append, List.mem_map] at hr
      rcases hr with rfl | rfl | ⟨g, hg, rfl⟩ | ⟨z, hz, rfl⟩
      · apply inRange_false; simp only [slabFragHdr] at *; omega
      · apply inRange_false; simp only [slabFragHdr] at *; omega
      · have := hfresh g hg
        apply inRange_false; simp only [slabFragHdr] at *; omega
      · by_cases e : y = z
        · subst e; exact own_tail_outside h16
        · have hyz := slots_apart (hnewslot y hy) (hnewslot z hz) (Or.inl rfl) e
          apply inRange_false; simp only [listSize] at *; omega

end UsualProofs.C09

namespace UsualProofs.C09
open Usual.C09

/-- the callback writes only inside the object it is given -/
def InitLocal (init : InitFn) (fs : Nat) : Prop :=
  ∀ f, init = some f → ∀ (o : Nat) (m : Mem) (x : Nat), inRange o fs x = false → f o m x = m x

/-- **slab_alloc and memory**, any reachable state.  With `m1` the memory handed to the callback
    (`m'` = `f o m1`, resp. `memset` of `m1`):
    * no callback: the object consists of `final_size` zero bytes;
    * callback `f`: called exactly once, on the returned object, and behind its list node the
      object it sees is zero-filled when it comes from a fragment just obtained, and otherwise
      holds exactly the bytes it held before the call (i.e. as left at `slab_free`, by
      `slabFreeM_frame` and the third item);
    * every object the client holds keeps all its bytes, and every object still free keeps its
      bytes behind the list node. -/
theorem slabAllocM_frame {s s' : Slab} {live : List Nat} {o : Nat} {pa : Option Nat}
    (junk : Mem) (init : InitFn) (m m' : Mem) (h : SInvM s live)
    (hpa : ∀ req, slabAllocReq s = some req → SParentOkM s req pa)
    (hloc : InitLocal init s.finalSize)
    (hr : slabAllocM junk init s m pa = (s', some o, m')) :
    ∃ m1 : Mem,
      m' = slabInitMem init o s.finalSize m1 ∧
      (init = none → ∀ i, i < s.finalSize → m' (o + i) = 0) ∧
      (∀ i, listSize ≤ i → i < s.finalSize →
          m1 (o + i) = if s.freelist = [] then 0 else m (o + i)) ∧
      (∀ p ∈ live, ∀ i, i < s.finalSize → m' (p + i) = m (p + i)) ∧
      (∀ p ∈ s'.freelist, p ∈ s.freelist → ∀ i, listSize ≤ i → i < s.finalSize → m' (p + i) = m (p + i)) := by
  have hfs := h.inv.fs_ge
  -- the common second phase: state `g` with free list `o :: rest` and memory `m0`
  have phase2 : ∀ (g : Slab) (m0 : Mem) (rest : List Nat), SInvM g live → g.freelist = o :: rest →
      g.finalSize = s.finalSize →
      m' = slabInitMem init o s.finalSize (slabPopMem junk m0 g o rest) →
      (init = none → ∀ i, i < s.finalSize → m' (o + i) = 0) ∧
      (∀ i, listSize ≤ i → i < s.finalSize → slabPopMem junk m0 g o rest (o + i) = m0 (o + i)) ∧
      (∀ p ∈ live, ∀ i, i < s.finalSize → m' (p + i) = m0 (p + i)) ∧
      (∀ p ∈ rest, ∀ i, listSize ≤ i → i < s.finalSize → m' (p + i) = m0 (p + i)) := by
    intro g m0 rest hg hgfl hgfs hm'
    obtain ⟨f1, f2, f3⟩ := pop_frame junk m0 hg hgfl
    rw [hgfs] at f1 f2 f3
    have ho : o ∈ g.freelist ++ live := by rw [hgfl]; simp
    have hnd := hg.inv.nodup
    rw [hgfl] at hnd
    have hnd1 : o ∉ rest ++ live := by
      simp only [List.cons_append, List.nodup_cons] at hnd; exact hnd.1
    -- bytes of another slot are outside the object `o`
    have outside : ∀ p, p ∈ g.freelist ++ live → p ≠ o → ∀ i, i < s.finalSize →
        inRange o s.finalSize (p + i) = false := by
      intro p hp hne i hi
      obtain ⟨f, hf, sp⟩ := hg.inv.slot p hp
      obtain ⟨k, hk, so⟩ := hg.inv.slot o ho
      have := slots_apart sp so (pairwise_mem_cases hg.inv.frag_disj hf hk) hne
      rw [hgfs] at this
      apply inRange_false; omega
    have after : ∀ x, inRange o s.finalSize x = false → m' x = slabPopMem junk m0 g o rest x := by
      intro x hx
      rw [hm']
      unfold slabInitMem
      cases hin : init with
      | none => simp only []; exact memZero_outside hx
      | some f => simp only []; exact hloc f hin o _ x hx
    refine ⟨?_, f1, ?_, ?_⟩
    · intro hin i hi
      rw [hm', hin]
      simp only [slabInitMem]
      exact memZero_inside (inRange_true (by omega) (by omega))
    · intro p hp i hi
      have hpo : p ≠ o := fun e => hnd1 (e ▸ List.mem_append_right _ hp)
      rw [after _ (outside p (by simp [hp]) hpo i hi)]
      exact f2 p hp i hi
    · intro p hp i h16 hi
      have hpo : p ≠ o := fun e => hnd1 (e ▸ List.mem_append_left _ hp)
      rw [after _ (outside p (by rw [hgfl]; simp [hp]) hpo i hi)]
      exact f3 p hp i h16 hi
  unfold slabAllocM at hr
  cases hfl : s.freelist with
  | cons x rest =>
    simp only [hfl, Prod.mk.injEq, Option.some.injEq] at hr
    obtain ⟨hs', rfl, hm'⟩ := hr
    obtain ⟨p1, p2, p3, p4⟩ := phase2 s m rest h hfl rfl hm'.symm
    refine ⟨slabPopMem junk m s x rest, hm'.symm, p1, ?_, p3, ?_⟩
    · intro i h16 hi; simp only [reduceCtorEq, if_false]; exact p2 i h16 hi
    · intro p hp _ i h16 hi
      rw [← hs'] at hp
      exact p4 p hp i h16 hi
  | nil =>
    cases pa with
    | none => simp [hfl] at hr
    | some a =>
      simp only [hfl] at hr
      have hreq : slabAllocReq s = some (slabGrowReq s) := by simp [slabAllocReq, hfl]
      obtain ⟨hfr, hfrH⟩ := hpa _ hreq
      have hfresh := hfr a rfl
      have hfreshH := hfrH a rfl
      obtain ⟨hginv, hgfl, hnewslot⟩ := slabGrow_inv h.inv hfl hfresh
      have hgM : SInvM (slabGrow s a) live := by
        refine ⟨hginv, ?_⟩
        intro f hf
        simp only [slabGrow, List.mem_append, List.mem_singleton] at hf
        rcases hf with hf | rfl
        · exact h.hdr_disj f hf
        · simp only [fragDisj, slabGrow]; omega
      cases hfl2 : (slabGrow s a).freelist with
      | nil => simp [hfl2] at hr
      | cons x rest =>
        simp only [hfl2, Prod.mk.injEq, Option.some.injEq] at hr
        obtain ⟨hs', rfl, hm'⟩ := hr
        obtain ⟨g1, g2⟩ := grow_frame junk m h hfl hfresh hfreshH
        obtain ⟨p1, p2, p3, p4⟩ := phase2 (slabGrow s a) (slabGrowMem junk m s a) rest hgM hfl2
          (by simp [slabGrow]) hm'.symm
        have hx : x ∈ slabObjs (a + slabFragHdr) s.finalSize (slabGrowCount s) := by
          rw [← hgfl, hfl2]; simp
        refine ⟨_, hm'.symm, p1, ?_, ?_, ?_⟩
        · intro i h16 hi
          simp only [if_true]
          rw [p2 i h16 hi]
          exact g2 x hx i h16 hi
        · intro p hp i hi
          rw [p3 p hp i hi]; exact g1 p hp i hi
        · intro p _ hp; simp at hp

/-- **slab_free and memory**: the object given back keeps its bytes behind the list node, every
    other object the client holds keeps all its bytes, every free object keeps its bytes behind
    the list node -/
theorem slabFreeM_frame {s : Slab} {live : List Nat} {obj : Nat} (junk m : Mem)
    (h : SInvM s live) (ho : obj ∈ live) :
    let m' := (slabFreeM junk s m obj).2
    (∀ i, listSize ≤ i → i < s.finalSize → m' (obj + i) = m (obj + i)) ∧
    (∀ p ∈ live, p ≠ obj → ∀ i, i < s.finalSize → m' (p + i) = m (p + i)) ∧
    (∀ p ∈ s.freelist, ∀ i, listSize ≤ i → i < s.finalSize → m' (p + i) = m (p + i)) := by
  have hobj : obj ∈ s.freelist ++ live := by simp [ho]
  have hnd := List.nodup_append.mp h.inv.nodup
  refine ⟨?_, ?_, ?_⟩
  · intro i h16 hi
    apply memStore_outside
    intro r hr
    simp only [List.mem_cons, Option.mem_toList, Option.map_eq_some_iff] at hr
    rcases hr with rfl | rfl | ⟨q, hq, rfl⟩
    · exact own_tail_outside h16
    · exact hdr_outside h hobj hi
    · have hq' : q ∈ s.freelist := List.mem_of_mem_head? hq
      have : obj ≠ q := fun e => hnd.2.2 q hq' obj ho e.symm
      exact other_head_outside h.inv hobj (by simp [hq']) this hi
  · intro p hp hne i hi
    have hp' : p ∈ s.freelist ++ live := by simp [hp]
    apply memStore_outside
    intro r hr
    simp only [List.mem_cons, Option.mem_toList, Option.map_eq_some_iff] at hr
    rcases hr with rfl | rfl | ⟨q, hq, rfl⟩
    · exact other_head_outside h.inv hp' hobj hne hi
    · exact hdr_outside h hp' hi
    · have hq' : q ∈ s.freelist := List.mem_of_mem_head? hq
      have : p ≠ q := fun e => hnd.2.2 q hq' p hp e.symm
      exact other_head_outside h.inv hp' (by simp [hq']) this hi
  · intro p hp i h16 hi
    have hp' : p ∈ s.freelist ++ live := by simp [hp]
    have hpo : p ≠ obj := fun e => hnd.2.2 p hp obj ho e
    apply memStore_outside
    intro r hr
    simp only [List.mem_cons, Option.mem_toList, Option.map_eq_some_iff] at hr
    rcases hr with rfl | rfl | ⟨q, hq, rfl⟩
    · exact other_head_outside h.inv hp' hobj hpo hi
    · exact hdr_outside h hp' hi
    · have hq' : q ∈ s.freelist := List.mem_of_mem_head? hq
      by_cases e : p = q
      · subst e; exact own_tail_outside h16
      · exact other_head_outside h.inv hp' (by simp [hq']) e hi

end UsualProofs.C09
