import Usual.C09.TreeAlloc
/-! Tree allocator: `tree_destroy` releases every address the tree holds (its own struct, every
    item, everything of every nested sub-tree), each as often as it is held. -/
namespace UsualProofs.C09
open Usual.C09

mutual
theorem destroyList_perm : ∀ t : TNode, t.destroyList.Perm t.regions
  | .mk i h its subs => by
    simp only [TNode.destroyList, TNode.regions]
    have ih := destroyListL_perm subs
    -- its ++ subsFreed ++ [h]  ~  h :: its ++ subsRegions
    have h1 : (its.map (·.1) ++ destroyListL subs ++ [h]).Perm (h :: (its.map (·.1) ++ destroyListL subs)) :=
      List.perm_append_singleton _ _
    refine h1.trans ?_
    exact List.Perm.cons _ (List.Perm.append_left _ ih)
theorem destroyListL_perm : ∀ ts : List TNode, (destroyListL ts).Perm (regionsL ts)
  | [] => by simp [destroyListL, regionsL]
  | t :: ts => by
    simp only [destroyListL, regionsL]
    exact List.Perm.append (destroyList_perm t) (destroyListL_perm ts)
end

/-- a tree whose held addresses are pairwise different (what a correct `real` allocator
    guarantees) frees nothing twice -/
theorem destroyList_nodup (t : TNode) (h : t.regions.Nodup) : t.destroyList.Nodup :=
  (destroyList_perm t).nodup_iff.mpr h

/-- the block `tree_alloc` returns lies inside the item obtained from `real`, behind the header -/
theorem treeAlloc_block {t t' : TNode} {id len q a req : Nat}
    (hreq : treeReq len = some req) (h : treeAlloc t id len (some a) = some (t', q)) :
    q = a + treeHdr ∧ req = treeHdr + len ∧ q + len = a + req ∧ req < 2 ^ 64 := by
  unfold treeAlloc at h
  unfold treeReq at hreq
  split at hreq
  · cases hreq
  · rename_i hle
    simp only [Option.some.injEq] at hreq
    subst hreq
    split at h
    · cases h
    · simp only [treeReq, hle, if_false] at h
      simp only [Option.some.injEq, Prod.mk.injEq] at h
      refine ⟨h.2.symm, rfl, by omega, ?_⟩
      simp only [sizeMax, treeHdr] at *
      omega

end UsualProofs.C09
