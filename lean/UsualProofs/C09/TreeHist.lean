import UsualProofs.C09.TreeProofs
import Usual.C09.World
namespace UsualProofs.C09
open Usual.C09

/-- effect of an item-list edit on the addresses a node holds -/
theorem regions_mk (i h : Nat) (its : List (Nat × Nat)) (subs : List TNode) :
    (TNode.mk i h its subs).regions = h :: its.map (·.1) ++ regionsL subs := by
  simp [TNode.regions]

mutual
theorem update_not_mem (f : TNode → TNode) (id : Nat) : ∀ t : TNode, id ∉ t.ids → t.update f id = t
  | .mk i h its subs => by
    intro hn
    simp only [TNode.ids, List.mem_cons, not_or] at hn
    simp only [TNode.update]
    rw [if_neg (fun e => hn.1 e.symm)]
    rw [updateL_not_mem f id subs hn.2]
theorem updateL_not_mem (f : TNode → TNode) (id : Nat) : ∀ ts : List TNode, id ∉ idsL ts → updateL f id ts = ts
  | [] => by intro _; simp [updateL]
  | t :: ts => by
    intro hn
    simp only [idsL, List.mem_append, not_or] at hn
    simp only [updateL]
    rw [update_not_mem f id t hn.1, updateL_not_mem f id ts hn.2]
end

mutual
/-- applying `f` at the (unique) node `id` changes the held addresses as `f` does at that node -/
theorem update_regions (f : TNode → TNode) (id r : Nat)
    (hf : ∀ n : TNode, (f n).regions.Perm (r :: n.regions)) :
    ∀ t : TNode, id ∈ t.ids → t.ids.Nodup → (t.update f id).regions.Perm (r :: t.regions)
  | .mk i h its subs => by
    intro hm hnd
    simp only [TNode.update]
    by_cases e : i = id
    · rw [if_pos e]; exact hf _
    · rw [if_neg e]
      simp only [TNode.ids, List.mem_cons] at hm
      have hm' : id ∈ idsL subs := by
        rcases hm with h1 | h1
        · exact absurd h1.symm e
        · exact h1
      simp only [TNode.ids, List.nodup_cons] at hnd
      have ih := updateL_regions f id r hf subs hm' hnd.2
      simp only [TNode.regions]
      have : (h :: (its.map (·.1) ++ regionsL (updateL f id subs))).Perm
          (h :: (its.map (·.1) ++ (r :: regionsL subs))) :=
        List.Perm.cons _ (List.Perm.append_left _ ih)
      refine this.trans ?_
      have h2 : (its.map (·.1) ++ r :: regionsL subs).Perm (r :: (its.map (·.1) ++ regionsL subs)) :=
        List.perm_middle
      exact (List.Perm.cons _ h2).trans (List.Perm.swap _ _ _)
theorem updateL_regions (f : TNode → TNode) (id r : Nat)
    (hf : ∀ n : TNode, (f n).regions.Perm (r :: n.regions)) :
    ∀ ts : List TNode, id ∈ idsL ts → (idsL ts).Nodup → (regionsL (updateL f id ts)).Perm (r :: regionsL ts)
  | [] => by intro hm; simp [idsL] at hm
  | t :: ts => by
    intro hm hnd
    simp only [idsL, List.mem_append] at hm
    simp only [idsL] at hnd
    have hnd' := List.nodup_append.mp hnd
    simp only [updateL, regionsL]
    by_cases ht : id ∈ t.ids
    · have hnot : id ∉ idsL ts := fun h2 => hnd'.2.2 id ht id h2 rfl
      rw [updateL_not_mem f id ts hnot]
      have ih := update_regions f id r hf t ht hnd'.1
      exact List.Perm.append_right _ ih
    · have hts : id ∈ idsL ts := by
        rcases hm with h1 | h1
        · exact absurd h1 ht
        · exact h1
      rw [update_not_mem f id t ht]
      have ih := updateL_regions f id r hf ts hts hnd'.2.1
      exact (List.Perm.append_left _ ih).trans List.perm_middle
end

theorem treeAddItem_regions (a len : Nat) (n : TNode) :
    (treeAddItem a len n).regions.Perm (a :: n.regions) := by
  cases n with
  | mk i h its subs =>
    simp only [treeAddItem, TNode.regions, List.map_append, List.map_cons, List.map_nil]
    have : (h :: (its.map (·.1) ++ [a] ++ regionsL subs)).Perm (h :: a :: (its.map (·.1) ++ regionsL subs)) := by
      apply List.Perm.cons
      rw [List.append_assoc]
      exact List.perm_middle
    exact this.trans (List.Perm.swap _ _ _)

/-- `tree_alloc` on the tree `id` of a forest with unique ids: the forest now holds exactly one
    more address — the one obtained from `real` — so a later `tree_destroy` of the root returns it
    (`tree_destroy_returns_once`). -/
theorem treeAlloc_regions {t t' : TNode} {id len q a : Nat} (hid : id ∈ t.ids) (hnd : t.ids.Nodup)
    (h : treeAlloc t id len (some a) = some (t', q)) : t'.regions.Perm (a :: t.regions) := by
  unfold treeAlloc at h
  split at h
  · cases h
  · split at h
    · rename_i req a' hreq hpa
      simp only [Option.some.injEq] at hpa
      subst hpa
      simp only [Option.some.injEq, Prod.mk.injEq] at h
      rw [← h.1]
      exact update_regions _ id a (treeAddItem_regions a len) t hid hnd
    · cases h

end UsualProofs.C09
