import UsualProofs.C09.TreeHist
/-! Tree allocator, bookkeeping over every history (alloc, free, realloc, new sub-tree, destroy of
    a sub-tree) on forests with nested sub-trees: the multiset of addresses the forest holds
    (`regions`) is exactly the multiset of addresses obtained from `real` and not yet returned. -/
namespace UsualProofs.C09
open Usual.C09

/-! ### a generic "collect something from every node" and its two instances -/

mutual
def collect {α : Type} (own : Nat → Nat → List (Nat × Nat) → List α) : TNode → List α
  | .mk i h its subs => own i h its ++ collectL own subs
def collectL {α : Type} (own : Nat → Nat → List (Nat × Nat) → List α) : List TNode → List α
  | [] => []
  | t :: ts => collect own t ++ collectL own ts
end

def ownR (_i h : Nat) (its : List (Nat × Nat)) : List Nat := h :: its.map (·.1)
def ownI (i _h : Nat) (_its : List (Nat × Nat)) : List Nat := [i]

mutual
theorem regions_eq_collect : ∀ t : TNode, t.regions = collect ownR t
  | .mk i h its subs => by
    simp only [TNode.regions, collect, ownR, regionsL_eq_collect subs, List.cons_append]
theorem regionsL_eq_collect : ∀ ts : List TNode, regionsL ts = collectL ownR ts
  | [] => by simp [regionsL, collectL]
  | t :: ts => by simp only [regionsL, collectL, regions_eq_collect t, regionsL_eq_collect ts]
end

mutual
theorem ids_eq_collect : ∀ t : TNode, t.ids = collect ownI t
  | .mk i h its subs => by
    simp only [TNode.ids, collect, ownI, idsL_eq_collect subs, List.cons_append, List.nil_append]
theorem idsL_eq_collect : ∀ ts : List TNode, idsL ts = collectL ownI ts
  | [] => by simp [idsL, collectL]
  | t :: ts => by simp only [idsL, collectL, ids_eq_collect t, idsL_eq_collect ts]
end

/-! ### find -/

mutual
theorem find_none : ∀ (id : Nat) (t : TNode), id ∉ t.ids → t.find id = none
  | id, .mk i h its subs => by
    intro hn
    simp only [TNode.ids, List.mem_cons, not_or] at hn
    simp only [TNode.find]
    rw [if_neg (fun e => hn.1 e.symm)]
    exact findL_none id subs hn.2
theorem findL_none : ∀ (id : Nat) (ts : List TNode), id ∉ idsL ts → findL id ts = none
  | _, [] => by intro _; simp [findL]
  | id, t :: ts => by
    intro hn
    simp only [idsL, List.mem_append, not_or] at hn
    simp only [findL, find_none id t hn.1, findL_none id ts hn.2]
end

theorem node_id_mem (t : TNode) : t.id ∈ t.ids := by
  cases t with
  | mk i h its subs => simp [TNode.id, TNode.ids]

/-! ### decomposition: the node `id` and "everything else" -/

mutual
theorem decomp {α : Type} (own : Nat → Nat → List (Nat × Nat) → List α) (id : Nat) :
    ∀ t : TNode, id ∈ t.ids → t.ids.Nodup →
      ∃ n C, t.find id = some n ∧ n.id = id ∧
        ∀ f : TNode → TNode, (collect own (t.update f id)).Perm (collect own (f n) ++ C)
  | .mk i h its subs => by
    intro hm hnd
    by_cases e : i = id
    · refine ⟨.mk i h its subs, [], by simp [TNode.find, e], by simp [TNode.id, e], ?_⟩
      intro f
      simp [TNode.update, e]
    · simp only [TNode.ids, List.mem_cons] at hm
      have hm' : id ∈ idsL subs := by
        rcases hm with h1 | h1
        · exact absurd h1.symm e
        · exact h1
      simp only [TNode.ids, List.nodup_cons] at hnd
      obtain ⟨n, C, hf, hid, hperm⟩ := decompL own id subs hm' hnd.2
      refine ⟨n, own i h its ++ C, by simp [TNode.find, e, hf], hid, ?_⟩
      intro f
      simp only [TNode.update, if_neg e, collect]
      have h1 := List.Perm.append_left (own i h its) (hperm f)
      refine h1.trans ?_
      -- own ++ (X ++ C) ~ X ++ (own ++ C)
      rw [← List.append_assoc, ← List.append_assoc]
      exact List.Perm.append_right _ List.perm_append_comm
theorem decompL {α : Type} (own : Nat → Nat → List (Nat × Nat) → List α) (id : Nat) :
    ∀ ts : List TNode, id ∈ idsL ts → (idsL ts).Nodup →
      ∃ n C, findL id ts = some n ∧ n.id = id ∧
        ∀ f : TNode → TNode, (collectL own (updateL f id ts)).Perm (collect own (f n) ++ C)
  | [] => by intro hm; simp [idsL] at hm
  | t :: ts => by
    intro hm hnd
    simp only [idsL, List.mem_append] at hm
    simp only [idsL] at hnd
    have hnd' := List.nodup_append.mp hnd
    by_cases ht : id ∈ t.ids
    · have hnot : id ∉ idsL ts := fun h2 => hnd'.2.2 id ht id h2 rfl
      obtain ⟨n, C, hf, hid, hperm⟩ := decomp own id t ht hnd'.1
      refine ⟨n, C ++ collectL own ts, by simp [findL, hf], hid, ?_⟩
      intro f
      simp only [updateL, collectL, updateL_not_mem f id ts hnot]
      rw [← List.append_assoc]
      exact List.Perm.append_right _ (hperm f)
    · have hts : id ∈ idsL ts := by
        rcases hm with h1 | h1
        · exact absurd h1 ht
        · exact h1
      obtain ⟨n, C, hf, hid, hperm⟩ := decompL own id ts hts hnd'.2.1
      refine ⟨n, collect own t ++ C, by simp [findL, find_none id t ht, hf], hid, ?_⟩
      intro f
      simp only [updateL, collectL, update_not_mem f id t ht]
      have h1 := List.Perm.append_left (collect own t) (hperm f)
      refine h1.trans ?_
      rw [← List.append_assoc, ← List.append_assoc]
      exact List.Perm.append_right _ List.perm_append_comm
end

mutual
theorem update_id : ∀ (id : Nat) (t : TNode), t.update (fun x => x) id = t
  | id, .mk i h its subs => by
    simp only [TNode.update]
    split
    · rfl
    · rw [updateL_id id subs]
theorem updateL_id : ∀ (id : Nat) (ts : List TNode), updateL (fun x => x) id ts = ts
  | _, [] => by simp [updateL]
  | id, t :: ts => by simp only [updateL, update_id id t, updateL_id id ts]
end

/-- what changes when `f` is applied at node `id`: with `n` the node found,
    `collect (update) ~ collect (f n) ++ C` and `collect t ~ collect n ++ C` for the same `C` -/
theorem decomp2 {α : Type} (own : Nat → Nat → List (Nat × Nat) → List α) {id : Nat} {t : TNode}
    (hm : id ∈ t.ids) (hnd : t.ids.Nodup) :
    ∃ n C, t.find id = some n ∧ n.id = id ∧ (collect own t).Perm (collect own n ++ C) ∧
      ∀ f : TNode → TNode, (collect own (t.update f id)).Perm (collect own (f n) ++ C) := by
  obtain ⟨n, C, hf, hid, hperm⟩ := decomp own id t hm hnd
  refine ⟨n, C, hf, hid, ?_, hperm⟩
  have := hperm (fun x => x)
  rw [update_id] at this
  exact this

/-! ### remove (unlink a sub-tree) -/

mutual
theorem remove_not_mem : ∀ (id : Nat) (t : TNode), id ∉ t.ids → t.remove id = t
  | id, .mk i h its subs => by
    intro hn
    simp only [TNode.ids, List.mem_cons, not_or] at hn
    simp only [TNode.remove, removeL_not_mem id subs hn.2]
theorem removeL_not_mem : ∀ (id : Nat) (ts : List TNode), id ∉ idsL ts → removeL id ts = ts
  | _, [] => by intro _; simp [removeL]
  | id, t :: ts => by
    intro hn
    simp only [idsL, List.mem_append, not_or] at hn
    have hne : t.id ≠ id := fun e => hn.1 (e ▸ node_id_mem t)
    simp only [removeL, if_neg hne, remove_not_mem id t hn.1, removeL_not_mem id ts hn.2]
end

theorem ids_of_mk (i h : Nat) (its : List (Nat × Nat)) (subs : List TNode) :
    (TNode.mk i h its subs).ids = i :: idsL subs := by simp [TNode.ids]

mutual
/-- unlinking the sub-tree `id` (not the root) splits what the forest holds into what the sub-tree
    holds and what remains -/
theorem decompRemove {α : Type} (own : Nat → Nat → List (Nat × Nat) → List α) (id : Nat) :
    ∀ t : TNode, id ∈ idsL t.subs → t.ids.Nodup →
      ∃ n, t.find id = some n ∧ n.id = id ∧
        (collect own t).Perm (collect own n ++ collect own (t.remove id))
  | .mk i h its subs => by
    intro hm hnd
    simp only [TNode.subs] at hm
    simp only [TNode.ids, List.nodup_cons] at hnd
    have e : i ≠ id := fun e => hnd.1 (e ▸ hm)
    obtain ⟨n, hf, hid, hperm⟩ := decompRemoveL own id subs hm hnd.2
    refine ⟨n, by simp [TNode.find, e, hf], hid, ?_⟩
    simp only [TNode.remove, collect]
    have h1 := List.Perm.append_left (own i h its) hperm
    refine h1.trans ?_
    rw [← List.append_assoc, ← List.append_assoc]
    exact List.Perm.append_right _ List.perm_append_comm
theorem decompRemoveL {α : Type} (own : Nat → Nat → List (Nat × Nat) → List α) (id : Nat) :
    ∀ ts : List TNode, id ∈ idsL ts → (idsL ts).Nodup →
      ∃ n, findL id ts = some n ∧ n.id = id ∧
        (collectL own ts).Perm (collect own n ++ collectL own (removeL id ts))
  | [] => by intro hm; simp [idsL] at hm
  | t :: ts => by
    intro hm hnd
    simp only [idsL, List.mem_append] at hm
    simp only [idsL] at hnd
    have hnd' := List.nodup_append.mp hnd
    by_cases hid : t.id = id
    · -- the sub-tree to unlink is `t` itself
      refine ⟨t, ?_, hid, ?_⟩
      · cases t with
        | mk i h its subs =>
          simp only [TNode.id] at hid
          simp [findL, TNode.find, hid]
      · simp only [removeL, if_pos hid, collectL]
        exact List.Perm.refl _
    · by_cases ht : id ∈ t.ids
      · have hnot : id ∉ idsL ts := fun h2 => hnd'.2.2 id ht id h2 rfl
        have hsub : id ∈ idsL t.subs := by
          cases t with
          | mk i h its subs =>
            simp only [TNode.ids, List.mem_cons] at ht
            simp only [TNode.id] at hid
            rcases ht with h1 | h1
            · exact absurd h1.symm hid
            · exact h1
        obtain ⟨n, hf, hnid, hperm⟩ := decompRemove own id t hsub hnd'.1
        refine ⟨n, by simp [findL, hf], hnid, ?_⟩
        simp only [removeL, if_neg hid, collectL, removeL_not_mem id ts hnot]
        rw [← List.append_assoc]
        exact List.Perm.append_right _ hperm
      · have hts : id ∈ idsL ts := by
          rcases hm with h1 | h1
          · exact absurd h1 ht
          · exact h1
        obtain ⟨n, hf, hnid, hperm⟩ := decompRemoveL own id ts hts hnd'.2.1
        refine ⟨n, by simp [findL, find_none id t ht, hf], hnid, ?_⟩
        simp only [removeL, if_neg hid, collectL, remove_not_mem id t ht]
        have h1 := List.Perm.append_left (collect own t) hperm
        refine h1.trans ?_
        rw [← List.append_assoc, ← List.append_assoc]
        exact List.Perm.append_right _ List.perm_append_comm
end

end UsualProofs.C09

namespace UsualProofs.C09
open Usual.C09

/-! ### node-level effects of the operations -/

theorem collect_mk {α : Type} (own : Nat → Nat → List (Nat × Nat) → List α) (i h : Nat) (its : List (Nat × Nat))
    (subs : List TNode) : collect own (.mk i h its subs) = own i h its ++ collectL own subs := by
  simp [collect]

theorem addItem_ids (a len : Nat) (n : TNode) : (treeAddItem a len n).ids = n.ids := by
  cases n; simp [treeAddItem, TNode.ids]

theorem addItem_id (a len : Nat) (n : TNode) : (treeAddItem a len n).id = n.id := by
  cases n; simp [treeAddItem, TNode.id]

theorem delItem_ids (ptr : Nat) (n : TNode) : (treeDelItem ptr n).ids = n.ids := by
  cases n; simp [treeDelItem, TNode.ids]

theorem delItem_id (ptr : Nat) (n : TNode) : (treeDelItem ptr n).id = n.id := by
  cases n; simp [treeDelItem, TNode.id]

theorem addSub_regions (newId a : Nat) (n : TNode) : (treeAddSub newId a n).regions.Perm (a :: n.regions) := by
  cases n with
  | mk i h its subs =>
    simp only [treeAddSub, regions_eq_collect, collect_mk, ownR]
    have hl : ∀ ts : List TNode, collectL ownR (ts ++ [.mk newId a [] []]) = collectL ownR ts ++ [a] := by
      intro ts
      induction ts with
      | nil => simp [collectL, collect, ownR]
      | cons t ts ih => simp only [List.cons_append, collectL, ih, List.append_assoc]
    rw [hl, ← List.append_assoc]
    exact List.perm_append_singleton _ _

theorem addSub_ids (newId a : Nat) (n : TNode) : (treeAddSub newId a n).ids.Perm (newId :: n.ids) := by
  cases n with
  | mk i h its subs =>
    simp only [treeAddSub, ids_eq_collect, collect_mk, ownI]
    have hl : ∀ ts : List TNode, collectL ownI (ts ++ [.mk newId a [] []]) = collectL ownI ts ++ [newId] := by
      intro ts
      induction ts with
      | nil => simp [collectL, collect, ownI]
      | cons t ts ih => simp only [List.cons_append, collectL, ih, List.append_assoc]
    rw [hl, ← List.append_assoc]
    exact List.perm_append_singleton _ _

/-- removing the (unique) item at address `a` from an item list -/
theorem items_del_perm (its : List (Nat × Nat)) (a sz : Nat) (hmem : (a, sz) ∈ its)
    (hnd : (its.map (·.1)).Nodup) :
    (its.map (·.1)).Perm (a :: (its.filter (fun it => it.1 + treeHdr != a + treeHdr)).map (·.1)) := by
  induction its with
  | nil => cases hmem
  | cons x xs ih =>
    simp only [List.map_cons, List.nodup_cons] at hnd
    by_cases hx : x.1 = a
    · -- this is the item; no other item has this address
      have hrest : xs.filter (fun it => it.1 + treeHdr != a + treeHdr) = xs := by
        apply List.filter_eq_self.mpr
        intro y hy
        have : y.1 ≠ a := by
          intro e
          apply hnd.1
          rw [hx, ← e]
          exact List.mem_map_of_mem hy
        simp only [bne_iff_ne, ne_eq]
        omega
      simp only [List.filter_cons, hx, bne_self_eq_false, Bool.false_eq_true, if_false, hrest, List.map_cons]
      exact List.Perm.refl _
    · have hmem' : (a, sz) ∈ xs := by
        rcases List.mem_cons.mp hmem with e | e
        · exact absurd (by rw [← e]) hx
        · exact e
      have hkeep : (x.1 + treeHdr != a + treeHdr) = true := by
        simp only [bne_iff_ne, ne_eq]; omega
      simp only [List.filter_cons, hkeep, if_true, List.map_cons]
      exact (List.Perm.cons _ (ih hmem' hnd.2)).trans (List.Perm.swap _ _ _)

theorem delItem_regions (n : TNode) (a sz : Nat) (hmem : (a, sz) ∈ n.items) (hnd : n.regions.Nodup) :
    n.regions.Perm (a :: (treeDelItem (a + treeHdr) n).regions) := by
  cases n with
  | mk i h its subs =>
    simp only [TNode.items] at hmem
    have hnd' : (its.map (·.1)).Nodup := by
      simp only [TNode.regions] at hnd
      have := (List.nodup_cons.mp hnd).2
      exact (List.nodup_append.mp this).1
    simp only [treeDelItem, TNode.regions]
    have h1 := items_del_perm its a sz hmem hnd'
    have h2 : (h :: (its.map (·.1) ++ regionsL subs)).Perm
        (h :: ((a :: (its.filter (fun it => it.1 + treeHdr != a + treeHdr)).map (·.1)) ++ regionsL subs)) :=
      List.Perm.cons _ (List.Perm.append_right _ h1)
    exact h2.trans (List.Perm.swap _ _ _)

/-- re-appending the unlinked item(s) (failure path of `tree_realloc`) changes nothing -/
theorem readd_regions (n : TNode) (ptr : Nat) :
    (treeReaddItems (n.items.filter (fun it => it.1 + treeHdr == ptr)) (treeDelItem ptr n)).regions.Perm
      n.regions := by
  cases n with
  | mk i h its subs =>
    simp only [treeDelItem, treeReaddItems, TNode.items, TNode.regions, List.map_append]
    apply List.Perm.cons
    apply List.Perm.append_right
    have h1 := List.filter_append_perm (fun it : Nat × Nat => it.1 + treeHdr != ptr) its
    have h2 : (its.filter (fun it : Nat × Nat => !(it.1 + treeHdr != ptr))) =
        its.filter (fun it : Nat × Nat => it.1 + treeHdr == ptr) := by
      congr 1; funext it; simp [bne]
    rw [h2] at h1
    have h3 := h1.map (fun it : Nat × Nat => it.1)
    rw [List.map_append] at h3
    exact h3

theorem readd_ids (old : List (Nat × Nat)) (n : TNode) : (treeReaddItems old n).ids = n.ids := by
  cases n; simp [treeReaddItems, TNode.ids]

mutual
theorem update_update (f g : TNode → TNode) (hf : ∀ n, (f n).id = n.id) :
    ∀ (id : Nat) (t : TNode), (t.update f id).update g id = t.update (fun n => g (f n)) id
  | id, .mk i h its subs => by
    simp only [TNode.update]
    by_cases e : i = id
    · simp only [if_pos e]
      have := hf (.mk i h its subs)
      generalize f (.mk i h its subs) = m at this
      cases m with
      | mk i' h' its' subs' =>
        simp only [TNode.id] at this
        simp [TNode.update, this, e]
    · simp only [if_neg e, TNode.update, updateL_updateL f g hf id subs]
theorem updateL_updateL (f g : TNode → TNode) (hf : ∀ n, (f n).id = n.id) :
    ∀ (id : Nat) (ts : List TNode), updateL g id (updateL f id ts) = updateL (fun n => g (f n)) id ts
  | _, [] => by simp [updateL]
  | id, t :: ts => by simp only [updateL, update_update f g hf id t, updateL_updateL f g hf id ts]
end

end UsualProofs.C09

namespace UsualProofs.C09
open Usual.C09

mutual
theorem find_some_mem : ∀ (id : Nat) (t : TNode) (n : TNode), t.find id = some n → id ∈ t.ids
  | id, .mk i h its subs, n => by
    intro hf
    simp only [TNode.find] at hf
    by_cases e : i = id
    · simp [TNode.ids, e]
    · rw [if_neg e] at hf
      simp only [TNode.ids, List.mem_cons]
      exact Or.inr (findL_some_mem id subs n hf)
theorem findL_some_mem : ∀ (id : Nat) (ts : List TNode) (n : TNode), findL id ts = some n → id ∈ idsL ts
  | _, [], _ => by intro hf; simp [findL] at hf
  | id, t :: ts, n => by
    intro hf
    simp only [findL] at hf
    simp only [idsL, List.mem_append]
    cases ht : t.find id with
    | some r => exact Or.inl (find_some_mem id t r ht)
    | none =>
      rw [ht] at hf
      exact Or.inr (findL_some_mem id ts n hf)
end

/-- everything about the node `id` of a forest with unique ids, for regions and ids at once -/
theorem decompRI {id : Nat} {t n : TNode} (hf : t.find id = some n) (hnd : t.ids.Nodup) :
    ∃ CR CI, t.regions.Perm (n.regions ++ CR) ∧ t.ids.Perm (n.ids ++ CI) ∧
      ∀ f : TNode → TNode, (t.update f id).regions.Perm ((f n).regions ++ CR) ∧
        (t.update f id).ids.Perm ((f n).ids ++ CI) := by
  have hm := find_some_mem id t n hf
  obtain ⟨n1, CR, hf1, _, hR, hRf⟩ := decomp2 ownR hm (by rw [ids_eq_collect] at hnd; rw [ids_eq_collect]; exact hnd)
  obtain ⟨n2, CI, hf2, _, hI, hIf⟩ := decomp2 ownI hm (by rw [ids_eq_collect] at hnd; rw [ids_eq_collect]; exact hnd)
  rw [hf] at hf1 hf2
  cases hf1; cases hf2
  refine ⟨CR, CI, ?_, ?_, ?_⟩
  · rw [regions_eq_collect, regions_eq_collect]; exact hR
  · rw [ids_eq_collect, ids_eq_collect]; exact hI
  · intro f
    constructor
    · rw [regions_eq_collect, regions_eq_collect]; exact hRf f
    · rw [ids_eq_collect, ids_eq_collect]; exact hIf f

/-- histories of a forest of trees over one `real` allocator; the second component lists the
    addresses obtained from `real` (by `cx_alloc`/`cx_realloc`) and not yet given back -/
inductive TReach : TNode → List Nat → Prop
  | root (id a : Nat) : TReach (.mk id a [] []) [a]
  | alloc {t t' : TNode} {held : List Nat} {id len q a : Nat} :
      TReach t held → id ∈ t.ids → a ∉ held →
      treeAlloc t id len (some a) = some (t', q) → TReach t' (a :: held)
  | free {t n : TNode} {held : List Nat} {id a sz : Nat} :
      TReach t held → t.find id = some n → (a, sz) ∈ n.items →
      TReach (treeFree t id (a + treeHdr)) (held.erase a)
  | realloc {t n : TNode} {held : List Nat} {id a sz len req a' : Nat} :
      TReach t held → t.find id = some n → (a, sz) ∈ n.items → treeReq len = some req →
      a' ∉ held.erase a →
      TReach (treeRealloc t id (a + treeHdr) len (some a')).1 (a' :: held.erase a)
  | reallocFail {t n : TNode} {held : List Nat} {id a sz len : Nat} :
      TReach t held → t.find id = some n → (a, sz) ∈ n.items →
      TReach (treeRealloc t id (a + treeHdr) len none).1 held
  | newSub {t : TNode} {held : List Nat} {par newId a : Nat} :
      TReach t held → par ∈ t.ids → newId ∉ t.ids → a ∉ held →
      TReach (t.update (treeAddSub newId a) par) (a :: held)
  | destroySub {t n : TNode} {held : List Nat} {id : Nat} :
      TReach t held → id ∈ idsL t.subs → t.find id = some n →
      TReach (t.remove id) (held.filter (fun x => !n.destroyList.contains x))

theorem perm_erase_of_cons {l X : List Nat} {a : Nat} (h : l.Perm (a :: X)) : (l.erase a).Perm X := by
  have := h.erase a
  simpa using this

theorem filter_not_mem_of_append {A B : List Nat} (hnd : (A ++ B).Nodup) :
    (A ++ B).filter (fun x => !A.contains x) = B := by
  have hd := List.nodup_append.mp hnd
  rw [List.filter_append]
  have h1 : A.filter (fun x => !A.contains x) = [] := by
    apply List.filter_eq_nil_iff.mpr
    intro x hx
    simp [hx]
  have h2 : B.filter (fun x => !A.contains x) = B := by
    apply List.filter_eq_self.mpr
    intro x hx
    have : x ∉ A := fun hA => hd.2.2 x hA x hx rfl
    simp [this]
  rw [h1, h2]; rfl

/-- **tree_history_tracks**: in every reachable state the forest holds exactly the addresses
    obtained and not yet returned, each once, and allocator ids stay unique -/
theorem treach_inv {t : TNode} {held : List Nat} (h : TReach t held) :
    t.regions.Perm held ∧ held.Nodup ∧ t.ids.Nodup := by
  induction h with
  | root id a => simp [TNode.regions, TNode.ids, regionsL, idsL]
  | @alloc t t' held id len q a _ hid hfresh hr ih =>
    obtain ⟨hp, hn, hi⟩ := ih
    have hreg := treeAlloc_regions hid hi hr
    refine ⟨hreg.trans (List.Perm.cons _ hp), List.nodup_cons.mpr ⟨hfresh, hn⟩, ?_⟩
    -- ids unchanged
    unfold treeAlloc at hr
    split at hr
    · cases hr
    · split at hr
      · rename_i rq a0 _ _
        simp only [Option.some.injEq, Prod.mk.injEq] at hr
        rw [← hr.1]
        obtain ⟨n, hfn⟩ : ∃ n, t.find id = some n := by
          obtain ⟨n, C, hf, _⟩ := decomp ownI id t hid hi
          exact ⟨n, hf⟩
        obtain ⟨CR, CI, _, hI, hall⟩ := decompRI hfn hi
        have := (hall (treeAddItem a0 len)).2
        rw [addItem_ids] at this
        exact (this.trans hI.symm).nodup_iff.mpr hi
      · cases hr
  | @free t n held id a sz _ hfn hmem ih =>
    obtain ⟨hp, hn, hi⟩ := ih
    obtain ⟨CR, CI, hR, hI, hall⟩ := decompRI hfn hi
    have hnreg : n.regions.Nodup :=
      (List.nodup_append.mp (hR.nodup_iff.mp (hp.nodup_iff.mpr hn))).1
    have hdel := delItem_regions n a sz hmem hnreg
    obtain ⟨h1, h2⟩ := hall (treeDelItem (a + treeHdr))
    rw [delItem_ids] at h2
    simp only [treeFree]
    have hheld : held.Perm (a :: ((treeDelItem (a + treeHdr) n).regions ++ CR)) :=
      hp.symm.trans (hR.trans (List.Perm.append_right _ hdel))
    refine ⟨h1.trans (perm_erase_of_cons hheld).symm, hn.erase a, (h2.trans hI.symm).nodup_iff.mpr hi⟩
  | @realloc t n held id a sz len req a' _ hfn hmem hreq hfresh ih =>
    obtain ⟨hp, hn, hi⟩ := ih
    obtain ⟨CR, CI, hR, hI, hall⟩ := decompRI hfn hi
    have hnreg : n.regions.Nodup :=
      (List.nodup_append.mp (hR.nodup_iff.mp (hp.nodup_iff.mpr hn))).1
    have hdel := delItem_regions n a sz hmem hnreg
    simp only [treeRealloc, hreq]
    rw [update_update _ _ (delItem_id _)]
    obtain ⟨h1, h2⟩ := hall (fun m => treeAddItem a' len (treeDelItem (a + treeHdr) m))
    simp only [addItem_ids, delItem_ids] at h2
    have hadd := treeAddItem_regions a' len (treeDelItem (a + treeHdr) n)
    have hheld : held.Perm (a :: ((treeDelItem (a + treeHdr) n).regions ++ CR)) :=
      hp.symm.trans (hR.trans (List.Perm.append_right _ hdel))
    refine ⟨?_, List.nodup_cons.mpr ⟨hfresh, hn.erase a⟩, (h2.trans hI.symm).nodup_iff.mpr hi⟩
    refine h1.trans ?_
    refine (List.Perm.append_right _ hadd).trans ?_
    simp only [List.cons_append]
    exact List.Perm.cons _ (perm_erase_of_cons hheld).symm
  | @reallocFail t n held id a sz len _ hfn hmem ih =>
    obtain ⟨hp, hn, hi⟩ := ih
    obtain ⟨CR, CI, hR, hI, hall⟩ := decompRI hfn hi
    simp only [treeRealloc]
    cases hreq : treeReq len with
    | none => exact ⟨hp, hn, hi⟩
    | some req =>
      simp only [hfn]
      rw [update_update _ _ (delItem_id _)]
      obtain ⟨h1, h2⟩ := hall (fun m => treeReaddItems
        (n.items.filter (fun it => it.1 + treeHdr == a + treeHdr)) (treeDelItem (a + treeHdr) m))
      simp only [readd_ids, delItem_ids] at h2
      have hre := readd_regions n (a + treeHdr)
      refine ⟨?_, hn, (h2.trans hI.symm).nodup_iff.mpr hi⟩
      exact (h1.trans (List.Perm.append_right _ hre)).trans (hR.symm.trans hp)
  | @newSub t held par newId a _ hpar hnew hfresh ih =>
    obtain ⟨hp, hn, hi⟩ := ih
    obtain ⟨n, hfn⟩ : ∃ n, t.find par = some n := by
      obtain ⟨n, C, hf, _⟩ := decomp ownI par t hpar hi
      exact ⟨n, hf⟩
    obtain ⟨CR, CI, hR, hI, hall⟩ := decompRI hfn hi
    obtain ⟨h1, h2⟩ := hall (treeAddSub newId a)
    have hr := addSub_regions newId a n
    have hids := addSub_ids newId a n
    refine ⟨?_, List.nodup_cons.mpr ⟨hfresh, hn⟩, ?_⟩
    · refine h1.trans ((List.Perm.append_right _ hr).trans ?_)
      simp only [List.cons_append]
      exact List.Perm.cons _ (hR.symm.trans hp)
    · have : (t.update (treeAddSub newId a) par).ids.Perm (newId :: t.ids) := by
        refine h2.trans ((List.Perm.append_right _ hids).trans ?_)
        simp only [List.cons_append]
        exact List.Perm.cons _ hI.symm
      exact this.nodup_iff.mpr (List.nodup_cons.mpr ⟨hnew, hi⟩)
  | @destroySub t n held id _ hsub hfn ih =>
    obtain ⟨hp, hn, hi⟩ := ih
    have hiC : (collect ownI t) = t.ids := (ids_eq_collect t).symm
    obtain ⟨n1, hf1, _, hR⟩ := decompRemove ownR id t hsub hi
    obtain ⟨n2, hf2, _, hI⟩ := decompRemove ownI id t hsub hi
    rw [hfn] at hf1 hf2
    cases hf1; cases hf2
    rw [← regions_eq_collect, ← regions_eq_collect, ← regions_eq_collect] at hR
    rw [← ids_eq_collect, ← ids_eq_collect, ← ids_eq_collect] at hI
    have hd := destroyList_perm n
    -- held ~ destroyList n ++ regions (remove)
    have hheld : held.Perm (n.destroyList ++ (t.remove id).regions) :=
      hp.symm.trans (hR.trans (List.Perm.append_right _ hd.symm))
    have hnd2 : (n.destroyList ++ (t.remove id).regions).Nodup := hheld.nodup_iff.mp hn
    have hfil : (held.filter (fun x => !n.destroyList.contains x)).Perm (t.remove id).regions := by
      have := hheld.filter (fun x => !n.destroyList.contains x)
      rw [filter_not_mem_of_append hnd2] at this
      exact this
    refine ⟨hfil.symm, hn.filter _, ?_⟩
    exact (List.nodup_append.mp (hI.nodup_iff.mp hi)).2.1

end UsualProofs.C09
