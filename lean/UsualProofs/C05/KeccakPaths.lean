import UsualProofs.Bridge.C05
/-! C05: the three code paths of keccak_f compute the same permutation.  Kernel-only composition of
    the per-round bridge lemmas (UsualProofs/Bridge/C05.lean) over the four-round loop body and the
    six iterations of the loop, and the compact table-walking form against the FIPS 202 form. -/
namespace Usual.C05.Keccak
open Usual.Gen.C05

/-! ## compact form (KECCAK_SMALL) = FIPS 202 form -/

theorem theta_eq (s : L25 UInt64) : theta s.toArray = (gTheta ops64 s).toArray := by
  cases s; rfl

set_option maxRecDepth 10000 in
theorem rhoPi_eq (s : L25 UInt64) : rhoPi s.toArray = (gRhoPi ops64 s).toArray := by
  cases s
  simp [rhoPi, keccakPi, keccakRho, L25.toArray, gRhoPi, ops64, L25.ofFn, L25.get, rhoOffset, rot64]

theorem chi_eq (s : L25 UInt64) : chi s.toArray = (gChi ops64 s).toArray := by
  cases s; rfl

theorem round_eq (rc : UInt64) (s : L25 UInt64) : round s.toArray rc = (specRound rc s).toArray := by
  unfold round specRound gRound
  rw [theta_eq, rhoPi_eq, chi_eq]
  generalize gChi ops64 (gRhoPi ops64 (gTheta ops64 s)) = t
  cases t; rfl

theorem foldl_round_eq (l : List UInt64) (s : L25 UInt64) :
    l.foldl round s.toArray = (l.foldl (fun s rc => specRound rc s) s).toArray := by
  induction l generalizing s with
  | nil => rfl
  | cons rc l ih => simp only [List.foldl_cons]; rw [round_eq, ih]

/-- the compact (KECCAK_SMALL) form is the FIPS 202 permutation -/
theorem keccakF_eq_specF (s : L25 UInt64) : keccakF s.toArray = (specF s).toArray := by
  unfold keccakF specF
  rw [← Array.foldl_toList]
  exact foldl_round_eq _ s


/-! ## default 64-bit build = FIPS 202 form -/

theorem placed_place0 {α : Type} (s : L25 α) : placed place0 s = s := by
  cases s; rfl

/-- the four rounds of the loop body: the lanes are back in place -/
theorem f64_block (r0 r1 r2 r3 : UInt64) (s : L25 UInt64) :
    f64Round3 r3 (f64Round2 r2 (f64Round1 r1 (f64Round0 r0 s)))
      = specRound r3 (specRound r2 (specRound r1 (specRound r0 s))) := by
  have h0 := f64Round0_eq r0 s
  rw [placed_place0] at h0
  rw [h0, f64Round1_eq, f64Round2_eq, f64Round3_eq, placed_place0]

/-- the default 64-bit keccak_f is the FIPS 202 permutation -/
theorem f64_eq_specF (s : L25 UInt64) : f64 s = specF s := by
  unfold f64 specF
  simp only [f64_block]
  rfl


/-! ## KECCAK_32BIT build = FIPS 202 form through lane interleaving -/

/-- all lanes as (even bits, odd bits) word pairs -/
def ilW (s : L25 UInt64) : L25 (UInt32 × UInt32) := L25.ofFn fun i => interleave32 (s.get i)

theorem il_xor (a b : UInt64) : interleave32 (ops64.xor a b) = opsPair.xor (interleave32 a) (interleave32 b) :=
  interleave32_xor a b

theorem il_and (a b : UInt64) : interleave32 (ops64.and a b) = opsPair.and (interleave32 a) (interleave32 b) :=
  interleave32_and a b

theorem il_not (a : UInt64) : interleave32 (ops64.not a) = opsPair.not (interleave32 a) :=
  interleave32_not a

theorem il_rot_0 (a : UInt64) : interleave32 (ops64.rot a 0) = opsPair.rot (interleave32 a) 0 :=
  interleave32_rot_0 a

theorem il_rot_1 (a : UInt64) : interleave32 (ops64.rot a 1) = opsPair.rot (interleave32 a) 1 :=
  interleave32_rot_1 a

theorem il_rot_2 (a : UInt64) : interleave32 (ops64.rot a 2) = opsPair.rot (interleave32 a) 2 :=
  interleave32_rot_2 a

theorem il_rot_3 (a : UInt64) : interleave32 (ops64.rot a 3) = opsPair.rot (interleave32 a) 3 :=
  interleave32_rot_3 a

theorem il_rot_6 (a : UInt64) : interleave32 (ops64.rot a 6) = opsPair.rot (interleave32 a) 6 :=
  interleave32_rot_6 a

theorem il_rot_8 (a : UInt64) : interleave32 (ops64.rot a 8) = opsPair.rot (interleave32 a) 8 :=
  interleave32_rot_8 a

theorem il_rot_10 (a : UInt64) : interleave32 (ops64.rot a 10) = opsPair.rot (interleave32 a) 10 :=
  interleave32_rot_10 a

theorem il_rot_14 (a : UInt64) : interleave32 (ops64.rot a 14) = opsPair.rot (interleave32 a) 14 :=
  interleave32_rot_14 a

theorem il_rot_15 (a : UInt64) : interleave32 (ops64.rot a 15) = opsPair.rot (interleave32 a) 15 :=
  interleave32_rot_15 a

theorem il_rot_18 (a : UInt64) : interleave32 (ops64.rot a 18) = opsPair.rot (interleave32 a) 18 :=
  interleave32_rot_18 a

theorem il_rot_20 (a : UInt64) : interleave32 (ops64.rot a 20) = opsPair.rot (interleave32 a) 20 :=
  interleave32_rot_20 a

theorem il_rot_21 (a : UInt64) : interleave32 (ops64.rot a 21) = opsPair.rot (interleave32 a) 21 :=
  interleave32_rot_21 a

theorem il_rot_25 (a : UInt64) : interleave32 (ops64.rot a 25) = opsPair.rot (interleave32 a) 25 :=
  interleave32_rot_25 a

theorem il_rot_27 (a : UInt64) : interleave32 (ops64.rot a 27) = opsPair.rot (interleave32 a) 27 :=
  interleave32_rot_27 a

theorem il_rot_28 (a : UInt64) : interleave32 (ops64.rot a 28) = opsPair.rot (interleave32 a) 28 :=
  interleave32_rot_28 a

theorem il_rot_36 (a : UInt64) : interleave32 (ops64.rot a 36) = opsPair.rot (interleave32 a) 36 :=
  interleave32_rot_36 a

theorem il_rot_39 (a : UInt64) : interleave32 (ops64.rot a 39) = opsPair.rot (interleave32 a) 39 :=
  interleave32_rot_39 a

theorem il_rot_41 (a : UInt64) : interleave32 (ops64.rot a 41) = opsPair.rot (interleave32 a) 41 :=
  interleave32_rot_41 a

theorem il_rot_43 (a : UInt64) : interleave32 (ops64.rot a 43) = opsPair.rot (interleave32 a) 43 :=
  interleave32_rot_43 a

theorem il_rot_44 (a : UInt64) : interleave32 (ops64.rot a 44) = opsPair.rot (interleave32 a) 44 :=
  interleave32_rot_44 a

theorem il_rot_45 (a : UInt64) : interleave32 (ops64.rot a 45) = opsPair.rot (interleave32 a) 45 :=
  interleave32_rot_45 a

theorem il_rot_55 (a : UInt64) : interleave32 (ops64.rot a 55) = opsPair.rot (interleave32 a) 55 :=
  interleave32_rot_55 a

theorem il_rot_56 (a : UInt64) : interleave32 (ops64.rot a 56) = opsPair.rot (interleave32 a) 56 :=
  interleave32_rot_56 a

theorem il_rot_61 (a : UInt64) : interleave32 (ops64.rot a 61) = opsPair.rot (interleave32 a) 61 :=
  interleave32_rot_61 a

theorem il_rot_62 (a : UInt64) : interleave32 (ops64.rot a 62) = opsPair.rot (interleave32 a) 62 :=
  interleave32_rot_62 a

/-- interleaving commutes with the round: it is a homomorphism for every lane operation the round uses -/
theorem ilW_round (rc : UInt64) (s : L25 UInt64) :
    ilW (specRound rc s) = gRound opsPair (interleave32 rc) (ilW s) := by
  cases s
  simp only [specRound, gRound, gIota, gChi, gRhoPi, gTheta, ilW, L25.ofFn, L25.get, rhoOffset,
    Nat.reduceMod, Nat.reduceDiv, Nat.reduceAdd, Nat.reduceMul, il_xor, il_and, il_not,
    il_rot_0, il_rot_1, il_rot_2, il_rot_3, il_rot_6, il_rot_8, il_rot_10, il_rot_14, il_rot_15, il_rot_18, il_rot_20, il_rot_21, il_rot_25, il_rot_27, il_rot_28, il_rot_36, il_rot_39, il_rot_41, il_rot_43, il_rot_44, il_rot_45, il_rot_55, il_rot_56, il_rot_61, il_rot_62]

/-- the 32-bit state layout before round `j` of the loop body -/
def enc (P : Nat → Nat) (X : Nat → Bool) (s : L25 UInt64) : L25 UInt32 × L25 UInt32 := placedW P X (ilW s)

theorem enc0_eq (s : L25 UInt64) : enc place0 swap0 s = interleaveAll s := by
  cases s; rfl

theorem f32Round0_enc (rc : UInt64) (s : L25 UInt64) :
    f32Round0 (interleave32 rc).1 (interleave32 rc).2 (enc place0 swap0 s).1 (enc place0 swap0 s).2
      = enc place1 swap1 (specRound rc s) := by
  unfold enc; rw [f32Round0_eq, ilW_round]

theorem f32Round1_enc (rc : UInt64) (s : L25 UInt64) :
    f32Round1 (interleave32 rc).1 (interleave32 rc).2 (enc place1 swap1 s).1 (enc place1 swap1 s).2
      = enc place2 swap2 (specRound rc s) := by
  unfold enc; rw [f32Round1_eq, ilW_round]

theorem f32Round2_enc (rc : UInt64) (s : L25 UInt64) :
    f32Round2 (interleave32 rc).1 (interleave32 rc).2 (enc place2 swap2 s).1 (enc place2 swap2 s).2
      = enc place3 swap3 (specRound rc s) := by
  unfold enc; rw [f32Round2_eq, ilW_round]

theorem f32Round3_enc (rc : UInt64) (s : L25 UInt64) :
    f32Round3 (interleave32 rc).1 (interleave32 rc).2 (enc place3 swap3 s).1 (enc place3 swap3 s).2
      = enc place0 swap0 (specRound rc s) := by
  unfold enc; rw [f32Round3_eq, ilW_round]

/-- `RoundConstants32` holds the interleaved halves of `RoundConstants64` -/
theorem rc32_eq : ∀ i, i < 24 →
    (keccakRC32.getD (2 * i) 0, keccakRC32.getD (2 * i + 1) 0) = interleave32 (keccakRC.getD i 0) := by
  decide +kernel

/-- one iteration of the 32-bit loop (four rounds, eight constants) on an interleaved state -/
theorem f32_block (b : Nat) (hb : b < 6) (s : L25 UInt64) :
    f32Body b (interleaveAll s)
      = interleaveAll (specRound (keccakRC.getD (4 * b + 3) 0) (specRound (keccakRC.getD (4 * b + 2) 0)
          (specRound (keccakRC.getD (4 * b + 1) 0) (specRound (keccakRC.getD (4 * b) 0) s)))) := by
  unfold f32Body
  have h0 := rc32_eq (4 * b) (by omega)
  have h1 := rc32_eq (4 * b + 1) (by omega)
  have h2 := rc32_eq (4 * b + 2) (by omega)
  have h3 := rc32_eq (4 * b + 3) (by omega)
  rw [show 2 * (4 * b) = 8 * b + 0 by omega, show 8 * b + 0 + 1 = 8 * b + 1 by omega] at h0
  rw [show 2 * (4 * b + 1) = 8 * b + 2 by omega, show 8 * b + 2 + 1 = 8 * b + 3 by omega] at h1
  rw [show 2 * (4 * b + 2) = 8 * b + 4 by omega, show 8 * b + 4 + 1 = 8 * b + 5 by omega] at h2
  rw [show 2 * (4 * b + 3) = 8 * b + 6 by omega, show 8 * b + 6 + 1 = 8 * b + 7 by omega] at h3
  have k0 := congrArg Prod.fst h0; have k0' := congrArg Prod.snd h0
  have k1 := congrArg Prod.fst h1; have k1' := congrArg Prod.snd h1
  have k2 := congrArg Prod.fst h2; have k2' := congrArg Prod.snd h2
  have k3 := congrArg Prod.fst h3; have k3' := congrArg Prod.snd h3
  simp only at k0 k0' k1 k1' k2 k2' k3 k3'
  simp only [k0, k0', k1, k1', k2, k2', k3, k3']
  rw [← enc0_eq, f32Round0_enc, f32Round1_enc, f32Round2_enc, f32Round3_enc, enc0_eq]


theorem f32_fold (l : List Nat) (hl : ∀ b ∈ l, b < 6) (s : L25 UInt64) :
    l.foldl (fun w b => f32Body b w) (interleaveAll s)
      = interleaveAll (l.foldl (fun s b => specRound (keccakRC.getD (4 * b + 3) 0) (specRound (keccakRC.getD (4 * b + 2) 0)
          (specRound (keccakRC.getD (4 * b + 1) 0) (specRound (keccakRC.getD (4 * b) 0) s)))) s) := by
  induction l generalizing s with
  | nil => rfl
  | cons b l ih =>
    simp only [List.foldl_cons]
    rw [f32_block b (hl b (by simp))]
    exact ih (fun b' hb' => hl b' (by simp [hb'])) _

/-- the KECCAK_32BIT keccak_f on an interleaved state is the interleaved FIPS 202 permutation -/
theorem f32_eq_specF (s : L25 UInt64) : f32 (interleaveAll s) = interleaveAll (specF s) := by
  unfold f32
  have hr : List.range (keccakRounds * 2 / 8) = [0, 1, 2, 3, 4, 5] := by decide
  rw [hr, f32_fold _ (by decide)]
  rfl

theorem deinterleaveAll_interleaveAll (s : L25 UInt64) : deinterleaveAll (interleaveAll s) = s := by
  cases s
  simp only [deinterleaveAll, interleaveAll, L25.ofFn, L25.get, deinterleave32_interleave32]

theorem interleaveAll_deinterleaveAll (w : L25 UInt32 × L25 UInt32) : interleaveAll (deinterleaveAll w) = w := by
  rcases w with ⟨w0, w1⟩
  cases w0; cases w1
  simp only [deinterleaveAll, interleaveAll, L25.ofFn, L25.get, interleave32_deinterleave32]

end Usual.C05.Keccak
