import UsualProofs.C05.Sponge
import Usual.C05.Sha3
/-! C05 helper lemmas: sha3.c on top of the sponge lemmas. -/
namespace Usual.C05.Sha3
open Usual.C05.Keccak

variable (f : Bytes → Bytes)

theorem reset_valid (cap ob : Nat) (dom : UInt8) (h8 : cap % 8 = 0) (hlo : 8 ≤ cap) (hhi : cap ≤ 1592) :
    reset (cap, ob, dom) =
      { k := { st := List.replicate 200 0, pos := 0, rbytes := (1600 - cap) / 8 },
        padded := false, pad := dom, obytes := ob } := by
  unfold reset Keccak.init
  have hc : ¬ (cap % 8 ≠ 0 ∨ cap < 8 ∨ cap > 1600 - 8) := by omega
  simp only [if_neg hc, Option.getD_some]

theorem absorb_nil (c : Keccak.Ctx) (h : WF c) : absorb f c [] = c := by
  rw [absorb_eq f c [] h]; rfl

theorem absorb_absorb (c : Keccak.Ctx) (a b : Bytes) (h : WF c) :
    absorb f (absorb f c a) b = absorb f c (a ++ b) := by
  rw [absorb_eq f _ _ (absorb_wf f c a h), absorb_eq f c a h, absorb_eq f c _ h, steps_append]

theorem foldl_update (chunks : List Bytes) (c : Ctx) (h : WF c.k) :
    chunks.foldl (update f) c = { c with k := absorb f c.k chunks.flatten } := by
  induction chunks generalizing c with
  | nil => simp only [List.foldl_nil, List.flatten_nil]; rw [absorb_nil f c.k h]
  | cons x xs ih =>
    simp only [List.foldl_cons, List.flatten_cons]
    rw [ih (update f c x) (by simpa [update] using absorb_wf f c.k x h)]
    simp only [update]
    rw [absorb_absorb f c.k x _ h]

/-- successive `shake_extract` calls -/
def extractMany : Ctx → List Nat → Bytes × Ctx
  | c, [] => ([], c)
  | c, n :: ns => ((extract f c n).1 ++ (extractMany (extract f c n).2 ns).1, (extractMany (extract f c n).2 ns).2)

theorem extractMany_padded (ns : List Nat) (c : Ctx) (hp : c.padded = true) :
    (extractMany f c ns).1 = (squeezeMany f c.k ns).1 := by
  induction ns generalizing c with
  | nil => rfl
  | cons n ns ih =>
    have hpo : padOnce f c = c := by unfold padOnce; simp [hp]
    simp only [extractMany, squeezeMany, extract, hpo]
    rw [ih _ (by simpa using hp)]

theorem extractMany_eq (ns : List Nat) (c : Ctx) :
    (extractMany f c ns).1 = (squeezeMany f (padOnce f c).k ns).1 := by
  cases ns with
  | nil => rfl
  | cons n ns =>
    simp only [extractMany, squeezeMany, extract]
    have hp : (padOnce f c).padded = true := by
      unfold padOnce; split
      · assumption
      · rfl
    rw [extractMany_padded f ns _ (by simpa using hp)]

theorem pad_wf (k : Keccak.Ctx) (p : Bytes) (hk : WF k) : WF (pad f k p) := by
  have hr : 0 < k.rbytes := by unfold WF at hk; omega
  unfold pad WF
  simp only
  split
  · split
    · simp only; rw [absorb_rbytes f k _ hk]; exact hr
    · exact hr
  · exact hr

/-- hashing through the SHA3Context API with any chunking of input and output -/
theorem extractMany_eq_sponge (cap ob : Nat) (dom : UInt8) (h8 : cap % 8 = 0) (hlo : 8 ≤ cap) (hhi : cap ≤ 1592)
    (chunks : List Bytes) (ns : List Nat) :
    (extractMany f (chunks.foldl (update f) (reset (cap, ob, dom))) ns).1
      = sponge f ((1600 - cap) / 8) dom chunks.flatten ns.sum := by
  have hr : 0 < (1600 - cap) / 8 := by omega
  rw [reset_valid cap ob dom h8 hlo hhi, foldl_update f chunks _ (by simpa [WF] using hr), extractMany_eq]
  simp only [padOnce, Bool.false_eq_true, ↓reduceIte]
  have hwf : WF (pad f (absorb f { st := List.replicate 200 0, pos := 0, rbytes := (1600 - cap) / 8 }
      chunks.flatten) [dom]) := pad_wf f _ _ (absorb_wf f _ _ (by simpa [WF] using hr))
  rw [squeezeMany_eq f ns _ hwf, hash_eq_sponge f _ hr]

theorem final_eq_sponge (cap ob : Nat) (dom : UInt8) (h8 : cap % 8 = 0) (hlo : 8 ≤ cap) (hhi : cap ≤ 1592)
    (chunks : List Bytes) :
    (final f (chunks.foldl (update f) (reset (cap, ob, dom)))).1
      = sponge f ((1600 - cap) / 8) dom chunks.flatten ob := by
  have := extractMany_eq_sponge f cap ob dom h8 hlo hhi chunks [ob]
  simp only [extractMany, List.append_nil, List.sum_cons, List.sum_nil, Nat.add_zero] at this
  rw [← this]
  unfold final
  have hob : (chunks.foldl (update f) (reset (cap, ob, dom))).obytes = ob := by
    have hr : 0 < (1600 - cap) / 8 := by omega
    rw [reset_valid cap ob dom h8 hlo hhi, foldl_update f chunks _ (by simpa [WF] using hr)]
  rw [hob]

end Usual.C05.Sha3
