import Usual.C05.Keccak
/-! C05 helper lemmas for the sponge bookkeeping: the three-phase `add_bytes`/`extract_bytes`
    are plain byte-window operations, and each block-loop of the API is the byte-at-a-time
    machine `steps`. -/
namespace Usual.C05.Keccak

/-! ## `mapAt` / `xorAt` algebra -/

@[simp] theorem mapAt_nil_state (g) (ofs : Nat) (bs : Bytes) : mapAt g [] ofs bs = ([], []) := by
  cases ofs <;> cases bs <;> rfl

@[simp] theorem mapAt_succ (g) (s : UInt8) (st : Bytes) (ofs : Nat) (bs : Bytes) :
    mapAt g (s :: st) (ofs + 1) bs = ((mapAt g st ofs bs).1, s :: (mapAt g st ofs bs).2) := by
  cases bs <;> rfl

@[simp] theorem mapAt_zero_cons (g) (s : UInt8) (st : Bytes) (b : UInt8) (bs : Bytes) :
    mapAt g (s :: st) 0 (b :: bs) = ((g s b).1 :: (mapAt g st 0 bs).1, (g s b).2 :: (mapAt g st 0 bs).2) := rfl

@[simp] theorem mapAt_nil (g) (st : Bytes) (ofs : Nat) : mapAt g st ofs [] = ([], st) := by
  induction st generalizing ofs with
  | nil => simp
  | cons s st ih =>
    cases ofs with
    | zero => rfl
    | succ ofs => simp [ih]

theorem mapAt_append (g) (st : Bytes) (ofs : Nat) (a b : Bytes) :
    mapAt g st ofs (a ++ b) =
      ((mapAt g st ofs a).1 ++ (mapAt g (mapAt g st ofs a).2 (ofs + a.length) b).1,
       (mapAt g (mapAt g st ofs a).2 (ofs + a.length) b).2) := by
  induction st generalizing ofs a with
  | nil => simp
  | cons s st ih =>
    cases ofs with
    | zero =>
      cases a with
      | nil => simp
      | cons x a =>
        have e : 0 + (x :: a).length = (0 + a.length) + 1 := by simp
        rw [List.cons_append, mapAt_zero_cons, mapAt_zero_cons, e, mapAt_succ, ih 0 a]
        simp
    | succ ofs =>
      have e : ofs + 1 + a.length = (ofs + a.length) + 1 := by omega
      rw [mapAt_succ, mapAt_succ, e, mapAt_succ, ih ofs a]

theorem mapAt_length (g) (st : Bytes) (ofs : Nat) (bs : Bytes) :
    (mapAt g st ofs bs).2.length = st.length := by
  induction st generalizing ofs bs with
  | nil => simp
  | cons s st ih =>
    cases ofs with
    | zero => cases bs with
      | nil => simp
      | cons b bs => simp [ih]
    | succ ofs => simp [ih]

theorem xorAt_eq_mapAt (st : Bytes) (ofs : Nat) (bs : Bytes) :
    xorAt st ofs bs = (mapAt gAbsorb st ofs bs).2 := by
  induction st generalizing ofs bs with
  | nil => cases ofs <;> cases bs <;> simp [xorAt]
  | cons s st ih =>
    cases ofs with
    | zero => cases bs with
      | nil => simp [xorAt]
      | cons b bs => simp [xorAt, ih, gAbsorb]
    | succ ofs => cases bs <;> simp [xorAt, ih]

@[simp] theorem xorAt_succ (s : UInt8) (st : Bytes) (ofs : Nat) (bs : Bytes) :
    xorAt (s :: st) (ofs + 1) bs = s :: xorAt st ofs bs := by
  cases bs <;> rfl

@[simp] theorem xorAt_nil (st : Bytes) (ofs : Nat) : xorAt st ofs [] = st := by
  rw [xorAt_eq_mapAt]; simp

theorem xorAt_append (st : Bytes) (ofs : Nat) (a b : Bytes) :
    xorAt st ofs (a ++ b) = xorAt (xorAt st ofs a) (ofs + a.length) b := by
  simp only [xorAt_eq_mapAt, mapAt_append]

theorem xorAt_length (st : Bytes) (ofs : Nat) (bs : Bytes) : (xorAt st ofs bs).length = st.length := by
  rw [xorAt_eq_mapAt]; exact mapAt_length _ _ _ _

theorem xorAt_zeros (st : Bytes) (ofs n : Nat) : xorAt st ofs (List.replicate n 0) = st := by
  induction st generalizing ofs n with
  | nil => cases ofs <;> cases n <;> simp [xorAt]
  | cons s st ih =>
    cases ofs with
    | zero => cases n with
      | zero => simp
      | succ n => simp [xorAt, List.replicate_succ, ih]
    | succ ofs => rw [xorAt_succ, ih]

theorem xorAt_xorAt_same (st : Bytes) (i : Nat) (a b : UInt8) :
    xorAt (xorAt st i [a]) i [b] = xorAt st i [a ^^^ b] := by
  induction st generalizing i with
  | nil => cases i <;> simp [xorAt]
  | cons s st ih =>
    cases i with
    | zero => simp [xorAt, UInt8.xor_assoc]
    | succ i => simp [xorAt, ih]

/-! ## `add_bytes` is `xorAt` -/

theorem xorBytesLoop_eq (st : Bytes) (ofs : Nat) (p : Bytes) : xorBytesLoop st ofs p = xorAt st ofs p := by
  induction p generalizing st ofs with
  | nil => simp [xorBytesLoop]
  | cons b p ih =>
    have : b :: p = [b] ++ p := rfl
    rw [xorBytesLoop, ih, xorByte, this, xorAt_append]
    simp

theorem lanesLoop_finish (fuel : Nat) (st : Bytes) (ofs : Nat) (p : Bytes) (hal : ofs % 8 = 0) :
    xorBytesLoop (lanesLoop fuel st ofs p).1 (lanesLoop fuel st ofs p).2.1 (lanesLoop fuel st ofs p).2.2
      = xorAt st ofs p := by
  induction fuel generalizing st ofs p with
  | zero => simp [lanesLoop, xorBytesLoop_eq]
  | succ fuel ih =>
    unfold lanesLoop
    by_cases h8 : 8 ≤ p.length
    · simp only [h8, ↓reduceIte]
      rw [ih _ _ _ (by omega)]
      unfold xorLane
      have e1 : 8 * (ofs / 8) = ofs := by omega
      have e2 : ofs + 8 = ofs + (p.take 8).length := by simp; omega
      rw [e1, e2, ← xorAt_append, List.take_append_drop]
    · simp only [h8, ↓reduceIte, xorBytesLoop_eq]

theorem lanesLoop_nil (fuel : Nat) (st : Bytes) (ofs : Nat) : lanesLoop fuel st ofs [] = (st, ofs, []) := by
  cases fuel <;> simp [lanesLoop]

/-- the three phases of `add_bytes` together xor `p` into the state at `ofs` -/
theorem addBytes_eq (st p : Bytes) (ofs : Nat) : addBytes st p ofs = xorAt st ofs p := by
  unfold addBytes
  simp only [xorBytesLoop_eq]
  by_cases hm : ofs % 8 ≠ 0
  · rw [if_pos hm]
    by_cases hshort : p.length ≤ 8 - ofs % 8
    · -- everything is consumed by the first phase
      have hmin : min (8 - ofs % 8) p.length = p.length := by omega
      rw [hmin, List.take_length, List.drop_length, lanesLoop_nil]
      simp
    · have hmin : min (8 - ofs % 8) p.length = 8 - ofs % 8 := by omega
      rw [hmin]
      have := lanesLoop_finish p.length (xorAt st ofs (p.take (8 - ofs % 8))) (ofs + (8 - ofs % 8))
        (p.drop (8 - ofs % 8)) (by omega)
      rw [xorBytesLoop_eq] at this
      rw [this]
      have e : ofs + (8 - ofs % 8) = ofs + (p.take (8 - ofs % 8)).length := by simp; omega
      rw [e, ← xorAt_append, List.take_append_drop]
  · rw [if_neg hm]
    simp only [List.take_zero, xorAt_nil, Nat.add_zero, List.drop_zero]
    have := lanesLoop_finish p.length st ofs p (by omega)
    rw [xorBytesLoop_eq] at this
    exact this

/-! ## `extract_bytes` is a byte window -/

theorem extract_window (st : Bytes) (ofs n : Nat) (h : ofs % 8 + n ≤ 8) :
    ((extract st (ofs / 8) 1).drop (ofs % 8)).take n = (st.drop ofs).take n := by
  unfold extract
  rw [List.drop_take, List.drop_drop, List.take_take]
  have e1 : 8 * (ofs / 8) + ofs % 8 = ofs := by omega
  have e2 : min n (8 * 1 - ofs % 8) = n := by omega
  rw [e1, e2]

theorem extract_aligned (st : Bytes) (ofs n : Nat) (h : ofs % 8 = 0) :
    extract st (ofs / 8) n = (st.drop ofs).take (8 * n) := by
  unfold extract
  have e1 : 8 * (ofs / 8) = ofs := by omega
  rw [e1]

theorem take_add_drop (l : Bytes) (a b : Nat) : l.take a ++ (l.drop a).take b = l.take (a + b) := by
  rw [List.take_add]

/-- the three phases of `extract_bytes` together copy `count` state bytes from `ofs` -/
theorem extractBytes_eq (st : Bytes) (ofs count : Nat) :
    extractBytes st ofs count = (st.drop ofs).take count := by
  unfold extractBytes
  by_cases h1 : ofs % 8 ≠ 0 ∨ count < 8
  · simp only [h1, ↓reduceIte]
    by_cases hav : 8 - ofs % 8 > count
    · -- all in the first phase
      simp only [hav, ↓reduceIte, Nat.sub_self]
      rw [extract_window st ofs count (by omega)]
      simp
    · simp only [hav, ↓reduceIte]
      rw [extract_window st ofs (8 - ofs % 8) (by omega)]
      have hal : (ofs + (8 - ofs % 8)) % 8 = 0 := by omega
      by_cases h2 : count - (8 - ofs % 8) > 8
      · simp only [h2, ↓reduceIte]
        rw [extract_aligned _ _ _ hal]
        have hal3 : (ofs + (8 - ofs % 8) + (count - (8 - ofs % 8)) / 8 * 8) % 8 = 0 := by omega
        by_cases h3 : count - (8 - ofs % 8) - (count - (8 - ofs % 8)) / 8 * 8 > 0
        · simp only [h3, ↓reduceIte]
          rw [extract_aligned _ _ _ hal3]
          rw [List.take_take]
          have e3 : min (count - (8 - ofs % 8) - (count - (8 - ofs % 8)) / 8 * 8) (8 * 1)
              = count - (8 - ofs % 8) - (count - (8 - ofs % 8)) / 8 * 8 := by omega
          rw [e3]
          have d1 : st.drop (ofs + (8 - ofs % 8)) = (st.drop ofs).drop (8 - ofs % 8) := by
            rw [List.drop_drop]
          have d2 : st.drop (ofs + (8 - ofs % 8) + (count - (8 - ofs % 8)) / 8 * 8)
              = ((st.drop ofs).drop (8 - ofs % 8)).drop ((count - (8 - ofs % 8)) / 8 * 8) := by
            rw [List.drop_drop, List.drop_drop]; congr 1; omega
          rw [d1, d2]
          generalize st.drop ofs = l
          have e8 : 8 * ((count - (8 - ofs % 8)) / 8) = (count - (8 - ofs % 8)) / 8 * 8 := by omega
          rw [e8, List.append_assoc, ← List.take_add, ← List.take_add]
          congr 1; omega
        · simp only [h3, ↓reduceIte, List.append_nil]
          have d1 : st.drop (ofs + (8 - ofs % 8)) = (st.drop ofs).drop (8 - ofs % 8) := by
            rw [List.drop_drop]
          rw [d1]
          generalize st.drop ofs = l
          rw [← List.take_add]
          congr 1; omega
      · simp only [h2, ↓reduceIte, List.append_nil]
        by_cases h3 : count - (8 - ofs % 8) > 0
        · simp only [h3, ↓reduceIte]
          rw [extract_aligned _ _ _ hal, List.take_take]
          have e3 : min (count - (8 - ofs % 8)) (8 * 1) = count - (8 - ofs % 8) := by omega
          rw [e3]
          have d1 : st.drop (ofs + (8 - ofs % 8)) = (st.drop ofs).drop (8 - ofs % 8) := by
            rw [List.drop_drop]
          rw [d1]
          generalize st.drop ofs = l
          rw [← List.take_add]
          congr 1; omega
        · simp only [h3, ↓reduceIte, List.append_nil]
          congr 1; omega
  · simp only [h1, ↓reduceIte, List.nil_append]
    have hal : ofs % 8 = 0 := by omega
    by_cases h2 : count > 8
    · simp only [h2, ↓reduceIte]
      rw [extract_aligned _ _ _ hal]
      have hal3 : (ofs + count / 8 * 8) % 8 = 0 := by omega
      by_cases h3 : count - count / 8 * 8 > 0
      · simp only [h3, ↓reduceIte]
        rw [extract_aligned _ _ _ hal3, List.take_take]
        have e3 : min (count - count / 8 * 8) (8 * 1) = count - count / 8 * 8 := by omega
        rw [e3]
        have d2 : st.drop (ofs + count / 8 * 8) = (st.drop ofs).drop (count / 8 * 8) := by
          rw [List.drop_drop]
        rw [d2]
        generalize st.drop ofs = l
        have e8 : 8 * (count / 8) = count / 8 * 8 := by omega
        rw [e8, ← List.take_add]
        congr 1; omega
      · simp only [h3, ↓reduceIte, List.append_nil]
        congr 1; omega
    · simp only [h2, ↓reduceIte, List.nil_append]
      have h3 : count > 0 := by omega
      simp only [h3, ↓reduceIte]
      rw [extract_aligned _ _ _ hal, List.take_take]
      congr 1; omega

end Usual.C05.Keccak
