import Usual.C05.MD
/-! C05 helper lemmas: the streaming `update`/`final` of the Merkle–Damgård digests against
    block-wise absorption, for every block size and compression function. -/
namespace Usual.C05.MD
variable {σ : Type}

theorem absorb_fuel_irrelevant (A : Alg σ) (hB : 0 < A.B) :
    ∀ (f1 f2 : Nat) (st : σ) (p : List UInt8), p.length < f1 → p.length < f2 →
      absorb A f1 st p = absorb A f2 st p := by
  intro f1
  induction f1 with
  | zero => intro f2 st p h; omega
  | succ f1 ih =>
    intro f2 st p h1 h2
    cases f2 with
    | zero => omega
    | succ f2 =>
      unfold absorb
      split
      · rfl
      · apply ih
        · simp [List.length_drop]; omega
        · simp [List.length_drop]; omega

theorem absorbAll_lt (A : Alg σ) (st : σ) (p : List UInt8) (h : p.length < A.B) :
    absorbAll A st p = (st, p) := by
  unfold absorbAll absorb; simp [h]

theorem absorbAll_ge (A : Alg σ) (hB : 0 < A.B) (st : σ) (p : List UInt8) (h : A.B ≤ p.length) :
    absorbAll A st p = absorbAll A (A.compress st (p.take A.B)) (p.drop A.B) := by
  unfold absorbAll
  conv => lhs; unfold absorb
  have : ¬ p.length < A.B := by omega
  simp only [this, ↓reduceIte]
  apply absorb_fuel_irrelevant A hB
  · simp [List.length_drop]; omega
  · simp [List.length_drop]

/-- the tail left by absorbing is shorter than a block … -/
theorem absorbAll_rem_lt (A : Alg σ) (hB : 0 < A.B) :
    ∀ (n : Nat) (st : σ) (p : List UInt8), p.length ≤ n → (absorbAll A st p).2.length < A.B := by
  intro n
  induction n with
  | zero =>
    intro st p h
    have : p = [] := List.length_eq_zero_iff.mp (by omega)
    subst this; rw [absorbAll_lt] <;> simp [hB]
  | succ n ih =>
    intro st p h
    by_cases hlt : p.length < A.B
    · rw [absorbAll_lt A st p hlt]; exact hlt
    · rw [absorbAll_ge A hB st p (by omega)]
      apply ih; simp [List.length_drop]; omega

/-- … and congruent to the input length -/
theorem absorbAll_rem_mod (A : Alg σ) (hB : 0 < A.B) :
    ∀ (n : Nat) (st : σ) (p : List UInt8), p.length ≤ n →
      (absorbAll A st p).2.length % A.B = p.length % A.B := by
  intro n
  induction n with
  | zero =>
    intro st p h
    have : p = [] := List.length_eq_zero_iff.mp (by omega)
    subst this; rw [absorbAll_lt] <;> simp [hB]
  | succ n ih =>
    intro st p h
    by_cases hlt : p.length < A.B
    · rw [absorbAll_lt A st p hlt]
    · rw [absorbAll_ge A hB st p (by omega)]
      rw [ih _ _ (by simp [List.length_drop]; omega)]
      simp only [List.length_drop]
      have h1 : p.length = (p.length - A.B) + A.B := by omega
      conv => rhs; rw [h1, Nat.add_mod_right]

theorem absorbAll_rem_len (A : Alg σ) (hB : 0 < A.B) (st : σ) (p : List UInt8) :
    (absorbAll A st p).2.length = p.length % A.B := by
  have h1 := absorbAll_rem_lt A hB p.length st p (Nat.le_refl _)
  have h2 := absorbAll_rem_mod A hB p.length st p (Nat.le_refl _)
  rw [Nat.mod_eq_of_lt h1] at h2
  exact h2

/-- absorbing a concatenation = absorbing the first part, then the rest on top of what was left -/
theorem absorbAll_append (A : Alg σ) (hB : 0 < A.B) :
    ∀ (n : Nat) (st : σ) (p q : List UInt8), p.length ≤ n →
      absorbAll A st (p ++ q) =
        absorbAll A (absorbAll A st p).1 ((absorbAll A st p).2 ++ q) := by
  intro n
  induction n with
  | zero =>
    intro st p q h
    have : p = [] := List.length_eq_zero_iff.mp (by omega)
    subst this
    rw [absorbAll_lt A st [] (by simpa using hB)]
  | succ n ih =>
    intro st p q h
    by_cases hlt : p.length < A.B
    · rw [absorbAll_lt A st p hlt]
    · have hge : A.B ≤ p.length := by omega
      rw [absorbAll_ge A hB st (p ++ q) (by simp; omega)]
      rw [absorbAll_ge A hB st p hge]
      have ht : (p ++ q).take A.B = p.take A.B := by
        rw [List.take_append_of_le_length hge]
      have hd : (p ++ q).drop A.B = p.drop A.B ++ q := by
        rw [List.drop_append_of_le_length hge]
      rw [ht, hd]
      apply ih; simp [List.length_drop]; omega

/-- key lemma: the `update` loop = absorbing `buf ++ data` block-wise -/
theorem updateF_eq_absorb (A : Alg σ) (hB : 0 < A.B) :
    ∀ (fuel : Nat) (c : Ctx σ) (data : List UInt8), data.length < fuel → c.buf.length < A.B →
      ((updateF A fuel c data).st, (updateF A fuel c data).buf)
          = absorb A (c.buf.length + data.length + 1) c.st (c.buf ++ data)
      ∧ (updateF A fuel c data).nbytes = c.nbytes + data.length := by
  intro fuel
  induction fuel with
  | zero => intro c data h; omega
  | succ fuel ih =>
    intro c data hf hb
    unfold updateF
    by_cases hd : data = []
    · subst hd
      simp
      unfold absorb
      simp [hb]
    · simp only [hd, ↓reduceIte]
      have hdl : 0 < data.length := List.length_pos_iff.mpr hd
      have hn : 0 < min (A.B - c.buf.length) data.length := by omega
      by_cases hfull : (c.buf ++ List.take (min (A.B - c.buf.length) data.length) data).length = A.B
      · simp only [hfull, ↓reduceIte]
        have hlen : A.B - c.buf.length ≤ data.length := by
          simp [List.length_append, List.length_take] at hfull; omega
        have hmin : min (A.B - c.buf.length) data.length = A.B - c.buf.length := by omega
        have := ih { st := A.compress c.st (c.buf ++ List.take (min (A.B - c.buf.length) data.length) data),
                     buf := [], nbytes := c.nbytes + min (A.B - c.buf.length) data.length }
                   (data.drop (min (A.B - c.buf.length) data.length))
                   (by simp [List.length_drop]; omega) (by simpa using hB)
        obtain ⟨h1, h2⟩ := this
        constructor
        · rw [h1]
          conv => rhs; unfold absorb
          have hge : ¬ (c.buf ++ data).length < A.B := by simp [List.length_append]; omega
          simp only [hge, ↓reduceIte]
          have htake : (c.buf ++ data).take A.B = c.buf ++ data.take (A.B - c.buf.length) := by
            rw [List.take_append]; simp [List.take_of_length_le (Nat.le_of_lt hb)]
          have hdrop : (c.buf ++ data).drop A.B = data.drop (A.B - c.buf.length) := by
            rw [List.drop_append]; simp [List.drop_of_length_le (Nat.le_of_lt hb)]
          rw [htake, hdrop, hmin]
          apply absorb_fuel_irrelevant A hB
          · simp [List.length_drop]
          · simp [List.length_drop]; omega
        · rw [h2]; simp [List.length_drop]; omega
      · simp only [hfull, ↓reduceIte]
        have hlen : data.length < A.B - c.buf.length := by
          simp [List.length_append, List.length_take] at hfull; omega
        have hmin : min (A.B - c.buf.length) data.length = data.length := by omega
        have hbl : (c.buf ++ data).length < A.B := by simp [List.length_append]; omega
        rw [hmin]
        simp only [List.take_length, List.drop_length]
        cases fuel with
        | zero => omega
        | succ fuel =>
          unfold updateF
          simp
          unfold absorb
          simp
          intro h
          simp [List.length_append] at hbl
          omega

/-- one `update` call = absorbing `buf ++ data` -/
theorem update_view (A : Alg σ) (hB : 0 < A.B) (c : Ctx σ) (data : List UInt8)
    (hb : c.buf.length < A.B) :
    ((update A c data).st, (update A c data).buf) = absorbAll A c.st (c.buf ++ data) ∧
    (update A c data).nbytes = c.nbytes + data.length := by
  have := updateF_eq_absorb A hB (data.length + 1) c data (by omega) hb
  obtain ⟨h1, h2⟩ := this
  refine ⟨?_, h2⟩
  unfold update absorbAll
  rw [h1]; simp [List.length_append]

/-- what a context holds after it has been fed exactly the message `msg` -/
def Fed (A : Alg σ) (c : Ctx σ) (msg : List UInt8) : Prop :=
  (c.st, c.buf) = absorbAll A A.init msg ∧ c.nbytes = msg.length

theorem fed_reset (A : Alg σ) (hB : 0 < A.B) : Fed A (reset A) [] := by
  constructor
  · rw [absorbAll_lt A A.init [] (by simpa using hB)]; rfl
  · rfl

theorem fed_buf_lt (A : Alg σ) (hB : 0 < A.B) (c : Ctx σ) (msg : List UInt8) (h : Fed A c msg) :
    c.buf.length < A.B := by
  have e : c.buf = (absorbAll A A.init msg).2 := by
    have := congrArg Prod.snd h.1; simpa using this
  rw [e]; exact absorbAll_rem_lt A hB _ _ _ (Nat.le_refl _)

theorem fed_buf_len (A : Alg σ) (hB : 0 < A.B) (c : Ctx σ) (msg : List UInt8) (h : Fed A c msg) :
    c.buf.length = msg.length % A.B := by
  have e : c.buf = (absorbAll A A.init msg).2 := by
    have := congrArg Prod.snd h.1; simpa using this
  rw [e]; exact absorbAll_rem_len A hB _ _

theorem fed_update (A : Alg σ) (hB : 0 < A.B) (c : Ctx σ) (msg data : List UInt8) (h : Fed A c msg) :
    Fed A (update A c data) (msg ++ data) := by
  have hb := fed_buf_lt A hB c msg h
  obtain ⟨v, n⟩ := update_view A hB c data hb
  constructor
  · rw [v, absorbAll_append A hB msg.length A.init msg data (Nat.le_refl _)]
    have e1 : c.st = (absorbAll A A.init msg).1 := by
      have := congrArg Prod.fst h.1; simpa using this
    have e2 : c.buf = (absorbAll A A.init msg).2 := by
      have := congrArg Prod.snd h.1; simpa using this
    rw [e1, e2]
  · rw [n, h.2]; simp

theorem fed_foldl (A : Alg σ) (hB : 0 < A.B) :
    ∀ (chunks : List (List UInt8)) (c : Ctx σ) (msg : List UInt8), Fed A c msg →
      Fed A (chunks.foldl (update A) c) (msg ++ chunks.flatten) := by
  intro chunks
  induction chunks with
  | nil => intro c msg h; simpa using h
  | cons x xs ih =>
    intro c msg h
    simp only [List.foldl_cons, List.flatten_cons]
    rw [← List.append_assoc]
    exact ih _ _ (fed_update A hB c msg x h)

/-! ## length field -/

theorem leBytes_length (k n : Nat) : (leBytes k n).length = k := by
  induction k generalizing n with
  | zero => rfl
  | succ k ih => simp [leBytes, ih]

theorem leBytes_zero (k : Nat) : leBytes k 0 = List.replicate k 0 := by
  induction k with
  | zero => rfl
  | succ k ih => simp [leBytes, ih, List.replicate_succ]

theorem leBytes_add (a b n : Nat) : leBytes (a + b) n = leBytes a n ++ leBytes b (n / 256 ^ a) := by
  induction a generalizing n with
  | zero => simp [leBytes]
  | succ a ih =>
    have : a + 1 + b = (a + b) + 1 := by omega
    rw [this]
    simp only [leBytes, List.cons_append]
    rw [ih]
    congr 3
    rw [Nat.pow_succ, Nat.mul_comm, Nat.div_div_eq_div_mul]

theorem leBytes_small (b n : Nat) (h : n < 2 ^ 64) (hb : 8 ≤ b) :
    leBytes b n = leBytes 8 n ++ List.replicate (b - 8) 0 := by
  have e : b = 8 + (b - 8) := by omega
  conv => lhs; rw [e, leBytes_add]
  have : n / 256 ^ 8 = 0 := Nat.div_eq_of_lt (by omega)
  rw [this, leBytes_zero]

theorem encLen_eq (A : Alg σ) (hL : 8 ≤ A.lenBytes) (len : Nat) (h : 8 * len < 2 ^ 64) :
    encLenC A len = encLenSpec A (8 * len) := by
  unfold encLenC encLenSpec
  have e : len * 8 % 2 ^ 64 = 8 * len := by rw [Nat.mul_comm]; exact Nat.mod_eq_of_lt h
  simp only [e]
  cases A.bigEndian with
  | true =>
    simp only [↓reduceIte, beBytes]
    rw [leBytes_small A.lenBytes (8 * len) h hL, List.reverse_append, List.reverse_replicate]
  | false =>
    simp only [Bool.false_eq_true, ↓reduceIte]
    rw [leBytes_small A.lenBytes (8 * len) h hL]

/-! ## padding arithmetic -/

/-- the defining property of the standard's zero count -/
theorem padZeros_spec (A : Alg σ) (hB : 0 < A.B) (len : Nat) :
    (len + 1 + padZeros A len + A.lenBytes) % A.B = 0 ∧ padZeros A len < A.B := by
  unfold padZeros
  refine ⟨?_, Nat.mod_lt _ hB⟩
  have hx : (len + 1 + A.lenBytes) % A.B < A.B := Nat.mod_lt _ hB
  have e : len + 1 + (A.B - (len + 1 + A.lenBytes) % A.B) % A.B + A.lenBytes
      = (len + 1 + A.lenBytes) + (A.B - (len + 1 + A.lenBytes) % A.B) % A.B := by omega
  rw [e, Nat.add_mod, Nat.mod_mod]
  generalize (len + 1 + A.lenBytes) % A.B = x at hx
  by_cases h0 : x = 0
  · subst h0; simp
  · have : (A.B - x) % A.B = A.B - x := Nat.mod_eq_of_lt (by omega)
    rw [this]
    have : x + (A.B - x) = A.B := by omega
    rw [this, Nat.mod_self]

/-- the C rule `pad_len = B - L - pos; if (pad_len <= 0) pad_len += B` yields the standard's count -/
theorem padLen_eq (A : Alg σ) (hL : 0 < A.lenBytes) (hLB : A.lenBytes < A.B) (len : Nat) :
    padLen A (len % A.B) = padZeros A len + 1 := by
  have hB : 0 < A.B := by omega
  have hr : len % A.B < A.B := Nat.mod_lt _ hB
  unfold padLen padZeros
  have e : (len + 1 + A.lenBytes) % A.B = (len % A.B + (1 + A.lenBytes)) % A.B := by
    rw [Nat.add_assoc]
    conv => lhs; rw [Nat.add_mod]
    conv => rhs; rw [Nat.add_mod, Nat.mod_mod]
  rw [e]
  generalize len % A.B = r at hr
  by_cases hc : A.B - A.lenBytes ≤ r
  · simp only [hc, ↓reduceIte]
    have h1 : (r + (1 + A.lenBytes)) % A.B = r + 1 + A.lenBytes - A.B := by
      have : r + (1 + A.lenBytes) = (r + 1 + A.lenBytes - A.B) + A.B := by omega
      rw [this, Nat.add_mod_right, Nat.mod_eq_of_lt (by omega)]
    rw [h1, Nat.mod_eq_of_lt (by omega)]
    omega
  · simp only [hc, ↓reduceIte]
    by_cases heq : r + 1 + A.lenBytes = A.B
    · have h1 : (r + (1 + A.lenBytes)) % A.B = 0 := by
        have : r + (1 + A.lenBytes) = A.B := by omega
        rw [this, Nat.mod_self]
      rw [h1]; simp; omega
    · have h1 : (r + (1 + A.lenBytes)) % A.B = r + 1 + A.lenBytes := by
        rw [Nat.mod_eq_of_lt (by omega)]; omega
      rw [h1, Nat.mod_eq_of_lt (by omega)]
      omega

theorem padding_eq (n : Nat) (h : 0 < n) : padding n = 0x80 :: List.replicate (n - 1) 0 := by
  unfold padding
  apply List.take_of_length_le
  simp; omega


theorem mod_of_add_mod_zero (x L B : Nat) (hL : 0 < L) (hLB : L < B) (h : (x + L) % B = 0) :
    x % B = B - L := by
  have hB : 0 < B := by omega
  have hr : x % B < B := Nat.mod_lt _ hB
  have e : (x + L) % B = (x % B + L) % B := by
    rw [Nat.add_mod, Nat.mod_eq_of_lt hLB]
  rw [e] at h
  generalize x % B = r at hr h
  by_cases hc : r + L < B
  · rw [Nat.mod_eq_of_lt hc] at h; omega
  · have : r + L = (r + L - B) + B := by omega
    rw [this, Nat.add_mod_right, Nat.mod_eq_of_lt (by omega)] at h
    omega

/-- `final` on a context that was fed `msg` is the standard's digest of `msg` -/
theorem final_of_fed (A : Alg σ) (hL : 8 ≤ A.lenBytes) (hLB : A.lenBytes < A.B)
    (c : Ctx σ) (msg : List UInt8) (h : Fed A c msg) (hlen : 8 * msg.length < 2 ^ 64) :
    final A c = mdSpec A msg := by
  have hB : 0 < A.B := by omega
  have hL0 : 0 < A.lenBytes := by omega
  have hpos := fed_buf_len A hB c msg h
  have hpl : padLen A c.buf.length = padZeros A msg.length + 1 := by
    rw [hpos]; exact padLen_eq A hL0 hLB msg.length
  have hpad : padding (padLen A c.buf.length) = 0x80 :: List.replicate (padZeros A msg.length) 0 := by
    rw [hpl, padding_eq _ (by omega)]; simp
  have hfed1 := fed_update A hB c msg (padding (padLen A c.buf.length)) h
  rw [hpad] at hfed1
  -- length of the partial block after the padding
  have hz := (padZeros_spec A hB msg.length).1
  have hlen1 : (msg ++ 0x80 :: List.replicate (padZeros A msg.length) 0).length % A.B = A.B - A.lenBytes := by
    apply mod_of_add_mod_zero _ _ _ hL0 hLB
    simp only [List.length_append, List.length_cons, List.length_replicate]
    have : msg.length + (padZeros A msg.length + 1) + A.lenBytes
        = msg.length + 1 + padZeros A msg.length + A.lenBytes := by omega
    rw [this]; exact hz
  have hbuf1 := fed_buf_len A hB _ _ hfed1
  rw [hlen1] at hbuf1
  unfold final mdSpec finalCtx
  congr 1
  simp only [hpad, mdPad]
  rw [encLen_eq A hL c.nbytes (by rw [h.2]; exact hlen), h.2]
  have hsplit : msg ++ (0x80 :: List.replicate (padZeros A msg.length) 0 ++ encLenSpec A (8 * msg.length))
      = (msg ++ 0x80 :: List.replicate (padZeros A msg.length) 0) ++ encLenSpec A (8 * msg.length) := by
    simp
  rw [hsplit, absorbAll_append A hB _ A.init _ _ (Nat.le_refl _), ← hfed1.1]
  have henc : (encLenSpec A (8 * msg.length)).length = A.lenBytes := by
    unfold encLenSpec beBytes; split <;> simp [leBytes_length]
  have hfull : ((update A c (0x80 :: List.replicate (padZeros A msg.length) 0)).buf
      ++ encLenSpec A (8 * msg.length)).length = A.B := by
    rw [List.length_append, hbuf1, henc]; omega
  dsimp only
  rw [absorbAll_ge A hB _ _ (by omega)]
  rw [List.take_of_length_le (by omega), List.drop_of_length_le (by omega)]
  rw [absorbAll_lt A _ [] (by simpa using hB)]

/-- every chunking of a message gives the standard's digest -/
theorem final_foldl_update (A : Alg σ) (hL : 8 ≤ A.lenBytes) (hLB : A.lenBytes < A.B)
    (chunks : List (List UInt8)) (hlen : 8 * chunks.flatten.length < 2 ^ 64) :
    final A (chunks.foldl (update A) (reset A)) = mdSpec A chunks.flatten := by
  have hB : 0 < A.B := by omega
  have := fed_foldl A hB chunks (reset A) [] (fed_reset A hB)
  simp only [List.nil_append] at this
  exact final_of_fed A hL hLB _ _ this hlen

end Usual.C05.MD
