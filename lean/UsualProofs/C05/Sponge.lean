import UsualProofs.C05.Keccak
/-! C05 helper lemmas: every block loop of keccak.c is the byte-at-a-time machine `steps`;
    chunking laws; connection to the FIPS 202 sponge. -/
namespace Usual.C05.Keccak

variable (f : Bytes → Bytes)

/-- between API calls the position is strictly inside the rate -/
def WF (c : Ctx) : Prop := c.pos < c.rbytes

/-! ## loop bodies as byte maps -/

theorem mapAt_gSqueeze (st : Bytes) (pos : Nat) (src : Bytes) :
    mapAt gSqueeze st pos src = ((st.drop pos).take src.length, st) := by
  induction st generalizing pos src with
  | nil => simp
  | cons s st ih =>
    cases pos with
    | zero => cases src with
      | nil => simp
      | cons b bs => simp [ih, gSqueeze]
    | succ pos => simp [ih]

theorem mapAt_gSqueezeXor (st : Bytes) (pos : Nat) (src : Bytes) :
    mapAt gSqueezeXor st pos src = (xorBytes ((st.drop pos).take src.length) src, st) := by
  induction st generalizing pos src with
  | nil => simp [xorBytes]
  | cons s st ih =>
    cases pos with
    | zero => cases src with
      | nil => simp [xorBytes]
      | cons b bs => simp [ih, gSqueezeXor, xorBytes]
    | succ pos => simp [ih]

theorem mapAt_gEncrypt (st : Bytes) (pos : Nat) (src : Bytes) :
    mapAt gEncrypt st pos src = (((xorAt st pos src).drop pos).take src.length, xorAt st pos src) := by
  induction st generalizing pos src with
  | nil => cases pos <;> cases src <;> simp [xorAt]
  | cons s st ih =>
    cases pos with
    | zero => cases src with
      | nil => simp
      | cons b bs => simp [ih, gEncrypt, xorAt]
    | succ pos => simp [ih]

theorem mapAt_gDecrypt (st : Bytes) (pos : Nat) (src : Bytes) :
    mapAt gDecrypt st pos src =
      (xorBytes ((st.drop pos).take src.length) src,
       xorAt st pos (xorBytes ((st.drop pos).take src.length) src)) := by
  induction st generalizing pos src with
  | nil => cases pos <;> cases src <;> simp [xorAt, xorBytes]
  | cons s st ih =>
    cases pos with
    | zero => cases src with
      | nil => simp [xorBytes]
      | cons b bs =>
        have hc : s ^^^ (s ^^^ b) = b := by rw [← UInt8.xor_assoc, UInt8.xor_self, UInt8.zero_xor]
        have := ih 0 bs
        simp only [List.drop_zero] at this
        simp [this, gDecrypt, xorAt, xorBytes, hc]
    | succ pos => simp [ih]

theorem bodyAbsorb_eq (st : Bytes) (pos : Nat) (src : Bytes) :
    (bodyAbsorb st pos src).2 = (mapAt gAbsorb st pos src).2 := by
  simp [bodyAbsorb, addBytes_eq, xorAt_eq_mapAt]

theorem bodySqueeze_eq (st : Bytes) (pos : Nat) (src : Bytes) :
    bodySqueeze st pos src = mapAt gSqueeze st pos src := by
  simp [bodySqueeze, extractBytes_eq, mapAt_gSqueeze]

theorem bodySqueezeXor_eq (st : Bytes) (pos : Nat) (src : Bytes) :
    bodySqueezeXor st pos src = mapAt gSqueezeXor st pos src := by
  simp [bodySqueezeXor, extractBytes_eq, mapAt_gSqueezeXor]

theorem bodyEncrypt_eq (st : Bytes) (pos : Nat) (src : Bytes) :
    bodyEncrypt st pos src = mapAt gEncrypt st pos src := by
  simp [bodyEncrypt, extractBytes_eq, addBytes_eq, mapAt_gEncrypt]

theorem bodyDecrypt_eq (st : Bytes) (pos : Nat) (src : Bytes) :
    bodyDecrypt st pos src = mapAt gDecrypt st pos src := by
  simp [bodyDecrypt, extractBytes_eq, addBytes_eq, mapAt_gDecrypt]

/-! ## the byte machine -/

@[simp] theorem steps_nil (g) (c : Ctx) : steps f g c [] = ([], c) := rfl

theorem steps_cons (g) (c : Ctx) (b : UInt8) (bs : Bytes) :
    steps f g c (b :: bs) =
      ((step1 f g c b).1 ++ (steps f g (step1 f g c b).2 bs).1, (steps f g (step1 f g c b).2 bs).2) := rfl

theorem steps_append (g) (c : Ctx) (a b : Bytes) :
    steps f g c (a ++ b) =
      ((steps f g c a).1 ++ (steps f g (steps f g c a).2 b).1, (steps f g (steps f g c a).2 b).2) := by
  induction a generalizing c with
  | nil => simp
  | cons x a ih =>
    rw [List.cons_append, steps_cons, steps_cons, ih]
    simp [List.append_assoc]

theorem permuteIfNeeded_rbytes (c : Ctx) : (permuteIfNeeded f c).rbytes = c.rbytes := by
  unfold permuteIfNeeded; split <;> rfl

theorem permuteIfNeeded_wf (c : Ctx) (h : c.pos ≤ c.rbytes) (hr : 0 < c.rbytes) : WF (permuteIfNeeded f c) := by
  unfold permuteIfNeeded WF
  split
  · simpa using hr
  · omega

theorem permuteIfNeeded_id (c : Ctx) (h : c.pos ≠ c.rbytes) : permuteIfNeeded f c = c := by
  unfold permuteIfNeeded; simp [h]

theorem step1_wf (g) (c : Ctx) (b : UInt8) (h : WF c) : WF (step1 f g c b).2 := by
  unfold step1
  apply permuteIfNeeded_wf
  · simp only; unfold WF at h; omega
  · simp only; unfold WF at h; omega

theorem step1_rbytes (g) (c : Ctx) (b : UInt8) : (step1 f g c b).2.rbytes = c.rbytes := by
  unfold step1; rw [permuteIfNeeded_rbytes]

theorem steps_wf (g) (c : Ctx) (data : Bytes) (h : WF c) : WF (steps f g c data).2 := by
  induction data generalizing c with
  | nil => simpa using h
  | cons b bs ih => rw [steps_cons]; exact ih _ (step1_wf f g c b h)

theorem steps_rbytes (g) (c : Ctx) (data : Bytes) : (steps f g c data).2.rbytes = c.rbytes := by
  induction data generalizing c with
  | nil => rfl
  | cons b bs ih => rw [steps_cons]; simp only; rw [ih, step1_rbytes]

/-- a run that stays inside the current block: one window operation, one deferred permutation test -/
theorem steps_block (g) (chunk : Bytes) (c : Ctx) (hwf : WF c) (hlen : chunk.length ≤ c.rbytes - c.pos) :
    steps f g c chunk =
      ((mapAt g c.st c.pos chunk).1,
       permuteIfNeeded f { c with st := (mapAt g c.st c.pos chunk).2, pos := c.pos + chunk.length }) := by
  induction chunk generalizing c with
  | nil =>
    unfold WF at hwf
    simp only [steps_nil, mapAt_nil, List.length_nil, Nat.add_zero]
    rw [permuteIfNeeded_id]
    simp only; omega
  | cons b bs ih =>
    unfold WF at hwf
    rw [steps_cons]
    have hs : step1 f g c b = ((mapAt g c.st c.pos [b]).1,
        permuteIfNeeded f { c with st := (mapAt g c.st c.pos [b]).2, pos := c.pos + 1 }) := rfl
    have happ := mapAt_append g c.st c.pos [b] bs
    simp only [List.singleton_append, List.length_singleton] at happ
    by_cases hlast : c.pos + 1 = c.rbytes
    · have hbs : bs = [] := by
        apply List.length_eq_zero_iff.mp
        simp only [List.length_cons] at hlen; omega
      subst hbs
      rw [hs]; simp
    · rw [hs, permuteIfNeeded_id f _ (by simpa using hlast)]
      simp only
      rw [ih { c with st := (mapAt g c.st c.pos [b]).2, pos := c.pos + 1 } (by unfold WF; simp only; omega)
            (by simp only [List.length_cons] at hlen; simp only; omega)]
      simp only
      rw [happ]
      simp only [List.length_cons]
      have e : c.pos + 1 + bs.length = c.pos + (bs.length + 1) := by omega
      rw [e]

/-- changing only what a loop body writes to `dst` does not change the resulting context -/
theorem loopF_congr_ctx (body body' : Bytes → Nat → Bytes → Bytes × Bytes)
    (h : ∀ st pos src, (body st pos src).2 = (body' st pos src).2) :
    ∀ (fuel : Nat) (c : Ctx) (data : Bytes),
      (loopF f body fuel c data).2 = (loopF f body' fuel c data).2 := by
  intro fuel
  induction fuel with
  | zero => intro c data; rfl
  | succ fuel ih =>
    intro c data
    unfold loopF
    by_cases hd : data = []
    · simp [hd]
    · simp only [hd, ↓reduceIte]
      rw [h, ih]

/-- the block loop is the byte machine -/
theorem loopF_eq_steps (body : Bytes → Nat → Bytes → Bytes × Bytes) (g)
    (hbody : ∀ st pos src, body st pos src = mapAt g st pos src) :
    ∀ (fuel : Nat) (c : Ctx) (data : Bytes), WF c → data.length < fuel →
      loopF f body fuel c data = steps f g c data := by
  intro fuel
  induction fuel with
  | zero => intro c data _ h; omega
  | succ fuel ih =>
    intro c data hwf hfuel
    unfold loopF
    by_cases hd : data = []
    · simp [hd]
    · simp only [hd, ↓reduceIte]
      have hdl : 0 < data.length := List.length_pos_iff.mpr hd
      have hwf' := hwf
      unfold WF at hwf'
      generalize hn : (if data.length > c.rbytes - c.pos then c.rbytes - c.pos else data.length) = n
      have hn1 : 1 ≤ n := by rw [← hn]; split <;> omega
      have hn2 : n ≤ data.length := by rw [← hn]; split <;> omega
      have hn3 : n ≤ c.rbytes - c.pos := by rw [← hn]; split <;> omega
      have hlt : (data.take n).length = n := by simp; omega
      have hblk := steps_block f g (data.take n) c hwf (by rw [hlt]; exact hn3)
      rw [hlt] at hblk
      have hsplit : steps f g c data = steps f g c (data.take n ++ data.drop n) := by
        rw [List.take_append_drop]
      rw [hsplit, steps_append, hblk, hbody]
      simp only
      have hwfc : WF (permuteIfNeeded f { c with st := (mapAt g c.st c.pos (data.take n)).2, pos := c.pos + n }) := by
        apply permuteIfNeeded_wf
        · simp only; omega
        · simp only; omega
      rw [ih _ (data.drop n) hwfc (by simp [List.length_drop]; omega)]

/-! ## API functions as byte machines -/

theorem absorb_eq (c : Ctx) (data : Bytes) (h : WF c) :
    absorb f c data = (steps f gAbsorb c data).2 := by
  unfold absorb
  rw [loopF_congr_ctx f bodyAbsorb (mapAt gAbsorb) bodyAbsorb_eq]
  rw [loopF_eq_steps f (mapAt gAbsorb) gAbsorb (fun _ _ _ => rfl) _ _ _ h (by omega)]

theorem squeeze_eq (c : Ctx) (n : Nat) (h : WF c) :
    squeeze f c n = steps f gSqueeze c (List.replicate n 0) := by
  unfold squeeze
  rw [loopF_eq_steps f bodySqueeze gSqueeze bodySqueeze_eq _ _ _ h (by simp)]

theorem squeezeXor_eq (c : Ctx) (data : Bytes) (h : WF c) :
    squeezeXor f c data = steps f gSqueezeXor c data := by
  unfold squeezeXor
  rw [loopF_eq_steps f bodySqueezeXor gSqueezeXor bodySqueezeXor_eq _ _ _ h (by omega)]

theorem encrypt_eq (c : Ctx) (data : Bytes) (h : WF c) :
    encrypt f c data = steps f gEncrypt c data := by
  unfold encrypt
  rw [loopF_eq_steps f bodyEncrypt gEncrypt bodyEncrypt_eq _ _ _ h (by omega)]

theorem decrypt_eq (c : Ctx) (data : Bytes) (h : WF c) :
    decrypt f c data = steps f gDecrypt c data := by
  unfold decrypt
  rw [loopF_eq_steps f bodyDecrypt gDecrypt bodyDecrypt_eq _ _ _ h (by omega)]

theorem absorb_wf (c : Ctx) (data : Bytes) (h : WF c) : WF (absorb f c data) := by
  rw [absorb_eq f c data h]; exact steps_wf f _ _ _ h

theorem absorb_rbytes (c : Ctx) (data : Bytes) (h : WF c) : (absorb f c data).rbytes = c.rbytes := by
  rw [absorb_eq f c data h]; exact steps_rbytes f _ _ _

/-! ## decrypt inverts encrypt, byte by byte -/

theorem mapAt_dec_enc (st : Bytes) (pos : Nat) (b : UInt8) :
    mapAt gDecrypt st pos (mapAt gEncrypt st pos [b]).1 =
      ((if pos < st.length then [b] else []), (mapAt gEncrypt st pos [b]).2) := by
  induction st generalizing pos with
  | nil => simp
  | cons s st ih =>
    cases pos with
    | zero =>
      have hc : s ^^^ (s ^^^ b) = b := by rw [← UInt8.xor_assoc, UInt8.xor_self, UInt8.zero_xor]
      simp [gEncrypt, gDecrypt, hc]
    | succ pos =>
      simp only [mapAt_succ, ih, List.length_cons, Nat.add_lt_add_iff_right]


theorem mapAt_single_out (g) (st : Bytes) (pos : Nat) (b : UInt8) (h : pos < st.length) :
    ∃ x, (mapAt g st pos [b]).1 = [x] := by
  induction st generalizing pos with
  | nil => simp at h
  | cons s st ih =>
    cases pos with
    | zero => exact ⟨(g s b).1, by simp⟩
    | succ pos =>
      obtain ⟨x, hx⟩ := ih pos (by simpa using h)
      exact ⟨x, by simp [hx]⟩

/-- the state keeps its 200 bytes -/
def Sized (c : Ctx) : Prop := c.st.length = 200 ∧ c.rbytes ≤ 200

theorem step1_sized (hf : ∀ s : Bytes, s.length = 200 → (f s).length = 200) (g) (c : Ctx) (b : UInt8)
    (h : Sized c) : Sized (step1 f g c b).2 := by
  unfold step1 permuteIfNeeded Sized
  simp only
  split
  · exact ⟨hf _ (by rw [mapAt_length]; exact h.1), h.2⟩
  · exact ⟨by rw [mapAt_length]; exact h.1, h.2⟩

theorem steps_sized (hf : ∀ s : Bytes, s.length = 200 → (f s).length = 200) (g) (c : Ctx) (data : Bytes)
    (h : Sized c) : Sized (steps f g c data).2 := by
  induction data generalizing c with
  | nil => simpa using h
  | cons b bs ih => rw [steps_cons]; exact ih _ (step1_sized f hf g c b h)

theorem steps_dec_enc (hf : ∀ s : Bytes, s.length = 200 → (f s).length = 200) (m : Bytes) (c : Ctx)
    (hwf : WF c) (hs : Sized c) :
    steps f gDecrypt c (steps f gEncrypt c m).1 = (m, (steps f gEncrypt c m).2) := by
  induction m generalizing c with
  | nil => simp
  | cons b bs ih =>
    have hpos : c.pos < c.st.length := by unfold WF at hwf; unfold Sized at hs; omega
    obtain ⟨x, hx⟩ := mapAt_single_out gEncrypt c.st c.pos b hpos
    have hde := mapAt_dec_enc c.st c.pos b
    rw [hx, if_pos hpos] at hde
    rw [steps_cons]
    simp only
    have hs1 : (step1 f gEncrypt c b).1 = [x] := hx
    rw [hs1, steps_append]
    have hd1 : steps f gDecrypt c [x] = ([b], (step1 f gEncrypt c b).2) := by
      rw [steps_cons]
      simp only [steps_nil, List.append_nil]
      unfold step1
      simp only [hde]
    rw [hd1]
    simp only
    rw [ih _ (step1_wf f gEncrypt c b hwf) (step1_sized f hf gEncrypt c b hs)]
    simp

/-! ## chunked calls -/

/-- call `op` once per chunk, concatenating what it writes -/
def runMany (op : Ctx → Bytes → Bytes × Ctx) : Ctx → List Bytes → Bytes × Ctx
  | c, [] => ([], c)
  | c, x :: xs => ((op c x).1 ++ (runMany op (op c x).2 xs).1, (runMany op (op c x).2 xs).2)

theorem runMany_steps (g) (c : Ctx) (chunks : List Bytes) :
    runMany (steps f g) c chunks = steps f g c chunks.flatten := by
  induction chunks generalizing c with
  | nil => rfl
  | cons x xs ih => simp only [runMany, List.flatten_cons]; rw [ih, steps_append]

theorem runMany_congr (op op' : Ctx → Bytes → Bytes × Ctx) (P : Ctx → Prop)
    (hP : ∀ c x, P c → P (op' c x).2) (h : ∀ c x, P c → op c x = op' c x) :
    ∀ (chunks : List Bytes) (c : Ctx), P c → runMany op c chunks = runMany op' c chunks := by
  intro chunks
  induction chunks with
  | nil => intro c _; rfl
  | cons x xs ih =>
    intro c hc
    simp only [runMany]
    rw [h c x hc, ih _ (hP c x hc)]

theorem runMany_encrypt (c : Ctx) (chunks : List Bytes) (h : WF c) :
    runMany (encrypt f) c chunks = encrypt f c chunks.flatten := by
  rw [encrypt_eq f _ _ h, ← runMany_steps]
  exact runMany_congr _ _ WF (fun c x hc => steps_wf f _ c x hc) (fun c x hc => encrypt_eq f c x hc) _ _ h

theorem runMany_decrypt (c : Ctx) (chunks : List Bytes) (h : WF c) :
    runMany (decrypt f) c chunks = decrypt f c chunks.flatten := by
  rw [decrypt_eq f _ _ h, ← runMany_steps]
  exact runMany_congr _ _ WF (fun c x hc => steps_wf f _ c x hc) (fun c x hc => decrypt_eq f c x hc) _ _ h

theorem runMany_squeezeXor (c : Ctx) (chunks : List Bytes) (h : WF c) :
    runMany (squeezeXor f) c chunks = squeezeXor f c chunks.flatten := by
  rw [squeezeXor_eq f _ _ h, ← runMany_steps]
  exact runMany_congr _ _ WF (fun c x hc => steps_wf f _ c x hc) (fun c x hc => squeezeXor_eq f c x hc) _ _ h

theorem foldl_absorb (chunks : List Bytes) (c : Ctx) (h : WF c) :
    chunks.foldl (absorb f) c = absorb f c chunks.flatten := by
  induction chunks generalizing c with
  | nil => rw [absorb_eq f c _ h]; rfl
  | cons x xs ih =>
    simp only [List.foldl_cons, List.flatten_cons]
    rw [ih _ (absorb_wf f c x h), absorb_eq f _ _ (absorb_wf f c x h), absorb_eq f c x h,
        absorb_eq f c _ h, steps_append]

/-- squeeze `n₁`, `n₂`, … bytes in turn -/
def squeezeMany : Ctx → List Nat → Bytes × Ctx
  | c, [] => ([], c)
  | c, n :: ns => ((squeeze f c n).1 ++ (squeezeMany (squeeze f c n).2 ns).1, (squeezeMany (squeeze f c n).2 ns).2)

theorem squeezeMany_eq (ns : List Nat) (c : Ctx) (h : WF c) :
    squeezeMany f c ns = squeeze f c ns.sum := by
  induction ns generalizing c with
  | nil => rw [squeeze_eq f c _ h]; rfl
  | cons n ns ih =>
    have hw : WF (squeeze f c n).2 := by rw [squeeze_eq f c n h]; exact steps_wf f _ _ _ h
    simp only [squeezeMany, List.sum_cons]
    rw [ih _ hw, squeeze_eq f _ _ hw, squeeze_eq f c n h, squeeze_eq f c _ h,
        ← List.replicate_append_replicate, steps_append]

/-! ## connection with the FIPS 202 sponge -/

theorem absorbBlocks_fuel (r : Nat) (hr : 0 < r) :
    ∀ (f1 f2 : Nat) (st p : Bytes), p.length < f1 → p.length < f2 →
      absorbBlocks f r f1 st p = absorbBlocks f r f2 st p := by
  intro f1
  induction f1 with
  | zero => intro f2 st p h; omega
  | succ f1 ih =>
    intro f2 st p h1 h2
    cases f2 with
    | zero => omega
    | succ f2 =>
      unfold absorbBlocks
      split
      · rfl
      · apply ih
        · simp [List.length_drop]; omega
        · simp [List.length_drop]; omega

theorem padBytes_length (r : Nat) (dom : UInt8) (len : Nat) (hr : 0 < r) :
    (padBytes r dom len).length = r - len % r := by
  have : len % r < r := Nat.mod_lt _ hr
  unfold padBytes
  dsimp only
  split
  · simp; omega
  · simp; omega

theorem padBytes_sub (r : Nat) (dom : UInt8) (len : Nat) (h : r ≤ len) :
    padBytes r dom len = padBytes r dom (len - r) := by
  unfold padBytes
  have : len % r = (len - r) % r := by
    conv => lhs; rw [show len = (len - r) + r by omega, Nat.add_mod_right]
  rw [this]

/-- xor-ing the last partial block together with its padding -/
theorem xorAt_pad (st msg : Bytes) (r : Nat) (dom : UInt8) (h : msg.length < r) :
    xorAt st 0 (msg ++ padBytes r dom msg.length)
      = xorByte (xorByte (xorAt st 0 msg) msg.length dom) (r - 1) 0x80 := by
  rw [xorAt_append]
  simp only [Nat.zero_add]
  unfold padBytes xorByte
  rw [Nat.mod_eq_of_lt h]
  by_cases hq : r - msg.length ≤ 1
  · rw [if_pos hq]
    have : r - 1 = msg.length := by omega
    rw [this, xorAt_xorAt_same]
  · rw [if_neg hq]
    have e : dom :: List.replicate (r - msg.length - 2) 0 ++ [0x80]
        = [dom] ++ (List.replicate (r - msg.length - 2) 0 ++ [0x80]) := rfl
    rw [e, xorAt_append, xorAt_append, xorAt_zeros]
    simp only [List.length_singleton, List.length_replicate]
    have : msg.length + 1 + (r - msg.length - 2) = r - 1 := by omega
    rw [this]

theorem pad_single (c : Ctx) (dom : UInt8) :
    pad f c [dom] = { st := f (xorByte (xorByte c.st c.pos dom) (c.rbytes - 1) 0x80), pos := 0, rbytes := c.rbytes } := by
  simp [pad]

theorem absorbBlocks_nil (r : Nat) (hr : 0 < r) (k : Nat) (s : Bytes) : absorbBlocks f r k s [] = s := by
  cases k <;> simp [absorbBlocks, hr]

/-- a padded message of exactly one block -/
theorem absorbBlocks_one (r : Nat) (hr : 0 < r) (k : Nat) (s p : Bytes) (h : p.length = r) :
    absorbBlocks f r (k + 1) s p = f (xorAt s 0 p) := by
  unfold absorbBlocks
  have hc : ¬ (p.length < r ∨ r = 0) := by omega
  rw [if_neg hc, List.take_of_length_le (by omega), List.drop_of_length_le (by omega), absorbBlocks_nil f r hr]

theorem pad_absorb_eq_blocks (r : Nat) (hr : 0 < r) (dom : UInt8) :
    ∀ (n : Nat) (msg st : Bytes), msg.length ≤ n →
      pad f (steps f gAbsorb { st := st, pos := 0, rbytes := r } msg).2 [dom]
        = { st := absorbBlocks f r (msg.length + r + 1) st (msg ++ padBytes r dom msg.length),
            pos := 0, rbytes := r } := by
  intro n
  induction n with
  | zero =>
    intro msg st h
    have : msg = [] := List.length_eq_zero_iff.mp (by omega)
    subst this
    have hx := xorAt_pad st [] r dom (by simpa using hr)
    have hp : (padBytes r dom 0).length = r := by rw [padBytes_length _ _ _ hr]; simp
    simp only [steps_nil, List.length_nil, List.nil_append, Nat.zero_add] at hx ⊢
    rw [pad_single, absorbBlocks_one f r hr _ _ _ hp, hx]
    simp
  | succ n ih =>
    intro msg st h
    by_cases hlt : msg.length < r
    · -- last (partial) block
      have hb := steps_block f gAbsorb msg { st := st, pos := 0, rbytes := r } (by simpa [WF] using hr)
        (by simp only; omega)
      rw [hb]
      simp only [Nat.zero_add]
      rw [permuteIfNeeded_id f _ (by simp only; omega), ← xorAt_eq_mapAt]
      have hx := xorAt_pad st msg r dom hlt
      have hp : (msg ++ padBytes r dom msg.length).length = r := by
        rw [List.length_append, padBytes_length _ _ _ hr, Nat.mod_eq_of_lt hlt]; omega
      rw [pad_single, absorbBlocks_one f r hr _ _ _ hp, hx]
    · -- a full block first
      have hge : r ≤ msg.length := by omega
      have hsplit : msg = msg.take r ++ msg.drop r := (List.take_append_drop r msg).symm
      have hlt' : (msg.take r).length = r := by simp; omega
      have hb := steps_block f gAbsorb (msg.take r) { st := st, pos := 0, rbytes := r }
        (by simpa [WF] using hr) (by simp only; omega)
      conv => lhs; rw [hsplit, steps_append, hb]
      simp only [Nat.zero_add, hlt']
      have hperm : permuteIfNeeded f { st := (mapAt gAbsorb st 0 (msg.take r)).2, pos := r, rbytes := r }
          = { st := f (xorAt st 0 (msg.take r)), pos := 0, rbytes := r } := by
        unfold permuteIfNeeded; simp [xorAt_eq_mapAt]
      rw [hperm, ih (msg.drop r) _ (by simp [List.length_drop]; omega)]
      conv => rhs; unfold absorbBlocks
      have hc : ¬ ((msg ++ padBytes r dom msg.length).length < r ∨ r = 0) := by
        simp [List.length_append]; omega
      rw [if_neg hc, List.take_append_of_le_length hge, List.drop_append_of_le_length hge]
      rw [padBytes_sub r dom msg.length hge]
      simp only [List.length_drop]
      congr 1
      apply absorbBlocks_fuel f r hr
      · simp [List.length_append, padBytes_length _ _ _ hr]; omega
      · simp [List.length_append, padBytes_length _ _ _ hr]; omega

theorem squeeze_eq_blocks (r : Nat) (hr : 0 < r) :
    ∀ (k n fuel : Nat) (st : Bytes), n ≤ k → n < fuel →
      (steps f gSqueeze { st := st, pos := 0, rbytes := r } (List.replicate n 0)).1
        = squeezeBlocks f r fuel st n := by
  intro k
  induction k with
  | zero =>
    intro n fuel st hn hf
    have : n = 0 := by omega
    subst this
    cases fuel with
    | zero => omega
    | succ fuel => simp [squeezeBlocks]
  | succ k ih =>
    intro n fuel st hn hf
    cases fuel with
    | zero => omega
    | succ fuel =>
      unfold squeezeBlocks
      by_cases hle : n ≤ r
      · rw [if_pos hle]
        have hb := steps_block f gSqueeze (List.replicate n 0) { st := st, pos := 0, rbytes := r }
          (by simpa [WF] using hr) (by simp only [List.length_replicate]; omega)
        rw [hb, mapAt_gSqueeze]
        simp
      · rw [if_neg hle]
        have hsplit : List.replicate n (0 : UInt8) = List.replicate r 0 ++ List.replicate (n - r) 0 := by
          rw [List.replicate_append_replicate]; congr 1; omega
        have hb := steps_block f gSqueeze (List.replicate r 0) { st := st, pos := 0, rbytes := r }
          (by simpa [WF] using hr) (by simp only [List.length_replicate]; omega)
        rw [hsplit, steps_append, hb, mapAt_gSqueeze]
        simp only [List.length_replicate, List.drop_zero, Nat.zero_add]
        have hperm : permuteIfNeeded f { st := st, pos := r, rbytes := r }
            = { st := f st, pos := 0, rbytes := r } := by
          unfold permuteIfNeeded; simp
        rw [hperm, ih (n - r) fuel (f st) (by omega) (by omega)]

theorem squeezeBlocks_length_le (r : Nat) :
    ∀ (fuel : Nat) (st : Bytes) (n : Nat), (squeezeBlocks f r fuel st n).length ≤ n := by
  intro fuel
  induction fuel with
  | zero => intro st n; simp [squeezeBlocks]
  | succ fuel ih =>
    intro st n
    unfold squeezeBlocks
    split
    · exact List.length_take_le _ _
    · rw [List.length_append]
      have h1 := List.length_take_le r st
      have h2 := ih (f st) (n - r)
      omega

theorem sponge_length_le (r : Nat) (dom : UInt8) (msg : Bytes) (n : Nat) :
    (sponge f r dom msg n).length ≤ n := by
  unfold sponge; exact squeezeBlocks_length_le f r _ _ _

/-- absorb, pad, squeeze through the C API = the sponge construction -/
theorem hash_eq_sponge (r : Nat) (hr : 0 < r) (dom : UInt8) (msg : Bytes) (n : Nat) :
    (squeeze f (pad f (absorb f { st := List.replicate 200 0, pos := 0, rbytes := r } msg) [dom]) n).1
      = sponge f r dom msg n := by
  have hwf0 : WF { st := List.replicate 200 0, pos := 0, rbytes := r } := by simpa [WF] using hr
  rw [absorb_eq f _ _ hwf0, pad_absorb_eq_blocks f r hr dom msg.length msg _ (Nat.le_refl _)]
  rw [squeeze_eq f _ _ (by simpa [WF] using hr)]
  rw [squeeze_eq_blocks f r hr n n (n + 1) _ (Nat.le_refl _) (by omega)]
  unfold sponge
  simp only
  congr 1
  apply absorbBlocks_fuel f r hr
  · simp [List.length_append, padBytes_length _ _ _ hr]; omega
  · simp

end Usual.C05.Keccak
