import Usual.C05.Hmac
/-! C05 helper lemmas: hmac.c over any digest whose streaming interface computes a function
    `H` of the concatenated input. -/
namespace Usual.C05.Hmac
variable {δ : Type}

/-- the streaming digest computes `H` on every chunking of inputs shorter than `bound` -/
def Lawful (D : Digest δ) (H : Bytes → Bytes) (bound : Nat) : Prop :=
  ∀ chunks : List Bytes, chunks.flatten.length < bound →
    D.final (chunks.foldl D.update D.init) = H chunks.flatten

theorem foldl_update_hash (D : Digest δ) (chunks : List Bytes) (c : Ctx δ) :
    (chunks.foldl (update D) c).hash = chunks.foldl D.update c.hash ∧
    (chunks.foldl (update D) c).ipad = c.ipad ∧ (chunks.foldl (update D) c).opad = c.opad := by
  induction chunks generalizing c with
  | nil => exact ⟨rfl, rfl, rfl⟩
  | cons x xs ih =>
    simp only [List.foldl_cons]
    obtain ⟨h1, h2, h3⟩ := ih (update D c x)
    exact ⟨h1, h2, h3⟩

theorem new_pads (D : Digest δ) (H : Bytes → Bytes) (bound : Nat) (hD : Lawful D H bound)
    (key : Bytes) (hk : key.length < bound) :
    (new D key).ipad = (key0 H D.blockLen key).map (· ^^^ 0x36) ∧
    (new D key).opad = (key0 H D.blockLen key).map (· ^^^ 0x5c) ∧
    (new D key).hash = D.update D.init ((key0 H D.blockLen key).map (· ^^^ 0x36)) := by
  have hH : D.final (D.update D.init key) = H key := by
    have := hD [key] (by simpa using hk)
    simpa using this
  unfold new key0
  simp only [hH]
  trivial

theorem key0_length_le (H : Bytes → Bytes) (B : Nat) (key : Bytes) : (key0 H B key).length ≤ B := by
  unfold key0; simp [List.length_take]; omega

/-- `hmac_final` after any chunking of the message = RFC 2104 -/
theorem final_foldl (D : Digest δ) (H : Bytes → Bytes) (bound : Nat) (hD : Lawful D H bound)
    (key : Bytes) (chunks : List Bytes) (hk : key.length < bound)
    (hm : D.blockLen + chunks.flatten.length < bound) (hr : ∀ m, D.blockLen + (H m).length < bound) :
    final D (chunks.foldl (update D) (new D key)) = hmacSpec H D.blockLen key chunks.flatten := by
  obtain ⟨hi, ho, hh⟩ := new_pads D H bound hD key hk
  obtain ⟨f1, f2, f3⟩ := foldl_update_hash D chunks (new D key)
  have hkl := key0_length_le H D.blockLen key
  unfold final hmacSpec
  simp only
  rw [f1, f3, ho, hh]
  have hin : D.final (chunks.foldl D.update (D.update D.init ((key0 H D.blockLen key).map (· ^^^ 0x36))))
      = H ((key0 H D.blockLen key).map (· ^^^ 0x36) ++ chunks.flatten) := by
    have := hD (((key0 H D.blockLen key).map (· ^^^ 0x36)) :: chunks)
      (by simp only [List.flatten_cons, List.length_append, List.length_map]; omega)
    simpa using this
  rw [hin]
  have hout := hD [(key0 H D.blockLen key).map (· ^^^ 0x5c),
                    H ((key0 H D.blockLen key).map (· ^^^ 0x36) ++ chunks.flatten)]
    (by
      have := hr ((key0 H D.blockLen key).map (· ^^^ 0x36) ++ chunks.flatten)
      simp only [List.flatten_cons, List.flatten_nil, List.append_nil, List.length_append, List.length_map]
      omega)
  simpa using hout

/-- `hmac_reset` brings any used context back to the state `hmac_new` left it in -/
theorem reset_foldl (D : Digest δ) (key : Bytes) (chunks : List Bytes) :
    reset D (chunks.foldl (update D) (new D key)) = new D key := by
  obtain ⟨_, f2, f3⟩ := foldl_update_hash D chunks (new D key)
  unfold reset
  have e : ∀ c : Ctx δ, c.ipad = (new D key).ipad → c.opad = (new D key).opad →
      ({ c with hash := D.update D.init c.ipad } : Ctx δ) = new D key := by
    intro c h1 h2
    cases c
    simp only at h1 h2
    subst h1 h2
    rfl
  exact e _ f2 f3

end Usual.C05.Hmac
