import UsualProofs.C05.Sha3
/-! C05 helper lemmas for usual/crypto/keccak_prng.c. -/
namespace Usual.C05.Sha3
open Usual.C05.Keccak

variable (f : Bytes → Bytes)

/-- successive `keccak_prng_extract` calls; a refused call contributes nothing -/
def prngExtractMany : Prng → List Nat → Bytes × Prng
  | p, [] => ([], p)
  | p, n :: ns =>
    (((prngExtract f p n).1).getD [] ++ (prngExtractMany (prngExtract f p n).2 ns).1,
     (prngExtractMany (prngExtract f p n).2 ns).2)

/-- the context the output is squeezed from: padded once when extraction starts -/
def prngOutCtx (p : Prng) : Keccak.Ctx := if p.extracting then p.ctx else Keccak.pad f p.ctx [0x01]

theorem prngExtract_none (p : Prng) (n : Nat) (h : p.haveData = false) : prngExtract f p n = (none, p) := by
  unfold prngExtract; simp [h]

theorem prngExtract_some (p : Prng) (n : Nat) (h : p.haveData = true) :
    prngExtract f p n = (some (squeeze f (prngOutCtx f p) n).1,
      { ctx := (squeeze f (prngOutCtx f p) n).2, extracting := true, haveData := true }) := by
  unfold prngExtract prngOutCtx
  cases he : p.extracting <;> simp [h, he]

theorem prngExtractMany_eq (ns : List Nat) (p : Prng) (h : p.haveData = true) :
    (prngExtractMany f p ns).1 = (squeezeMany f (prngOutCtx f p) ns).1 := by
  induction ns generalizing p with
  | nil => rfl
  | cons n ns ih =>
    simp only [prngExtractMany, squeezeMany]
    rw [prngExtract_some f p n h]
    simp only [Option.getD_some]
    rw [ih _ rfl]
    rfl

theorem prngOutCtx_wf (p : Prng) (h : WF p.ctx) : WF (prngOutCtx f p) := by
  unfold prngOutCtx
  split
  · exact h
  · exact pad_wf f _ _ h

/-- any sequence of extract calls delivers one contiguous stream -/
theorem prng_stream (ns : List Nat) (p : Prng) (h : p.haveData = true) (hw : WF p.ctx) :
    (prngExtractMany f p ns).1 = (squeeze f (prngOutCtx f p) ns.sum).1 := by
  rw [prngExtractMany_eq f ns p h, squeezeMany_eq f ns _ (prngOutCtx_wf f p hw)]

theorem prngAddData_ctx (p : Prng) (data : Bytes) :
    (prngAddData f p data).ctx = absorb f (if p.extracting then rewind p.ctx else p.ctx) data ∧
    (prngAddData f p data).extracting = false ∧
    (prngAddData f p data).haveData = (p.haveData || decide (data.length > 0)) := by
  unfold prngAddData
  cases he : p.extracting <;> cases hd : p.haveData <;> by_cases hl : data.length > 0 <;> simp [he, hd, hl]

theorem prng_foldl_add (chunks : List Bytes) (p : Prng) (he : p.extracting = false) (hw : WF p.ctx) :
    (chunks.foldl (prngAddData f) p).ctx = absorb f p.ctx chunks.flatten ∧
    (chunks.foldl (prngAddData f) p).extracting = false ∧
    (chunks.foldl (prngAddData f) p).haveData = (p.haveData || decide (chunks.flatten.length > 0)) := by
  induction chunks generalizing p with
  | nil => exact ⟨by simp [absorb_nil f p.ctx hw], he, by simp⟩
  | cons x xs ih =>
    obtain ⟨a1, a2, a3⟩ := prngAddData_ctx f p x
    rw [he] at a1
    simp only [Bool.false_eq_true, ↓reduceIte] at a1
    have hw' : WF (prngAddData f p x).ctx := by rw [a1]; exact absorb_wf f _ _ hw
    obtain ⟨b1, b2, b3⟩ := ih (prngAddData f p x) a2 hw'
    simp only [List.foldl_cons, List.flatten_cons, List.length_append]
    refine ⟨?_, b2, ?_⟩
    · rw [b1, a1, absorb_absorb f p.ctx x _ hw]
    · rw [b3, a3]
      cases p.haveData <;> by_cases h1 : x.length > 0 <;> by_cases h2 : xs.flatten.length > 0 <;>
        simp [h1, h2] <;> omega

theorem prngInit_valid (cap : Nat) (h8 : cap % 8 = 0) (hlo : 8 ≤ cap) (hhi : cap ≤ 1592) :
    prngInit cap = some { ctx := { st := List.replicate 200 0, pos := 0, rbytes := (1600 - cap) / 8 },
                          extracting := false, haveData := false } := by
  unfold prngInit Keccak.init
  have hc : ¬ (cap % 8 ≠ 0 ∨ cap < 8 ∨ cap > 1600 - 8) := by omega
  simp only [if_neg hc, Option.map_some]

end Usual.C05.Sha3
