import Usual.C05.MDInst
/-! placeholder -/
