import UsualProofs.C05.VecA
import UsualProofs.C05.VecB
import UsualProofs.C05.VecC
import UsualProofs.C05.VecD
import UsualProofs.C05.VecE
import UsualProofs.C05.VecF
import UsualProofs.C05.VecG
import UsualProofs.C05.VecT
/-! C05 known-answer tests and constant-table checks, split over modules VecA … VecT so that
    lake checks them in parallel (each `decide +kernel` evaluates a model function inside the
    kernel).  These are TESTS of the transcription of the round functions and of the regenerated
    tables, not property theorems. -/
