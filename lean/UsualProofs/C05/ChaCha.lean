import Usual.C05.ChaCha
/-! C05 helper lemmas: the refill / copy / advance loops of chacha.c deliver exactly the
    key stream, for every block function with 64-byte output. -/
namespace Usual.C05.ChaCha

theorem ctrVal_lt (lo hi : UInt32) : ctrVal lo hi < 2 ^ 64 := by
  unfold ctrVal
  have h1 := lo.toNat_lt
  have h2 := hi.toNat_lt
  omega

theorem blockAt_ctrVal (bf : BlockFn) (lo hi : UInt32) : blockAt bf (ctrVal lo hi) = bf lo hi := by
  unfold blockAt ctrVal
  have h1 := lo.toNat_lt
  have h2 := hi.toNat_lt
  have e1 : (hi.toNat * 2 ^ 32 + lo.toNat) % 2 ^ 32 = lo.toNat := by omega
  have e2 : (hi.toNat * 2 ^ 32 + lo.toNat) / 2 ^ 32 % 2 ^ 32 = hi.toNat := by omega
  rw [e1, e2, UInt32.ofNat_toNat, UInt32.ofNat_toNat]

/-- `state[12]++; if (!state[12]) state[13]++;` is +1 on the 64-bit counter -/
theorem mix_ctr (bf : BlockFn) (s : Stream) :
    ctrVal (mix bf s).lo (mix bf s).hi = (ctrVal s.lo s.hi + 1) % 2 ^ 64 := by
  unfold mix ctrVal
  simp only
  have h1 := s.lo.toNat_lt
  have h2 := s.hi.toNat_lt
  have ha : (s.lo + 1).toNat = (s.lo.toNat + 1) % 2 ^ 32 := by
    rw [UInt32.toNat_add]; rfl
  have hb : (s.hi + 1).toNat = (s.hi.toNat + 1) % 2 ^ 32 := by
    rw [UInt32.toNat_add]; rfl
  by_cases hz : s.lo + 1 = 0
  · rw [if_pos hz]
    have h0 : (s.lo + 1).toNat = 0 := by rw [hz]; rfl
    rw [hb, h0]
    rw [h0] at ha
    omega
  · rw [if_neg hz]
    have h0 : (s.lo + 1).toNat ≠ 0 := by
      intro h
      apply hz
      apply UInt32.toNat_inj.mp
      rw [h]; rfl
    rw [ha] at h0 ⊢
    omega

theorem window_eq (l : Bytes) (p k : Nat) (h : p + k ≤ l.length) :
    (l.drop p).take k = (List.range k).map (fun j => l.getD (p + j) 0) := by
  apply List.ext_getElem
  · simp; omega
  · intro i h1 h2
    simp only [List.length_map, List.length_range] at h2
    simp only [List.getElem_take, List.getElem_drop, List.getElem_map, List.getElem_range]
    have hlt : p + i < l.length := by omega
    simp [List.getD_eq_getElem?_getD, hlt]

/-- relation between the C-side stream state and the abstract position: `c0` is the counter
    given to `chacha_set_nonce`, `o` the number of key stream bytes consumed since then -/
def Rel (bf : BlockFn) (c0 : Nat) (s : Stream) (o : Nat) : Prop :=
  s.pos ≤ 64 ∧
  (s.pos = 64 → o % 64 = 0 ∧ ctrVal s.lo s.hi = (c0 + o / 64) % 2 ^ 64) ∧
  (s.pos < 64 → o % 64 = s.pos ∧ s.out = blockAt bf ((c0 + o / 64) % 2 ^ 64) ∧
                 ctrVal s.lo s.hi = (c0 + o / 64 + 1) % 2 ^ 64)

/-- refill when exhausted: afterwards the buffer holds the block of the current offset -/
theorem rel_refill (bf : BlockFn) (c0 : Nat) (s : Stream) (o : Nat) (h : Rel bf c0 s o) :
    let s1 := if s.pos ≥ 64 then mix bf s else s
    Rel bf c0 s1 o ∧ s1.pos < 64 := by
  intro s1
  obtain ⟨h1, h2, h3⟩ := h
  by_cases hp : s.pos ≥ 64
  · have hp64 : s.pos = 64 := by omega
    obtain ⟨ho, hc⟩ := h2 hp64
    have hs1 : s1 = mix bf s := by simp only [s1, if_pos hp]
    have hpos : (mix bf s).pos = 0 := rfl
    have hout : (mix bf s).out = bf s.lo s.hi := rfl
    rw [hs1]
    refine ⟨⟨by rw [hpos]; omega, fun hh => by rw [hpos] at hh; omega, fun _ => ?_⟩, by rw [hpos]; omega⟩
    refine ⟨by rw [hpos]; exact ho, ?_, ?_⟩
    · rw [hout, ← hc, blockAt_ctrVal]
    · rw [mix_ctr, hc]; omega
  · have hs1 : s1 = s := by simp only [s1, if_neg hp]
    rw [hs1]
    exact ⟨⟨h1, h2, h3⟩, by omega⟩

/-- the bytes copied in one loop iteration are key stream bytes; the relation moves on -/
theorem rel_copy (bf : BlockFn) (hbf : ∀ lo hi, (bf lo hi).length = 64) (c0 : Nat) (s1 : Stream) (o k : Nat)
    (h : Rel bf c0 s1 o) (hp : s1.pos < 64) (hk : s1.pos + k ≤ 64) :
    (s1.out.drop s1.pos).take k = streamBytes bf c0 o k ∧
    Rel bf c0 { s1 with pos := s1.pos + k } (o + k) := by
  obtain ⟨h1, h2, h3⟩ := h
  obtain ⟨ho, hout, hc⟩ := h3 hp
  have hlen : s1.out.length = 64 := by
    rw [hout]; unfold blockAt; exact hbf _ _
  constructor
  · rw [window_eq _ _ _ (by omega)]
    unfold streamBytes
    apply List.map_congr_left
    intro j hj
    have hj' : j < k := List.mem_range.mp hj
    unfold streamByte
    have e1 : (o + j) / 64 = o / 64 := by omega
    have e2 : (o + j) % 64 = s1.pos + j := by omega
    rw [e1, e2, hout]
  · refine ⟨by simp only; omega, fun hh => ?_, fun hh => ?_⟩
    · simp only at hh
      have e1 : (o + k) / 64 = o / 64 + 1 := by omega
      refine ⟨by omega, ?_⟩
      simp only
      rw [hc, e1]; omega
    · simp only at hh
      have e1 : (o + k) / 64 = o / 64 := by omega
      simp only
      rw [e1]
      exact ⟨by omega, hout, hc⟩

theorem streamBytes_add (bf : BlockFn) (c0 o a b : Nat) :
    streamBytes bf c0 o (a + b) = streamBytes bf c0 o a ++ streamBytes bf c0 (o + a) b := by
  unfold streamBytes
  rw [List.range_add, List.map_append, List.map_map]
  congr 1
  apply List.map_congr_left
  intro j _
  simp only [Function.comp]
  congr 1; omega

theorem streamBytes_length (bf : BlockFn) (c0 o n : Nat) : (streamBytes bf c0 o n).length = n := by
  simp [streamBytes]

/-- `chacha_keystream` delivers the key stream bytes `o .. o+n-1` -/
theorem keystreamF_spec (bf : BlockFn) (hbf : ∀ lo hi, (bf lo hi).length = 64) (c0 : Nat) :
    ∀ (fuel : Nat) (s : Stream) (o n : Nat), Rel bf c0 s o → n ≤ fuel →
      (keystreamF bf fuel s n).1 = streamBytes bf c0 o n ∧ Rel bf c0 (keystreamF bf fuel s n).2 (o + n) := by
  intro fuel
  induction fuel with
  | zero =>
    intro s o n h hn
    have : n = 0 := by omega
    subst this
    exact ⟨by simp [keystreamF, streamBytes], by simpa [keystreamF] using h⟩
  | succ fuel ih =>
    intro s o n h hn
    unfold keystreamF
    by_cases hn0 : n = 0
    · subst hn0
      exact ⟨by simp [streamBytes], by simpa using h⟩
    · rw [if_neg hn0]
      obtain ⟨hr, hp⟩ := rel_refill bf c0 s o h
      simp only at hr hp ⊢
      generalize (if s.pos ≥ 64 then mix bf s else s) = s1 at hr hp ⊢
      generalize hk : (if n > 64 - s1.pos then 64 - s1.pos else n) = k
      have hk1 : 1 ≤ k := by rw [← hk]; split <;> omega
      have hk2 : k ≤ n := by rw [← hk]; split <;> omega
      have hk3 : s1.pos + k ≤ 64 := by rw [← hk]; split <;> omega
      obtain ⟨hc1, hc2⟩ := rel_copy bf hbf c0 s1 o k hr hp hk3
      obtain ⟨i1, i2⟩ := ih { s1 with pos := s1.pos + k } (o + k) (n - k) hc2 (by omega)
      constructor
      · rw [hc1, i1, ← streamBytes_add]; congr 1; omega
      · have e : o + n = o + k + (n - k) := by omega
        rw [e]; exact i2

theorem xorBytes_append (a b x y : Bytes) (h : a.length = x.length) :
    xorBytes (a ++ b) (x ++ y) = xorBytes a x ++ xorBytes b y := by
  unfold xorBytes
  exact List.zipWith_append h

/-- `chacha_keystream_xor` (repaired) delivers plaintext ⊕ key stream bytes `o .. o+len-1` -/
theorem keystreamXorF_spec (bf : BlockFn) (hbf : ∀ lo hi, (bf lo hi).length = 64) (c0 : Nat) :
    ∀ (fuel : Nat) (s : Stream) (o : Nat) (src : Bytes), Rel bf c0 s o → src.length ≤ fuel →
      (keystreamXorF bf fuel s src).1 = xorBytes src (streamBytes bf c0 o src.length) ∧
      Rel bf c0 (keystreamXorF bf fuel s src).2 (o + src.length) := by
  intro fuel
  induction fuel with
  | zero =>
    intro s o src h hn
    have : src = [] := List.length_eq_zero_iff.mp (by omega)
    subst this
    exact ⟨by simp [keystreamXorF, streamBytes, xorBytes], by simpa [keystreamXorF] using h⟩
  | succ fuel ih =>
    intro s o src h hn
    unfold keystreamXorF
    by_cases hn0 : src = []
    · subst hn0
      exact ⟨by simp [streamBytes, xorBytes], by simpa using h⟩
    · rw [if_neg hn0]
      have hsl : 0 < src.length := List.length_pos_iff.mpr hn0
      obtain ⟨hr, hp⟩ := rel_refill bf c0 s o h
      simp only at hr hp ⊢
      generalize (if s.pos ≥ 64 then mix bf s else s) = s1 at hr hp ⊢
      generalize hk : (if src.length > 64 - s1.pos then 64 - s1.pos else src.length) = k
      have hk1 : 1 ≤ k := by rw [← hk]; split <;> omega
      have hk2 : k ≤ src.length := by rw [← hk]; split <;> omega
      have hk3 : s1.pos + k ≤ 64 := by rw [← hk]; split <;> omega
      obtain ⟨hc1, hc2⟩ := rel_copy bf hbf c0 s1 o k hr hp hk3
      obtain ⟨i1, i2⟩ := ih { s1 with pos := s1.pos + k } (o + k) (src.drop k) hc2
        (by simp [List.length_drop]; omega)
      have hdl : (src.drop k).length = src.length - k := by simp
      constructor
      · rw [hc1, i1, hdl]
        have e : src.length = k + (src.length - k) := by omega
        conv => rhs; rw [e, streamBytes_add, ← List.take_append_drop k src]
        rw [xorBytes_append _ _ _ _ (by simp [streamBytes_length]; omega)]
        simp
      · have e : o + src.length = o + k + (src.drop k).length := by rw [hdl]; omega
        rw [e]; exact i2

/-- right after `chacha_set_nonce(ctx, lo, hi, …)` -/
theorem rel_start (bf : BlockFn) (s : Stream) (h : s.pos = 64) : Rel bf (ctrVal s.lo s.hi) s 0 := by
  refine ⟨by omega, fun _ => ⟨by omega, ?_⟩, fun hh => by omega⟩
  have := ctrVal_lt s.lo s.hi
  simp only [Nat.zero_div, Nat.add_zero]
  rw [Nat.mod_eq_of_lt this]

/-- several `chacha_keystream` calls in a row -/
def ksMany (bf : BlockFn) : Stream → List Nat → Bytes × Stream
  | s, [] => ([], s)
  | s, n :: ns => ((keystream bf s n).1 ++ (ksMany bf (keystream bf s n).2 ns).1, (ksMany bf (keystream bf s n).2 ns).2)

/-- several `chacha_keystream_xor` calls in a row -/
def xorMany (bf : BlockFn) : Stream → List Bytes → Bytes × Stream
  | s, [] => ([], s)
  | s, x :: xs => ((keystreamXor bf s x).1 ++ (xorMany bf (keystreamXor bf s x).2 xs).1,
                  (xorMany bf (keystreamXor bf s x).2 xs).2)

theorem ksMany_spec (bf : BlockFn) (hbf : ∀ lo hi, (bf lo hi).length = 64) (c0 : Nat) :
    ∀ (ns : List Nat) (s : Stream) (o : Nat), Rel bf c0 s o →
      (ksMany bf s ns).1 = streamBytes bf c0 o ns.sum ∧ Rel bf c0 (ksMany bf s ns).2 (o + ns.sum) := by
  intro ns
  induction ns with
  | nil => intro s o h; exact ⟨by simp [ksMany, streamBytes], by simpa [ksMany] using h⟩
  | cons n ns ih =>
    intro s o h
    obtain ⟨a1, a2⟩ := keystreamF_spec bf hbf c0 (n + 1) s o n h (by omega)
    obtain ⟨b1, b2⟩ := ih (keystream bf s n).2 (o + n) a2
    simp only [ksMany, List.sum_cons]
    constructor
    · rw [b1]; unfold keystream; rw [a1, ← streamBytes_add]
    · rw [← Nat.add_assoc]; exact b2

theorem xorMany_spec (bf : BlockFn) (hbf : ∀ lo hi, (bf lo hi).length = 64) (c0 : Nat) :
    ∀ (xs : List Bytes) (s : Stream) (o : Nat), Rel bf c0 s o →
      (xorMany bf s xs).1 = xorBytes xs.flatten (streamBytes bf c0 o xs.flatten.length) ∧
      Rel bf c0 (xorMany bf s xs).2 (o + xs.flatten.length) := by
  intro xs
  induction xs with
  | nil => intro s o h; exact ⟨by simp [xorMany, streamBytes, xorBytes], by simpa [xorMany] using h⟩
  | cons x xs ih =>
    intro s o h
    obtain ⟨a1, a2⟩ := keystreamXorF_spec bf hbf c0 (x.length + 1) s o x h (by omega)
    obtain ⟨b1, b2⟩ := ih (keystreamXor bf s x).2 (o + x.length) a2
    simp only [xorMany, List.flatten_cons, List.length_append]
    constructor
    · rw [b1]; unfold keystreamXor; rw [a1, streamBytes_add]
      rw [xorBytes_append _ _ _ _ (by simp [streamBytes_length])]
    · rw [← Nat.add_assoc]; exact b2

end Usual.C05.ChaCha
