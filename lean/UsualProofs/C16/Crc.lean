import Usual.C16.Crc32
/-! C16 — CRC-32: the table-driven step equals eight steps of the bit-level division.
Helper lemmas for `UsualProofs/Props/C16.lean`. -/
namespace UsualProofs.C16.Crc
open Usual.C16.Crc32

/-- every entry of the table regenerated from crc32.c is the bit-level remainder of its index
(256 cases, checked by the kernel) -/
theorem tab_ok : ∀ i : Fin 256, tab i.val = bit8 (UInt32.ofNat i.val) := by
  decide +kernel


theorem and1_toNat (x : UInt32) : (x &&& 1).toNat = x.toNat % 2 := by
  rw [UInt32.toNat_and]; exact Nat.and_one_is_mod _

theorem and1_cases (x : UInt32) : x &&& 1 = 0 ∨ x &&& 1 = 1 := by
  have h := and1_toNat x
  rcases Nat.mod_two_eq_zero_or_one x.toNat with h0 | h1
  · left; apply UInt32.toNat_inj.mp; rw [h, h0]; rfl
  · right; apply UInt32.toNat_inj.mp; rw [h, h1]; rfl

theorem xor_cancel4 (x y p : UInt32) : x ^^^ p ^^^ (y ^^^ p) = x ^^^ y := by
  have : x ^^^ p ^^^ (y ^^^ p) = x ^^^ y ^^^ (p ^^^ p) := by ac_rfl
  rw [this]; simp

theorem bitStep_xor (a b : UInt32) : bitStep (a ^^^ b) = bitStep a ^^^ bitStep b := by
  unfold bitStep
  have hx : (a ^^^ b) &&& 1 = (a &&& 1) ^^^ (b &&& 1) := by
    apply UInt32.toNat_inj.mp
    rw [UInt32.toNat_and, UInt32.toNat_xor, UInt32.toNat_xor, UInt32.toNat_and, UInt32.toNat_and]
    exact Nat.and_xor_distrib_right
  have hs : (a ^^^ b) >>> 1 = (a >>> 1) ^^^ (b >>> 1) := UInt32.shiftRight_xor ..
  rw [hx, hs]
  rcases and1_cases a with ha | ha <;> rcases and1_cases b with hb | hb <;> simp [ha, hb]
  · ac_rfl
  · ac_rfl
  · exact (xor_cancel4 ..).symm

theorem bit8_xor (a b : UInt32) : bit8 (a ^^^ b) = bit8 a ^^^ bit8 b := by
  simp [bit8, bitStep_xor]

theorem bitStep_even (x : UInt32) (h : x.toNat % 2 = 0) :
    bitStep x = x >>> 1 := by
  have : x &&& 1 = 0 := by apply UInt32.toNat_inj.mp; rw [and1_toNat, h]; rfl
  simp [bitStep, this]

theorem shr1_toNat (x : UInt32) : (x >>> 1).toNat = x.toNat / 2 := by
  rw [UInt32.toNat_shiftRight]; simp [Nat.shiftRight_eq_div_pow]

/-- one step on a value with `k+1` clear low bits -/
theorem step_clear (x : UInt32) (m : Nat) (h : x.toNat % (2 * m) = 0) :
    ∃ y : UInt32, bitStep x = y ∧ y.toNat = x.toNat / 2 ∧ y.toNat % m = 0 := by
  refine ⟨x >>> 1, bitStep_even x ?_, shr1_toNat x, ?_⟩
  · have : x.toNat % (2 * m) % 2 = x.toNat % 2 := Nat.mod_mul_right_mod ..
    omega
  · rw [shr1_toNat]
    have := Nat.mod_mul_right_div_self x.toNat 2 m
    omega

theorem bit8_of_low_clear (x : UInt32) (h : x.toNat % 256 = 0) : bit8 x = x >>> 8 := by
  obtain ⟨y1, e1, n1, c1⟩ := step_clear x 128 h
  obtain ⟨y2, e2, n2, c2⟩ := step_clear y1 64 c1
  obtain ⟨y3, e3, n3, c3⟩ := step_clear y2 32 c2
  obtain ⟨y4, e4, n4, c4⟩ := step_clear y3 16 c3
  obtain ⟨y5, e5, n5, c5⟩ := step_clear y4 8 c4
  obtain ⟨y6, e6, n6, c6⟩ := step_clear y5 4 c5
  obtain ⟨y7, e7, n7, c7⟩ := step_clear y6 2 c6
  obtain ⟨y8, e8, n8, c8⟩ := step_clear y7 1 c7
  unfold bit8
  rw [e1, e2, e3, e4, e5, e6, e7, e8]
  apply UInt32.toNat_inj.mp
  rw [UInt32.toNat_shiftRight]
  have h8 : (8 : UInt32).toNat % 32 = 8 := by decide
  rw [h8, Nat.shiftRight_eq_div_pow]
  clear h8 e1 e2 e3 e4 e5 e6 e7 e8 c1 c2 c3 c4 c5 c6 c7 c8 h
  rw [n8, n7, n6, n5, n4, n3, n2, n1]
  generalize x.toNat = n
  omega

theorem split_lo_hi (x : UInt32) : x = (x &&& 0xFF) ^^^ (x &&& 0xFFFFFF00) := by
  apply UInt32.toNat_inj.mp
  rw [UInt32.toNat_xor, UInt32.toNat_and, UInt32.toNat_and, ← Nat.and_xor_distrib_left]
  have : (255 : UInt32).toNat ^^^ (4294967040 : UInt32).toNat = 2 ^ 32 - 1 := by decide
  rw [this, Nat.and_two_pow_sub_one_eq_mod]
  exact (Nat.mod_eq_of_lt x.toNat_lt).symm

theorem hi_low_clear (x : UInt32) : (x &&& 0xFFFFFF00).toNat % 256 = 0 := by
  rw [UInt32.toNat_and]
  have : (256 : Nat) = 2 ^ 8 := rfl
  rw [this, Nat.and_mod_two_pow]
  have : (4294967040 : UInt32).toNat % 2 ^ 8 = 0 := by decide
  rw [this]; simp

theorem hi_shr (x : UInt32) : (x &&& 0xFFFFFF00) >>> 8 = x >>> 8 := by
  apply UInt32.toNat_inj.mp
  rw [UInt32.toNat_shiftRight, UInt32.toNat_shiftRight, UInt32.toNat_and, Nat.shiftRight_and_distrib]
  have : (4294967040 : UInt32).toNat >>> ((8 : UInt32).toNat % 32) = 2 ^ 24 - 1 := by decide
  rw [this, Nat.and_two_pow_sub_one_eq_mod]
  apply Nat.mod_eq_of_lt
  have := x.toNat_lt
  simp [Nat.shiftRight_eq_div_pow]
  omega

theorem byte_shr8 (c : UInt8) : c.toUInt32 >>> 8 = 0 := by
  apply UInt32.toNat_inj.mp
  rw [UInt32.toNat_shiftRight]
  have := c.toNat_lt
  simp [Nat.shiftRight_eq_div_pow]
  omega

theorem lo_lt (x : UInt32) : (x &&& 0xFF).toNat < 256 := by
  rw [UInt32.toNat_and]
  have : (255 : UInt32).toNat = 2 ^ 8 - 1 := by decide
  rw [this, Nat.and_two_pow_sub_one_eq_mod]
  exact Nat.mod_lt _ (by decide)

/-- `crc_tab[(prev ^ c) & 0xFF] ^ (prev >> 8)` is eight bit-steps on `prev ^ c` -/
theorem step_eq_bitwise (prev : UInt32) (c : UInt8) : step prev c = bitwiseByte prev c := by
  unfold step bitwiseByte
  have hx := split_lo_hi (prev ^^^ c.toUInt32)
  have hlo := tab_ok ⟨((prev ^^^ c.toUInt32) &&& 0xFF).toNat, lo_lt _⟩
  simp only [UInt32.ofNat_toNat] at hlo
  conv => rhs; rw [hx, bit8_xor, bit8_of_low_clear _ (hi_low_clear _), hi_shr]
  rw [hlo, UInt32.shiftRight_xor, byte_shr8]
  simp

theorem foldl_step_eq (data : List UInt8) (s : UInt32) :
    data.foldl step s = data.foldl bitwiseByte s := by
  induction data generalizing s with
  | nil => rfl
  | cons c cs ih => simp only [List.foldl_cons, step_eq_bitwise, ih]

end UsualProofs.C16.Crc
