import Usual.C16.SipHash
import Usual.C16.SipHashPaper
/-! C16 — the primitives of the siphash.c model (SIP_ROUND1 in the statement order of the macro,
hexadecimal initialisation constants, 2 and 4 rounds unrolled) are those of the paper
(`Usual.C16.SipHashPaper`: SipRound in the order of the paper's listing, constants computed from
the ASCII string, `c`/`d` iterations). -/
namespace UsualProofs.C16.SipPaper
open Usual.C16

def toP (s : SipHash.St) : SipHashPaper.State := ⟨s.v0, s.v1, s.v2, s.v3⟩

/-- SIP_ROUND1 = SipRound (the two listings order the independent statements differently) -/
theorem round_eq (s : SipHash.St) : toP (SipHash.round s) = SipHashPaper.sipRound (toP s) := rfl

theorem compress_eq (s : SipHash.St) (m : UInt64) :
    toP (SipHash.compress s m) = SipHashPaper.compress 2 (toP s) m := rfl

theorem finalize_eq (s : SipHash.St) : SipHash.finalize s = SipHashPaper.finalize 4 (toP s) := rfl

/-- the initialisation constants are "somepseudorandomlygeneratedbytes", big-endian -/
theorem init_consts :
    SipHashPaper.be64 SipHashPaper.initString 0 = 0x736f6d6570736575 ∧
    SipHashPaper.be64 SipHashPaper.initString 1 = 0x646f72616e646f6d ∧
    SipHashPaper.be64 SipHashPaper.initString 2 = 0x6c7967656e657261 ∧
    SipHashPaper.be64 SipHashPaper.initString 3 = 0x7465646279746573 := by decide +kernel

theorem init_eq (k0 k1 : UInt64) : toP (SipHash.init k0 k1) = SipHashPaper.init k0 k1 := by
  obtain ⟨h0, h1, h2, h3⟩ := init_consts
  unfold SipHashPaper.init
  rw [h0, h1, h2, h3]
  rfl

theorem words_eq (n : Nat) (l : List UInt8) : SipHash.words n l = SipHashPaper.words n l := by
  induction n generalizing l with
  | zero => rfl
  | succ n ih => simp only [SipHash.words, SipHashPaper.words, ih]

theorem foldl_eq (l : List UInt64) (s : SipHash.St) :
    toP (l.foldl SipHash.compress s) = l.foldl (SipHashPaper.compress 2) (toP s) := by
  induction l generalizing s with
  | nil => rfl
  | cons m ms ih => simp only [List.foldl_cons, ih, compress_eq]

/-- the structural spec of the model file = SipHash-2-4 of the paper -/
theorem spec_eq_paper (data : List UInt8) (k0 k1 : UInt64) :
    SipHash.siphash24Spec data k0 k1 = SipHashPaper.siphash24 k0 k1 data := by
  unfold SipHash.siphash24Spec SipHashPaper.siphash24 SipHashPaper.siphash
  rw [finalize_eq, foldl_eq, init_eq, words_eq]
  rfl

end UsualProofs.C16.SipPaper
