import Usual.C16.Spooky
import Usual.C16.SpookyV2
import UsualProofs.C16.Spk
/-! C16 — the model of usual/hashing/spooky.c (`Usual.C16.Spooky`, macros transcribed statement by
statement) equals the published SpookyHash V2 written in array/index form
(`Usual.C16.SpookyV2`).  Each macro line is one row of the published loops; the rows are
matched one by one (`*_row*` lemmas), then the loops, then Short and the long path. -/
set_option maxRecDepth 8000
namespace UsualProofs.C16.SpkPub
open Usual.C16 Usual.C16.Spooky

def toL4 (s : S4) : List UInt64 := [s.h0, s.h1, s.h2, s.h3]
def toL (s : S12) : List UInt64 :=
  [s.h0, s.h1, s.h2, s.h3, s.h4, s.h5, s.h6, s.h7, s.h8, s.h9, s.h10, s.h11]

theorem foldl_range12 {α : Type} (f : α → Nat → α) (h : α) :
    (List.range 12).foldl f h = f (f (f (f (f (f (f (f (f (f (f (f h 0) 1) 2) 3) 4) 5) 6) 7) 8) 9) 10) 11 := rfl
theorem foldl_range11 {α : Type} (f : α → Nat → α) (h : α) :
    (List.range 11).foldl f h = f (f (f (f (f (f (f (f (f (f (f h 0) 1) 2) 3) 4) 5) 6) 7) 8) 9) 10 := rfl

/-! ### the macro lines as functions (one per line of the macros in spooky.c) -/

/-- `s0 += data[0]; s2 ^= s10; s11 ^= s0; s0 = rol64(s0,11); s11 += s1;` -/
def mixLine0 (s : S12) (d : UInt64) : S12 :=
  let x0 := s.h0 + d
  let x2 := s.h2 ^^^ s.h10
  let x11 := s.h11 ^^^ x0
  let x0 := rol64 x0 11
  let x11 := x11 + s.h1
  { s with h0 := x0, h2 := x2, h11 := x11 }

/-- `s1 += data[1]; s3 ^= s11; s0 ^= s1; s1 = rol64(s1,32); s0 += s2;` -/
def mixLine1 (s : S12) (d : UInt64) : S12 :=
  let x1 := s.h1 + d
  let x3 := s.h3 ^^^ s.h11
  let x0 := s.h0 ^^^ x1
  let x1 := rol64 x1 32
  let x0 := x0 + s.h2
  { s with h0 := x0, h1 := x1, h3 := x3 }

/-- `s2 += data[2]; s4 ^= s0; s1 ^= s2; s2 = rol64(s2,43); s1 += s3;` -/
def mixLine2 (s : S12) (d : UInt64) : S12 :=
  let x2 := s.h2 + d
  let x4 := s.h4 ^^^ s.h0
  let x1 := s.h1 ^^^ x2
  let x2 := rol64 x2 43
  let x1 := x1 + s.h3
  { s with h1 := x1, h2 := x2, h4 := x4 }

/-- `s3 += data[3]; s5 ^= s1; s2 ^= s3; s3 = rol64(s3,31); s2 += s4;` -/
def mixLine3 (s : S12) (d : UInt64) : S12 :=
  let x3 := s.h3 + d
  let x5 := s.h5 ^^^ s.h1
  let x2 := s.h2 ^^^ x3
  let x3 := rol64 x3 31
  let x2 := x2 + s.h4
  { s with h2 := x2, h3 := x3, h5 := x5 }

/-- `s4 += data[4]; s6 ^= s2; s3 ^= s4; s4 = rol64(s4,17); s3 += s5;` -/
def mixLine4 (s : S12) (d : UInt64) : S12 :=
  let x4 := s.h4 + d
  let x6 := s.h6 ^^^ s.h2
  let x3 := s.h3 ^^^ x4
  let x4 := rol64 x4 17
  let x3 := x3 + s.h5
  { s with h3 := x3, h4 := x4, h6 := x6 }

/-- `s5 += data[5]; s7 ^= s3; s4 ^= s5; s5 = rol64(s5,28); s4 += s6;` -/
def mixLine5 (s : S12) (d : UInt64) : S12 :=
  let x5 := s.h5 + d
  let x7 := s.h7 ^^^ s.h3
  let x4 := s.h4 ^^^ x5
  let x5 := rol64 x5 28
  let x4 := x4 + s.h6
  { s with h4 := x4, h5 := x5, h7 := x7 }

/-- `s6 += data[6]; s8 ^= s4; s5 ^= s6; s6 = rol64(s6,39); s5 += s7;` -/
def mixLine6 (s : S12) (d : UInt64) : S12 :=
  let x6 := s.h6 + d
  let x8 := s.h8 ^^^ s.h4
  let x5 := s.h5 ^^^ x6
  let x6 := rol64 x6 39
  let x5 := x5 + s.h7
  { s with h5 := x5, h6 := x6, h8 := x8 }

/-- `s7 += data[7]; s9 ^= s5; s6 ^= s7; s7 = rol64(s7,57); s6 += s8;` -/
def mixLine7 (s : S12) (d : UInt64) : S12 :=
  let x7 := s.h7 + d
  let x9 := s.h9 ^^^ s.h5
  let x6 := s.h6 ^^^ x7
  let x7 := rol64 x7 57
  let x6 := x6 + s.h8
  { s with h6 := x6, h7 := x7, h9 := x9 }

/-- `s8 += data[8]; s10 ^= s6; s7 ^= s8; s8 = rol64(s8,55); s7 += s9;` -/
def mixLine8 (s : S12) (d : UInt64) : S12 :=
  let x8 := s.h8 + d
  let x10 := s.h10 ^^^ s.h6
  let x7 := s.h7 ^^^ x8
  let x8 := rol64 x8 55
  let x7 := x7 + s.h9
  { s with h7 := x7, h8 := x8, h10 := x10 }

/-- `s9 += data[9]; s11 ^= s7; s8 ^= s9; s9 = rol64(s9,54); s8 += s10;` -/
def mixLine9 (s : S12) (d : UInt64) : S12 :=
  let x9 := s.h9 + d
  let x11 := s.h11 ^^^ s.h7
  let x8 := s.h8 ^^^ x9
  let x9 := rol64 x9 54
  let x8 := x8 + s.h10
  { s with h8 := x8, h9 := x9, h11 := x11 }

/-- `s10 += data[10]; s0 ^= s8; s9 ^= s10; s10 = rol64(s10,22); s9 += s11;` -/
def mixLine10 (s : S12) (d : UInt64) : S12 :=
  let x10 := s.h10 + d
  let x0 := s.h0 ^^^ s.h8
  let x9 := s.h9 ^^^ x10
  let x10 := rol64 x10 22
  let x9 := x9 + s.h11
  { s with h0 := x0, h9 := x9, h10 := x10 }

/-- `s11 += data[11]; s1 ^= s9; s10 ^= s11; s11 = rol64(s11,46); s10 += s0;` -/
def mixLine11 (s : S12) (d : UInt64) : S12 :=
  let x11 := s.h11 + d
  let x1 := s.h1 ^^^ s.h9
  let x10 := s.h10 ^^^ x11
  let x11 := rol64 x11 46
  let x10 := x10 + s.h0
  { s with h1 := x1, h10 := x10, h11 := x11 }

/-- the `Mix` macro is its 12 lines in sequence -/
theorem mix_lines (s : S12) (p : List UInt8) :
    Spooky.mix s p = (mixLine11 (mixLine10 (mixLine9 (mixLine8 (mixLine7 (mixLine6 (mixLine5 (mixLine4 (mixLine3 (mixLine2 (mixLine1 (mixLine0 s (w64 p 0)) (w64 p 1)) (w64 p 2)) (w64 p 3)) (w64 p 4)) (w64 p 5)) (w64 p 6)) (w64 p 7)) (w64 p 8)) (w64 p 9)) (w64 p 10)) (w64 p 11)) := rfl

theorem mix_row0 (d : List UInt64) (s : S12) :
    SpookyV2.mixRow d (toL s) 0 = toL (mixLine0 s (SpookyV2.g d 0)) := rfl
theorem mix_row1 (d : List UInt64) (s : S12) :
    SpookyV2.mixRow d (toL s) 1 = toL (mixLine1 s (SpookyV2.g d 1)) := rfl
theorem mix_row2 (d : List UInt64) (s : S12) :
    SpookyV2.mixRow d (toL s) 2 = toL (mixLine2 s (SpookyV2.g d 2)) := rfl
theorem mix_row3 (d : List UInt64) (s : S12) :
    SpookyV2.mixRow d (toL s) 3 = toL (mixLine3 s (SpookyV2.g d 3)) := rfl
theorem mix_row4 (d : List UInt64) (s : S12) :
    SpookyV2.mixRow d (toL s) 4 = toL (mixLine4 s (SpookyV2.g d 4)) := rfl
theorem mix_row5 (d : List UInt64) (s : S12) :
    SpookyV2.mixRow d (toL s) 5 = toL (mixLine5 s (SpookyV2.g d 5)) := rfl
theorem mix_row6 (d : List UInt64) (s : S12) :
    SpookyV2.mixRow d (toL s) 6 = toL (mixLine6 s (SpookyV2.g d 6)) := rfl
theorem mix_row7 (d : List UInt64) (s : S12) :
    SpookyV2.mixRow d (toL s) 7 = toL (mixLine7 s (SpookyV2.g d 7)) := rfl
theorem mix_row8 (d : List UInt64) (s : S12) :
    SpookyV2.mixRow d (toL s) 8 = toL (mixLine8 s (SpookyV2.g d 8)) := rfl
theorem mix_row9 (d : List UInt64) (s : S12) :
    SpookyV2.mixRow d (toL s) 9 = toL (mixLine9 s (SpookyV2.g d 9)) := rfl
theorem mix_row10 (d : List UInt64) (s : S12) :
    SpookyV2.mixRow d (toL s) 10 = toL (mixLine10 s (SpookyV2.g d 10)) := rfl
theorem mix_row11 (d : List UInt64) (s : S12) :
    SpookyV2.mixRow d (toL s) 11 = toL (mixLine11 s (SpookyV2.g d 11)) := rfl

theorem mix_spec (d : List UInt64) (s : S12) :
    SpookyV2.mix d (toL s) = toL (mixLine11 (mixLine10 (mixLine9 (mixLine8 (mixLine7 (mixLine6 (mixLine5 (mixLine4 (mixLine3 (mixLine2 (mixLine1 (mixLine0 s (SpookyV2.g d 0)) (SpookyV2.g d 1)) (SpookyV2.g d 2)) (SpookyV2.g d 3)) (SpookyV2.g d 4)) (SpookyV2.g d 5)) (SpookyV2.g d 6)) (SpookyV2.g d 7)) (SpookyV2.g d 8)) (SpookyV2.g d 9)) (SpookyV2.g d 10)) (SpookyV2.g d 11)) := by
  unfold SpookyV2.mix
  rw [foldl_range12, mix_row0, mix_row1, mix_row2, mix_row3, mix_row4, mix_row5, mix_row6, mix_row7, mix_row8, mix_row9, mix_row10, mix_row11]

/-- `h11+= h1; h2 ^= h11; h1 = rol64(h1,44);` -/
def endPartialLine0 (s : S12) : S12 :=
  let x11 := s.h11 + s.h1
  let x2 := s.h2 ^^^ x11
  let x1 := rol64 s.h1 44
  { s with h1 := x1, h2 := x2, h11 := x11 }

/-- `h0 += h2; h3 ^= h0; h2 = rol64(h2,15);` -/
def endPartialLine1 (s : S12) : S12 :=
  let x0 := s.h0 + s.h2
  let x3 := s.h3 ^^^ x0
  let x2 := rol64 s.h2 15
  { s with h0 := x0, h2 := x2, h3 := x3 }

/-- `h1 += h3; h4 ^= h1; h3 = rol64(h3,34);` -/
def endPartialLine2 (s : S12) : S12 :=
  let x1 := s.h1 + s.h3
  let x4 := s.h4 ^^^ x1
  let x3 := rol64 s.h3 34
  { s with h1 := x1, h3 := x3, h4 := x4 }

/-- `h2 += h4; h5 ^= h2; h4 = rol64(h4,21);` -/
def endPartialLine3 (s : S12) : S12 :=
  let x2 := s.h2 + s.h4
  let x5 := s.h5 ^^^ x2
  let x4 := rol64 s.h4 21
  { s with h2 := x2, h4 := x4, h5 := x5 }

/-- `h3 += h5; h6 ^= h3; h5 = rol64(h5,38);` -/
def endPartialLine4 (s : S12) : S12 :=
  let x3 := s.h3 + s.h5
  let x6 := s.h6 ^^^ x3
  let x5 := rol64 s.h5 38
  { s with h3 := x3, h5 := x5, h6 := x6 }

/-- `h4 += h6; h7 ^= h4; h6 = rol64(h6,33);` -/
def endPartialLine5 (s : S12) : S12 :=
  let x4 := s.h4 + s.h6
  let x7 := s.h7 ^^^ x4
  let x6 := rol64 s.h6 33
  { s with h4 := x4, h6 := x6, h7 := x7 }

/-- `h5 += h7; h8 ^= h5; h7 = rol64(h7,10);` -/
def endPartialLine6 (s : S12) : S12 :=
  let x5 := s.h5 + s.h7
  let x8 := s.h8 ^^^ x5
  let x7 := rol64 s.h7 10
  { s with h5 := x5, h7 := x7, h8 := x8 }

/-- `h6 += h8; h9 ^= h6; h8 = rol64(h8,13);` -/
def endPartialLine7 (s : S12) : S12 :=
  let x6 := s.h6 + s.h8
  let x9 := s.h9 ^^^ x6
  let x8 := rol64 s.h8 13
  { s with h6 := x6, h8 := x8, h9 := x9 }

/-- `h7 += h9; h10^= h7; h9 = rol64(h9,38);` -/
def endPartialLine8 (s : S12) : S12 :=
  let x7 := s.h7 + s.h9
  let x10 := s.h10 ^^^ x7
  let x9 := rol64 s.h9 38
  { s with h7 := x7, h9 := x9, h10 := x10 }

/-- `h8 += h10; h11^= h8; h10= rol64(h10,53);` -/
def endPartialLine9 (s : S12) : S12 :=
  let x8 := s.h8 + s.h10
  let x11 := s.h11 ^^^ x8
  let x10 := rol64 s.h10 53
  { s with h8 := x8, h10 := x10, h11 := x11 }

/-- `h9 += h11; h0 ^= h9; h11= rol64(h11,42);` -/
def endPartialLine10 (s : S12) : S12 :=
  let x9 := s.h9 + s.h11
  let x0 := s.h0 ^^^ x9
  let x11 := rol64 s.h11 42
  { s with h0 := x0, h9 := x9, h11 := x11 }

/-- `h10+= h0; h1 ^= h10; h0 = rol64(h0,54);` -/
def endPartialLine11 (s : S12) : S12 :=
  let x10 := s.h10 + s.h0
  let x1 := s.h1 ^^^ x10
  let x0 := rol64 s.h0 54
  { s with h0 := x0, h1 := x1, h10 := x10 }

/-- the `EndPartial` macro is its 12 lines in sequence -/
theorem endPartial_lines (s : S12) :
    Spooky.endPartial s = (endPartialLine11 (endPartialLine10 (endPartialLine9 (endPartialLine8 (endPartialLine7 (endPartialLine6 (endPartialLine5 (endPartialLine4 (endPartialLine3 (endPartialLine2 (endPartialLine1 (endPartialLine0 s)))))))))))) := rfl

theorem endPartial_row0 (s : S12) :
    SpookyV2.endPartialRow (toL s) 0 = toL (endPartialLine0 s) := rfl
theorem endPartial_row1 (s : S12) :
    SpookyV2.endPartialRow (toL s) 1 = toL (endPartialLine1 s) := rfl
theorem endPartial_row2 (s : S12) :
    SpookyV2.endPartialRow (toL s) 2 = toL (endPartialLine2 s) := rfl
theorem endPartial_row3 (s : S12) :
    SpookyV2.endPartialRow (toL s) 3 = toL (endPartialLine3 s) := rfl
theorem endPartial_row4 (s : S12) :
    SpookyV2.endPartialRow (toL s) 4 = toL (endPartialLine4 s) := rfl
theorem endPartial_row5 (s : S12) :
    SpookyV2.endPartialRow (toL s) 5 = toL (endPartialLine5 s) := rfl
theorem endPartial_row6 (s : S12) :
    SpookyV2.endPartialRow (toL s) 6 = toL (endPartialLine6 s) := rfl
theorem endPartial_row7 (s : S12) :
    SpookyV2.endPartialRow (toL s) 7 = toL (endPartialLine7 s) := rfl
theorem endPartial_row8 (s : S12) :
    SpookyV2.endPartialRow (toL s) 8 = toL (endPartialLine8 s) := rfl
theorem endPartial_row9 (s : S12) :
    SpookyV2.endPartialRow (toL s) 9 = toL (endPartialLine9 s) := rfl
theorem endPartial_row10 (s : S12) :
    SpookyV2.endPartialRow (toL s) 10 = toL (endPartialLine10 s) := rfl
theorem endPartial_row11 (s : S12) :
    SpookyV2.endPartialRow (toL s) 11 = toL (endPartialLine11 s) := rfl

/-- published `EndPartial` (index form) = the macro of spooky.c -/
theorem endPartial_eq (s : S12) :
    SpookyV2.endPartial (toL s) = toL (Spooky.endPartial s) := by
  unfold SpookyV2.endPartial
  rw [foldl_range12, endPartial_row0, endPartial_row1, endPartial_row2, endPartial_row3, endPartial_row4, endPartial_row5, endPartial_row6, endPartial_row7, endPartial_row8, endPartial_row9, endPartial_row10, endPartial_row11, endPartial_lines]

/-- `h2 = rol64(h2,50); h2 += h3; h0 ^= h2;` -/
def shortMixLine0 (s : S4) : S4 :=
  let x2 := rol64 s.h2 50
  let x2 := x2 + s.h3
  let x0 := s.h0 ^^^ x2
  { s with h0 := x0, h2 := x2 }

/-- `h3 = rol64(h3,52); h3 += h0; h1 ^= h3;` -/
def shortMixLine1 (s : S4) : S4 :=
  let x3 := rol64 s.h3 52
  let x3 := x3 + s.h0
  let x1 := s.h1 ^^^ x3
  { s with h1 := x1, h3 := x3 }

/-- `h0 = rol64(h0,30); h0 += h1; h2 ^= h0;` -/
def shortMixLine2 (s : S4) : S4 :=
  let x0 := rol64 s.h0 30
  let x0 := x0 + s.h1
  let x2 := s.h2 ^^^ x0
  { s with h0 := x0, h2 := x2 }

/-- `h1 = rol64(h1,41); h1 += h2; h3 ^= h1;` -/
def shortMixLine3 (s : S4) : S4 :=
  let x1 := rol64 s.h1 41
  let x1 := x1 + s.h2
  let x3 := s.h3 ^^^ x1
  { s with h1 := x1, h3 := x3 }

/-- `h2 = rol64(h2,54); h2 += h3; h0 ^= h2;` -/
def shortMixLine4 (s : S4) : S4 :=
  let x2 := rol64 s.h2 54
  let x2 := x2 + s.h3
  let x0 := s.h0 ^^^ x2
  { s with h0 := x0, h2 := x2 }

/-- `h3 = rol64(h3,48); h3 += h0; h1 ^= h3;` -/
def shortMixLine5 (s : S4) : S4 :=
  let x3 := rol64 s.h3 48
  let x3 := x3 + s.h0
  let x1 := s.h1 ^^^ x3
  { s with h1 := x1, h3 := x3 }

/-- `h0 = rol64(h0,38); h0 += h1; h2 ^= h0;` -/
def shortMixLine6 (s : S4) : S4 :=
  let x0 := rol64 s.h0 38
  let x0 := x0 + s.h1
  let x2 := s.h2 ^^^ x0
  { s with h0 := x0, h2 := x2 }

/-- `h1 = rol64(h1,37); h1 += h2; h3 ^= h1;` -/
def shortMixLine7 (s : S4) : S4 :=
  let x1 := rol64 s.h1 37
  let x1 := x1 + s.h2
  let x3 := s.h3 ^^^ x1
  { s with h1 := x1, h3 := x3 }

/-- `h2 = rol64(h2,62); h2 += h3; h0 ^= h2;` -/
def shortMixLine8 (s : S4) : S4 :=
  let x2 := rol64 s.h2 62
  let x2 := x2 + s.h3
  let x0 := s.h0 ^^^ x2
  { s with h0 := x0, h2 := x2 }

/-- `h3 = rol64(h3,34); h3 += h0; h1 ^= h3;` -/
def shortMixLine9 (s : S4) : S4 :=
  let x3 := rol64 s.h3 34
  let x3 := x3 + s.h0
  let x1 := s.h1 ^^^ x3
  { s with h1 := x1, h3 := x3 }

/-- `h0 = rol64(h0,5); h0 += h1; h2 ^= h0;` -/
def shortMixLine10 (s : S4) : S4 :=
  let x0 := rol64 s.h0 5
  let x0 := x0 + s.h1
  let x2 := s.h2 ^^^ x0
  { s with h0 := x0, h2 := x2 }

/-- `h1 = rol64(h1,36); h1 += h2; h3 ^= h1;` -/
def shortMixLine11 (s : S4) : S4 :=
  let x1 := rol64 s.h1 36
  let x1 := x1 + s.h2
  let x3 := s.h3 ^^^ x1
  { s with h1 := x1, h3 := x3 }

/-- the `ShortMix` macro is its 12 lines in sequence -/
theorem shortMix_lines (s : S4) :
    Spooky.shortMix s = (shortMixLine11 (shortMixLine10 (shortMixLine9 (shortMixLine8 (shortMixLine7 (shortMixLine6 (shortMixLine5 (shortMixLine4 (shortMixLine3 (shortMixLine2 (shortMixLine1 (shortMixLine0 s)))))))))))) := rfl

theorem shortMix_row0 (s : S4) :
    SpookyV2.shortMixRow (toL4 s) 0 = toL4 (shortMixLine0 s) := rfl
theorem shortMix_row1 (s : S4) :
    SpookyV2.shortMixRow (toL4 s) 1 = toL4 (shortMixLine1 s) := rfl
theorem shortMix_row2 (s : S4) :
    SpookyV2.shortMixRow (toL4 s) 2 = toL4 (shortMixLine2 s) := rfl
theorem shortMix_row3 (s : S4) :
    SpookyV2.shortMixRow (toL4 s) 3 = toL4 (shortMixLine3 s) := rfl
theorem shortMix_row4 (s : S4) :
    SpookyV2.shortMixRow (toL4 s) 4 = toL4 (shortMixLine4 s) := rfl
theorem shortMix_row5 (s : S4) :
    SpookyV2.shortMixRow (toL4 s) 5 = toL4 (shortMixLine5 s) := rfl
theorem shortMix_row6 (s : S4) :
    SpookyV2.shortMixRow (toL4 s) 6 = toL4 (shortMixLine6 s) := rfl
theorem shortMix_row7 (s : S4) :
    SpookyV2.shortMixRow (toL4 s) 7 = toL4 (shortMixLine7 s) := rfl
theorem shortMix_row8 (s : S4) :
    SpookyV2.shortMixRow (toL4 s) 8 = toL4 (shortMixLine8 s) := rfl
theorem shortMix_row9 (s : S4) :
    SpookyV2.shortMixRow (toL4 s) 9 = toL4 (shortMixLine9 s) := rfl
theorem shortMix_row10 (s : S4) :
    SpookyV2.shortMixRow (toL4 s) 10 = toL4 (shortMixLine10 s) := rfl
theorem shortMix_row11 (s : S4) :
    SpookyV2.shortMixRow (toL4 s) 11 = toL4 (shortMixLine11 s) := rfl

/-- published `ShortMix` (index form) = the macro of spooky.c -/
theorem shortMix_eq (s : S4) :
    SpookyV2.shortMix (toL4 s) = toL4 (Spooky.shortMix s) := by
  unfold SpookyV2.shortMix
  rw [foldl_range12, shortMix_row0, shortMix_row1, shortMix_row2, shortMix_row3, shortMix_row4, shortMix_row5, shortMix_row6, shortMix_row7, shortMix_row8, shortMix_row9, shortMix_row10, shortMix_row11, shortMix_lines]

/-- `h3 ^= h2; h2 = rol64(h2,15); h3 += h2;` -/
def shortEndLine0 (s : S4) : S4 :=
  let x3 := s.h3 ^^^ s.h2
  let x2 := rol64 s.h2 15
  let x3 := x3 + x2
  { s with h2 := x2, h3 := x3 }

/-- `h0 ^= h3; h3 = rol64(h3,52); h0 += h3;` -/
def shortEndLine1 (s : S4) : S4 :=
  let x0 := s.h0 ^^^ s.h3
  let x3 := rol64 s.h3 52
  let x0 := x0 + x3
  { s with h0 := x0, h3 := x3 }

/-- `h1 ^= h0; h0 = rol64(h0,26); h1 += h0;` -/
def shortEndLine2 (s : S4) : S4 :=
  let x1 := s.h1 ^^^ s.h0
  let x0 := rol64 s.h0 26
  let x1 := x1 + x0
  { s with h0 := x0, h1 := x1 }

/-- `h2 ^= h1; h1 = rol64(h1,51); h2 += h1;` -/
def shortEndLine3 (s : S4) : S4 :=
  let x2 := s.h2 ^^^ s.h1
  let x1 := rol64 s.h1 51
  let x2 := x2 + x1
  { s with h1 := x1, h2 := x2 }

/-- `h3 ^= h2; h2 = rol64(h2,28); h3 += h2;` -/
def shortEndLine4 (s : S4) : S4 :=
  let x3 := s.h3 ^^^ s.h2
  let x2 := rol64 s.h2 28
  let x3 := x3 + x2
  { s with h2 := x2, h3 := x3 }

/-- `h0 ^= h3; h3 = rol64(h3,9); h0 += h3;` -/
def shortEndLine5 (s : S4) : S4 :=
  let x0 := s.h0 ^^^ s.h3
  let x3 := rol64 s.h3 9
  let x0 := x0 + x3
  { s with h0 := x0, h3 := x3 }

/-- `h1 ^= h0; h0 = rol64(h0,47); h1 += h0;` -/
def shortEndLine6 (s : S4) : S4 :=
  let x1 := s.h1 ^^^ s.h0
  let x0 := rol64 s.h0 47
  let x1 := x1 + x0
  { s with h0 := x0, h1 := x1 }

/-- `h2 ^= h1; h1 = rol64(h1,54); h2 += h1;` -/
def shortEndLine7 (s : S4) : S4 :=
  let x2 := s.h2 ^^^ s.h1
  let x1 := rol64 s.h1 54
  let x2 := x2 + x1
  { s with h1 := x1, h2 := x2 }

/-- `h3 ^= h2; h2 = rol64(h2,32); h3 += h2;` -/
def shortEndLine8 (s : S4) : S4 :=
  let x3 := s.h3 ^^^ s.h2
  let x2 := rol64 s.h2 32
  let x3 := x3 + x2
  { s with h2 := x2, h3 := x3 }

/-- `h0 ^= h3; h3 = rol64(h3,25); h0 += h3;` -/
def shortEndLine9 (s : S4) : S4 :=
  let x0 := s.h0 ^^^ s.h3
  let x3 := rol64 s.h3 25
  let x0 := x0 + x3
  { s with h0 := x0, h3 := x3 }

/-- `h1 ^= h0; h0 = rol64(h0,63); h1 += h0;` -/
def shortEndLine10 (s : S4) : S4 :=
  let x1 := s.h1 ^^^ s.h0
  let x0 := rol64 s.h0 63
  let x1 := x1 + x0
  { s with h0 := x0, h1 := x1 }

/-- the `ShortEnd` macro is its 11 lines in sequence -/
theorem shortEnd_lines (s : S4) :
    Spooky.shortEnd s = (shortEndLine10 (shortEndLine9 (shortEndLine8 (shortEndLine7 (shortEndLine6 (shortEndLine5 (shortEndLine4 (shortEndLine3 (shortEndLine2 (shortEndLine1 (shortEndLine0 s))))))))))) := rfl

theorem shortEnd_row0 (s : S4) :
    SpookyV2.shortEndRow (toL4 s) 0 = toL4 (shortEndLine0 s) := rfl
theorem shortEnd_row1 (s : S4) :
    SpookyV2.shortEndRow (toL4 s) 1 = toL4 (shortEndLine1 s) := rfl
theorem shortEnd_row2 (s : S4) :
    SpookyV2.shortEndRow (toL4 s) 2 = toL4 (shortEndLine2 s) := rfl
theorem shortEnd_row3 (s : S4) :
    SpookyV2.shortEndRow (toL4 s) 3 = toL4 (shortEndLine3 s) := rfl
theorem shortEnd_row4 (s : S4) :
    SpookyV2.shortEndRow (toL4 s) 4 = toL4 (shortEndLine4 s) := rfl
theorem shortEnd_row5 (s : S4) :
    SpookyV2.shortEndRow (toL4 s) 5 = toL4 (shortEndLine5 s) := rfl
theorem shortEnd_row6 (s : S4) :
    SpookyV2.shortEndRow (toL4 s) 6 = toL4 (shortEndLine6 s) := rfl
theorem shortEnd_row7 (s : S4) :
    SpookyV2.shortEndRow (toL4 s) 7 = toL4 (shortEndLine7 s) := rfl
theorem shortEnd_row8 (s : S4) :
    SpookyV2.shortEndRow (toL4 s) 8 = toL4 (shortEndLine8 s) := rfl
theorem shortEnd_row9 (s : S4) :
    SpookyV2.shortEndRow (toL4 s) 9 = toL4 (shortEndLine9 s) := rfl
theorem shortEnd_row10 (s : S4) :
    SpookyV2.shortEndRow (toL4 s) 10 = toL4 (shortEndLine10 s) := rfl

/-- published `ShortEnd` (index form) = the macro of spooky.c -/
theorem shortEnd_eq (s : S4) :
    SpookyV2.shortEnd (toL4 s) = toL4 (Spooky.shortEnd s) := by
  unfold SpookyV2.shortEnd
  rw [foldl_range11, shortEnd_row0, shortEnd_row1, shortEnd_row2, shortEnd_row3, shortEnd_row4, shortEnd_row5, shortEnd_row6, shortEnd_row7, shortEnd_row8, shortEnd_row9, shortEnd_row10, shortEnd_lines]

/-! ### Mix on a block, End -/

theorem g_words (p : List UInt8) (i : Nat) (h : i < 12) :
    SpookyV2.g (SpookyV2.wordsLE 12 p) i = w64 p i := by
  unfold SpookyV2.g SpookyV2.wordsLE
  rw [List.getD_eq_getElem?_getD, List.getElem?_map, List.getElem?_range h]
  rfl

/-- published `Mix` on the twelve little-endian words of a block = the macro of spooky.c -/
theorem mix_eq (s : S12) (p : List UInt8) :
    SpookyV2.mix (SpookyV2.wordsLE 12 p) (toL s) = toL (Spooky.mix s p) := by
  rw [mix_spec, mix_lines]
  simp only [g_words p _ (by decide : (0:Nat) < 12), g_words p _ (by decide : (1:Nat) < 12),
    g_words p _ (by decide : (2:Nat) < 12), g_words p _ (by decide : (3:Nat) < 12),
    g_words p _ (by decide : (4:Nat) < 12), g_words p _ (by decide : (5:Nat) < 12),
    g_words p _ (by decide : (6:Nat) < 12), g_words p _ (by decide : (7:Nat) < 12),
    g_words p _ (by decide : (8:Nat) < 12), g_words p _ (by decide : (9:Nat) < 12),
    g_words p _ (by decide : (10:Nat) < 12), g_words p _ (by decide : (11:Nat) < 12)]

theorem add_words (s : S12) (d : List UInt64) :
    ((List.range 12).map fun i => SpookyV2.g (toL s) i + SpookyV2.g d i) =
      toL ⟨s.h0 + SpookyV2.g d 0, s.h1 + SpookyV2.g d 1, s.h2 + SpookyV2.g d 2, s.h3 + SpookyV2.g d 3,
           s.h4 + SpookyV2.g d 4, s.h5 + SpookyV2.g d 5, s.h6 + SpookyV2.g d 6, s.h7 + SpookyV2.g d 7,
           s.h8 + SpookyV2.g d 8, s.h9 + SpookyV2.g d 9, s.h10 + SpookyV2.g d 10, s.h11 + SpookyV2.g d 11⟩ := rfl

/-- published `End` = the macro of spooky.c -/
theorem end_eq (s : S12) (p : List UInt8) :
    SpookyV2.endFn (SpookyV2.wordsLE 12 p) (toL s) = toL (Spooky.endMix s p) := by
  unfold SpookyV2.endFn Spooky.endMix
  rw [add_words, endPartial_eq, endPartial_eq, endPartial_eq]
  simp only [g_words p _ (by decide : (0:Nat) < 12), g_words p _ (by decide : (1:Nat) < 12),
    g_words p _ (by decide : (2:Nat) < 12), g_words p _ (by decide : (3:Nat) < 12),
    g_words p _ (by decide : (4:Nat) < 12), g_words p _ (by decide : (5:Nat) < 12),
    g_words p _ (by decide : (6:Nat) < 12), g_words p _ (by decide : (7:Nat) < 12),
    g_words p _ (by decide : (8:Nat) < 12), g_words p _ (by decide : (9:Nat) < 12),
    g_words p _ (by decide : (10:Nat) < 12), g_words p _ (by decide : (11:Nat) < 12)]

theorem longBlocks_eq (n : Nat) (s : S12) (p : List UInt8) :
    SpookyV2.longBlocks n (toL s) p = toL (Spooky.longLoop n s p) := by
  induction n generalizing s p with
  | zero => rfl
  | succ n ih => simp only [SpookyV2.longBlocks, Spooky.longLoop, mix_eq, ih]

/-- the long path -/
theorem long_eq (msg : List UInt8) (h1 h2 : UInt64) :
    Spooky.long msg h1 h2 = SpookyV2.long msg h1 h2 := by
  unfold Spooky.long SpookyV2.long
  have hbs : SpookyV2.blockSize = 96 := rfl
  have hl : (msg.drop (96 * (msg.length / 96))).length ≤ 95 := by
    simp; omega
  simp only [hbs]
  rw [UsualProofs.C16.Spk.lastBlock_eq_padding _ hl]
  have hinit : [h1, h2, SpookyV2.scConst, h1, h2, SpookyV2.scConst, h1, h2, SpookyV2.scConst, h1, h2,
      SpookyV2.scConst] = toL ⟨h1, h2, sc, h1, h2, sc, h1, h2, sc, h1, h2, sc⟩ := rfl
  rw [hinit, longBlocks_eq, end_eq]
  rfl

/-! ### Short -/

theorem shortHalf_eq (s : S4) (p : List UInt8) :
    SpookyV2.shortHalf (toL4 s) p = toL4 (Spooky.shortAbsorb16 s p) := by
  unfold SpookyV2.shortHalf Spooky.shortAbsorb16
  rw [← shortMix_eq]
  rfl

theorem shortSets_eq (n : Nat) (s : S4) (p : List UInt8) :
    SpookyV2.shortSets n (toL4 s) p = toL4 (Spooky.shortLoop n s p) := by
  induction n generalizing s p with
  | zero => rfl
  | succ n ih =>
    simp only [SpookyV2.shortSets, Spooky.shortLoop, shortHalf_eq]
    exact ih { shortAbsorb16 s p with h0 := (shortAbsorb16 s p).h0 + w64 p 2,
                                      h1 := (shortAbsorb16 s p).h1 + w64 p 3 } (p.drop 32)

/-- the end of Short (length word, last 0..15 bytes, ShortEnd), specification side -/
def finSpec (len : Nat) (h : List UInt64) (p : List UInt8) : UInt64 × UInt64 :=
  let h := h.set 3 (SpookyV2.g h 3 + (UInt64.ofNat len <<< 56))
  let h :=
    if p.length = 0 then (h.set 2 (SpookyV2.g h 2 + SpookyV2.scConst)).set 3 (SpookyV2.g h 3 + SpookyV2.scConst)
    else (h.set 2 (SpookyV2.g h 2 + w64 p 0)).set 3 (SpookyV2.g h 3 + w64 p 1)
  let h := SpookyV2.shortEnd h
  (SpookyV2.g h 0, SpookyV2.g h 1)

/-- the same, model side (as in `Spooky.shortSpec`) -/
def finModel (len : Nat) (s : S4) (p : List UInt8) : UInt64 × UInt64 :=
  let d := s.h3 + (UInt64.ofNat len <<< 56)
  let s : S4 :=
    if p.length = 0 then { s with h2 := s.h2 + sc, h3 := d + sc }
    else { s with h2 := s.h2 + w64 p 0, h3 := d + w64 p 1 }
  let s := Spooky.shortEnd s
  (s.h0, s.h1)

theorem shortEnd_pair (l : List UInt64) (s : S4) (h : l = toL4 s) :
    (SpookyV2.g (SpookyV2.shortEnd l) 0, SpookyV2.g (SpookyV2.shortEnd l) 1)
      = ((Spooky.shortEnd s).h0, (Spooky.shortEnd s).h1) := by
  subst h
  rw [shortEnd_eq]
  rfl

theorem fin_eq (len : Nat) (s : S4) (p : List UInt8) : finSpec len (toL4 s) p = finModel len s p := by
  unfold finSpec finModel
  by_cases h0 : p.length = 0
  · simp only [h0, if_true]
    exact shortEnd_pair _ _ rfl
  · simp only [h0, if_false]
    exact shortEnd_pair _ _ rfl

/-- published Short = the padded formulation of the model's `Short` -/
theorem shortSpec_eq (msg : List UInt8) (h1 h2 : UInt64) :
    Spooky.shortSpec msg h1 h2 = SpookyV2.short msg h1 h2 := by
  have hinit : [h1, h2, SpookyV2.scConst, SpookyV2.scConst] = toL4 ⟨h1, h2, sc, sc⟩ := rfl
  unfold Spooky.shortSpec SpookyV2.short
  by_cases h16 : (msg.drop (32 * (msg.length / 32))).length ≥ 16
  · simp only [h16, if_true]
    rw [hinit, shortSets_eq, shortHalf_eq]
    exact (fin_eq msg.length _ _).symm
  · simp only [h16, if_false]
    rw [hinit, shortSets_eq]
    exact (fin_eq msg.length _ _).symm

/-- **SpookyHash V2**: the model of spooky.c computes the published `Hash128` for every message
and both seeds -/
theorem spookyhash_eq_published (msg : List UInt8) (h1 h2 : UInt64) :
    Spooky.spookyhash msg h1 h2 = SpookyV2.hash128 msg h1 h2 := by
  unfold Spooky.spookyhash SpookyV2.hash128
  have hb : SpookyV2.bufSize = 192 := rfl
  rw [hb]
  by_cases h : msg.length < 192
  · simp only [h, if_true]
    rw [UsualProofs.C16.Spk.short_eq_spec, shortSpec_eq]
  · simp only [h, if_false]
    exact long_eq msg h1 h2

end UsualProofs.C16.SpkPub
