import Usual.C16.Spooky
import UsualProofs.C16.BytesLemmas
/-! C16 — SpookyHash V2 tail handling: the `switch (remainder)` of `Short` with its mixed
byte / 32-bit / 64-bit reads equals adding the two little-endian words of the zero-padded
last 16 bytes; the last block of the long path is the zero-padded remainder ending in its
length byte. -/
set_option linter.unusedSimpArgs false
namespace UsualProofs.C16.Spk
open Usual.C16 Usual.C16.Spooky UsualProofs.C16.Bytes

theorem add_lc64 (a b c : UInt64) : a + (b + c) = b + (a + c) := by
  rw [← UInt64.add_assoc, UInt64.add_comm a b, UInt64.add_assoc]

/-- widening a shifted byte: no bits are lost below 2^32 -/
theorem shl_widen (b : UInt8) (k : Nat) (s32 : UInt32) (s64 : UInt64) (h32 : s32.toNat = k)
    (h64 : s64.toNat = k) (hk : k + 8 ≤ 32) :
    (b.toUInt32 <<< s32).toUInt64 = b.toUInt64 <<< s64 := by
  apply UInt64.toNat_inj.mp
  have hb := b.toNat_lt
  have h1 : b.toNat <<< k < 2 ^ (k + 8) := by
    rw [Nat.shiftLeft_eq, Nat.pow_add, Nat.mul_comm]
    exact Nat.mul_lt_mul_of_pos_left hb (Nat.two_pow_pos k)
  have h2 : 2 ^ (k + 8) ≤ 2 ^ 32 := Nat.pow_le_pow_right (by omega) hk
  have h3 : (2:Nat) ^ 32 ≤ 2 ^ 64 := by decide
  have e32 : s32.toNat % 32 = k := by omega
  have e64 : s64.toNat % 64 = k := by omega
  simp only [UInt32.toNat_toUInt64, UInt32.toNat_shiftLeft, UInt64.toNat_shiftLeft,
    UInt8.toNat_toUInt32, UInt8.toNat_toUInt64, e32, e64]
  rw [Nat.mod_eq_of_lt (by omega), Nat.mod_eq_of_lt (by omega)]

theorem byte_widen (b : UInt8) : b.toUInt32.toUInt64 = b.toUInt64 := by
  apply UInt64.toNat_inj.mp; simp

/-- a 32-bit little-endian load, widened, as the sum of its shifted bytes -/
theorem le32_toUInt64 (l : List UInt8) :
    (le32 l).toUInt64 = b64 l 0 + (b64 l 1 <<< 8) + (b64 l 2 <<< 16) + (b64 l 3 <<< 24) := by
  unfold le32 b32 b64
  rw [UInt32.toUInt64_or, UInt32.toUInt64_or, UInt32.toUInt64_or, byte_widen,
    shl_widen _ 8 8 8 (by decide) (by decide) (by omega),
    shl_widen _ 16 16 16 (by decide) (by decide) (by omega),
    shl_widen _ 24 24 24 (by decide) (by decide) (by omega)]
  have h0 : ((l.getD 0 0).toUInt64).toNat < 2 ^ 8 := by
    rw [UInt8.toNat_toUInt64]; exact (l.getD 0 0).toNat_lt
  obtain ⟨e1, h1⟩ := or_add64 _ (l.getD 1 0) 8 8 (by decide) (by omega) h0
  obtain ⟨e2, h2⟩ := or_add64 _ (l.getD 2 0) 16 16 (by decide) (by omega) h1
  obtain ⟨e3, _⟩ := or_add64 _ (l.getD 3 0) 24 24 (by decide) (by omega) h2
  rw [e1, e2, e3]

/-- **tail**: for the last 1..15 bytes `p`, the fall-through `switch` adds exactly the two
little-endian 64-bit words of `p` zero-padded to 16 bytes (`w64` pads with zeros) -/
theorem shortTail_eq_padding (length : Nat) (s : S4) (p : List UInt8) (h : p.length ≤ 15) :
    shortTail length p.length s p =
      if p.length = 0 then
        { s with h2 := s.h2 + sc, h3 := s.h3 + (UInt64.ofNat length <<< 56) + sc }
      else
        { s with h2 := s.h2 + w64 p 0, h3 := s.h3 + (UInt64.ofNat length <<< 56) + w64 p 1 } := by
  match p, h with
  | [], _ => simp [shortTail]
  | [p0], _ =>
    simp only [shortTail, w64, w32, le32_toUInt64, le64_eq_add]
    simp [b64]
    try simp only [UInt64.add_comm, add_lc64, UInt64.add_assoc]
  | [p0,p1], _ =>
    simp only [shortTail, w64, w32, le32_toUInt64, le64_eq_add]
    simp [b64]
    try simp only [UInt64.add_comm, add_lc64, UInt64.add_assoc]
  | [p0,p1,p2], _ =>
    simp only [shortTail, w64, w32, le32_toUInt64, le64_eq_add]
    simp [b64]
    try simp only [UInt64.add_comm, add_lc64, UInt64.add_assoc]
  | [p0,p1,p2,p3], _ =>
    simp only [shortTail, w64, w32, le32_toUInt64, le64_eq_add]
    simp [b64]
    try simp only [UInt64.add_comm, add_lc64, UInt64.add_assoc]
  | [p0,p1,p2,p3,p4], _ =>
    simp only [shortTail, w64, w32, le32_toUInt64, le64_eq_add]
    simp [b64]
    try simp only [UInt64.add_comm, add_lc64, UInt64.add_assoc]
  | [p0,p1,p2,p3,p4,p5], _ =>
    simp only [shortTail, w64, w32, le32_toUInt64, le64_eq_add]
    simp [b64]
    try simp only [UInt64.add_comm, add_lc64, UInt64.add_assoc]
  | [p0,p1,p2,p3,p4,p5,p6], _ =>
    simp only [shortTail, w64, w32, le32_toUInt64, le64_eq_add]
    simp [b64]
    try simp only [UInt64.add_comm, add_lc64, UInt64.add_assoc]
  | [p0,p1,p2,p3,p4,p5,p6,p7], _ =>
    simp only [shortTail, w64, w32, le32_toUInt64, le64_eq_add]
    simp [b64]
    try simp only [UInt64.add_comm, add_lc64, UInt64.add_assoc]
  | [p0,p1,p2,p3,p4,p5,p6,p7,p8], _ =>
    simp only [shortTail, w64, w32, le32_toUInt64, le64_eq_add]
    simp [b64]
    try simp only [UInt64.add_comm, add_lc64, UInt64.add_assoc]
  | [p0,p1,p2,p3,p4,p5,p6,p7,p8,p9], _ =>
    simp only [shortTail, w64, w32, le32_toUInt64, le64_eq_add]
    simp [b64]
    try simp only [UInt64.add_comm, add_lc64, UInt64.add_assoc]
  | [p0,p1,p2,p3,p4,p5,p6,p7,p8,p9,p10], _ =>
    simp only [shortTail, w64, w32, le32_toUInt64, le64_eq_add]
    simp [b64]
    try simp only [UInt64.add_comm, add_lc64, UInt64.add_assoc]
  | [p0,p1,p2,p3,p4,p5,p6,p7,p8,p9,p10,p11], _ =>
    simp only [shortTail, w64, w32, le32_toUInt64, le64_eq_add]
    simp [b64]
    try simp only [UInt64.add_comm, add_lc64, UInt64.add_assoc]
  | [p0,p1,p2,p3,p4,p5,p6,p7,p8,p9,p10,p11,p12], _ =>
    simp only [shortTail, w64, w32, le32_toUInt64, le64_eq_add]
    simp [b64]
    try simp only [UInt64.add_comm, add_lc64, UInt64.add_assoc]
  | [p0,p1,p2,p3,p4,p5,p6,p7,p8,p9,p10,p11,p12,p13], _ =>
    simp only [shortTail, w64, w32, le32_toUInt64, le64_eq_add]
    simp [b64]
    try simp only [UInt64.add_comm, add_lc64, UInt64.add_assoc]
  | [p0,p1,p2,p3,p4,p5,p6,p7,p8,p9,p10,p11,p12,p13,p14], _ =>
    simp only [shortTail, w64, w32, le32_toUInt64, le64_eq_add]
    simp [b64]
    try simp only [UInt64.add_comm, add_lc64, UInt64.add_assoc]
  | _::_::_::_::_::_::_::_::_::_::_::_::_::_::_::_::_, h => simp at h

/-- the one-shot `Short` of spooky.c = the padded formulation, for every input shorter than
any bound (the `length > 15` guard and the `switch` are the only differences) -/
theorem short_eq_spec (data : List UInt8) (h1 h2 : UInt64) : short data h1 h2 = shortSpec data h1 h2 := by
  unfold short shortSpec
  have hdl : (data.drop (32 * (data.length / 32))).length = data.length % 32 := by
    simp; omega
  by_cases hlen : data.length > 15
  · by_cases hr : data.length % 32 ≥ 16
    · have hp : ((data.drop (32 * (data.length / 32))).drop 16).length = data.length % 32 - 16 := by
        simp; omega
      simp only [hlen, hr, hdl, if_true, ge_iff_le]
      rw [← hp, shortTail_eq_padding _ _ _ (by omega)]
    · simp only [hlen, hr, hdl, if_true, if_false]
      rw [← hdl, shortTail_eq_padding _ _ _ (by omega)]
  · have hn : data.length / 32 = 0 := by omega
    have hm : data.length % 32 = data.length := by omega
    have h16 : ¬ data.length ≥ 16 := by omega
    simp only [hlen, hn, hm, h16, if_false, Nat.mul_zero, List.drop_zero, shortLoop]
    rw [shortTail_eq_padding _ _ _ (by omega)]

/-- the last block of the long path: remainder, zeros, and the remainder's length in byte 95 -/
theorem lastBlock_eq_padding (rem : List UInt8) (h : rem.length ≤ 95) :
    lastBlock rem = rem ++ zeros (95 - rem.length) ++ [UInt8.ofNat rem.length] := by
  unfold lastBlock zeros
  have : 96 - rem.length = (95 - rem.length) + 1 := by omega
  rw [this, List.replicate_succ', ← List.append_assoc]
  rw [List.set_append_right _ _ (by simp; omega)]
  have hl : 95 - (rem ++ List.replicate (95 - rem.length) 0).length = 0 := by
    simp; omega
  rw [hl]
  rfl

end UsualProofs.C16.Spk
