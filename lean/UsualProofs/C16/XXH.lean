import Usual.C16.XXHash
/-! C16 — XXH32: the pointer-walking loops of xxhash.c compute the algorithm as the XXH32
specification states it (four independent lanes over the words `4i+j`, then words, then bytes). -/
namespace UsualProofs.C16.XXH
open Usual.C16 Usual.C16.XXHash

theorem words4_eq_foldl (n : Nat) (h : UInt32) (p : List UInt8) :
    words4 n h p = (words n p).foldl wordStep h := by
  induction n generalizing h p with
  | zero => rfl
  | succ n ih => simp only [words4, words, List.foldl_cons, ih]

theorem w32_drop16 (p : List UInt8) (k : Nat) : w32 (p.drop 16) k = w32 p (k + 4) := by
  simp only [w32, List.drop_drop]
  have : 16 + 4 * k = 4 * (k + 4) := by omega
  rw [this]

theorem lane_succ (p : List UInt8) (j n : Nat) (v0 : UInt32) :
    lane p j (n + 1) v0 = lane (p.drop 16) j n (round v0 (w32 p j)) := by
  unfold lane
  rw [List.range_succ_eq_map]
  rw [List.foldl_cons]
  rw [List.foldl_map]
  have h0 : 4 * 0 + j = j := by omega
  rw [h0]
  have hf : (fun (x : UInt32) (y : Nat) => round x (w32 p (4 * y.succ + j)))
      = (fun v i => round v (w32 (List.drop 16 p) (4 * i + j))) := by
    funext v i
    rw [w32_drop16]
    have : 4 * i.succ + j = 4 * i + j + 4 := by omega
    rw [this]
  rw [hf]

/-- the stripe loop keeps four independent lanes; lane `j` folds over the words `4i+j` -/
theorem stripes_eq_lanes (n : Nat) (v : Acc) (p : List UInt8) :
    stripes n v p = ⟨lane p 0 n v.v1, lane p 1 n v.v2, lane p 2 n v.v3, lane p 3 n v.v4⟩ := by
  induction n generalizing v p with
  | zero => simp [stripes, lane]
  | succ n ih =>
    rw [stripes, ih]
    simp only [lane_succ]

/-- `xxhash()` computes XXH32 as specified, for every input and seed -/
theorem xxh32_eq_spec (data : List UInt8) (seed : UInt32) : xxh32 data seed = xxh32Spec data seed := by
  unfold xxh32 xxh32Spec
  by_cases h : data.length ≥ 16
  · have h' : ¬ data.length < 16 := by omega
    simp only [h, h', if_true, if_false, stripes_eq_lanes, converge, initAcc, words4_eq_foldl]
  · have h' : data.length < 16 := by omega
    have hn : data.length / 16 = 0 := by omega
    simp only [h, h', if_true, if_false, hn, Nat.mul_zero, List.drop_zero, words4_eq_foldl]

end UsualProofs.C16.XXH
