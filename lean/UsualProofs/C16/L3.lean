import Usual.C16.Lookup3
import UsualProofs.C16.BytesLemmas
/-! C16 — lookup3: libusual's zero-padded word load of the last block equals the published
fall-through byte `switch`; hence `hash_lookup3` = `hashlittle2` with zero seeds. -/
set_option linter.unusedSimpArgs false
namespace UsualProofs.C16.L3
open Usual.C16 Usual.C16.Lookup3 UsualProofs.C16.Bytes

theorem add_lc (a b c : UInt32) : a + (b + c) = b + (a + c) := by
  rw [← UInt32.add_assoc, UInt32.add_comm a b, UInt32.add_assoc]

/-- `w32 p i` as the sum of the four shifted bytes at offset `4*i` -/
theorem w32_eq_add (p : List UInt8) (i : Nat) :
    w32 p i = b32 p (4*i) + (b32 p (4*i+1) <<< 8) + (b32 p (4*i+2) <<< 16) + (b32 p (4*i+3) <<< 24) := by
  unfold w32
  rw [le32_eq_add]
  simp only [b32, List.getD_eq_getElem?_getD, List.getElem?_drop, Nat.add_zero]

/-- one whole block: byte-wise additions = word additions -/
theorem specBlock_eq (s : St) (k : List UInt8) : specBlock s k = mix (addWords s k) := by
  obtain ⟨a, b, c⟩ := s
  simp only [specBlock, addWords, w32_eq_add]
  simp only [UInt32.add_assoc]

theorem specLoop_eq (n : Nat) (s : St) (k : List UInt8) : specLoop n s k = loop n s k := by
  induction n generalizing s k with
  | zero => rfl
  | succ n ih => simp only [specLoop, loop, specBlock_eq, ih]

/-- **tail**: the published `switch(length)` with fall-through over the last `r = 1..12` bytes
equals adding the three little-endian words of the zero-padded block -/
theorem tail_eq_padding (s : St) (k : List UInt8) (hr : 1 ≤ k.length) (hr' : k.length ≤ 12) :
    specTail k.length s k = addWords s k := by
  obtain ⟨a, b, c⟩ := s
  simp only [addWords, w32_eq_add]
  match k, hr, hr' with
  | [k0], _, _ => simp [specTail, b32]
  | [k0,k1], _, _ => simp [specTail, b32]; simp only [UInt32.add_comm, add_lc, UInt32.add_assoc, and_self, and_true, true_and]
  | [k0,k1,k2], _, _ => simp [specTail, b32]; simp only [UInt32.add_comm, add_lc, UInt32.add_assoc, and_self, and_true, true_and]
  | [k0,k1,k2,k3], _, _ => simp [specTail, b32]; simp only [UInt32.add_comm, add_lc, UInt32.add_assoc, and_self, and_true, true_and]
  | [k0,k1,k2,k3,k4], _, _ => simp [specTail, b32]; simp only [UInt32.add_comm, add_lc, UInt32.add_assoc, and_self, and_true, true_and]
  | [k0,k1,k2,k3,k4,k5], _, _ => simp [specTail, b32]; simp only [UInt32.add_comm, add_lc, UInt32.add_assoc, and_self, and_true, true_and]
  | [k0,k1,k2,k3,k4,k5,k6], _, _ => simp [specTail, b32]; simp only [UInt32.add_comm, add_lc, UInt32.add_assoc, and_self, and_true, true_and]
  | [k0,k1,k2,k3,k4,k5,k6,k7], _, _ => simp [specTail, b32]; simp only [UInt32.add_comm, add_lc, UInt32.add_assoc, and_self, and_true, true_and]
  | [k0,k1,k2,k3,k4,k5,k6,k7,k8], _, _ => simp [specTail, b32]; simp only [UInt32.add_comm, add_lc, UInt32.add_assoc, and_self, and_true, true_and]
  | [k0,k1,k2,k3,k4,k5,k6,k7,k8,k9], _, _ => simp [specTail, b32]; simp only [UInt32.add_comm, add_lc, UInt32.add_assoc, and_self, and_true, true_and]
  | [k0,k1,k2,k3,k4,k5,k6,k7,k8,k9,k10], _, _ => simp [specTail, b32]; simp only [UInt32.add_comm, add_lc, UInt32.add_assoc, and_self, and_true, true_and]
  | [k0,k1,k2,k3,k4,k5,k6,k7,k8,k9,k10,k11], _, _ => simp [specTail, b32]; simp only [UInt32.add_comm, add_lc, UInt32.add_assoc, and_self, and_true, true_and]
  | [], h, _ => simp at h
  | _::_::_::_::_::_::_::_::_::_::_::_::_::_, _, h => simp at h

/-- `hash_lookup3` computes the published `hashlittle2` (seeds 0) for every input -/
theorem hashLookup3_eq_spec (data : List UInt8) : hashLookup3 data = hashlittle2Spec data := by
  unfold hashLookup3 hashlittle2Spec
  by_cases h0 : data.length = 0
  · simp [h0, specLoop]
  · have hn : 12 * ((data.length - 1) / 12) ≤ data.length - 1 := Nat.mul_div_le ..
    have hr : data.length - 12 * ((data.length - 1) / 12) ≠ 0 := by omega
    have hl : (data.drop (12 * ((data.length - 1) / 12))).length
        = data.length - 12 * ((data.length - 1) / 12) := by simp
    have hlt : data.length - 12 * ((data.length - 1) / 12) ≤ 12 := by
      have := Nat.lt_mul_div_succ (data.length - 1) (show 0 < 12 by omega)
      omega
    simp only [h0, hr, if_false, specLoop_eq]
    rw [← hl, tail_eq_padding _ _ (by omega) (by omega)]

end UsualProofs.C16.L3
