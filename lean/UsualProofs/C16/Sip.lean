import Usual.C16.SipHash
/-! C16 — SipHash-2-4: the `switch` tail of siphash.c is the little-endian load of the
zero-padded last block ending in the length byte; hence `siphash24` = the paper's definition. -/
set_option linter.unusedSimpArgs false
namespace UsualProofs.C16.Sip
open Usual.C16 Usual.C16.SipHash

theorem or_lc (a b c : UInt64) : a ||| (b ||| c) = b ||| (a ||| c) := by
  rw [← UInt64.or_assoc, UInt64.or_comm a b, UInt64.or_assoc]

/-- `(uint64_t)len << 56` keeps exactly the byte `len mod 256` -/
theorem lenbyte (len : Nat) :
    (UInt64.ofNat len) <<< 56 = (UInt8.ofNat (len % 256)).toUInt64 <<< 56 := by
  apply UInt64.toNat_inj.mp
  simp [UInt64.toNat_shiftLeft, Nat.shiftLeft_eq]
  omega

/-- the fall-through `switch (len & 7)` = load of `s ‖ 0… ‖ (len mod 256)` -/
theorem tail_eq_padding (len : Nat) (s : List UInt8) (h : s.length = len % 8) :
    tail len s = le64 (s ++ zeros (7 - s.length) ++ [UInt8.ofNat (len % 256)]) := by
  have lb := lenbyte len
  match s, h with
  | [], h => have hr : len % 8 = 0 := h.symm; simp only [tail, hr]; simp [le64, b64, zeros]; rw [lb]
  | [a], h =>
    have hr : len % 8 = 1 := h.symm; simp only [tail, hr]; simp [le64, b64, zeros]; rw [lb]
    simp only [UInt64.or_comm, or_lc, UInt64.or_assoc]
  | [a,b], h =>
    have hr : len % 8 = 2 := h.symm; simp only [tail, hr]; simp [le64, b64, zeros]; rw [lb]
    simp only [UInt64.or_comm, or_lc, UInt64.or_assoc]
  | [a,b,c], h =>
    have hr : len % 8 = 3 := h.symm; simp only [tail, hr]; simp [le64, b64, zeros]; rw [lb]
    simp only [UInt64.or_comm, or_lc, UInt64.or_assoc]
  | [a,b,c,d], h =>
    have hr : len % 8 = 4 := h.symm; simp only [tail, hr]; simp [le64, b64, zeros]; rw [lb]
    simp only [UInt64.or_comm, or_lc, UInt64.or_assoc]
  | [a,b,c,d,e], h =>
    have hr : len % 8 = 5 := h.symm; simp only [tail, hr]; simp [le64, b64, zeros]; rw [lb]
    simp only [UInt64.or_comm, or_lc, UInt64.or_assoc]
  | [a,b,c,d,e,f], h =>
    have hr : len % 8 = 6 := h.symm; simp only [tail, hr]; simp [le64, b64, zeros]; rw [lb]
    simp only [UInt64.or_comm, or_lc, UInt64.or_assoc]
  | [a,b,c,d,e,f,g], h =>
    have hr : len % 8 = 7 := h.symm; simp only [tail, hr]; simp [le64, b64, zeros]; rw [lb]
    simp only [UInt64.or_comm, or_lc, UInt64.or_assoc]
  | a::b::c::d::e::f::g::i::r, h => simp at h; omega

/-! ### the word loop -/

theorem getD_append_left (l e : List UInt8) (i : Nat) (h : i < l.length) :
    (l ++ e).getD i 0 = l.getD i 0 := by
  simp [List.getD_eq_getElem?_getD, List.getElem?_append_left h]

/-- a load that lies inside `l` does not see what follows `l` -/
theorem le64_append (l e : List UInt8) (h : 8 ≤ l.length) : le64 (l ++ e) = le64 l := by
  simp only [le64, b64]
  rw [getD_append_left l e 0 (by omega), getD_append_left l e 1 (by omega),
      getD_append_left l e 2 (by omega), getD_append_left l e 3 (by omega),
      getD_append_left l e 4 (by omega), getD_append_left l e 5 (by omega),
      getD_append_left l e 6 (by omega), getD_append_left l e 7 (by omega)]

theorem loop_eq_foldl (n : Nat) (s : St) (l : List UInt8) :
    loop n s l = (words n l).foldl compress s := by
  induction n generalizing s l with
  | zero => rfl
  | succ n ih => simp only [loop, words, List.foldl_cons, ih]

/-- whole words inside `l` are not affected by the padding -/
theorem loop_append (n : Nat) (s : St) (l e : List UInt8) (h : 8 * n ≤ l.length) :
    loop n s (l ++ e) = loop n s l := by
  induction n generalizing s l with
  | zero => rfl
  | succ n ih =>
    simp only [loop]
    rw [le64_append l e (by omega), List.drop_append_of_le_length (by omega)]
    exact ih _ _ (by simp; omega)

theorem loop_succ (n : Nat) (s : St) (l : List UInt8) :
    loop (n + 1) s l = compress (loop n s l) (le64 (l.drop (8 * n))) := by
  induction n generalizing s l with
  | zero => simp [loop]
  | succ n ih =>
    rw [loop, ih]
    simp only [loop, List.drop_drop]
    have : 8 + 8 * n = 8 * (n + 1) := by omega
    rw [this]

/-- `siphash24` of siphash.c computes SipHash-2-4 as defined in the paper, for every input -/
theorem siphash24_eq_spec (data : List UInt8) (k0 k1 : UInt64) :
    siphash24 data k0 k1 = siphash24Spec data k0 k1 := by
  unfold siphash24 siphash24Spec
  rw [← loop_eq_foldl, loop_succ]
  simp only [pad]
  have hn : 8 * (data.length / 8) ≤ data.length := Nat.mul_div_le ..
  rw [List.append_assoc, loop_append _ _ _ _ hn, List.drop_append_of_le_length hn]
  have hl : (data.drop (8 * (data.length / 8))).length = data.length % 8 := by
    simp; omega
  rw [tail_eq_padding data.length _ hl, hl, List.append_assoc]

end UsualProofs.C16.Sip
