import Usual.C16.XXHash
import Usual.C16.XXH32Spec
/-! C16 — the constants and primitives of the xxhash.c model (decimal primes, literal rotation
amounts) are those of the XXH32 specification (`Usual.C16.XXH32Spec`: hexadecimal primes,
rotation/shift tables); hence the model-file spec `xxh32Spec` = `XXH32Spec.xxh32`. -/
namespace UsualProofs.C16.XXHPub
open Usual.C16

theorem primes_eq :
    XXHash.P1 = XXH32Spec.prime 1 ∧ XXHash.P2 = XXH32Spec.prime 2 ∧ XXHash.P3 = XXH32Spec.prime 3 ∧
    XXHash.P4 = XXH32Spec.prime 4 ∧ XXHash.P5 = XXH32Spec.prime 5 := by decide +kernel

theorem round_eq (v w : UInt32) : XXHash.round v w = XXH32Spec.round v w := rfl
theorem wordStep_eq (h w : UInt32) : XXHash.wordStep h w = XXH32Spec.wordStep h w := rfl
theorem byteStep_eq (h : UInt32) (b : UInt8) : XXHash.byteStep h b = XXH32Spec.byteStep h b := rfl
theorem avalanche_eq (h : UInt32) : XXHash.avalanche h = XXH32Spec.avalanche h := rfl

theorem lane_eq (data : List UInt8) (j n : Nat) (v : UInt32) :
    XXHash.lane data j n v = XXH32Spec.lane data j n v := rfl

theorem words_eq (n : Nat) (p : List UInt8) : XXHash.words n p = XXH32Spec.words n p := by
  induction n generalizing p with
  | zero => rfl
  | succ n ih => simp only [XXHash.words, XXH32Spec.words, ih]

theorem merge_eq (seed : UInt32) (data : List UInt8) (n : Nat) :
    XXH32Spec.merge ((List.range 4).map fun j => XXH32Spec.lane data j n (XXH32Spec.initAcc seed j)) =
      rol32 (XXHash.lane data 0 n (seed + XXHash.P1 + XXHash.P2)) 1
        + rol32 (XXHash.lane data 1 n (seed + XXHash.P2)) 7
        + rol32 (XXHash.lane data 2 n (seed + 0)) 12 + rol32 (XXHash.lane data 3 n (seed - XXHash.P1)) 18 := rfl

theorem p5_eq : XXHash.P5 = XXH32Spec.prime 5 := primes_eq.2.2.2.2

/-- the structural spec of the model file = XXH32 of the specification -/
theorem spec_eq_pub (data : List UInt8) (seed : UInt32) :
    XXHash.xxh32Spec data seed = XXH32Spec.xxh32 data seed := by
  unfold XXHash.xxh32Spec XXH32Spec.xxh32
  have hw : XXHash.wordStep = XXH32Spec.wordStep := funext fun h => funext fun w => wordStep_eq h w
  have hb : XXHash.byteStep = XXH32Spec.byteStep := funext fun h => funext fun b => byteStep_eq h b
  simp only [merge_eq, words_eq, hw, hb, avalanche_eq, p5_eq]

end UsualProofs.C16.XXHPub
