import Usual.C16.Bytes
/-! C16 — little-endian loads: the OR of shifted bytes is their sum (the bytes occupy
disjoint bit ranges), so `|=`-style and `+=`-style assembly of a word agree. -/
namespace UsualProofs.C16.Bytes
open Usual.C16

/-- OR-ing a byte in above `k` clear bits is adding it; the result fits in `k+8` bits -/
theorem or_add32 (x : UInt32) (b : UInt8) (k : Nat) (sh : UInt32) (hs : sh.toNat = k)
    (hk : k + 8 ≤ 32) (hx : x.toNat < 2 ^ k) :
    x ||| (b.toUInt32 <<< sh) = x + (b.toUInt32 <<< sh) ∧
    (x + (b.toUInt32 <<< sh)).toNat < 2 ^ (k + 8) := by
  have hb := b.toNat_lt
  have hk' : sh.toNat % 32 = k := by omega
  have h1 : b.toNat <<< k < 2 ^ (k + 8) := by
    rw [Nat.shiftLeft_eq, Nat.pow_add, Nat.mul_comm]
    exact Nat.mul_lt_mul_of_pos_left hb (Nat.two_pow_pos k)
  have h2 : 2 ^ (k + 8) ≤ 2 ^ 32 := Nat.pow_le_pow_right (by omega) hk
  have h3 : x.toNat + b.toNat <<< k < 2 ^ (k+8) := by
    rw [Nat.shiftLeft_eq] at *
    have : b.toNat * 2 ^ k ≤ 255 * 2 ^ k := Nat.mul_le_mul_right _ (by omega)
    have : 2 ^ (k+8) = 256 * 2 ^ k := by rw [Nat.pow_add, Nat.mul_comm]
    omega
  have hsum : (x + (b.toUInt32 <<< sh)).toNat = x.toNat + b.toNat <<< k := by
    simp only [UInt32.toNat_add, UInt32.toNat_shiftLeft, 
      UInt8.toNat_toUInt32, hk']
    rw [Nat.mod_eq_of_lt (a := b.toNat <<< k) (by omega), Nat.mod_eq_of_lt (by omega)]
  refine ⟨?_, by rw [hsum]; exact h3⟩
  apply UInt32.toNat_inj.mp
  rw [hsum]
  simp only [UInt32.toNat_or, UInt32.toNat_shiftLeft, 
    UInt8.toNat_toUInt32, hk']
  rw [Nat.mod_eq_of_lt (by omega)]
  rw [Nat.add_comm, Nat.shiftLeft_add_eq_or_of_lt hx, Nat.or_comm]

theorem or_add64 (x : UInt64) (b : UInt8) (k : Nat) (sh : UInt64) (hs : sh.toNat = k)
    (hk : k + 8 ≤ 64) (hx : x.toNat < 2 ^ k) :
    x ||| (b.toUInt64 <<< sh) = x + (b.toUInt64 <<< sh) ∧
    (x + (b.toUInt64 <<< sh)).toNat < 2 ^ (k + 8) := by
  have hb := b.toNat_lt
  have hk' : sh.toNat % 64 = k := by omega
  have h1 : b.toNat <<< k < 2 ^ (k + 8) := by
    rw [Nat.shiftLeft_eq, Nat.pow_add, Nat.mul_comm]
    exact Nat.mul_lt_mul_of_pos_left hb (Nat.two_pow_pos k)
  have h2 : 2 ^ (k + 8) ≤ 2 ^ 64 := Nat.pow_le_pow_right (by omega) hk
  have h3 : x.toNat + b.toNat <<< k < 2 ^ (k+8) := by
    rw [Nat.shiftLeft_eq] at *
    have : b.toNat * 2 ^ k ≤ 255 * 2 ^ k := Nat.mul_le_mul_right _ (by omega)
    have : 2 ^ (k+8) = 256 * 2 ^ k := by rw [Nat.pow_add, Nat.mul_comm]
    omega
  have hsum : (x + (b.toUInt64 <<< sh)).toNat = x.toNat + b.toNat <<< k := by
    simp only [UInt64.toNat_add, UInt64.toNat_shiftLeft, 
      UInt8.toNat_toUInt64, hk']
    rw [Nat.mod_eq_of_lt (a := b.toNat <<< k) (by omega), Nat.mod_eq_of_lt (by omega)]
  refine ⟨?_, by rw [hsum]; exact h3⟩
  apply UInt64.toNat_inj.mp
  rw [hsum]
  simp only [UInt64.toNat_or, UInt64.toNat_shiftLeft, 
    UInt8.toNat_toUInt64, hk']
  rw [Nat.mod_eq_of_lt (by omega)]
  rw [Nat.add_comm, Nat.shiftLeft_add_eq_or_of_lt hx, Nat.or_comm]

/-- a little-endian 32-bit load is the sum of its shifted bytes -/
theorem le32_eq_add (l : List UInt8) :
    le32 l = b32 l 0 + (b32 l 1 <<< 8) + (b32 l 2 <<< 16) + (b32 l 3 <<< 24) := by
  unfold le32 b32
  have h0 : ((l.getD 0 0).toUInt32).toNat < 2 ^ 8 := by
    rw [UInt8.toNat_toUInt32]; exact (l.getD 0 0).toNat_lt
  obtain ⟨e1, h1⟩ := or_add32 _ (l.getD 1 0) 8 8 (by decide) (by omega) h0
  obtain ⟨e2, h2⟩ := or_add32 _ (l.getD 2 0) 16 16 (by decide) (by omega) h1
  obtain ⟨e3, _⟩ := or_add32 _ (l.getD 3 0) 24 24 (by decide) (by omega) h2
  rw [e1, e2, e3]

/-- a little-endian 64-bit load is the sum of its shifted bytes -/
theorem le64_eq_add (l : List UInt8) :
    le64 l = b64 l 0 + (b64 l 1 <<< 8) + (b64 l 2 <<< 16) + (b64 l 3 <<< 24) +
      (b64 l 4 <<< 32) + (b64 l 5 <<< 40) + (b64 l 6 <<< 48) + (b64 l 7 <<< 56) := by
  unfold le64 b64
  have h0 : ((l.getD 0 0).toUInt64).toNat < 2 ^ 8 := by
    rw [UInt8.toNat_toUInt64]; exact (l.getD 0 0).toNat_lt
  obtain ⟨e1, h1⟩ := or_add64 _ (l.getD 1 0) 8 8 (by decide) (by omega) h0
  obtain ⟨e2, h2⟩ := or_add64 _ (l.getD 2 0) 16 16 (by decide) (by omega) h1
  obtain ⟨e3, h3⟩ := or_add64 _ (l.getD 3 0) 24 24 (by decide) (by omega) h2
  obtain ⟨e4, h4⟩ := or_add64 _ (l.getD 4 0) 32 32 (by decide) (by omega) h3
  obtain ⟨e5, h5⟩ := or_add64 _ (l.getD 5 0) 40 40 (by decide) (by omega) h4
  obtain ⟨e6, h6⟩ := or_add64 _ (l.getD 6 0) 48 48 (by decide) (by omega) h5
  obtain ⟨e7, _⟩ := or_add64 _ (l.getD 7 0) 56 56 (by decide) (by omega) h6
  rw [e1, e2, e3, e4, e5, e6, e7]

end UsualProofs.C16.Bytes
